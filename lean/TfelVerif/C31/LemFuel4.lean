/-
C31 — one iteration of the main loop consumes at least one character; the fuel is never exhausted.
-/
import TfelVerif.C31.LemFuel3

namespace TfelVerif.C31

theorem joinLen_pos (op : Opts) (r : List Char) (c1 c2 : Char) : 1 ≤ joinLen op r c1 c2 := by
  unfold joinLen
  split
  · split
    · split <;> omega
    · omega
  · omega

theorem drop_join_len (op : Opts) (c : Char) (r : List Char) (c1 c2 : Char) :
    ((c :: r).drop (joinLen op r c1 c2)).length ≤ r.length := by
  have := joinLen_pos op r c1 c2
  simp; omega

theorem tail_len (l : List Char) : l.tail.length ≤ l.length := by cases l <;> simp

theorem takeWord_fst_nonempty (op : Opts) (c : Char) (r : List Char)
    (h : (takeWord op (c :: r)).1.isEmpty = false) : (takeWord op (c :: r)).2.length ≤ r.length := by
  apply takeWord_nonempty
  intro e
  rw [e] at h
  simp at h

set_option hygiene false in
/-- closes a leaf of the case analysis of `stdStep`: `h` is what is left of the definition -/
macro "close_leaf" : tactic => `(tactic|
  (repeat' split at h
   all_goals
     first
     | (cases h; done)
     | (simp only [Except.ok.injEq, Prod.mk.injEq] at h
        obtain ⟨_, _, _, rfl⟩ := h
        first
        | exact Nat.le_refl _
        | exact drop_join_len _ _ _ _ _
        | (simp; done)
        | (have hq := parseNumber_len _ _ _ _ (by assumption); omega)
        | (have hq := parseNumber_len _ _ _ _ (by assumption); simp at hq ⊢; omega)
        | (have hq := parseString_len _ _ _ _ (by assumption); simp at hq; omega)
        | (have hq := parseChar_len _ _ _ (by assumption); simp at hq; omega)
        | (simp; omega))))

/-- every successful iteration leaves strictly less than `c :: r` -/
theorem stdStep_progress (op : Opts) (n : Nat) (s : St) (o : Nat) (prev c : Char) (r : List Char)
    (s' : St) (o' : Nat) (cons rest : List Char)
    (h : stdStep op n s o prev c r = .ok (s', o', cons, rest)) : rest.length ≤ r.length := by
  by_cases h1 : c = '#'
  · simp (config := { maxSteps := 4000000 }) only [stdStep, h1, ↓reduceIte] at h
    close_leaf
  simp (config := { maxSteps := 4000000 }) only [stdStep, h1, ↓reduceIte] at h
  by_cases h2 : c = '\\'
  · rw [if_pos h2] at h
    close_leaf
  rw [if_neg h2] at h
  by_cases h3 : isDigit c = true
  · rw [if_pos h3] at h
    close_leaf
  rw [if_neg h3] at h
  by_cases h4 : (decide (c = 'R') && decide (r.head? = some '"')) = true
  · rw [if_pos h4] at h
    -- raw string
    cases hd : rawDelimiter r.tail with
    | none => simp [hd] at h
    | some p =>
      obtain ⟨d, r2⟩ := p
      have hl1 := rawDelimiter_len _ d r2 hd
      have hl2 := tail_len r
      simp only [hd] at h
      cases hb : (rawBody d r2).2 with
      | none =>
        simp only [hb, Except.ok.injEq, Prod.mk.injEq] at h
        obtain ⟨_, _, _, rfl⟩ := h
        simp
      | some r3 =>
        have hl3 := rawBody_len d r2 r3 hb
        simp only [hb, Except.ok.injEq, Prod.mk.injEq] at h
        obtain ⟨_, _, _, rfl⟩ := h
        omega
  rw [if_neg h4] at h
  by_cases h5 : c = '"'
  · rw [if_pos h5] at h
    close_leaf
  rw [if_neg h5] at h
  by_cases h6 : c = '\''
  · rw [if_pos h6] at h
    close_leaf
  rw [if_neg h6] at h
  by_cases h7 : c = '<'
  · rw [if_pos h7] at h
    close_leaf
  rw [if_neg h7] at h
  by_cases h8 : c = '>'
  · rw [if_pos h8] at h
    close_leaf
  rw [if_neg h8] at h
  by_cases h9 : c = ':'
  · rw [if_pos h9] at h
    close_leaf
  rw [if_neg h9] at h
  by_cases h10 : (decide (c = '+') || decide (c = '-')) = true
  · rw [if_pos h10] at h
    close_leaf
  rw [if_neg h10] at h
  by_cases h11 : c = '/'
  · rw [if_pos h11] at h
    -- comments
    cases r with
    | nil =>
      simp only [Except.ok.injEq, Prod.mk.injEq] at h
      obtain ⟨_, _, _, rfl⟩ := h
      have := joinLen_pos op [] '=' '='
      simp
      omega
    | cons d r' =>
      simp only at h
      by_cases ha : (decide (d = '/') && op.treatCxxComments) = true
      · rw [if_pos ha] at h
        simp only [Except.ok.injEq, Prod.mk.injEq] at h
        obtain ⟨_, _, _, rfl⟩ := h
        simp
      · rw [if_neg ha] at h
        by_cases hb : (decide (d = '*') && op.treatCComments) = true
        · rw [if_pos hb] at h
          have hlen := parseCComment_len op n s o (c :: d :: r')
          generalize parseCComment op n s o (c :: d :: r') = pc at h hlen
          obtain ⟨s1, o1, b1⟩ := pc
          simp only [Except.ok.injEq, Prod.mk.injEq] at h
          obtain ⟨_, _, _, rfl⟩ := h
          simp at hlen ⊢
          omega
        · rw [if_neg hb] at h
          close_leaf
  rw [if_neg h11] at h
  by_cases h12 : (decide (c = '*') || decide (c = '%') || decide (c = '!') || decide (c = '=')) = true
  · rw [if_pos h12] at h
    close_leaf
  rw [if_neg h12] at h
  by_cases h13 : c = '&'
  · rw [if_pos h13] at h
    close_leaf
  rw [if_neg h13] at h
  by_cases h14 : c = '.'
  · rw [if_pos h14] at h
    close_leaf
  rw [if_neg h14] at h
  by_cases h15 : c = '|'
  · rw [if_pos h15] at h
    close_leaf
  rw [if_neg h15] at h
  -- a word or a single separator
  by_cases hw : (takeWord op (c :: r)).1.isEmpty = true
  · rw [if_pos hw] at h
    close_leaf
  · rw [if_neg hw] at h
    have := takeWord_fst_nonempty op c r (by simpa using hw)
    simp only [Except.ok.injEq, Prod.mk.injEq] at h
    obtain ⟨_, _, _, rfl⟩ := h
    exact this

/-- the result of the main loop does not depend on the fuel once it exceeds the length of what is left:
    the `out of fuel` branch of `stdLoop` is never taken from `parseStandardLine` (fuel = length + 1) -/
theorem stdLoop_fuel_irrelevant (op : Opts) (n : Nat) : ∀ (f1 f2 : Nat) (s : St) (o : Nat) (prev : Char)
    (l : List Char), l.length < f1 → l.length < f2 →
    stdLoop op n f1 s o prev l = stdLoop op n f2 s o prev l := by
  intro f1
  induction f1 with
  | zero => intro f2 s o prev l h1 _; exact absurd h1 (Nat.not_lt_zero _)
  | succ f1 ih =>
    intro f2 s o prev l h1 h2
    cases l with
    | nil => cases f2 <;> simp [stdLoop]
    | cons c r =>
      cases f2 with
      | zero => exact absurd h2 (Nat.not_lt_zero _)
      | succ f2 =>
        simp only [stdLoop]
        cases hs : stdStep op n s o prev c r with
        | error e => rfl
        | ok v =>
          obtain ⟨s', o', cons, rest⟩ := v
          have hp := stdStep_progress op n s o prev c r s' o' cons rest hs
          have hk := skipSpaces_len rest
          simp only [List.length_cons] at h1 h2
          simp only
          exact ih f2 _ _ _ _ (by omega) (by omega)

end TfelVerif.C31
