/-
C31 — one iteration of the main loop consumes at least one character; the fuel is never exhausted.
-/
import TfelVerif.C31.LemFuel3

namespace TfelVerif.C31

theorem joinLen_pos (op : Opts) (r : List Char) (c1 c2 : Char) : 1 ≤ joinLen op r c1 c2 := by
  unfold joinLen
  split
  · split
    · split <;> omega
    · omega
  · omega

theorem drop_join_len (op : Opts) (c : Char) (r : List Char) (c1 c2 : Char) :
    ((c :: r).drop (joinLen op r c1 c2)).length ≤ r.length := by
  have := joinLen_pos op r c1 c2
  simp; omega

theorem tail_len (l : List Char) : l.tail.length ≤ l.length := by cases l <;> simp

/-- every successful iteration leaves strictly less than `c :: r` -/
theorem stdStep_progress (op : Opts) (n : Nat) (s : St) (o : Nat) (prev c : Char) (r : List Char)
    (s' : St) (o' : Nat) (cons rest : List Char)
    (h : stdStep op n s o prev c r = .ok (s', o', cons, rest)) : rest.length ≤ r.length := by
  unfold stdStep at h
  simp only at h
  repeat' split at h
  all_goals
    first
    | (cases h; done)
    | (simp only [Except.ok.injEq, Prod.mk.injEq] at h
       obtain ⟨_, _, _, rfl⟩ := h
       first
       | exact Nat.le_refl _
       | exact drop_join_len _ _ _ _ _
       | (simp; done)
       | (have h1 := parseNumber_len _ _ _ _ (by assumption); omega)
       | (have h1 := parseString_len _ _ _ _ (by assumption); simp at h1; omega)
       | (have h1 := parseChar_len _ _ _ (by assumption); simp at h1; omega)
       | (have h1 := takeWord_nonempty _ _ _ (by simp_all); simp_all)
       | (simp; omega))
    | skip

end TfelVerif.C31
