/-
  C01 (continued) — spectral builders of stensor.ixx: `M diag(g l) Mᵀ` for the scalar overload of
  buildFromEigenValuesAndVectors, the logarithm / positive part / negative part builders (both overloads),
  the static computeIsotropicFunction overloads, and the closed-form 1D isotropic functions.
  `log`, `max`, `min`, `abs` are the recorded libm / std calls (uninterpreted symbols `fn.*`).
  `Gen2.*` is regenerated on every run from harness/C01/trace2.cxx.
-/
import TfelVerif.Common.M3
import TfelVerif.Common.Model
import TfelVerif.C01.Lemmas
import TfelVerif.C01.Gen2

namespace TfelVerif.C01.Props4
open TfelVerif TfelVerif.Mandel TfelVerif.C01
set_option linter.unusedVariables false

variable {K : Type} [Field K] (c c3 : K) (fn : Fns K)

/-! ## scalar-argument overload of `buildFromEigenValuesAndVectors` -/
theorem N3_buildFromEigenValuesAndVectors3 (hc : c * c = 2)
    (m00 m01 m02 m10 m11 m12 m20 m21 m22 l0 l1 l2 : K) :
    Gen2.N3_buildFromEigenValuesAndVectors3_all c c3 fn m00 m01 m02 m10 m11 m12 m20 m21 m22 l0 l1 l2
      = spectral3 c m00 m01 m02 m10 m11 m12 m20 m21 m22 l0 l1 l2 := by
  unfold spectral3; m3_eq hc
theorem N2_buildFromEigenValuesAndVectors3 (hc : c * c = 2)
    (m00 m01 m02 m10 m11 m12 m20 m21 m22 l0 l1 l2 : K) :
    Gen2.N2_buildFromEigenValuesAndVectors3_all c c3 fn m00 m01 m02 m10 m11 m12 m20 m21 m22 l0 l1 l2
      = spectral2 c m00 m01 m10 m11 l0 l1 l2 := by
  unfold spectral2; m3_eq hc
theorem N1_buildFromEigenValuesAndVectors3 (m00 m01 m02 m10 m11 m12 m20 m21 m22 l0 l1 l2 : K) :
    Gen2.N1_buildFromEigenValuesAndVectors3_all c c3 fn m00 m01 m02 m10 m11 m12 m20 m21 m22 l0 l1 l2
      = [l0, l1, l2] := by
  m3_unfold

/-! ## logarithm / positive part / negative part builders and the static `computeIsotropicFunction`:
`M diag(g l) Mᵀ` with `g = log`, `max 0 ·`, `min 0 ·`, an arbitrary function `f` (first half of each
list: `tvector` overload, second half: scalar overload; for `computeIsotropicFunction` the second half is
the overload taking the values `f(l)` directly). -/
theorem N3_buildLogarithm (hc : c * c = 2) (m00 m01 m02 m10 m11 m12 m20 m21 m22 l0 l1 l2 : K) :
    Gen2.N3_buildLogarithm_all c c3 fn m00 m01 m02 m10 m11 m12 m20 m21 m22 l0 l1 l2
      = spectral3 c m00 m01 m02 m10 m11 m12 m20 m21 m22 (fn.log l0) (fn.log l1) (fn.log l2)
        ++ spectral3 c m00 m01 m02 m10 m11 m12 m20 m21 m22 (fn.log l0) (fn.log l1) (fn.log l2) := by
  simp only [spectral3, M3.mandel3, List.cons_append, List.nil_append]; m3_eq hc
theorem N2_buildLogarithm (hc : c * c = 2) (m00 m01 m02 m10 m11 m12 m20 m21 m22 l0 l1 l2 : K) :
    Gen2.N2_buildLogarithm_all c c3 fn m00 m01 m02 m10 m11 m12 m20 m21 m22 l0 l1 l2
      = spectral2 c m00 m01 m10 m11 (fn.log l0) (fn.log l1) (fn.log l2)
        ++ spectral2 c m00 m01 m10 m11 (fn.log l0) (fn.log l1) (fn.log l2) := by
  simp only [spectral2, M3.mandel2, List.cons_append, List.nil_append]; m3_eq hc
theorem N1_buildLogarithm (m00 m01 m02 m10 m11 m12 m20 m21 m22 l0 l1 l2 : K) :
    Gen2.N1_buildLogarithm_all c c3 fn m00 m01 m02 m10 m11 m12 m20 m21 m22 l0 l1 l2
      = [fn.log l0, fn.log l1, fn.log l2, fn.log l0, fn.log l1, fn.log l2] := by
  m3_unfold

theorem N3_buildPositivePart (hc : c * c = 2) (m00 m01 m02 m10 m11 m12 m20 m21 m22 l0 l1 l2 : K) :
    Gen2.N3_buildPositivePart_all c c3 fn m00 m01 m02 m10 m11 m12 m20 m21 m22 l0 l1 l2
      = spectral3 c m00 m01 m02 m10 m11 m12 m20 m21 m22 (fn.max 0 l0) (fn.max 0 l1) (fn.max 0 l2)
        ++ spectral3 c m00 m01 m02 m10 m11 m12 m20 m21 m22 (fn.max 0 l0) (fn.max 0 l1) (fn.max 0 l2) := by
  simp only [spectral3, M3.mandel3, List.cons_append, List.nil_append]; m3_eq hc
theorem N2_buildPositivePart (hc : c * c = 2) (m00 m01 m02 m10 m11 m12 m20 m21 m22 l0 l1 l2 : K) :
    Gen2.N2_buildPositivePart_all c c3 fn m00 m01 m02 m10 m11 m12 m20 m21 m22 l0 l1 l2
      = spectral2 c m00 m01 m10 m11 (fn.max 0 l0) (fn.max 0 l1) (fn.max 0 l2)
        ++ spectral2 c m00 m01 m10 m11 (fn.max 0 l0) (fn.max 0 l1) (fn.max 0 l2) := by
  simp only [spectral2, M3.mandel2, List.cons_append, List.nil_append]; m3_eq hc
theorem N1_buildPositivePart (m00 m01 m02 m10 m11 m12 m20 m21 m22 l0 l1 l2 : K) :
    Gen2.N1_buildPositivePart_all c c3 fn m00 m01 m02 m10 m11 m12 m20 m21 m22 l0 l1 l2
      = [fn.max 0 l0, fn.max 0 l1, fn.max 0 l2, fn.max 0 l0, fn.max 0 l1, fn.max 0 l2] := by
  m3_unfold

theorem N3_buildNegativePart (hc : c * c = 2) (m00 m01 m02 m10 m11 m12 m20 m21 m22 l0 l1 l2 : K) :
    Gen2.N3_buildNegativePart_all c c3 fn m00 m01 m02 m10 m11 m12 m20 m21 m22 l0 l1 l2
      = spectral3 c m00 m01 m02 m10 m11 m12 m20 m21 m22 (fn.min 0 l0) (fn.min 0 l1) (fn.min 0 l2)
        ++ spectral3 c m00 m01 m02 m10 m11 m12 m20 m21 m22 (fn.min 0 l0) (fn.min 0 l1) (fn.min 0 l2) := by
  simp only [spectral3, M3.mandel3, List.cons_append, List.nil_append]; m3_eq hc
theorem N2_buildNegativePart (hc : c * c = 2) (m00 m01 m02 m10 m11 m12 m20 m21 m22 l0 l1 l2 : K) :
    Gen2.N2_buildNegativePart_all c c3 fn m00 m01 m02 m10 m11 m12 m20 m21 m22 l0 l1 l2
      = spectral2 c m00 m01 m10 m11 (fn.min 0 l0) (fn.min 0 l1) (fn.min 0 l2)
        ++ spectral2 c m00 m01 m10 m11 (fn.min 0 l0) (fn.min 0 l1) (fn.min 0 l2) := by
  simp only [spectral2, M3.mandel2, List.cons_append, List.nil_append]; m3_eq hc
theorem N1_buildNegativePart (m00 m01 m02 m10 m11 m12 m20 m21 m22 l0 l1 l2 : K) :
    Gen2.N1_buildNegativePart_all c c3 fn m00 m01 m02 m10 m11 m12 m20 m21 m22 l0 l1 l2
      = [fn.min 0 l0, fn.min 0 l1, fn.min 0 l2, fn.min 0 l0, fn.min 0 l1, fn.min 0 l2] := by
  m3_unfold

theorem N3_computeIsotropicFunction (hc : c * c = 2) (m00 m01 m02 m10 m11 m12 m20 m21 m22 l0 l1 l2 : K) :
    Gen2.N3_computeIsotropicFunction_all c c3 fn m00 m01 m02 m10 m11 m12 m20 m21 m22 l0 l1 l2
      = spectral3 c m00 m01 m02 m10 m11 m12 m20 m21 m22 (fn.call "f" [l0]) (fn.call "f" [l1]) (fn.call "f" [l2])
        ++ spectral3 c m00 m01 m02 m10 m11 m12 m20 m21 m22 l0 l1 l2 := by
  simp only [spectral3, M3.mandel3, List.cons_append, List.nil_append]; m3_eq hc
theorem N2_computeIsotropicFunction (hc : c * c = 2) (m00 m01 m02 m10 m11 m12 m20 m21 m22 l0 l1 l2 : K) :
    Gen2.N2_computeIsotropicFunction_all c c3 fn m00 m01 m02 m10 m11 m12 m20 m21 m22 l0 l1 l2
      = spectral2 c m00 m01 m10 m11 (fn.call "f" [l0]) (fn.call "f" [l1]) (fn.call "f" [l2])
        ++ spectral2 c m00 m01 m10 m11 l0 l1 l2 := by
  simp only [spectral2, M3.mandel2, List.cons_append, List.nil_append]; m3_eq hc
theorem N1_computeIsotropicFunction (m00 m01 m02 m10 m11 m12 m20 m21 m22 l0 l1 l2 : K) :
    Gen2.N1_computeIsotropicFunction_all c c3 fn m00 m01 m02 m10 m11 m12 m20 m21 m22 l0 l1 l2
      = [fn.call "f" [l0], fn.call "f" [l1], fn.call "f" [l2], l0, l1, l2] := by
  m3_unfold

/-! ## closed-form 1D isotropic functions (no eigen solver): component-wise on the diagonal -/
theorem N1_logarithm (s0 s1 s2 : K) :
    Gen2.N1_logarithm_all c c3 fn s0 s1 s2 = [fn.log s0, fn.log s1, fn.log s2] := by m3_unfold
theorem N1_absolute_value (s0 s1 s2 : K) :
    Gen2.N1_absolute_value_all c c3 fn s0 s1 s2 = [fn.abs s0, fn.abs s1, fn.abs s2] := by m3_unfold
theorem N1_positive_part (s0 s1 s2 : K) :
    Gen2.N1_positive_part_all c c3 fn s0 s1 s2 = [fn.max s0 0, fn.max s1 0, fn.max s2 0] := by m3_unfold
theorem N1_negative_part (s0 s1 s2 : K) :
    Gen2.N1_negative_part_all c c3 fn s0 s1 s2 = [fn.min s0 0, fn.min s1 0, fn.min s2 0] := by m3_unfold

end TfelVerif.C01.Props4
