/-
  C01 (continued) — further stensor operations of the anchored files with a 3×3 matrix meaning:
  adjugate (computeDeterminantDerivative) and its deviatoric variant, unary minus, stensor*stensor product,
  `abs`, `exportToBaseTypeArray`, and the 3D convertSecondPiolaKirchhoffStressToCorotationnalCauchyStress.
  (Props3: the other stress conversions; Props4: spectral builders and closed-form 1D isotropic functions.)
  `Gen2.*` is regenerated on every run from harness/C01/trace2.cxx.
-/
import TfelVerif.Common.M3
import TfelVerif.Common.Model
import TfelVerif.C01.Lemmas
import TfelVerif.C01.Gen2

namespace TfelVerif.C01.Props2
open TfelVerif TfelVerif.Mandel TfelVerif.C01
set_option linter.unusedVariables false

variable {K : Type} [Field K] (c c3 : K) (fn : Fns K)

/-! ## determinant derivative = adjugate; derivative of det(dev s) = dev (adj (dev A)) -/
theorem N3_detDerivative (hc : c * c = 2) (h2 : (2:K) ≠ 0) (a00 a11 a22 a01 a02 a12 : K) :
    Gen2.N3_detDerivative_all c c3 fn a00 a11 a22 (c*a01) (c*a02) (c*a12)
      = M3.mandel3 c (adj (M3.sym a00 a11 a22 a01 a02 a12)) := by
  unfold adj; m3_eq hc
theorem N2_detDerivative (hc : c * c = 2) (h2 : (2:K) ≠ 0) (a00 a11 a22 a01 : K) :
    Gen2.N2_detDerivative_all c c3 fn a00 a11 a22 (c*a01) = M3.mandel2 c (adj (M3.sym a00 a11 a22 a01 0 0)) := by
  unfold adj; m3_eq hc
theorem N1_detDerivative (hc : c * c = 2) (h2 : (2:K) ≠ 0) (a00 a11 a22 : K) :
    Gen2.N1_detDerivative_all c c3 fn a00 a11 a22 = M3.mandel1 (adj (M3.sym a00 a11 a22 0 0 0)) := by
  unfold adj; m3_eq hc
theorem N3_devDetDerivative (hc : c * c = 2) (h2 : (2:K) ≠ 0) (h3 : (3:K) ≠ 0) (a00 a11 a22 a01 a02 a12 : K) :
    Gen2.N3_devDetDerivative_all c c3 fn a00 a11 a22 (c*a01) (c*a02) (c*a12)
      = M3.mandel3 c (dev (adj (dev (M3.sym a00 a11 a22 a01 a02 a12)))) := by
  have h6 := six_ne_zero h2 h3
  have h9 := nine_ne_zero h3
  have h18 := eighteen_ne_zero h2 h3
  unfold dev adj; m3_eq hc
theorem N2_devDetDerivative (hc : c * c = 2) (h2 : (2:K) ≠ 0) (h3 : (3:K) ≠ 0) (a00 a11 a22 a01 : K) :
    Gen2.N2_devDetDerivative_all c c3 fn a00 a11 a22 (c*a01)
      = M3.mandel2 c (dev (adj (dev (M3.sym a00 a11 a22 a01 0 0)))) := by
  have h6 := six_ne_zero h2 h3
  have h9 := nine_ne_zero h3
  have h18 := eighteen_ne_zero h2 h3
  unfold dev adj; m3_eq hc
theorem N1_devDetDerivative (hc : c * c = 2) (h2 : (2:K) ≠ 0) (h3 : (3:K) ≠ 0) (a00 a11 a22 : K) :
    Gen2.N1_devDetDerivative_all c c3 fn a00 a11 a22 = M3.mandel1 (dev (adj (dev (M3.sym a00 a11 a22 0 0 0)))) := by
  have h9 := nine_ne_zero h3
  unfold dev adj; m3_eq hc

/-! ## unary minus, stensor * stensor (a non-symmetric tensor: the matrix product) -/
theorem N3_negate (hc : c * c = 2) (a00 a11 a22 a01 a02 a12 : K) :
    Gen2.N3_negate_all c c3 fn a00 a11 a22 (c*a01) (c*a02) (c*a12)
      = M3.mandel3 c ((-1 : K) • M3.sym a00 a11 a22 a01 a02 a12) := by
  m3_eq hc
theorem N2_negate (hc : c * c = 2) (a00 a11 a22 a01 : K) :
    Gen2.N2_negate_all c c3 fn a00 a11 a22 (c*a01) = M3.mandel2 c ((-1 : K) • M3.sym a00 a11 a22 a01 0 0) := by
  m3_eq hc
theorem N1_negate (hc : c * c = 2) (a00 a11 a22 : K) :
    Gen2.N1_negate_all c c3 fn a00 a11 a22 = M3.mandel1 ((-1 : K) • M3.sym a00 a11 a22 0 0 0) := by
  m3_eq hc
theorem N3_product (hc : c * c = 2) (h2 : (2:K) ≠ 0) (a00 a11 a22 a01 a02 a12 b00 b11 b22 b01 b02 b12 : K) :
    Gen2.N3_product_all c c3 fn a00 a11 a22 (c*a01) (c*a02) (c*a12) b00 b11 b22 (c*b01) (c*b02) (c*b12)
      = M3.tens3 (M3.sym a00 a11 a22 a01 a02 a12 * M3.sym b00 b11 b22 b01 b02 b12) := by
  m3_eq hc
theorem N2_product (hc : c * c = 2) (h2 : (2:K) ≠ 0) (a00 a11 a22 a01 b00 b11 b22 b01 : K) :
    Gen2.N2_product_all c c3 fn a00 a11 a22 (c*a01) b00 b11 b22 (c*b01)
      = M3.tens2 (M3.sym a00 a11 a22 a01 0 0 * M3.sym b00 b11 b22 b01 0 0) := by
  m3_eq hc
theorem N1_product (hc : c * c = 2) (h2 : (2:K) ≠ 0) (a00 a11 a22 b00 b11 b22 : K) :
    Gen2.N1_product_all c c3 fn a00 a11 a22 b00 b11 b22
      = M3.tens1 (M3.sym a00 a11 a22 0 0 0 * M3.sym b00 b11 b22 0 0 0) := by
  m3_eq hc

/-! ## `abs(s)`: sum of the absolute values of the stored (Mandel) components; `exportToBaseTypeArray`
copies the storage -/
theorem N3_abs (s0 s1 s2 s3 s4 s5 : K) :
    Gen2.N3_abs_r c c3 fn s0 s1 s2 s3 s4 s5
      = fn.abs s0 + fn.abs s1 + fn.abs s2 + fn.abs s3 + fn.abs s4 + fn.abs s5 := by
  m3_unfold
theorem N2_abs (s0 s1 s2 s3 : K) :
    Gen2.N2_abs_r c c3 fn s0 s1 s2 s3 = fn.abs s0 + fn.abs s1 + fn.abs s2 + fn.abs s3 := by
  m3_unfold
theorem N1_abs (s0 s1 s2 : K) :
    Gen2.N1_abs_r c c3 fn s0 s1 s2 = fn.abs s0 + fn.abs s1 + fn.abs s2 := by
  m3_unfold
theorem N3_exportToBaseTypeArray (x0 x1 x2 x3 x4 x5 : K) :
    Gen2.N3_exportToBaseTypeArray_all c c3 fn x0 x1 x2 x3 x4 x5 = [x0, x1, x2, x3, x4, x5] := by
  m3_unfold
theorem N2_exportToBaseTypeArray (x0 x1 x2 x3 : K) :
    Gen2.N2_exportToBaseTypeArray_all c c3 fn x0 x1 x2 x3 = [x0, x1, x2, x3] := by
  m3_unfold
theorem N1_exportToBaseTypeArray (x0 x1 x2 : K) :
    Gen2.N1_exportToBaseTypeArray_all c c3 fn x0 x1 x2 = [x0, x1, x2] := by
  m3_unfold

/-! ## stress conversions with a symmetric stretch `U`, `J = det U`:
`convertSecondPiolaKirchhoffStressToCorotationnalCauchyStress(S,U) = (1/J) U S U` and
`convertCorotationnalCauchyStressToSecondPiolaKirchhoffStress(s,U) = J U⁻¹ s U⁻¹ = (1/J) adj U s adj U`
(`adj U = J U⁻¹`, `adj_spec`). -/
theorem N3_convertPK2ToCauchy_den (hc : c * c = 2) (h2 : (2:K) ≠ 0)
    (a00 a11 a22 a01 a02 a12 u00 u11 u22 u01 u02 u12 : K) :
    Gen2.N3_convertPK2ToCauchy_den0 c c3 fn a00 a11 a22 (c*a01) (c*a02) (c*a12) u00 u11 u22 (c*u01) (c*u02) (c*u12)
      = (M3.sym u00 u11 u22 u01 u02 u12).det := by
  m3_eq hc
theorem N3_convertPK2ToCauchy (hc : c * c = 2) (h2 : (2:K) ≠ 0)
    (a00 a11 a22 a01 a02 a12 u00 u11 u22 u01 u02 u12 : K)
    (hd : (M3.sym u00 u11 u22 u01 u02 u12).det ≠ 0) :
    Gen2.N3_convertPK2ToCauchy_all c c3 fn a00 a11 a22 (c*a01) (c*a02) (c*a12) u00 u11 u22 (c*u01) (c*u02) (c*u12)
      = M3.mandel3 c ((1 / (M3.sym u00 u11 u22 u01 u02 u12).det) • (M3.sym u00 u11 u22 u01 u02 u12
          * M3.sym a00 a11 a22 a01 a02 a12 * M3.sym u00 u11 u22 u01 u02 u12)) := by
  rw [← N3_convertPK2ToCauchy_den c c3 fn hc h2 a00 a11 a22 a01 a02 a12] at hd ⊢
  m3_eq hc with hd

end TfelVerif.C01.Props2
