/-
  C01 (continued) — stress conversions with a symmetric stretch `U`, `J = det U` (2D/1D of
  convertSecondPiolaKirchhoffStressToCorotationnalCauchyStress; all dimensions of
  convertCorotationnalCauchyStressToSecondPiolaKirchhoffStress = J U⁻¹ s U⁻¹ = (1/J) adj U s adj U,
  `adj U = J U⁻¹` by `adj_spec`). `Gen2.*` is regenerated on every run from harness/C01/trace2.cxx.
-/
import TfelVerif.Common.M3
import TfelVerif.Common.Model
import TfelVerif.C01.Lemmas
import TfelVerif.C01.Gen2

namespace TfelVerif.C01.Props3
open TfelVerif TfelVerif.Mandel TfelVerif.C01
set_option linter.unusedVariables false

variable {K : Type} [Field K] (c c3 : K) (fn : Fns K)

theorem N2_convertPK2ToCauchy_den (hc : c * c = 2) (h2 : (2:K) ≠ 0)
    (a00 a11 a22 a01 u00 u11 u22 u01 : K) :
    Gen2.N2_convertPK2ToCauchy_den0 c c3 fn a00 a11 a22 (c*a01) u00 u11 u22 (c*u01)
      = (M3.sym u00 u11 u22 u01 0 0).det := by
  m3_eq hc
theorem N2_convertPK2ToCauchy (hc : c * c = 2) (h2 : (2:K) ≠ 0)
    (a00 a11 a22 a01 u00 u11 u22 u01 : K)
    (hd : (M3.sym u00 u11 u22 u01 0 0).det ≠ 0) :
    Gen2.N2_convertPK2ToCauchy_all c c3 fn a00 a11 a22 (c*a01) u00 u11 u22 (c*u01)
      = M3.mandel2 c ((1 / (M3.sym u00 u11 u22 u01 0 0).det) • (M3.sym u00 u11 u22 u01 0 0
          * M3.sym a00 a11 a22 a01 0 0 * M3.sym u00 u11 u22 u01 0 0)) := by
  rw [← N2_convertPK2ToCauchy_den c c3 fn hc h2 a00 a11 a22 a01] at hd ⊢
  m3_eq hc with hd
theorem N1_convertPK2ToCauchy (hc : c * c = 2) (h2 : (2:K) ≠ 0)
    (a00 a11 a22 u00 u11 u22 : K) (h0 : u00 ≠ 0) (h1 : u11 ≠ 0) (h2' : u22 ≠ 0) :
    Gen2.N1_convertPK2ToCauchy_all c c3 fn a00 a11 a22 u00 u11 u22
      = M3.mandel1 ((1 / (M3.sym u00 u11 u22 0 0 0).det) • (M3.sym u00 u11 u22 0 0 0
          * M3.sym a00 a11 a22 0 0 0 * M3.sym u00 u11 u22 0 0 0)) := by
  m3_eq hc

theorem N3_convertCauchyToPK2_den (hc : c * c = 2) (h2 : (2:K) ≠ 0)
    (a00 a11 a22 a01 a02 a12 u00 u11 u22 u01 u02 u12 : K) :
    Gen2.N3_convertCauchyToPK2_den0 c c3 fn a00 a11 a22 (c*a01) (c*a02) (c*a12) u00 u11 u22 (c*u01) (c*u02) (c*u12)
      = (M3.sym u00 u11 u22 u01 u02 u12).det := by
  m3_eq hc
theorem N3_convertCauchyToPK2 (hc : c * c = 2) (h2 : (2:K) ≠ 0)
    (a00 a11 a22 a01 a02 a12 u00 u11 u22 u01 u02 u12 : K)
    (hd : (M3.sym u00 u11 u22 u01 u02 u12).det ≠ 0) :
    Gen2.N3_convertCauchyToPK2_all c c3 fn a00 a11 a22 (c*a01) (c*a02) (c*a12) u00 u11 u22 (c*u01) (c*u02) (c*u12)
      = M3.mandel3 c ((1 / (M3.sym u00 u11 u22 u01 u02 u12).det) • (adj (M3.sym u00 u11 u22 u01 u02 u12)
          * M3.sym a00 a11 a22 a01 a02 a12 * adj (M3.sym u00 u11 u22 u01 u02 u12))) := by
  rw [← N3_convertCauchyToPK2_den c c3 fn hc h2 a00 a11 a22 a01 a02 a12] at hd ⊢
  unfold adj
  m3_eq hc with hd
theorem N2_convertCauchyToPK2_den (hc : c * c = 2) (h2 : (2:K) ≠ 0)
    (a00 a11 a22 a01 u00 u11 u22 u01 : K) :
    Gen2.N2_convertCauchyToPK2_den0 c c3 fn a00 a11 a22 (c*a01) u00 u11 u22 (c*u01)
      = (M3.sym u00 u11 u22 u01 0 0).det := by
  m3_eq hc
theorem N2_convertCauchyToPK2 (hc : c * c = 2) (h2 : (2:K) ≠ 0)
    (a00 a11 a22 a01 u00 u11 u22 u01 : K)
    (hd : (M3.sym u00 u11 u22 u01 0 0).det ≠ 0) :
    Gen2.N2_convertCauchyToPK2_all c c3 fn a00 a11 a22 (c*a01) u00 u11 u22 (c*u01)
      = M3.mandel2 c ((1 / (M3.sym u00 u11 u22 u01 0 0).det) • (adj (M3.sym u00 u11 u22 u01 0 0)
          * M3.sym a00 a11 a22 a01 0 0 * adj (M3.sym u00 u11 u22 u01 0 0))) := by
  have h22 : u22 ≠ 0 := by
    intro h; apply hd; simp only [M3.sym, M3.det, h]; ring
  rw [← N2_convertCauchyToPK2_den c c3 fn hc h2 a00 a11 a22 a01] at hd ⊢
  unfold adj
  m3_eq hc with hd
theorem N1_convertCauchyToPK2 (hc : c * c = 2) (h2 : (2:K) ≠ 0)
    (a00 a11 a22 u00 u11 u22 : K) (h0 : u00 ≠ 0) (h1 : u11 ≠ 0) (h2' : u22 ≠ 0) :
    Gen2.N1_convertCauchyToPK2_all c c3 fn a00 a11 a22 u00 u11 u22
      = M3.mandel1 ((1 / (M3.sym u00 u11 u22 0 0 0).det) • (adj (M3.sym u00 u11 u22 0 0 0)
          * M3.sym a00 a11 a22 0 0 0 * adj (M3.sym u00 u11 u22 0 0 0))) := by
  unfold adj
  m3_eq hc

end TfelVerif.C01.Props3
