/-
  C01 — Symmetric tensor algebra matches its 3×3 matrix meaning.

  Property theorems only. `Gen.*` are the definitions regenerated on every run from the
  instantiation of the real TFEL templates (`stensor<N,Sym>`) by harness/C01/trace.cxx.
  `M3` is the explicit 3×3 matrix type of Common/M3.lean, tied to Mathlib's `Matrix` by the
  bridge theorems `M3.toMatrix_*`.

  Conventions. `c` is any element with `c * c = 2` in a field of characteristic ≠ 2 (ℝ with √2:
  Common/Model.lean). A 3D symmetric tensor with matrix `A = sym a00 a11 a22 a01 a02 a12` is stored
  as `(a00, a11, a22, c a01, c a02, c a12)`; in 2D `a02 = a12 = 0` are not stored; in 1D only the
  diagonal is. Each theorem feeds the generated code the storage of `A` and states that its result
  is the storage of `op A`.
-/
import TfelVerif.Common.M3
import TfelVerif.Common.Model
import TfelVerif.C01.Gen

namespace TfelVerif.C01.Props
open TfelVerif TfelVerif.Mandel TfelVerif.C01
set_option linter.unusedVariables false

variable {K : Type} [Field K] (c c3 : K) (fn : Fns K)

/-! ## trace, determinant -/
theorem N3_trace (hc : c * c = 2) (h2 : (2:K) ≠ 0) (a00 a11 a22 a01 a02 a12 : K) :
    Gen.N3_trace_r c c3 fn a00 a11 a22 (c*a01) (c*a02) (c*a12) = (M3.sym a00 a11 a22 a01 a02 a12).trace := by
  m3_eq hc
theorem N2_trace (hc : c * c = 2) (h2 : (2:K) ≠ 0) (a00 a11 a22 a01 : K) :
    Gen.N2_trace_r c c3 fn a00 a11 a22 (c*a01) = (M3.sym a00 a11 a22 a01 0 0).trace := by
  m3_eq hc
theorem N1_trace (a00 a11 a22 : K) :
    Gen.N1_trace_r c c3 fn a00 a11 a22 = (M3.sym a00 a11 a22 0 0 0).trace := by
  m3_unfold

theorem N3_det (hc : c * c = 2) (h2 : (2:K) ≠ 0) (a00 a11 a22 a01 a02 a12 : K) :
    Gen.N3_det_r c c3 fn a00 a11 a22 (c*a01) (c*a02) (c*a12) = (M3.sym a00 a11 a22 a01 a02 a12).det := by
  m3_eq hc
theorem N2_det (hc : c * c = 2) (h2 : (2:K) ≠ 0) (a00 a11 a22 a01 : K) :
    Gen.N2_det_r c c3 fn a00 a11 a22 (c*a01) = (M3.sym a00 a11 a22 a01 0 0).det := by
  m3_eq hc
theorem N1_det (hc : c * c = 2) (h2 : (2:K) ≠ 0) (a00 a11 a22 : K) :
    Gen.N1_det_r c c3 fn a00 a11 a22 = (M3.sym a00 a11 a22 0 0 0).det := by
  m3_eq hc

/-! ## inverse: `A * invert A = 1` whenever `det A ≠ 0` -/
theorem N3_invert_den (hc : c * c = 2) (h2 : (2:K) ≠ 0) (a00 a11 a22 a01 a02 a12 : K) :
    Gen.N3_invert_den0 c c3 fn a00 a11 a22 (c*a01) (c*a02) (c*a12) = (M3.sym a00 a11 a22 a01 a02 a12).det := by
  m3_eq hc
theorem N3_invert (hc : c * c = 2) (h2 : (2:K) ≠ 0) (a00 a11 a22 a01 a02 a12 : K)
    (hd : (M3.sym a00 a11 a22 a01 a02 a12).det ≠ 0) :
    M3.sym a00 a11 a22 a01 a02 a12
      * M3.ofMandel c (Gen.N3_invert_all c c3 fn a00 a11 a22 (c*a01) (c*a02) (c*a12)) = 1 := by
  have hc0 : c ≠ 0 := c_ne_zero hc h2
  rw [← N3_invert_den c c3 fn hc h2] at hd
  m3_eq hc with hd
theorem N2_invert_den (hc : c * c = 2) (h2 : (2:K) ≠ 0) (a00 a11 a22 a01 : K) :
    Gen.N2_invert_den0 c c3 fn a00 a11 a22 (c*a01) = (M3.sym a00 a11 a22 a01 0 0).det := by
  m3_eq hc
theorem N2_invert (hc : c * c = 2) (h2 : (2:K) ≠ 0) (a00 a11 a22 a01 : K)
    (hd : (M3.sym a00 a11 a22 a01 0 0).det ≠ 0) :
    M3.sym a00 a11 a22 a01 0 0 * M3.ofMandel c (Gen.N2_invert_all c c3 fn a00 a11 a22 (c*a01)) = 1 := by
  have hc0 : c ≠ 0 := c_ne_zero hc h2
  have h22 : a22 ≠ 0 := by
    intro h; apply hd; simp only [M3.sym, M3.det, h]; ring
  rw [← N2_invert_den c c3 fn hc h2] at hd
  m3_eq hc with hd
theorem N1_invert (hc : c * c = 2) (h2 : (2:K) ≠ 0) (a00 a11 a22 : K)
    (h0 : a00 ≠ 0) (h1 : a11 ≠ 0) (h2' : a22 ≠ 0) :
    M3.sym a00 a11 a22 0 0 0 * M3.ofMandel c (Gen.N1_invert_all c c3 fn a00 a11 a22) = 1 := by
  m3_eq hc

/-! ## square, symmetric product `(AB + BA)/2` (docs/web/tensors.md), deviator -/
theorem N3_square (hc : c * c = 2) (h2 : (2:K) ≠ 0) (a00 a11 a22 a01 a02 a12 : K) :
    Gen.N3_square_all c c3 fn a00 a11 a22 (c*a01) (c*a02) (c*a12)
      = M3.mandel3 c (M3.sym a00 a11 a22 a01 a02 a12 * M3.sym a00 a11 a22 a01 a02 a12) := by
  m3_eq hc
theorem N2_square (hc : c * c = 2) (h2 : (2:K) ≠ 0) (a00 a11 a22 a01 : K) :
    Gen.N2_square_all c c3 fn a00 a11 a22 (c*a01)
      = M3.mandel2 c (M3.sym a00 a11 a22 a01 0 0 * M3.sym a00 a11 a22 a01 0 0) := by
  m3_eq hc
theorem N1_square (hc : c * c = 2) (h2 : (2:K) ≠ 0) (a00 a11 a22 : K) :
    Gen.N1_square_all c c3 fn a00 a11 a22
      = M3.mandel1 (M3.sym a00 a11 a22 0 0 0 * M3.sym a00 a11 a22 0 0 0) := by
  m3_eq hc

theorem N3_symmetric_product (hc : c * c = 2) (h2 : (2:K) ≠ 0)
    (a00 a11 a22 a01 a02 a12 b00 b11 b22 b01 b02 b12 : K) :
    Gen.N3_symmetric_product_all c c3 fn a00 a11 a22 (c*a01) (c*a02) (c*a12) b00 b11 b22 (c*b01) (c*b02) (c*b12)
      = M3.mandel3 c ((1/2 : K) • (M3.sym a00 a11 a22 a01 a02 a12 * M3.sym b00 b11 b22 b01 b02 b12
                                   + M3.sym b00 b11 b22 b01 b02 b12 * M3.sym a00 a11 a22 a01 a02 a12)) := by
  m3_eq hc
theorem N2_symmetric_product (hc : c * c = 2) (h2 : (2:K) ≠ 0) (a00 a11 a22 a01 b00 b11 b22 b01 : K) :
    Gen.N2_symmetric_product_all c c3 fn a00 a11 a22 (c*a01) b00 b11 b22 (c*b01)
      = M3.mandel2 c ((1/2 : K) • (M3.sym a00 a11 a22 a01 0 0 * M3.sym b00 b11 b22 b01 0 0
                                   + M3.sym b00 b11 b22 b01 0 0 * M3.sym a00 a11 a22 a01 0 0)) := by
  m3_eq hc
theorem N1_symmetric_product (hc : c * c = 2) (h2 : (2:K) ≠ 0) (a00 a11 a22 b00 b11 b22 : K) :
    Gen.N1_symmetric_product_all c c3 fn a00 a11 a22 b00 b11 b22
      = M3.mandel1 ((1/2 : K) • (M3.sym a00 a11 a22 0 0 0 * M3.sym b00 b11 b22 0 0 0
                                   + M3.sym b00 b11 b22 0 0 0 * M3.sym a00 a11 a22 0 0 0)) := by
  m3_eq hc

/-- deviator of a matrix: `A - (tr A / 3) 1` -/
def dev (A : M3 K) : M3 K := A - (A.trace / 3) • (1 : M3 K)

theorem N3_deviator (hc : c * c = 2) (h2 : (2:K) ≠ 0) (h3 : (3:K) ≠ 0) (a00 a11 a22 a01 a02 a12 : K) :
    Gen.N3_deviator_all c c3 fn a00 a11 a22 (c*a01) (c*a02) (c*a12)
      = M3.mandel3 c (dev (M3.sym a00 a11 a22 a01 a02 a12)) := by
  unfold dev; m3_eq hc
theorem N2_deviator (hc : c * c = 2) (h2 : (2:K) ≠ 0) (h3 : (3:K) ≠ 0) (a00 a11 a22 a01 : K) :
    Gen.N2_deviator_all c c3 fn a00 a11 a22 (c*a01) = M3.mandel2 c (dev (M3.sym a00 a11 a22 a01 0 0)) := by
  unfold dev; m3_eq hc
theorem N1_deviator (hc : c * c = 2) (h2 : (2:K) ≠ 0) (h3 : (3:K) ≠ 0) (a00 a11 a22 : K) :
    Gen.N1_deviator_all c c3 fn a00 a11 a22 = M3.mandel1 (dev (M3.sym a00 a11 a22 0 0 0)) := by
  unfold dev; m3_eq hc

/-! ## von Mises norm: `sqrt (3/2 dev A : dev A)`; `sqrt` itself is the libm call (uninterpreted) -/
theorem N3_sigmaeq (hc : c * c = 2) (h2 : (2:K) ≠ 0) (h3 : (3:K) ≠ 0) (a00 a11 a22 a01 a02 a12 : K) :
    Gen.N3_sigmaeq_r c c3 fn a00 a11 a22 (c*a01) (c*a02) (c*a12)
      = fn.sqrt ((3/2 : K) * (dev (M3.sym a00 a11 a22 a01 a02 a12)).frob (dev (M3.sym a00 a11 a22 a01 a02 a12))) := by
  unfold dev; m3_unfold; congr 1; mandel_ring hc
theorem N2_sigmaeq (hc : c * c = 2) (h2 : (2:K) ≠ 0) (h3 : (3:K) ≠ 0) (a00 a11 a22 a01 : K) :
    Gen.N2_sigmaeq_r c c3 fn a00 a11 a22 (c*a01)
      = fn.sqrt ((3/2 : K) * (dev (M3.sym a00 a11 a22 a01 0 0)).frob (dev (M3.sym a00 a11 a22 a01 0 0))) := by
  unfold dev; m3_unfold; congr 1; mandel_ring hc
theorem N1_sigmaeq (hc : c * c = 2) (h2 : (2:K) ≠ 0) (h3 : (3:K) ≠ 0) (a00 a11 a22 : K) :
    Gen.N1_sigmaeq_r c c3 fn a00 a11 a22
      = fn.sqrt ((3/2 : K) * (dev (M3.sym a00 a11 a22 0 0 0)).frob (dev (M3.sym a00 a11 a22 0 0 0))) := by
  unfold dev; m3_unfold; congr 1; mandel_ring hc

/-! ## contraction `s | t` is the Frobenius inner product -/
theorem N3_contract (hc : c * c = 2) (h2 : (2:K) ≠ 0) (a00 a11 a22 a01 a02 a12 b00 b11 b22 b01 b02 b12 : K) :
    Gen.N3_contract_r c c3 fn a00 a11 a22 (c*a01) (c*a02) (c*a12) b00 b11 b22 (c*b01) (c*b02) (c*b12)
      = (M3.sym a00 a11 a22 a01 a02 a12).frob (M3.sym b00 b11 b22 b01 b02 b12) := by
  m3_eq hc
theorem N2_contract (hc : c * c = 2) (h2 : (2:K) ≠ 0) (a00 a11 a22 a01 b00 b11 b22 b01 : K) :
    Gen.N2_contract_r c c3 fn a00 a11 a22 (c*a01) b00 b11 b22 (c*b01)
      = (M3.sym a00 a11 a22 a01 0 0).frob (M3.sym b00 b11 b22 b01 0 0) := by
  m3_eq hc
theorem N1_contract (hc : c * c = 2) (h2 : (2:K) ≠ 0) (a00 a11 a22 b00 b11 b22 : K) :
    Gen.N1_contract_r c c3 fn a00 a11 a22 b00 b11 b22
      = (M3.sym a00 a11 a22 0 0 0).frob (M3.sym b00 b11 b22 0 0 0) := by
  m3_eq hc

/-! ## linear structure through expression templates: `a*s + t - s/a` -/
theorem N3_add_scale (hc : c * c = 2) (h2 : (2:K) ≠ 0) (a00 a11 a22 a01 a02 a12 b00 b11 b22 b01 b02 b12 a : K)
    (ha : a ≠ 0) :
    Gen.N3_add_scale_all c c3 fn a00 a11 a22 (c*a01) (c*a02) (c*a12) b00 b11 b22 (c*b01) (c*b02) (c*b12) a
      = M3.mandel3 c (a • M3.sym a00 a11 a22 a01 a02 a12 + M3.sym b00 b11 b22 b01 b02 b12
                      - (1/a) • M3.sym a00 a11 a22 a01 a02 a12) := by
  m3_eq hc
theorem N2_add_scale (hc : c * c = 2) (h2 : (2:K) ≠ 0) (a00 a11 a22 a01 b00 b11 b22 b01 a : K) (ha : a ≠ 0) :
    Gen.N2_add_scale_all c c3 fn a00 a11 a22 (c*a01) b00 b11 b22 (c*b01) a
      = M3.mandel2 c (a • M3.sym a00 a11 a22 a01 0 0 + M3.sym b00 b11 b22 b01 0 0
                      - (1/a) • M3.sym a00 a11 a22 a01 0 0) := by
  m3_eq hc
theorem N1_add_scale (hc : c * c = 2) (h2 : (2:K) ≠ 0) (a00 a11 a22 b00 b11 b22 a : K) (ha : a ≠ 0) :
    Gen.N1_add_scale_all c c3 fn a00 a11 a22 b00 b11 b22 a
      = M3.mandel1 (a • M3.sym a00 a11 a22 0 0 0 + M3.sym b00 b11 b22 0 0 0 - (1/a) • M3.sym a00 a11 a22 0 0 0) := by
  m3_eq hc

/-! ## change of basis: `change_basis(s, R)` is `Rᵀ A R` for *every* matrix `R` (the identity is
polynomial; orthogonality of `R` is not needed). In 2D only the in-plane block of `R` is used; in 1D
the tensor is unchanged. The member function `changeBasis` agrees with the free function. -/
theorem N3_change_basis (hc : c * c = 2) (h2 : (2:K) ≠ 0)
    (a00 a11 a22 a01 a02 a12 r00 r01 r02 r10 r11 r12 r20 r21 r22 : K) :
    Gen.N3_change_basis_all c c3 fn a00 a11 a22 (c*a01) (c*a02) (c*a12) r00 r01 r02 r10 r11 r12 r20 r21 r22
      = M3.mandel3 c ((M3.mk r00 r01 r02 r10 r11 r12 r20 r21 r22).transpose
                      * M3.sym a00 a11 a22 a01 a02 a12 * M3.mk r00 r01 r02 r10 r11 r12 r20 r21 r22) := by
  m3_eq hc
theorem N2_change_basis (hc : c * c = 2) (h2 : (2:K) ≠ 0)
    (a00 a11 a22 a01 r00 r01 r02 r10 r11 r12 r20 r21 r22 : K) :
    Gen.N2_change_basis_all c c3 fn a00 a11 a22 (c*a01) r00 r01 r02 r10 r11 r12 r20 r21 r22
      = M3.mandel2 c ((M3.mk r00 r01 0 r10 r11 0 0 0 1).transpose
                      * M3.sym a00 a11 a22 a01 0 0 * M3.mk r00 r01 0 r10 r11 0 0 0 1) := by
  m3_eq hc
theorem N1_change_basis (a00 a11 a22 r00 r01 r02 r10 r11 r12 r20 r21 r22 : K) :
    Gen.N1_change_basis_all c c3 fn a00 a11 a22 r00 r01 r02 r10 r11 r12 r20 r21 r22 = [a00, a11, a22] := by
  m3_unfold
theorem N3_changeBasis_member (a00 a11 a22 s3 s4 s5 r00 r01 r02 r10 r11 r12 r20 r21 r22 : K) :
    Gen.N3_changeBasis_member_all c c3 fn a00 a11 a22 s3 s4 s5 r00 r01 r02 r10 r11 r12 r20 r21 r22
      = Gen.N3_change_basis_all c c3 fn a00 a11 a22 s3 s4 s5 r00 r01 r02 r10 r11 r12 r20 r21 r22 := by
  m3_unfold; repeat' apply And.intro
  all_goals first | trivial | ring1
theorem N2_changeBasis_member (a00 a11 a22 s3 r00 r01 r02 r10 r11 r12 r20 r21 r22 : K) :
    Gen.N2_changeBasis_member_all c c3 fn a00 a11 a22 s3 r00 r01 r02 r10 r11 r12 r20 r21 r22
      = Gen.N2_change_basis_all c c3 fn a00 a11 a22 s3 r00 r01 r02 r10 r11 r12 r20 r21 r22 := by
  m3_unfold; repeat' apply And.intro
  all_goals first | trivial | ring1

/-! ## builders -/
theorem N3_buildFromMatrix (hc : c * c = 2) (h2 : (2:K) ≠ 0) (m00 m01 m02 m10 m11 m12 m20 m21 m22 : K) :
    Gen.N3_buildFromMatrix_all c c3 fn m00 m01 m02 m10 m11 m12 m20 m21 m22
      = M3.mandel3 c ((1/2 : K) • (M3.mk m00 m01 m02 m10 m11 m12 m20 m21 m22
                                   + (M3.mk m00 m01 m02 m10 m11 m12 m20 m21 m22).transpose)) := by
  m3_eq hc
theorem N2_buildFromMatrix (hc : c * c = 2) (h2 : (2:K) ≠ 0) (m00 m01 m02 m10 m11 m12 m20 m21 m22 : K) :
    Gen.N2_buildFromMatrix_all c c3 fn m00 m01 m02 m10 m11 m12 m20 m21 m22
      = M3.mandel2 c ((1/2 : K) • (M3.mk m00 m01 m02 m10 m11 m12 m20 m21 m22
                                   + (M3.mk m00 m01 m02 m10 m11 m12 m20 m21 m22).transpose)) := by
  m3_eq hc
theorem N1_buildFromMatrix (hc : c * c = 2) (h2 : (2:K) ≠ 0) (m00 m01 m02 m10 m11 m12 m20 m21 m22 : K) :
    Gen.N1_buildFromMatrix_all c c3 fn m00 m01 m02 m10 m11 m12 m20 m21 m22
      = M3.mandel1 ((1/2 : K) • (M3.mk m00 m01 m02 m10 m11 m12 m20 m21 m22
                                   + (M3.mk m00 m01 m02 m10 m11 m12 m20 m21 m22).transpose)) := by
  m3_eq hc

theorem N3_buildFromVectorDiadicProduct (hc : c * c = 2) (v0 v1 v2 : K) :
    Gen.N3_buildFromVectorDiadicProduct_all c c3 fn v0 v1 v2 = M3.mandel3 c (M3.outer v0 v1 v2 v0 v1 v2) := by
  m3_eq hc
theorem N2_buildFromVectorDiadicProduct (hc : c * c = 2) (v0 v1 v2 : K) :
    Gen.N2_buildFromVectorDiadicProduct_all c c3 fn v0 v1 v2 = M3.mandel2 c (M3.outer v0 v1 v2 v0 v1 v2) := by
  m3_eq hc
theorem N1_buildFromVectorDiadicProduct (hc : c * c = 2) (v0 v1 v2 : K) :
    Gen.N1_buildFromVectorDiadicProduct_all c c3 fn v0 v1 v2 = M3.mandel1 (M3.outer v0 v1 v2 v0 v1 v2) := by
  m3_eq hc

theorem N3_buildFromVectorsSymmetricDiadicProduct (hc : c * c = 2) (v0 v1 v2 w0 w1 w2 : K) :
    Gen.N3_buildFromVectorsSymmetricDiadicProduct_all c c3 fn v0 v1 v2 w0 w1 w2
      = M3.mandel3 c (M3.outer v0 v1 v2 w0 w1 w2 + M3.outer w0 w1 w2 v0 v1 v2) := by
  m3_eq hc
theorem N2_buildFromVectorsSymmetricDiadicProduct (hc : c * c = 2) (v0 v1 v2 w0 w1 w2 : K) :
    Gen.N2_buildFromVectorsSymmetricDiadicProduct_all c c3 fn v0 v1 v2 w0 w1 w2
      = M3.mandel2 c (M3.outer v0 v1 v2 w0 w1 w2 + M3.outer w0 w1 w2 v0 v1 v2) := by
  m3_eq hc
theorem N1_buildFromVectorsSymmetricDiadicProduct (hc : c * c = 2) (v0 v1 v2 w0 w1 w2 : K) :
    Gen.N1_buildFromVectorsSymmetricDiadicProduct_all c c3 fn v0 v1 v2 w0 w1 w2
      = M3.mandel1 (M3.outer v0 v1 v2 w0 w1 w2 + M3.outer w0 w1 w2 v0 v1 v2) := by
  m3_eq hc

/-- `M diag(l) Mᵀ` (columns of `M` are the eigenvectors) -/
theorem N3_buildFromEigenValuesAndVectors (hc : c * c = 2)
    (m00 m01 m02 m10 m11 m12 m20 m21 m22 l0 l1 l2 : K) :
    Gen.N3_buildFromEigenValuesAndVectors_all c c3 fn m00 m01 m02 m10 m11 m12 m20 m21 m22 l0 l1 l2
      = M3.mandel3 c (M3.mk m00 m01 m02 m10 m11 m12 m20 m21 m22 * M3.diag l0 l1 l2
                      * (M3.mk m00 m01 m02 m10 m11 m12 m20 m21 m22).transpose) := by
  m3_eq hc
theorem N2_buildFromEigenValuesAndVectors (hc : c * c = 2)
    (m00 m01 m02 m10 m11 m12 m20 m21 m22 l0 l1 l2 : K) :
    Gen.N2_buildFromEigenValuesAndVectors_all c c3 fn m00 m01 m02 m10 m11 m12 m20 m21 m22 l0 l1 l2
      = M3.mandel2 c (M3.mk m00 m01 0 m10 m11 0 0 0 1 * M3.diag l0 l1 l2
                      * (M3.mk m00 m01 0 m10 m11 0 0 0 1).transpose) := by
  m3_eq hc
theorem N1_buildFromEigenValuesAndVectors (m00 m01 m02 m10 m11 m12 m20 m21 m22 l0 l1 l2 : K) :
    Gen.N1_buildFromEigenValuesAndVectors_all c c3 fn m00 m01 m02 m10 m11 m12 m20 m21 m22 l0 l1 l2
      = [l0, l1, l2] := by
  m3_unfold

/-! ## import / export: `importTab` reads `(s00,s11,s22,s01,s02,s12)`, `importVoigt` reads
engineering strains `(e00,e11,e22,2e01,2e02,2e12)`, `exportTab` is the inverse of `importTab`,
`import`/`write` copy the Mandel storage unchanged. -/
theorem N3_importTab (x0 x1 x2 x3 x4 x5 : K) :
    Gen.N3_importTab_all c c3 fn x0 x1 x2 x3 x4 x5 = M3.mandel3 c (M3.sym x0 x1 x2 x3 x4 x5) := by
  m3_unfold; repeat' apply And.intro
  all_goals first | trivial | ring1
theorem N2_importTab (x0 x1 x2 x3 : K) :
    Gen.N2_importTab_all c c3 fn x0 x1 x2 x3 = M3.mandel2 c (M3.sym x0 x1 x2 x3 0 0) := by
  m3_unfold; repeat' apply And.intro
  all_goals first | trivial | ring1
theorem N1_importTab (x0 x1 x2 : K) :
    Gen.N1_importTab_all c c3 fn x0 x1 x2 = M3.mandel1 (M3.sym x0 x1 x2 0 0 0) := by
  m3_unfold
theorem N3_exportTab (hc : c * c = 2) (h2 : (2:K) ≠ 0) (a00 a11 a22 a01 a02 a12 : K) :
    Gen.N3_exportTab_all c c3 fn a00 a11 a22 (c*a01) (c*a02) (c*a12) = [a00, a11, a22, a01, a02, a12] := by
  m3_eq hc
theorem N2_exportTab (hc : c * c = 2) (h2 : (2:K) ≠ 0) (a00 a11 a22 a01 : K) :
    Gen.N2_exportTab_all c c3 fn a00 a11 a22 (c*a01) = [a00, a11, a22, a01] := by
  m3_eq hc
theorem N1_exportTab (a00 a11 a22 : K) :
    Gen.N1_exportTab_all c c3 fn a00 a11 a22 = [a00, a11, a22] := by
  m3_unfold
/-- `exportTab ∘ importTab = id` (the converse composition is `N3_exportTab` read with
`N3_importTab`: both are stated against the same matrix). -/
theorem N3_exportTab_importTab (hc : c * c = 2) (h2 : (2:K) ≠ 0) (x0 x1 x2 x3 x4 x5 : K) :
    (match Gen.N3_importTab_all c c3 fn x0 x1 x2 x3 x4 x5 with
     | [s0, s1, s2, s3, s4, s5] => Gen.N3_exportTab_all c c3 fn s0 s1 s2 s3 s4 s5
     | _ => []) = [x0, x1, x2, x3, x4, x5] := by
  rw [N3_importTab]; simp only [M3.mandel3, M3.sym]; exact N3_exportTab c c3 fn hc h2 ..
theorem N3_importVoigt (hc : c * c = 2) (h2 : (2:K) ≠ 0) (x0 x1 x2 x3 x4 x5 : K) :
    Gen.N3_importVoigt_all c c3 fn x0 x1 x2 x3 x4 x5 = M3.mandel3 c (M3.sym x0 x1 x2 (x3/2) (x4/2) (x5/2)) := by
  m3_eq hc
theorem N2_importVoigt (hc : c * c = 2) (h2 : (2:K) ≠ 0) (x0 x1 x2 x3 : K) :
    Gen.N2_importVoigt_all c c3 fn x0 x1 x2 x3 = M3.mandel2 c (M3.sym x0 x1 x2 (x3/2) 0 0) := by
  m3_eq hc
theorem N1_importVoigt (x0 x1 x2 : K) :
    Gen.N1_importVoigt_all c c3 fn x0 x1 x2 = [x0, x1, x2] := by
  m3_unfold
theorem N3_import_write (x0 x1 x2 x3 x4 x5 : K) :
    Gen.N3_import_write_all c c3 fn x0 x1 x2 x3 x4 x5 = [x0, x1, x2, x3, x4, x5] := by
  m3_unfold
theorem N2_import_write (x0 x1 x2 x3 : K) :
    Gen.N2_import_write_all c c3 fn x0 x1 x2 x3 = [x0, x1, x2, x3] := by
  m3_unfold
theorem N1_import_write (x0 x1 x2 : K) :
    Gen.N1_import_write_all c c3 fn x0 x1 x2 = [x0, x1, x2] := by
  m3_unfold

/-! ## getComponent / setComponent address the matrix entries -/
theorem N3_getComponent (hc : c * c = 2) (h2 : (2:K) ≠ 0) (a00 a11 a22 a01 a02 a12 : K) :
    Gen.N3_getComponent_all c c3 fn a00 a11 a22 (c*a01) (c*a02) (c*a12)
      = [a00, a01, a02, a01, a11, a12, a02, a12, a22] := by
  m3_eq hc
theorem N2_getComponent (hc : c * c = 2) (h2 : (2:K) ≠ 0) (a00 a11 a22 a01 : K) :
    Gen.N2_getComponent_all c c3 fn a00 a11 a22 (c*a01) = [a00, a01, a01, a11, a22] := by
  m3_eq hc
theorem N1_getComponent (a00 a11 a22 : K) :
    Gen.N1_getComponent_all c c3 fn a00 a11 a22 = [a00, a11, a22] := by
  m3_unfold

theorem N3_setComponent_0_0 (a00 a11 a22 s3 s4 s5 v : K) :
    Gen.N3_setComponent_0_0_all c c3 fn a00 a11 a22 s3 s4 s5 v = [v, a11, a22, s3, s4, s5] := by m3_unfold
theorem N3_setComponent_1_1 (a00 a11 a22 s3 s4 s5 v : K) :
    Gen.N3_setComponent_1_1_all c c3 fn a00 a11 a22 s3 s4 s5 v = [a00, v, a22, s3, s4, s5] := by m3_unfold
theorem N3_setComponent_2_2 (a00 a11 a22 s3 s4 s5 v : K) :
    Gen.N3_setComponent_2_2_all c c3 fn a00 a11 a22 s3 s4 s5 v = [a00, a11, v, s3, s4, s5] := by m3_unfold
theorem N3_setComponent_0_1 (a00 a11 a22 s3 s4 s5 v : K) :
    Gen.N3_setComponent_0_1_all c c3 fn a00 a11 a22 s3 s4 s5 v = [a00, a11, a22, c * v, s4, s5] := by
  m3_unfold; first | trivial | ring1
theorem N3_setComponent_1_0 (a00 a11 a22 s3 s4 s5 v : K) :
    Gen.N3_setComponent_1_0_all c c3 fn a00 a11 a22 s3 s4 s5 v = [a00, a11, a22, c * v, s4, s5] := by
  m3_unfold; first | trivial | ring1
theorem N3_setComponent_0_2 (a00 a11 a22 s3 s4 s5 v : K) :
    Gen.N3_setComponent_0_2_all c c3 fn a00 a11 a22 s3 s4 s5 v = [a00, a11, a22, s3, c * v, s5] := by
  m3_unfold; first | trivial | ring1
theorem N3_setComponent_2_0 (a00 a11 a22 s3 s4 s5 v : K) :
    Gen.N3_setComponent_2_0_all c c3 fn a00 a11 a22 s3 s4 s5 v = [a00, a11, a22, s3, c * v, s5] := by
  m3_unfold; first | trivial | ring1
theorem N3_setComponent_1_2 (a00 a11 a22 s3 s4 s5 v : K) :
    Gen.N3_setComponent_1_2_all c c3 fn a00 a11 a22 s3 s4 s5 v = [a00, a11, a22, s3, s4, c * v] := by
  m3_unfold; first | trivial | ring1
theorem N3_setComponent_2_1 (a00 a11 a22 s3 s4 s5 v : K) :
    Gen.N3_setComponent_2_1_all c c3 fn a00 a11 a22 s3 s4 s5 v = [a00, a11, a22, s3, s4, c * v] := by
  m3_unfold; first | trivial | ring1
theorem N2_setComponent_0_1 (a00 a11 a22 s3 v : K) :
    Gen.N2_setComponent_0_1_all c c3 fn a00 a11 a22 s3 v = [a00, a11, a22, c * v] := by
  m3_unfold; first | trivial | ring1
theorem N2_setComponent_1_0 (a00 a11 a22 s3 v : K) :
    Gen.N2_setComponent_1_0_all c c3 fn a00 a11 a22 s3 v = [a00, a11, a22, c * v] := by
  m3_unfold; first | trivial | ring1
theorem N2_setComponent_diag (a00 a11 a22 s3 v : K) :
    Gen.N2_setComponent_0_0_all c c3 fn a00 a11 a22 s3 v = [v, a11, a22, s3]
    ∧ Gen.N2_setComponent_1_1_all c c3 fn a00 a11 a22 s3 v = [a00, v, a22, s3]
    ∧ Gen.N2_setComponent_2_2_all c c3 fn a00 a11 a22 s3 v = [a00, a11, v, s3] := by
  refine ⟨?_, ?_, ?_⟩ <;> m3_unfold
theorem N1_setComponent_diag (a00 a11 a22 v : K) :
    Gen.N1_setComponent_0_0_all c c3 fn a00 a11 a22 v = [v, a11, a22]
    ∧ Gen.N1_setComponent_1_1_all c c3 fn a00 a11 a22 v = [a00, v, a22]
    ∧ Gen.N1_setComponent_2_2_all c c3 fn a00 a11 a22 v = [a00, a11, v] := by
  refine ⟨?_, ?_, ?_⟩ <;> m3_unfold

/-! ## identity -/
theorem N3_Id : Gen.N3_Id_all c c3 fn = M3.mandel3 c (1 : M3 K) := by
  m3_unfold; repeat' apply And.intro
  all_goals first | trivial | simp
theorem N2_Id : Gen.N2_Id_all c c3 fn = M3.mandel2 c (1 : M3 K) := by
  m3_unfold; repeat' apply And.intro
  all_goals first | trivial | simp
theorem N1_Id : Gen.N1_Id_all c c3 fn = M3.mandel1 (1 : M3 K) := by
  m3_unfold

/-! ## non-vacuity: the hypotheses of the inverse theorem are met by a concrete tensor -/
example : (M3.sym (2:ℚ) 3 5 1 0 0).det ≠ 0 := by
  simp only [M3.sym, M3.det]; norm_num

end TfelVerif.C01.Props
