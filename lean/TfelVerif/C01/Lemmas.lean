/-
  C01 — definitions and helper lemmas shared by Props2/Props3/Props4 (no property theorem here).
-/
import TfelVerif.Common.M3
import TfelVerif.Common.Model

namespace TfelVerif.C01
open TfelVerif TfelVerif.Mandel
set_option linter.unusedVariables false

variable {K : Type} [Field K] (c : K)

/-- adjugate (transposed cofactor matrix) -/
def adj (A : M3 K) : M3 K :=
  ⟨A.a11*A.a22 - A.a12*A.a21, A.a02*A.a21 - A.a01*A.a22, A.a01*A.a12 - A.a02*A.a11,
   A.a12*A.a20 - A.a10*A.a22, A.a00*A.a22 - A.a02*A.a20, A.a02*A.a10 - A.a00*A.a12,
   A.a10*A.a21 - A.a11*A.a20, A.a01*A.a20 - A.a00*A.a21, A.a00*A.a11 - A.a01*A.a10⟩
/-- deviator of a matrix: `A - (tr A / 3) 1` -/
def dev (A : M3 K) : M3 K := A - (A.trace / 3) • (1 : M3 K)

/-- meaning of `adj`: `A * adj A = adj A * A = det A • 1` -/
theorem adj_spec (A : M3 K) : A * adj A = A.det • (1 : M3 K) ∧ adj A * A = A.det • (1 : M3 K) := by
  constructor <;> (unfold adj; m3_unfold; repeat' apply And.intro) <;> ring

theorem nine_ne_zero (h3 : (3:K) ≠ 0) : (9:K) ≠ 0 := by
  have : (9:K) = 3 * 3 := by norm_num
  rw [this]; exact mul_ne_zero h3 h3
theorem six_ne_zero (h2 : (2:K) ≠ 0) (h3 : (3:K) ≠ 0) : (6:K) ≠ 0 := by
  have : (6:K) = 2 * 3 := by norm_num
  rw [this]; exact mul_ne_zero h2 h3
theorem eighteen_ne_zero (h2 : (2:K) ≠ 0) (h3 : (3:K) ≠ 0) : (18:K) ≠ 0 := by
  have : (18:K) = 2 * (3 * 3) := by norm_num
  rw [this]; exact mul_ne_zero h2 (mul_ne_zero h3 h3)

/-- `M diag(l) Mᵀ` in Mandel storage (in 2D only the in-plane block of `M` is used) -/
def spectral3 (m00 m01 m02 m10 m11 m12 m20 m21 m22 l0 l1 l2 : K) : List K :=
  M3.mandel3 c (M3.mk m00 m01 m02 m10 m11 m12 m20 m21 m22 * M3.diag l0 l1 l2
                * (M3.mk m00 m01 m02 m10 m11 m12 m20 m21 m22).transpose)
def spectral2 (m00 m01 m10 m11 l0 l1 l2 : K) : List K :=
  M3.mandel2 c (M3.mk m00 m01 0 m10 m11 0 0 0 1 * M3.diag l0 l1 l2 * (M3.mk m00 m01 0 m10 m11 0 0 0 1).transpose)

end TfelVerif.C01
