/-
  C02 — conversion `st2tost2::convert(t2tost2)` (ConvertT2toST2ToST2toST2Expr.hxx).

  Property theorems only (generated once from harness/C02/genprops.py, then fixed). `Gen.*` are the
  definitions regenerated on every run by tracing the real TFEL templates (harness/C02/trace.cxx).
  Vocabulary: C02/Spec.lean. Conventions: `c` is any element with `c * c = 2` in a field with `2 ≠ 0`;
  a stored vector / matrix is a function on the full 3D row set (`Fin 6` symmetric, `Fin 9` general);
  in 2D / 1D the generated code only receives the rows that exist (`gen% f | a 4 4` passes
  `a 0 0 … a 3 3`), the specification sees the other rows as zero (`rv`, `rm` with the masks
  `mS2 mS1 mT2 mT1`), and `padN_*` embeds the 2D / 1D result into the 3D storage with zeros — so
  each theorem also says that the result has no component outside the dimension.
  Kept in a module of its own: on the tree as first checked, the 2D and 3D statements FAIL (the shear/shear block of the
  result is multiplied by √2 instead of 1/√2, see patches/C02-ConvertT2toST2ToST2toST2Expr.diff); a failing module is never
  cached, so the other st2tost2 theorems live elsewhere.
-/
import TfelVerif.Common.M3
import TfelVerif.Common.Model
import TfelVerif.C02.Lemmas
import TfelVerif.C02.GenN1
import TfelVerif.C02.Gen2ST
import TfelVerif.C02.Gen3ST

namespace TfelVerif.C02.Props
open TfelVerif TfelVerif.Mandel TfelVerif.C02
set_option linter.all false
set_option maxRecDepth 100000
set_option maxHeartbeats 1600000

variable {K : Type} [Field K] (c c3 : K) (fn : Fns K)
/-- `st2tost2::convert(D)`: restriction of `D` to symmetric arguments, `(D_ijkl + D_ijlk)/2`, i.e. `convert(D) * s = D * unsyme(s)` for every symmetric `s` -/
theorem N3_st_convert_from_t2tost2 (hc : c * c = 2) (h2 : (2:K) ≠ 0) (a : Fin 6 → Fin 9 → K) :
    gen% (Gen.N3_st_convert_from_t2tost2_all c c3 fn) | a 6 9
      = rows66 (T4.stoST c (T4.symR (T4.ofTS c a))) := by
  t4_eq hc
/-- `st2tost2::convert(D)`: restriction of `D` to symmetric arguments, `(D_ijkl + D_ijlk)/2`, i.e. `convert(D) * s = D * unsyme(s)` for every symmetric `s` -/
theorem N2_st_convert_from_t2tost2 (hc : c * c = 2) (h2 : (2:K) ≠ 0) (a : Fin 6 → Fin 9 → K) :
    pad2_66 (gen% (Gen.N2_st_convert_from_t2tost2_all c c3 fn) | a 4 5)
      = rows66 (T4.stoST c (T4.symR (T4.ofTS c (rm mS2 mT2 a)))) := by
  t4_eq hc
/-- `st2tost2::convert(D)`: restriction of `D` to symmetric arguments, `(D_ijkl + D_ijlk)/2`, i.e. `convert(D) * s = D * unsyme(s)` for every symmetric `s` -/
theorem N1_st_convert_from_t2tost2 (hc : c * c = 2) (h2 : (2:K) ≠ 0) (a : Fin 6 → Fin 9 → K) :
    pad1_66 (gen% (Gen.N1_st_convert_from_t2tost2_all c c3 fn) | a 3 3)
      = rows66 (T4.stoST c (T4.symR (T4.ofTS c (rm mS1 mT1 a)))) := by
  t4_eq hc

end TfelVerif.C02.Props
