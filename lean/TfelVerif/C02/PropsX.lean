/-
  C02 — second batch of traced units (harness/C02/trace_extra.hxx): functions of the anchored files that the
  first batch does not call. Property theorems only; `Gen.*` (GenX.lean) is regenerated on every run.
  Vocabulary and conventions: see PropsT.lean / Props3ST.lean (C02/Spec.lean).
  * matrix access `e(i,j)` of a tensor *expression* (TensorConceptBase::operator(), TensorConcept.ixx),
  * `pushForward`, the in-place `computeDeterminantDerivative`, `import`/`write`/`exportToBaseTypeArray`,
  * stress measures: `P = J σ F⁻ᵀ` (stated as `P Fᵀ = J σ`),
  * `computeDeterminantSecondDerivative(F)_ijkl = ∂²J/∂F_ij∂F_kl = ε_ikm ε_jln F_mn`, written with Kronecker symbols,
  * `setComponent`, `trace`, `quaddot`, `det` (1D closed form) of st2tost2, `computePushForwardDerivative`,
  * constructors from rows and `import` of st2tost2 / t2tot2 (row major storage),
  * `computeVelocityGradientDerivative(F) = tpld(invert(F))` (composition of traced units proved elsewhere).
-/
import TfelVerif.Common.M3
import TfelVerif.Common.Model
import TfelVerif.C02.Lemmas
import TfelVerif.C02.GenX
import TfelVerif.C02.GenT
import TfelVerif.C02.GenN1
import TfelVerif.C02.Gen2TT
import TfelVerif.C02.Gen3TT

namespace TfelVerif.C02.Props
open TfelVerif TfelVerif.Mandel TfelVerif.C02
set_option linter.all false
set_option maxRecDepth 100000
set_option maxHeartbeats 1600000

variable {K : Type} [Field K] (c c3 : K) (fn : Fns K)


/-! ## tensor<3> -/
/-- `(A + B)(i,j)`: matrix access of an expression, the nine index pairs -/
theorem N3_t_access_expr (hc : c * c = 2) (h2 : (2:K) ≠ 0) (A B : M3 K) :
    Gen.N3_t_access_expr_all c c3 fn A.a00 A.a11 A.a22 A.a01 A.a10 A.a02 A.a20 A.a12 A.a21 B.a00 B.a11 B.a22 B.a01 B.a10 B.a02 B.a20 B.a12 B.a21
      = M3.rowMajor (A + B) := by
  t4_eq hc
/-- `pushForward(s,F) = F s Fᵀ` -/
theorem N3_t_pushForward_alias (hc : c * c = 2) (h2 : (2:K) ≠ 0) (s00 s11 s22 s01 s02 s12 : K) (A : M3 K) :
    Gen.N3_t_pushForward_alias_all c c3 fn s00 s11 s22 (c*s01) (c*s02) (c*s12) A.a00 A.a11 A.a22 A.a01 A.a10 A.a02 A.a20 A.a12 A.a21
      = M3.mandel3 c (A * (M3.sym s00 s11 s22 s01 s02 s12) * A.transpose) := by
  t4_eq hc
/-- first Piola-Kirchhoff stress `P = J σ F⁻ᵀ`, stated without inverse: `P Fᵀ = J σ` -/
theorem N3_t_cauchy_to_pk1 (hc : c * c = 2) (h2 : (2:K) ≠ 0) (s00 s11 s22 s01 s02 s12 : K) (A : M3 K) :
    M3.ofTens (Gen.N3_t_cauchy_to_pk1_all c c3 fn s00 s11 s22 (c*s01) (c*s02) (c*s12) A.a00 A.a11 A.a22 A.a01 A.a10 A.a02 A.a20 A.a12 A.a21) * A.transpose
      = A.det • (M3.sym s00 s11 s22 s01 s02 s12) := by
  t4_eq hc
/-- `computeDeterminantDerivative(dJ, F)` (in place) is the cofactor matrix -/
theorem N3_t_ddet_inplace (hc : c * c = 2) (h2 : (2:K) ≠ 0) (A : M3 K) :
    A * (M3.ofTens (Gen.N3_t_ddet_inplace_all c c3 fn A.a00 A.a11 A.a22 A.a01 A.a10 A.a02 A.a20 A.a12 A.a21)).transpose = A.det • (1 : M3 K) := by
  t4_eq hc
/-- `import`, `write`, `exportToBaseTypeArray` keep the storage order -/
theorem N3_t_import_write (hc : c * c = 2) (h2 : (2:K) ≠ 0) (v : Fin 9 → K) :
    gen% (Gen.N3_t_import_write_all c c3 fn) | v 9
      = [v 0, v 1, v 2, v 3, v 4, v 5, v 6, v 7, v 8, v 0, v 1, v 2, v 3, v 4, v 5, v 6, v 7, v 8, v 0, v 1, v 2, v 3, v 4, v 5, v 6, v 7, v 8] := by
  t4_eq hc
/-- `∂²J/∂F_ij∂F_kl = ε_ikm ε_jln F_mn = δ_ij δ_kl tr F − δ_ij F_lk − δ_il δ_kj tr F + δ_il F_jk + δ_kj F_li − δ_kl F_ji` -/
theorem N3_t_d2det (hc : c * c = 2) (h2 : (2:K) ≠ 0) (f : Fin 9 → K) :
    gen% (Gen.N3_t_d2det_all c c3 fn) | f 9
      = rows99 (T4.stoTT (fun i j k l => delta i j * delta k l * T2.trace (T2.ofTens f) - delta i j * (T2.ofTens f) l k - delta i l * delta k j * T2.trace (T2.ofTens f)
          + delta i l * (T2.ofTens f) j k + delta k j * (T2.ofTens f) l i - delta k l * (T2.ofTens f) j i)) := by
  t4_eq hc
/-- `computeVelocityGradientDerivative(F) = tpld(invert(F))`: exactly the operations of the traced `invert`
(`PropsT.N3_t_invert`) followed by those of the traced `tpld` (`N3_tt_tpld`: `δ_ik B_lj`) -/
theorem N3_t_velocity_gradient_derivative (f : Fin 9 → K) :
    let g : Fin 9 → K := vecOf (gen% (Gen.N3_t_invert_all c c3 fn) | f 9)
    (gen% (Gen.N3_t_velocity_gradient_derivative_all c c3 fn) | f 9)
      = gen% (Gen.N3_tt_tpld_all c c3 fn) | g 9 := by
  intro g
  t4_same_zd

/-! ## tensor<2> -/
/-- `(A + B)(i,j)`: matrix access of an expression, the nine index pairs -/
theorem N2_t_access_expr (hc : c * c = 2) (h2 : (2:K) ≠ 0) (A B : M3 K) :
    Gen.N2_t_access_expr_all c c3 fn A.a00 A.a11 A.a22 A.a01 A.a10 B.a00 B.a11 B.a22 B.a01 B.a10
      = M3.rowMajor ((M3.plane A) + (M3.plane B)) := by
  t4_eq hc
/-- `pushForward(s,F) = F s Fᵀ` -/
theorem N2_t_pushForward_alias (hc : c * c = 2) (h2 : (2:K) ≠ 0) (s00 s11 s22 s01 s02 s12 : K) (A : M3 K) :
    pad2_6 (Gen.N2_t_pushForward_alias_all c c3 fn s00 s11 s22 (c*s01) A.a00 A.a11 A.a22 A.a01 A.a10)
      = M3.mandel3 c ((M3.plane A) * (M3.sym s00 s11 s22 s01 0 0) * (M3.plane A).transpose) := by
  t4_eq hc
/-- first Piola-Kirchhoff stress `P = J σ F⁻ᵀ`, stated without inverse: `P Fᵀ = J σ` -/
theorem N2_t_cauchy_to_pk1 (hc : c * c = 2) (h2 : (2:K) ≠ 0) (s00 s11 s22 s01 s02 s12 : K) (A : M3 K) :
    M3.ofTens (Gen.N2_t_cauchy_to_pk1_all c c3 fn s00 s11 s22 (c*s01) A.a00 A.a11 A.a22 A.a01 A.a10) * (M3.plane A).transpose
      = (M3.plane A).det • (M3.sym s00 s11 s22 s01 0 0) := by
  t4_eq hc
/-- `computeDeterminantDerivative(dJ, F)` (in place) is the cofactor matrix -/
theorem N2_t_ddet_inplace (hc : c * c = 2) (h2 : (2:K) ≠ 0) (A : M3 K) :
    (M3.plane A) * (M3.ofTens (Gen.N2_t_ddet_inplace_all c c3 fn A.a00 A.a11 A.a22 A.a01 A.a10)).transpose = (M3.plane A).det • (1 : M3 K) := by
  t4_eq hc
/-- `import`, `write`, `exportToBaseTypeArray` keep the storage order -/
theorem N2_t_import_write (hc : c * c = 2) (h2 : (2:K) ≠ 0) (v : Fin 9 → K) :
    gen% (Gen.N2_t_import_write_all c c3 fn) | v 5
      = [v 0, v 1, v 2, v 3, v 4, v 0, v 1, v 2, v 3, v 4, v 0, v 1, v 2, v 3, v 4] := by
  t4_eq hc
/-- `∂²J/∂F_ij∂F_kl = ε_ikm ε_jln F_mn = δ_ij δ_kl tr F − δ_ij F_lk − δ_il δ_kj tr F + δ_il F_jk + δ_kj F_li − δ_kl F_ji` -/
theorem N2_t_d2det (hc : c * c = 2) (h2 : (2:K) ≠ 0) (f : Fin 9 → K) :
    pad2_99 (gen% (Gen.N2_t_d2det_all c c3 fn) | f 5)
      = rows99 (rm mT2 mT2 (T4.stoTT (fun i j k l => delta i j * delta k l * T2.trace (T2.ofTens (rv mT2 f)) - delta i j * (T2.ofTens (rv mT2 f)) l k - delta i l * delta k j * T2.trace (T2.ofTens (rv mT2 f))
          + delta i l * (T2.ofTens (rv mT2 f)) j k + delta k j * (T2.ofTens (rv mT2 f)) l i - delta k l * (T2.ofTens (rv mT2 f)) j i))) := by
  t4_eq hc
/-- `computeVelocityGradientDerivative(F) = tpld(invert(F))`: exactly the operations of the traced `invert`
(`PropsT.N2_t_invert`) followed by those of the traced `tpld` (`N2_tt_tpld`: `δ_ik B_lj`) -/
theorem N2_t_velocity_gradient_derivative (f : Fin 9 → K) :
    let g : Fin 9 → K := vecOf (gen% (Gen.N2_t_invert_all c c3 fn) | f 5)
    (gen% (Gen.N2_t_velocity_gradient_derivative_all c c3 fn) | f 5)
      = gen% (Gen.N2_tt_tpld_all c c3 fn) | g 5 := by
  intro g
  t4_same_zd

/-! ## tensor<1> -/
/-- `(A + B)(i,j)`: matrix access of an expression, the nine index pairs -/
theorem N1_t_access_expr (hc : c * c = 2) (h2 : (2:K) ≠ 0) (A B : M3 K) :
    Gen.N1_t_access_expr_all c c3 fn A.a00 A.a11 A.a22 B.a00 B.a11 B.a22
      = M3.rowMajor ((M3.diag A.a00 A.a11 A.a22) + (M3.diag B.a00 B.a11 B.a22)) := by
  t4_eq hc
/-- `pushForward(s,F) = F s Fᵀ` -/
theorem N1_t_pushForward_alias (hc : c * c = 2) (h2 : (2:K) ≠ 0) (s00 s11 s22 s01 s02 s12 : K) (A : M3 K) :
    pad1_6 (Gen.N1_t_pushForward_alias_all c c3 fn s00 s11 s22 A.a00 A.a11 A.a22)
      = M3.mandel3 c ((M3.diag A.a00 A.a11 A.a22) * (M3.sym s00 s11 s22 0 0 0) * (M3.diag A.a00 A.a11 A.a22).transpose) := by
  t4_eq hc
/-- first Piola-Kirchhoff stress `P = J σ F⁻ᵀ`, stated without inverse: `P Fᵀ = J σ` -/
theorem N1_t_cauchy_to_pk1 (hc : c * c = 2) (h2 : (2:K) ≠ 0) (s00 s11 s22 s01 s02 s12 : K) (A : M3 K) :
    M3.ofTens (Gen.N1_t_cauchy_to_pk1_all c c3 fn s00 s11 s22 A.a00 A.a11 A.a22) * (M3.diag A.a00 A.a11 A.a22).transpose
      = (M3.diag A.a00 A.a11 A.a22).det • (M3.sym s00 s11 s22 0 0 0) := by
  t4_eq hc
/-- `computeDeterminantDerivative(dJ, F)` (in place) is the cofactor matrix -/
theorem N1_t_ddet_inplace (hc : c * c = 2) (h2 : (2:K) ≠ 0) (A : M3 K) :
    (M3.diag A.a00 A.a11 A.a22) * (M3.ofTens (Gen.N1_t_ddet_inplace_all c c3 fn A.a00 A.a11 A.a22)).transpose = (M3.diag A.a00 A.a11 A.a22).det • (1 : M3 K) := by
  t4_eq hc
/-- `import`, `write`, `exportToBaseTypeArray` keep the storage order -/
theorem N1_t_import_write (hc : c * c = 2) (h2 : (2:K) ≠ 0) (v : Fin 9 → K) :
    gen% (Gen.N1_t_import_write_all c c3 fn) | v 3
      = [v 0, v 1, v 2, v 0, v 1, v 2, v 0, v 1, v 2] := by
  t4_eq hc
/-- `∂²J/∂F_ij∂F_kl = ε_ikm ε_jln F_mn = δ_ij δ_kl tr F − δ_ij F_lk − δ_il δ_kj tr F + δ_il F_jk + δ_kj F_li − δ_kl F_ji` -/
theorem N1_t_d2det (hc : c * c = 2) (h2 : (2:K) ≠ 0) (f : Fin 9 → K) :
    pad1_99 (gen% (Gen.N1_t_d2det_all c c3 fn) | f 3)
      = rows99 (rm mT1 mT1 (T4.stoTT (fun i j k l => delta i j * delta k l * T2.trace (T2.ofTens (rv mT1 f)) - delta i j * (T2.ofTens (rv mT1 f)) l k - delta i l * delta k j * T2.trace (T2.ofTens (rv mT1 f))
          + delta i l * (T2.ofTens (rv mT1 f)) j k + delta k j * (T2.ofTens (rv mT1 f)) l i - delta k l * (T2.ofTens (rv mT1 f)) j i))) := by
  t4_eq hc
/-- `computeVelocityGradientDerivative(F) = tpld(invert(F))`: exactly the operations of the traced `invert`
(`PropsT.N1_t_invert`) followed by those of the traced `tpld` (`N1_tt_tpld`: `δ_ik B_lj`) -/
theorem N1_t_velocity_gradient_derivative (f : Fin 9 → K) :
    let g : Fin 9 → K := vecOf (gen% (Gen.N1_t_invert_all c c3 fn) | f 3)
    (gen% (Gen.N1_t_velocity_gradient_derivative_all c c3 fn) | f 3)
      = gen% (Gen.N1_tt_tpld_all c c3 fn) | g 3 := by
  intro g
  t4_same_zd

/-! ## st2tost2<3>, t2tot2<3> -/
/-- `setComponent(C,i,j,k,l,v)` stores `v` with the Mandel weight of its row and column: after setting every `C_ijkl` to `a (vi i j) (vi k l)` the stored matrix is `w_I w_J a I J` -/
theorem N3_st_setComponent (hc : c * c = 2) (h2 : (2:K) ≠ 0) (a : Fin 6 → Fin 6 → K) :
    gen% (Gen.N3_st_setComponent_all c c3 fn) | a 6 6
      = rows66 (fun I J => w2 c I J * a I J) := by
  t4_eq hc
/-- `trace(C) = C_ijij` -/
theorem N3_st_trace (hc : c * c = 2) (h2 : (2:K) ≠ 0) (a : Fin 6 → Fin 6 → K) :
    (gen% (Gen.N3_st_trace_r c c3 fn) | a 6 6)
      = sum3 fun i => sum3 fun j => T4.ofST c a i j i j := by
  t4_eq hc
/-- `quaddot(A,B) = A_ijkl B_klij` -/
theorem N3_st_quaddot (hc : c * c = 2) (h2 : (2:K) ≠ 0) (a b : Fin 6 → Fin 6 → K) :
    (gen% (Gen.N3_st_quaddot_r c c3 fn) | a 6 6 | b 6 6)
      = sum3 fun i => sum3 fun j => sum3 fun k => sum3 fun l => T4.ofST c a i j k l * T4.ofST c b k l i j := by
  t4_eq hc
/-- `computePushForwardDerivative(r,F)`: `∂(F s Fᵀ)_ij/∂s_kl = (F_ik F_jl + F_il F_jk)/2` -/
theorem N3_st_push_forward_derivative (hc : c * c = 2) (h2 : (2:K) ≠ 0) (f : Fin 9 → K) :
    gen% (Gen.N3_st_push_forward_derivative_all c c3 fn) | f 9
      = rows66 (T4.stoST c (fun i j k l => ((T2.ofTens f) i k * (T2.ofTens f) j l + (T2.ofTens f) i l * (T2.ofTens f) j k) / 2)) := by
  t4_eq hc
/-- `import`: row major storage -/
theorem N3_st_import (hc : c * c = 2) (h2 : (2:K) ≠ 0) (v : Fin 81 → K) :
    gen% (Gen.N3_st_import_all c c3 fn) | v 36
      = [v 0, v 1, v 2, v 3, v 4, v 5, v 6, v 7, v 8, v 9, v 10, v 11, v 12, v 13, v 14, v 15, v 16, v 17, v 18, v 19, v 20, v 21, v 22, v 23, v 24, v 25, v 26, v 27, v 28, v 29, v 30, v 31, v 32, v 33, v 34, v 35] := by
  t4_eq hc
/-- `import`: row major storage -/
theorem N3_tt_import (hc : c * c = 2) (h2 : (2:K) ≠ 0) (v : Fin 81 → K) :
    gen% (Gen.N3_tt_import_all c c3 fn) | v 81
      = [v 0, v 1, v 2, v 3, v 4, v 5, v 6, v 7, v 8, v 9, v 10, v 11, v 12, v 13, v 14, v 15, v 16, v 17, v 18, v 19, v 20, v 21, v 22, v 23, v 24, v 25, v 26, v 27, v 28, v 29, v 30, v 31, v 32, v 33, v 34, v 35, v 36, v 37, v 38, v 39, v 40, v 41, v 42, v 43, v 44, v 45, v 46, v 47, v 48, v 49, v 50, v 51, v 52, v 53, v 54, v 55, v 56, v 57, v 58, v 59, v 60, v 61, v 62, v 63, v 64, v 65, v 66, v 67, v 68, v 69, v 70, v 71, v 72, v 73, v 74, v 75, v 76, v 77, v 78, v 79, v 80] := by
  t4_eq hc

/-! ## st2tost2<2>, t2tot2<2> -/
/-- `setComponent(C,i,j,k,l,v)` stores `v` with the Mandel weight of its row and column: after setting every `C_ijkl` to `a (vi i j) (vi k l)` the stored matrix is `w_I w_J a I J` -/
theorem N2_st_setComponent (hc : c * c = 2) (h2 : (2:K) ≠ 0) (a : Fin 6 → Fin 6 → K) :
    pad2_66 (gen% (Gen.N2_st_setComponent_all c c3 fn) | a 4 4)
      = rows66 (rm mS2 mS2 (fun I J => w2 c I J * a I J)) := by
  t4_eq hc
/-- `trace(C) = C_ijij` -/
theorem N2_st_trace (hc : c * c = 2) (h2 : (2:K) ≠ 0) (a : Fin 6 → Fin 6 → K) :
    (gen% (Gen.N2_st_trace_r c c3 fn) | a 4 4)
      = sum3 fun i => sum3 fun j => T4.ofST c (rm mS2 mS2 a) i j i j := by
  t4_eq hc
/-- `quaddot(A,B) = A_ijkl B_klij` -/
theorem N2_st_quaddot (hc : c * c = 2) (h2 : (2:K) ≠ 0) (a b : Fin 6 → Fin 6 → K) :
    (gen% (Gen.N2_st_quaddot_r c c3 fn) | a 4 4 | b 4 4)
      = sum3 fun i => sum3 fun j => sum3 fun k => sum3 fun l => T4.ofST c (rm mS2 mS2 a) i j k l * T4.ofST c (rm mS2 mS2 b) k l i j := by
  t4_eq hc
/-- `computePushForwardDerivative(r,F)`: `∂(F s Fᵀ)_ij/∂s_kl = (F_ik F_jl + F_il F_jk)/2` -/
theorem N2_st_push_forward_derivative (hc : c * c = 2) (h2 : (2:K) ≠ 0) (f : Fin 9 → K) :
    pad2_66 (gen% (Gen.N2_st_push_forward_derivative_all c c3 fn) | f 5)
      = rows66 (rm mS2 mS2 (T4.stoST c (fun i j k l => ((T2.ofTens (rv mT2 f)) i k * (T2.ofTens (rv mT2 f)) j l + (T2.ofTens (rv mT2 f)) i l * (T2.ofTens (rv mT2 f)) j k) / 2))) := by
  t4_eq hc
/-- constructor from rows: row major storage -/
theorem N2_st_from_rows (hc : c * c = 2) (h2 : (2:K) ≠ 0) (v : Fin 81 → K) :
    gen% (Gen.N2_st_from_rows_all c c3 fn) | v 16
      = [v 0, v 1, v 2, v 3, v 4, v 5, v 6, v 7, v 8, v 9, v 10, v 11, v 12, v 13, v 14, v 15] := by
  t4_eq hc
/-- `import`: row major storage -/
theorem N2_st_import (hc : c * c = 2) (h2 : (2:K) ≠ 0) (v : Fin 81 → K) :
    gen% (Gen.N2_st_import_all c c3 fn) | v 16
      = [v 0, v 1, v 2, v 3, v 4, v 5, v 6, v 7, v 8, v 9, v 10, v 11, v 12, v 13, v 14, v 15] := by
  t4_eq hc
/-- constructor from rows: row major storage -/
theorem N2_tt_from_rows (hc : c * c = 2) (h2 : (2:K) ≠ 0) (v : Fin 81 → K) :
    gen% (Gen.N2_tt_from_rows_all c c3 fn) | v 25
      = [v 0, v 1, v 2, v 3, v 4, v 5, v 6, v 7, v 8, v 9, v 10, v 11, v 12, v 13, v 14, v 15, v 16, v 17, v 18, v 19, v 20, v 21, v 22, v 23, v 24] := by
  t4_eq hc
/-- `import`: row major storage -/
theorem N2_tt_import (hc : c * c = 2) (h2 : (2:K) ≠ 0) (v : Fin 81 → K) :
    gen% (Gen.N2_tt_import_all c c3 fn) | v 25
      = [v 0, v 1, v 2, v 3, v 4, v 5, v 6, v 7, v 8, v 9, v 10, v 11, v 12, v 13, v 14, v 15, v 16, v 17, v 18, v 19, v 20, v 21, v 22, v 23, v 24] := by
  t4_eq hc

/-! ## st2tost2<1>, t2tot2<1> -/
/-- `setComponent(C,i,j,k,l,v)` stores `v` with the Mandel weight of its row and column: after setting every `C_ijkl` to `a (vi i j) (vi k l)` the stored matrix is `w_I w_J a I J` -/
theorem N1_st_setComponent (hc : c * c = 2) (h2 : (2:K) ≠ 0) (a : Fin 6 → Fin 6 → K) :
    pad1_66 (gen% (Gen.N1_st_setComponent_all c c3 fn) | a 3 3)
      = rows66 (rm mS1 mS1 (fun I J => w2 c I J * a I J)) := by
  t4_eq hc
/-- `trace(C) = C_ijij` -/
theorem N1_st_trace (hc : c * c = 2) (h2 : (2:K) ≠ 0) (a : Fin 6 → Fin 6 → K) :
    (gen% (Gen.N1_st_trace_r c c3 fn) | a 3 3)
      = sum3 fun i => sum3 fun j => T4.ofST c (rm mS1 mS1 a) i j i j := by
  t4_eq hc
/-- `quaddot(A,B) = A_ijkl B_klij` -/
theorem N1_st_quaddot (hc : c * c = 2) (h2 : (2:K) ≠ 0) (a b : Fin 6 → Fin 6 → K) :
    (gen% (Gen.N1_st_quaddot_r c c3 fn) | a 3 3 | b 3 3)
      = sum3 fun i => sum3 fun j => sum3 fun k => sum3 fun l => T4.ofST c (rm mS1 mS1 a) i j k l * T4.ofST c (rm mS1 mS1 b) k l i j := by
  t4_eq hc
/-- `computePushForwardDerivative(r,F)`: `∂(F s Fᵀ)_ij/∂s_kl = (F_ik F_jl + F_il F_jk)/2` -/
theorem N1_st_push_forward_derivative (hc : c * c = 2) (h2 : (2:K) ≠ 0) (f : Fin 9 → K) :
    pad1_66 (gen% (Gen.N1_st_push_forward_derivative_all c c3 fn) | f 3)
      = rows66 (rm mS1 mS1 (T4.stoST c (fun i j k l => ((T2.ofTens (rv mT1 f)) i k * (T2.ofTens (rv mT1 f)) j l + (T2.ofTens (rv mT1 f)) i l * (T2.ofTens (rv mT1 f)) j k) / 2))) := by
  t4_eq hc
/-- `det(C)` in 1D: determinant of the 3×3 stored matrix (2D/3D: pivoting LU, double precision harness) -/
theorem N1_st_det (hc : c * c = 2) (h2 : (2:K) ≠ 0) (a : Fin 6 → Fin 6 → K) :
    (gen% (Gen.N1_st_det_r c c3 fn) | a 3 3)
      = M3.det ⟨a 0 0, a 0 1, a 0 2, a 1 0, a 1 1, a 1 2, a 2 0, a 2 1, a 2 2⟩ := by
  t4_eq hc
/-- constructor from rows: row major storage -/
theorem N1_st_from_rows (hc : c * c = 2) (h2 : (2:K) ≠ 0) (v : Fin 81 → K) :
    gen% (Gen.N1_st_from_rows_all c c3 fn) | v 9
      = [v 0, v 1, v 2, v 3, v 4, v 5, v 6, v 7, v 8] := by
  t4_eq hc
/-- `import`: row major storage -/
theorem N1_st_import (hc : c * c = 2) (h2 : (2:K) ≠ 0) (v : Fin 81 → K) :
    gen% (Gen.N1_st_import_all c c3 fn) | v 9
      = [v 0, v 1, v 2, v 3, v 4, v 5, v 6, v 7, v 8] := by
  t4_eq hc
/-- constructor from rows: row major storage -/
theorem N1_tt_from_rows (hc : c * c = 2) (h2 : (2:K) ≠ 0) (v : Fin 81 → K) :
    gen% (Gen.N1_tt_from_rows_all c c3 fn) | v 9
      = [v 0, v 1, v 2, v 3, v 4, v 5, v 6, v 7, v 8] := by
  t4_eq hc
/-- `import`: row major storage -/
theorem N1_tt_import (hc : c * c = 2) (h2 : (2:K) ≠ 0) (v : Fin 81 → K) :
    gen% (Gen.N1_tt_import_all c c3 fn) | v 9
      = [v 0, v 1, v 2, v 3, v 4, v 5, v 6, v 7, v 8] := by
  t4_eq hc

end TfelVerif.C02.Props
