/-
  C02 — change of basis of the 3D fourth-order tensors.

  Property theorems only. `change_basis(C, R)` is implemented as `Q(R) * C * Q'(Rᵀ)` with
  `Q = fromRotationMatrix` of the row kind and `Q'` of the column kind; each theorem states that the
  traced `change_basis` is exactly that composition of the traced products (same scalar operations), so
  that in index notation, by `N3_*_fromRotationMatrix` and the product theorems `N3_*_comp*`,
      change_basis(C,R)_ijkl = R_mi R_nj C_mnpq R_pk R_ql .
  (The direct statement against `T4.pushForward (T2.transpose R)` is proved in 2D — `PropsN2` — where the
  polynomials are small; in 3D the expanded identity has 81 terms per component and is avoided.)
  `matOf p l` reads a row-major list as a matrix (C02/Spec.lean).
-/
import TfelVerif.C02.Lemmas
import TfelVerif.C02.Gen3CB
import TfelVerif.C02.Gen3ST
import TfelVerif.C02.Gen3TT
import TfelVerif.C02.Gen3TS

namespace TfelVerif.C02.Props
open TfelVerif TfelVerif.Mandel TfelVerif.C02
set_option linter.all false
set_option maxRecDepth 100000
set_option maxHeartbeats 1600000

variable {K : Type} [Field K] (c c3 : K) (fn : Fns K)

/-- `change_basis(C,R) = Q(R) * C * Q(Rᵀ)`, `Q = st2tost2::fromRotationMatrix` -/
theorem N3_st_change_basis (a : Fin 6 → Fin 6 → K) (r : Fin 3 → Fin 3 → K) :
    let q : Fin 6 → Fin 6 → K := matOf 6 (gen% (Gen.N3_st_fromRotationMatrix_all c c3 fn) | r 3 3)
    let qt : Fin 6 → Fin 6 → K := matOf 6 (gen% (Gen.N3_st_fromRotationMatrix_all c c3 fn) | (T2.transpose r) 3 3)
    let qa : Fin 6 → Fin 6 → K := matOf 6 (gen% (Gen.N3_st_comp_all c c3 fn) | q 6 6 | a 6 6)
    (gen% (Gen.N3_st_change_basis_all c c3 fn) | a 6 6 | r 3 3)
      = gen% (Gen.N3_st_comp_all c c3 fn) | qa 6 6 | qt 6 6 := by
  intro q qt qa
  t4_same_zd

/-- `change_basis(C,R) = Q(R) * C * Q(Rᵀ)`, `Q = t2tot2::fromRotationMatrix` -/
theorem N3_tt_change_basis (a : Fin 9 → Fin 9 → K) (r : Fin 3 → Fin 3 → K) :
    let q : Fin 9 → Fin 9 → K := matOf 9 (gen% (Gen.N3_tt_fromRotationMatrix_all c c3 fn) | r 3 3)
    let qt : Fin 9 → Fin 9 → K := matOf 9 (gen% (Gen.N3_tt_fromRotationMatrix_all c c3 fn) | (T2.transpose r) 3 3)
    let qa : Fin 9 → Fin 9 → K := matOf 9 (gen% (Gen.N3_tt_comp_all c c3 fn) | q 9 9 | a 9 9)
    (gen% (Gen.N3_tt_change_basis_all c c3 fn) | a 9 9 | r 3 3)
      = gen% (Gen.N3_tt_comp_all c c3 fn) | qa 9 9 | qt 9 9 := by
  intro q qt qa
  t4_same_zd

/-- `change_basis(D,R) = Q_s(R) * D * Q_t(Rᵀ)` for `t2tost2` (`Q_s` of `st2tost2`, `Q_t` of `t2tot2`) -/
theorem N3_ts_change_basis (a : Fin 6 → Fin 9 → K) (r : Fin 3 → Fin 3 → K) :
    let q : Fin 6 → Fin 6 → K := matOf 6 (gen% (Gen.N3_st_fromRotationMatrix_all c c3 fn) | r 3 3)
    let qt : Fin 9 → Fin 9 → K := matOf 9 (gen% (Gen.N3_tt_fromRotationMatrix_all c c3 fn) | (T2.transpose r) 3 3)
    let qa : Fin 6 → Fin 9 → K := matOf 9 (gen% (Gen.N3_ts_comp_st_ts_all c c3 fn) | q 6 6 | a 6 9)
    (gen% (Gen.N3_ts_change_basis_all c c3 fn) | a 6 9 | r 3 3)
      = gen% (Gen.N3_ts_comp_ts_tt_all c c3 fn) | qa 6 9 | qt 9 9 := by
  intro q qt qa
  t4_same_zd

end TfelVerif.C02.Props
