/-
  C02 — fourth-order tensors `st2tost2<2>` in index notation.

  Property theorems only (generated once from harness/C02/genprops.py, then fixed). `Gen.*` are the
  definitions regenerated on every run by tracing the real TFEL templates (harness/C02/trace.cxx).
  Vocabulary: C02/Spec.lean. Conventions: `c` is any element with `c * c = 2` in a field with `2 ≠ 0`;
  a stored vector / matrix is a function on the full 3D row set (`Fin 6` symmetric, `Fin 9` general);
  in 2D / 1D the generated code only receives the rows that exist (`gen% f | a 4 4` passes
  `a 0 0 … a 3 3`), the specification sees the other rows as zero (`rv`, `rm` with the masks
  `mS2 mS1 mT2 mT1`), and `padN_*` embeds the 2D / 1D result into the 3D storage with zeros — so
  each theorem also says that the result has no component outside the dimension.
-/
import TfelVerif.Common.M3
import TfelVerif.Common.Model
import TfelVerif.C02.Lemmas
import TfelVerif.C02.Gen2ST

namespace TfelVerif.C02.Props
open TfelVerif TfelVerif.Mandel TfelVerif.C02
set_option linter.all false
set_option maxRecDepth 100000
set_option maxHeartbeats 1600000

variable {K : Type} [Field K] (c c3 : K) (fn : Fns K)

/-! ## st2tost2<2>: action, composition, transposition, dyadic product -/
/-- `C * s` is `(C : s)_ij = C_ijkl s_kl` -/
theorem N2_st_apply (hc : c * c = 2) (h2 : (2:K) ≠ 0) (a : Fin 6 → Fin 6 → K) (s : Fin 6 → K) :
    pad2_6 (gen% (Gen.N2_st_apply_all c c3 fn) | a 4 4 | s 4)
      = T2.st c (T4.app (T4.ofST c (rm mS2 mS2 a)) (T2.ofSt c (rv mS2 s))) := by
  rw [st_app_ST hc h2]; t4_eq hc
/-- `s * C` is `(s : C)_kl = s_ij C_ijkl` -/
theorem N2_st_applyL (hc : c * c = 2) (h2 : (2:K) ≠ 0) (s : Fin 6 → K) (a : Fin 6 → Fin 6 → K) :
    pad2_6 (gen% (Gen.N2_st_applyL_all c c3 fn) | s 4 | a 4 4)
      = T2.st c (T4.appL (T2.ofSt c (rv mS2 s)) (T4.ofST c (rm mS2 mS2 a))) := by
  rw [st_appL_ST hc h2]; t4_eq hc
/-- `C * D` (expression template product) is `C_ijmn D_mnkl` -/
theorem N2_st_comp (hc : c * c = 2) (h2 : (2:K) ≠ 0) (a : Fin 6 → Fin 6 → K) (b : Fin 6 → Fin 6 → K) :
    pad2_66 (gen% (Gen.N2_st_comp_all c c3 fn) | a 4 4 | b 4 4)
      = rows66 (T4.stoST c (T4.comp (T4.ofST c (rm mS2 mS2 a)) (T4.ofST c (rm mS2 mS2 b)))) := by
  rw [stoST_comp_ST_ST hc h2]; t4_eq hc
/-- `transpose(C)_ijkl = C_klij` -/
theorem N2_st_transpose (hc : c * c = 2) (h2 : (2:K) ≠ 0) (a : Fin 6 → Fin 6 → K) :
    pad2_66 (gen% (Gen.N2_st_transpose_all c c3 fn) | a 4 4)
      = rows66 (T4.stoST c (T4.transpose (T4.ofST c (rm mS2 mS2 a)))) := by
  rw [stoST_transpose hc h2]; t4_eq hc
/-- `s ^ t` is `s_ij t_kl` -/
theorem N2_st_dyad (hc : c * c = 2) (h2 : (2:K) ≠ 0) (s : Fin 6 → K) (t : Fin 6 → K) :
    pad2_66 (gen% (Gen.N2_st_dyad_all c c3 fn) | s 4 | t 4)
      = rows66 (T4.stoST c (T2.dyad (T2.ofSt c (rv mS2 s)) (T2.ofSt c (rv mS2 t)))) := by
  rw [stoST_dyad hc h2]; t4_eq hc
/-- `k*C + D - C/k` through expression templates -/
theorem N2_st_add_scale (hc : c * c = 2) (h2 : (2:K) ≠ 0) (a : Fin 6 → Fin 6 → K) (b : Fin 6 → Fin 6 → K) (k : K) (hk : k ≠ 0) :
    pad2_66 (gen% (Gen.N2_st_add_scale_all c c3 fn) | a 4 4 | b 4 4 | k)
      = rows66 (T4.stoST c (T4.lin k (T4.ofST c (rm mS2 mS2 a)) (T4.ofST c (rm mS2 mS2 b)))) := by
  t4_eq hc

/-! ## the projectors `Id, IxI, J, K, M` (in 2D / 1D: their rows that exist) -/
theorem N2_st_Id (hc : c * c = 2) (h2 : (2:K) ≠ 0)  :
    pad2_66 (gen% (Gen.N2_st_Id_all c c3 fn))
      = rows66 (rm mS2 mS2 (T4.stoST c T4.idS)) := by
  t4_eq hc
theorem N2_st_IxI (hc : c * c = 2) (h2 : (2:K) ≠ 0)  :
    pad2_66 (gen% (Gen.N2_st_IxI_all c c3 fn))
      = rows66 (rm mS2 mS2 (T4.stoST c T4.IxI)) := by
  t4_eq hc
theorem N2_st_J (hc : c * c = 2) (h2 : (2:K) ≠ 0) (h3 : (3:K) ≠ 0)  :
    pad2_66 (gen% (Gen.N2_st_J_all c c3 fn))
      = rows66 (rm mS2 mS2 (T4.stoST c T4.J)) := by
  t4_eq hc
theorem N2_st_K (hc : c * c = 2) (h2 : (2:K) ≠ 0) (h3 : (3:K) ≠ 0)  :
    pad2_66 (gen% (Gen.N2_st_K_all c c3 fn))
      = rows66 (rm mS2 mS2 (T4.stoST c T4.KS)) := by
  t4_eq hc
theorem N2_st_M (hc : c * c = 2) (h2 : (2:K) ≠ 0) (h3 : (3:K) ≠ 0)  :
    pad2_66 (gen% (Gen.N2_st_M_all c c3 fn))
      = rows66 (rm mS2 mS2 (T4.stoST c T4.M)) := by
  t4_eq hc

/-! ## rotations, change of basis, push-forward, components, conversion -/
/-- `fromRotationMatrix(R)` is the map `s ↦ Rᵀ s R` (`Lemmas.app_rot`): `(R_ki R_lj + R_li R_kj)/2` -/
theorem N2_st_fromRotationMatrix (hc : c * c = 2) (h2 : (2:K) ≠ 0) (r : Fin 3 → Fin 3 → K) :
    pad2_66 (gen% (Gen.N2_st_fromRotationMatrix_all c c3 fn) | r 3 3)
      = rows66 (rm mS2 mS2 (T4.stoST c (T4.symR (T4.rot (T2.plane r))))) := by
  t4_eq hc
/-- `getComponent(C,i,j,k,l)` is `C_ijkl` for the fourth-order tensor `T4.ofST` reads from the storage -/
theorem N2_st_getComponent (hc : c * c = 2) (h2 : (2:K) ≠ 0) (a : Fin 6 → Fin 6 → K) :
    gen% (Gen.N2_st_getComponent_all c c3 fn) | a 4 4
      = T4.comps pairs2 (T4.ofST c (rm mS2 mS2 a)) := by
  t4_eq hc
/-- `t2tost2 * st2tot2` -/
theorem N2_st_comp_ts_s2t (hc : c * c = 2) (h2 : (2:K) ≠ 0) (a : Fin 6 → Fin 9 → K) (b : Fin 9 → Fin 6 → K) :
    pad2_66 (gen% (Gen.N2_st_comp_ts_s2t_all c c3 fn) | a 4 5 | b 5 4)
      = rows66 (T4.stoST c (T4.comp (T4.ofTS c (rm mS2 mT2 a)) (T4.ofS2T c (rm mT2 mS2 b)))) := by
  rw [stoST_comp_TS_S2T hc h2]; t4_eq hc

end TfelVerif.C02.Props
