/-
  C02 — push-forward and pull-back of the 3D `st2tost2` (ST2toST2ConceptPushForward.ixx).

  Property theorems only.
-/
import TfelVerif.C02.Lemmas
import TfelVerif.C02.Gen3PF
import TfelVerif.C02.GenT

namespace TfelVerif.C02.Props
open TfelVerif TfelVerif.Mandel TfelVerif.C02
set_option linter.all false
set_option maxRecDepth 100000
set_option maxHeartbeats 1600000

variable {K : Type} [Field K] (c c3 : K) (fn : Fns K)

/-- `push_forward(C,F)_ijkl = F_im F_jn F_kp F_lq C_mnpq` for every stored `C` (36 entries) and every
`F` (9 entries), all 36 stored components of the result (Mandel weights `1, √2, 2` included). -/
theorem N3_st_push_forward (hc : c * c = 2) (h2 : (2:K) ≠ 0) (a : Fin 6 → Fin 6 → K) (f : Fin 9 → K) :
    (gen% (Gen.N3_st_push_forward_all c c3 fn) | a 6 6 | f 9)
      = rows66 (T4.stoST c (T4.pushForward (T2.ofTens f) (T4.ofST c a))) := by
  t4_eq hc

/-- `pull_back(C,F) = push_forward(C, invert(F))`: the traced `pull_back` performs exactly the operations
of the traced `invert` (`PropsT.N3_t_invert`: `F · invert(F) = 1` when `det F ≠ 0`) followed by those of
the traced `push_forward` (theorem above). `vecOf l` reads a list as a stored vector. -/
theorem N3_st_pull_back (a : Fin 6 → Fin 6 → K) (f : Fin 9 → K) :
    let g : Fin 9 → K := vecOf (gen% (Gen.N3_t_invert_all c c3 fn) | f 9)
    (gen% (Gen.N3_st_pull_back_all c c3 fn) | a 6 6 | f 9)
      = gen% (Gen.N3_st_push_forward_all c c3 fn) | a 6 6 | g 9 := by
  intro g
  t4_same_zd

end TfelVerif.C02.Props
