/-
  C02 — Tensor and fourth-order tensor algebra matches index notation.

  Entry module of the property. The property theorems are in the per-family modules (all of them are
  re-checked by `bin/check C02`, see `PROPS` in checks/C02.py)

    PropsT    tensor<N>: products, transpose, trace, det, invert, determinant derivative, contraction,
              change_basis, syme / unsyme / mixed sums, Cauchy-Green / Green-Lagrange tensors,
              push_forward(stensor, F), matrix access, buildFromFortranMatrix, Id, polar_decomposition (1D, partial)
    Props3ST Props3TT Props3TS Props3S2T   st2tost2 / t2tot2 / t2tost2 / st2tot2 in 3D
    Props2ST Props2TT Props2TS Props2S2T   the same in 2D
    PropsN1                                the same in 1D
    PropsPF   push_forward / pull_back of st2tost2 (1D, 2D, 3D)
    PropsCB   change_basis of the fourth-order tensors (1D, 2D, 3D)
    PropsConv st2tost2::convert(t2tost2)

  This module states the projector identities on the traced constants themselves (`matOf` reads a row-major list
  as a stored matrix): `J + K = Id`, `J : J = J`, `K : K = K`, `J : K = 0`, `M = 3/2 K`, through the traced
  product `st2tost2 * st2tost2`.
-/
import TfelVerif.Common.Model
import TfelVerif.C02.Lemmas
import TfelVerif.C02.Gen3ST
import TfelVerif.C02.Gen3TT

namespace TfelVerif.C02.Props
open TfelVerif TfelVerif.Mandel TfelVerif.C02
set_option linter.all false
set_option maxRecDepth 100000

variable {K : Type} [Field K] (c c3 : K) (fn : Fns K)

/-- `J + K = Id` on the stored 6×6 matrices -/
theorem N3_st_J_add_K (h3 : (3:K) ≠ 0) :
    List.zipWith (· + ·) (Gen.N3_st_J_all c c3 fn) (Gen.N3_st_K_all c c3 fn) = Gen.N3_st_Id_all c c3 fn := by
  simp only [gen_simp, List.zipWith_cons_cons, List.zipWith_nil_right, List.cons.injEq, and_true]
  repeat' apply And.intro
  all_goals (first | rfl | ring1 | (field_simp; done) | (field_simp; ring1))

/-- `J : J = J`, `K : K = K`, `J : K = 0`: the traced product of the traced projectors -/
theorem N3_st_projectors (h3 : (3:K) ≠ 0) :
    let J : Fin 6 → Fin 6 → K := matOf 6 (Gen.N3_st_J_all c c3 fn)
    let P : Fin 6 → Fin 6 → K := matOf 6 (Gen.N3_st_K_all c c3 fn)
    (gen% (Gen.N3_st_comp_all c c3 fn) | J 6 6 | J 6 6) = Gen.N3_st_J_all c c3 fn
    ∧ (gen% (Gen.N3_st_comp_all c c3 fn) | P 6 6 | P 6 6) = Gen.N3_st_K_all c c3 fn
    ∧ (gen% (Gen.N3_st_comp_all c c3 fn) | J 6 6 | P 6 6) = List.replicate 36 0 := by
  intro J P
  refine ⟨?_, ?_, ?_⟩ <;>
  · t4_unfold_zd
    (try simp only [List.replicate, List.cons.injEq, and_true])
    repeat' apply And.intro
    all_goals (first | rfl | ring1 | (field_simp; done) | (field_simp; ring1))

/-- `M = 3/2 K` -/
theorem N3_st_M_eq (h2 : (2:K) ≠ 0) (h3 : (3:K) ≠ 0) :
    Gen.N3_st_M_all c c3 fn = (Gen.N3_st_K_all c c3 fn).map (fun x => 3 / 2 * x) := by
  simp only [gen_simp, List.map_cons, List.map_nil, List.cons.injEq, and_true]
  repeat' apply And.intro
  all_goals (first | rfl | ring1 | (field_simp; done) | (field_simp; ring1))

/-- `IxI / 3 + K = Id` for `t2tot2` -/
theorem N3_tt_J_add_K (h3 : (3:K) ≠ 0) :
    List.zipWith (fun x y => x / 3 + y) (Gen.N3_tt_IxI_all c c3 fn) (Gen.N3_tt_K_all c c3 fn)
      = Gen.N3_tt_Id_all c c3 fn := by
  simp only [gen_simp, List.zipWith_cons_cons, List.zipWith_nil_right, List.cons.injEq, and_true]
  repeat' apply And.intro
  all_goals (first | rfl | ring1 | (field_simp; done) | (field_simp; ring1))

/-! non-vacuity of the standing hypotheses: `TfelVerif.mandel_hypotheses_satisfiable` (Common/Model.lean)
gives a field (ℝ, `c = √2`) with `c * c = 2`, `2 ≠ 0`; `3 ≠ 0`, `k ≠ 0`, `det A ≠ 0` hold there e.g. for -/
example : (3 : ℝ) ≠ 0 ∧ (⟨2, 1, 0, 0, 3, 1, 1, 0, 5⟩ : M3 ℝ).det ≠ 0 := by
  constructor
  · norm_num
  · simp only [M3.det]; norm_num

end TfelVerif.C02.Props
