/-
  C02 — fourth-order tensors `st2tot2<3>` in index notation.

  Property theorems only (generated once from harness/C02/genprops.py, then fixed). `Gen.*` are the
  definitions regenerated on every run by tracing the real TFEL templates (harness/C02/trace.cxx).
  Vocabulary: C02/Spec.lean. Conventions: `c` is any element with `c * c = 2` in a field with `2 ≠ 0`;
  a stored vector / matrix is a function on the full 3D row set (`Fin 6` symmetric, `Fin 9` general);
  in 2D / 1D the generated code only receives the rows that exist (`gen% f | a 4 4` passes
  `a 0 0 … a 3 3`), the specification sees the other rows as zero (`rv`, `rm` with the masks
  `mS2 mS1 mT2 mT1`), and `padN_*` embeds the 2D / 1D result into the 3D storage with zeros — so
  each theorem also says that the result has no component outside the dimension.
-/
import TfelVerif.Common.M3
import TfelVerif.Common.Model
import TfelVerif.C02.Lemmas
import TfelVerif.C02.Gen3S2T

namespace TfelVerif.C02.Props
open TfelVerif TfelVerif.Mandel TfelVerif.C02
set_option linter.all false
set_option maxRecDepth 100000
set_option maxHeartbeats 1600000

variable {K : Type} [Field K] (c c3 : K) (fn : Fns K)

/-! ## st2tot2<3> -/
theorem N3_s2t_apply (hc : c * c = 2) (h2 : (2:K) ≠ 0) (a : Fin 9 → Fin 6 → K) (s : Fin 6 → K) :
    gen% (Gen.N3_s2t_apply_all c c3 fn) | a 9 6 | s 6
      = T2.tens (T4.app (T4.ofS2T c a) (T2.ofSt c s)) := by
  rw [tens_app_S2T hc h2]; t4_eq hc
theorem N3_s2t_applyL (hc : c * c = 2) (h2 : (2:K) ≠ 0) (x : Fin 9 → K) (a : Fin 9 → Fin 6 → K) :
    gen% (Gen.N3_s2t_applyL_all c c3 fn) | x 9 | a 9 6
      = T2.st c (T4.appL (T2.ofTens x) (T4.ofS2T c a)) := by
  rw [st_appL_S2T hc h2]; t4_eq hc
theorem N3_s2t_comp_tt_s2t (hc : c * c = 2) (h2 : (2:K) ≠ 0) (a : Fin 9 → Fin 9 → K) (b : Fin 9 → Fin 6 → K) :
    gen% (Gen.N3_s2t_comp_tt_s2t_all c c3 fn) | a 9 9 | b 9 6
      = rows96 (T4.stoS2T c (T4.comp (T4.ofTT a) (T4.ofS2T c b))) := by
  rw [stoS2T_comp_TT_S2T hc h2]; t4_eq hc
theorem N3_s2t_comp_s2t_st (hc : c * c = 2) (h2 : (2:K) ≠ 0) (a : Fin 9 → Fin 6 → K) (b : Fin 6 → Fin 6 → K) :
    gen% (Gen.N3_s2t_comp_s2t_st_all c c3 fn) | a 9 6 | b 6 6
      = rows96 (T4.stoS2T c (T4.comp (T4.ofS2T c a) (T4.ofST c b))) := by
  rw [stoS2T_comp_S2T_ST hc h2]; t4_eq hc
theorem N3_s2t_dyad (hc : c * c = 2) (h2 : (2:K) ≠ 0) (x : Fin 9 → K) (s : Fin 6 → K) :
    gen% (Gen.N3_s2t_dyad_all c c3 fn) | x 9 | s 6
      = rows96 (T4.stoS2T c (T2.dyad (T2.ofTens x) (T2.ofSt c s))) := by
  rw [stoS2T_dyad hc h2]; t4_eq hc
/-- `st2tot2::tpld(b)`: `∂(a·b)/∂a` for symmetric `a`, `(δ_ik b_lj + δ_il b_kj)/2` -/
theorem N3_s2t_tpld (hc : c * c = 2) (h2 : (2:K) ≠ 0) (s : Fin 6 → K) :
    gen% (Gen.N3_s2t_tpld_all c c3 fn) | s 6
      = rows96 (T4.stoS2T c (T4.symR (T4.tpld (T2.ofSt c s)))) := by
  t4_eq hc
/-- `st2tot2::tprd(a)`: `∂(a·b)/∂b` for symmetric `b`, `(a_ik δ_jl + a_il δ_jk)/2` -/
theorem N3_s2t_tprd (hc : c * c = 2) (h2 : (2:K) ≠ 0) (s : Fin 6 → K) :
    gen% (Gen.N3_s2t_tprd_all c c3 fn) | s 6
      = rows96 (T4.stoS2T c (T4.symR (T4.tprd (T2.ofSt c s)))) := by
  t4_eq hc

end TfelVerif.C02.Props
