/-
  C02 — fourth-order tensors `t2tot2<3>` in index notation.

  Property theorems only (generated once from harness/C02/genprops.py, then fixed). `Gen.*` are the
  definitions regenerated on every run by tracing the real TFEL templates (harness/C02/trace.cxx).
  Vocabulary: C02/Spec.lean. Conventions: `c` is any element with `c * c = 2` in a field with `2 ≠ 0`;
  a stored vector / matrix is a function on the full 3D row set (`Fin 6` symmetric, `Fin 9` general);
  in 2D / 1D the generated code only receives the rows that exist (`gen% f | a 4 4` passes
  `a 0 0 … a 3 3`), the specification sees the other rows as zero (`rv`, `rm` with the masks
  `mS2 mS1 mT2 mT1`), and `padN_*` embeds the 2D / 1D result into the 3D storage with zeros — so
  each theorem also says that the result has no component outside the dimension.
-/
import TfelVerif.Common.M3
import TfelVerif.Common.Model
import TfelVerif.C02.Lemmas
import TfelVerif.C02.Gen3TT

namespace TfelVerif.C02.Props
open TfelVerif TfelVerif.Mandel TfelVerif.C02
set_option linter.all false
set_option maxRecDepth 100000
set_option maxHeartbeats 1600000

variable {K : Type} [Field K] (c c3 : K) (fn : Fns K)

/-! ## t2tot2<3> -/
theorem N3_tt_apply (hc : c * c = 2) (h2 : (2:K) ≠ 0) (a : Fin 9 → Fin 9 → K) (x : Fin 9 → K) :
    gen% (Gen.N3_tt_apply_all c c3 fn) | a 9 9 | x 9
      = T2.tens (T4.app (T4.ofTT a) (T2.ofTens x)) := by
  rw [tens_app_TT hc h2]; t4_eq hc
theorem N3_tt_applyL (hc : c * c = 2) (h2 : (2:K) ≠ 0) (x : Fin 9 → K) (a : Fin 9 → Fin 9 → K) :
    gen% (Gen.N3_tt_applyL_all c c3 fn) | x 9 | a 9 9
      = T2.tens (T4.appL (T2.ofTens x) (T4.ofTT a)) := by
  rw [tens_appL_TT hc h2]; t4_eq hc
theorem N3_tt_comp (hc : c * c = 2) (h2 : (2:K) ≠ 0) (a : Fin 9 → Fin 9 → K) (b : Fin 9 → Fin 9 → K) :
    gen% (Gen.N3_tt_comp_all c c3 fn) | a 9 9 | b 9 9
      = rows99 (T4.stoTT (T4.comp (T4.ofTT a) (T4.ofTT b))) := by
  rw [stoTT_comp_TT_TT hc h2]; t4_eq hc
theorem N3_tt_dyad (hc : c * c = 2) (h2 : (2:K) ≠ 0) (x : Fin 9 → K) (y : Fin 9 → K) :
    gen% (Gen.N3_tt_dyad_all c c3 fn) | x 9 | y 9
      = rows99 (T4.stoTT (T2.dyad (T2.ofTens x) (T2.ofTens y))) := by
  rw [stoTT_dyad hc h2]; t4_eq hc
theorem N3_tt_Id (hc : c * c = 2) (h2 : (2:K) ≠ 0)  :
    gen% (Gen.N3_tt_Id_all c c3 fn)
      = rows99 (T4.stoTT T4.id) := by
  t4_eq hc
theorem N3_tt_IxI (hc : c * c = 2) (h2 : (2:K) ≠ 0)  :
    gen% (Gen.N3_tt_IxI_all c c3 fn)
      = rows99 (T4.stoTT T4.IxI) := by
  t4_eq hc
theorem N3_tt_K (hc : c * c = 2) (h2 : (2:K) ≠ 0) (h3 : (3:K) ≠ 0)  :
    gen% (Gen.N3_tt_K_all c c3 fn)
      = rows99 (T4.stoTT T4.KT) := by
  t4_eq hc
theorem N3_tt_transpose_derivative (hc : c * c = 2) (h2 : (2:K) ≠ 0)  :
    gen% (Gen.N3_tt_transpose_derivative_all c c3 fn)
      = rows99 (T4.stoTT T4.transp) := by
  t4_eq hc
/-- `A ↦ Rᵀ A R`: `R_ki R_lj` -/
theorem N3_tt_fromRotationMatrix (hc : c * c = 2) (h2 : (2:K) ≠ 0) (r : Fin 3 → Fin 3 → K) :
    gen% (Gen.N3_tt_fromRotationMatrix_all c c3 fn) | r 3 3
      = rows99 (T4.stoTT (T4.rot r)) := by
  t4_eq hc
/-- `tpld(B) = ∂(A·B)/∂A = δ_ik B_lj` (`Lemmas.app_tpld`: it maps `X` to `X·B`) -/
theorem N3_tt_tpld (hc : c * c = 2) (h2 : (2:K) ≠ 0) (b : Fin 9 → K) :
    gen% (Gen.N3_tt_tpld_all c c3 fn) | b 9
      = rows99 (T4.stoTT (T4.tpld (T2.ofTens b))) := by
  t4_eq hc
/-- `tprd(A) = ∂(A·B)/∂B = A_ik δ_jl` (`Lemmas.app_tprd`: it maps `X` to `A·X`) -/
theorem N3_tt_tprd (hc : c * c = 2) (h2 : (2:K) ≠ 0) (x : Fin 9 → K) :
    gen% (Gen.N3_tt_tprd_all c c3 fn) | x 9
      = rows99 (T4.stoTT (T4.tprd (T2.ofTens x))) := by
  t4_eq hc
theorem N3_tt_tpld_comp (hc : c * c = 2) (h2 : (2:K) ≠ 0) (b : Fin 9 → K) (a : Fin 9 → Fin 9 → K) :
    gen% (Gen.N3_tt_tpld_comp_all c c3 fn) | b 9 | a 9 9
      = rows99 (T4.stoTT (T4.comp (T4.tpld (T2.ofTens b)) (T4.ofTT a))) := by
  t4_eq hc
theorem N3_tt_tprd_comp (hc : c * c = 2) (h2 : (2:K) ≠ 0) (x : Fin 9 → K) (a : Fin 9 → Fin 9 → K) :
    gen% (Gen.N3_tt_tprd_comp_all c c3 fn) | x 9 | a 9 9
      = rows99 (T4.stoTT (T4.comp (T4.tprd (T2.ofTens x)) (T4.ofTT a))) := by
  t4_eq hc
/-- `t2tot2(D)`: the same fourth-order tensor in the 9×9 storage -/
theorem N3_tt_convert_from_t2tost2 (hc : c * c = 2) (h2 : (2:K) ≠ 0) (a : Fin 6 → Fin 9 → K) :
    gen% (Gen.N3_tt_convert_from_t2tost2_all c c3 fn) | a 6 9
      = rows99 (T4.stoTT (T4.ofTS c a)) := by
  t4_eq hc
/-- `st2tot2 * t2tost2` -/
theorem N3_tt_comp_s2t_ts (hc : c * c = 2) (h2 : (2:K) ≠ 0) (a : Fin 9 → Fin 6 → K) (b : Fin 6 → Fin 9 → K) :
    gen% (Gen.N3_tt_comp_s2t_ts_all c c3 fn) | a 9 6 | b 6 9
      = rows99 (T4.stoTT (T4.comp (T4.ofS2T c a) (T4.ofTS c b))) := by
  rw [stoTT_comp_S2T_TS hc h2]; t4_eq hc

end TfelVerif.C02.Props
