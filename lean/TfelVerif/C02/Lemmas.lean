/-
  C02/Lemmas.lean — tactics and sanity lemmas about the specification vocabulary of C02/Spec.lean.
  Nothing here mentions generated code.
-/
import TfelVerif.C02.Spec

namespace TfelVerif.C02
open TfelVerif TfelVerif.Mandel
variable {K : Type} [Field K]
set_option linter.unusedSectionVars false

/-- unfold generated definitions and the specification vocabulary down to field expressions -/
macro "t4_unfold" : tactic =>
  `(tactic| simp only [gen_simp,
      -- storage lists, paddings, masks
      rows66, rows99, rows69, rows96, pad2_66_eq, pad1_66_eq, pad2_99_eq, pad1_99_eq, pad2_69_eq, pad1_69_eq, pad2_96_eq, pad1_96_eq,
      pad2_6_eq, pad1_6_eq, pad2_9_eq, pad1_9_eq, rv, rm, mS2, mS1, mT2, mT1,
      T2.tens, T2.st, T4.stoST, T4.stoTT, T4.stoTS, T4.stoS2T,
      T4.ofST, T4.ofTT, T4.ofTS, T4.ofS2T, T2.ofTens, T2.ofSt, T2.ofM3, T2.plane,
      vecOf, matOf, List.getD_cons_zero, List.getD_cons_succ, Fin.val_zero, Fin.val_one, Fin.val_two,
      Fin.isValue, Fin.val_ofNat, Fin.coe_ofNat_eq_mod, Nat.reduceMod, Nat.reduceMul, Nat.reduceAdd,
      zero_mul, zero_add, one_mul,
      -- index notation
      T4.app, T4.appL, T4.comp, T4.transpose, T4.pushForward, T4.symL, T4.symR, T4.lin,
      T4.id, T4.transp, T4.idS, T4.IxI, T4.J, T4.KS, T4.KT, T4.M, T4.rot, T4.tpld, T4.tprd, T4.dCdF, T4.dBdF,
      T2.one, T2.mul, T2.transpose, T2.trace, T2.ddot, T2.dyad, sum3, sumS, sumT, vecS, vecT, delta,
      T4.comps, pairs3, pairs2, pairs1, List.flatMap_cons, List.flatMap_nil, List.map_cons, List.map_nil,
      List.cons_append, List.nil_append, List.append_nil,
      vi, ti, pS1, pS2, pT1, pT2, w, iw, w2, iw2, shear,
      -- explicit 3×3 matrices (Common/M3)
      M3.mandel3, M3.mandel2, M3.mandel1, M3.ofMandel, M3.tens3, M3.tens2, M3.tens1,
      M3.ofTens, M3.sym, M3.diag, M3.mul_def, M3.mul, M3.one_def, M3.one, M3.add_def, M3.add, M3.sub_def, M3.sub,
      M3.smul_def, M3.smul, M3.transpose, M3.plane, M3.planeRot, M3.rowMajor, M3.outer, M3.trace, M3.det, M3.frob, M3.mk.injEq,
      List.cons.injEq, and_true, true_and])

/-- same, also unfolding the `let`-bound variables of the context -/
macro "t4_unfold_zd" : tactic =>
  `(tactic| simp (config := { zetaDelta := true }) only [gen_simp,
      -- storage lists, paddings, masks
      rows66, rows99, rows69, rows96, pad2_66_eq, pad1_66_eq, pad2_99_eq, pad1_99_eq, pad2_69_eq, pad1_69_eq, pad2_96_eq, pad1_96_eq,
      pad2_6_eq, pad1_6_eq, pad2_9_eq, pad1_9_eq, rv, rm, mS2, mS1, mT2, mT1,
      T2.tens, T2.st, T4.stoST, T4.stoTT, T4.stoTS, T4.stoS2T,
      T4.ofST, T4.ofTT, T4.ofTS, T4.ofS2T, T2.ofTens, T2.ofSt, T2.ofM3, T2.plane,
      vecOf, matOf, List.getD_cons_zero, List.getD_cons_succ, Fin.val_zero, Fin.val_one, Fin.val_two,
      Fin.isValue, Fin.val_ofNat, Fin.coe_ofNat_eq_mod, Nat.reduceMod, Nat.reduceMul, Nat.reduceAdd,
      zero_mul, zero_add, one_mul,
      -- index notation
      T4.app, T4.appL, T4.comp, T4.transpose, T4.pushForward, T4.symL, T4.symR, T4.lin,
      T4.id, T4.transp, T4.idS, T4.IxI, T4.J, T4.KS, T4.KT, T4.M, T4.rot, T4.tpld, T4.tprd, T4.dCdF, T4.dBdF,
      T2.one, T2.mul, T2.transpose, T2.trace, T2.ddot, T2.dyad, sum3, sumS, sumT, vecS, vecT, delta,
      T4.comps, pairs3, pairs2, pairs1, List.flatMap_cons, List.flatMap_nil, List.map_cons, List.map_nil,
      List.cons_append, List.nil_append, List.append_nil,
      vi, ti, pS1, pS2, pT1, pT2, w, iw, w2, iw2, shear,
      -- explicit 3×3 matrices (Common/M3)
      M3.mandel3, M3.mandel2, M3.mandel1, M3.ofMandel, M3.tens3, M3.tens2, M3.tens1,
      M3.ofTens, M3.sym, M3.diag, M3.mul_def, M3.mul, M3.one_def, M3.one, M3.add_def, M3.add, M3.sub_def, M3.sub,
      M3.smul_def, M3.smul, M3.transpose, M3.plane, M3.planeRot, M3.rowMajor, M3.outer, M3.trace, M3.det, M3.frob, M3.mk.injEq,
      List.cons.injEq, and_true, true_and])

/-- `t4_eq hc`: equality of a generated list with the storage of its index-notation specification,
component by component: syntactically, as a polynomial identity (`ring1`), or modulo `hc : c * c = 2`
(`mandel_ring`, which also clears the numeral denominators using `2 ≠ 0`, `3 ≠ 0` from the context). -/
macro "t4_eq" h:term : tactic =>
  `(tactic| (
      (try t4_unfold)
      repeat' apply And.intro
      all_goals (first | rfl | trivial | ring1 | (mandel_ring $h))))

/-- code-to-code equalities (one generated definition is the composition of others): after unfolding
both sides are the same operations in the same order -/
macro "t4_same" : tactic =>
  `(tactic| (
      (try t4_unfold)
      repeat' apply And.intro
      all_goals (first | trivial | rfl | ring1)))

macro "t4_same_zd" : tactic =>
  `(tactic| (
      (try t4_unfold_zd)
      repeat' apply And.intro
      all_goals (first | trivial | rfl | ring1)))

/-! ### sanity of the vocabulary -/

theorem w2_eq {c : K} (hc : c * c = 2) (I J : Fin 6) : w2 c I J = w c I * w c J := by
  fin_cases I <;> fin_cases J <;> simp [w2, w, shear, hc]
theorem iw2_eq {c : K} (hc : c * c = 2) (h2 : (2 : K) ≠ 0) (I J : Fin 6) : iw2 c I J = iw c I * iw c J := by
  fin_cases I <;> fin_cases J <;> simp [iw2, iw, shear] <;> field_simp <;> linear_combination (-1 : K) * hc
theorem iw2_mul_w2 {c : K} (hc : c * c = 2) (h2 : (2 : K) ≠ 0) (I J : Fin 6) : iw2 c I J * w2 c I J = 1 := by
  fin_cases I <;> fin_cases J <;> simp [iw2, w2, shear] <;> field_simp <;> linear_combination hc

/-- storing then reading a fourth-order tensor gives it back (on tensors with both minor symmetries the
stored 6×6 matrix loses nothing): `stoST` and `ofST` are inverse of each other on stored matrices -/
theorem stoST_ofST {c : K} (hc : c * c = 2) (h2 : (2 : K) ≠ 0) (m : Fin 6 → Fin 6 → K) (I J : Fin 6) :
    T4.stoST c (T4.ofST c m) I J = m I J := by
  simp only [T4.stoST, T4.ofST, vi_pS]
  rw [← mul_assoc, mul_comm (w2 c I J), iw2_mul_w2 hc h2, one_mul]
theorem ofST_minor (c : K) (m : Fin 6 → Fin 6 → K) (i j k l : Fin 3) :
    T4.ofST c m i j k l = T4.ofST c m j i k l ∧ T4.ofST c m i j k l = T4.ofST c m i j l k := by
  simp only [T4.ofST, vi_symm i j, vi_symm k l, and_self]
theorem stoTT_ofTT (m : Fin 9 → Fin 9 → K) (I J : Fin 9) : T4.stoTT (T4.ofTT m) I J = m I J := by
  simp only [T4.stoTT, T4.ofTT, ti_pT]
theorem ofTT_stoTT (C : T4 K) : T4.ofTT (T4.stoTT C) = C := by
  funext i j k l; simp only [T4.stoTT, T4.ofTT, (pT_ti i j).1, (pT_ti i j).2, (pT_ti k l).1, (pT_ti k l).2]

/-- the symmetric tensor read from a stored `stensor` is symmetric, and `T2.st` stores it back -/
theorem ofSt_symm (c : K) (s : Fin 6 → K) (i j : Fin 3) : T2.ofSt c s i j = T2.ofSt c s j i := by
  simp only [T2.ofSt, vi_symm i j]
theorem st_ofSt {c : K} (hc : c * c = 2) (h2 : (2 : K) ≠ 0) (s : Fin 6 → K) :
    T2.st c (T2.ofSt c s) = [s 0, s 1, s 2, s 3, s 4, s 5] := by
  simp only [T2.st, T2.ofSt, vi, iw, one_mul, List.cons.injEq, and_true, true_and]
  refine ⟨?_, ?_, ?_⟩ <;> field_simp <;> linear_combination (s _) * hc
theorem tens_ofTens (t : Fin 9 → K) : T2.tens (T2.ofTens t) = [t 0, t 1, t 2, t 3, t 4, t 5, t 6, t 7, t 8] := rfl

/-- what the projectors mean as maps on second-order tensors -/
theorem app_id (A : T2 K) : T4.app T4.id A = A := by
  funext i j; fin_cases i <;> fin_cases j <;> simp [T4.app, T4.id, sum3, delta]
theorem app_transp (A : T2 K) : T4.app T4.transp A = T2.transpose A := by
  funext i j; fin_cases i <;> fin_cases j <;> simp [T4.app, T4.transp, T2.transpose, sum3, delta]
theorem app_idS (h2 : (2 : K) ≠ 0) (A : T2 K) : T4.app T4.idS A = fun i j => (A i j + A j i) / 2 := by
  funext i j; fin_cases i <;> fin_cases j <;> simp [T4.app, T4.idS, sum3, delta] <;> field_simp <;> ring
theorem app_IxI (A : T2 K) : T4.app T4.IxI A = fun i j => T2.trace A * delta i j := by
  funext i j; fin_cases i <;> fin_cases j <;> simp [T4.app, T4.IxI, T2.trace, sum3, delta]
theorem app_J (h3 : (3 : K) ≠ 0) (A : T2 K) : T4.app T4.J A = fun i j => T2.trace A / 3 * delta i j := by
  funext i j; fin_cases i <;> fin_cases j <;> simp [T4.app, T4.J, T2.trace, sum3, delta] <;> field_simp
/-- `K : A = dev A` for symmetric `A` -/
theorem app_KS (h2 : (2 : K) ≠ 0) (h3 : (3 : K) ≠ 0) (A : T2 K) (hA : ∀ i j, A i j = A j i) :
    T4.app T4.KS A = fun i j => A i j - T2.trace A / 3 * delta i j := by
  funext i j
  have e01 := hA 0 1; have e02 := hA 0 2; have e12 := hA 1 2
  fin_cases i <;> fin_cases j <;> simp [T4.app, T4.KS, T4.idS, T4.J, T2.trace, sum3, delta] <;> field_simp <;>
    first | ring1 | linear_combination (-1 : K) * e01 | linear_combination e01 | linear_combination (-1 : K) * e02
          | linear_combination e02 | linear_combination (-1 : K) * e12 | linear_combination e12
theorem KS_add_J (C : T4 K) : (fun i j k l => T4.KS i j k l + T4.J i j k l : T4 K) = T4.idS := by
  funext i j k l; simp [T4.KS]
/-- `rot R : A = Rᵀ A R`, `pushForward F (A ⊗ B) = (F A Fᵀ) ⊗ (F B Fᵀ)` -/
theorem app_rot (R A : T2 K) : T4.app (T4.rot R) A = T2.mul (T2.mul (T2.transpose R) A) R := by
  funext i j; simp only [T4.app, T4.rot, T2.mul, T2.transpose, sum3]; ring
theorem pushForward_dyad (F A B : T2 K) :
    T4.pushForward F (T2.dyad A B)
      = T2.dyad (T2.mul (T2.mul F A) (T2.transpose F)) (T2.mul (T2.mul F B) (T2.transpose F)) := by
  funext i j k l; simp only [T4.pushForward, T2.dyad, T2.mul, T2.transpose, sum3]; ring
/-- `tpld B : X = X B`, `tprd A : X = A X` -/
theorem app_tpld (B X : T2 K) : T4.app (T4.tpld B) X = T2.mul X B := by
  funext i j; fin_cases i <;> simp [T4.app, T4.tpld, T2.mul, sum3, delta] <;> ring
theorem app_tprd (A X : T2 K) : T4.app (T4.tprd A) X = T2.mul A X := by
  funext i j; fin_cases j <;> simp [T4.app, T4.tprd, T2.mul, sum3, delta] <;> ring
/-- `dCdF F : X = Xᵀ F + Fᵀ X`, `dBdF F : X = X Fᵀ + F Xᵀ` -/
theorem app_dCdF (F X : T2 K) :
    T4.app (T4.dCdF F) X = fun i j => T2.mul (T2.transpose X) F i j + T2.mul (T2.transpose F) X i j := by
  funext i j; fin_cases i <;> fin_cases j <;> simp [T4.app, T4.dCdF, T2.mul, T2.transpose, sum3, delta] <;> ring
theorem app_dBdF (F X : T2 K) :
    T4.app (T4.dBdF F) X = fun i j => T2.mul X (T2.transpose F) i j + T2.mul F (T2.transpose X) i j := by
  funext i j; fin_cases i <;> fin_cases j <;> simp [T4.app, T4.dBdF, T2.mul, T2.transpose, sum3, delta] <;> ring
/-- `(C ∘ D) : A = C : (D : A)` -/
theorem app_comp (C D : T4 K) (A : T2 K) : T4.app (T4.comp C D) A = T4.app C (T4.app D A) := by
  funext i j; simp only [T4.app, T4.comp, sum3]; ring

/-! ### the storage is a faithful matrix representation

Double contractions of fourth-order tensors are plain matrix products of the stored matrices, the action on a
second-order tensor is the matrix-vector product of the stored objects (this is what the Mandel weights
`1, √2, 2` are for). These lemmas are about the vocabulary only (no generated code); the property theorems
use them to reduce a statement in index notation to a statement about stored matrices. -/
section representation
variable {c : K} (hc : c * c = 2) (h2 : (2 : K) ≠ 0)
include hc h2

macro "rep_unfold" : tactic =>
  `(tactic| simp only [T2.tens, T2.st, T4.stoST, T4.stoTT, T4.stoTS, T4.stoS2T,
      T4.ofST, T4.ofTT, T4.ofTS, T4.ofS2T, T2.ofTens, T2.ofSt, T4.app, T4.appL, T4.comp, T4.transpose, T2.dyad,
      sum3, sumS, sumT, vecS, vecT, vi, ti, pS1, pS2, pT1, pT2, w, iw, w2, iw2, shear,
      Fin.reduceFinMk, Fin.isValue, List.cons.injEq, and_true, true_and])
macro "rep_vec" h:term : tactic =>
  `(tactic| (rep_unfold; repeat' apply And.intro
             all_goals (first | rfl | ring1 | mandel_ring $h)))

omit hc h2 in
theorem w_lit (c : K) : w c 0 = 1 ∧ w c 1 = 1 ∧ w c 2 = 1 ∧ w c 3 = c ∧ w c 4 = c ∧ w c 5 = c :=
  ⟨rfl, rfl, rfl, rfl, rfl, rfl⟩
omit hc h2 in
theorem iw_lit (c : K) :
    iw c 0 = 1 ∧ iw c 1 = 1 ∧ iw c 2 = 1 ∧ iw c 3 = c / 2 ∧ iw c 4 = c / 2 ∧ iw c 5 = c / 2 :=
  ⟨rfl, rfl, rfl, rfl, rfl, rfl⟩
omit hc h2 in
/-- a row of the symmetric storage is a diagonal row (`w = iw = 1`) or a shear row (`w = √2`, `iw = 1/√2`) -/
theorem w_iw_cases (c : K) (I : Fin 6) : (w c I = 1 ∧ iw c I = 1) ∨ (w c I = c ∧ iw c I = c / 2) := by
  fin_cases I <;> simp [w, iw]

/-- matrix-valued representation lemmas: the row `I` and the column `J` stay symbolic, only their kind
(diagonal / shear) is split when they are symmetric rows (`rep_mat_SS`: both, `rep_mat_ST`: the row,
`rep_mat_TS`: the column, `rep_mat_TT`: none) -/
macro "rep_start" h:term : tactic =>
  `(tactic| (
      simp only [T4.stoST, T4.stoTT, T4.stoTS, T4.stoS2T, T4.ofST, T4.ofTT, T4.ofTS, T4.ofS2T, T2.ofTens, T2.ofSt,
        T4.comp, T4.transpose, T2.dyad, vi_pS, ti_pT, iw2_eq $h h2, w2_eq $h, sum3, sumS, sumT]
      try simp only [vi, ti]))
macro "rep_mat_TT" h:term : tactic => `(tactic| (funext I J; rep_start $h; all_goals ((try simp only [(w_lit c).1, (w_lit c).2.1, (w_lit c).2.2.1, (w_lit c).2.2.2.1, (w_lit c).2.2.2.2.1, (w_lit c).2.2.2.2.2, (iw_lit c).1, (iw_lit c).2.1, (iw_lit c).2.2.1, (iw_lit c).2.2.2.1, (iw_lit c).2.2.2.2.1, (iw_lit c).2.2.2.2.2]); first | rfl | ring1 | mandel_ring $h)))
macro "rep_mat_SS" h:term : tactic =>
  `(tactic| (funext I J
             rep_start $h
             rcases w_iw_cases c I with ⟨e1, e2⟩ | ⟨e1, e2⟩ <;> rcases w_iw_cases c J with ⟨f1, f2⟩ | ⟨f1, f2⟩ <;>
               simp only [e1, e2, f1, f2, (w_lit c).1, (w_lit c).2.1, (w_lit c).2.2.1, (w_lit c).2.2.2.1, (w_lit c).2.2.2.2.1, (w_lit c).2.2.2.2.2, (iw_lit c).1, (iw_lit c).2.1, (iw_lit c).2.2.1, (iw_lit c).2.2.2.1, (iw_lit c).2.2.2.2.1, (iw_lit c).2.2.2.2.2] <;> (first | ring1 | mandel_ring $h)))
macro "rep_mat_ST" h:term : tactic =>
  `(tactic| (funext I J
             rep_start $h
             rcases w_iw_cases c I with ⟨e1, e2⟩ | ⟨e1, e2⟩ <;>
               simp only [e1, e2, (w_lit c).1, (w_lit c).2.1, (w_lit c).2.2.1, (w_lit c).2.2.2.1, (w_lit c).2.2.2.2.1, (w_lit c).2.2.2.2.2, (iw_lit c).1, (iw_lit c).2.1, (iw_lit c).2.2.1, (iw_lit c).2.2.2.1, (iw_lit c).2.2.2.2.1, (iw_lit c).2.2.2.2.2] <;> (first | ring1 | mandel_ring $h)))
macro "rep_mat_TS" h:term : tactic =>
  `(tactic| (funext I J
             rep_start $h
             rcases w_iw_cases c J with ⟨f1, f2⟩ | ⟨f1, f2⟩ <;>
               simp only [f1, f2, (w_lit c).1, (w_lit c).2.1, (w_lit c).2.2.1, (w_lit c).2.2.2.1, (w_lit c).2.2.2.2.1, (w_lit c).2.2.2.2.2, (iw_lit c).1, (iw_lit c).2.1, (iw_lit c).2.2.1, (iw_lit c).2.2.2.1, (iw_lit c).2.2.2.2.1, (iw_lit c).2.2.2.2.2] <;> (first | ring1 | mandel_ring $h)))

theorem stoST_comp_ST_ST (a b : Fin 6 → Fin 6 → K) :
    T4.stoST c (T4.comp (T4.ofST c a) (T4.ofST c b)) = fun I J => sumS fun L => a I L * b L J := by rep_mat_SS hc
theorem stoST_comp_TS_S2T (a : Fin 6 → Fin 9 → K) (b : Fin 9 → Fin 6 → K) :
    T4.stoST c (T4.comp (T4.ofTS c a) (T4.ofS2T c b)) = fun I J => sumT fun L => a I L * b L J := by rep_mat_SS hc
theorem stoTT_comp_TT_TT (a b : Fin 9 → Fin 9 → K) :
    T4.stoTT (T4.comp (T4.ofTT a) (T4.ofTT b)) = fun I J => sumT fun L => a I L * b L J := by rep_mat_TT hc
theorem stoTT_comp_S2T_TS (a : Fin 9 → Fin 6 → K) (b : Fin 6 → Fin 9 → K) :
    T4.stoTT (T4.comp (T4.ofS2T c a) (T4.ofTS c b)) = fun I J => sumS fun L => a I L * b L J := by rep_mat_TT hc
theorem stoTS_comp_ST_TS (a : Fin 6 → Fin 6 → K) (b : Fin 6 → Fin 9 → K) :
    T4.stoTS c (T4.comp (T4.ofST c a) (T4.ofTS c b)) = fun I J => sumS fun L => a I L * b L J := by rep_mat_ST hc
theorem stoTS_comp_TS_TT (a : Fin 6 → Fin 9 → K) (b : Fin 9 → Fin 9 → K) :
    T4.stoTS c (T4.comp (T4.ofTS c a) (T4.ofTT b)) = fun I J => sumT fun L => a I L * b L J := by rep_mat_ST hc
theorem stoS2T_comp_TT_S2T (a : Fin 9 → Fin 9 → K) (b : Fin 9 → Fin 6 → K) :
    T4.stoS2T c (T4.comp (T4.ofTT a) (T4.ofS2T c b)) = fun I J => sumT fun L => a I L * b L J := by rep_mat_TS hc
theorem stoS2T_comp_S2T_ST (a : Fin 9 → Fin 6 → K) (b : Fin 6 → Fin 6 → K) :
    T4.stoS2T c (T4.comp (T4.ofS2T c a) (T4.ofST c b)) = fun I J => sumS fun L => a I L * b L J := by rep_mat_TS hc

theorem st_app_ST (a : Fin 6 → Fin 6 → K) (s : Fin 6 → K) :
    T2.st c (T4.app (T4.ofST c a) (T2.ofSt c s)) = vecS fun I => sumS fun L => a I L * s L := by rep_vec hc
theorem st_appL_ST (s : Fin 6 → K) (a : Fin 6 → Fin 6 → K) :
    T2.st c (T4.appL (T2.ofSt c s) (T4.ofST c a)) = vecS fun J => sumS fun L => s L * a L J := by rep_vec hc
theorem tens_app_TT (a : Fin 9 → Fin 9 → K) (x : Fin 9 → K) :
    T2.tens (T4.app (T4.ofTT a) (T2.ofTens x)) = vecT fun I => sumT fun L => a I L * x L := by rep_vec hc
theorem tens_appL_TT (x : Fin 9 → K) (a : Fin 9 → Fin 9 → K) :
    T2.tens (T4.appL (T2.ofTens x) (T4.ofTT a)) = vecT fun J => sumT fun L => x L * a L J := by rep_vec hc
theorem st_app_TS (a : Fin 6 → Fin 9 → K) (x : Fin 9 → K) :
    T2.st c (T4.app (T4.ofTS c a) (T2.ofTens x)) = vecS fun I => sumT fun L => a I L * x L := by rep_vec hc
theorem tens_appL_TS (s : Fin 6 → K) (a : Fin 6 → Fin 9 → K) :
    T2.tens (T4.appL (T2.ofSt c s) (T4.ofTS c a)) = vecT fun J => sumS fun L => s L * a L J := by rep_vec hc
theorem tens_app_S2T (a : Fin 9 → Fin 6 → K) (s : Fin 6 → K) :
    T2.tens (T4.app (T4.ofS2T c a) (T2.ofSt c s)) = vecT fun I => sumS fun L => a I L * s L := by rep_vec hc
theorem st_appL_S2T (x : Fin 9 → K) (a : Fin 9 → Fin 6 → K) :
    T2.st c (T4.appL (T2.ofTens x) (T4.ofS2T c a)) = vecS fun J => sumT fun L => x L * a L J := by rep_vec hc

theorem stoST_transpose (a : Fin 6 → Fin 6 → K) :
    T4.stoST c (T4.transpose (T4.ofST c a)) = fun I J => a J I := by rep_mat_SS hc
theorem stoST_dyad (s t : Fin 6 → K) :
    T4.stoST c (T2.dyad (T2.ofSt c s) (T2.ofSt c t)) = fun I J => s I * t J := by rep_mat_SS hc
theorem stoTT_dyad (x y : Fin 9 → K) :
    T4.stoTT (T2.dyad (T2.ofTens x) (T2.ofTens y)) = fun I J => x I * y J := by rep_mat_TT hc
theorem stoTS_dyad (s : Fin 6 → K) (x : Fin 9 → K) :
    T4.stoTS c (T2.dyad (T2.ofSt c s) (T2.ofTens x)) = fun I J => s I * x J := by rep_mat_ST hc
theorem stoS2T_dyad (x : Fin 9 → K) (s : Fin 6 → K) :
    T4.stoS2T c (T2.dyad (T2.ofTens x) (T2.ofSt c s)) = fun I J => x I * s J := by rep_mat_TS hc
end representation

/-- `Q(R) : C : Q(Rᵀ)` with `Q(R) = rot R` is the index formula `R_mi R_nj R_pk R_ql C_mnpq` (what the
composition statements of `change_basis` amount to) -/
theorem comp_rot_comp_rot (R : T2 K) (C : T4 K) :
    T4.comp (T4.comp (T4.rot R) C) (T4.rot (T2.transpose R)) = T4.pushForward (T2.transpose R) C := by
  funext i j k l
  simp only [T4.comp, T4.rot, T4.pushForward, T2.transpose, sum3]
  try ring

/-- bridge to the explicit matrices of Common/M3 -/
theorem ofM3_mul (A B : M3 K) : T2.ofM3 (A * B) = T2.mul (T2.ofM3 A) (T2.ofM3 B) := by
  funext i j; fin_cases i <;> fin_cases j <;> simp [T2.ofM3, T2.mul, sum3, M3.mul_def, M3.mul]
theorem ofM3_transpose (A : M3 K) : T2.ofM3 A.transpose = T2.transpose (T2.ofM3 A) := by
  funext i j; fin_cases i <;> fin_cases j <;> simp [T2.ofM3, T2.transpose, M3.transpose]
theorem ofM3_tens (A : M3 K) : T2.tens (T2.ofM3 A) = M3.tens3 A := rfl

end TfelVerif.C02
