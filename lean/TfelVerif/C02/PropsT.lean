/-
  C02 — second-order tensors `tensor<N>` (N = 1,2,3) against explicit 3×3 matrices.

  Property theorems only (generated once from harness/C02/genprops.py, then fixed). `Gen.*` are the
  definitions regenerated on every run by tracing the real TFEL templates (harness/C02/trace.cxx).
  Vocabulary: C02/Spec.lean. Conventions: `c` is any element with `c * c = 2` in a field with `2 ≠ 0`;
  a stored vector / matrix is a function on the full 3D row set (`Fin 6` symmetric, `Fin 9` general);
  in 2D / 1D the generated code only receives the rows that exist (`gen% f | a 4 4` passes
  `a 0 0 … a 3 3`), the specification sees the other rows as zero (`rv`, `rm` with the masks
  `mS2 mS1 mT2 mT1`), and `padN_*` embeds the 2D / 1D result into the 3D storage with zeros — so
  each theorem also says that the result has no component outside the dimension.
  Storage `(t00 t11 t22 t01 t10 t02 t20 t12 t21)` = `M3.tens3`; `M3.plane` / `M3.diag` are the 2D / 1D matrices.
-/
import TfelVerif.Common.M3
import TfelVerif.Common.Model
import TfelVerif.C02.Lemmas
import TfelVerif.C02.GenT

namespace TfelVerif.C02.Props
open TfelVerif TfelVerif.Mandel TfelVerif.C02
set_option linter.all false
set_option maxRecDepth 100000
set_option maxHeartbeats 1600000

variable {K : Type} [Field K] (c c3 : K) (fn : Fns K)

/-! ## tensor<3> -/
/-- `A * B` is the matrix product -/
theorem N3_t_prod (hc : c * c = 2) (h2 : (2:K) ≠ 0) (A B : M3 K) :
    Gen.N3_t_prod_all c c3 fn A.a00 A.a11 A.a22 A.a01 A.a10 A.a02 A.a20 A.a12 A.a21 B.a00 B.a11 B.a22 B.a01 B.a10 B.a02 B.a20 B.a12 B.a21
      = M3.tens3 (A * B) := by
  t4_eq hc
theorem N3_t_prod_ts (hc : c * c = 2) (h2 : (2:K) ≠ 0) (A : M3 K) (s00 s11 s22 s01 s02 s12 : K) :
    Gen.N3_t_prod_ts_all c c3 fn A.a00 A.a11 A.a22 A.a01 A.a10 A.a02 A.a20 A.a12 A.a21 s00 s11 s22 (c*s01) (c*s02) (c*s12)
      = M3.tens3 (A * (M3.sym s00 s11 s22 s01 s02 s12)) := by
  t4_eq hc
theorem N3_t_prod_st (hc : c * c = 2) (h2 : (2:K) ≠ 0) (s00 s11 s22 s01 s02 s12 : K) (A : M3 K) :
    Gen.N3_t_prod_st_all c c3 fn s00 s11 s22 (c*s01) (c*s02) (c*s12) A.a00 A.a11 A.a22 A.a01 A.a10 A.a02 A.a20 A.a12 A.a21
      = M3.tens3 ((M3.sym s00 s11 s22 s01 s02 s12) * A) := by
  t4_eq hc
theorem N3_t_transpose (hc : c * c = 2) (h2 : (2:K) ≠ 0) (A : M3 K) :
    Gen.N3_t_transpose_all c c3 fn A.a00 A.a11 A.a22 A.a01 A.a10 A.a02 A.a20 A.a12 A.a21
      = M3.tens3 A.transpose := by
  t4_eq hc
theorem N3_t_trace (hc : c * c = 2) (h2 : (2:K) ≠ 0) (A : M3 K) :
    Gen.N3_t_trace_r c c3 fn A.a00 A.a11 A.a22 A.a01 A.a10 A.a02 A.a20 A.a12 A.a21 = A.trace := by
  t4_eq hc
theorem N3_t_det (hc : c * c = 2) (h2 : (2:K) ≠ 0) (A : M3 K) :
    Gen.N3_t_det_r c c3 fn A.a00 A.a11 A.a22 A.a01 A.a10 A.a02 A.a20 A.a12 A.a21 = A.det := by
  t4_eq hc
/-- `computeDeterminantDerivative(A)` is the cofactor matrix: `A · (dJ)ᵀ = det A · 1` -/
theorem N3_t_ddet (hc : c * c = 2) (h2 : (2:K) ≠ 0) (A : M3 K) :
    A * (M3.ofTens (Gen.N3_t_ddet_all c c3 fn A.a00 A.a11 A.a22 A.a01 A.a10 A.a02 A.a20 A.a12 A.a21)).transpose = A.det • (1 : M3 K) := by
  t4_eq hc
/-- `A | B = A_ij B_ij` -/
theorem N3_t_contract (hc : c * c = 2) (h2 : (2:K) ≠ 0) (A B : M3 K) :
    Gen.N3_t_contract_r c c3 fn A.a00 A.a11 A.a22 A.a01 A.a10 A.a02 A.a20 A.a12 A.a21 B.a00 B.a11 B.a22 B.a01 B.a10 B.a02 B.a20 B.a12 B.a21 = A.frob B := by
  t4_eq hc
theorem N3_t_add_scale (hc : c * c = 2) (h2 : (2:K) ≠ 0) (A B : M3 K) (k : K) (hk : k ≠ 0) :
    Gen.N3_t_add_scale_all c c3 fn A.a00 A.a11 A.a22 A.a01 A.a10 A.a02 A.a20 A.a12 A.a21 B.a00 B.a11 B.a22 B.a01 B.a10 B.a02 B.a20 B.a12 B.a21 k
      = M3.tens3 (k • A + B - (1/k) • A) := by
  t4_eq hc
/-- `change_basis(A,R) = Rᵀ A R` for every matrix `R` (2D: in-plane block of `R`; 1D: unchanged) -/
theorem N3_t_change_basis (hc : c * c = 2) (h2 : (2:K) ≠ 0) (A R : M3 K) :
    Gen.N3_t_change_basis_all c c3 fn A.a00 A.a11 A.a22 A.a01 A.a10 A.a02 A.a20 A.a12 A.a21 R.a00 R.a01 R.a02 R.a10 R.a11 R.a12 R.a20 R.a21 R.a22
      = M3.tens3 (R.transpose * A * R) := by
  t4_eq hc
theorem N3_t_changeBasis_member (hc : c * c = 2) (h2 : (2:K) ≠ 0) (A R : M3 K) :
    Gen.N3_t_changeBasis_member_all c c3 fn A.a00 A.a11 A.a22 A.a01 A.a10 A.a02 A.a20 A.a12 A.a21 R.a00 R.a01 R.a02 R.a10 R.a11 R.a12 R.a20 R.a21 R.a22
      = M3.tens3 (R.transpose * A * R) := by
  t4_eq hc
/-- `syme(A) = (A + Aᵀ)/2` in symmetric storage -/
theorem N3_t_syme (hc : c * c = 2) (h2 : (2:K) ≠ 0) (A : M3 K) :
    Gen.N3_t_syme_all c c3 fn A.a00 A.a11 A.a22 A.a01 A.a10 A.a02 A.a20 A.a12 A.a21
      = M3.mandel3 c ((1/2 : K) • (A + A.transpose)) := by
  t4_eq hc
/-- `unsyme(s)`: the same matrix in non-symmetric storage -/
theorem N3_t_unsyme (hc : c * c = 2) (h2 : (2:K) ≠ 0) (s00 s11 s22 s01 s02 s12 : K) :
    Gen.N3_t_unsyme_all c c3 fn s00 s11 s22 (c*s01) (c*s02) (c*s12)
      = M3.tens3 (M3.sym s00 s11 s22 s01 s02 s12) := by
  t4_eq hc
/-- mixed `tensor + stensor` (through `TensorViewFromStensor`) -/
theorem N3_t_add_stensor (hc : c * c = 2) (h2 : (2:K) ≠ 0) (A : M3 K) (s00 s11 s22 s01 s02 s12 : K) :
    Gen.N3_t_add_stensor_all c c3 fn A.a00 A.a11 A.a22 A.a01 A.a10 A.a02 A.a20 A.a12 A.a21 s00 s11 s22 (c*s01) (c*s02) (c*s12)
      = M3.tens3 (A + (M3.sym s00 s11 s22 s01 s02 s12)) := by
  t4_eq hc
/-- `C = Fᵀ F` -/
theorem N3_t_rcg (hc : c * c = 2) (h2 : (2:K) ≠ 0) (A : M3 K) :
    Gen.N3_t_rcg_all c c3 fn A.a00 A.a11 A.a22 A.a01 A.a10 A.a02 A.a20 A.a12 A.a21
      = M3.mandel3 c (A.transpose * A) := by
  t4_eq hc
/-- `B = F Fᵀ` -/
theorem N3_t_lcg (hc : c * c = 2) (h2 : (2:K) ≠ 0) (A : M3 K) :
    Gen.N3_t_lcg_all c c3 fn A.a00 A.a11 A.a22 A.a01 A.a10 A.a02 A.a20 A.a12 A.a21
      = M3.mandel3 c (A * A.transpose) := by
  t4_eq hc
/-- `E = (FᵀF - 1)/2` -/
theorem N3_t_gl (hc : c * c = 2) (h2 : (2:K) ≠ 0) (A : M3 K) :
    Gen.N3_t_gl_all c c3 fn A.a00 A.a11 A.a22 A.a01 A.a10 A.a02 A.a20 A.a12 A.a21
      = M3.mandel3 c ((1/2 : K) • (A.transpose * A - 1)) := by
  t4_eq hc
/-- `push_forward(s,F) = F s Fᵀ` -/
theorem N3_t_push_forward (hc : c * c = 2) (h2 : (2:K) ≠ 0) (s00 s11 s22 s01 s02 s12 : K) (A : M3 K) :
    Gen.N3_t_push_forward_all c c3 fn s00 s11 s22 (c*s01) (c*s02) (c*s12) A.a00 A.a11 A.a22 A.a01 A.a10 A.a02 A.a20 A.a12 A.a21
      = M3.mandel3 c (A * (M3.sym s00 s11 s22 s01 s02 s12) * A.transpose) := by
  t4_eq hc
/-- `A(i,j)` for the nine index pairs -/
theorem N3_t_access (hc : c * c = 2) (h2 : (2:K) ≠ 0) (A : M3 K) :
    Gen.N3_t_access_all c c3 fn A.a00 A.a11 A.a22 A.a01 A.a10 A.a02 A.a20 A.a12 A.a21
      = M3.rowMajor A := by
  t4_eq hc
/-- column-major 3×3 array: `A_ij = v[i + 3 j]` -/
theorem N3_t_buildFromFortranMatrix (hc : c * c = 2) (h2 : (2:K) ≠ 0) (v : Fin 9 → K) :
    gen% (Gen.N3_t_buildFromFortranMatrix_all c c3 fn) | v 9
      = M3.tens3 (⟨v 0, v 3, v 6, v 1, v 4, v 7, v 2, v 5, v 8⟩ : M3 K) := by
  t4_eq hc
theorem N3_t_Id (hc : c * c = 2) (h2 : (2:K) ≠ 0)  :
    Gen.N3_t_Id_all c c3 fn 
      = M3.tens3 (1 : M3 K) := by
  t4_eq hc

/-! ## tensor<2> -/
/-- `A * B` is the matrix product -/
theorem N2_t_prod (hc : c * c = 2) (h2 : (2:K) ≠ 0) (A B : M3 K) :
    pad2_9 (Gen.N2_t_prod_all c c3 fn A.a00 A.a11 A.a22 A.a01 A.a10 B.a00 B.a11 B.a22 B.a01 B.a10)
      = M3.tens3 ((M3.plane A) * (M3.plane B)) := by
  t4_eq hc
theorem N2_t_prod_ts (hc : c * c = 2) (h2 : (2:K) ≠ 0) (A : M3 K) (s00 s11 s22 s01 s02 s12 : K) :
    pad2_9 (Gen.N2_t_prod_ts_all c c3 fn A.a00 A.a11 A.a22 A.a01 A.a10 s00 s11 s22 (c*s01))
      = M3.tens3 ((M3.plane A) * (M3.sym s00 s11 s22 s01 0 0)) := by
  t4_eq hc
theorem N2_t_prod_st (hc : c * c = 2) (h2 : (2:K) ≠ 0) (s00 s11 s22 s01 s02 s12 : K) (A : M3 K) :
    pad2_9 (Gen.N2_t_prod_st_all c c3 fn s00 s11 s22 (c*s01) A.a00 A.a11 A.a22 A.a01 A.a10)
      = M3.tens3 ((M3.sym s00 s11 s22 s01 0 0) * (M3.plane A)) := by
  t4_eq hc
theorem N2_t_transpose (hc : c * c = 2) (h2 : (2:K) ≠ 0) (A : M3 K) :
    pad2_9 (Gen.N2_t_transpose_all c c3 fn A.a00 A.a11 A.a22 A.a01 A.a10)
      = M3.tens3 (M3.plane A).transpose := by
  t4_eq hc
theorem N2_t_trace (hc : c * c = 2) (h2 : (2:K) ≠ 0) (A : M3 K) :
    Gen.N2_t_trace_r c c3 fn A.a00 A.a11 A.a22 A.a01 A.a10 = (M3.plane A).trace := by
  t4_eq hc
theorem N2_t_det (hc : c * c = 2) (h2 : (2:K) ≠ 0) (A : M3 K) :
    Gen.N2_t_det_r c c3 fn A.a00 A.a11 A.a22 A.a01 A.a10 = (M3.plane A).det := by
  t4_eq hc
/-- `computeDeterminantDerivative(A)` is the cofactor matrix: `A · (dJ)ᵀ = det A · 1` -/
theorem N2_t_ddet (hc : c * c = 2) (h2 : (2:K) ≠ 0) (A : M3 K) :
    (M3.plane A) * (M3.ofTens (Gen.N2_t_ddet_all c c3 fn A.a00 A.a11 A.a22 A.a01 A.a10)).transpose = (M3.plane A).det • (1 : M3 K) := by
  t4_eq hc
/-- `A | B = A_ij B_ij` -/
theorem N2_t_contract (hc : c * c = 2) (h2 : (2:K) ≠ 0) (A B : M3 K) :
    Gen.N2_t_contract_r c c3 fn A.a00 A.a11 A.a22 A.a01 A.a10 B.a00 B.a11 B.a22 B.a01 B.a10 = (M3.plane A).frob (M3.plane B) := by
  t4_eq hc
theorem N2_t_add_scale (hc : c * c = 2) (h2 : (2:K) ≠ 0) (A B : M3 K) (k : K) (hk : k ≠ 0) :
    pad2_9 (Gen.N2_t_add_scale_all c c3 fn A.a00 A.a11 A.a22 A.a01 A.a10 B.a00 B.a11 B.a22 B.a01 B.a10 k)
      = M3.tens3 (k • (M3.plane A) + (M3.plane B) - (1/k) • (M3.plane A)) := by
  t4_eq hc
/-- `change_basis(A,R) = Rᵀ A R` for every matrix `R` (2D: in-plane block of `R`; 1D: unchanged) -/
theorem N2_t_change_basis (hc : c * c = 2) (h2 : (2:K) ≠ 0) (A R : M3 K) :
    pad2_9 (Gen.N2_t_change_basis_all c c3 fn A.a00 A.a11 A.a22 A.a01 A.a10 R.a00 R.a01 R.a02 R.a10 R.a11 R.a12 R.a20 R.a21 R.a22)
      = M3.tens3 ((M3.planeRot R).transpose * (M3.plane A) * (M3.planeRot R)) := by
  t4_eq hc
theorem N2_t_changeBasis_member (hc : c * c = 2) (h2 : (2:K) ≠ 0) (A R : M3 K) :
    pad2_9 (Gen.N2_t_changeBasis_member_all c c3 fn A.a00 A.a11 A.a22 A.a01 A.a10 R.a00 R.a01 R.a02 R.a10 R.a11 R.a12 R.a20 R.a21 R.a22)
      = M3.tens3 ((M3.planeRot R).transpose * (M3.plane A) * (M3.planeRot R)) := by
  t4_eq hc
/-- `syme(A) = (A + Aᵀ)/2` in symmetric storage -/
theorem N2_t_syme (hc : c * c = 2) (h2 : (2:K) ≠ 0) (A : M3 K) :
    pad2_6 (Gen.N2_t_syme_all c c3 fn A.a00 A.a11 A.a22 A.a01 A.a10)
      = M3.mandel3 c ((1/2 : K) • ((M3.plane A) + (M3.plane A).transpose)) := by
  t4_eq hc
/-- `unsyme(s)`: the same matrix in non-symmetric storage -/
theorem N2_t_unsyme (hc : c * c = 2) (h2 : (2:K) ≠ 0) (s00 s11 s22 s01 s02 s12 : K) :
    pad2_9 (Gen.N2_t_unsyme_all c c3 fn s00 s11 s22 (c*s01))
      = M3.tens3 (M3.sym s00 s11 s22 s01 0 0) := by
  t4_eq hc
/-- mixed `tensor + stensor` (through `TensorViewFromStensor`) -/
theorem N2_t_add_stensor (hc : c * c = 2) (h2 : (2:K) ≠ 0) (A : M3 K) (s00 s11 s22 s01 s02 s12 : K) :
    pad2_9 (Gen.N2_t_add_stensor_all c c3 fn A.a00 A.a11 A.a22 A.a01 A.a10 s00 s11 s22 (c*s01))
      = M3.tens3 ((M3.plane A) + (M3.sym s00 s11 s22 s01 0 0)) := by
  t4_eq hc
/-- `C = Fᵀ F` -/
theorem N2_t_rcg (hc : c * c = 2) (h2 : (2:K) ≠ 0) (A : M3 K) :
    pad2_6 (Gen.N2_t_rcg_all c c3 fn A.a00 A.a11 A.a22 A.a01 A.a10)
      = M3.mandel3 c ((M3.plane A).transpose * (M3.plane A)) := by
  t4_eq hc
/-- `B = F Fᵀ` -/
theorem N2_t_lcg (hc : c * c = 2) (h2 : (2:K) ≠ 0) (A : M3 K) :
    pad2_6 (Gen.N2_t_lcg_all c c3 fn A.a00 A.a11 A.a22 A.a01 A.a10)
      = M3.mandel3 c ((M3.plane A) * (M3.plane A).transpose) := by
  t4_eq hc
/-- `E = (FᵀF - 1)/2` -/
theorem N2_t_gl (hc : c * c = 2) (h2 : (2:K) ≠ 0) (A : M3 K) :
    pad2_6 (Gen.N2_t_gl_all c c3 fn A.a00 A.a11 A.a22 A.a01 A.a10)
      = M3.mandel3 c ((1/2 : K) • ((M3.plane A).transpose * (M3.plane A) - 1)) := by
  t4_eq hc
/-- `push_forward(s,F) = F s Fᵀ` -/
theorem N2_t_push_forward (hc : c * c = 2) (h2 : (2:K) ≠ 0) (s00 s11 s22 s01 s02 s12 : K) (A : M3 K) :
    pad2_6 (Gen.N2_t_push_forward_all c c3 fn s00 s11 s22 (c*s01) A.a00 A.a11 A.a22 A.a01 A.a10)
      = M3.mandel3 c ((M3.plane A) * (M3.sym s00 s11 s22 s01 0 0) * (M3.plane A).transpose) := by
  t4_eq hc
/-- `A(i,j)` for the nine index pairs -/
theorem N2_t_access (hc : c * c = 2) (h2 : (2:K) ≠ 0) (A : M3 K) :
    Gen.N2_t_access_all c c3 fn A.a00 A.a11 A.a22 A.a01 A.a10
      = M3.rowMajor (M3.plane A) := by
  t4_eq hc
/-- column-major 3×3 array: `A_ij = v[i + 3 j]` -/
theorem N2_t_buildFromFortranMatrix (hc : c * c = 2) (h2 : (2:K) ≠ 0) (v : Fin 9 → K) :
    pad2_9 (gen% (Gen.N2_t_buildFromFortranMatrix_all c c3 fn) | v 9)
      = M3.tens3 (M3.plane (⟨v 0, v 3, v 6, v 1, v 4, v 7, v 2, v 5, v 8⟩ : M3 K)) := by
  t4_eq hc
theorem N2_t_Id (hc : c * c = 2) (h2 : (2:K) ≠ 0)  :
    pad2_9 (Gen.N2_t_Id_all c c3 fn )
      = M3.tens3 (1 : M3 K) := by
  t4_eq hc

/-! ## tensor<1> -/
/-- `A * B` is the matrix product -/
theorem N1_t_prod (hc : c * c = 2) (h2 : (2:K) ≠ 0) (A B : M3 K) :
    pad1_9 (Gen.N1_t_prod_all c c3 fn A.a00 A.a11 A.a22 B.a00 B.a11 B.a22)
      = M3.tens3 ((M3.diag A.a00 A.a11 A.a22) * (M3.diag B.a00 B.a11 B.a22)) := by
  t4_eq hc
theorem N1_t_prod_ts (hc : c * c = 2) (h2 : (2:K) ≠ 0) (A : M3 K) (s00 s11 s22 s01 s02 s12 : K) :
    pad1_9 (Gen.N1_t_prod_ts_all c c3 fn A.a00 A.a11 A.a22 s00 s11 s22)
      = M3.tens3 ((M3.diag A.a00 A.a11 A.a22) * (M3.sym s00 s11 s22 0 0 0)) := by
  t4_eq hc
theorem N1_t_prod_st (hc : c * c = 2) (h2 : (2:K) ≠ 0) (s00 s11 s22 s01 s02 s12 : K) (A : M3 K) :
    pad1_9 (Gen.N1_t_prod_st_all c c3 fn s00 s11 s22 A.a00 A.a11 A.a22)
      = M3.tens3 ((M3.sym s00 s11 s22 0 0 0) * (M3.diag A.a00 A.a11 A.a22)) := by
  t4_eq hc
theorem N1_t_transpose (hc : c * c = 2) (h2 : (2:K) ≠ 0) (A : M3 K) :
    pad1_9 (Gen.N1_t_transpose_all c c3 fn A.a00 A.a11 A.a22)
      = M3.tens3 (M3.diag A.a00 A.a11 A.a22).transpose := by
  t4_eq hc
theorem N1_t_trace (hc : c * c = 2) (h2 : (2:K) ≠ 0) (A : M3 K) :
    Gen.N1_t_trace_r c c3 fn A.a00 A.a11 A.a22 = (M3.diag A.a00 A.a11 A.a22).trace := by
  t4_eq hc
theorem N1_t_det (hc : c * c = 2) (h2 : (2:K) ≠ 0) (A : M3 K) :
    Gen.N1_t_det_r c c3 fn A.a00 A.a11 A.a22 = (M3.diag A.a00 A.a11 A.a22).det := by
  t4_eq hc
/-- `computeDeterminantDerivative(A)` is the cofactor matrix: `A · (dJ)ᵀ = det A · 1` -/
theorem N1_t_ddet (hc : c * c = 2) (h2 : (2:K) ≠ 0) (A : M3 K) :
    (M3.diag A.a00 A.a11 A.a22) * (M3.ofTens (Gen.N1_t_ddet_all c c3 fn A.a00 A.a11 A.a22)).transpose = (M3.diag A.a00 A.a11 A.a22).det • (1 : M3 K) := by
  t4_eq hc
/-- `A | B = A_ij B_ij` -/
theorem N1_t_contract (hc : c * c = 2) (h2 : (2:K) ≠ 0) (A B : M3 K) :
    Gen.N1_t_contract_r c c3 fn A.a00 A.a11 A.a22 B.a00 B.a11 B.a22 = (M3.diag A.a00 A.a11 A.a22).frob (M3.diag B.a00 B.a11 B.a22) := by
  t4_eq hc
theorem N1_t_add_scale (hc : c * c = 2) (h2 : (2:K) ≠ 0) (A B : M3 K) (k : K) (hk : k ≠ 0) :
    pad1_9 (Gen.N1_t_add_scale_all c c3 fn A.a00 A.a11 A.a22 B.a00 B.a11 B.a22 k)
      = M3.tens3 (k • (M3.diag A.a00 A.a11 A.a22) + (M3.diag B.a00 B.a11 B.a22) - (1/k) • (M3.diag A.a00 A.a11 A.a22)) := by
  t4_eq hc
/-- `change_basis(A,R) = Rᵀ A R` for every matrix `R` (2D: in-plane block of `R`; 1D: unchanged) -/
theorem N1_t_change_basis (hc : c * c = 2) (h2 : (2:K) ≠ 0) (A R : M3 K) :
    pad1_9 (Gen.N1_t_change_basis_all c c3 fn A.a00 A.a11 A.a22 R.a00 R.a01 R.a02 R.a10 R.a11 R.a12 R.a20 R.a21 R.a22)
      = M3.tens3 ((1 : M3 K).transpose * (M3.diag A.a00 A.a11 A.a22) * (1 : M3 K)) := by
  t4_eq hc
theorem N1_t_changeBasis_member (hc : c * c = 2) (h2 : (2:K) ≠ 0) (A R : M3 K) :
    pad1_9 (Gen.N1_t_changeBasis_member_all c c3 fn A.a00 A.a11 A.a22 R.a00 R.a01 R.a02 R.a10 R.a11 R.a12 R.a20 R.a21 R.a22)
      = M3.tens3 ((1 : M3 K).transpose * (M3.diag A.a00 A.a11 A.a22) * (1 : M3 K)) := by
  t4_eq hc
/-- `syme(A) = (A + Aᵀ)/2` in symmetric storage -/
theorem N1_t_syme (hc : c * c = 2) (h2 : (2:K) ≠ 0) (A : M3 K) :
    pad1_6 (Gen.N1_t_syme_all c c3 fn A.a00 A.a11 A.a22)
      = M3.mandel3 c ((1/2 : K) • ((M3.diag A.a00 A.a11 A.a22) + (M3.diag A.a00 A.a11 A.a22).transpose)) := by
  t4_eq hc
/-- `unsyme(s)`: the same matrix in non-symmetric storage -/
theorem N1_t_unsyme (hc : c * c = 2) (h2 : (2:K) ≠ 0) (s00 s11 s22 s01 s02 s12 : K) :
    pad1_9 (Gen.N1_t_unsyme_all c c3 fn s00 s11 s22)
      = M3.tens3 (M3.sym s00 s11 s22 0 0 0) := by
  t4_eq hc
/-- mixed `tensor + stensor` (through `TensorViewFromStensor`) -/
theorem N1_t_add_stensor (hc : c * c = 2) (h2 : (2:K) ≠ 0) (A : M3 K) (s00 s11 s22 s01 s02 s12 : K) :
    pad1_9 (Gen.N1_t_add_stensor_all c c3 fn A.a00 A.a11 A.a22 s00 s11 s22)
      = M3.tens3 ((M3.diag A.a00 A.a11 A.a22) + (M3.sym s00 s11 s22 0 0 0)) := by
  t4_eq hc
/-- `C = Fᵀ F` -/
theorem N1_t_rcg (hc : c * c = 2) (h2 : (2:K) ≠ 0) (A : M3 K) :
    pad1_6 (Gen.N1_t_rcg_all c c3 fn A.a00 A.a11 A.a22)
      = M3.mandel3 c ((M3.diag A.a00 A.a11 A.a22).transpose * (M3.diag A.a00 A.a11 A.a22)) := by
  t4_eq hc
/-- `B = F Fᵀ` -/
theorem N1_t_lcg (hc : c * c = 2) (h2 : (2:K) ≠ 0) (A : M3 K) :
    pad1_6 (Gen.N1_t_lcg_all c c3 fn A.a00 A.a11 A.a22)
      = M3.mandel3 c ((M3.diag A.a00 A.a11 A.a22) * (M3.diag A.a00 A.a11 A.a22).transpose) := by
  t4_eq hc
/-- `E = (FᵀF - 1)/2` -/
theorem N1_t_gl (hc : c * c = 2) (h2 : (2:K) ≠ 0) (A : M3 K) :
    pad1_6 (Gen.N1_t_gl_all c c3 fn A.a00 A.a11 A.a22)
      = M3.mandel3 c ((1/2 : K) • ((M3.diag A.a00 A.a11 A.a22).transpose * (M3.diag A.a00 A.a11 A.a22) - 1)) := by
  t4_eq hc
/-- `push_forward(s,F) = F s Fᵀ` -/
theorem N1_t_push_forward (hc : c * c = 2) (h2 : (2:K) ≠ 0) (s00 s11 s22 s01 s02 s12 : K) (A : M3 K) :
    pad1_6 (Gen.N1_t_push_forward_all c c3 fn s00 s11 s22 A.a00 A.a11 A.a22)
      = M3.mandel3 c ((M3.diag A.a00 A.a11 A.a22) * (M3.sym s00 s11 s22 0 0 0) * (M3.diag A.a00 A.a11 A.a22).transpose) := by
  t4_eq hc
/-- `A(i,j)` for the nine index pairs -/
theorem N1_t_access (hc : c * c = 2) (h2 : (2:K) ≠ 0) (A : M3 K) :
    Gen.N1_t_access_all c c3 fn A.a00 A.a11 A.a22
      = M3.rowMajor (M3.diag A.a00 A.a11 A.a22) := by
  t4_eq hc
/-- column-major 3×3 array: `A_ij = v[i + 3 j]` -/
theorem N1_t_buildFromFortranMatrix (hc : c * c = 2) (h2 : (2:K) ≠ 0) (v : Fin 9 → K) :
    pad1_9 (gen% (Gen.N1_t_buildFromFortranMatrix_all c c3 fn) | v 9)
      = M3.tens3 (M3.diag (⟨v 0, v 3, v 6, v 1, v 4, v 7, v 2, v 5, v 8⟩ : M3 K).a00 (⟨v 0, v 3, v 6, v 1, v 4, v 7, v 2, v 5, v 8⟩ : M3 K).a11 (⟨v 0, v 3, v 6, v 1, v 4, v 7, v 2, v 5, v 8⟩ : M3 K).a22) := by
  t4_eq hc
theorem N1_t_Id (hc : c * c = 2) (h2 : (2:K) ≠ 0)  :
    pad1_9 (Gen.N1_t_Id_all c c3 fn )
      = M3.tens3 (1 : M3 K) := by
  t4_eq hc

/-! ## inverse: `A · invert(A) = invert(A) · A = 1` whenever `det A ≠ 0` -/
theorem N3_t_invert_den (hc : c * c = 2) (h2 : (2:K) ≠ 0) (A : M3 K) :
    Gen.N3_t_invert_den0 c c3 fn A.a00 A.a11 A.a22 A.a01 A.a10 A.a02 A.a20 A.a12 A.a21 = A.det := by
  t4_eq hc
theorem N3_t_invert (hc : c * c = 2) (h2 : (2:K) ≠ 0) (A : M3 K) (hd : A.det ≠ 0) :
    A * M3.ofTens (Gen.N3_t_invert_all c c3 fn A.a00 A.a11 A.a22 A.a01 A.a10 A.a02 A.a20 A.a12 A.a21) = 1
    ∧ M3.ofTens (Gen.N3_t_invert_all c c3 fn A.a00 A.a11 A.a22 A.a01 A.a10 A.a02 A.a20 A.a12 A.a21) * A = 1 := by
  rw [← N3_t_invert_den c c3 fn hc h2] at hd
  constructor <;> m3_eq hc with hd
theorem N2_t_invert_den (hc : c * c = 2) (h2 : (2:K) ≠ 0) (A : M3 K) :
    Gen.N2_t_invert_den0 c c3 fn A.a00 A.a11 A.a22 A.a01 A.a10 * A.a22 = (M3.plane A).det := by
  t4_eq hc
theorem N2_t_invert (hc : c * c = 2) (h2 : (2:K) ≠ 0) (A : M3 K) (hd : (M3.plane A).det ≠ 0) :
    M3.plane A * M3.ofTens (pad2_9 (Gen.N2_t_invert_all c c3 fn A.a00 A.a11 A.a22 A.a01 A.a10)) = 1
    ∧ M3.ofTens (pad2_9 (Gen.N2_t_invert_all c c3 fn A.a00 A.a11 A.a22 A.a01 A.a10)) * M3.plane A = 1 := by
  rw [← N2_t_invert_den c c3 fn hc h2] at hd
  have h22 : A.a22 ≠ 0 := right_ne_zero_of_mul hd
  have hdd := left_ne_zero_of_mul hd
  simp only [gen_simp] at hdd
  t4_unfold
  generalize_ne hdd => e he
  refine ⟨⟨?_, ?_, ?_, ?_, ?_, ?_, ?_, ?_, ?_⟩, ⟨?_, ?_, ?_, ?_, ?_, ?_, ?_, ?_, ?_⟩⟩ <;> field_simp <;>
    (try simp only [← he]) <;> ring1
theorem N1_t_invert (hc : c * c = 2) (h2 : (2:K) ≠ 0) (A : M3 K) (hd : (M3.diag A.a00 A.a11 A.a22).det ≠ 0) :
    M3.diag A.a00 A.a11 A.a22 * M3.ofTens (pad1_9 (Gen.N1_t_invert_all c c3 fn A.a00 A.a11 A.a22)) = 1
    ∧ M3.ofTens (pad1_9 (Gen.N1_t_invert_all c c3 fn A.a00 A.a11 A.a22)) * M3.diag A.a00 A.a11 A.a22 = 1 := by
  have h00 : A.a00 ≠ 0 := by intro h; apply hd; simp only [M3.diag, M3.det, h]; ring
  have h11 : A.a11 ≠ 0 := by intro h; apply hd; simp only [M3.diag, M3.det, h]; ring
  have h22 : A.a22 ≠ 0 := by intro h; apply hd; simp only [M3.diag, M3.det, h]; ring
  t4_unfold
  refine ⟨⟨?_, ?_, ?_, ?_, ?_, ?_, ?_, ?_, ?_⟩, ⟨?_, ?_, ?_, ?_, ?_, ?_, ?_, ?_, ?_⟩⟩ <;> field_simp <;> ring1
/-- non-vacuity -/
example : (⟨2, 1, 0, 0, 3, 1, 1, 0, 5⟩ : M3 ℚ).det ≠ 0 := by simp only [M3.det]; norm_num

/-! ## polar decomposition — PARTIAL.
Full statement (not proved): for every `F` with `det F > 0`, `polar_decomposition(R,U,F)` returns `R`
orthogonal and `U` symmetric positive definite with `F = R·U`, in 1D/2D/3D.
Proved: the 1D case, where the code is closed form (`R = 1`, `U = diag F`). Missing: 2D and 3D, where `U` is
obtained from the eigenvalues of `FᵀF` (`stensor::computeEigenValues`: value-dependent branches, `acos`,
`cos`, `sqrt` — the eigen-solver is the object of C03) and the function cannot be instantiated on the
recording scalar (see the note in checks/C02.py). -/
theorem N1_t_polar_partial (hc : c * c = 2) (h2 : (2:K) ≠ 0) (A : M3 K) :
    (match Gen.N1_t_polar_all c c3 fn A.a00 A.a11 A.a22 with
     | [u0, u1, u2, r0, r1, r2] =>
         M3.diag r0 r1 r2 = 1 ∧ M3.diag r0 r1 r2 * M3.diag u0 u1 u2 = M3.diag A.a00 A.a11 A.a22
     | _ => False) := by
  t4_eq hc

end TfelVerif.C02.Props
