/-
  C02/Spec.lean — index-notation meaning of TFEL's second- and fourth-order tensor storage.

  Independent reference definitions (nothing here is generated from /repo).

  * A second-order tensor is a function `T2 K = Fin 3 → Fin 3 → K` (`A i j = A_ij`), a fourth-order
    tensor a function `T4 K = Fin 3 → Fin 3 → Fin 3 → Fin 3 → K` (`C i j k l = C_ijkl`).
  * TFEL stores (docs/web/tensors.md, include/TFEL/Math/tensor.hxx, st2tost2.hxx …)
      - `tensor<3>`   : `(t00 t11 t22 t01 t10 t02 t20 t12 t21)`                 — index map `ti`
      - `stensor<3>`  : `(s00 s11 s22 √2 s01 √2 s02 √2 s12)`                    — index map `vi`, weight `w`
      - `st2tost2<3>` : 6×6 matrix `w_I w_J C_(ij)(kl)` on the symmetric pairs   — `T4.stoST`
      - `t2tot2<3>`   : 9×9 matrix `C_(ij)(kl)`                                  — `T4.stoTT`
      - `t2tost2<3>`  : 6×9 matrix `w_I C_(ij)(kl)`                              — `T4.stoTS`
      - `st2tot2<3>`  : 9×6 matrix `C_(ij)(kl) w_J`                              — `T4.stoS2T`
    with `w = 1` on the rows 0,1,2 and `w = c = √2` on the rows 3,4,5. In 2D only the rows 0..3
    (symmetric) / 0..4 (non symmetric) exist, in 1D the rows 0..2: the missing rows are zero
    (masks `mS2 mS1 mT2 mT1`, paddings `pad*`).
  * `c` is any element with `c * c = 2`; `1/√2` is written `c/2`.
  * sums over a tensor index are `sum3 f = f 0 + f 1 + f 2` (`sum3_eq_sum`: it is `∑ i : Fin 3, f i`).
-/
import Mathlib.Algebra.BigOperators.Fin
import TfelVerif.Common.M3

namespace TfelVerif.C02
variable {K : Type} [Field K]

/-- second-order tensors in index notation -/
abbrev T2 (K : Type) := Fin 3 → Fin 3 → K
/-- fourth-order tensors in index notation -/
abbrev T4 (K : Type) := Fin 3 → Fin 3 → Fin 3 → Fin 3 → K

/-- sum over one tensor index -/
def sum3 (f : Fin 3 → K) : K := f 0 + f 1 + f 2
theorem sum3_eq_sum (f : Fin 3 → K) : sum3 f = ∑ i, f i := by
  simp [sum3, Fin.sum_univ_three]

/-- sums over the rows of the symmetric (6) / general (9) storage -/
def sumS (f : Fin 6 → K) : K := f 0 + f 1 + f 2 + f 3 + f 4 + f 5
def sumT (f : Fin 9 → K) : K := f 0 + f 1 + f 2 + f 3 + f 4 + f 5 + f 6 + f 7 + f 8
/-- stored vectors as lists -/
def vecS (f : Fin 6 → K) : List K := [f 0, f 1, f 2, f 3, f 4, f 5]
def vecT (f : Fin 9 → K) : List K := [f 0, f 1, f 2, f 3, f 4, f 5, f 6, f 7, f 8]

/-- Kronecker symbol -/
def delta : Fin 3 → Fin 3 → K
  | 0, 0 => 1 | 0, 1 => 0 | 0, 2 => 0
  | 1, 0 => 0 | 1, 1 => 1 | 1, 2 => 0
  | 2, 0 => 0 | 2, 1 => 0 | 2, 2 => 1
theorem delta_eq (i j : Fin 3) : (delta i j : K) = if i = j then 1 else 0 := by
  fin_cases i <;> fin_cases j <;> simp [delta]

/-! ### index maps of the storage -/

/-- row of the symmetric index pair `(i,j)` in `stensor` / `st2tost2` storage -/
def vi : Fin 3 → Fin 3 → Fin 6
  | 0, 0 => 0 | 1, 1 => 1 | 2, 2 => 2
  | 0, 1 => 3 | 1, 0 => 3 | 0, 2 => 4 | 2, 0 => 4 | 1, 2 => 5 | 2, 1 => 5
/-- row of the index pair `(i,j)` in `tensor` / `t2tot2` storage -/
def ti : Fin 3 → Fin 3 → Fin 9
  | 0, 0 => 0 | 1, 1 => 1 | 2, 2 => 2
  | 0, 1 => 3 | 1, 0 => 4 | 0, 2 => 5 | 2, 0 => 6 | 1, 2 => 7 | 2, 1 => 8
/-- canonical index pair of a symmetric row -/
def pS1 : Fin 6 → Fin 3 | 0 => 0 | 1 => 1 | 2 => 2 | 3 => 0 | 4 => 0 | 5 => 1
def pS2 : Fin 6 → Fin 3 | 0 => 0 | 1 => 1 | 2 => 2 | 3 => 1 | 4 => 2 | 5 => 2
/-- index pair of a non-symmetric row -/
def pT1 : Fin 9 → Fin 3 | 0 => 0 | 1 => 1 | 2 => 2 | 3 => 0 | 4 => 1 | 5 => 0 | 6 => 2 | 7 => 1 | 8 => 2
def pT2 : Fin 9 → Fin 3 | 0 => 0 | 1 => 1 | 2 => 2 | 3 => 1 | 4 => 0 | 5 => 2 | 6 => 0 | 7 => 2 | 8 => 1
theorem vi_pS (I : Fin 6) : vi (pS1 I) (pS2 I) = I := by fin_cases I <;> rfl
theorem ti_pT (I : Fin 9) : ti (pT1 I) (pT2 I) = I := by fin_cases I <;> rfl
theorem pT_ti (i j : Fin 3) : pT1 (ti i j) = i ∧ pT2 (ti i j) = j := by
  fin_cases i <;> fin_cases j <;> exact ⟨rfl, rfl⟩
theorem vi_symm (i j : Fin 3) : vi i j = vi j i := by fin_cases i <;> fin_cases j <;> rfl

/-- Mandel weight of a symmetric row: `1` (diagonal), `√2` (shear) -/
def w (c : K) : Fin 6 → K | 0 => 1 | 1 => 1 | 2 => 1 | 3 => c | 4 => c | 5 => c
/-- inverse weight: `1`, `1/√2 = c/2` -/
def iw (c : K) : Fin 6 → K | 0 => 1 | 1 => 1 | 2 => 1 | 3 => c / 2 | 4 => c / 2 | 5 => c / 2
theorem iw_mul_w {c : K} (hc : c * c = 2) (h2 : (2 : K) ≠ 0) (I : Fin 6) : iw c I * w c I = 1 := by
  fin_cases I <;> simp [iw, w] <;> field_simp <;> linear_combination hc

/-- weight of the entry `(I,J)` of a stored `st2tost2` (docs/web/tensors.md): `1` (diagonal/diagonal),
`√2` (diagonal/shear), `2` (shear/shear); `w2_eq` (Lemmas): it is `w I * w J` -/
def shear : Fin 6 → Bool | 0 => false | 1 => false | 2 => false | 3 => true | 4 => true | 5 => true
def w2 (c : K) (I J : Fin 6) : K :=
  match shear I, shear J with
  | false, false => 1 | true, false => c | false, true => c | true, true => 2
/-- inverse table: `1`, `1/√2 = c/2`, `1/2` -/
def iw2 (c : K) (I J : Fin 6) : K :=
  match shear I, shear J with
  | false, false => 1 | true, false => c / 2 | false, true => c / 2 | true, true => 1 / 2

/-- rows present in 2D / 1D (`1`) or absent (`0`) -/
def mS2 : Fin 6 → K | 0 => 1 | 1 => 1 | 2 => 1 | 3 => 1 | 4 => 0 | 5 => 0
def mS1 : Fin 6 → K | 0 => 1 | 1 => 1 | 2 => 1 | 3 => 0 | 4 => 0 | 5 => 0
def mT2 : Fin 9 → K | 0 => 1 | 1 => 1 | 2 => 1 | 3 => 1 | 4 => 1 | 5 => 0 | 6 => 0 | 7 => 0 | 8 => 0
def mT1 : Fin 9 → K | 0 => 1 | 1 => 1 | 2 => 1 | 3 => 0 | 4 => 0 | 5 => 0 | 6 => 0 | 7 => 0 | 8 => 0
/-- a stored vector / matrix with the absent rows (and columns) set to zero -/
def rv {n : Nat} (m : Fin n → K) (s : Fin n → K) : Fin n → K := fun I => m I * s I
def rm {n p : Nat} (mr : Fin n → K) (mc : Fin p → K) (a : Fin n → Fin p → K) : Fin n → Fin p → K :=
  fun I J => mr I * mc J * a I J

/-! ### storage → index notation -/

/-- the tensor denoted by a `tensor<3>` storage vector -/
def T2.ofTens (t : Fin 9 → K) : T2 K := fun i j => t (ti i j)
/-- the symmetric tensor denoted by a `stensor<3>` storage vector -/
def T2.ofSt (c : K) (s : Fin 6 → K) : T2 K := fun i j => iw c (vi i j) * s (vi i j)
/-- the fourth-order tensors denoted by the stored matrices (minor symmetries hold by construction
wherever an index pair is symmetric) -/
def T4.ofST (c : K) (m : Fin 6 → Fin 6 → K) : T4 K :=
  fun i j k l => iw2 c (vi i j) (vi k l) * m (vi i j) (vi k l)
def T4.ofTT (m : Fin 9 → Fin 9 → K) : T4 K := fun i j k l => m (ti i j) (ti k l)
def T4.ofTS (c : K) (m : Fin 6 → Fin 9 → K) : T4 K := fun i j k l => iw c (vi i j) * m (vi i j) (ti k l)
def T4.ofS2T (c : K) (m : Fin 9 → Fin 6 → K) : T4 K := fun i j k l => m (ti i j) (vi k l) * iw c (vi k l)

/-! ### index notation → storage -/

def T2.tens (A : T2 K) : List K := [A 0 0, A 1 1, A 2 2, A 0 1, A 1 0, A 0 2, A 2 0, A 1 2, A 2 1]
def T2.st (c : K) (A : T2 K) : List K := [A 0 0, A 1 1, A 2 2, c * A 0 1, c * A 0 2, c * A 1 2]
def T4.stoST (c : K) (C : T4 K) : Fin 6 → Fin 6 → K :=
  fun I J => w2 c I J * C (pS1 I) (pS2 I) (pS1 J) (pS2 J)
def T4.stoTT (C : T4 K) : Fin 9 → Fin 9 → K := fun I J => C (pT1 I) (pT2 I) (pT1 J) (pT2 J)
def T4.stoTS (c : K) (C : T4 K) : Fin 6 → Fin 9 → K :=
  fun I J => w c I * C (pS1 I) (pS2 I) (pT1 J) (pT2 J)
def T4.stoS2T (c : K) (C : T4 K) : Fin 9 → Fin 6 → K :=
  fun I J => C (pT1 I) (pT2 I) (pS1 J) (pS2 J) * w c J

/-! row-major lists of the stored matrices, and embeddings of the 2D / 1D storage (absent rows and
columns are zero). Written out explicitly so that `simp` evaluates them by rewriting. -/
def rows66 (f : Fin 6 → Fin 6 → K) : List K :=
  [f 0 0, f 0 1, f 0 2, f 0 3, f 0 4, f 0 5, f 1 0, f 1 1, f 1 2, f 1 3, f 1 4, f 1 5, f 2 0, f 2 1, f 2 2, f 2 3, f 2 4, f 2 5, f 3 0, f 3 1, f 3 2, f 3 3, f 3 4, f 3 5, f 4 0, f 4 1, f 4 2, f 4 3, f 4 4, f 4 5, f 5 0, f 5 1, f 5 2, f 5 3, f 5 4, f 5 5]
def rows99 (f : Fin 9 → Fin 9 → K) : List K :=
  [f 0 0, f 0 1, f 0 2, f 0 3, f 0 4, f 0 5, f 0 6, f 0 7, f 0 8, f 1 0, f 1 1, f 1 2, f 1 3, f 1 4, f 1 5, f 1 6, f 1 7, f 1 8, f 2 0, f 2 1, f 2 2, f 2 3, f 2 4, f 2 5, f 2 6, f 2 7, f 2 8, f 3 0, f 3 1, f 3 2, f 3 3, f 3 4, f 3 5, f 3 6, f 3 7, f 3 8, f 4 0, f 4 1, f 4 2, f 4 3, f 4 4, f 4 5, f 4 6, f 4 7, f 4 8, f 5 0, f 5 1, f 5 2, f 5 3, f 5 4, f 5 5, f 5 6, f 5 7, f 5 8, f 6 0, f 6 1, f 6 2, f 6 3, f 6 4, f 6 5, f 6 6, f 6 7, f 6 8, f 7 0, f 7 1, f 7 2, f 7 3, f 7 4, f 7 5, f 7 6, f 7 7, f 7 8, f 8 0, f 8 1, f 8 2, f 8 3, f 8 4, f 8 5, f 8 6, f 8 7, f 8 8]
def rows69 (f : Fin 6 → Fin 9 → K) : List K :=
  [f 0 0, f 0 1, f 0 2, f 0 3, f 0 4, f 0 5, f 0 6, f 0 7, f 0 8, f 1 0, f 1 1, f 1 2, f 1 3, f 1 4, f 1 5, f 1 6, f 1 7, f 1 8, f 2 0, f 2 1, f 2 2, f 2 3, f 2 4, f 2 5, f 2 6, f 2 7, f 2 8, f 3 0, f 3 1, f 3 2, f 3 3, f 3 4, f 3 5, f 3 6, f 3 7, f 3 8, f 4 0, f 4 1, f 4 2, f 4 3, f 4 4, f 4 5, f 4 6, f 4 7, f 4 8, f 5 0, f 5 1, f 5 2, f 5 3, f 5 4, f 5 5, f 5 6, f 5 7, f 5 8]
def rows96 (f : Fin 9 → Fin 6 → K) : List K :=
  [f 0 0, f 0 1, f 0 2, f 0 3, f 0 4, f 0 5, f 1 0, f 1 1, f 1 2, f 1 3, f 1 4, f 1 5, f 2 0, f 2 1, f 2 2, f 2 3, f 2 4, f 2 5, f 3 0, f 3 1, f 3 2, f 3 3, f 3 4, f 3 5, f 4 0, f 4 1, f 4 2, f 4 3, f 4 4, f 4 5, f 5 0, f 5 1, f 5 2, f 5 3, f 5 4, f 5 5, f 6 0, f 6 1, f 6 2, f 6 3, f 6 4, f 6 5, f 7 0, f 7 1, f 7 2, f 7 3, f 7 4, f 7 5, f 8 0, f 8 1, f 8 2, f 8 3, f 8 4, f 8 5]
def pad2_66 : List K → List K
  | [x0_0, x0_1, x0_2, x0_3, x1_0, x1_1, x1_2, x1_3, x2_0, x2_1, x2_2, x2_3, x3_0, x3_1, x3_2, x3_3] =>
    [x0_0, x0_1, x0_2, x0_3, 0, 0, x1_0, x1_1, x1_2, x1_3, 0, 0, x2_0, x2_1, x2_2, x2_3, 0, 0, x3_0, x3_1, x3_2, x3_3, 0, 0, 0, 0, 0, 0, 0, 0, 0, 0, 0, 0, 0, 0]
  | _ => []
theorem pad2_66_eq (x0_0 x0_1 x0_2 x0_3 x1_0 x1_1 x1_2 x1_3 x2_0 x2_1 x2_2 x2_3 x3_0 x3_1 x3_2 x3_3 : K) :
    pad2_66 [x0_0, x0_1, x0_2, x0_3, x1_0, x1_1, x1_2, x1_3, x2_0, x2_1, x2_2, x2_3, x3_0, x3_1, x3_2, x3_3] =
    [x0_0, x0_1, x0_2, x0_3, 0, 0, x1_0, x1_1, x1_2, x1_3, 0, 0, x2_0, x2_1, x2_2, x2_3, 0, 0, x3_0, x3_1, x3_2, x3_3, 0, 0, 0, 0, 0, 0, 0, 0, 0, 0, 0, 0, 0, 0] := rfl
def pad1_66 : List K → List K
  | [x0_0, x0_1, x0_2, x1_0, x1_1, x1_2, x2_0, x2_1, x2_2] =>
    [x0_0, x0_1, x0_2, 0, 0, 0, x1_0, x1_1, x1_2, 0, 0, 0, x2_0, x2_1, x2_2, 0, 0, 0, 0, 0, 0, 0, 0, 0, 0, 0, 0, 0, 0, 0, 0, 0, 0, 0, 0, 0]
  | _ => []
theorem pad1_66_eq (x0_0 x0_1 x0_2 x1_0 x1_1 x1_2 x2_0 x2_1 x2_2 : K) :
    pad1_66 [x0_0, x0_1, x0_2, x1_0, x1_1, x1_2, x2_0, x2_1, x2_2] =
    [x0_0, x0_1, x0_2, 0, 0, 0, x1_0, x1_1, x1_2, 0, 0, 0, x2_0, x2_1, x2_2, 0, 0, 0, 0, 0, 0, 0, 0, 0, 0, 0, 0, 0, 0, 0, 0, 0, 0, 0, 0, 0] := rfl
def pad2_99 : List K → List K
  | [x0_0, x0_1, x0_2, x0_3, x0_4, x1_0, x1_1, x1_2, x1_3, x1_4, x2_0, x2_1, x2_2, x2_3, x2_4, x3_0, x3_1, x3_2, x3_3, x3_4, x4_0, x4_1, x4_2, x4_3, x4_4] =>
    [x0_0, x0_1, x0_2, x0_3, x0_4, 0, 0, 0, 0, x1_0, x1_1, x1_2, x1_3, x1_4, 0, 0, 0, 0, x2_0, x2_1, x2_2, x2_3, x2_4, 0, 0, 0, 0, x3_0, x3_1, x3_2, x3_3, x3_4, 0, 0, 0, 0, x4_0, x4_1, x4_2, x4_3, x4_4, 0, 0, 0, 0, 0, 0, 0, 0, 0, 0, 0, 0, 0, 0, 0, 0, 0, 0, 0, 0, 0, 0, 0, 0, 0, 0, 0, 0, 0, 0, 0, 0, 0, 0, 0, 0, 0, 0, 0, 0]
  | _ => []
theorem pad2_99_eq (x0_0 x0_1 x0_2 x0_3 x0_4 x1_0 x1_1 x1_2 x1_3 x1_4 x2_0 x2_1 x2_2 x2_3 x2_4 x3_0 x3_1 x3_2 x3_3 x3_4 x4_0 x4_1 x4_2 x4_3 x4_4 : K) :
    pad2_99 [x0_0, x0_1, x0_2, x0_3, x0_4, x1_0, x1_1, x1_2, x1_3, x1_4, x2_0, x2_1, x2_2, x2_3, x2_4, x3_0, x3_1, x3_2, x3_3, x3_4, x4_0, x4_1, x4_2, x4_3, x4_4] =
    [x0_0, x0_1, x0_2, x0_3, x0_4, 0, 0, 0, 0, x1_0, x1_1, x1_2, x1_3, x1_4, 0, 0, 0, 0, x2_0, x2_1, x2_2, x2_3, x2_4, 0, 0, 0, 0, x3_0, x3_1, x3_2, x3_3, x3_4, 0, 0, 0, 0, x4_0, x4_1, x4_2, x4_3, x4_4, 0, 0, 0, 0, 0, 0, 0, 0, 0, 0, 0, 0, 0, 0, 0, 0, 0, 0, 0, 0, 0, 0, 0, 0, 0, 0, 0, 0, 0, 0, 0, 0, 0, 0, 0, 0, 0, 0, 0, 0] := rfl
def pad1_99 : List K → List K
  | [x0_0, x0_1, x0_2, x1_0, x1_1, x1_2, x2_0, x2_1, x2_2] =>
    [x0_0, x0_1, x0_2, 0, 0, 0, 0, 0, 0, x1_0, x1_1, x1_2, 0, 0, 0, 0, 0, 0, x2_0, x2_1, x2_2, 0, 0, 0, 0, 0, 0, 0, 0, 0, 0, 0, 0, 0, 0, 0, 0, 0, 0, 0, 0, 0, 0, 0, 0, 0, 0, 0, 0, 0, 0, 0, 0, 0, 0, 0, 0, 0, 0, 0, 0, 0, 0, 0, 0, 0, 0, 0, 0, 0, 0, 0, 0, 0, 0, 0, 0, 0, 0, 0, 0]
  | _ => []
theorem pad1_99_eq (x0_0 x0_1 x0_2 x1_0 x1_1 x1_2 x2_0 x2_1 x2_2 : K) :
    pad1_99 [x0_0, x0_1, x0_2, x1_0, x1_1, x1_2, x2_0, x2_1, x2_2] =
    [x0_0, x0_1, x0_2, 0, 0, 0, 0, 0, 0, x1_0, x1_1, x1_2, 0, 0, 0, 0, 0, 0, x2_0, x2_1, x2_2, 0, 0, 0, 0, 0, 0, 0, 0, 0, 0, 0, 0, 0, 0, 0, 0, 0, 0, 0, 0, 0, 0, 0, 0, 0, 0, 0, 0, 0, 0, 0, 0, 0, 0, 0, 0, 0, 0, 0, 0, 0, 0, 0, 0, 0, 0, 0, 0, 0, 0, 0, 0, 0, 0, 0, 0, 0, 0, 0, 0] := rfl
def pad2_69 : List K → List K
  | [x0_0, x0_1, x0_2, x0_3, x0_4, x1_0, x1_1, x1_2, x1_3, x1_4, x2_0, x2_1, x2_2, x2_3, x2_4, x3_0, x3_1, x3_2, x3_3, x3_4] =>
    [x0_0, x0_1, x0_2, x0_3, x0_4, 0, 0, 0, 0, x1_0, x1_1, x1_2, x1_3, x1_4, 0, 0, 0, 0, x2_0, x2_1, x2_2, x2_3, x2_4, 0, 0, 0, 0, x3_0, x3_1, x3_2, x3_3, x3_4, 0, 0, 0, 0, 0, 0, 0, 0, 0, 0, 0, 0, 0, 0, 0, 0, 0, 0, 0, 0, 0, 0]
  | _ => []
theorem pad2_69_eq (x0_0 x0_1 x0_2 x0_3 x0_4 x1_0 x1_1 x1_2 x1_3 x1_4 x2_0 x2_1 x2_2 x2_3 x2_4 x3_0 x3_1 x3_2 x3_3 x3_4 : K) :
    pad2_69 [x0_0, x0_1, x0_2, x0_3, x0_4, x1_0, x1_1, x1_2, x1_3, x1_4, x2_0, x2_1, x2_2, x2_3, x2_4, x3_0, x3_1, x3_2, x3_3, x3_4] =
    [x0_0, x0_1, x0_2, x0_3, x0_4, 0, 0, 0, 0, x1_0, x1_1, x1_2, x1_3, x1_4, 0, 0, 0, 0, x2_0, x2_1, x2_2, x2_3, x2_4, 0, 0, 0, 0, x3_0, x3_1, x3_2, x3_3, x3_4, 0, 0, 0, 0, 0, 0, 0, 0, 0, 0, 0, 0, 0, 0, 0, 0, 0, 0, 0, 0, 0, 0] := rfl
def pad1_69 : List K → List K
  | [x0_0, x0_1, x0_2, x1_0, x1_1, x1_2, x2_0, x2_1, x2_2] =>
    [x0_0, x0_1, x0_2, 0, 0, 0, 0, 0, 0, x1_0, x1_1, x1_2, 0, 0, 0, 0, 0, 0, x2_0, x2_1, x2_2, 0, 0, 0, 0, 0, 0, 0, 0, 0, 0, 0, 0, 0, 0, 0, 0, 0, 0, 0, 0, 0, 0, 0, 0, 0, 0, 0, 0, 0, 0, 0, 0, 0]
  | _ => []
theorem pad1_69_eq (x0_0 x0_1 x0_2 x1_0 x1_1 x1_2 x2_0 x2_1 x2_2 : K) :
    pad1_69 [x0_0, x0_1, x0_2, x1_0, x1_1, x1_2, x2_0, x2_1, x2_2] =
    [x0_0, x0_1, x0_2, 0, 0, 0, 0, 0, 0, x1_0, x1_1, x1_2, 0, 0, 0, 0, 0, 0, x2_0, x2_1, x2_2, 0, 0, 0, 0, 0, 0, 0, 0, 0, 0, 0, 0, 0, 0, 0, 0, 0, 0, 0, 0, 0, 0, 0, 0, 0, 0, 0, 0, 0, 0, 0, 0, 0] := rfl
def pad2_96 : List K → List K
  | [x0_0, x0_1, x0_2, x0_3, x1_0, x1_1, x1_2, x1_3, x2_0, x2_1, x2_2, x2_3, x3_0, x3_1, x3_2, x3_3, x4_0, x4_1, x4_2, x4_3] =>
    [x0_0, x0_1, x0_2, x0_3, 0, 0, x1_0, x1_1, x1_2, x1_3, 0, 0, x2_0, x2_1, x2_2, x2_3, 0, 0, x3_0, x3_1, x3_2, x3_3, 0, 0, x4_0, x4_1, x4_2, x4_3, 0, 0, 0, 0, 0, 0, 0, 0, 0, 0, 0, 0, 0, 0, 0, 0, 0, 0, 0, 0, 0, 0, 0, 0, 0, 0]
  | _ => []
theorem pad2_96_eq (x0_0 x0_1 x0_2 x0_3 x1_0 x1_1 x1_2 x1_3 x2_0 x2_1 x2_2 x2_3 x3_0 x3_1 x3_2 x3_3 x4_0 x4_1 x4_2 x4_3 : K) :
    pad2_96 [x0_0, x0_1, x0_2, x0_3, x1_0, x1_1, x1_2, x1_3, x2_0, x2_1, x2_2, x2_3, x3_0, x3_1, x3_2, x3_3, x4_0, x4_1, x4_2, x4_3] =
    [x0_0, x0_1, x0_2, x0_3, 0, 0, x1_0, x1_1, x1_2, x1_3, 0, 0, x2_0, x2_1, x2_2, x2_3, 0, 0, x3_0, x3_1, x3_2, x3_3, 0, 0, x4_0, x4_1, x4_2, x4_3, 0, 0, 0, 0, 0, 0, 0, 0, 0, 0, 0, 0, 0, 0, 0, 0, 0, 0, 0, 0, 0, 0, 0, 0, 0, 0] := rfl
def pad1_96 : List K → List K
  | [x0_0, x0_1, x0_2, x1_0, x1_1, x1_2, x2_0, x2_1, x2_2] =>
    [x0_0, x0_1, x0_2, 0, 0, 0, x1_0, x1_1, x1_2, 0, 0, 0, x2_0, x2_1, x2_2, 0, 0, 0, 0, 0, 0, 0, 0, 0, 0, 0, 0, 0, 0, 0, 0, 0, 0, 0, 0, 0, 0, 0, 0, 0, 0, 0, 0, 0, 0, 0, 0, 0, 0, 0, 0, 0, 0, 0]
  | _ => []
theorem pad1_96_eq (x0_0 x0_1 x0_2 x1_0 x1_1 x1_2 x2_0 x2_1 x2_2 : K) :
    pad1_96 [x0_0, x0_1, x0_2, x1_0, x1_1, x1_2, x2_0, x2_1, x2_2] =
    [x0_0, x0_1, x0_2, 0, 0, 0, x1_0, x1_1, x1_2, 0, 0, 0, x2_0, x2_1, x2_2, 0, 0, 0, 0, 0, 0, 0, 0, 0, 0, 0, 0, 0, 0, 0, 0, 0, 0, 0, 0, 0, 0, 0, 0, 0, 0, 0, 0, 0, 0, 0, 0, 0, 0, 0, 0, 0, 0, 0] := rfl
def pad2_6 : List K → List K
  | [x0, x1, x2, x3] => [x0, x1, x2, x3, 0, 0]
  | _ => []
theorem pad2_6_eq (x0 x1 x2 x3 : K) :
    pad2_6 [x0, x1, x2, x3] =
    [x0, x1, x2, x3, 0, 0] := rfl
def pad1_6 : List K → List K
  | [x0, x1, x2] => [x0, x1, x2, 0, 0, 0]
  | _ => []
theorem pad1_6_eq (x0 x1 x2 : K) :
    pad1_6 [x0, x1, x2] =
    [x0, x1, x2, 0, 0, 0] := rfl
def pad2_9 : List K → List K
  | [x0, x1, x2, x3, x4] => [x0, x1, x2, x3, x4, 0, 0, 0, 0]
  | _ => []
theorem pad2_9_eq (x0 x1 x2 x3 x4 : K) :
    pad2_9 [x0, x1, x2, x3, x4] =
    [x0, x1, x2, x3, x4, 0, 0, 0, 0] := rfl
def pad1_9 : List K → List K
  | [x0, x1, x2] => [x0, x1, x2, 0, 0, 0, 0, 0, 0]
  | _ => []
theorem pad1_9_eq (x0 x1 x2 : K) :
    pad1_9 [x0, x1, x2] =
    [x0, x1, x2, 0, 0, 0, 0, 0, 0] := rfl


/-! ### operations in index notation -/

def T2.one : T2 K := delta
def T2.mul (A B : T2 K) : T2 K := fun i j => sum3 fun k => A i k * B k j
def T2.transpose (A : T2 K) : T2 K := fun i j => A j i
def T2.trace (A : T2 K) : K := sum3 fun i => A i i
/-- `A : B = A_ij B_ij` -/
def T2.ddot (A B : T2 K) : K := sum3 fun i => sum3 fun j => A i j * B i j
/-- `(A ⊗ B)_ijkl = A_ij B_kl` -/
def T2.dyad (A B : T2 K) : T4 K := fun i j k l => A i j * B k l

/-- `(C : A)_ij = C_ijkl A_kl` -/
def T4.app (C : T4 K) (A : T2 K) : T2 K := fun i j => sum3 fun k => sum3 fun l => C i j k l * A k l
/-- `(A : C)_kl = A_ij C_ijkl` -/
def T4.appL (A : T2 K) (C : T4 K) : T2 K := fun k l => sum3 fun i => sum3 fun j => A i j * C i j k l
/-- `(C : D)_ijkl = C_ijmn D_mnkl` -/
def T4.comp (C D : T4 K) : T4 K := fun i j k l => sum3 fun m => sum3 fun n => C i j m n * D m n k l
/-- `(Cᵀ)_ijkl = C_klij` -/
def T4.transpose (C : T4 K) : T4 K := fun i j k l => C k l i j
/-- `C'_ijkl = F_im F_jn F_kp F_lq C_mnpq` -/
def T4.pushForward (F : T2 K) (C : T4 K) : T4 K :=
  fun i j k l => sum3 fun m => sum3 fun n => sum3 fun p => sum3 fun q => F i m * F j n * F k p * F l q * C m n p q
/-- symmetrisation on the first / second index pair -/
def T4.symL (C : T4 K) : T4 K := fun i j k l => (C i j k l + C j i k l) / 2
def T4.symR (C : T4 K) : T4 K := fun i j k l => (C i j k l + C i j l k) / 2

/-- identity on all second-order tensors: `δ_ik δ_jl` -/
def T4.id : T4 K := fun i j k l => delta i k * delta j l
/-- `A ↦ Aᵀ`: `δ_il δ_jk` -/
def T4.transp : T4 K := fun i j k l => delta i l * delta j k
/-- identity on symmetric tensors: `(δ_ik δ_jl + δ_il δ_jk)/2` -/
def T4.idS : T4 K := fun i j k l => (delta i k * delta j l + delta i l * delta j k) / 2
/-- `I ⊗ I`: `δ_ij δ_kl` -/
def T4.IxI : T4 K := fun i j k l => delta i j * delta k l
/-- spherical projector `J = I⊗I / 3` -/
def T4.J : T4 K := fun i j k l => delta i j * delta k l / 3
/-- deviatoric projector on symmetric tensors `K = Id - J` -/
def T4.KS : T4 K := fun i j k l => T4.idS i j k l - T4.J i j k l
/-- deviatoric projector on all tensors -/
def T4.KT : T4 K := fun i j k l => T4.id i j k l - T4.J i j k l
/-- `M = 3/2 K` (von Mises / Hill tensor) -/
def T4.M : T4 K := fun i j k l => 3 / 2 * T4.KS i j k l
/-- rotation `A ↦ Rᵀ A R` (TFEL's `change_basis` convention): `R_ki R_lj` -/
def T4.rot (R : T2 K) : T4 K := fun i j k l => R k i * R l j
/-- `∂(A·B)/∂A = δ_ik B_lj`, `∂(A·B)/∂B = A_ik δ_jl` -/
def T4.tpld (B : T2 K) : T4 K := fun i j k l => delta i k * B l j
def T4.tprd (A : T2 K) : T4 K := fun i j k l => A i k * delta j l
/-- `∂(FᵀF)_ij/∂F_kl = δ_il F_kj + F_ki δ_jl`, `∂(FFᵀ)_ij/∂F_kl = δ_ik F_jl + F_il δ_jk` -/
def T4.dCdF (F : T2 K) : T4 K := fun i j k l => delta i l * F k j + F k i * delta j l
def T4.dBdF (F : T2 K) : T4 K := fun i j k l => delta i k * F j l + F i l * delta j k

/-- `k A + B - A / k` (linear combinations through expression templates) -/
def T4.lin (k : K) (A B : T4 K) : T4 K := fun i j p q => k * A i j p q + B i j p q - A i j p q / k
/-- in-plane part of a rotation matrix (2D: rotation about the third axis) -/
def T2.plane (R : T2 K) : T2 K
  | 0, 0 => R 0 0 | 0, 1 => R 0 1 | 0, 2 => 0
  | 1, 0 => R 1 0 | 1, 1 => R 1 1 | 1, 2 => 0
  | 2, 0 => 0 | 2, 1 => 0 | 2, 2 => 1

/-- all components `C_ijkl`, `(i,j)` and `(k,l)` ranging over the given list of index pairs -/
def T4.comps (ps : List (Fin 3 × Fin 3)) (C : T4 K) : List K :=
  ps.flatMap fun p => ps.map fun q => C p.1 p.2 q.1 q.2
def pairs3 : List (Fin 3 × Fin 3) := [(0,0),(0,1),(0,2),(1,0),(1,1),(1,2),(2,0),(2,1),(2,2)]
def pairs2 : List (Fin 3 × Fin 3) := [(0,0),(0,1),(1,0),(1,1),(2,2)]
def pairs1 : List (Fin 3 × Fin 3) := [(0,0),(1,1),(2,2)]

/-- explicit 3×3 matrices of Common/M3 as index-notation tensors -/
def T2.ofM3 (A : M3 K) : T2 K
  | 0, 0 => A.a00 | 0, 1 => A.a01 | 0, 2 => A.a02
  | 1, 0 => A.a10 | 1, 1 => A.a11 | 1, 2 => A.a12
  | 2, 0 => A.a20 | 2, 1 => A.a21 | 2, 2 => A.a22

/-- 2D matrix: in-plane block and the `(2,2)` entry -/
def _root_.TfelVerif.M3.plane (A : M3 K) : M3 K := ⟨A.a00, A.a01, 0, A.a10, A.a11, 0, 0, 0, A.a22⟩
/-- 2D rotation matrix: in-plane block, the third axis is fixed -/
def _root_.TfelVerif.M3.planeRot (R : M3 K) : M3 K := ⟨R.a00, R.a01, 0, R.a10, R.a11, 0, 0, 0, 1⟩
/-- entries in row-major order -/
def _root_.TfelVerif.M3.rowMajor (A : M3 K) : List K := [A.a00, A.a01, A.a02, A.a10, A.a11, A.a12, A.a20, A.a21, A.a22]

/-! ### applying a generated definition to the entries of a stored vector / matrix

`gen% f | a 6 6 | s 6 | k` is `f (a 0 0) (a 0 1) … (a 5 5) (s 0) … (s 5) k`: the generated definitions take
one scalar argument per stored component, in storage order (matrices row major). -/
declare_syntax_cat genarg
syntax term:max num num : genarg
syntax term:max num : genarg
syntax term:max : genarg
syntax "gen% " term:max (" | " genarg)* : term
open Lean in
macro_rules
  | `(gen% $f $[| $args]*) => do
    let mut t : TSyntax `term := f
    for a in args do
      match a with
      | `(genarg| $x:term $r:num $c:num) =>
        for i in [0:r.getNat] do
          for j in [0:c.getNat] do
            t ← `($t ($x $(quote i) $(quote j)))
      | `(genarg| $x:term $r:num) =>
        for i in [0:r.getNat] do
          t ← `($t ($x $(quote i)))
      | `(genarg| $x:term) => t ← `($t $x)
      | _ => Macro.throwUnsupported
    return t

/-- `lst% n l` is the function `Fin n → K` reading the list `l` (used to feed the outputs of one generated
definition to another one): `vecOf l I = l[I]`, `matOf p l I J = l[I * p + J]`. -/
def vecOf {n : Nat} (l : List K) : Fin n → K := fun I => l.getD I.val 0
def matOf {n : Nat} (p : Nat) (l : List K) : Fin n → Fin p → K := fun I J => l.getD (I.val * p + J.val) 0

end TfelVerif.C02
