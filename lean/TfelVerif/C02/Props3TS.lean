/-
  C02 — fourth-order tensors `t2tost2<3>` in index notation.

  Property theorems only (generated once from harness/C02/genprops.py, then fixed). `Gen.*` are the
  definitions regenerated on every run by tracing the real TFEL templates (harness/C02/trace.cxx).
  Vocabulary: C02/Spec.lean. Conventions: `c` is any element with `c * c = 2` in a field with `2 ≠ 0`;
  a stored vector / matrix is a function on the full 3D row set (`Fin 6` symmetric, `Fin 9` general);
  in 2D / 1D the generated code only receives the rows that exist (`gen% f | a 4 4` passes
  `a 0 0 … a 3 3`), the specification sees the other rows as zero (`rv`, `rm` with the masks
  `mS2 mS1 mT2 mT1`), and `padN_*` embeds the 2D / 1D result into the 3D storage with zeros — so
  each theorem also says that the result has no component outside the dimension.
-/
import TfelVerif.Common.M3
import TfelVerif.Common.Model
import TfelVerif.C02.Lemmas
import TfelVerif.C02.Gen3TS

namespace TfelVerif.C02.Props
open TfelVerif TfelVerif.Mandel TfelVerif.C02
set_option linter.all false
set_option maxRecDepth 100000
set_option maxHeartbeats 1600000

variable {K : Type} [Field K] (c c3 : K) (fn : Fns K)

/-! ## t2tost2<3> -/
theorem N3_ts_apply (hc : c * c = 2) (h2 : (2:K) ≠ 0) (a : Fin 6 → Fin 9 → K) (x : Fin 9 → K) :
    gen% (Gen.N3_ts_apply_all c c3 fn) | a 6 9 | x 9
      = T2.st c (T4.app (T4.ofTS c a) (T2.ofTens x)) := by
  rw [st_app_TS hc h2]; t4_eq hc
theorem N3_ts_applyL (hc : c * c = 2) (h2 : (2:K) ≠ 0) (s : Fin 6 → K) (a : Fin 6 → Fin 9 → K) :
    gen% (Gen.N3_ts_applyL_all c c3 fn) | s 6 | a 6 9
      = T2.tens (T4.appL (T2.ofSt c s) (T4.ofTS c a)) := by
  rw [tens_appL_TS hc h2]; t4_eq hc
theorem N3_ts_comp_st_ts (hc : c * c = 2) (h2 : (2:K) ≠ 0) (a : Fin 6 → Fin 6 → K) (b : Fin 6 → Fin 9 → K) :
    gen% (Gen.N3_ts_comp_st_ts_all c c3 fn) | a 6 6 | b 6 9
      = rows69 (T4.stoTS c (T4.comp (T4.ofST c a) (T4.ofTS c b))) := by
  rw [stoTS_comp_ST_TS hc h2]; t4_eq hc
theorem N3_ts_comp_ts_tt (hc : c * c = 2) (h2 : (2:K) ≠ 0) (a : Fin 6 → Fin 9 → K) (b : Fin 9 → Fin 9 → K) :
    gen% (Gen.N3_ts_comp_ts_tt_all c c3 fn) | a 6 9 | b 9 9
      = rows69 (T4.stoTS c (T4.comp (T4.ofTS c a) (T4.ofTT b))) := by
  rw [stoTS_comp_TS_TT hc h2]; t4_eq hc
theorem N3_ts_dyad (hc : c * c = 2) (h2 : (2:K) ≠ 0) (s : Fin 6 → K) (x : Fin 9 → K) :
    gen% (Gen.N3_ts_dyad_all c c3 fn) | s 6 | x 9
      = rows69 (T4.stoTS c (T2.dyad (T2.ofSt c s) (T2.ofTens x))) := by
  rw [stoTS_dyad hc h2]; t4_eq hc
/-- `convertToT2toST2(T)`: symmetric part of the result, `(T_ijkl + T_jikl)/2` -/
theorem N3_ts_convert_from_t2tot2 (hc : c * c = 2) (h2 : (2:K) ≠ 0) (a : Fin 9 → Fin 9 → K) :
    gen% (Gen.N3_ts_convert_from_t2tot2_all c c3 fn) | a 9 9
      = rows69 (T4.stoTS c (T4.symL (T4.ofTT a))) := by
  t4_eq hc
/-- `dCdF(F) = ∂(FᵀF)/∂F` (`Lemmas.app_dCdF`: it maps `X` to `XᵀF + FᵀX`) -/
theorem N3_ts_dCdF (hc : c * c = 2) (h2 : (2:K) ≠ 0) (f : Fin 9 → K) :
    gen% (Gen.N3_ts_dCdF_all c c3 fn) | f 9
      = rows69 (T4.stoTS c (T4.dCdF (T2.ofTens f))) := by
  t4_eq hc
/-- `dBdF(F) = ∂(FFᵀ)/∂F` (`Lemmas.app_dBdF`: it maps `X` to `XFᵀ + FXᵀ`) -/
theorem N3_ts_dBdF (hc : c * c = 2) (h2 : (2:K) ≠ 0) (f : Fin 9 → K) :
    gen% (Gen.N3_ts_dBdF_all c c3 fn) | f 9
      = rows69 (T4.stoTS c (T4.dBdF (T2.ofTens f))) := by
  t4_eq hc

end TfelVerif.C02.Props
