/-
  C02 — change of basis of the fourth-order tensors.

  Property theorems only (generated once from harness/C02/genprops.py, then fixed). `Gen.*` are the
  definitions regenerated on every run by tracing the real TFEL templates (harness/C02/trace.cxx).
  Vocabulary: C02/Spec.lean. Conventions: `c` is any element with `c * c = 2` in a field with `2 ≠ 0`;
  a stored vector / matrix is a function on the full 3D row set (`Fin 6` symmetric, `Fin 9` general);
  in 2D / 1D the generated code only receives the rows that exist (`gen% f | a 4 4` passes
  `a 0 0 … a 3 3`), the specification sees the other rows as zero (`rv`, `rm` with the masks
  `mS2 mS1 mT2 mT1`), and `padN_*` embeds the 2D / 1D result into the 3D storage with zeros — so
  each theorem also says that the result has no component outside the dimension.
  `change_basis(C, R)` is implemented as `Q(R) * C * Q'(Rᵀ)` with `Q`, `Q'` the `fromRotationMatrix` of the row and
  column kinds; each theorem states that the traced `change_basis` is exactly that composition of the traced products
  (same scalar operations), so that in index notation, by `N*_*_fromRotationMatrix`, the product theorems `N*_*_comp*`
  and `Lemmas.comp_rot_comp_rot`:   change_basis(C,R)_ijkl = R_mi R_nj C_mnpq R_pk R_ql .
  `matOf p l` reads a row-major list as a matrix (C02/Spec.lean).
-/
import TfelVerif.Common.M3
import TfelVerif.Common.Model
import TfelVerif.C02.Lemmas
import TfelVerif.C02.GenCB
import TfelVerif.C02.Gen2ST
import TfelVerif.C02.Gen2TT
import TfelVerif.C02.Gen2TS
import TfelVerif.C02.Gen3ST
import TfelVerif.C02.Gen3TT
import TfelVerif.C02.Gen3TS

namespace TfelVerif.C02.Props
open TfelVerif TfelVerif.Mandel TfelVerif.C02
set_option linter.all false
set_option maxRecDepth 100000
set_option maxHeartbeats 1600000

variable {K : Type} [Field K] (c c3 : K) (fn : Fns K)
/-- `change_basis(C,R) = Q(R) * C * Q'(Rᵀ)` with `Q = st2tost2::fromRotationMatrix`, `Q' = st2tost2::fromRotationMatrix` -/
theorem N3_st_change_basis (a : Fin 6 → Fin 6 → K) (r : Fin 3 → Fin 3 → K) :
    let q : Fin 6 → Fin 6 → K := matOf 6 (gen% (Gen.N3_st_fromRotationMatrix_all c c3 fn) | r 3 3)
    let qt : Fin 6 → Fin 6 → K := matOf 6 (gen% (Gen.N3_st_fromRotationMatrix_all c c3 fn) | (T2.transpose r) 3 3)
    let qa : Fin 6 → Fin 6 → K := matOf 6 (gen% (Gen.N3_st_comp_all c c3 fn) | q 6 6 | a 6 6)
    (gen% (Gen.N3_st_change_basis_all c c3 fn) | a 6 6 | r 3 3)
      = gen% (Gen.N3_st_comp_all c c3 fn) | qa 6 6 | qt 6 6 := by
  intro q qt qa
  t4_same_zd

/-- `change_basis(C,R) = Q(R) * C * Q'(Rᵀ)` with `Q = t2tot2::fromRotationMatrix`, `Q' = t2tot2::fromRotationMatrix` -/
theorem N3_tt_change_basis (a : Fin 9 → Fin 9 → K) (r : Fin 3 → Fin 3 → K) :
    let q : Fin 9 → Fin 9 → K := matOf 9 (gen% (Gen.N3_tt_fromRotationMatrix_all c c3 fn) | r 3 3)
    let qt : Fin 9 → Fin 9 → K := matOf 9 (gen% (Gen.N3_tt_fromRotationMatrix_all c c3 fn) | (T2.transpose r) 3 3)
    let qa : Fin 9 → Fin 9 → K := matOf 9 (gen% (Gen.N3_tt_comp_all c c3 fn) | q 9 9 | a 9 9)
    (gen% (Gen.N3_tt_change_basis_all c c3 fn) | a 9 9 | r 3 3)
      = gen% (Gen.N3_tt_comp_all c c3 fn) | qa 9 9 | qt 9 9 := by
  intro q qt qa
  t4_same_zd

/-- `change_basis(C,R) = Q(R) * C * Q'(Rᵀ)` with `Q = st2tost2::fromRotationMatrix`, `Q' = t2tot2::fromRotationMatrix` -/
theorem N3_ts_change_basis (a : Fin 6 → Fin 9 → K) (r : Fin 3 → Fin 3 → K) :
    let q : Fin 6 → Fin 6 → K := matOf 6 (gen% (Gen.N3_st_fromRotationMatrix_all c c3 fn) | r 3 3)
    let qt : Fin 9 → Fin 9 → K := matOf 9 (gen% (Gen.N3_tt_fromRotationMatrix_all c c3 fn) | (T2.transpose r) 3 3)
    let qa : Fin 6 → Fin 9 → K := matOf 9 (gen% (Gen.N3_ts_comp_st_ts_all c c3 fn) | q 6 6 | a 6 9)
    (gen% (Gen.N3_ts_change_basis_all c c3 fn) | a 6 9 | r 3 3)
      = gen% (Gen.N3_ts_comp_ts_tt_all c c3 fn) | qa 6 9 | qt 9 9 := by
  intro q qt qa
  t4_same_zd

/-- `change_basis(C,R) = Q(R) * C * Q'(Rᵀ)` with `Q = st2tost2::fromRotationMatrix`, `Q' = st2tost2::fromRotationMatrix` -/
theorem N2_st_change_basis (a : Fin 6 → Fin 6 → K) (r : Fin 3 → Fin 3 → K) :
    let q : Fin 6 → Fin 4 → K := matOf 4 (gen% (Gen.N2_st_fromRotationMatrix_all c c3 fn) | r 3 3)
    let qt : Fin 6 → Fin 4 → K := matOf 4 (gen% (Gen.N2_st_fromRotationMatrix_all c c3 fn) | (T2.transpose r) 3 3)
    let qa : Fin 6 → Fin 4 → K := matOf 4 (gen% (Gen.N2_st_comp_all c c3 fn) | q 4 4 | a 4 4)
    (gen% (Gen.N2_st_change_basis_all c c3 fn) | a 4 4 | r 3 3)
      = gen% (Gen.N2_st_comp_all c c3 fn) | qa 4 4 | qt 4 4 := by
  intro q qt qa
  t4_same_zd

/-- `change_basis(C,R) = Q(R) * C * Q'(Rᵀ)` with `Q = t2tot2::fromRotationMatrix`, `Q' = t2tot2::fromRotationMatrix` -/
theorem N2_tt_change_basis (a : Fin 9 → Fin 9 → K) (r : Fin 3 → Fin 3 → K) :
    let q : Fin 9 → Fin 5 → K := matOf 5 (gen% (Gen.N2_tt_fromRotationMatrix_all c c3 fn) | r 3 3)
    let qt : Fin 9 → Fin 5 → K := matOf 5 (gen% (Gen.N2_tt_fromRotationMatrix_all c c3 fn) | (T2.transpose r) 3 3)
    let qa : Fin 9 → Fin 5 → K := matOf 5 (gen% (Gen.N2_tt_comp_all c c3 fn) | q 5 5 | a 5 5)
    (gen% (Gen.N2_tt_change_basis_all c c3 fn) | a 5 5 | r 3 3)
      = gen% (Gen.N2_tt_comp_all c c3 fn) | qa 5 5 | qt 5 5 := by
  intro q qt qa
  t4_same_zd

/-- `change_basis(C,R) = Q(R) * C * Q'(Rᵀ)` with `Q = st2tost2::fromRotationMatrix`, `Q' = t2tot2::fromRotationMatrix` -/
theorem N2_ts_change_basis (a : Fin 6 → Fin 9 → K) (r : Fin 3 → Fin 3 → K) :
    let q : Fin 6 → Fin 4 → K := matOf 4 (gen% (Gen.N2_st_fromRotationMatrix_all c c3 fn) | r 3 3)
    let qt : Fin 9 → Fin 5 → K := matOf 5 (gen% (Gen.N2_tt_fromRotationMatrix_all c c3 fn) | (T2.transpose r) 3 3)
    let qa : Fin 6 → Fin 5 → K := matOf 5 (gen% (Gen.N2_ts_comp_st_ts_all c c3 fn) | q 4 4 | a 4 5)
    (gen% (Gen.N2_ts_change_basis_all c c3 fn) | a 4 5 | r 3 3)
      = gen% (Gen.N2_ts_comp_ts_tt_all c c3 fn) | qa 4 5 | qt 5 5 := by
  intro q qt qa
  t4_same_zd

/-! 1D: tensors are not rotated -/
theorem N1_st_change_basis (hc : c * c = 2) (h2 : (2:K) ≠ 0) (a : Fin 6 → Fin 6 → K) (r : Fin 3 → Fin 3 → K) :
    pad1_66 (gen% (Gen.N1_st_change_basis_all c c3 fn) | a 3 3 | r 3 3)
      = rows66 (T4.stoST c (T4.ofST c (rm mS1 mS1 a))) := by
  t4_eq hc
theorem N1_tt_change_basis (hc : c * c = 2) (h2 : (2:K) ≠ 0) (a : Fin 9 → Fin 9 → K) (r : Fin 3 → Fin 3 → K) :
    pad1_99 (gen% (Gen.N1_tt_change_basis_all c c3 fn) | a 3 3 | r 3 3)
      = rows99 (T4.stoTT (T4.ofTT (rm mT1 mT1 a))) := by
  t4_eq hc
theorem N1_ts_change_basis (hc : c * c = 2) (h2 : (2:K) ≠ 0) (a : Fin 6 → Fin 9 → K) (r : Fin 3 → Fin 3 → K) :
    pad1_69 (gen% (Gen.N1_ts_change_basis_all c c3 fn) | a 3 3 | r 3 3)
      = rows69 (T4.stoTS c (T4.ofTS c (rm mS1 mT1 a))) := by
  t4_eq hc

end TfelVerif.C02.Props
