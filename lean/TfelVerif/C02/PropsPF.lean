/-
  C02 — push-forward and pull-back of `st2tost2` (ST2toST2ConceptPushForward.ixx).

  Property theorems only (generated once from harness/C02/genprops.py, then fixed). `Gen.*` are the
  definitions regenerated on every run by tracing the real TFEL templates (harness/C02/trace.cxx).
  Vocabulary: C02/Spec.lean. Conventions: `c` is any element with `c * c = 2` in a field with `2 ≠ 0`;
  a stored vector / matrix is a function on the full 3D row set (`Fin 6` symmetric, `Fin 9` general);
  in 2D / 1D the generated code only receives the rows that exist (`gen% f | a 4 4` passes
  `a 0 0 … a 3 3`), the specification sees the other rows as zero (`rv`, `rm` with the masks
  `mS2 mS1 mT2 mT1`), and `padN_*` embeds the 2D / 1D result into the 3D storage with zeros — so
  each theorem also says that the result has no component outside the dimension.
-/
import TfelVerif.Common.M3
import TfelVerif.Common.Model
import TfelVerif.C02.Lemmas
import TfelVerif.C02.GenPF
import TfelVerif.C02.GenT

namespace TfelVerif.C02.Props
open TfelVerif TfelVerif.Mandel TfelVerif.C02
set_option linter.all false
set_option maxRecDepth 100000
set_option maxHeartbeats 1600000

variable {K : Type} [Field K] (c c3 : K) (fn : Fns K)
/-- `push_forward(C,F)_ijkl = F_im F_jn F_kp F_lq C_mnpq`, every stored component -/
theorem N3_st_push_forward (hc : c * c = 2) (h2 : (2:K) ≠ 0) (a : Fin 6 → Fin 6 → K) (f : Fin 9 → K) :
    gen% (Gen.N3_st_push_forward_all c c3 fn) | a 6 6 | f 9
      = rows66 (T4.stoST c (T4.pushForward (T2.ofTens f) (T4.ofST c a))) := by
  t4_eq hc
/-- `pull_back(C,F) = push_forward(C, invert(F))`: the traced `pull_back` performs exactly the operations of the
traced `invert` (`PropsT.N3_t_invert`: `F · invert(F) = 1` when `det F ≠ 0`) followed by those of the traced
`push_forward` (theorem above). `vecOf l` reads a list as a stored vector. -/
theorem N3_st_pull_back (a : Fin 6 → Fin 6 → K) (f : Fin 9 → K) :
    let g : Fin 9 → K := vecOf (gen% (Gen.N3_t_invert_all c c3 fn) | f 9)
    (gen% (Gen.N3_st_pull_back_all c c3 fn) | a 6 6 | f 9)
      = gen% (Gen.N3_st_push_forward_all c c3 fn) | a 6 6 | g 9 := by
  intro g
  t4_same_zd

/-- `push_forward(C,F)_ijkl = F_im F_jn F_kp F_lq C_mnpq`, every stored component -/
theorem N2_st_push_forward (hc : c * c = 2) (h2 : (2:K) ≠ 0) (a : Fin 6 → Fin 6 → K) (f : Fin 9 → K) :
    pad2_66 (gen% (Gen.N2_st_push_forward_all c c3 fn) | a 4 4 | f 5)
      = rows66 (T4.stoST c (T4.pushForward (T2.ofTens (rv mT2 f)) (T4.ofST c (rm mS2 mS2 a)))) := by
  t4_eq hc
/-- `pull_back(C,F) = push_forward(C, invert(F))`: the traced `pull_back` performs exactly the operations of the
traced `invert` (`PropsT.N2_t_invert`: `F · invert(F) = 1` when `det F ≠ 0`) followed by those of the traced
`push_forward` (theorem above). `vecOf l` reads a list as a stored vector. -/
theorem N2_st_pull_back (a : Fin 6 → Fin 6 → K) (f : Fin 9 → K) :
    let g : Fin 9 → K := vecOf (gen% (Gen.N2_t_invert_all c c3 fn) | f 5)
    (gen% (Gen.N2_st_pull_back_all c c3 fn) | a 4 4 | f 5)
      = gen% (Gen.N2_st_push_forward_all c c3 fn) | a 4 4 | g 5 := by
  intro g
  t4_same_zd

/-- `push_forward(C,F)_ijkl = F_im F_jn F_kp F_lq C_mnpq`, every stored component -/
theorem N1_st_push_forward (hc : c * c = 2) (h2 : (2:K) ≠ 0) (a : Fin 6 → Fin 6 → K) (f : Fin 9 → K) :
    pad1_66 (gen% (Gen.N1_st_push_forward_all c c3 fn) | a 3 3 | f 3)
      = rows66 (T4.stoST c (T4.pushForward (T2.ofTens (rv mT1 f)) (T4.ofST c (rm mS1 mS1 a)))) := by
  t4_eq hc
/-- `pull_back(C,F) = push_forward(C, invert(F))`: the traced `pull_back` performs exactly the operations of the
traced `invert` (`PropsT.N1_t_invert`: `F · invert(F) = 1` when `det F ≠ 0`) followed by those of the traced
`push_forward` (theorem above). `vecOf l` reads a list as a stored vector. -/
theorem N1_st_pull_back (a : Fin 6 → Fin 6 → K) (f : Fin 9 → K) :
    let g : Fin 9 → K := vecOf (gen% (Gen.N1_t_invert_all c c3 fn) | f 3)
    (gen% (Gen.N1_st_pull_back_all c c3 fn) | a 3 3 | f 3)
      = gen% (Gen.N1_st_push_forward_all c c3 fn) | a 3 3 | g 3 := by
  intro g
  t4_same_zd


end TfelVerif.C02.Props
