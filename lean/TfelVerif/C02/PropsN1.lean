/-
  C02 — fourth-order tensors in 1D in index notation.

  Property theorems only (generated once from harness/C02/genprops.py, then fixed). `Gen.*` are the
  definitions regenerated on every run by tracing the real TFEL templates (harness/C02/trace.cxx).
  Vocabulary: C02/Spec.lean. Conventions: `c` is any element with `c * c = 2` in a field with `2 ≠ 0`;
  a stored vector / matrix is a function on the full 3D row set (`Fin 6` symmetric, `Fin 9` general);
  in 2D / 1D the generated code only receives the rows that exist (`gen% f | a 4 4` passes
  `a 0 0 … a 3 3`), the specification sees the other rows as zero (`rv`, `rm` with the masks
  `mS2 mS1 mT2 mT1`), and `padN_*` embeds the 2D / 1D result into the 3D storage with zeros — so
  each theorem also says that the result has no component outside the dimension.
-/
import TfelVerif.Common.M3
import TfelVerif.Common.Model
import TfelVerif.C02.Lemmas
import TfelVerif.C02.GenN1

namespace TfelVerif.C02.Props
open TfelVerif TfelVerif.Mandel TfelVerif.C02
set_option linter.all false
set_option maxRecDepth 100000
set_option maxHeartbeats 1600000

variable {K : Type} [Field K] (c c3 : K) (fn : Fns K)

/-! ## st2tost2<1>: action, composition, transposition, dyadic product -/
/-- `C * s` is `(C : s)_ij = C_ijkl s_kl` -/
theorem N1_st_apply (hc : c * c = 2) (h2 : (2:K) ≠ 0) (a : Fin 6 → Fin 6 → K) (s : Fin 6 → K) :
    pad1_6 (gen% (Gen.N1_st_apply_all c c3 fn) | a 3 3 | s 3)
      = T2.st c (T4.app (T4.ofST c (rm mS1 mS1 a)) (T2.ofSt c (rv mS1 s))) := by
  rw [st_app_ST hc h2]; t4_eq hc
/-- `s * C` is `(s : C)_kl = s_ij C_ijkl` -/
theorem N1_st_applyL (hc : c * c = 2) (h2 : (2:K) ≠ 0) (s : Fin 6 → K) (a : Fin 6 → Fin 6 → K) :
    pad1_6 (gen% (Gen.N1_st_applyL_all c c3 fn) | s 3 | a 3 3)
      = T2.st c (T4.appL (T2.ofSt c (rv mS1 s)) (T4.ofST c (rm mS1 mS1 a))) := by
  rw [st_appL_ST hc h2]; t4_eq hc
/-- `C * D` (expression template product) is `C_ijmn D_mnkl` -/
theorem N1_st_comp (hc : c * c = 2) (h2 : (2:K) ≠ 0) (a : Fin 6 → Fin 6 → K) (b : Fin 6 → Fin 6 → K) :
    pad1_66 (gen% (Gen.N1_st_comp_all c c3 fn) | a 3 3 | b 3 3)
      = rows66 (T4.stoST c (T4.comp (T4.ofST c (rm mS1 mS1 a)) (T4.ofST c (rm mS1 mS1 b)))) := by
  rw [stoST_comp_ST_ST hc h2]; t4_eq hc
/-- `transpose(C)_ijkl = C_klij` -/
theorem N1_st_transpose (hc : c * c = 2) (h2 : (2:K) ≠ 0) (a : Fin 6 → Fin 6 → K) :
    pad1_66 (gen% (Gen.N1_st_transpose_all c c3 fn) | a 3 3)
      = rows66 (T4.stoST c (T4.transpose (T4.ofST c (rm mS1 mS1 a)))) := by
  rw [stoST_transpose hc h2]; t4_eq hc
/-- `s ^ t` is `s_ij t_kl` -/
theorem N1_st_dyad (hc : c * c = 2) (h2 : (2:K) ≠ 0) (s : Fin 6 → K) (t : Fin 6 → K) :
    pad1_66 (gen% (Gen.N1_st_dyad_all c c3 fn) | s 3 | t 3)
      = rows66 (T4.stoST c (T2.dyad (T2.ofSt c (rv mS1 s)) (T2.ofSt c (rv mS1 t)))) := by
  rw [stoST_dyad hc h2]; t4_eq hc
/-- `k*C + D - C/k` through expression templates -/
theorem N1_st_add_scale (hc : c * c = 2) (h2 : (2:K) ≠ 0) (a : Fin 6 → Fin 6 → K) (b : Fin 6 → Fin 6 → K) (k : K) (hk : k ≠ 0) :
    pad1_66 (gen% (Gen.N1_st_add_scale_all c c3 fn) | a 3 3 | b 3 3 | k)
      = rows66 (T4.stoST c (T4.lin k (T4.ofST c (rm mS1 mS1 a)) (T4.ofST c (rm mS1 mS1 b)))) := by
  t4_eq hc

/-! ## the projectors `Id, IxI, J, K, M` (in 2D / 1D: their rows that exist) -/
theorem N1_st_Id (hc : c * c = 2) (h2 : (2:K) ≠ 0)  :
    pad1_66 (gen% (Gen.N1_st_Id_all c c3 fn))
      = rows66 (rm mS1 mS1 (T4.stoST c T4.idS)) := by
  t4_eq hc
theorem N1_st_IxI (hc : c * c = 2) (h2 : (2:K) ≠ 0)  :
    pad1_66 (gen% (Gen.N1_st_IxI_all c c3 fn))
      = rows66 (rm mS1 mS1 (T4.stoST c T4.IxI)) := by
  t4_eq hc
theorem N1_st_J (hc : c * c = 2) (h2 : (2:K) ≠ 0) (h3 : (3:K) ≠ 0)  :
    pad1_66 (gen% (Gen.N1_st_J_all c c3 fn))
      = rows66 (rm mS1 mS1 (T4.stoST c T4.J)) := by
  t4_eq hc
theorem N1_st_K (hc : c * c = 2) (h2 : (2:K) ≠ 0) (h3 : (3:K) ≠ 0)  :
    pad1_66 (gen% (Gen.N1_st_K_all c c3 fn))
      = rows66 (rm mS1 mS1 (T4.stoST c T4.KS)) := by
  t4_eq hc
theorem N1_st_M (hc : c * c = 2) (h2 : (2:K) ≠ 0) (h3 : (3:K) ≠ 0)  :
    pad1_66 (gen% (Gen.N1_st_M_all c c3 fn))
      = rows66 (rm mS1 mS1 (T4.stoST c T4.M)) := by
  t4_eq hc

/-! ## rotations, change of basis, push-forward, components, conversion -/
/-- 1D: tensors are not rotated (`change_basis` is the identity), whatever `R` -/
theorem N1_st_fromRotationMatrix (hc : c * c = 2) (h2 : (2:K) ≠ 0) (r : Fin 3 → Fin 3 → K) :
    pad1_66 (gen% (Gen.N1_st_fromRotationMatrix_all c c3 fn) | r 3 3)
      = rows66 (rm mS1 mS1 (T4.stoST c T4.idS)) := by
  t4_eq hc
/-- `getComponent(C,i,j,k,l)` is `C_ijkl` for the fourth-order tensor `T4.ofST` reads from the storage -/
theorem N1_st_getComponent (hc : c * c = 2) (h2 : (2:K) ≠ 0) (a : Fin 6 → Fin 6 → K) :
    gen% (Gen.N1_st_getComponent_all c c3 fn) | a 3 3
      = T4.comps pairs1 (T4.ofST c (rm mS1 mS1 a)) := by
  t4_eq hc
/-- `t2tost2 * st2tot2` -/
theorem N1_st_comp_ts_s2t (hc : c * c = 2) (h2 : (2:K) ≠ 0) (a : Fin 6 → Fin 9 → K) (b : Fin 9 → Fin 6 → K) :
    pad1_66 (gen% (Gen.N1_st_comp_ts_s2t_all c c3 fn) | a 3 3 | b 3 3)
      = rows66 (T4.stoST c (T4.comp (T4.ofTS c (rm mS1 mT1 a)) (T4.ofS2T c (rm mT1 mS1 b)))) := by
  rw [stoST_comp_TS_S2T hc h2]; t4_eq hc

/-! ## t2tot2<1> -/
theorem N1_tt_apply (hc : c * c = 2) (h2 : (2:K) ≠ 0) (a : Fin 9 → Fin 9 → K) (x : Fin 9 → K) :
    pad1_9 (gen% (Gen.N1_tt_apply_all c c3 fn) | a 3 3 | x 3)
      = T2.tens (T4.app (T4.ofTT (rm mT1 mT1 a)) (T2.ofTens (rv mT1 x))) := by
  rw [tens_app_TT hc h2]; t4_eq hc
theorem N1_tt_applyL (hc : c * c = 2) (h2 : (2:K) ≠ 0) (x : Fin 9 → K) (a : Fin 9 → Fin 9 → K) :
    pad1_9 (gen% (Gen.N1_tt_applyL_all c c3 fn) | x 3 | a 3 3)
      = T2.tens (T4.appL (T2.ofTens (rv mT1 x)) (T4.ofTT (rm mT1 mT1 a))) := by
  rw [tens_appL_TT hc h2]; t4_eq hc
theorem N1_tt_comp (hc : c * c = 2) (h2 : (2:K) ≠ 0) (a : Fin 9 → Fin 9 → K) (b : Fin 9 → Fin 9 → K) :
    pad1_99 (gen% (Gen.N1_tt_comp_all c c3 fn) | a 3 3 | b 3 3)
      = rows99 (T4.stoTT (T4.comp (T4.ofTT (rm mT1 mT1 a)) (T4.ofTT (rm mT1 mT1 b)))) := by
  rw [stoTT_comp_TT_TT hc h2]; t4_eq hc
theorem N1_tt_dyad (hc : c * c = 2) (h2 : (2:K) ≠ 0) (x : Fin 9 → K) (y : Fin 9 → K) :
    pad1_99 (gen% (Gen.N1_tt_dyad_all c c3 fn) | x 3 | y 3)
      = rows99 (T4.stoTT (T2.dyad (T2.ofTens (rv mT1 x)) (T2.ofTens (rv mT1 y)))) := by
  rw [stoTT_dyad hc h2]; t4_eq hc
theorem N1_tt_Id (hc : c * c = 2) (h2 : (2:K) ≠ 0)  :
    pad1_99 (gen% (Gen.N1_tt_Id_all c c3 fn))
      = rows99 (rm mT1 mT1 (T4.stoTT T4.id)) := by
  t4_eq hc
theorem N1_tt_IxI (hc : c * c = 2) (h2 : (2:K) ≠ 0)  :
    pad1_99 (gen% (Gen.N1_tt_IxI_all c c3 fn))
      = rows99 (rm mT1 mT1 (T4.stoTT T4.IxI)) := by
  t4_eq hc
theorem N1_tt_K (hc : c * c = 2) (h2 : (2:K) ≠ 0) (h3 : (3:K) ≠ 0)  :
    pad1_99 (gen% (Gen.N1_tt_K_all c c3 fn))
      = rows99 (rm mT1 mT1 (T4.stoTT T4.KT)) := by
  t4_eq hc
theorem N1_tt_transpose_derivative (hc : c * c = 2) (h2 : (2:K) ≠ 0)  :
    pad1_99 (gen% (Gen.N1_tt_transpose_derivative_all c c3 fn))
      = rows99 (rm mT1 mT1 (T4.stoTT T4.transp)) := by
  t4_eq hc
theorem N1_tt_fromRotationMatrix (hc : c * c = 2) (h2 : (2:K) ≠ 0) (r : Fin 3 → Fin 3 → K) :
    pad1_99 (gen% (Gen.N1_tt_fromRotationMatrix_all c c3 fn) | r 3 3)
      = rows99 (rm mT1 mT1 (T4.stoTT T4.id)) := by
  t4_eq hc
/-- `tpld(B) = ∂(A·B)/∂A = δ_ik B_lj` (`Lemmas.app_tpld`: it maps `X` to `X·B`) -/
theorem N1_tt_tpld (hc : c * c = 2) (h2 : (2:K) ≠ 0) (b : Fin 9 → K) :
    pad1_99 (gen% (Gen.N1_tt_tpld_all c c3 fn) | b 3)
      = rows99 (rm mT1 mT1 (T4.stoTT (T4.tpld (T2.ofTens (rv mT1 b))))) := by
  t4_eq hc
/-- `tprd(A) = ∂(A·B)/∂B = A_ik δ_jl` (`Lemmas.app_tprd`: it maps `X` to `A·X`) -/
theorem N1_tt_tprd (hc : c * c = 2) (h2 : (2:K) ≠ 0) (x : Fin 9 → K) :
    pad1_99 (gen% (Gen.N1_tt_tprd_all c c3 fn) | x 3)
      = rows99 (rm mT1 mT1 (T4.stoTT (T4.tprd (T2.ofTens (rv mT1 x))))) := by
  t4_eq hc
theorem N1_tt_tpld_comp (hc : c * c = 2) (h2 : (2:K) ≠ 0) (b : Fin 9 → K) (a : Fin 9 → Fin 9 → K) :
    pad1_99 (gen% (Gen.N1_tt_tpld_comp_all c c3 fn) | b 3 | a 3 3)
      = rows99 (T4.stoTT (T4.comp (T4.tpld (T2.ofTens (rv mT1 b))) (T4.ofTT (rm mT1 mT1 a)))) := by
  t4_eq hc
theorem N1_tt_tprd_comp (hc : c * c = 2) (h2 : (2:K) ≠ 0) (x : Fin 9 → K) (a : Fin 9 → Fin 9 → K) :
    pad1_99 (gen% (Gen.N1_tt_tprd_comp_all c c3 fn) | x 3 | a 3 3)
      = rows99 (T4.stoTT (T4.comp (T4.tprd (T2.ofTens (rv mT1 x))) (T4.ofTT (rm mT1 mT1 a)))) := by
  t4_eq hc
/-- `t2tot2(D)`: the same fourth-order tensor in the 9×9 storage -/
theorem N1_tt_convert_from_t2tost2 (hc : c * c = 2) (h2 : (2:K) ≠ 0) (a : Fin 6 → Fin 9 → K) :
    pad1_99 (gen% (Gen.N1_tt_convert_from_t2tost2_all c c3 fn) | a 3 3)
      = rows99 (T4.stoTT (T4.ofTS c (rm mS1 mT1 a))) := by
  t4_eq hc
/-- `st2tot2 * t2tost2` -/
theorem N1_tt_comp_s2t_ts (hc : c * c = 2) (h2 : (2:K) ≠ 0) (a : Fin 9 → Fin 6 → K) (b : Fin 6 → Fin 9 → K) :
    pad1_99 (gen% (Gen.N1_tt_comp_s2t_ts_all c c3 fn) | a 3 3 | b 3 3)
      = rows99 (T4.stoTT (T4.comp (T4.ofS2T c (rm mT1 mS1 a)) (T4.ofTS c (rm mS1 mT1 b)))) := by
  rw [stoTT_comp_S2T_TS hc h2]; t4_eq hc

/-! ## t2tost2<1> -/
theorem N1_ts_apply (hc : c * c = 2) (h2 : (2:K) ≠ 0) (a : Fin 6 → Fin 9 → K) (x : Fin 9 → K) :
    pad1_6 (gen% (Gen.N1_ts_apply_all c c3 fn) | a 3 3 | x 3)
      = T2.st c (T4.app (T4.ofTS c (rm mS1 mT1 a)) (T2.ofTens (rv mT1 x))) := by
  rw [st_app_TS hc h2]; t4_eq hc
theorem N1_ts_applyL (hc : c * c = 2) (h2 : (2:K) ≠ 0) (s : Fin 6 → K) (a : Fin 6 → Fin 9 → K) :
    pad1_9 (gen% (Gen.N1_ts_applyL_all c c3 fn) | s 3 | a 3 3)
      = T2.tens (T4.appL (T2.ofSt c (rv mS1 s)) (T4.ofTS c (rm mS1 mT1 a))) := by
  rw [tens_appL_TS hc h2]; t4_eq hc
theorem N1_ts_comp_st_ts (hc : c * c = 2) (h2 : (2:K) ≠ 0) (a : Fin 6 → Fin 6 → K) (b : Fin 6 → Fin 9 → K) :
    pad1_69 (gen% (Gen.N1_ts_comp_st_ts_all c c3 fn) | a 3 3 | b 3 3)
      = rows69 (T4.stoTS c (T4.comp (T4.ofST c (rm mS1 mS1 a)) (T4.ofTS c (rm mS1 mT1 b)))) := by
  rw [stoTS_comp_ST_TS hc h2]; t4_eq hc
theorem N1_ts_comp_ts_tt (hc : c * c = 2) (h2 : (2:K) ≠ 0) (a : Fin 6 → Fin 9 → K) (b : Fin 9 → Fin 9 → K) :
    pad1_69 (gen% (Gen.N1_ts_comp_ts_tt_all c c3 fn) | a 3 3 | b 3 3)
      = rows69 (T4.stoTS c (T4.comp (T4.ofTS c (rm mS1 mT1 a)) (T4.ofTT (rm mT1 mT1 b)))) := by
  rw [stoTS_comp_TS_TT hc h2]; t4_eq hc
theorem N1_ts_dyad (hc : c * c = 2) (h2 : (2:K) ≠ 0) (s : Fin 6 → K) (x : Fin 9 → K) :
    pad1_69 (gen% (Gen.N1_ts_dyad_all c c3 fn) | s 3 | x 3)
      = rows69 (T4.stoTS c (T2.dyad (T2.ofSt c (rv mS1 s)) (T2.ofTens (rv mT1 x)))) := by
  rw [stoTS_dyad hc h2]; t4_eq hc
/-- `convertToT2toST2(T)`: symmetric part of the result, `(T_ijkl + T_jikl)/2` -/
theorem N1_ts_convert_from_t2tot2 (hc : c * c = 2) (h2 : (2:K) ≠ 0) (a : Fin 9 → Fin 9 → K) :
    pad1_69 (gen% (Gen.N1_ts_convert_from_t2tot2_all c c3 fn) | a 3 3)
      = rows69 (T4.stoTS c (T4.symL (T4.ofTT (rm mT1 mT1 a)))) := by
  t4_eq hc
/-- `dCdF(F) = ∂(FᵀF)/∂F` (`Lemmas.app_dCdF`: it maps `X` to `XᵀF + FᵀX`) -/
theorem N1_ts_dCdF (hc : c * c = 2) (h2 : (2:K) ≠ 0) (f : Fin 9 → K) :
    pad1_69 (gen% (Gen.N1_ts_dCdF_all c c3 fn) | f 3)
      = rows69 (rm mS1 mT1 (T4.stoTS c (T4.dCdF (T2.ofTens (rv mT1 f))))) := by
  t4_eq hc
/-- `dBdF(F) = ∂(FFᵀ)/∂F` (`Lemmas.app_dBdF`: it maps `X` to `XFᵀ + FXᵀ`) -/
theorem N1_ts_dBdF (hc : c * c = 2) (h2 : (2:K) ≠ 0) (f : Fin 9 → K) :
    pad1_69 (gen% (Gen.N1_ts_dBdF_all c c3 fn) | f 3)
      = rows69 (rm mS1 mT1 (T4.stoTS c (T4.dBdF (T2.ofTens (rv mT1 f))))) := by
  t4_eq hc

/-! ## st2tot2<1> -/
theorem N1_s2t_apply (hc : c * c = 2) (h2 : (2:K) ≠ 0) (a : Fin 9 → Fin 6 → K) (s : Fin 6 → K) :
    pad1_9 (gen% (Gen.N1_s2t_apply_all c c3 fn) | a 3 3 | s 3)
      = T2.tens (T4.app (T4.ofS2T c (rm mT1 mS1 a)) (T2.ofSt c (rv mS1 s))) := by
  rw [tens_app_S2T hc h2]; t4_eq hc
theorem N1_s2t_applyL (hc : c * c = 2) (h2 : (2:K) ≠ 0) (x : Fin 9 → K) (a : Fin 9 → Fin 6 → K) :
    pad1_6 (gen% (Gen.N1_s2t_applyL_all c c3 fn) | x 3 | a 3 3)
      = T2.st c (T4.appL (T2.ofTens (rv mT1 x)) (T4.ofS2T c (rm mT1 mS1 a))) := by
  rw [st_appL_S2T hc h2]; t4_eq hc
theorem N1_s2t_comp_tt_s2t (hc : c * c = 2) (h2 : (2:K) ≠ 0) (a : Fin 9 → Fin 9 → K) (b : Fin 9 → Fin 6 → K) :
    pad1_96 (gen% (Gen.N1_s2t_comp_tt_s2t_all c c3 fn) | a 3 3 | b 3 3)
      = rows96 (T4.stoS2T c (T4.comp (T4.ofTT (rm mT1 mT1 a)) (T4.ofS2T c (rm mT1 mS1 b)))) := by
  rw [stoS2T_comp_TT_S2T hc h2]; t4_eq hc
theorem N1_s2t_comp_s2t_st (hc : c * c = 2) (h2 : (2:K) ≠ 0) (a : Fin 9 → Fin 6 → K) (b : Fin 6 → Fin 6 → K) :
    pad1_96 (gen% (Gen.N1_s2t_comp_s2t_st_all c c3 fn) | a 3 3 | b 3 3)
      = rows96 (T4.stoS2T c (T4.comp (T4.ofS2T c (rm mT1 mS1 a)) (T4.ofST c (rm mS1 mS1 b)))) := by
  rw [stoS2T_comp_S2T_ST hc h2]; t4_eq hc
theorem N1_s2t_dyad (hc : c * c = 2) (h2 : (2:K) ≠ 0) (x : Fin 9 → K) (s : Fin 6 → K) :
    pad1_96 (gen% (Gen.N1_s2t_dyad_all c c3 fn) | x 3 | s 3)
      = rows96 (T4.stoS2T c (T2.dyad (T2.ofTens (rv mT1 x)) (T2.ofSt c (rv mS1 s)))) := by
  rw [stoS2T_dyad hc h2]; t4_eq hc
/-- `st2tot2::tpld(b)`: `∂(a·b)/∂a` for symmetric `a`, `(δ_ik b_lj + δ_il b_kj)/2` -/
theorem N1_s2t_tpld (hc : c * c = 2) (h2 : (2:K) ≠ 0) (s : Fin 6 → K) :
    pad1_96 (gen% (Gen.N1_s2t_tpld_all c c3 fn) | s 3)
      = rows96 (rm mT1 mS1 (T4.stoS2T c (T4.symR (T4.tpld (T2.ofSt c (rv mS1 s)))))) := by
  t4_eq hc
/-- `st2tot2::tprd(a)`: `∂(a·b)/∂b` for symmetric `b`, `(a_ik δ_jl + a_il δ_jk)/2` -/
theorem N1_s2t_tprd (hc : c * c = 2) (h2 : (2:K) ≠ 0) (s : Fin 6 → K) :
    pad1_96 (gen% (Gen.N1_s2t_tprd_all c c3 fn) | s 3)
      = rows96 (rm mT1 mS1 (T4.stoS2T c (T4.symR (T4.tprd (T2.ofSt c (rv mS1 s)))))) := by
  t4_eq hc

end TfelVerif.C02.Props
