/-
  C56 — Crystal slip-system descriptions are crystallographically valid.

  Theorems about the model of Model.lean:
  * families: for ANY integer family ⟨b⟩{n} with `b·n = 0` (Miller–Bravais incidence form for HCP) the
    family (orbit of the pair under the point group, vectors taken modulo sign) consists of orthogonal
    pairs, has no two elements equal up to sign, and covers every image of (b, n) under the group;
    the hexagonal operations keep `h+k+i = 0` and the Cartesian metric, and the four-index form
    `p·b` is four times the Cartesian scalar product of the plane normal with the lattice vector.
    That the real `SlipSystemsDescription::getSlipSystems` returns exactly this family is checked by
    exhaustive correspondence on all index families in [-3,3] (the property's own quantifier),
    checks/C56.py.
  * geometry over any linearly ordered field: normalised normal and direction are unit and orthogonal;
    the orientation tensor is `m ⊗ n` in TFEL storage order; the Schmid factor computed by the code
    is `(d·m)(d·n)` and lies in [-1/2, 1/2] for unit `d`, `n ⟂ m`.
  * interaction structure: the classification by symmetry is invariant under exchanging the two
    systems (`related_swap`), but the property's clause "rank(g1,g2) = rank(g2,g1)" is NOT a
    consequence: `fcc_glissile_pair_not_exchangeable` exhibits two FCC systems for which no cubic
    symmetry maps (g1,g2) to (g2,g1) (the documented non-symmetric 7-coefficient FCC matrix).
-/
import Mathlib.Algebra.Order.Field.Basic
import Mathlib.Algebra.Order.Ring.Abs
import Mathlib.Tactic.Ring
import Mathlib.Tactic.Linarith
import Mathlib.Tactic.FieldSimp
import Mathlib.Tactic.LinearCombination
import Mathlib.Tactic.Positivity
import TfelVerif.C56.Lemmas

namespace TfelVerif.C56.Props
open TfelVerif.C56

set_option linter.unusedSectionVars false

/-! ### families of slip systems -/

theorem mem_allP6 (p : P6) : p ∈ allP6 := by cases p <;> simp [allP6]
theorem mem_allBool (b : Bool) : b ∈ allBool := by cases b <;> simp [allBool]

theorem mem_family3 {b n : V3 Int} {s : Sys3} :
    s ∈ family3 b n ↔ ∃ p sx sy sz, s = ((b.act p sx sy sz).rep, (n.act p sx sy sz).rep) := by
  simp only [family3, mem_dedup, images3, List.mem_flatMap, List.mem_map]
  constructor
  · rintro ⟨p, -, sx, -, sy, -, sz, -, rfl⟩
    exact ⟨p, sx, sy, sz, rfl⟩
  · rintro ⟨p, sx, sy, sz, rfl⟩
    exact ⟨p, mem_allP6 p, sx, mem_allBool sx, sy, mem_allBool sy, sz, mem_allBool sz, rfl⟩

theorem mem_family4 {b n : V4 Int} {s : Sys4} :
    s ∈ family4 b n ↔ ∃ p e m, s = ((b.act p e m).rep, (n.act p e m).rep) := by
  simp only [family4, mem_dedup, images4, List.mem_flatMap, List.mem_map]
  constructor
  · rintro ⟨p, -, e, -, m, -, rfl⟩
    exact ⟨p, e, m, rfl⟩
  · rintro ⟨p, e, m, rfl⟩
    exact ⟨p, mem_allP6 p, e, mem_allBool e, m, mem_allBool m, rfl⟩

theorem rep3_dot_zero {a b : V3 Int} (h : a.dot b = 0) : a.rep.dot b.rep = 0 := by
  rcases a.rep_eq_or with ha | ha <;> rcases b.rep_eq_or with hb | hb <;> rw [ha, hb] <;>
    simp [V3.neg_dot, V3.dot_neg, h]

theorem rep4_dot_zero {a b : V4 Int} (h : a.dot b = 0) : a.rep.dot b.rep = 0 := by
  rcases a.rep_eq_or with ha | ha <;> rcases b.rep_eq_or with hb | hb <;> rw [ha, hb] <;>
    simp [V4.neg_dot, V4.dot_neg, h]

/-- cubic: every system of the family of an orthogonal pair is an orthogonal pair -/
theorem family3_orthogonal {b n : V3 Int} (h : b.dot n = 0) :
    ∀ s ∈ family3 b n, s.1.dot s.2 = 0 := by
  intro s hs
  obtain ⟨p, sx, sy, sz, rfl⟩ := mem_family3.1 hs
  exact rep3_dot_zero (by rw [V3.act_dot]; exact h)

/-- hexagonal: the Miller–Bravais incidence `b·n = 0` is kept by every element of the family -/
theorem family4_orthogonal {b n : V4 Int} (h : b.dot n = 0) :
    ∀ s ∈ family4 b n, s.1.dot s.2 = 0 := by
  intro s hs
  obtain ⟨p, e, m, rfl⟩ := mem_family4.1 hs
  exact rep4_dot_zero (by rw [V4.act_dot]; exact h)

/-- cubic: no two systems of the family are equal up to the sign of each vector (in particular up to an
overall sign), and the list has no repetition -/
theorem family3_distinct_mod_sign (b n : V3 Int) :
    (family3 b n).Nodup ∧ ∀ s ∈ family3 b n, ∀ t ∈ family3 b n,
      (s.1 = t.1 ∨ s.1 = t.1.neg) → (s.2 = t.2 ∨ s.2 = t.2.neg) → s = t := by
  refine ⟨nodup_dedup _, ?_⟩
  intro s hs t ht h1 h2
  obtain ⟨p, sx, sy, sz, rfl⟩ := mem_family3.1 hs
  obtain ⟨q, tx, ty, tz, rfl⟩ := mem_family3.1 ht
  have e1 : (b.act p sx sy sz).rep = (b.act q tx ty tz).rep := by
    rcases h1 with h | h
    · exact h
    · exact V3.rep_eq_neg_rep h
  have e2 : (n.act p sx sy sz).rep = (n.act q tx ty tz).rep := by
    rcases h2 with h | h
    · exact h
    · exact V3.rep_eq_neg_rep h
  exact Prod.ext e1 e2

theorem family4_distinct_mod_sign (b n : V4 Int) :
    (family4 b n).Nodup ∧ ∀ s ∈ family4 b n, ∀ t ∈ family4 b n,
      (s.1 = t.1 ∨ s.1 = t.1.neg) → (s.2 = t.2 ∨ s.2 = t.2.neg) → s = t := by
  refine ⟨nodup_dedup _, ?_⟩
  intro s hs t ht h1 h2
  obtain ⟨p, e, m, rfl⟩ := mem_family4.1 hs
  obtain ⟨q, e', m', rfl⟩ := mem_family4.1 ht
  have e1 : (b.act p e m).rep = (b.act q e' m').rep := by
    rcases h1 with h | h
    · exact h
    · exact V4.rep_eq_neg_rep h
  have e2 : (n.act p e m).rep = (n.act q e' m').rep := by
    rcases h2 with h | h
    · exact h
    · exact V4.rep_eq_neg_rep h
  exact Prod.ext e1 e2

/-- cubic: the family is complete — every image of (b, n) under a signed permutation is, up to the sign
of each vector, a system of the family -/
theorem family3_covers (b n : V3 Int) (p : P6) (sx sy sz : Bool) :
    ∃ s ∈ family3 b n, (b.act p sx sy sz = s.1 ∨ b.act p sx sy sz = s.1.neg) ∧
      (n.act p sx sy sz = s.2 ∨ n.act p sx sy sz = s.2.neg) := by
  refine ⟨_, mem_family3.2 ⟨p, sx, sy, sz, rfl⟩, ?_, ?_⟩
  · rcases (b.act p sx sy sz).rep_eq_or with h | h
    · exact Or.inl h.symm
    · exact Or.inr (by rw [h, V3.neg_neg])
  · rcases (n.act p sx sy sz).rep_eq_or with h | h
    · exact Or.inl h.symm
    · exact Or.inr (by rw [h, V3.neg_neg])

theorem family4_covers (b n : V4 Int) (p : P6) (e m : Bool) :
    ∃ s ∈ family4 b n, (b.act p e m = s.1 ∨ b.act p e m = s.1.neg) ∧
      (n.act p e m = s.2 ∨ n.act p e m = s.2.neg) := by
  refine ⟨_, mem_family4.2 ⟨p, e, m, rfl⟩, ?_, ?_⟩
  · rcases (b.act p e m).rep_eq_or with h | h
    · exact Or.inl h.symm
    · exact Or.inr (by rw [h, V4.neg_neg])
  · rcases (n.act p e m).rep_eq_or with h | h
    · exact Or.inl h.symm
    · exact Or.inr (by rw [h, V4.neg_neg])

/-- and nothing else: every system of the family is, up to signs, an image of (b, n) -/
theorem family3_sound (b n : V3 Int) : ∀ s ∈ family3 b n, ∃ p sx sy sz,
    (s.1 = b.act p sx sy sz ∨ s.1 = (b.act p sx sy sz).neg) ∧
    (s.2 = n.act p sx sy sz ∨ s.2 = (n.act p sx sy sz).neg) := by
  intro s hs
  obtain ⟨p, sx, sy, sz, rfl⟩ := mem_family3.1 hs
  exact ⟨p, sx, sy, sz, (b.act p sx sy sz).rep_eq_or, (n.act p sx sy sz).rep_eq_or⟩

theorem family4_sound (b n : V4 Int) : ∀ s ∈ family4 b n, ∃ p e m,
    (s.1 = b.act p e m ∨ s.1 = (b.act p e m).neg) ∧
    (s.2 = n.act p e m ∨ s.2 = (n.act p e m).neg) := by
  intro s hs
  obtain ⟨p, e, m, rfl⟩ := mem_family4.1 hs
  exact ⟨p, e, m, (b.act p e m).rep_eq_or, (n.act p e m).rep_eq_or⟩

/-- the hexagonal operations map Miller–Bravais indices (`h+k+i = 0`) to Miller–Bravais indices -/
theorem hexagonal_keeps_constraint (p : P6) (e m : Bool) (a : V4 Int) (h : a.h + a.k + a.i = 0) :
    (a.act p e m).h + (a.act p e m).k + (a.act p e m).i = 0 :=
  V4.act_sum p e m a h

-- non-vacuity: the usual families
example : (family3 ⟨1, -1, 0⟩ ⟨1, 1, 1⟩).length = 12 := by decide +kernel
example : (family4 ⟨-1, -1, 2, 3⟩ ⟨1, 1, -2, 2⟩).length = 6 := by decide +kernel
example : (family4 ⟨1, 1, -2, 0⟩ ⟨0, 0, 0, 1⟩).length = 3 := by decide +kernel

/-! ### the hexagonal lattice of NUMODIS (HCP.cxx) -/

section lattice
variable {K : Type} [Field K] [LinearOrder K] [IsStrictOrderedRing K]

/-- Cartesian coordinates of `h a1 + k a2 + i a3 + l c` with `a1 = (√3/2, 1/2, 0)`, `a2 = (-√3/2, 1/2, 0)`,
`a3 = (0, -1, 0)`, `c = (0, 0, r)` (`_alattice`, `_blattice`) -/
def latticeA (s3 r : K) (v : V4 K) : V3 K :=
  ⟨v.h * (s3 / 2) + v.k * (-s3 / 2), v.h * (1 / 2) + v.k * (1 / 2) + v.i * (-1), v.l * r⟩

/-- Cartesian coordinates of the plane normal `h a1/6 + k a2/6 + i a3/6 + l (0, 0, 1/(4 r))` (`_plattice`) -/
def latticeP (s3 r : K) (p : V4 K) : V3 K :=
  ⟨p.h * (s3 / 12) + p.k * (-s3 / 12), p.h * (1 / 12) + p.k * (1 / 12) + p.i * (-1 / 6), p.l * (1 / (4 * r))⟩

/-- for a Miller–Bravais direction (`h+k+i = 0`) the four-index form used by `HCP::ScalProduct` is four
times the Cartesian scalar product of the plane normal with the direction: `p·b = 0` iff orthogonal -/
theorem hcp_incidence (s3 r : K) (hs : s3 * s3 = 3) (hr : r ≠ 0) (p b : V4 K)
    (hb : b.h + b.k + b.i = 0) :
    (latticeP s3 r p).dot (latticeA s3 r b) = p.dot b / 4 := by
  have hi : b.i = -b.h - b.k := by linear_combination hb
  have hr' : 1 / (4 * r) * r = 1 / 4 := by field_simp
  simp only [latticeP, latticeA, V3.dot, V4.dot, hi]
  linear_combination (p.h - p.k) * (b.h - b.k) / 24 * hs + p.l * b.l * hr'

/-- Cartesian metric of lattice vectors in Miller–Bravais indices (the polynomial `dotAA` of Model.lean) -/
theorem hcp_metric (s3 r : K) (hs : s3 * s3 = 3) (x y : V4 K) :
    (latticeA s3 r x).dot (latticeA s3 r y) =
      (x.h * y.h + x.k * y.k + x.i * y.i) -
        (x.h * (y.k + y.i) + x.k * (y.h + y.i) + x.i * (y.h + y.k)) / 2 + r * r * (x.l * y.l) := by
  simp only [latticeA, V3.dot]
  linear_combination (x.h * y.h - x.k * y.h - x.h * y.k + x.k * y.k) / 4 * hs

/-- the 24 hexagonal operations are isometries of the lattice: they keep the Cartesian metric -/
theorem hcp_operations_isometric (s3 r : K) (hs : s3 * s3 = 3) (p : P6) (e m : Bool) (x y : V4 K) :
    (latticeA s3 r (x.act p e m)).dot (latticeA s3 r (y.act p e m)) =
      (latticeA s3 r x).dot (latticeA s3 r y) := by
  rw [hcp_metric s3 r hs, hcp_metric s3 r hs]
  cases p <;> cases e <;> cases m <;>
    simp only [V4.act, V3.perm, sgn, if_true, if_false, Bool.false_eq_true] <;> ring

end lattice

/-! ### geometry: unit vectors, orientation tensor, Schmid factor -/

section geometry
variable {K : Type} [Field K] [LinearOrder K] [IsStrictOrderedRing K]

def scale (c : K) (v : V3 K) : V3 K := ⟨c * v.x, c * v.y, c * v.z⟩

/-- `Vect3::Normalize`: dividing by a square root of the squared length gives a unit vector -/
theorem normalize_unit (v : V3 K) (s : K) (hs : s * s = v.dot v) (h0 : s ≠ 0) :
    (scale (1 / s) v).dot (scale (1 / s) v) = 1 := by
  simp only [scale, V3.dot] at hs ⊢
  field_simp
  linear_combination -hs

/-- plane normal and slip direction of a system with `n·b = 0` stay orthogonal after normalisation -/
theorem normalize_orthogonal (n b : V3 K) (s t : K) (h : n.dot b = 0) :
    (scale (1 / s) n).dot (scale (1 / t) b) = 0 := by
  simp only [scale, V3.dot] at h ⊢
  linear_combination (1 / s) * (1 / t) * h

/-- `getOrientationTensor(n, m)` is `m ⊗ n` in the TFEL storage order XX YY ZZ XY YX XZ ZX YZ ZY:
component (i,j) is `m_i n_j` (slip direction ⊗ plane normal) -/
theorem orientationTensor_is_dyadic (n m : V3 K) :
    orientationTensor n m =
      [m.x * n.x, m.y * n.y, m.z * n.z, m.x * n.y, m.y * n.x, m.x * n.z, m.z * n.x, m.y * n.z, m.z * n.y] := by
  simp only [orientationTensor, mul_comm]

/-- the contraction computed by `getSchmidFactors` -/
theorem schmid_is_contraction (d n m : V3 K) :
    contract9 (loadingTensor d) (orientationTensor n m) = some (schmid d n m) := rfl

/-- ... is `(d·m)(d·n)` -/
theorem schmid_eq (d n m : V3 K) : schmid d n m = d.dot m * d.dot n := by
  simp only [schmid, V3.dot]; ring

/-- Bessel: the components of a vector along two orthonormal vectors -/
theorem bessel2 (d n m : V3 K) (hn : n.dot n = 1) (hm : m.dot m = 1) (hnm : n.dot m = 0) :
    (d.dot n) ^ 2 + (d.dot m) ^ 2 ≤ d.dot d := by
  have key : d.dot d - ((d.dot n) ^ 2 + (d.dot m) ^ 2) =
      (d.x - d.dot n * n.x - d.dot m * m.x) ^ 2 + (d.y - d.dot n * n.y - d.dot m * m.y) ^ 2 +
        (d.z - d.dot n * n.z - d.dot m * m.z) ^ 2 := by
    simp only [V3.dot] at hn hm hnm ⊢
    linear_combination
      (-(d.x * n.x + d.y * n.y + d.z * n.z) ^ 2) * hn + (-(d.x * m.x + d.y * m.y + d.z * m.z) ^ 2) * hm +
        (-2 * (d.x * n.x + d.y * n.y + d.z * n.z) * (d.x * m.x + d.y * m.y + d.z * m.z)) * hnm
  have : 0 ≤ d.dot d - ((d.dot n) ^ 2 + (d.dot m) ^ 2) := by rw [key]; positivity
  linarith

/-- Schmid factors lie in [-1/2, 1/2]: unit loading direction, unit normal orthogonal to unit slip
direction -/
theorem schmid_bound (d n m : V3 K) (hd : d.dot d = 1) (hn : n.dot n = 1) (hm : m.dot m = 1)
    (hnm : n.dot m = 0) : |schmid d n m| ≤ 1 / 2 := by
  rw [schmid_eq]
  have hb := bessel2 d n m hn hm hnm
  rw [hd] at hb
  have h1 : 0 ≤ (d.dot m - d.dot n) ^ 2 := sq_nonneg _
  have h2 : 0 ≤ (d.dot m + d.dot n) ^ 2 := sq_nonneg _
  rw [abs_le]
  constructor <;> nlinarith

-- non-vacuity: the hypotheses are satisfiable and the bound is attained
example : ∃ d n m : V3 ℚ, d.dot d = 1 ∧ n.dot n = 1 ∧ m.dot m = 1 ∧ n.dot m = 0 ∧ schmid d n m = 12 / 25 :=
  ⟨⟨3 / 5, 4 / 5, 0⟩, ⟨1, 0, 0⟩, ⟨0, 1, 0⟩, by simp [V3.dot, schmid]; norm_num⟩

end geometry

/-! ### interaction-matrix structure -/

/-
  Full statement of the property's last clause (NOT provable — false for the model and for the code):
    rank (g1, g2) = rank (g2, g1)   for all systems g1 g2 of a description,
  i.e. `related3 g1 g2 g2 g1`. What holds is the invariance of the classification under exchange:
-/
/-- interactions of the same rank stay of the same rank when both pairs are exchanged -/
theorem related_swap_partial (g1 g2 h1 h2 : Sys3) (h : related3 g1 g2 h1 h2) : related3 g2 g1 h2 h1 := by
  obtain ⟨p, hp, sx, hx, sy, hy, sz, hz, a, b⟩ := h
  exact ⟨p, hp, sx, hx, sy, hy, sz, hz, b, a⟩

/-- FCC, ⟨110⟩{111}: no cubic operation exchanges [0 1 -1](1 1 1) and [1 -1 0](1 1 -1) — the glissile
interaction, which gets two different ranks (G0 / G60) in the 7-coefficient FCC matrix -/
theorem fcc_glissile_pair_not_exchangeable :
    ¬ related3 (⟨0, 1, -1⟩, ⟨1, 1, 1⟩) (⟨1, -1, 0⟩, ⟨1, 1, -1⟩) (⟨1, -1, 0⟩, ⟨1, 1, -1⟩) (⟨0, 1, -1⟩, ⟨1, 1, 1⟩) := by
  decide

end TfelVerif.C56.Props
