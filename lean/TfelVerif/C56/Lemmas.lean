/-
  C56 — helper lemmas: `dedup`, representatives modulo sign, invariance of the scalar products under
  the point-group operations.
-/
import Mathlib.Algebra.Order.Field.Basic
import Mathlib.Tactic.Ring
import Mathlib.Tactic.Linarith
import Mathlib.Tactic.LinearCombination
import Mathlib.Tactic.SplitIfs
import TfelVerif.C56.Model

namespace TfelVerif.C56

/-! ### dedup -/

theorem mem_dedup {β : Type} [DecidableEq β] {x : β} {l : List β} : x ∈ dedup l ↔ x ∈ l := by
  induction l with
  | nil => simp [dedup]
  | cons a l ih =>
    simp only [dedup]
    split
    · rename_i h
      rw [ih, List.mem_cons]
      constructor
      · exact Or.inr
      · rintro (rfl | h')
        · exact ih.1 h
        · exact h'
    · simp [List.mem_cons, ih]

theorem nodup_dedup {β : Type} [DecidableEq β] (l : List β) : (dedup l).Nodup := by
  induction l with
  | nil => simp [dedup]
  | cons a l ih =>
    simp only [dedup]
    split
    · exact ih
    · rename_i h
      exact List.nodup_cons.2 ⟨h, ih⟩

/-! ### scalar products and the group operations (any commutative ring) -/

section ring
variable {K : Type} [CommRing K]

theorem sgn_mul_sgn (s : Bool) (a b : K) : sgn s a * sgn s b = a * b := by
  cases s <;> simp [sgn]

theorem V3.act_dot (p : P6) (sx sy sz : Bool) (a b : V3 K) :
    (a.act p sx sy sz).dot (b.act p sx sy sz) = a.dot b := by
  simp only [V3.act, V3.dot, sgn_mul_sgn]
  cases p <;> simp only [V3.perm] <;> ring

theorem V4.act_dot (p : P6) (e m : Bool) (a b : V4 K) :
    (a.act p e m).dot (b.act p e m) = a.dot b := by
  simp only [V4.act, V4.dot, sgn_mul_sgn]
  cases p <;> simp only [V3.perm] <;> ring

theorem V3.neg_dot (a b : V3 K) : a.neg.dot b = -(a.dot b) := by
  simp only [V3.neg, V3.dot]; ring
theorem V3.dot_neg (a b : V3 K) : a.dot b.neg = -(a.dot b) := by
  simp only [V3.neg, V3.dot]; ring
theorem V4.neg_dot (a b : V4 K) : a.neg.dot b = -(a.dot b) := by
  simp only [V4.neg, V4.dot]; ring
theorem V4.dot_neg (a b : V4 K) : a.dot b.neg = -(a.dot b) := by
  simp only [V4.neg, V4.dot]; ring

/-- the hexagonal operations keep the Miller–Bravais constraint `h + k + i = 0` -/
theorem V4.act_sum (p : P6) (e m : Bool) (a : V4 K) (h : a.h + a.k + a.i = 0) :
    (a.act p e m).h + (a.act p e m).k + (a.act p e m).i = 0 := by
  cases p <;> cases e <;> simp only [V4.act, V3.perm, sgn, if_true, if_false, Bool.false_eq_true] <;>
    first | linear_combination h | linear_combination -h

end ring

/-! ### representatives modulo sign -/

theorem V3.neg_neg (a : V3 Int) : a.neg.neg = a := by
  cases a; simp [V3.neg]
theorem V4.neg_neg (a : V4 Int) : a.neg.neg = a := by
  cases a; simp [V4.neg]

theorem V3.rep_eq_or (a : V3 Int) : a.rep = a ∨ a.rep = a.neg := by
  unfold V3.rep; split_ifs <;> simp

theorem V4.rep_eq_or (a : V4 Int) : a.rep = a ∨ a.rep = a.neg := by
  unfold V4.rep; split_ifs <;> simp

theorem V3.not_lexNeg_both {a : V3 Int} (h1 : ¬ a.lexNeg) (h2 : ¬ a.neg.lexNeg) : a = ⟨0, 0, 0⟩ := by
  obtain ⟨x, y, z⟩ := a
  simp only [V3.lexNeg, V3.neg] at h1 h2
  simp only [V3.mk.injEq]
  omega

theorem V3.lexNeg_not_both {a : V3 Int} (h1 : a.lexNeg) (h2 : a.neg.lexNeg) : False := by
  obtain ⟨x, y, z⟩ := a
  simp only [V3.lexNeg, V3.neg] at h1 h2
  omega

theorem V4.not_lexNeg_both {a : V4 Int} (h1 : ¬ a.lexNeg) (h2 : ¬ a.neg.lexNeg) : a = ⟨0, 0, 0, 0⟩ := by
  obtain ⟨x, y, z, t⟩ := a
  simp only [V4.lexNeg, V4.neg] at h1 h2
  simp only [V4.mk.injEq]
  omega

theorem V4.lexNeg_not_both {a : V4 Int} (h1 : a.lexNeg) (h2 : a.neg.lexNeg) : False := by
  obtain ⟨x, y, z, t⟩ := a
  simp only [V4.lexNeg, V4.neg] at h1 h2
  omega

/-- a representative is not lexicographically negative -/
theorem V3.rep_canonical (a : V3 Int) : ¬ a.rep.lexNeg := by
  unfold V3.rep
  split_ifs with h
  · exact fun h2 => V3.lexNeg_not_both h h2
  · exact h

theorem V4.rep_canonical (a : V4 Int) : ¬ a.rep.lexNeg := by
  unfold V4.rep
  split_ifs with h
  · exact fun h2 => V4.lexNeg_not_both h h2
  · exact h

/-- opposite vectors have the same representative -/
theorem V3.rep_neg (a : V3 Int) : a.neg.rep = a.rep := by
  unfold V3.rep
  split_ifs with h1 h2 h2
  · exact (V3.lexNeg_not_both h2 h1).elim
  · exact V3.neg_neg a
  · rfl
  · have := V3.not_lexNeg_both h2 h1
    subst this; rfl

theorem V4.rep_neg (a : V4 Int) : a.neg.rep = a.rep := by
  unfold V4.rep
  split_ifs with h1 h2 h2
  · exact (V4.lexNeg_not_both h2 h1).elim
  · exact V4.neg_neg a
  · rfl
  · have := V4.not_lexNeg_both h2 h1
    subst this; rfl

/-- a representative that is the opposite of a representative is equal to it (both are zero) -/
theorem V3.rep_eq_neg_rep {a b : V3 Int} (h : a.rep = b.rep.neg) : a.rep = b.rep := by
  have h1 := V3.rep_canonical b
  have h2 : ¬ b.rep.neg.lexNeg := h ▸ V3.rep_canonical a
  have := V3.not_lexNeg_both h1 h2
  rw [h, this]; rfl

theorem V4.rep_eq_neg_rep {a b : V4 Int} (h : a.rep = b.rep.neg) : a.rep = b.rep := by
  have h1 := V4.rep_canonical b
  have h2 : ¬ b.rep.neg.lexNeg := h ▸ V4.rep_canonical a
  have := V4.not_lexNeg_both h1 h2
  rw [h, this]; rfl

end TfelVerif.C56
