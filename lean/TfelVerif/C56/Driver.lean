/- line-protocol driver of the C56 model (core only):
     orbit3 bx by bz nx ny nz          -> "bad" | systems "bx,by,bz|nx,ny,nz;..." (family modulo sign)
     orbit4 bh bk bi bl nh nk ni nl    -> same with four indices
     tensor nx ny nz mx my mz          -> the nine components of getOrientationTensor(n, m)
     schmid3 dx dy dz bx by bz nx ny nz -> "N DD BB NN": S = N / (DD * sqrt(BB) * sqrt(NN))
     schmid4 (4 d) (4 b) (4 n)         -> same (rationals p/q) with the hexagonal lattice
     ranks3 (bx by bz nx ny nz)*        -> rank of every ordered pair of the listed systems, row-major
     ranks4 (8 indices)*                -> same for four indices -/
import TfelVerif.C56.Model
open TfelVerif.C56

def showV3 (v : V3 Int) : String := s!"{v.x},{v.y},{v.z}"
def showV4 (v : V4 Int) : String := s!"{v.h},{v.k},{v.i},{v.l}"
def showRat (q : Rat) : String := s!"{q.num}/{q.den}"

def ints (ws : List String) : Option (List Int) := ws.mapM String.toInt?

def chunk3 : List Int → Option (List Sys3)
  | [] => some []
  | bx :: by_ :: bz :: nx :: ny :: nz :: r => (chunk3 r).map fun l => ((⟨bx, by_, bz⟩, ⟨nx, ny, nz⟩) :: l)
  | _ => none

def chunk4 : List Int → Option (List Sys4)
  | [] => some []
  | bh :: bk :: bi :: bl :: nh :: nk :: ni :: nl :: r =>
    (chunk4 r).map fun l => ((⟨bh, bk, bi, bl⟩, ⟨nh, nk, ni, nl⟩) :: l)
  | _ => none

def answer (line : String) : String :=
  match (line.trimAscii.toString.splitOn " ").filter (· ≠ "") with
  | op :: args =>
    match op, ints args with
    | "orbit3", some [bx, by_, bz, nx, ny, nz] =>
      let b : V3 Int := ⟨bx, by_, bz⟩
      let n : V3 Int := ⟨nx, ny, nz⟩
      if wellDefined3 b n then
        ";".intercalate ((family3 b n).map fun s => showV3 s.1 ++ "|" ++ showV3 s.2)
      else "bad"
    | "orbit4", some [bh, bk, bi, bl, nh, nk, ni, nl] =>
      let b : V4 Int := ⟨bh, bk, bi, bl⟩
      let n : V4 Int := ⟨nh, nk, ni, nl⟩
      if wellDefined4 b n then
        ";".intercalate ((family4 b n).map fun s => showV4 s.1 ++ "|" ++ showV4 s.2)
      else "bad"
    | "tensor", some [nx, ny, nz, mx, my, mz] =>
      " ".intercalate ((orientationTensor (⟨nx, ny, nz⟩ : V3 Int) ⟨mx, my, mz⟩).map toString)
    | "schmid3", some [dx, dy, dz, bx, by_, bz, nx, ny, nz] =>
      let d : V3 Int := ⟨dx, dy, dz⟩
      let b : V3 Int := ⟨bx, by_, bz⟩
      let n : V3 Int := ⟨nx, ny, nz⟩
      s!"{schmid d n b}/1 {d.dot d}/1 {b.dot b}/1 {n.dot n}/1"
    | "schmid4", some [dh, dk, di, dl, bh, bk, bi, bl, nh, nk, ni, nl] =>
      let d : V4 Int := ⟨dh, dk, di, dl⟩
      let b : V4 Int := ⟨bh, bk, bi, bl⟩
      let n : V4 Int := ⟨nh, nk, ni, nl⟩
      s!"{showRat (dotAA d b * dotPA n d)} {showRat (dotAA d d)} {showRat (dotAA b b)} {showRat (dotPP n n)}"
    | "ranks3", some l =>
      match chunk3 l with
      | some gs => " ".intercalate ((rankMatrix3 gs).map toString)
      | none => "bad-op"
    | "ranks4", some l =>
      match chunk4 l with
      | some gs => " ".intercalate ((rankMatrix4 gs).map toString)
      | none => "bad-op"
    | _, _ => "bad-op"
  | [] => "bad-op"

partial def loop (h : IO.FS.Stream) : IO Unit := do
  let line ← h.getLine
  if line.isEmpty then return ()
  IO.println (answer line)
  loop h

def main : IO Unit := do loop (← IO.getStdin)
