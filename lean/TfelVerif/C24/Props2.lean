/-
  C24 — 2D (plane strain / plane stress / axisymmetry: `stensor<2u>`, 4 components). Property theorems only.
  Same units and conventions as in 3D (Props3B, Props3S, Props3T, Props3TE); the eigenvector matrix is
  `M = [[m00, m01, 0], [m10, m11, 0], [0, 0, 1]]` (only the in-plane block is asked to the oracle, the third
  eigenvalue is `C_zz = F_zz²`, exactly as the shipped 2D wrapper does), `F = [[F0, F3, 0], [F4, F1, 0], [0, 0, F2]]`.
-/
import TfelVerif.C24.Lemmas
import TfelVerif.C24.Gen2B
import TfelVerif.C24.Gen2S
import TfelVerif.C24.Gen2TL
import TfelVerif.C24.Gen2TE

namespace TfelVerif.C24.Props2
open TfelVerif TfelVerif.Mandel TfelVerif.C24
set_option linter.unusedVariables false
set_option linter.unusedSimpArgs false
set_option linter.unusedSectionVars false
set_option maxRecDepth 100000

variable {K : Type} [Field K] [CharZero K] (c c3 : K) (fn : Fns K)

/-- first divided differences, in-plane pair only (the axis never interacts with the plane) -/
def theta2 (l0 l1 e0 e1 d0 d1 d2 : K) : M3 K :=
  ⟨d0, dd1 l0 l1 e0 e1, 0, dd1 l1 l0 e1 e0, d1, 0, 0, 0, d2⟩

/-! ## constructor, Lagrangian setting -/
section L
variable (vp0 vp1 vp2 m00 m01 m10 m11 F0 F1 F2 F3 F4 : K)
abbrev Mo : M3 K := ⟨m00, m01, 0, m10, m11, 0, 0, 0, 1⟩
abbrev Fo : M3 K := M3.ofTens [F0, F1, F2, F3, F4]

theorem N2_solver_input (hc : c * c = 2) :
    [Gen2B.N2_L_builder_C0 c c3 fn vp0 vp1 vp2 m00 m01 m10 m11 F0 F1 F2 F3 F4, Gen2B.N2_L_builder_C1 c c3 fn vp0 vp1 vp2 m00 m01 m10 m11 F0 F1 F2 F3 F4, Gen2B.N2_L_builder_C2 c c3 fn vp0 vp1 vp2 m00 m01 m10 m11 F0 F1 F2 F3 F4, Gen2B.N2_L_builder_C3 c c3 fn vp0 vp1 vp2 m00 m01 m10 m11 F0 F1 F2 F3 F4]
    = M3.mandel2 c ((Fo F0 F1 F2 F3 F4).transpose * Fo F0 F1 F2 F3 F4) := by
  simp only [gen_simp, Fo, M3.ofTens, M3.mandel2, M3.mul_def, M3.mul, M3.transpose, List.cons.injEq, and_true]
  repeat' apply And.intro
  all_goals c24_ring hc

/-- the third eigenvalue is `C_zz = F_zz²` (passed through by the 2D solver wrapper) -/
theorem N2_builder_e :
    [Gen2B.N2_L_builder_e0 c c3 fn vp0 vp1 vp2 m00 m01 m10 m11 F0 F1 F2 F3 F4, Gen2B.N2_L_builder_e1 c c3 fn vp0 vp1 vp2 m00 m01 m10 m11 F0 F1 F2 F3 F4, Gen2B.N2_L_builder_e2 c c3 fn vp0 vp1 vp2 m00 m01 m10 m11 F0 F1 F2 F3 F4, Gen2B.N2_L_builder_vpo0 c c3 fn vp0 vp1 vp2 m00 m01 m10 m11 F0 F1 F2 F3 F4, Gen2B.N2_L_builder_vpo1 c c3 fn vp0 vp1 vp2 m00 m01 m10 m11 F0 F1 F2 F3 F4, Gen2B.N2_L_builder_vpo2 c c3 fn vp0 vp1 vp2 m00 m01 m10 m11 F0 F1 F2 F3 F4]
    = [fn.call "log1p" [vp0 - 1] / 2, fn.call "log1p" [vp1 - 1] / 2, fn.call "log1p" [F2 * F2 - 1] / 2,
       vp0, vp1, F2 * F2] := by
  simp only [gen_simp]

theorem N2_hencky (hc : c * c = 2) :
    [Gen2B.N2_L_builder_el0 c c3 fn vp0 vp1 vp2 m00 m01 m10 m11 F0 F1 F2 F3 F4, Gen2B.N2_L_builder_el1 c c3 fn vp0 vp1 vp2 m00 m01 m10 m11 F0 F1 F2 F3 F4, Gen2B.N2_L_builder_el2 c c3 fn vp0 vp1 vp2 m00 m01 m10 m11 F0 F1 F2 F3 F4, Gen2B.N2_L_builder_el3 c c3 fn vp0 vp1 vp2 m00 m01 m10 m11 F0 F1 F2 F3 F4]
    = M3.mandel2 c (iso (Mo m00 m01 m10 m11) (Gen2B.N2_L_builder_e0 c c3 fn vp0 vp1 vp2 m00 m01 m10 m11 F0 F1 F2 F3 F4) (Gen2B.N2_L_builder_e1 c c3 fn vp0 vp1 vp2 m00 m01 m10 m11 F0 F1 F2 F3 F4) (Gen2B.N2_L_builder_e2 c c3 fn vp0 vp1 vp2 m00 m01 m10 m11 F0 F1 F2 F3 F4)) := by
  simp only [gen_simp, Mo, iso, M3.diag, M3.mandel2, M3.mul_def, M3.mul, M3.transpose, List.cons.injEq, and_true]
  repeat' apply And.intro
  all_goals c24_ring hc

theorem N2_hencky_abaqus (hc : c * c = 2) :
    [Gen2B.N2_L_builder_ea0 c c3 fn vp0 vp1 vp2 m00 m01 m10 m11 F0 F1 F2 F3 F4, Gen2B.N2_L_builder_ea1 c c3 fn vp0 vp1 vp2 m00 m01 m10 m11 F0 F1 F2 F3 F4, Gen2B.N2_L_builder_ea2 c c3 fn vp0 vp1 vp2 m00 m01 m10 m11 F0 F1 F2 F3 F4, Gen2B.N2_L_builder_ea3 c c3 fn vp0 vp1 vp2 m00 m01 m10 m11 F0 F1 F2 F3 F4]
    = (let A := iso (Mo m00 m01 m10 m11) (Gen2B.N2_L_builder_e0 c c3 fn vp0 vp1 vp2 m00 m01 m10 m11 F0 F1 F2 F3 F4) (Gen2B.N2_L_builder_e1 c c3 fn vp0 vp1 vp2 m00 m01 m10 m11 F0 F1 F2 F3 F4) (Gen2B.N2_L_builder_e2 c c3 fn vp0 vp1 vp2 m00 m01 m10 m11 F0 F1 F2 F3 F4)
       [A.a00, A.a11, A.a22, 2 * A.a01]) := by
  simp only [gen_simp, Mo, iso, M3.diag, M3.mul_def, M3.mul, M3.transpose, List.cons.injEq, and_true]
  repeat' apply And.intro
  all_goals c24_ring hc

abbrev ThL : M3 K :=
  theta2 vp0 vp1 (Gen2B.N2_L_builder_e0 c c3 fn vp0 vp1 vp2 m00 m01 m10 m11 F0 F1 F2 F3 F4) (Gen2B.N2_L_builder_e1 c c3 fn vp0 vp1 vp2 m00 m01 m10 m11 F0 F1 F2 F3 F4) (1 / (2 * vp0)) (1 / (2 * vp1)) (1 / (2 * (F2 * F2)))

theorem N2_L_p_col0 (hc : c * c = 2) :
    [Gen2B.N2_L_builder_p0_0 c c3 fn vp0 vp1 vp2 m00 m01 m10 m11 F0 F1 F2 F3 F4, Gen2B.N2_L_builder_p1_0 c c3 fn vp0 vp1 vp2 m00 m01 m10 m11 F0 F1 F2 F3 F4, Gen2B.N2_L_builder_p2_0 c c3 fn vp0 vp1 vp2 m00 m01 m10 m11 F0 F1 F2 F3 F4, Gen2B.N2_L_builder_p3_0 c c3 fn vp0 vp1 vp2 m00 m01 m10 m11 F0 F1 F2 F3 F4]
    = M3.mandel2 c (DK (Mo m00 m01 m10 m11) (ThL c c3 fn vp0 vp1 vp2 m00 m01 m10 m11 F0 F1 F2 F3 F4) (E c 0)) := by
  have hi : c⁻¹ = c / 2 := c_inv hc two_ne_zero
  simp only [gen_simp, ThL, Mo, DK, eig, theta2, dd1, hadamard, E, M3.sym, M3.mul_def, M3.mul, M3.transpose, M3.mandel2,
    List.cons.injEq, and_true, one_div, div_eq_mul_inv, mul_inv, inv_sub_swap vp0 vp1, hi]
  generalize fn.call "log1p" [vp0 - 1] = l0
  generalize fn.call "log1p" [vp1 - 1] = l1
  generalize (vp0 - vp1)⁻¹ = r01
  generalize vp0⁻¹ = iv0
  generalize vp1⁻¹ = iv1
  generalize F2⁻¹ = iv2
  repeat' apply And.intro
  all_goals c24_ring hc

theorem N2_L_p_col1 (hc : c * c = 2) :
    [Gen2B.N2_L_builder_p0_1 c c3 fn vp0 vp1 vp2 m00 m01 m10 m11 F0 F1 F2 F3 F4, Gen2B.N2_L_builder_p1_1 c c3 fn vp0 vp1 vp2 m00 m01 m10 m11 F0 F1 F2 F3 F4, Gen2B.N2_L_builder_p2_1 c c3 fn vp0 vp1 vp2 m00 m01 m10 m11 F0 F1 F2 F3 F4, Gen2B.N2_L_builder_p3_1 c c3 fn vp0 vp1 vp2 m00 m01 m10 m11 F0 F1 F2 F3 F4]
    = M3.mandel2 c (DK (Mo m00 m01 m10 m11) (ThL c c3 fn vp0 vp1 vp2 m00 m01 m10 m11 F0 F1 F2 F3 F4) (E c 1)) := by
  have hi : c⁻¹ = c / 2 := c_inv hc two_ne_zero
  simp only [gen_simp, ThL, Mo, DK, eig, theta2, dd1, hadamard, E, M3.sym, M3.mul_def, M3.mul, M3.transpose, M3.mandel2,
    List.cons.injEq, and_true, one_div, div_eq_mul_inv, mul_inv, inv_sub_swap vp0 vp1, hi]
  generalize fn.call "log1p" [vp0 - 1] = l0
  generalize fn.call "log1p" [vp1 - 1] = l1
  generalize (vp0 - vp1)⁻¹ = r01
  generalize vp0⁻¹ = iv0
  generalize vp1⁻¹ = iv1
  generalize F2⁻¹ = iv2
  repeat' apply And.intro
  all_goals c24_ring hc

theorem N2_L_p_col2 (hc : c * c = 2) :
    [Gen2B.N2_L_builder_p0_2 c c3 fn vp0 vp1 vp2 m00 m01 m10 m11 F0 F1 F2 F3 F4, Gen2B.N2_L_builder_p1_2 c c3 fn vp0 vp1 vp2 m00 m01 m10 m11 F0 F1 F2 F3 F4, Gen2B.N2_L_builder_p2_2 c c3 fn vp0 vp1 vp2 m00 m01 m10 m11 F0 F1 F2 F3 F4, Gen2B.N2_L_builder_p3_2 c c3 fn vp0 vp1 vp2 m00 m01 m10 m11 F0 F1 F2 F3 F4]
    = M3.mandel2 c (DK (Mo m00 m01 m10 m11) (ThL c c3 fn vp0 vp1 vp2 m00 m01 m10 m11 F0 F1 F2 F3 F4) (E c 2)) := by
  have hi : c⁻¹ = c / 2 := c_inv hc two_ne_zero
  simp only [gen_simp, ThL, Mo, DK, eig, theta2, dd1, hadamard, E, M3.sym, M3.mul_def, M3.mul, M3.transpose, M3.mandel2,
    List.cons.injEq, and_true, one_div, div_eq_mul_inv, mul_inv, inv_sub_swap vp0 vp1, hi]
  generalize fn.call "log1p" [vp0 - 1] = l0
  generalize fn.call "log1p" [vp1 - 1] = l1
  generalize (vp0 - vp1)⁻¹ = r01
  generalize vp0⁻¹ = iv0
  generalize vp1⁻¹ = iv1
  generalize F2⁻¹ = iv2
  repeat' apply And.intro
  all_goals c24_ring hc

theorem N2_L_p_col3 (hc : c * c = 2) :
    [Gen2B.N2_L_builder_p0_3 c c3 fn vp0 vp1 vp2 m00 m01 m10 m11 F0 F1 F2 F3 F4, Gen2B.N2_L_builder_p1_3 c c3 fn vp0 vp1 vp2 m00 m01 m10 m11 F0 F1 F2 F3 F4, Gen2B.N2_L_builder_p2_3 c c3 fn vp0 vp1 vp2 m00 m01 m10 m11 F0 F1 F2 F3 F4, Gen2B.N2_L_builder_p3_3 c c3 fn vp0 vp1 vp2 m00 m01 m10 m11 F0 F1 F2 F3 F4]
    = M3.mandel2 c (DK (Mo m00 m01 m10 m11) (ThL c c3 fn vp0 vp1 vp2 m00 m01 m10 m11 F0 F1 F2 F3 F4) (E c 3)) := by
  have hi : c⁻¹ = c / 2 := c_inv hc two_ne_zero
  simp only [gen_simp, ThL, Mo, DK, eig, theta2, dd1, hadamard, E, M3.sym, M3.mul_def, M3.mul, M3.transpose, M3.mandel2,
    List.cons.injEq, and_true, one_div, div_eq_mul_inv, mul_inv, inv_sub_swap vp0 vp1, hi]
  generalize fn.call "log1p" [vp0 - 1] = l0
  generalize fn.call "log1p" [vp1 - 1] = l1
  generalize (vp0 - vp1)⁻¹ = r01
  generalize vp0⁻¹ = iv0
  generalize vp1⁻¹ = iv1
  generalize F2⁻¹ = iv2
  repeat' apply And.intro
  all_goals c24_ring hc
end L

/-! ## constructor, Eulerian setting -/
section E
abbrev InB := Gen2B.N2_E_builder_In
def MB (i : InB K) : M3 K := ⟨i.m00, i.m01, 0, i.m10, i.m11, 0, 0, 0, 1⟩
def FB (i : InB K) : M3 K := M3.ofTens [i.F0, i.F1, i.F2, i.F3, i.F4]
def ThB (fn : Fns K) (i : InB K) : M3 K :=
  theta2 i.vp0 i.vp1 (fn.call "log1p" [i.vp0 - 1] / 2) (fn.call "log1p" [i.vp1 - 1] / 2)
    (1 / (2 * i.vp0)) (1 / (2 * i.vp1)) (1 / (2 * (i.F2 * i.F2)))

theorem N2_E_p_row0 (hc : c * c = 2) (i : InB K) :
    [Gen2B.N2_E_builder_p0_0_full c c3 fn i, Gen2B.N2_E_builder_p0_1_full c c3 fn i, Gen2B.N2_E_builder_p0_2_full c c3 fn i, Gen2B.N2_E_builder_p0_3_full c c3 fn i]
    = M3.mandel2 c (DK2 (FB i * MB i) (MB i) (ThB fn i) (E c 0)) := by
  simp only [Gen2B.N2_E_builder_p0_0_full, Gen2B.N2_E_builder_p0_1_full, Gen2B.N2_E_builder_p0_2_full, Gen2B.N2_E_builder_p0_3_full,
    Gen2B.N2_E_builder_cuts, gen_simp, ThB, MB, FB, M3.ofTens, DK2, eig, theta2, dd1, hadamard, E, M3.sym, M3.mul_def, M3.mul,
    M3.transpose, M3.mandel2, List.cons.injEq, and_true, one_div, div_eq_mul_inv, mul_inv, inv_sub_swap i.vp0 i.vp1,
    c_inv hc two_ne_zero]
  generalize fn.call "log1p" [i.vp0 - 1] = l0
  generalize fn.call "log1p" [i.vp1 - 1] = l1
  generalize (i.vp0 - i.vp1)⁻¹ = r01
  generalize i.vp0⁻¹ = iv0
  generalize i.vp1⁻¹ = iv1
  generalize i.F2⁻¹ = iv2
  repeat' apply And.intro
  all_goals c24_ring hc

theorem N2_E_p_row1 (hc : c * c = 2) (i : InB K) :
    [Gen2B.N2_E_builder_p1_0_full c c3 fn i, Gen2B.N2_E_builder_p1_1_full c c3 fn i, Gen2B.N2_E_builder_p1_2_full c c3 fn i, Gen2B.N2_E_builder_p1_3_full c c3 fn i]
    = M3.mandel2 c (DK2 (FB i * MB i) (MB i) (ThB fn i) (E c 1)) := by
  simp only [Gen2B.N2_E_builder_p1_0_full, Gen2B.N2_E_builder_p1_1_full, Gen2B.N2_E_builder_p1_2_full, Gen2B.N2_E_builder_p1_3_full,
    Gen2B.N2_E_builder_cuts, gen_simp, ThB, MB, FB, M3.ofTens, DK2, eig, theta2, dd1, hadamard, E, M3.sym, M3.mul_def, M3.mul,
    M3.transpose, M3.mandel2, List.cons.injEq, and_true, one_div, div_eq_mul_inv, mul_inv, inv_sub_swap i.vp0 i.vp1,
    c_inv hc two_ne_zero]
  generalize fn.call "log1p" [i.vp0 - 1] = l0
  generalize fn.call "log1p" [i.vp1 - 1] = l1
  generalize (i.vp0 - i.vp1)⁻¹ = r01
  generalize i.vp0⁻¹ = iv0
  generalize i.vp1⁻¹ = iv1
  generalize i.F2⁻¹ = iv2
  repeat' apply And.intro
  all_goals c24_ring hc

theorem N2_E_p_row2 (hc : c * c = 2) (i : InB K) :
    [Gen2B.N2_E_builder_p2_0_full c c3 fn i, Gen2B.N2_E_builder_p2_1_full c c3 fn i, Gen2B.N2_E_builder_p2_2_full c c3 fn i, Gen2B.N2_E_builder_p2_3_full c c3 fn i]
    = M3.mandel2 c (DK2 (FB i * MB i) (MB i) (ThB fn i) (E c 2)) := by
  simp only [Gen2B.N2_E_builder_p2_0_full, Gen2B.N2_E_builder_p2_1_full, Gen2B.N2_E_builder_p2_2_full, Gen2B.N2_E_builder_p2_3_full,
    Gen2B.N2_E_builder_cuts, gen_simp, ThB, MB, FB, M3.ofTens, DK2, eig, theta2, dd1, hadamard, E, M3.sym, M3.mul_def, M3.mul,
    M3.transpose, M3.mandel2, List.cons.injEq, and_true, one_div, div_eq_mul_inv, mul_inv, inv_sub_swap i.vp0 i.vp1,
    c_inv hc two_ne_zero]
  generalize fn.call "log1p" [i.vp0 - 1] = l0
  generalize fn.call "log1p" [i.vp1 - 1] = l1
  generalize (i.vp0 - i.vp1)⁻¹ = r01
  generalize i.vp0⁻¹ = iv0
  generalize i.vp1⁻¹ = iv1
  generalize i.F2⁻¹ = iv2
  repeat' apply And.intro
  all_goals c24_ring hc

theorem N2_E_p_row3 (hc : c * c = 2) (i : InB K) :
    [Gen2B.N2_E_builder_p3_0_full c c3 fn i, Gen2B.N2_E_builder_p3_1_full c c3 fn i, Gen2B.N2_E_builder_p3_2_full c c3 fn i, Gen2B.N2_E_builder_p3_3_full c c3 fn i]
    = M3.mandel2 c (DK2 (FB i * MB i) (MB i) (ThB fn i) (E c 3)) := by
  simp only [Gen2B.N2_E_builder_p3_0_full, Gen2B.N2_E_builder_p3_1_full, Gen2B.N2_E_builder_p3_2_full, Gen2B.N2_E_builder_p3_3_full,
    Gen2B.N2_E_builder_cuts, gen_simp, ThB, MB, FB, M3.ofTens, DK2, eig, theta2, dd1, hadamard, E, M3.sym, M3.mul_def, M3.mul,
    M3.transpose, M3.mandel2, List.cons.injEq, and_true, one_div, div_eq_mul_inv, mul_inv, inv_sub_swap i.vp0 i.vp1,
    c_inv hc two_ne_zero]
  generalize fn.call "log1p" [i.vp0 - 1] = l0
  generalize fn.call "log1p" [i.vp1 - 1] = l1
  generalize (i.vp0 - i.vp1)⁻¹ = r01
  generalize i.vp0⁻¹ = iv0
  generalize i.vp1⁻¹ = iv1
  generalize i.F2⁻¹ = iv2
  repeat' apply And.intro
  all_goals c24_ring hc
end E

/-! ## dual stress conversions -/
section S
variable (vp0 vp1 vp2 m00 m01 m10 m11 e0 e1 e2 p0_0 p0_1 p0_2 p0_3 p1_0 p1_1 p1_2 p1_3 p2_0 p2_1 p2_2 p2_3 p3_0 p3_1 p3_2 p3_3 F0 F1 F2 F3 F4 : K)
set_option hygiene false in
local macro "TT(" f:ident ")" : term =>
  `($f c c3 fn vp0 vp1 vp2 m00 m01 m10 m11 e0 e1 e2 p0_0 p0_1 p0_2 p0_3 p1_0 p1_1 p1_2 p1_3 p2_0 p2_1 p2_2 p2_3 p3_0 p3_1 p3_2 p3_3 F0 F1 F2 F3 F4 T0 T1 T2 T3)
set_option hygiene false in
local macro "II(" f:ident ")" : term =>
  `($f c c3 fn vp0 vp1 vp2 m00 m01 m10 m11 e0 e1 e2 p0_0 p0_1 p0_2 p0_3 p1_0 p1_1 p1_2 p1_3 p2_0 p2_1 p2_2 p2_3 p3_0 p3_1 p3_2 p3_3 F0 F1 F2 F3 F4 X0 X1 X2 X3 ip0_0 ip0_1 ip0_2 ip0_3 ip1_0 ip1_1 ip1_2 ip1_3 ip2_0 ip2_1 ip2_2 ip2_3 ip3_0 ip3_1 ip3_2 ip3_3)
abbrev PS : Fin 6 → Fin 6 → K := (mat6 (vec6 p0_0 p0_1 p0_2 p0_3 0 0) (vec6 p1_0 p1_1 p1_2 p1_3 0 0) (vec6 p2_0 p2_1 p2_2 p2_3 0 0) (vec6 p3_0 p3_1 p3_2 p3_3 0 0) (vec6 0 0 0 0 0 0) (vec6 0 0 0 0 0 0))
abbrev FS : M3 K := M3.ofTens [F0, F1, F2, F3, F4]

section toS
variable (T0 T1 T2 T3 : K)
theorem N2_L_toPK2 :
    [TT(Gen2S.N2_L_toPK2_S0), TT(Gen2S.N2_L_toPK2_S1), TT(Gen2S.N2_L_toPK2_S2), TT(Gen2S.N2_L_toPK2_S3)]
    = [2 * dot4 (vec6 T0 T1 T2 T3 0 0) (fun i => PS p0_0 p0_1 p0_2 p0_3 p1_0 p1_1 p1_2 p1_3 p2_0 p2_1 p2_2 p2_3 p3_0 p3_1 p3_2 p3_3 i 0), 2 * dot4 (vec6 T0 T1 T2 T3 0 0) (fun i => PS p0_0 p0_1 p0_2 p0_3 p1_0 p1_1 p1_2 p1_3 p2_0 p2_1 p2_2 p2_3 p3_0 p3_1 p3_2 p3_3 i 1), 2 * dot4 (vec6 T0 T1 T2 T3 0 0) (fun i => PS p0_0 p0_1 p0_2 p0_3 p1_0 p1_1 p1_2 p1_3 p2_0 p2_1 p2_2 p2_3 p3_0 p3_1 p3_2 p3_3 i 2), 2 * dot4 (vec6 T0 T1 T2 T3 0 0) (fun i => PS p0_0 p0_1 p0_2 p0_3 p1_0 p1_1 p1_2 p1_3 p2_0 p2_1 p2_2 p2_3 p3_0 p3_1 p3_2 p3_3 i 3)] := by
  simp only [gen_simp, PS, dot4, mat6, vec6, List.cons.injEq, and_true]
  repeat' apply And.intro
  all_goals ring

/-- stress power: `S : dE = T : (2 p : dE)` for every `dE` -/
theorem N2_power_conjugacy (d0 d1 d2 d3 : K) :
    dot4 (vec6 (TT(Gen2S.N2_L_toPK2_S0)) (TT(Gen2S.N2_L_toPK2_S1)) (TT(Gen2S.N2_L_toPK2_S2)) (TT(Gen2S.N2_L_toPK2_S3)) 0 0) (vec6 d0 d1 d2 d3 0 0)
    = dot4 (vec6 T0 T1 T2 T3 0 0) (fun i => 2 * dot4 (PS p0_0 p0_1 p0_2 p0_3 p1_0 p1_1 p1_2 p1_3 p2_0 p2_1 p2_2 p2_3 p3_0 p3_1 p3_2 p3_3 i) (vec6 d0 d1 d2 d3 0 0)) := by
  simp only [gen_simp, PS, dot4, mat6, vec6]
  ring

theorem N2_L_toCauchy_den : TT(Gen2S.N2_L_toCauchy_den0) = (FS F0 F1 F2 F3 F4).det := by
  simp only [gen_simp, FS, M3.ofTens, M3.det]; ring
theorem N2_E_toCauchy_den : TT(Gen2S.N2_E_toCauchy_den0) = (FS F0 F1 F2 F3 F4).det := by
  simp only [gen_simp, FS, M3.ofTens, M3.det]; ring

theorem N2_L_toCauchy (hc : c * c = 2) :
    [TT(Gen2S.N2_L_toCauchy_s0), TT(Gen2S.N2_L_toCauchy_s1), TT(Gen2S.N2_L_toCauchy_s2), TT(Gen2S.N2_L_toCauchy_s3)]
    = M3.mandel2 c ((1 / TT(Gen2S.N2_L_toCauchy_den0)) •
        pf (FS F0 F1 F2 F3 F4) (M3.ofMandel c [TT(Gen2S.N2_L_toPK2_S0), TT(Gen2S.N2_L_toPK2_S1), TT(Gen2S.N2_L_toPK2_S2), TT(Gen2S.N2_L_toPK2_S3)])) := by
  have hi : c⁻¹ = c / 2 := c_inv hc two_ne_zero
  simp only [gen_simp, pf, FS, M3.ofTens, M3.ofMandel, M3.sym, M3.mandel2, M3.smul_def, M3.smul, M3.mul_def, M3.mul,
    M3.transpose, List.cons.injEq, and_true, one_div, div_eq_mul_inv, hi]
  repeat' apply And.intro
  all_goals c24_ring hc

theorem N2_E_toCauchy :
    [TT(Gen2S.N2_E_toCauchy_s0), TT(Gen2S.N2_E_toCauchy_s1), TT(Gen2S.N2_E_toCauchy_s2), TT(Gen2S.N2_E_toCauchy_s3)]
    = [2 * dot4 (vec6 T0 T1 T2 T3 0 0) (fun i => PS p0_0 p0_1 p0_2 p0_3 p1_0 p1_1 p1_2 p1_3 p2_0 p2_1 p2_2 p2_3 p3_0 p3_1 p3_2 p3_3 i 0) / TT(Gen2S.N2_E_toCauchy_den0), 2 * dot4 (vec6 T0 T1 T2 T3 0 0) (fun i => PS p0_0 p0_1 p0_2 p0_3 p1_0 p1_1 p1_2 p1_3 p2_0 p2_1 p2_2 p2_3 p3_0 p3_1 p3_2 p3_3 i 1) / TT(Gen2S.N2_E_toCauchy_den0), 2 * dot4 (vec6 T0 T1 T2 T3 0 0) (fun i => PS p0_0 p0_1 p0_2 p0_3 p1_0 p1_1 p1_2 p1_3 p2_0 p2_1 p2_2 p2_3 p3_0 p3_1 p3_2 p3_3 i 2) / TT(Gen2S.N2_E_toCauchy_den0), 2 * dot4 (vec6 T0 T1 T2 T3 0 0) (fun i => PS p0_0 p0_1 p0_2 p0_3 p1_0 p1_1 p1_2 p1_3 p2_0 p2_1 p2_2 p2_3 p3_0 p3_1 p3_2 p3_3 i 3) / TT(Gen2S.N2_E_toCauchy_den0)] := by
  simp only [gen_simp, PS, dot4, mat6, vec6, List.cons.injEq, and_true]
  repeat' apply And.intro
  all_goals ring
end toS

section inv
variable (X0 X1 X2 X3 ip0_0 ip0_1 ip0_2 ip0_3 ip1_0 ip1_1 ip1_2 ip1_3 ip2_0 ip2_1 ip2_2 ip2_3 ip3_0 ip3_1 ip3_2 ip3_3 : K)
abbrev IPS : Fin 6 → Fin 6 → K := (mat6 (vec6 ip0_0 ip0_1 ip0_2 ip0_3 0 0) (vec6 ip1_0 ip1_1 ip1_2 ip1_3 0 0) (vec6 ip2_0 ip2_1 ip2_2 ip2_3 0 0) (vec6 ip3_0 ip3_1 ip3_2 ip3_3 0 0) (vec6 0 0 0 0 0 0) (vec6 0 0 0 0 0 0))
theorem N2_L_fromPK2 :
    [II(Gen2S.N2_L_fromPK2_T0), II(Gen2S.N2_L_fromPK2_T1), II(Gen2S.N2_L_fromPK2_T2), II(Gen2S.N2_L_fromPK2_T3)]
    = [dot4 (vec6 X0 X1 X2 X3 0 0) (fun i => IPS ip0_0 ip0_1 ip0_2 ip0_3 ip1_0 ip1_1 ip1_2 ip1_3 ip2_0 ip2_1 ip2_2 ip2_3 ip3_0 ip3_1 ip3_2 ip3_3 i 0) / 2, dot4 (vec6 X0 X1 X2 X3 0 0) (fun i => IPS ip0_0 ip0_1 ip0_2 ip0_3 ip1_0 ip1_1 ip1_2 ip1_3 ip2_0 ip2_1 ip2_2 ip2_3 ip3_0 ip3_1 ip3_2 ip3_3 i 1) / 2, dot4 (vec6 X0 X1 X2 X3 0 0) (fun i => IPS ip0_0 ip0_1 ip0_2 ip0_3 ip1_0 ip1_1 ip1_2 ip1_3 ip2_0 ip2_1 ip2_2 ip2_3 ip3_0 ip3_1 ip3_2 ip3_3 i 2) / 2, dot4 (vec6 X0 X1 X2 X3 0 0) (fun i => IPS ip0_0 ip0_1 ip0_2 ip0_3 ip1_0 ip1_1 ip1_2 ip1_3 ip2_0 ip2_1 ip2_2 ip2_3 ip3_0 ip3_1 ip3_2 ip3_3 i 3) / 2] := by
  simp only [gen_simp, IPS, dot4, mat6, vec6, List.cons.injEq, and_true]
  repeat' apply And.intro
  all_goals ring
theorem N2_E_fromCauchy :
    [II(Gen2S.N2_E_fromCauchy_T0), II(Gen2S.N2_E_fromCauchy_T1), II(Gen2S.N2_E_fromCauchy_T2), II(Gen2S.N2_E_fromCauchy_T3)]
    = [dot4 (vec6 X0 X1 X2 X3 0 0) (fun i => IPS ip0_0 ip0_1 ip0_2 ip0_3 ip1_0 ip1_1 ip1_2 ip1_3 ip2_0 ip2_1 ip2_2 ip2_3 ip3_0 ip3_1 ip3_2 ip3_3 i 0) * (FS F0 F1 F2 F3 F4).det / 2, dot4 (vec6 X0 X1 X2 X3 0 0) (fun i => IPS ip0_0 ip0_1 ip0_2 ip0_3 ip1_0 ip1_1 ip1_2 ip1_3 ip2_0 ip2_1 ip2_2 ip2_3 ip3_0 ip3_1 ip3_2 ip3_3 i 1) * (FS F0 F1 F2 F3 F4).det / 2, dot4 (vec6 X0 X1 X2 X3 0 0) (fun i => IPS ip0_0 ip0_1 ip0_2 ip0_3 ip1_0 ip1_1 ip1_2 ip1_3 ip2_0 ip2_1 ip2_2 ip2_3 ip3_0 ip3_1 ip3_2 ip3_3 i 2) * (FS F0 F1 F2 F3 F4).det / 2, dot4 (vec6 X0 X1 X2 X3 0 0) (fun i => IPS ip0_0 ip0_1 ip0_2 ip0_3 ip1_0 ip1_1 ip1_2 ip1_3 ip2_0 ip2_1 ip2_2 ip2_3 ip3_0 ip3_1 ip3_2 ip3_3 i 3) * (FS F0 F1 F2 F3 F4).det / 2] := by
  simp only [gen_simp, IPS, dot4, mat6, vec6, FS, M3.ofTens, M3.det, List.cons.injEq, and_true]
  repeat' apply And.intro
  all_goals ring
end inv

section roundtrip
variable (T0 T1 T2 T3 ip0_0 ip0_1 ip0_2 ip0_3 ip1_0 ip1_1 ip1_2 ip1_3 ip2_0 ip2_1 ip2_2 ip2_3 ip3_0 ip3_1 ip3_2 ip3_3 : K)
theorem N2_L_PK2_roundtrip
    (hinv : ∀ k j : Fin 6, k.val < 4 → j.val < 4 → dot4 (PS p0_0 p0_1 p0_2 p0_3 p1_0 p1_1 p1_2 p1_3 p2_0 p2_1 p2_2 p2_3 p3_0 p3_1 p3_2 p3_3 k) (fun i => IPS ip0_0 ip0_1 ip0_2 ip0_3 ip1_0 ip1_1 ip1_2 ip1_3 ip2_0 ip2_1 ip2_2 ip2_3 ip3_0 ip3_1 ip3_2 ip3_3 i j) = if k = j then 1 else 0) :
    [Gen2S.N2_L_fromPK2_T0 c c3 fn vp0 vp1 vp2 m00 m01 m10 m11 e0 e1 e2 p0_0 p0_1 p0_2 p0_3 p1_0 p1_1 p1_2 p1_3 p2_0 p2_1 p2_2 p2_3 p3_0 p3_1 p3_2 p3_3 F0 F1 F2 F3 F4 (Gen2S.N2_L_toPK2_S0 c c3 fn vp0 vp1 vp2 m00 m01 m10 m11 e0 e1 e2 p0_0 p0_1 p0_2 p0_3 p1_0 p1_1 p1_2 p1_3 p2_0 p2_1 p2_2 p2_3 p3_0 p3_1 p3_2 p3_3 F0 F1 F2 F3 F4 T0 T1 T2 T3) (Gen2S.N2_L_toPK2_S1 c c3 fn vp0 vp1 vp2 m00 m01 m10 m11 e0 e1 e2 p0_0 p0_1 p0_2 p0_3 p1_0 p1_1 p1_2 p1_3 p2_0 p2_1 p2_2 p2_3 p3_0 p3_1 p3_2 p3_3 F0 F1 F2 F3 F4 T0 T1 T2 T3) (Gen2S.N2_L_toPK2_S2 c c3 fn vp0 vp1 vp2 m00 m01 m10 m11 e0 e1 e2 p0_0 p0_1 p0_2 p0_3 p1_0 p1_1 p1_2 p1_3 p2_0 p2_1 p2_2 p2_3 p3_0 p3_1 p3_2 p3_3 F0 F1 F2 F3 F4 T0 T1 T2 T3) (Gen2S.N2_L_toPK2_S3 c c3 fn vp0 vp1 vp2 m00 m01 m10 m11 e0 e1 e2 p0_0 p0_1 p0_2 p0_3 p1_0 p1_1 p1_2 p1_3 p2_0 p2_1 p2_2 p2_3 p3_0 p3_1 p3_2 p3_3 F0 F1 F2 F3 F4 T0 T1 T2 T3) ip0_0 ip0_1 ip0_2 ip0_3 ip1_0 ip1_1 ip1_2 ip1_3 ip2_0 ip2_1 ip2_2 ip2_3 ip3_0 ip3_1 ip3_2 ip3_3, Gen2S.N2_L_fromPK2_T1 c c3 fn vp0 vp1 vp2 m00 m01 m10 m11 e0 e1 e2 p0_0 p0_1 p0_2 p0_3 p1_0 p1_1 p1_2 p1_3 p2_0 p2_1 p2_2 p2_3 p3_0 p3_1 p3_2 p3_3 F0 F1 F2 F3 F4 (Gen2S.N2_L_toPK2_S0 c c3 fn vp0 vp1 vp2 m00 m01 m10 m11 e0 e1 e2 p0_0 p0_1 p0_2 p0_3 p1_0 p1_1 p1_2 p1_3 p2_0 p2_1 p2_2 p2_3 p3_0 p3_1 p3_2 p3_3 F0 F1 F2 F3 F4 T0 T1 T2 T3) (Gen2S.N2_L_toPK2_S1 c c3 fn vp0 vp1 vp2 m00 m01 m10 m11 e0 e1 e2 p0_0 p0_1 p0_2 p0_3 p1_0 p1_1 p1_2 p1_3 p2_0 p2_1 p2_2 p2_3 p3_0 p3_1 p3_2 p3_3 F0 F1 F2 F3 F4 T0 T1 T2 T3) (Gen2S.N2_L_toPK2_S2 c c3 fn vp0 vp1 vp2 m00 m01 m10 m11 e0 e1 e2 p0_0 p0_1 p0_2 p0_3 p1_0 p1_1 p1_2 p1_3 p2_0 p2_1 p2_2 p2_3 p3_0 p3_1 p3_2 p3_3 F0 F1 F2 F3 F4 T0 T1 T2 T3) (Gen2S.N2_L_toPK2_S3 c c3 fn vp0 vp1 vp2 m00 m01 m10 m11 e0 e1 e2 p0_0 p0_1 p0_2 p0_3 p1_0 p1_1 p1_2 p1_3 p2_0 p2_1 p2_2 p2_3 p3_0 p3_1 p3_2 p3_3 F0 F1 F2 F3 F4 T0 T1 T2 T3) ip0_0 ip0_1 ip0_2 ip0_3 ip1_0 ip1_1 ip1_2 ip1_3 ip2_0 ip2_1 ip2_2 ip2_3 ip3_0 ip3_1 ip3_2 ip3_3, Gen2S.N2_L_fromPK2_T2 c c3 fn vp0 vp1 vp2 m00 m01 m10 m11 e0 e1 e2 p0_0 p0_1 p0_2 p0_3 p1_0 p1_1 p1_2 p1_3 p2_0 p2_1 p2_2 p2_3 p3_0 p3_1 p3_2 p3_3 F0 F1 F2 F3 F4 (Gen2S.N2_L_toPK2_S0 c c3 fn vp0 vp1 vp2 m00 m01 m10 m11 e0 e1 e2 p0_0 p0_1 p0_2 p0_3 p1_0 p1_1 p1_2 p1_3 p2_0 p2_1 p2_2 p2_3 p3_0 p3_1 p3_2 p3_3 F0 F1 F2 F3 F4 T0 T1 T2 T3) (Gen2S.N2_L_toPK2_S1 c c3 fn vp0 vp1 vp2 m00 m01 m10 m11 e0 e1 e2 p0_0 p0_1 p0_2 p0_3 p1_0 p1_1 p1_2 p1_3 p2_0 p2_1 p2_2 p2_3 p3_0 p3_1 p3_2 p3_3 F0 F1 F2 F3 F4 T0 T1 T2 T3) (Gen2S.N2_L_toPK2_S2 c c3 fn vp0 vp1 vp2 m00 m01 m10 m11 e0 e1 e2 p0_0 p0_1 p0_2 p0_3 p1_0 p1_1 p1_2 p1_3 p2_0 p2_1 p2_2 p2_3 p3_0 p3_1 p3_2 p3_3 F0 F1 F2 F3 F4 T0 T1 T2 T3) (Gen2S.N2_L_toPK2_S3 c c3 fn vp0 vp1 vp2 m00 m01 m10 m11 e0 e1 e2 p0_0 p0_1 p0_2 p0_3 p1_0 p1_1 p1_2 p1_3 p2_0 p2_1 p2_2 p2_3 p3_0 p3_1 p3_2 p3_3 F0 F1 F2 F3 F4 T0 T1 T2 T3) ip0_0 ip0_1 ip0_2 ip0_3 ip1_0 ip1_1 ip1_2 ip1_3 ip2_0 ip2_1 ip2_2 ip2_3 ip3_0 ip3_1 ip3_2 ip3_3, Gen2S.N2_L_fromPK2_T3 c c3 fn vp0 vp1 vp2 m00 m01 m10 m11 e0 e1 e2 p0_0 p0_1 p0_2 p0_3 p1_0 p1_1 p1_2 p1_3 p2_0 p2_1 p2_2 p2_3 p3_0 p3_1 p3_2 p3_3 F0 F1 F2 F3 F4 (Gen2S.N2_L_toPK2_S0 c c3 fn vp0 vp1 vp2 m00 m01 m10 m11 e0 e1 e2 p0_0 p0_1 p0_2 p0_3 p1_0 p1_1 p1_2 p1_3 p2_0 p2_1 p2_2 p2_3 p3_0 p3_1 p3_2 p3_3 F0 F1 F2 F3 F4 T0 T1 T2 T3) (Gen2S.N2_L_toPK2_S1 c c3 fn vp0 vp1 vp2 m00 m01 m10 m11 e0 e1 e2 p0_0 p0_1 p0_2 p0_3 p1_0 p1_1 p1_2 p1_3 p2_0 p2_1 p2_2 p2_3 p3_0 p3_1 p3_2 p3_3 F0 F1 F2 F3 F4 T0 T1 T2 T3) (Gen2S.N2_L_toPK2_S2 c c3 fn vp0 vp1 vp2 m00 m01 m10 m11 e0 e1 e2 p0_0 p0_1 p0_2 p0_3 p1_0 p1_1 p1_2 p1_3 p2_0 p2_1 p2_2 p2_3 p3_0 p3_1 p3_2 p3_3 F0 F1 F2 F3 F4 T0 T1 T2 T3) (Gen2S.N2_L_toPK2_S3 c c3 fn vp0 vp1 vp2 m00 m01 m10 m11 e0 e1 e2 p0_0 p0_1 p0_2 p0_3 p1_0 p1_1 p1_2 p1_3 p2_0 p2_1 p2_2 p2_3 p3_0 p3_1 p3_2 p3_3 F0 F1 F2 F3 F4 T0 T1 T2 T3) ip0_0 ip0_1 ip0_2 ip0_3 ip1_0 ip1_1 ip1_2 ip1_3 ip2_0 ip2_1 ip2_2 ip2_3 ip3_0 ip3_1 ip3_2 ip3_3]
    = [T0, T1, T2, T3] := by
  have h00 := hinv 0 0 (by decide) (by decide)
  have h01 := hinv 0 1 (by decide) (by decide)
  have h02 := hinv 0 2 (by decide) (by decide)
  have h03 := hinv 0 3 (by decide) (by decide)
  have h10 := hinv 1 0 (by decide) (by decide)
  have h11 := hinv 1 1 (by decide) (by decide)
  have h12 := hinv 1 2 (by decide) (by decide)
  have h13 := hinv 1 3 (by decide) (by decide)
  have h20 := hinv 2 0 (by decide) (by decide)
  have h21 := hinv 2 1 (by decide) (by decide)
  have h22 := hinv 2 2 (by decide) (by decide)
  have h23 := hinv 2 3 (by decide) (by decide)
  have h30 := hinv 3 0 (by decide) (by decide)
  have h31 := hinv 3 1 (by decide) (by decide)
  have h32 := hinv 3 2 (by decide) (by decide)
  have h33 := hinv 3 3 (by decide) (by decide)
  simp only [PS, IPS, dot4, mat6, vec6, Fin.isValue, Fin.reduceEq, if_true, if_false, reduceIte] at h00 h01 h02 h03 h10 h11 h12 h13 h20 h21 h22 h23 h30 h31 h32 h33
  simp only [gen_simp, List.cons.injEq, and_true]
  refine ⟨?_, ?_, ?_, ?_⟩
  · linear_combination T0 * h00 + T1 * h10 + T2 * h20 + T3 * h30
  · linear_combination T0 * h01 + T1 * h11 + T2 * h21 + T3 * h31
  · linear_combination T0 * h02 + T1 * h12 + T2 * h22 + T3 * h32
  · linear_combination T0 * h03 + T1 * h13 + T2 * h23 + T3 * h33
end roundtrip
end S

/-! ## tangent operator conversion, Lagrangian setting (material moduli dS/dE_GL) -/
namespace N2_L_material
abbrev In := Gen2TL.N2_L_material_In
abbrev Cut := Gen2TL.N2_L_material_Cut
def Mm (i : In K) : M3 K := ⟨i.m00, i.m01, 0, i.m10, i.m11, 0, 0, 0, 1⟩
def FE (i : In K) : M3 K := M3.ofTens [i.F0, i.F1, i.F2, i.F3, i.F4]
def Tm (c : K) (i : In K) : M3 K := M3.sym i.T0 i.T1 i.T2 (i.T3 / c) 0 0
def P (i : In K) : Fin 6 → Fin 6 → K := (mat6 (vec6 i.p0_0 i.p0_1 i.p0_2 i.p0_3 0 0) (vec6 i.p1_0 i.p1_1 i.p1_2 i.p1_3 0 0) (vec6 i.p2_0 i.p2_1 i.p2_2 i.p2_3 0 0) (vec6 i.p3_0 i.p3_1 i.p3_2 i.p3_3 0 0) (vec6 0 0 0 0 0 0) (vec6 0 0 0 0 0 0))
def KS (i : In K) : Fin 6 → Fin 6 → K := (mat6 (vec6 i.K0_0 i.K0_1 i.K0_2 i.K0_3 0 0) (vec6 i.K1_0 i.K1_1 i.K1_2 i.K1_3 0 0) (vec6 i.K2_0 i.K2_1 i.K2_2 i.K2_3 0 0) (vec6 i.K3_0 i.K3_1 i.K3_2 i.K3_3 0 0) (vec6 0 0 0 0 0 0) (vec6 0 0 0 0 0 0))
def lam (i : In K) : Fin 3 → K | 0 => i.vp0 | 1 => i.vp1 | 2 => i.vp2
def ev (i : In K) : Fin 3 → K | 0 => i.e0 | 1 => i.e1 | 2 => i.e2
def dv (i : In K) : Fin 3 → K | 0 => 1 / (2 * i.vp0) | 1 => 1 / (2 * i.vp1) | 2 => 1 / (2 * i.vp2)
def sv (i : In K) : Fin 3 → K
  | 0 => -1 / (2 * (i.vp0 * i.vp0)) | 1 => -1 / (2 * (i.vp1 * i.vp1)) | 2 => -1 / (2 * (i.vp2 * i.vp2))
/-- basis in which the arguments `X, Y` of the second order term are expressed: `v_i` (material) or `F v_i` (spatial) -/
def Nb (i : In K) : M3 K := Mm i
def zmat (i : In K) (k : Cut K) : M3 K := ⟨k.z0, k.z3, 0, k.z3, k.z1, 0, 0, 0, i.T2⟩
def Xc0 (i : In K) (k : Cut K) : M3 K := ⟨k.N0_0 / 2, k.N3_0 / 2, 0, k.N3_0 / 2, k.N1_0 / 2, 0, 0, 0, 0⟩
def Xc1 (i : In K) (k : Cut K) : M3 K := ⟨k.N0_1 / 2, k.N3_1 / 2, 0, k.N3_1 / 2, k.N1_1 / 2, 0, 0, 0, 0⟩
def Xc2 (i : In K) (k : Cut K) : M3 K := ⟨0, 0, 0, 0, 0, 0, 0, 0, 1⟩
def Xc3 (i : In K) (k : Cut K) : M3 K := ⟨k.N0_3 / 2, k.N3_3 / 2, 0, k.N3_3 / 2, k.N1_3 / 2, 0, 0, 0, 0⟩
def Xc (i : In K) (k : Cut K) : Fin 6 → M3 K | 0 => Xc0 i k | 1 => Xc1 i k | 2 => Xc2 i k | 3 => Xc3 i k | _ => Xc0 i k
def so (i : In K) (k : Cut K) (a b : Fin 6) : K :=
  miehe2 k.f0 k.f1 k.f2 k.xi0 k.xi1 (zmat i k) (Xc i k a) (Xc i k b)

/-! structure of the traced formula (cut values free) -/
theorem struct_row0 (i : In K) (k : Cut K) :
    [Gen2TL.N2_L_material_Kr0_0 c c3 fn i k, Gen2TL.N2_L_material_Kr0_1 c c3 fn i k, Gen2TL.N2_L_material_Kr0_2 c c3 fn i k, Gen2TL.N2_L_material_Kr0_3 c c3 fn i k]
    = [4 * quad4 (P i) (KS i) 0 0 + so i k 0 0, 4 * quad4 (P i) (KS i) 0 1 + so i k 0 1, 4 * quad4 (P i) (KS i) 0 2 + so i k 0 2, 4 * quad4 (P i) (KS i) 0 3 + so i k 0 3] := by
  simp only [gen_simp, quad4, dot4, mat6, vec6, P, KS, so, miehe2, miehePair, zmat, Xc, Xc0, Xc1, Xc2, Xc3,
    List.cons.injEq, and_true]
  repeat' apply And.intro
  all_goals ring
theorem struct_row1 (i : In K) (k : Cut K) :
    [Gen2TL.N2_L_material_Kr1_0 c c3 fn i k, Gen2TL.N2_L_material_Kr1_1 c c3 fn i k, Gen2TL.N2_L_material_Kr1_2 c c3 fn i k, Gen2TL.N2_L_material_Kr1_3 c c3 fn i k]
    = [4 * quad4 (P i) (KS i) 1 0 + so i k 1 0, 4 * quad4 (P i) (KS i) 1 1 + so i k 1 1, 4 * quad4 (P i) (KS i) 1 2 + so i k 1 2, 4 * quad4 (P i) (KS i) 1 3 + so i k 1 3] := by
  simp only [gen_simp, quad4, dot4, mat6, vec6, P, KS, so, miehe2, miehePair, zmat, Xc, Xc0, Xc1, Xc2, Xc3,
    List.cons.injEq, and_true]
  repeat' apply And.intro
  all_goals ring
theorem struct_row2 (i : In K) (k : Cut K) :
    [Gen2TL.N2_L_material_Kr2_0 c c3 fn i k, Gen2TL.N2_L_material_Kr2_1 c c3 fn i k, Gen2TL.N2_L_material_Kr2_2 c c3 fn i k, Gen2TL.N2_L_material_Kr2_3 c c3 fn i k]
    = [4 * quad4 (P i) (KS i) 2 0 + so i k 2 0, 4 * quad4 (P i) (KS i) 2 1 + so i k 2 1, 4 * quad4 (P i) (KS i) 2 2 + so i k 2 2, 4 * quad4 (P i) (KS i) 2 3 + so i k 2 3] := by
  simp only [gen_simp, quad4, dot4, mat6, vec6, P, KS, so, miehe2, miehePair, zmat, Xc, Xc0, Xc1, Xc2, Xc3,
    List.cons.injEq, and_true]
  repeat' apply And.intro
  all_goals ring
theorem struct_row3 (i : In K) (k : Cut K) :
    [Gen2TL.N2_L_material_Kr3_0 c c3 fn i k, Gen2TL.N2_L_material_Kr3_1 c c3 fn i k, Gen2TL.N2_L_material_Kr3_2 c c3 fn i k, Gen2TL.N2_L_material_Kr3_3 c c3 fn i k]
    = [4 * quad4 (P i) (KS i) 3 0 + so i k 3 0, 4 * quad4 (P i) (KS i) 3 1 + so i k 3 1, 4 * quad4 (P i) (KS i) 3 2 + so i k 3 2, 4 * quad4 (P i) (KS i) 3 3 + so i k 3 3] := by
  simp only [gen_simp, quad4, dot4, mat6, vec6, P, KS, so, miehe2, miehePair, zmat, Xc, Xc0, Xc1, Xc2, Xc3,
    List.cons.injEq, and_true]
  repeat' apply And.intro
  all_goals ring

abbrev cuts (i : In K) : Cut K := Gen2TL.N2_L_material_cuts c c3 fn i

theorem zmat_cuts (hc : c * c = 2) (i : In K) : zmat i (cuts c c3 fn i) = eig (Mm i) (Tm c i) := by
  have hi : c⁻¹ = c / 2 := c_inv hc two_ne_zero
  simp only [zmat, cuts, Gen2TL.N2_L_material_cuts, gen_simp, eig, Mm, Tm, M3.sym, M3.mul_def, M3.mul, M3.transpose,
    M3.mk.injEq, div_eq_mul_inv, hi]
  repeat' apply And.intro
  all_goals c24_ring hc

theorem Xc_cuts (hc : c * c = 2) (i : In K) (a : Fin 6) (ha : a.val < 4) :
    Xc i (cuts c c3 fn i) a = eig (Nb i) (E c a) := by
  fin_cases a <;> (try (exfalso; revert ha; decide)) <;>
  · simp only [Xc, Xc0, Xc1, Xc2, Xc3, Nb, cuts, Gen2TL.N2_L_material_cuts, gen_simp, eig, Mm, FE, M3.ofTens, E, M3.sym,
      M3.mul_def, M3.mul, M3.transpose, M3.mk.injEq, Fin.zero_eta, Fin.mk_one, Fin.reduceFinMk, Fin.isValue]
    repeat' apply And.intro
    all_goals c24_ring hc

theorem coef_cuts (i : In K) :
    let k := cuts c c3 fn i
    k.f0 = 4 * sv i 0 ∧ k.f1 = 4 * sv i 1 ∧ k.f2 = 4 * sv i 2
    ∧ k.xi0 = xi i.vp0 i.vp1 i.e0 i.e1 (dv i 1) ∧ k.xi1 = xi i.vp1 i.vp0 i.e1 i.e0 (dv i 0) := by
  simp only [cuts, Gen2TL.N2_L_material_cuts, gen_simp, sv, dv, xi, one_div, inv_sub_swap i.vp0 i.vp1]
  repeat' apply And.intro
  all_goals (first | exact True.intro | ring)

theorem planar_eig (i : In K) (X : M3 K) (hX : Planar X) : Planar (eig (Nb i) X) := by
  obtain ⟨h1, h2, h3, h4⟩ := hX
  simp only [Planar, eig, Nb, Mm, FE, M3.ofTens, M3.mul_def, M3.mul, M3.transpose, h1, h2, h3, h4]
  refine ⟨?_, ?_, ?_, ?_⟩ <;> ring
theorem planar_eigM (i : In K) (X : M3 K) (hX : Planar X) : Planar (eig (Mm i) X) := by
  obtain ⟨h1, h2, h3, h4⟩ := hX
  simp only [Planar, eig, Mm, M3.mul_def, M3.mul, M3.transpose, h1, h2, h3, h4]
  refine ⟨?_, ?_, ?_, ?_⟩ <;> ring
theorem planar_E (a : Fin 6) (ha : a.val < 4) : Planar (E c a) := by
  fin_cases a <;> (try (exfalso; revert ha; decide)) <;> exact ⟨rfl, rfl, rfl, rfl⟩

theorem so_cuts (hc : c * c = 2) (i : In K) (h01 : i.vp0 ≠ i.vp1) (a b : Fin 6) (ha : a.val < 4) (hb : b.val < 4) :
    so i (cuts c c3 fn i) a b
      = 4 * D2 (lam i) (ev i) (dv i) (sv i) (eig (Mm i) (Tm c i)) (eig (Nb i) (E c a)) (eig (Nb i) (E c b)) := by
  obtain ⟨h0, h1, h2, h3, h4⟩ := coef_cuts c c3 fn i
  simp only [so]
  rw [zmat_cuts c c3 fn hc, Xc_cuts c c3 fn hc i a ha, Xc_cuts c c3 fn hc i b hb, h0, h1, h2, h3, h4]
  exact miehe2_eq_D2 (lam i) (ev i) (dv i) (sv i) _ _ _
    (isSym_eig _ _ (isSym_sym ..)) (isSym_eig _ _ (isSym_E c _)) (isSym_eig _ _ (isSym_E c _))
    (planar_eigM i _ ⟨rfl, rfl, rfl, rfl⟩) (planar_eig i _ (planar_E c a ha)) (planar_eig i _ (planar_E c b hb)) h01

theorem N2_L_material_row0 (hc : c * c = 2) (i : In K) (h01 : i.vp0 ≠ i.vp1) :
    [Gen2TL.N2_L_material_Kr0_0_full c c3 fn i, Gen2TL.N2_L_material_Kr0_1_full c c3 fn i, Gen2TL.N2_L_material_Kr0_2_full c c3 fn i, Gen2TL.N2_L_material_Kr0_3_full c c3 fn i]
    = [4 * quad4 (P i) (KS i) 0 0 + 4 * D2 (lam i) (ev i) (dv i) (sv i) (eig (Mm i) (Tm c i)) (eig (Nb i) (E c 0)) (eig (Nb i) (E c 0)),
       4 * quad4 (P i) (KS i) 0 1 + 4 * D2 (lam i) (ev i) (dv i) (sv i) (eig (Mm i) (Tm c i)) (eig (Nb i) (E c 0)) (eig (Nb i) (E c 1)),
       4 * quad4 (P i) (KS i) 0 2 + 4 * D2 (lam i) (ev i) (dv i) (sv i) (eig (Mm i) (Tm c i)) (eig (Nb i) (E c 0)) (eig (Nb i) (E c 2)),
       4 * quad4 (P i) (KS i) 0 3 + 4 * D2 (lam i) (ev i) (dv i) (sv i) (eig (Mm i) (Tm c i)) (eig (Nb i) (E c 0)) (eig (Nb i) (E c 3))] := by
  simp only [Gen2TL.N2_L_material_Kr0_0_full, Gen2TL.N2_L_material_Kr0_1_full, Gen2TL.N2_L_material_Kr0_2_full, Gen2TL.N2_L_material_Kr0_3_full]
  rw [struct_row0 c c3 fn i (cuts c c3 fn i)]
  rw [so_cuts c c3 fn hc i h01 0 0 (by decide) (by decide), so_cuts c c3 fn hc i h01 0 1 (by decide) (by decide),
    so_cuts c c3 fn hc i h01 0 2 (by decide) (by decide), so_cuts c c3 fn hc i h01 0 3 (by decide) (by decide)]

theorem N2_L_material_row1 (hc : c * c = 2) (i : In K) (h01 : i.vp0 ≠ i.vp1) :
    [Gen2TL.N2_L_material_Kr1_0_full c c3 fn i, Gen2TL.N2_L_material_Kr1_1_full c c3 fn i, Gen2TL.N2_L_material_Kr1_2_full c c3 fn i, Gen2TL.N2_L_material_Kr1_3_full c c3 fn i]
    = [4 * quad4 (P i) (KS i) 1 0 + 4 * D2 (lam i) (ev i) (dv i) (sv i) (eig (Mm i) (Tm c i)) (eig (Nb i) (E c 1)) (eig (Nb i) (E c 0)),
       4 * quad4 (P i) (KS i) 1 1 + 4 * D2 (lam i) (ev i) (dv i) (sv i) (eig (Mm i) (Tm c i)) (eig (Nb i) (E c 1)) (eig (Nb i) (E c 1)),
       4 * quad4 (P i) (KS i) 1 2 + 4 * D2 (lam i) (ev i) (dv i) (sv i) (eig (Mm i) (Tm c i)) (eig (Nb i) (E c 1)) (eig (Nb i) (E c 2)),
       4 * quad4 (P i) (KS i) 1 3 + 4 * D2 (lam i) (ev i) (dv i) (sv i) (eig (Mm i) (Tm c i)) (eig (Nb i) (E c 1)) (eig (Nb i) (E c 3))] := by
  simp only [Gen2TL.N2_L_material_Kr1_0_full, Gen2TL.N2_L_material_Kr1_1_full, Gen2TL.N2_L_material_Kr1_2_full, Gen2TL.N2_L_material_Kr1_3_full]
  rw [struct_row1 c c3 fn i (cuts c c3 fn i)]
  rw [so_cuts c c3 fn hc i h01 1 0 (by decide) (by decide), so_cuts c c3 fn hc i h01 1 1 (by decide) (by decide),
    so_cuts c c3 fn hc i h01 1 2 (by decide) (by decide), so_cuts c c3 fn hc i h01 1 3 (by decide) (by decide)]

theorem N2_L_material_row2 (hc : c * c = 2) (i : In K) (h01 : i.vp0 ≠ i.vp1) :
    [Gen2TL.N2_L_material_Kr2_0_full c c3 fn i, Gen2TL.N2_L_material_Kr2_1_full c c3 fn i, Gen2TL.N2_L_material_Kr2_2_full c c3 fn i, Gen2TL.N2_L_material_Kr2_3_full c c3 fn i]
    = [4 * quad4 (P i) (KS i) 2 0 + 4 * D2 (lam i) (ev i) (dv i) (sv i) (eig (Mm i) (Tm c i)) (eig (Nb i) (E c 2)) (eig (Nb i) (E c 0)),
       4 * quad4 (P i) (KS i) 2 1 + 4 * D2 (lam i) (ev i) (dv i) (sv i) (eig (Mm i) (Tm c i)) (eig (Nb i) (E c 2)) (eig (Nb i) (E c 1)),
       4 * quad4 (P i) (KS i) 2 2 + 4 * D2 (lam i) (ev i) (dv i) (sv i) (eig (Mm i) (Tm c i)) (eig (Nb i) (E c 2)) (eig (Nb i) (E c 2)),
       4 * quad4 (P i) (KS i) 2 3 + 4 * D2 (lam i) (ev i) (dv i) (sv i) (eig (Mm i) (Tm c i)) (eig (Nb i) (E c 2)) (eig (Nb i) (E c 3))] := by
  simp only [Gen2TL.N2_L_material_Kr2_0_full, Gen2TL.N2_L_material_Kr2_1_full, Gen2TL.N2_L_material_Kr2_2_full, Gen2TL.N2_L_material_Kr2_3_full]
  rw [struct_row2 c c3 fn i (cuts c c3 fn i)]
  rw [so_cuts c c3 fn hc i h01 2 0 (by decide) (by decide), so_cuts c c3 fn hc i h01 2 1 (by decide) (by decide),
    so_cuts c c3 fn hc i h01 2 2 (by decide) (by decide), so_cuts c c3 fn hc i h01 2 3 (by decide) (by decide)]

theorem N2_L_material_row3 (hc : c * c = 2) (i : In K) (h01 : i.vp0 ≠ i.vp1) :
    [Gen2TL.N2_L_material_Kr3_0_full c c3 fn i, Gen2TL.N2_L_material_Kr3_1_full c c3 fn i, Gen2TL.N2_L_material_Kr3_2_full c c3 fn i, Gen2TL.N2_L_material_Kr3_3_full c c3 fn i]
    = [4 * quad4 (P i) (KS i) 3 0 + 4 * D2 (lam i) (ev i) (dv i) (sv i) (eig (Mm i) (Tm c i)) (eig (Nb i) (E c 3)) (eig (Nb i) (E c 0)),
       4 * quad4 (P i) (KS i) 3 1 + 4 * D2 (lam i) (ev i) (dv i) (sv i) (eig (Mm i) (Tm c i)) (eig (Nb i) (E c 3)) (eig (Nb i) (E c 1)),
       4 * quad4 (P i) (KS i) 3 2 + 4 * D2 (lam i) (ev i) (dv i) (sv i) (eig (Mm i) (Tm c i)) (eig (Nb i) (E c 3)) (eig (Nb i) (E c 2)),
       4 * quad4 (P i) (KS i) 3 3 + 4 * D2 (lam i) (ev i) (dv i) (sv i) (eig (Mm i) (Tm c i)) (eig (Nb i) (E c 3)) (eig (Nb i) (E c 3))] := by
  simp only [Gen2TL.N2_L_material_Kr3_0_full, Gen2TL.N2_L_material_Kr3_1_full, Gen2TL.N2_L_material_Kr3_2_full, Gen2TL.N2_L_material_Kr3_3_full]
  rw [struct_row3 c c3 fn i (cuts c c3 fn i)]
  rw [so_cuts c c3 fn hc i h01 3 0 (by decide) (by decide), so_cuts c c3 fn hc i h01 3 1 (by decide) (by decide),
    so_cuts c c3 fn hc i h01 3 2 (by decide) (by decide), so_cuts c c3 fn hc i h01 3 3 (by decide) (by decide)]
end N2_L_material

/-! ## tangent operator conversion, Eulerian setting (spatial moduli) -/
namespace N2_E_spatial
abbrev In := Gen2TE.N2_E_spatial_In
abbrev Cut := Gen2TE.N2_E_spatial_Cut
def Mm (i : In K) : M3 K := ⟨i.m00, i.m01, 0, i.m10, i.m11, 0, 0, 0, 1⟩
def FE (i : In K) : M3 K := M3.ofTens [i.F0, i.F1, i.F2, i.F3, i.F4]
def Tm (c : K) (i : In K) : M3 K := M3.sym i.T0 i.T1 i.T2 (i.T3 / c) 0 0
def P (i : In K) : Fin 6 → Fin 6 → K := (mat6 (vec6 i.p0_0 i.p0_1 i.p0_2 i.p0_3 0 0) (vec6 i.p1_0 i.p1_1 i.p1_2 i.p1_3 0 0) (vec6 i.p2_0 i.p2_1 i.p2_2 i.p2_3 0 0) (vec6 i.p3_0 i.p3_1 i.p3_2 i.p3_3 0 0) (vec6 0 0 0 0 0 0) (vec6 0 0 0 0 0 0))
def KS (i : In K) : Fin 6 → Fin 6 → K := (mat6 (vec6 i.K0_0 i.K0_1 i.K0_2 i.K0_3 0 0) (vec6 i.K1_0 i.K1_1 i.K1_2 i.K1_3 0 0) (vec6 i.K2_0 i.K2_1 i.K2_2 i.K2_3 0 0) (vec6 i.K3_0 i.K3_1 i.K3_2 i.K3_3 0 0) (vec6 0 0 0 0 0 0) (vec6 0 0 0 0 0 0))
def lam (i : In K) : Fin 3 → K | 0 => i.vp0 | 1 => i.vp1 | 2 => i.vp2
def ev (i : In K) : Fin 3 → K | 0 => i.e0 | 1 => i.e1 | 2 => i.e2
def dv (i : In K) : Fin 3 → K | 0 => 1 / (2 * i.vp0) | 1 => 1 / (2 * i.vp1) | 2 => 1 / (2 * i.vp2)
def sv (i : In K) : Fin 3 → K
  | 0 => -1 / (2 * (i.vp0 * i.vp0)) | 1 => -1 / (2 * (i.vp1 * i.vp1)) | 2 => -1 / (2 * (i.vp2 * i.vp2))
/-- basis in which the arguments `X, Y` of the second order term are expressed: `v_i` (material) or `F v_i` (spatial) -/
def Nb (i : In K) : M3 K := FE i * Mm i
def zmat (i : In K) (k : Cut K) : M3 K := ⟨k.z0, k.z3, 0, k.z3, k.z1, 0, 0, 0, i.T2⟩
def Xc0 (i : In K) (k : Cut K) : M3 K := ⟨k.M0_0 / 2, k.M3_0 / 2, 0, k.M3_0 / 2, k.M1_0 / 2, 0, 0, 0, 0⟩
def Xc1 (i : In K) (k : Cut K) : M3 K := ⟨k.M0_1 / 2, k.M3_1 / 2, 0, k.M3_1 / 2, k.M1_1 / 2, 0, 0, 0, 0⟩
def Xc2 (i : In K) (k : Cut K) : M3 K := ⟨0, 0, 0, 0, 0, 0, 0, 0, k.M2_2 / 2⟩
def Xc3 (i : In K) (k : Cut K) : M3 K := ⟨k.M0_3 / 2, k.M3_3 / 2, 0, k.M3_3 / 2, k.M1_3 / 2, 0, 0, 0, 0⟩
def Xc (i : In K) (k : Cut K) : Fin 6 → M3 K | 0 => Xc0 i k | 1 => Xc1 i k | 2 => Xc2 i k | 3 => Xc3 i k | _ => Xc0 i k
def so (i : In K) (k : Cut K) (a b : Fin 6) : K :=
  miehe2 k.f0 k.f1 k.f2 k.xi0 k.xi1 (zmat i k) (Xc i k a) (Xc i k b)

/-! structure of the traced formula (cut values free) -/
theorem struct_row0 (i : In K) (k : Cut K) :
    [Gen2TE.N2_E_spatial_Kr0_0 c c3 fn i k, Gen2TE.N2_E_spatial_Kr0_1 c c3 fn i k, Gen2TE.N2_E_spatial_Kr0_2 c c3 fn i k, Gen2TE.N2_E_spatial_Kr0_3 c c3 fn i k]
    = [4 * quad4 (P i) (KS i) 0 0 + so i k 0 0, 4 * quad4 (P i) (KS i) 0 1 + so i k 0 1, 4 * quad4 (P i) (KS i) 0 2 + so i k 0 2, 4 * quad4 (P i) (KS i) 0 3 + so i k 0 3] := by
  simp only [gen_simp, quad4, dot4, mat6, vec6, P, KS, so, miehe2, miehePair, zmat, Xc, Xc0, Xc1, Xc2, Xc3,
    List.cons.injEq, and_true]
  repeat' apply And.intro
  all_goals ring
theorem struct_row1 (i : In K) (k : Cut K) :
    [Gen2TE.N2_E_spatial_Kr1_0 c c3 fn i k, Gen2TE.N2_E_spatial_Kr1_1 c c3 fn i k, Gen2TE.N2_E_spatial_Kr1_2 c c3 fn i k, Gen2TE.N2_E_spatial_Kr1_3 c c3 fn i k]
    = [4 * quad4 (P i) (KS i) 1 0 + so i k 1 0, 4 * quad4 (P i) (KS i) 1 1 + so i k 1 1, 4 * quad4 (P i) (KS i) 1 2 + so i k 1 2, 4 * quad4 (P i) (KS i) 1 3 + so i k 1 3] := by
  simp only [gen_simp, quad4, dot4, mat6, vec6, P, KS, so, miehe2, miehePair, zmat, Xc, Xc0, Xc1, Xc2, Xc3,
    List.cons.injEq, and_true]
  repeat' apply And.intro
  all_goals ring
theorem struct_row2 (i : In K) (k : Cut K) :
    [Gen2TE.N2_E_spatial_Kr2_0 c c3 fn i k, Gen2TE.N2_E_spatial_Kr2_1 c c3 fn i k, Gen2TE.N2_E_spatial_Kr2_2 c c3 fn i k, Gen2TE.N2_E_spatial_Kr2_3 c c3 fn i k]
    = [4 * quad4 (P i) (KS i) 2 0 + so i k 2 0, 4 * quad4 (P i) (KS i) 2 1 + so i k 2 1, 4 * quad4 (P i) (KS i) 2 2 + so i k 2 2, 4 * quad4 (P i) (KS i) 2 3 + so i k 2 3] := by
  simp only [gen_simp, quad4, dot4, mat6, vec6, P, KS, so, miehe2, miehePair, zmat, Xc, Xc0, Xc1, Xc2, Xc3,
    List.cons.injEq, and_true]
  repeat' apply And.intro
  all_goals ring
theorem struct_row3 (i : In K) (k : Cut K) :
    [Gen2TE.N2_E_spatial_Kr3_0 c c3 fn i k, Gen2TE.N2_E_spatial_Kr3_1 c c3 fn i k, Gen2TE.N2_E_spatial_Kr3_2 c c3 fn i k, Gen2TE.N2_E_spatial_Kr3_3 c c3 fn i k]
    = [4 * quad4 (P i) (KS i) 3 0 + so i k 3 0, 4 * quad4 (P i) (KS i) 3 1 + so i k 3 1, 4 * quad4 (P i) (KS i) 3 2 + so i k 3 2, 4 * quad4 (P i) (KS i) 3 3 + so i k 3 3] := by
  simp only [gen_simp, quad4, dot4, mat6, vec6, P, KS, so, miehe2, miehePair, zmat, Xc, Xc0, Xc1, Xc2, Xc3,
    List.cons.injEq, and_true]
  repeat' apply And.intro
  all_goals ring

abbrev cuts (i : In K) : Cut K := Gen2TE.N2_E_spatial_cuts c c3 fn i

theorem zmat_cuts (hc : c * c = 2) (i : In K) : zmat i (cuts c c3 fn i) = eig (Mm i) (Tm c i) := by
  have hi : c⁻¹ = c / 2 := c_inv hc two_ne_zero
  simp only [zmat, cuts, Gen2TE.N2_E_spatial_cuts, gen_simp, eig, Mm, Tm, M3.sym, M3.mul_def, M3.mul, M3.transpose,
    M3.mk.injEq, div_eq_mul_inv, hi]
  repeat' apply And.intro
  all_goals c24_ring hc

theorem Xc_cuts (hc : c * c = 2) (i : In K) (a : Fin 6) (ha : a.val < 4) :
    Xc i (cuts c c3 fn i) a = eig (Nb i) (E c a) := by
  fin_cases a <;> (try (exfalso; revert ha; decide)) <;>
  · simp only [Xc, Xc0, Xc1, Xc2, Xc3, Nb, cuts, Gen2TE.N2_E_spatial_cuts, gen_simp, eig, Mm, FE, M3.ofTens, E, M3.sym,
      M3.mul_def, M3.mul, M3.transpose, M3.mk.injEq, Fin.zero_eta, Fin.mk_one, Fin.reduceFinMk, Fin.isValue]
    repeat' apply And.intro
    all_goals c24_ring hc

theorem coef_cuts (i : In K) :
    let k := cuts c c3 fn i
    k.f0 = 4 * sv i 0 ∧ k.f1 = 4 * sv i 1 ∧ k.f2 = 4 * sv i 2
    ∧ k.xi0 = xi i.vp0 i.vp1 i.e0 i.e1 (dv i 1) ∧ k.xi1 = xi i.vp1 i.vp0 i.e1 i.e0 (dv i 0) := by
  simp only [cuts, Gen2TE.N2_E_spatial_cuts, gen_simp, sv, dv, xi, one_div, inv_sub_swap i.vp0 i.vp1]
  repeat' apply And.intro
  all_goals (first | exact True.intro | ring)

theorem planar_eig (i : In K) (X : M3 K) (hX : Planar X) : Planar (eig (Nb i) X) := by
  obtain ⟨h1, h2, h3, h4⟩ := hX
  simp only [Planar, eig, Nb, Mm, FE, M3.ofTens, M3.mul_def, M3.mul, M3.transpose, h1, h2, h3, h4]
  refine ⟨?_, ?_, ?_, ?_⟩ <;> ring
theorem planar_eigM (i : In K) (X : M3 K) (hX : Planar X) : Planar (eig (Mm i) X) := by
  obtain ⟨h1, h2, h3, h4⟩ := hX
  simp only [Planar, eig, Mm, M3.mul_def, M3.mul, M3.transpose, h1, h2, h3, h4]
  refine ⟨?_, ?_, ?_, ?_⟩ <;> ring
theorem planar_E (a : Fin 6) (ha : a.val < 4) : Planar (E c a) := by
  fin_cases a <;> (try (exfalso; revert ha; decide)) <;> exact ⟨rfl, rfl, rfl, rfl⟩

theorem so_cuts (hc : c * c = 2) (i : In K) (h01 : i.vp0 ≠ i.vp1) (a b : Fin 6) (ha : a.val < 4) (hb : b.val < 4) :
    so i (cuts c c3 fn i) a b
      = 4 * D2 (lam i) (ev i) (dv i) (sv i) (eig (Mm i) (Tm c i)) (eig (Nb i) (E c a)) (eig (Nb i) (E c b)) := by
  obtain ⟨h0, h1, h2, h3, h4⟩ := coef_cuts c c3 fn i
  simp only [so]
  rw [zmat_cuts c c3 fn hc, Xc_cuts c c3 fn hc i a ha, Xc_cuts c c3 fn hc i b hb, h0, h1, h2, h3, h4]
  exact miehe2_eq_D2 (lam i) (ev i) (dv i) (sv i) _ _ _
    (isSym_eig _ _ (isSym_sym ..)) (isSym_eig _ _ (isSym_E c _)) (isSym_eig _ _ (isSym_E c _))
    (planar_eigM i _ ⟨rfl, rfl, rfl, rfl⟩) (planar_eig i _ (planar_E c a ha)) (planar_eig i _ (planar_E c b hb)) h01

theorem N2_E_spatial_row0 (hc : c * c = 2) (i : In K) (h01 : i.vp0 ≠ i.vp1) :
    [Gen2TE.N2_E_spatial_Kr0_0_full c c3 fn i, Gen2TE.N2_E_spatial_Kr0_1_full c c3 fn i, Gen2TE.N2_E_spatial_Kr0_2_full c c3 fn i, Gen2TE.N2_E_spatial_Kr0_3_full c c3 fn i]
    = [4 * quad4 (P i) (KS i) 0 0 + 4 * D2 (lam i) (ev i) (dv i) (sv i) (eig (Mm i) (Tm c i)) (eig (Nb i) (E c 0)) (eig (Nb i) (E c 0)),
       4 * quad4 (P i) (KS i) 0 1 + 4 * D2 (lam i) (ev i) (dv i) (sv i) (eig (Mm i) (Tm c i)) (eig (Nb i) (E c 0)) (eig (Nb i) (E c 1)),
       4 * quad4 (P i) (KS i) 0 2 + 4 * D2 (lam i) (ev i) (dv i) (sv i) (eig (Mm i) (Tm c i)) (eig (Nb i) (E c 0)) (eig (Nb i) (E c 2)),
       4 * quad4 (P i) (KS i) 0 3 + 4 * D2 (lam i) (ev i) (dv i) (sv i) (eig (Mm i) (Tm c i)) (eig (Nb i) (E c 0)) (eig (Nb i) (E c 3))] := by
  simp only [Gen2TE.N2_E_spatial_Kr0_0_full, Gen2TE.N2_E_spatial_Kr0_1_full, Gen2TE.N2_E_spatial_Kr0_2_full, Gen2TE.N2_E_spatial_Kr0_3_full]
  rw [struct_row0 c c3 fn i (cuts c c3 fn i)]
  rw [so_cuts c c3 fn hc i h01 0 0 (by decide) (by decide), so_cuts c c3 fn hc i h01 0 1 (by decide) (by decide),
    so_cuts c c3 fn hc i h01 0 2 (by decide) (by decide), so_cuts c c3 fn hc i h01 0 3 (by decide) (by decide)]

theorem N2_E_spatial_row1 (hc : c * c = 2) (i : In K) (h01 : i.vp0 ≠ i.vp1) :
    [Gen2TE.N2_E_spatial_Kr1_0_full c c3 fn i, Gen2TE.N2_E_spatial_Kr1_1_full c c3 fn i, Gen2TE.N2_E_spatial_Kr1_2_full c c3 fn i, Gen2TE.N2_E_spatial_Kr1_3_full c c3 fn i]
    = [4 * quad4 (P i) (KS i) 1 0 + 4 * D2 (lam i) (ev i) (dv i) (sv i) (eig (Mm i) (Tm c i)) (eig (Nb i) (E c 1)) (eig (Nb i) (E c 0)),
       4 * quad4 (P i) (KS i) 1 1 + 4 * D2 (lam i) (ev i) (dv i) (sv i) (eig (Mm i) (Tm c i)) (eig (Nb i) (E c 1)) (eig (Nb i) (E c 1)),
       4 * quad4 (P i) (KS i) 1 2 + 4 * D2 (lam i) (ev i) (dv i) (sv i) (eig (Mm i) (Tm c i)) (eig (Nb i) (E c 1)) (eig (Nb i) (E c 2)),
       4 * quad4 (P i) (KS i) 1 3 + 4 * D2 (lam i) (ev i) (dv i) (sv i) (eig (Mm i) (Tm c i)) (eig (Nb i) (E c 1)) (eig (Nb i) (E c 3))] := by
  simp only [Gen2TE.N2_E_spatial_Kr1_0_full, Gen2TE.N2_E_spatial_Kr1_1_full, Gen2TE.N2_E_spatial_Kr1_2_full, Gen2TE.N2_E_spatial_Kr1_3_full]
  rw [struct_row1 c c3 fn i (cuts c c3 fn i)]
  rw [so_cuts c c3 fn hc i h01 1 0 (by decide) (by decide), so_cuts c c3 fn hc i h01 1 1 (by decide) (by decide),
    so_cuts c c3 fn hc i h01 1 2 (by decide) (by decide), so_cuts c c3 fn hc i h01 1 3 (by decide) (by decide)]

theorem N2_E_spatial_row2 (hc : c * c = 2) (i : In K) (h01 : i.vp0 ≠ i.vp1) :
    [Gen2TE.N2_E_spatial_Kr2_0_full c c3 fn i, Gen2TE.N2_E_spatial_Kr2_1_full c c3 fn i, Gen2TE.N2_E_spatial_Kr2_2_full c c3 fn i, Gen2TE.N2_E_spatial_Kr2_3_full c c3 fn i]
    = [4 * quad4 (P i) (KS i) 2 0 + 4 * D2 (lam i) (ev i) (dv i) (sv i) (eig (Mm i) (Tm c i)) (eig (Nb i) (E c 2)) (eig (Nb i) (E c 0)),
       4 * quad4 (P i) (KS i) 2 1 + 4 * D2 (lam i) (ev i) (dv i) (sv i) (eig (Mm i) (Tm c i)) (eig (Nb i) (E c 2)) (eig (Nb i) (E c 1)),
       4 * quad4 (P i) (KS i) 2 2 + 4 * D2 (lam i) (ev i) (dv i) (sv i) (eig (Mm i) (Tm c i)) (eig (Nb i) (E c 2)) (eig (Nb i) (E c 2)),
       4 * quad4 (P i) (KS i) 2 3 + 4 * D2 (lam i) (ev i) (dv i) (sv i) (eig (Mm i) (Tm c i)) (eig (Nb i) (E c 2)) (eig (Nb i) (E c 3))] := by
  simp only [Gen2TE.N2_E_spatial_Kr2_0_full, Gen2TE.N2_E_spatial_Kr2_1_full, Gen2TE.N2_E_spatial_Kr2_2_full, Gen2TE.N2_E_spatial_Kr2_3_full]
  rw [struct_row2 c c3 fn i (cuts c c3 fn i)]
  rw [so_cuts c c3 fn hc i h01 2 0 (by decide) (by decide), so_cuts c c3 fn hc i h01 2 1 (by decide) (by decide),
    so_cuts c c3 fn hc i h01 2 2 (by decide) (by decide), so_cuts c c3 fn hc i h01 2 3 (by decide) (by decide)]

theorem N2_E_spatial_row3 (hc : c * c = 2) (i : In K) (h01 : i.vp0 ≠ i.vp1) :
    [Gen2TE.N2_E_spatial_Kr3_0_full c c3 fn i, Gen2TE.N2_E_spatial_Kr3_1_full c c3 fn i, Gen2TE.N2_E_spatial_Kr3_2_full c c3 fn i, Gen2TE.N2_E_spatial_Kr3_3_full c c3 fn i]
    = [4 * quad4 (P i) (KS i) 3 0 + 4 * D2 (lam i) (ev i) (dv i) (sv i) (eig (Mm i) (Tm c i)) (eig (Nb i) (E c 3)) (eig (Nb i) (E c 0)),
       4 * quad4 (P i) (KS i) 3 1 + 4 * D2 (lam i) (ev i) (dv i) (sv i) (eig (Mm i) (Tm c i)) (eig (Nb i) (E c 3)) (eig (Nb i) (E c 1)),
       4 * quad4 (P i) (KS i) 3 2 + 4 * D2 (lam i) (ev i) (dv i) (sv i) (eig (Mm i) (Tm c i)) (eig (Nb i) (E c 3)) (eig (Nb i) (E c 2)),
       4 * quad4 (P i) (KS i) 3 3 + 4 * D2 (lam i) (ev i) (dv i) (sv i) (eig (Mm i) (Tm c i)) (eig (Nb i) (E c 3)) (eig (Nb i) (E c 3))] := by
  simp only [Gen2TE.N2_E_spatial_Kr3_0_full, Gen2TE.N2_E_spatial_Kr3_1_full, Gen2TE.N2_E_spatial_Kr3_2_full, Gen2TE.N2_E_spatial_Kr3_3_full]
  rw [struct_row3 c c3 fn i (cuts c c3 fn i)]
  rw [so_cuts c c3 fn hc i h01 3 0 (by decide) (by decide), so_cuts c c3 fn hc i h01 3 1 (by decide) (by decide),
    so_cuts c c3 fn hc i h01 3 2 (by decide) (by decide), so_cuts c c3 fn hc i h01 3 3 (by decide) (by decide)]
end N2_E_spatial

end TfelVerif.C24.Props2
