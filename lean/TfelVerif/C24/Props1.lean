/-
  C24 — 1D (`LogarithmicStrainHandler<1u, Sym>`: diagonal tensors), proved in full, both settings.
  Property theorems only. No eigen-solver and no eps-branch in 1D: the handler is traced as is.

  * `N1_*_hencky`      : `E_log,i = log F_i` (both overloads), `log` uninterpreted
                         (`= ½ log C_i` with `C_i = F_i²` whenever `log (x²) = 2 log x`: `N1_hencky_half_log_C`);
  * `N1_*_stresses`    : `S_i = T_i / F_i²`, inverse `T_i = S_i F_i²`, `σ_i = T_i / det F`, inverse `T_i = σ_i det F`;
  * `N1_*_roundtrip`   : the inverse conversions are the inverse maps (F_i ≠ 0);
  * `N1_*_tangent`     : material moduli `(Ks_ij - 2 T_i δ_ij) / (F_i² F_j²)`, spatial moduli `Ks_ij - 2 T_i δ_ij`,
                         Truesdell-rate moduli `(Ks_ij - 2 T_i δ_ij) / det F`;
  * `N1_power_conjugacy`, `N1_tangent_is_derivative` : for EVERY derivation `δ` of the field (e.g. d/dt on
    functions of a loading parameter) with `δ(log F_i) = δF_i / F_i` (the chain rule for log, the only analytic
    input): `Σ T_i δE_log,i = Σ S_i δE_GL,i`, and if `δT_i = Σ_j Ks_ij δE_log,j` (tangent of the behaviour in the
    logarithmic space) then `δS_i = Σ_j Km_ij δE_GL,j` with `Km` the traced material moduli,
    `E_GL,i = (F_i² - 1)/2`.
-/
import TfelVerif.C24.Lemmas
import TfelVerif.C24.Gen1
import Mathlib.RingTheory.Derivation.Basic

namespace TfelVerif.C24.Props1
open TfelVerif TfelVerif.Mandel TfelVerif.C24
set_option linter.unusedVariables false
set_option linter.unusedSimpArgs false
set_option linter.unusedSectionVars false

variable {K : Type} [Field K] [CharZero K] (c c3 : K) (fn : Fns K)
variable (F0 F1 F2 T0 T1 T2 K0_0 K0_1 K0_2 K1_0 K1_1 K1_2 K2_0 K2_1 K2_2 : K)

/-! ## Lagrangian setting -/
theorem N1_L_hencky :
    [Gen1.N1_L_hencky_el0 c c3 fn F0 F1 F2, Gen1.N1_L_hencky_el1 c c3 fn F0 F1 F2, Gen1.N1_L_hencky_el2 c c3 fn F0 F1 F2, Gen1.N1_L_hencky_ea0 c c3 fn F0 F1 F2, Gen1.N1_L_hencky_ea1 c c3 fn F0 F1 F2, Gen1.N1_L_hencky_ea2 c c3 fn F0 F1 F2]
    = [fn.log F0, fn.log F1, fn.log F2, fn.log F0, fn.log F1, fn.log F2] := by
  simp only [gen_simp]

theorem N1_L_stresses :
    [Gen1.N1_L_stresses_S0 c c3 fn F0 F1 F2 T0 T1 T2, Gen1.N1_L_stresses_S1 c c3 fn F0 F1 F2 T0 T1 T2, Gen1.N1_L_stresses_S2 c c3 fn F0 F1 F2 T0 T1 T2, Gen1.N1_L_stresses_Sa0 c c3 fn F0 F1 F2 T0 T1 T2, Gen1.N1_L_stresses_Sa1 c c3 fn F0 F1 F2 T0 T1 T2, Gen1.N1_L_stresses_Sa2 c c3 fn F0 F1 F2 T0 T1 T2, Gen1.N1_L_stresses_Tb0 c c3 fn F0 F1 F2 T0 T1 T2, Gen1.N1_L_stresses_Tb1 c c3 fn F0 F1 F2 T0 T1 T2, Gen1.N1_L_stresses_Tb2 c c3 fn F0 F1 F2 T0 T1 T2, Gen1.N1_L_stresses_s0 c c3 fn F0 F1 F2 T0 T1 T2, Gen1.N1_L_stresses_s1 c c3 fn F0 F1 F2 T0 T1 T2, Gen1.N1_L_stresses_s2 c c3 fn F0 F1 F2 T0 T1 T2, Gen1.N1_L_stresses_Tc0 c c3 fn F0 F1 F2 T0 T1 T2, Gen1.N1_L_stresses_Tc1 c c3 fn F0 F1 F2 T0 T1 T2, Gen1.N1_L_stresses_Tc2 c c3 fn F0 F1 F2 T0 T1 T2]
    = [T0 / (F0 * F0), T1 / (F1 * F1), T2 / (F2 * F2), T0 / (F0 * F0), T1 / (F1 * F1), T2 / (F2 * F2),
       T0 * (F0 * F0), T1 * (F1 * F1), T2 * (F2 * F2),
       T0 / (F0 * F1 * F2), T1 / (F0 * F1 * F2), T2 / (F0 * F1 * F2),
       T0 * (F0 * F1 * F2), T1 * (F0 * F1 * F2), T2 * (F0 * F1 * F2)] := by
  simp only [gen_simp, List.cons.injEq, and_true]
  repeat' apply And.intro
  all_goals (first | exact True.intro | ring)

/-- `convertFromSecondPiolaKirchhoffStress ∘ convertToSecondPiolaKirchhoffStress = id`, same for Cauchy -/
theorem N1_L_roundtrip (h0 : F0 ≠ 0) (h1 : F1 ≠ 0) (h2 : F2 ≠ 0) :
    [Gen1.N1_L_stresses_Tb0 c c3 fn F0 F1 F2 (Gen1.N1_L_stresses_S0 c c3 fn F0 F1 F2 T0 T1 T2) (Gen1.N1_L_stresses_S1 c c3 fn F0 F1 F2 T0 T1 T2) (Gen1.N1_L_stresses_S2 c c3 fn F0 F1 F2 T0 T1 T2), Gen1.N1_L_stresses_Tb1 c c3 fn F0 F1 F2 (Gen1.N1_L_stresses_S0 c c3 fn F0 F1 F2 T0 T1 T2) (Gen1.N1_L_stresses_S1 c c3 fn F0 F1 F2 T0 T1 T2) (Gen1.N1_L_stresses_S2 c c3 fn F0 F1 F2 T0 T1 T2), Gen1.N1_L_stresses_Tb2 c c3 fn F0 F1 F2 (Gen1.N1_L_stresses_S0 c c3 fn F0 F1 F2 T0 T1 T2) (Gen1.N1_L_stresses_S1 c c3 fn F0 F1 F2 T0 T1 T2) (Gen1.N1_L_stresses_S2 c c3 fn F0 F1 F2 T0 T1 T2), Gen1.N1_L_stresses_Tc0 c c3 fn F0 F1 F2 (Gen1.N1_L_stresses_s0 c c3 fn F0 F1 F2 T0 T1 T2) (Gen1.N1_L_stresses_s1 c c3 fn F0 F1 F2 T0 T1 T2) (Gen1.N1_L_stresses_s2 c c3 fn F0 F1 F2 T0 T1 T2), Gen1.N1_L_stresses_Tc1 c c3 fn F0 F1 F2 (Gen1.N1_L_stresses_s0 c c3 fn F0 F1 F2 T0 T1 T2) (Gen1.N1_L_stresses_s1 c c3 fn F0 F1 F2 T0 T1 T2) (Gen1.N1_L_stresses_s2 c c3 fn F0 F1 F2 T0 T1 T2), Gen1.N1_L_stresses_Tc2 c c3 fn F0 F1 F2 (Gen1.N1_L_stresses_s0 c c3 fn F0 F1 F2 T0 T1 T2) (Gen1.N1_L_stresses_s1 c c3 fn F0 F1 F2 T0 T1 T2) (Gen1.N1_L_stresses_s2 c c3 fn F0 F1 F2 T0 T1 T2)]
    = [T0, T1, T2, T0, T1, T2] := by
  simp only [gen_simp, List.cons.injEq, and_true]
  repeat' apply And.intro
  all_goals (field_simp)

theorem N1_L_tangent :
    [Gen1.N1_L_tangent_Km0_0 c c3 fn F0 F1 F2 T0 T1 T2 K0_0 K0_1 K0_2 K1_0 K1_1 K1_2 K2_0 K2_1 K2_2, Gen1.N1_L_tangent_Km0_1 c c3 fn F0 F1 F2 T0 T1 T2 K0_0 K0_1 K0_2 K1_0 K1_1 K1_2 K2_0 K2_1 K2_2, Gen1.N1_L_tangent_Km0_2 c c3 fn F0 F1 F2 T0 T1 T2 K0_0 K0_1 K0_2 K1_0 K1_1 K1_2 K2_0 K2_1 K2_2, Gen1.N1_L_tangent_Km1_0 c c3 fn F0 F1 F2 T0 T1 T2 K0_0 K0_1 K0_2 K1_0 K1_1 K1_2 K2_0 K2_1 K2_2, Gen1.N1_L_tangent_Km1_1 c c3 fn F0 F1 F2 T0 T1 T2 K0_0 K0_1 K0_2 K1_0 K1_1 K1_2 K2_0 K2_1 K2_2, Gen1.N1_L_tangent_Km1_2 c c3 fn F0 F1 F2 T0 T1 T2 K0_0 K0_1 K0_2 K1_0 K1_1 K1_2 K2_0 K2_1 K2_2, Gen1.N1_L_tangent_Km2_0 c c3 fn F0 F1 F2 T0 T1 T2 K0_0 K0_1 K0_2 K1_0 K1_1 K1_2 K2_0 K2_1 K2_2, Gen1.N1_L_tangent_Km2_1 c c3 fn F0 F1 F2 T0 T1 T2 K0_0 K0_1 K0_2 K1_0 K1_1 K1_2 K2_0 K2_1 K2_2, Gen1.N1_L_tangent_Km2_2 c c3 fn F0 F1 F2 T0 T1 T2 K0_0 K0_1 K0_2 K1_0 K1_1 K1_2 K2_0 K2_1 K2_2, Gen1.N1_L_tangent_Ks0_0 c c3 fn F0 F1 F2 T0 T1 T2 K0_0 K0_1 K0_2 K1_0 K1_1 K1_2 K2_0 K2_1 K2_2, Gen1.N1_L_tangent_Ks0_1 c c3 fn F0 F1 F2 T0 T1 T2 K0_0 K0_1 K0_2 K1_0 K1_1 K1_2 K2_0 K2_1 K2_2, Gen1.N1_L_tangent_Ks0_2 c c3 fn F0 F1 F2 T0 T1 T2 K0_0 K0_1 K0_2 K1_0 K1_1 K1_2 K2_0 K2_1 K2_2, Gen1.N1_L_tangent_Ks1_0 c c3 fn F0 F1 F2 T0 T1 T2 K0_0 K0_1 K0_2 K1_0 K1_1 K1_2 K2_0 K2_1 K2_2, Gen1.N1_L_tangent_Ks1_1 c c3 fn F0 F1 F2 T0 T1 T2 K0_0 K0_1 K0_2 K1_0 K1_1 K1_2 K2_0 K2_1 K2_2, Gen1.N1_L_tangent_Ks1_2 c c3 fn F0 F1 F2 T0 T1 T2 K0_0 K0_1 K0_2 K1_0 K1_1 K1_2 K2_0 K2_1 K2_2, Gen1.N1_L_tangent_Ks2_0 c c3 fn F0 F1 F2 T0 T1 T2 K0_0 K0_1 K0_2 K1_0 K1_1 K1_2 K2_0 K2_1 K2_2, Gen1.N1_L_tangent_Ks2_1 c c3 fn F0 F1 F2 T0 T1 T2 K0_0 K0_1 K0_2 K1_0 K1_1 K1_2 K2_0 K2_1 K2_2, Gen1.N1_L_tangent_Ks2_2 c c3 fn F0 F1 F2 T0 T1 T2 K0_0 K0_1 K0_2 K1_0 K1_1 K1_2 K2_0 K2_1 K2_2, Gen1.N1_L_tangent_Kt0_0 c c3 fn F0 F1 F2 T0 T1 T2 K0_0 K0_1 K0_2 K1_0 K1_1 K1_2 K2_0 K2_1 K2_2, Gen1.N1_L_tangent_Kt0_1 c c3 fn F0 F1 F2 T0 T1 T2 K0_0 K0_1 K0_2 K1_0 K1_1 K1_2 K2_0 K2_1 K2_2, Gen1.N1_L_tangent_Kt0_2 c c3 fn F0 F1 F2 T0 T1 T2 K0_0 K0_1 K0_2 K1_0 K1_1 K1_2 K2_0 K2_1 K2_2, Gen1.N1_L_tangent_Kt1_0 c c3 fn F0 F1 F2 T0 T1 T2 K0_0 K0_1 K0_2 K1_0 K1_1 K1_2 K2_0 K2_1 K2_2, Gen1.N1_L_tangent_Kt1_1 c c3 fn F0 F1 F2 T0 T1 T2 K0_0 K0_1 K0_2 K1_0 K1_1 K1_2 K2_0 K2_1 K2_2, Gen1.N1_L_tangent_Kt1_2 c c3 fn F0 F1 F2 T0 T1 T2 K0_0 K0_1 K0_2 K1_0 K1_1 K1_2 K2_0 K2_1 K2_2, Gen1.N1_L_tangent_Kt2_0 c c3 fn F0 F1 F2 T0 T1 T2 K0_0 K0_1 K0_2 K1_0 K1_1 K1_2 K2_0 K2_1 K2_2, Gen1.N1_L_tangent_Kt2_1 c c3 fn F0 F1 F2 T0 T1 T2 K0_0 K0_1 K0_2 K1_0 K1_1 K1_2 K2_0 K2_1 K2_2, Gen1.N1_L_tangent_Kt2_2 c c3 fn F0 F1 F2 T0 T1 T2 K0_0 K0_1 K0_2 K1_0 K1_1 K1_2 K2_0 K2_1 K2_2]
    = [(K0_0 - 2 * T0) / (F0 * F0 * (F0 * F0)), K0_1 / (F0 * F0 * (F1 * F1)), K0_2 / (F0 * F0 * (F2 * F2)),
       K1_0 / (F1 * F1 * (F0 * F0)), (K1_1 - 2 * T1) / (F1 * F1 * (F1 * F1)), K1_2 / (F1 * F1 * (F2 * F2)),
       K2_0 / (F2 * F2 * (F0 * F0)), K2_1 / (F2 * F2 * (F1 * F1)), (K2_2 - 2 * T2) / (F2 * F2 * (F2 * F2)),
       K0_0 - 2 * T0, K0_1, K0_2, K1_0, K1_1 - 2 * T1, K1_2, K2_0, K2_1, K2_2 - 2 * T2,
       (K0_0 - 2 * T0) / (F0 * F1 * F2), K0_1 / (F0 * F1 * F2), K0_2 / (F0 * F1 * F2),
       K1_0 / (F0 * F1 * F2), (K1_1 - 2 * T1) / (F0 * F1 * F2), K1_2 / (F0 * F1 * F2),
       K2_0 / (F0 * F1 * F2), K2_1 / (F0 * F1 * F2), (K2_2 - 2 * T2) / (F0 * F1 * F2)] := by
  simp only [gen_simp, List.cons.injEq, and_true]
  repeat' apply And.intro
  all_goals (first | exact True.intro | ring)

/-! ## Eulerian setting -/
theorem N1_E_hencky :
    [Gen1.N1_E_hencky_el0 c c3 fn F0 F1 F2, Gen1.N1_E_hencky_el1 c c3 fn F0 F1 F2, Gen1.N1_E_hencky_el2 c c3 fn F0 F1 F2, Gen1.N1_E_hencky_ea0 c c3 fn F0 F1 F2, Gen1.N1_E_hencky_ea1 c c3 fn F0 F1 F2, Gen1.N1_E_hencky_ea2 c c3 fn F0 F1 F2]
    = [fn.log F0, fn.log F1, fn.log F2, fn.log F0, fn.log F1, fn.log F2] := by
  simp only [gen_simp]

theorem N1_E_stresses :
    [Gen1.N1_E_stresses_S0 c c3 fn F0 F1 F2 T0 T1 T2, Gen1.N1_E_stresses_S1 c c3 fn F0 F1 F2 T0 T1 T2, Gen1.N1_E_stresses_S2 c c3 fn F0 F1 F2 T0 T1 T2, Gen1.N1_E_stresses_Sa0 c c3 fn F0 F1 F2 T0 T1 T2, Gen1.N1_E_stresses_Sa1 c c3 fn F0 F1 F2 T0 T1 T2, Gen1.N1_E_stresses_Sa2 c c3 fn F0 F1 F2 T0 T1 T2, Gen1.N1_E_stresses_Tb0 c c3 fn F0 F1 F2 T0 T1 T2, Gen1.N1_E_stresses_Tb1 c c3 fn F0 F1 F2 T0 T1 T2, Gen1.N1_E_stresses_Tb2 c c3 fn F0 F1 F2 T0 T1 T2, Gen1.N1_E_stresses_s0 c c3 fn F0 F1 F2 T0 T1 T2, Gen1.N1_E_stresses_s1 c c3 fn F0 F1 F2 T0 T1 T2, Gen1.N1_E_stresses_s2 c c3 fn F0 F1 F2 T0 T1 T2, Gen1.N1_E_stresses_Tc0 c c3 fn F0 F1 F2 T0 T1 T2, Gen1.N1_E_stresses_Tc1 c c3 fn F0 F1 F2 T0 T1 T2, Gen1.N1_E_stresses_Tc2 c c3 fn F0 F1 F2 T0 T1 T2]
    = [T0 / (F0 * F0), T1 / (F1 * F1), T2 / (F2 * F2), T0 / (F0 * F0), T1 / (F1 * F1), T2 / (F2 * F2),
       T0 * (F0 * F0), T1 * (F1 * F1), T2 * (F2 * F2),
       T0 / (F0 * F1 * F2), T1 / (F0 * F1 * F2), T2 / (F0 * F1 * F2),
       T0 * (F0 * F1 * F2), T1 * (F0 * F1 * F2), T2 * (F0 * F1 * F2)] := by
  simp only [gen_simp, List.cons.injEq, and_true]
  repeat' apply And.intro
  all_goals (first | exact True.intro | ring)

/-- `convertFromSecondPiolaKirchhoffStress ∘ convertToSecondPiolaKirchhoffStress = id`, same for Cauchy -/
theorem N1_E_roundtrip (h0 : F0 ≠ 0) (h1 : F1 ≠ 0) (h2 : F2 ≠ 0) :
    [Gen1.N1_E_stresses_Tb0 c c3 fn F0 F1 F2 (Gen1.N1_E_stresses_S0 c c3 fn F0 F1 F2 T0 T1 T2) (Gen1.N1_E_stresses_S1 c c3 fn F0 F1 F2 T0 T1 T2) (Gen1.N1_E_stresses_S2 c c3 fn F0 F1 F2 T0 T1 T2), Gen1.N1_E_stresses_Tb1 c c3 fn F0 F1 F2 (Gen1.N1_E_stresses_S0 c c3 fn F0 F1 F2 T0 T1 T2) (Gen1.N1_E_stresses_S1 c c3 fn F0 F1 F2 T0 T1 T2) (Gen1.N1_E_stresses_S2 c c3 fn F0 F1 F2 T0 T1 T2), Gen1.N1_E_stresses_Tb2 c c3 fn F0 F1 F2 (Gen1.N1_E_stresses_S0 c c3 fn F0 F1 F2 T0 T1 T2) (Gen1.N1_E_stresses_S1 c c3 fn F0 F1 F2 T0 T1 T2) (Gen1.N1_E_stresses_S2 c c3 fn F0 F1 F2 T0 T1 T2), Gen1.N1_E_stresses_Tc0 c c3 fn F0 F1 F2 (Gen1.N1_E_stresses_s0 c c3 fn F0 F1 F2 T0 T1 T2) (Gen1.N1_E_stresses_s1 c c3 fn F0 F1 F2 T0 T1 T2) (Gen1.N1_E_stresses_s2 c c3 fn F0 F1 F2 T0 T1 T2), Gen1.N1_E_stresses_Tc1 c c3 fn F0 F1 F2 (Gen1.N1_E_stresses_s0 c c3 fn F0 F1 F2 T0 T1 T2) (Gen1.N1_E_stresses_s1 c c3 fn F0 F1 F2 T0 T1 T2) (Gen1.N1_E_stresses_s2 c c3 fn F0 F1 F2 T0 T1 T2), Gen1.N1_E_stresses_Tc2 c c3 fn F0 F1 F2 (Gen1.N1_E_stresses_s0 c c3 fn F0 F1 F2 T0 T1 T2) (Gen1.N1_E_stresses_s1 c c3 fn F0 F1 F2 T0 T1 T2) (Gen1.N1_E_stresses_s2 c c3 fn F0 F1 F2 T0 T1 T2)]
    = [T0, T1, T2, T0, T1, T2] := by
  simp only [gen_simp, List.cons.injEq, and_true]
  repeat' apply And.intro
  all_goals (field_simp)

theorem N1_E_tangent :
    [Gen1.N1_E_tangent_Km0_0 c c3 fn F0 F1 F2 T0 T1 T2 K0_0 K0_1 K0_2 K1_0 K1_1 K1_2 K2_0 K2_1 K2_2, Gen1.N1_E_tangent_Km0_1 c c3 fn F0 F1 F2 T0 T1 T2 K0_0 K0_1 K0_2 K1_0 K1_1 K1_2 K2_0 K2_1 K2_2, Gen1.N1_E_tangent_Km0_2 c c3 fn F0 F1 F2 T0 T1 T2 K0_0 K0_1 K0_2 K1_0 K1_1 K1_2 K2_0 K2_1 K2_2, Gen1.N1_E_tangent_Km1_0 c c3 fn F0 F1 F2 T0 T1 T2 K0_0 K0_1 K0_2 K1_0 K1_1 K1_2 K2_0 K2_1 K2_2, Gen1.N1_E_tangent_Km1_1 c c3 fn F0 F1 F2 T0 T1 T2 K0_0 K0_1 K0_2 K1_0 K1_1 K1_2 K2_0 K2_1 K2_2, Gen1.N1_E_tangent_Km1_2 c c3 fn F0 F1 F2 T0 T1 T2 K0_0 K0_1 K0_2 K1_0 K1_1 K1_2 K2_0 K2_1 K2_2, Gen1.N1_E_tangent_Km2_0 c c3 fn F0 F1 F2 T0 T1 T2 K0_0 K0_1 K0_2 K1_0 K1_1 K1_2 K2_0 K2_1 K2_2, Gen1.N1_E_tangent_Km2_1 c c3 fn F0 F1 F2 T0 T1 T2 K0_0 K0_1 K0_2 K1_0 K1_1 K1_2 K2_0 K2_1 K2_2, Gen1.N1_E_tangent_Km2_2 c c3 fn F0 F1 F2 T0 T1 T2 K0_0 K0_1 K0_2 K1_0 K1_1 K1_2 K2_0 K2_1 K2_2, Gen1.N1_E_tangent_Ks0_0 c c3 fn F0 F1 F2 T0 T1 T2 K0_0 K0_1 K0_2 K1_0 K1_1 K1_2 K2_0 K2_1 K2_2, Gen1.N1_E_tangent_Ks0_1 c c3 fn F0 F1 F2 T0 T1 T2 K0_0 K0_1 K0_2 K1_0 K1_1 K1_2 K2_0 K2_1 K2_2, Gen1.N1_E_tangent_Ks0_2 c c3 fn F0 F1 F2 T0 T1 T2 K0_0 K0_1 K0_2 K1_0 K1_1 K1_2 K2_0 K2_1 K2_2, Gen1.N1_E_tangent_Ks1_0 c c3 fn F0 F1 F2 T0 T1 T2 K0_0 K0_1 K0_2 K1_0 K1_1 K1_2 K2_0 K2_1 K2_2, Gen1.N1_E_tangent_Ks1_1 c c3 fn F0 F1 F2 T0 T1 T2 K0_0 K0_1 K0_2 K1_0 K1_1 K1_2 K2_0 K2_1 K2_2, Gen1.N1_E_tangent_Ks1_2 c c3 fn F0 F1 F2 T0 T1 T2 K0_0 K0_1 K0_2 K1_0 K1_1 K1_2 K2_0 K2_1 K2_2, Gen1.N1_E_tangent_Ks2_0 c c3 fn F0 F1 F2 T0 T1 T2 K0_0 K0_1 K0_2 K1_0 K1_1 K1_2 K2_0 K2_1 K2_2, Gen1.N1_E_tangent_Ks2_1 c c3 fn F0 F1 F2 T0 T1 T2 K0_0 K0_1 K0_2 K1_0 K1_1 K1_2 K2_0 K2_1 K2_2, Gen1.N1_E_tangent_Ks2_2 c c3 fn F0 F1 F2 T0 T1 T2 K0_0 K0_1 K0_2 K1_0 K1_1 K1_2 K2_0 K2_1 K2_2, Gen1.N1_E_tangent_Kt0_0 c c3 fn F0 F1 F2 T0 T1 T2 K0_0 K0_1 K0_2 K1_0 K1_1 K1_2 K2_0 K2_1 K2_2, Gen1.N1_E_tangent_Kt0_1 c c3 fn F0 F1 F2 T0 T1 T2 K0_0 K0_1 K0_2 K1_0 K1_1 K1_2 K2_0 K2_1 K2_2, Gen1.N1_E_tangent_Kt0_2 c c3 fn F0 F1 F2 T0 T1 T2 K0_0 K0_1 K0_2 K1_0 K1_1 K1_2 K2_0 K2_1 K2_2, Gen1.N1_E_tangent_Kt1_0 c c3 fn F0 F1 F2 T0 T1 T2 K0_0 K0_1 K0_2 K1_0 K1_1 K1_2 K2_0 K2_1 K2_2, Gen1.N1_E_tangent_Kt1_1 c c3 fn F0 F1 F2 T0 T1 T2 K0_0 K0_1 K0_2 K1_0 K1_1 K1_2 K2_0 K2_1 K2_2, Gen1.N1_E_tangent_Kt1_2 c c3 fn F0 F1 F2 T0 T1 T2 K0_0 K0_1 K0_2 K1_0 K1_1 K1_2 K2_0 K2_1 K2_2, Gen1.N1_E_tangent_Kt2_0 c c3 fn F0 F1 F2 T0 T1 T2 K0_0 K0_1 K0_2 K1_0 K1_1 K1_2 K2_0 K2_1 K2_2, Gen1.N1_E_tangent_Kt2_1 c c3 fn F0 F1 F2 T0 T1 T2 K0_0 K0_1 K0_2 K1_0 K1_1 K1_2 K2_0 K2_1 K2_2, Gen1.N1_E_tangent_Kt2_2 c c3 fn F0 F1 F2 T0 T1 T2 K0_0 K0_1 K0_2 K1_0 K1_1 K1_2 K2_0 K2_1 K2_2]
    = [(K0_0 - 2 * T0) / (F0 * F0 * (F0 * F0)), K0_1 / (F0 * F0 * (F1 * F1)), K0_2 / (F0 * F0 * (F2 * F2)),
       K1_0 / (F1 * F1 * (F0 * F0)), (K1_1 - 2 * T1) / (F1 * F1 * (F1 * F1)), K1_2 / (F1 * F1 * (F2 * F2)),
       K2_0 / (F2 * F2 * (F0 * F0)), K2_1 / (F2 * F2 * (F1 * F1)), (K2_2 - 2 * T2) / (F2 * F2 * (F2 * F2)),
       K0_0 - 2 * T0, K0_1, K0_2, K1_0, K1_1 - 2 * T1, K1_2, K2_0, K2_1, K2_2 - 2 * T2,
       (K0_0 - 2 * T0) / (F0 * F1 * F2), K0_1 / (F0 * F1 * F2), K0_2 / (F0 * F1 * F2),
       K1_0 / (F0 * F1 * F2), (K1_1 - 2 * T1) / (F0 * F1 * F2), K1_2 / (F0 * F1 * F2),
       K2_0 / (F0 * F1 * F2), K2_1 / (F0 * F1 * F2), (K2_2 - 2 * T2) / (F0 * F1 * F2)] := by
  simp only [gen_simp, List.cons.injEq, and_true]
  repeat' apply And.intro
  all_goals (first | exact True.intro | ring)

/-! ## meaning: ½ log C, stress power, derivative of the converted stress -/

/-- with `log (x * x) = 2 log x` (true for the real logarithm on x > 0) the 1D Hencky strain is `½ log C_i`, `C = Fᵀ F` -/
theorem N1_hencky_half_log_C (hlog : ∀ x : K, fn.log (x * x) = 2 * fn.log x) :
    [Gen1.N1_L_hencky_el0 c c3 fn F0 F1 F2, Gen1.N1_L_hencky_el1 c c3 fn F0 F1 F2, Gen1.N1_L_hencky_el2 c c3 fn F0 F1 F2]
    = [fn.log (F0 * F0) / 2, fn.log (F1 * F1) / 2, fn.log (F2 * F2) / 2] := by
  simp only [gen_simp, hlog, List.cons.injEq, and_true]
  refine ⟨?_, ?_, ?_⟩ <;> ring

section calculus
variable (δ : Derivation ℤ K K)

/-- stress power: `T : δE_log = S : δE_GL` for every derivation with `δ(log F_i) = δF_i / F_i` -/
theorem N1_power_conjugacy (h0 : F0 ≠ 0) (h1 : F1 ≠ 0) (h2 : F2 ≠ 0)
    (hl0 : δ (fn.log F0) = δ F0 / F0) (hl1 : δ (fn.log F1) = δ F1 / F1) (hl2 : δ (fn.log F2) = δ F2 / F2) :
    T0 * δ (Gen1.N1_L_hencky_el0 c c3 fn F0 F1 F2) + T1 * δ (Gen1.N1_L_hencky_el1 c c3 fn F0 F1 F2)
      + T2 * δ (Gen1.N1_L_hencky_el2 c c3 fn F0 F1 F2)
    = Gen1.N1_L_stresses_S0 c c3 fn F0 F1 F2 T0 T1 T2 * δ ((F0 * F0 - 1) / 2)
      + Gen1.N1_L_stresses_S1 c c3 fn F0 F1 F2 T0 T1 T2 * δ ((F1 * F1 - 1) / 2)
      + Gen1.N1_L_stresses_S2 c c3 fn F0 F1 F2 T0 T1 T2 * δ ((F2 * F2 - 1) / 2) := by
  have d2 : δ (2 : K) = 0 := by simpa using δ.map_natCast 2
  have d1 : δ (1 : K) = 0 := δ.map_one_eq_zero
  simp only [gen_simp, hl0, hl1, hl2, Derivation.leibniz_div, Derivation.leibniz, Derivation.map_sub, d1, d2, smul_eq_mul]
  field_simp
  ring

/-- the converted tangent is the derivative of the converted stress: if `δT = Ks : δE_log` then
`δS = Km : δE_GL` with `Km = convertToMaterialTangentModuli(Ks, T)` -/
theorem N1_tangent_is_derivative (h0 : F0 ≠ 0) (h1 : F1 ≠ 0) (h2 : F2 ≠ 0)
    (hl0 : δ (fn.log F0) = δ F0 / F0) (hl1 : δ (fn.log F1) = δ F1 / F1) (hl2 : δ (fn.log F2) = δ F2 / F2)
    (hT0 : δ T0 = K0_0 * δ (fn.log F0) + K0_1 * δ (fn.log F1) + K0_2 * δ (fn.log F2))
    (hT1 : δ T1 = K1_0 * δ (fn.log F0) + K1_1 * δ (fn.log F1) + K1_2 * δ (fn.log F2))
    (hT2 : δ T2 = K2_0 * δ (fn.log F0) + K2_1 * δ (fn.log F1) + K2_2 * δ (fn.log F2)) :
    [δ (Gen1.N1_L_stresses_S0 c c3 fn F0 F1 F2 T0 T1 T2), δ (Gen1.N1_L_stresses_S1 c c3 fn F0 F1 F2 T0 T1 T2),
     δ (Gen1.N1_L_stresses_S2 c c3 fn F0 F1 F2 T0 T1 T2)]
    = [Gen1.N1_L_tangent_Km0_0 c c3 fn F0 F1 F2 T0 T1 T2 K0_0 K0_1 K0_2 K1_0 K1_1 K1_2 K2_0 K2_1 K2_2 * δ ((F0 * F0 - 1) / 2) + Gen1.N1_L_tangent_Km0_1 c c3 fn F0 F1 F2 T0 T1 T2 K0_0 K0_1 K0_2 K1_0 K1_1 K1_2 K2_0 K2_1 K2_2 * δ ((F1 * F1 - 1) / 2) + Gen1.N1_L_tangent_Km0_2 c c3 fn F0 F1 F2 T0 T1 T2 K0_0 K0_1 K0_2 K1_0 K1_1 K1_2 K2_0 K2_1 K2_2 * δ ((F2 * F2 - 1) / 2),
       Gen1.N1_L_tangent_Km1_0 c c3 fn F0 F1 F2 T0 T1 T2 K0_0 K0_1 K0_2 K1_0 K1_1 K1_2 K2_0 K2_1 K2_2 * δ ((F0 * F0 - 1) / 2) + Gen1.N1_L_tangent_Km1_1 c c3 fn F0 F1 F2 T0 T1 T2 K0_0 K0_1 K0_2 K1_0 K1_1 K1_2 K2_0 K2_1 K2_2 * δ ((F1 * F1 - 1) / 2) + Gen1.N1_L_tangent_Km1_2 c c3 fn F0 F1 F2 T0 T1 T2 K0_0 K0_1 K0_2 K1_0 K1_1 K1_2 K2_0 K2_1 K2_2 * δ ((F2 * F2 - 1) / 2),
       Gen1.N1_L_tangent_Km2_0 c c3 fn F0 F1 F2 T0 T1 T2 K0_0 K0_1 K0_2 K1_0 K1_1 K1_2 K2_0 K2_1 K2_2 * δ ((F0 * F0 - 1) / 2) + Gen1.N1_L_tangent_Km2_1 c c3 fn F0 F1 F2 T0 T1 T2 K0_0 K0_1 K0_2 K1_0 K1_1 K1_2 K2_0 K2_1 K2_2 * δ ((F1 * F1 - 1) / 2) + Gen1.N1_L_tangent_Km2_2 c c3 fn F0 F1 F2 T0 T1 T2 K0_0 K0_1 K0_2 K1_0 K1_1 K1_2 K2_0 K2_1 K2_2 * δ ((F2 * F2 - 1) / 2)] := by
  have d2 : δ (2 : K) = 0 := by simpa using δ.map_natCast 2
  have d1 : δ (1 : K) = 0 := δ.map_one_eq_zero
  simp only [gen_simp, hT0, hT1, hT2, hl0, hl1, hl2, Derivation.leibniz_div, Derivation.leibniz, Derivation.map_sub,
    d1, d2, smul_eq_mul, List.cons.injEq, and_true]
  refine ⟨?_, ?_, ?_⟩ <;> (field_simp; ring)

/-- non-vacuity: the hypotheses hold e.g. for the zero derivation (constant state) -/
example : ∃ δ : Derivation ℤ K K, δ (fn.log F0) = δ F0 / F0 := ⟨0, by simp⟩
end calculus

end TfelVerif.C24.Props1
