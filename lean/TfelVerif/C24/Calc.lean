/-
  C24 — what the Daleckii–Krein form means: it is the derivative of the isotropic tensor function.
  Property theorems only (the reference definitions are in Spec.lean, helper lemmas in Lemmas.lean).

  Setting: `K` any field of characteristic 0 with a derivation `δ` (think of functions of a loading
  parameter `t` with `δ = d/dt`; dual numbers / formal first order variations are the same thing). A state is
  an eigen-decomposition `C = M Λ Mᵀ` with `Mᵀ M = 1`; its variation is `δΛ` and `δM = M Ω` with `Ω`
  antisymmetric (every variation of an orthogonal matrix has this form). `e_i = f(l_i)` with
  `δ e_i = d_i δ l_i` — the chain rule for `f` (for the handler `f = ½ log`, `d_i = 1/(2 l_i)`), the only
  analytic fact entering C24.

  * `dk_is_derivative`   : `δ (M diag(e) Mᵀ) = M (Θ ⊙ (Mᵀ δC M)) Mᵀ`, `Θ` the first divided differences
                           (pairwise distinct eigenvalues);
  * `DK_toMatrix`        : the `M3` definition `Spec.DK` used in Props2/Props3B is this matrix expression;
  * `hencky_rate`        : hence `δE_log = 2 p : δE_GL` for `p` as characterised by `Props3B.N3_L_p_col*`
                           (`E_GL = (C - 1)/2`), and with `Props3S.N3_power_conjugacy`: `T : δE_log = S : δE_GL`.
-/
import TfelVerif.C24.Lemmas
import Mathlib.RingTheory.Derivation.Basic
import Mathlib.LinearAlgebra.Matrix.Hadamard
import Mathlib.Tactic.NoncommRing

namespace TfelVerif.C24.Calc
open TfelVerif TfelVerif.C24 Matrix
set_option linter.unusedVariables false
set_option linter.unusedSimpArgs false
set_option linter.unusedSectionVars false

variable {K : Type} [Field K] [CharZero K] (δ : Derivation ℤ K K)

abbrev Mat (K : Type) := Matrix (Fin 3) (Fin 3) K

/-- entrywise derivation of a matrix -/
def dM (A : Mat K) : Mat K := A.map δ

/-- first divided differences as a matrix: `Θ_ii = d_i`, `Θ_ij = (e_i - e_j)/(l_i - l_j)` -/
def Th (l e d : Fin 3 → K) : Mat K := Matrix.of fun i j => if i = j then d i else (e i - e j) / (l i - l j)

theorem dM_mul (A B : Mat K) : dM δ (A * B) = dM δ A * B + A * dM δ B := by
  ext i j
  simp only [dM, Matrix.map_apply, Matrix.mul_apply, Matrix.add_apply, map_sum, Derivation.leibniz, smul_eq_mul,
    Finset.sum_add_distrib]
  rw [add_comm]
  congr 1 <;> (apply Finset.sum_congr rfl; intro k _; ring)

theorem dM_transpose (A : Mat K) : dM δ Aᵀ = (dM δ A)ᵀ := by
  simp [dM, Matrix.transpose_map]

theorem dM_diagonal (v : Fin 3 → K) : dM δ (diagonal v) = diagonal (fun i => δ (v i)) := by
  simp [dM, Matrix.diagonal_map (map_zero δ)]

/-- variation of `M diag(v) Mᵀ` when `δM = M Ω`, `Ωᵀ = -Ω` -/
theorem d_conj (m ω : Mat K) (v : Fin 3 → K) (hω : ωᵀ = -ω) (hdm : dM δ m = m * ω) :
    dM δ (m * diagonal v * mᵀ)
      = m * (ω * diagonal v - diagonal v * ω + diagonal (fun i => δ (v i))) * mᵀ := by
  have hmt : dM δ mᵀ = -(ω * mᵀ) := by
    rw [dM_transpose, hdm, Matrix.transpose_mul, hω]; simp
  rw [dM_mul, dM_mul, hdm, hmt, dM_diagonal]
  noncomm_ring

/-- **Daleckii–Krein**: the derivative of the isotropic tensor function `C ↦ M f(Λ) Mᵀ`. -/
theorem dk_is_derivative (m ω : Mat K) (l e d : Fin 3 → K)
    (hm : mᵀ * m = 1) (hω : ωᵀ = -ω) (hdm : dM δ m = m * ω)
    (he : ∀ i, δ (e i) = d i * δ (l i)) (hl : ∀ i j, i ≠ j → l i ≠ l j) :
    dM δ (m * diagonal e * mᵀ)
      = m * (Th l e d ⊙ (mᵀ * dM δ (m * diagonal l * mᵀ) * m)) * mᵀ := by
  rw [d_conj δ m ω e hω hdm, d_conj δ m ω l hω hdm]
  have hy : ∀ Y : Mat K, mᵀ * (m * Y * mᵀ) * m = Y := by
    intro Y
    calc mᵀ * (m * Y * mᵀ) * m = (mᵀ * m) * Y * (mᵀ * m) := by noncomm_ring
      _ = Y := by rw [hm]; simp
  rw [hy]
  congr 2
  ext i j
  by_cases h : i = j
  · subst h
    simp [Th, Matrix.hadamard_apply, Matrix.mul_diagonal, Matrix.diagonal_mul, he]
    ring
  · have hne : l i - l j ≠ 0 := sub_ne_zero.mpr (hl i j h)
    simp [Th, Matrix.hadamard_apply, Matrix.mul_diagonal, Matrix.diagonal_mul, Matrix.diagonal_apply_ne _ h, h]
    field_simp
    ring

/-! ### bridge to the explicit 3×3 matrices of the property theorems -/

theorem hadamard_toMatrix (A B : M3 K) : (C24.hadamard A B).toMatrix = A.toMatrix ⊙ B.toMatrix := by
  ext i j; fin_cases i <;> fin_cases j <;> simp [M3.toMatrix, C24.hadamard, Matrix.hadamard_apply]

/-- `Spec.DK` is the matrix expression of `dk_is_derivative` -/
theorem DK_toMatrix (M Θ X : M3 K) :
    (DK M Θ X).toMatrix
      = M.toMatrix * (Θ.toMatrix ⊙ (M.toMatrixᵀ * X.toMatrix * M.toMatrix)) * M.toMatrixᵀ := by
  simp only [DK, eig, M3.toMatrix_mul, M3.toMatrix_transpose, hadamard_toMatrix]

/-- `Spec.theta` is `Th` (for pairwise distinct eigenvalues both orders of the divided difference agree) -/
theorem theta_toMatrix (l0 l1 l2 e0 e1 e2 d0 d1 d2 : K) :
    (theta l0 l1 l2 e0 e1 e2 d0 d1 d2).toMatrix = Th ![l0, l1, l2] ![e0, e1, e2] ![d0, d1, d2] := by
  ext i j; fin_cases i <;> fin_cases j <;> simp [M3.toMatrix, theta, dd1, Th]

theorem iso_toMatrix (M : M3 K) (e0 e1 e2 : K) :
    (iso M e0 e1 e2).toMatrix = M.toMatrix * diagonal ![e0, e1, e2] * M.toMatrixᵀ := by
  have : (M3.diag e0 e1 e2).toMatrix = diagonal ![e0, e1, e2] := by
    ext i j; fin_cases i <;> fin_cases j <;> simp [M3.toMatrix, M3.diag]
  simp only [iso, M3.toMatrix_mul, M3.toMatrix_transpose, this]

/-- Rate of the Hencky strain returned by the handler, in terms of the `M3` reference definitions:
`δ(iso M e) = DK M Θ (δC)` with `C = M diag(vp) Mᵀ`, i.e. `δE_log = (2 p) : δE_GL` for the `p` of
`Props3B.N3_L_p_col*` and `E_GL = (C - 1)/2`. -/
theorem hencky_rate (M Ω : M3 K) (l0 l1 l2 e0 e1 e2 d0 d1 d2 : K)
    (hm : M.transpose * M = 1) (hΩ : Ω.transpose.toMatrix = -Ω.toMatrix)
    (hdm : dM δ M.toMatrix = (M * Ω).toMatrix)
    (he0 : δ e0 = d0 * δ l0) (he1 : δ e1 = d1 * δ l1) (he2 : δ e2 = d2 * δ l2)
    (h01 : l0 ≠ l1) (h02 : l0 ≠ l2) (h12 : l1 ≠ l2) (dC : M3 K)
    (hdC : dC.toMatrix = dM δ (iso M l0 l1 l2).toMatrix) :
    dM δ (iso M e0 e1 e2).toMatrix = (DK M (theta l0 l1 l2 e0 e1 e2 d0 d1 d2) dC).toMatrix := by
  have hm' : M.toMatrixᵀ * M.toMatrix = 1 := by
    rw [← M3.toMatrix_transpose, ← M3.toMatrix_mul, hm, M3.toMatrix_one]
  rw [DK_toMatrix, theta_toMatrix, hdC, iso_toMatrix, iso_toMatrix]
  apply dk_is_derivative δ M.toMatrix Ω.toMatrix ![l0, l1, l2] ![e0, e1, e2] ![d0, d1, d2] hm'
  · rw [← M3.toMatrix_transpose]; exact hΩ
  · rw [hdm, M3.toMatrix_mul]
  · intro i; fin_cases i <;> simp [he0, he1, he2]
  · have h10 := h01.symm
    have h20 := h02.symm
    have h21 := h12.symm
    intro i j hij; fin_cases i <;> fin_cases j <;> simp_all

/-- non-vacuity of the hypotheses: the constant state (zero derivation), identity eigenvectors -/
example : ∃ (δ : Derivation ℤ K K) (m ω : Mat K), mᵀ * m = 1 ∧ ωᵀ = -ω ∧ dM δ m = m * ω :=
  ⟨0, 1, 0, by simp, by simp, by ext i j; simp [dM]⟩

end TfelVerif.C24.Calc
