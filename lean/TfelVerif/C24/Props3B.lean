/-
  C24 — 3D, constructor of the handler (`Builder`), generic eps-branch (pairwise distinct eigenvalues).
  Property theorems only.

  Units (harness/C24/trace.cxx): `N3_L_builder` / `N3_E_builder` = the real
  `LogarithmicStrainHandler<3u,Sym>(LAGRANGIAN | EULERIAN, F)` where the Jacobi eigen-solver kernel
  `fses::syevj3` is replaced by an oracle returning the input symbols `vp*` (eigenvalues) and `m**`
  (eigenvectors, columns); everything else is the shipped code. Outputs: the members `e`, `vp`, `p`, the
  matrix handed to the solver, `getHenckyLogarithmicStrain()` (both overloads).

  * `N3_solver_input`   : the matrix whose eigen-decomposition is requested is `C = Fᵀ F`;
  * `N3_builder_e`      : `e_i = log1p(vp_i - 1)/2` (`log1p` uninterpreted), `vp` is the oracle's;
  * `N3_hencky`         : `getHenckyLogarithmicStrain() = M diag(e) Mᵀ`  (= ½ log C when (vp, M) is the
                          eigen-decomposition of C: `Calc.hencky_is_half_log`), Abaqus overload: Voigt strain;
  * `N3_L_p_col{j}`     : `p : X = M (Θ ∘ (Mᵀ X M)) Mᵀ` (Daleckii–Krein form with Θ built from `e_i`,
                          `d_i = 1/(2 vp_i)`), column by column — no orthogonality of `M` is needed;
  * `N3_E_p_row{a}`     : Eulerian setting, `T | p = N (Θ ∘ (Mᵀ T M)) Nᵀ` with `N = F M`, i.e. the
                          push-forward `F (T | p_L) Fᵀ` of the Lagrangian result.
-/
import TfelVerif.C24.Lemmas
import TfelVerif.C24.Gen3B

namespace TfelVerif.C24.Props3B
open TfelVerif TfelVerif.Mandel TfelVerif.C24
set_option linter.unusedVariables false
set_option linter.unusedSimpArgs false
set_option linter.unusedSectionVars false
set_option maxRecDepth 100000

variable {K : Type} [Field K] [CharZero K] (c c3 : K) (fn : Fns K)

/-! ## Lagrangian setting -/
section L
variable (vp0 vp1 vp2 m00 m01 m02 m10 m11 m12 m20 m21 m22 F0 F1 F2 F3 F4 F5 F6 F7 F8 : K)

/-- eigenvectors returned by the oracle (columns) -/
abbrev Mo : M3 K := ⟨m00, m01, m02, m10, m11, m12, m20, m21, m22⟩
/-- deformation gradient from TFEL's tensor storage `(F00 F11 F22 F01 F10 F02 F20 F12 F21)` -/
abbrev Fo : M3 K := M3.ofTens [F0, F1, F2, F3, F4, F5, F6, F7, F8]

theorem N3_solver_input (hc : c * c = 2) :
    [Gen3B.N3_L_builder_C0 c c3 fn vp0 vp1 vp2 m00 m01 m02 m10 m11 m12 m20 m21 m22 F0 F1 F2 F3 F4 F5 F6 F7 F8, Gen3B.N3_L_builder_C1 c c3 fn vp0 vp1 vp2 m00 m01 m02 m10 m11 m12 m20 m21 m22 F0 F1 F2 F3 F4 F5 F6 F7 F8, Gen3B.N3_L_builder_C2 c c3 fn vp0 vp1 vp2 m00 m01 m02 m10 m11 m12 m20 m21 m22 F0 F1 F2 F3 F4 F5 F6 F7 F8, Gen3B.N3_L_builder_C3 c c3 fn vp0 vp1 vp2 m00 m01 m02 m10 m11 m12 m20 m21 m22 F0 F1 F2 F3 F4 F5 F6 F7 F8, Gen3B.N3_L_builder_C4 c c3 fn vp0 vp1 vp2 m00 m01 m02 m10 m11 m12 m20 m21 m22 F0 F1 F2 F3 F4 F5 F6 F7 F8, Gen3B.N3_L_builder_C5 c c3 fn vp0 vp1 vp2 m00 m01 m02 m10 m11 m12 m20 m21 m22 F0 F1 F2 F3 F4 F5 F6 F7 F8]
    = M3.mandel3 c ((Fo F0 F1 F2 F3 F4 F5 F6 F7 F8).transpose * Fo F0 F1 F2 F3 F4 F5 F6 F7 F8) := by
  simp only [gen_simp, Fo, M3.ofTens, M3.mandel3, M3.mul_def, M3.mul, M3.transpose, List.cons.injEq, and_true]
  repeat' apply And.intro
  all_goals c24_ring hc

theorem N3_builder_e :
    [Gen3B.N3_L_builder_e0 c c3 fn vp0 vp1 vp2 m00 m01 m02 m10 m11 m12 m20 m21 m22 F0 F1 F2 F3 F4 F5 F6 F7 F8, Gen3B.N3_L_builder_e1 c c3 fn vp0 vp1 vp2 m00 m01 m02 m10 m11 m12 m20 m21 m22 F0 F1 F2 F3 F4 F5 F6 F7 F8, Gen3B.N3_L_builder_e2 c c3 fn vp0 vp1 vp2 m00 m01 m02 m10 m11 m12 m20 m21 m22 F0 F1 F2 F3 F4 F5 F6 F7 F8, Gen3B.N3_L_builder_vpo0 c c3 fn vp0 vp1 vp2 m00 m01 m02 m10 m11 m12 m20 m21 m22 F0 F1 F2 F3 F4 F5 F6 F7 F8, Gen3B.N3_L_builder_vpo1 c c3 fn vp0 vp1 vp2 m00 m01 m02 m10 m11 m12 m20 m21 m22 F0 F1 F2 F3 F4 F5 F6 F7 F8, Gen3B.N3_L_builder_vpo2 c c3 fn vp0 vp1 vp2 m00 m01 m02 m10 m11 m12 m20 m21 m22 F0 F1 F2 F3 F4 F5 F6 F7 F8]
    = [fn.call "log1p" [vp0 - 1] / 2, fn.call "log1p" [vp1 - 1] / 2, fn.call "log1p" [vp2 - 1] / 2,
       vp0, vp1, vp2] := by
  simp only [gen_simp]

theorem N3_hencky (hc : c * c = 2) :
    [Gen3B.N3_L_builder_el0 c c3 fn vp0 vp1 vp2 m00 m01 m02 m10 m11 m12 m20 m21 m22 F0 F1 F2 F3 F4 F5 F6 F7 F8, Gen3B.N3_L_builder_el1 c c3 fn vp0 vp1 vp2 m00 m01 m02 m10 m11 m12 m20 m21 m22 F0 F1 F2 F3 F4 F5 F6 F7 F8, Gen3B.N3_L_builder_el2 c c3 fn vp0 vp1 vp2 m00 m01 m02 m10 m11 m12 m20 m21 m22 F0 F1 F2 F3 F4 F5 F6 F7 F8, Gen3B.N3_L_builder_el3 c c3 fn vp0 vp1 vp2 m00 m01 m02 m10 m11 m12 m20 m21 m22 F0 F1 F2 F3 F4 F5 F6 F7 F8, Gen3B.N3_L_builder_el4 c c3 fn vp0 vp1 vp2 m00 m01 m02 m10 m11 m12 m20 m21 m22 F0 F1 F2 F3 F4 F5 F6 F7 F8, Gen3B.N3_L_builder_el5 c c3 fn vp0 vp1 vp2 m00 m01 m02 m10 m11 m12 m20 m21 m22 F0 F1 F2 F3 F4 F5 F6 F7 F8]
    = M3.mandel3 c (iso (Mo m00 m01 m02 m10 m11 m12 m20 m21 m22)
        (Gen3B.N3_L_builder_e0 c c3 fn vp0 vp1 vp2 m00 m01 m02 m10 m11 m12 m20 m21 m22 F0 F1 F2 F3 F4 F5 F6 F7 F8) (Gen3B.N3_L_builder_e1 c c3 fn vp0 vp1 vp2 m00 m01 m02 m10 m11 m12 m20 m21 m22 F0 F1 F2 F3 F4 F5 F6 F7 F8) (Gen3B.N3_L_builder_e2 c c3 fn vp0 vp1 vp2 m00 m01 m02 m10 m11 m12 m20 m21 m22 F0 F1 F2 F3 F4 F5 F6 F7 F8)) := by
  simp only [gen_simp, Mo, iso, M3.diag, M3.mandel3, M3.mul_def, M3.mul, M3.transpose, List.cons.injEq, and_true]
  repeat' apply And.intro
  all_goals c24_ring hc

/-- `getHenckyLogarithmicStrain(real*)`: Abaqus/Standard convention (engineering shear strains) -/
theorem N3_hencky_abaqus (hc : c * c = 2) :
    [Gen3B.N3_L_builder_ea0 c c3 fn vp0 vp1 vp2 m00 m01 m02 m10 m11 m12 m20 m21 m22 F0 F1 F2 F3 F4 F5 F6 F7 F8, Gen3B.N3_L_builder_ea1 c c3 fn vp0 vp1 vp2 m00 m01 m02 m10 m11 m12 m20 m21 m22 F0 F1 F2 F3 F4 F5 F6 F7 F8, Gen3B.N3_L_builder_ea2 c c3 fn vp0 vp1 vp2 m00 m01 m02 m10 m11 m12 m20 m21 m22 F0 F1 F2 F3 F4 F5 F6 F7 F8, Gen3B.N3_L_builder_ea3 c c3 fn vp0 vp1 vp2 m00 m01 m02 m10 m11 m12 m20 m21 m22 F0 F1 F2 F3 F4 F5 F6 F7 F8, Gen3B.N3_L_builder_ea4 c c3 fn vp0 vp1 vp2 m00 m01 m02 m10 m11 m12 m20 m21 m22 F0 F1 F2 F3 F4 F5 F6 F7 F8, Gen3B.N3_L_builder_ea5 c c3 fn vp0 vp1 vp2 m00 m01 m02 m10 m11 m12 m20 m21 m22 F0 F1 F2 F3 F4 F5 F6 F7 F8]
    = (let A := iso (Mo m00 m01 m02 m10 m11 m12 m20 m21 m22) (Gen3B.N3_L_builder_e0 c c3 fn vp0 vp1 vp2 m00 m01 m02 m10 m11 m12 m20 m21 m22 F0 F1 F2 F3 F4 F5 F6 F7 F8) (Gen3B.N3_L_builder_e1 c c3 fn vp0 vp1 vp2 m00 m01 m02 m10 m11 m12 m20 m21 m22 F0 F1 F2 F3 F4 F5 F6 F7 F8) (Gen3B.N3_L_builder_e2 c c3 fn vp0 vp1 vp2 m00 m01 m02 m10 m11 m12 m20 m21 m22 F0 F1 F2 F3 F4 F5 F6 F7 F8)
       [A.a00, A.a11, A.a22, 2 * A.a01, 2 * A.a02, 2 * A.a12]) := by
  simp only [gen_simp, Mo, iso, M3.diag, M3.mul_def, M3.mul, M3.transpose, List.cons.injEq, and_true]
  repeat' apply And.intro
  all_goals c24_ring hc

/-- matrix of first divided differences built from the traced `e_i` and `d_i = 1/(2 vp_i)` -/
abbrev ThL : M3 K :=
  theta vp0 vp1 vp2 (Gen3B.N3_L_builder_e0 c c3 fn vp0 vp1 vp2 m00 m01 m02 m10 m11 m12 m20 m21 m22 F0 F1 F2 F3 F4 F5 F6 F7 F8) (Gen3B.N3_L_builder_e1 c c3 fn vp0 vp1 vp2 m00 m01 m02 m10 m11 m12 m20 m21 m22 F0 F1 F2 F3 F4 F5 F6 F7 F8) (Gen3B.N3_L_builder_e2 c c3 fn vp0 vp1 vp2 m00 m01 m02 m10 m11 m12 m20 m21 m22 F0 F1 F2 F3 F4 F5 F6 F7 F8) (1 / (2 * vp0)) (1 / (2 * vp1)) (1 / (2 * vp2))

theorem N3_L_p_col0 (hc : c * c = 2) :
    [Gen3B.N3_L_builder_p0_0 c c3 fn vp0 vp1 vp2 m00 m01 m02 m10 m11 m12 m20 m21 m22 F0 F1 F2 F3 F4 F5 F6 F7 F8, Gen3B.N3_L_builder_p1_0 c c3 fn vp0 vp1 vp2 m00 m01 m02 m10 m11 m12 m20 m21 m22 F0 F1 F2 F3 F4 F5 F6 F7 F8, Gen3B.N3_L_builder_p2_0 c c3 fn vp0 vp1 vp2 m00 m01 m02 m10 m11 m12 m20 m21 m22 F0 F1 F2 F3 F4 F5 F6 F7 F8, Gen3B.N3_L_builder_p3_0 c c3 fn vp0 vp1 vp2 m00 m01 m02 m10 m11 m12 m20 m21 m22 F0 F1 F2 F3 F4 F5 F6 F7 F8, Gen3B.N3_L_builder_p4_0 c c3 fn vp0 vp1 vp2 m00 m01 m02 m10 m11 m12 m20 m21 m22 F0 F1 F2 F3 F4 F5 F6 F7 F8, Gen3B.N3_L_builder_p5_0 c c3 fn vp0 vp1 vp2 m00 m01 m02 m10 m11 m12 m20 m21 m22 F0 F1 F2 F3 F4 F5 F6 F7 F8]
    = M3.mandel3 c (DK (Mo m00 m01 m02 m10 m11 m12 m20 m21 m22) (ThL c c3 fn vp0 vp1 vp2 m00 m01 m02 m10 m11 m12 m20 m21 m22 F0 F1 F2 F3 F4 F5 F6 F7 F8) (E c 0)) := by
  simp only [gen_simp, ThL, Mo, DK, eig, theta, dd1, hadamard, E, M3.sym, M3.mul_def, M3.mul, M3.transpose, M3.mandel3,
    List.cons.injEq, and_true, one_div, div_eq_mul_inv, mul_inv, inv_sub_swap vp0 vp1, inv_sub_swap vp0 vp2, inv_sub_swap vp1 vp2]
  generalize fn.call "log1p" [vp0 - 1] = l0
  generalize fn.call "log1p" [vp1 - 1] = l1
  generalize fn.call "log1p" [vp2 - 1] = l2
  generalize (vp0 - vp1)⁻¹ = r01
  generalize (vp0 - vp2)⁻¹ = r02
  generalize (vp1 - vp2)⁻¹ = r12
  generalize vp0⁻¹ = iv0
  generalize vp1⁻¹ = iv1
  generalize vp2⁻¹ = iv2
  repeat' apply And.intro
  all_goals c24_ring hc

theorem N3_L_p_col1 (hc : c * c = 2) :
    [Gen3B.N3_L_builder_p0_1 c c3 fn vp0 vp1 vp2 m00 m01 m02 m10 m11 m12 m20 m21 m22 F0 F1 F2 F3 F4 F5 F6 F7 F8, Gen3B.N3_L_builder_p1_1 c c3 fn vp0 vp1 vp2 m00 m01 m02 m10 m11 m12 m20 m21 m22 F0 F1 F2 F3 F4 F5 F6 F7 F8, Gen3B.N3_L_builder_p2_1 c c3 fn vp0 vp1 vp2 m00 m01 m02 m10 m11 m12 m20 m21 m22 F0 F1 F2 F3 F4 F5 F6 F7 F8, Gen3B.N3_L_builder_p3_1 c c3 fn vp0 vp1 vp2 m00 m01 m02 m10 m11 m12 m20 m21 m22 F0 F1 F2 F3 F4 F5 F6 F7 F8, Gen3B.N3_L_builder_p4_1 c c3 fn vp0 vp1 vp2 m00 m01 m02 m10 m11 m12 m20 m21 m22 F0 F1 F2 F3 F4 F5 F6 F7 F8, Gen3B.N3_L_builder_p5_1 c c3 fn vp0 vp1 vp2 m00 m01 m02 m10 m11 m12 m20 m21 m22 F0 F1 F2 F3 F4 F5 F6 F7 F8]
    = M3.mandel3 c (DK (Mo m00 m01 m02 m10 m11 m12 m20 m21 m22) (ThL c c3 fn vp0 vp1 vp2 m00 m01 m02 m10 m11 m12 m20 m21 m22 F0 F1 F2 F3 F4 F5 F6 F7 F8) (E c 1)) := by
  simp only [gen_simp, ThL, Mo, DK, eig, theta, dd1, hadamard, E, M3.sym, M3.mul_def, M3.mul, M3.transpose, M3.mandel3,
    List.cons.injEq, and_true, one_div, div_eq_mul_inv, mul_inv, inv_sub_swap vp0 vp1, inv_sub_swap vp0 vp2, inv_sub_swap vp1 vp2]
  generalize fn.call "log1p" [vp0 - 1] = l0
  generalize fn.call "log1p" [vp1 - 1] = l1
  generalize fn.call "log1p" [vp2 - 1] = l2
  generalize (vp0 - vp1)⁻¹ = r01
  generalize (vp0 - vp2)⁻¹ = r02
  generalize (vp1 - vp2)⁻¹ = r12
  generalize vp0⁻¹ = iv0
  generalize vp1⁻¹ = iv1
  generalize vp2⁻¹ = iv2
  repeat' apply And.intro
  all_goals c24_ring hc

theorem N3_L_p_col2 (hc : c * c = 2) :
    [Gen3B.N3_L_builder_p0_2 c c3 fn vp0 vp1 vp2 m00 m01 m02 m10 m11 m12 m20 m21 m22 F0 F1 F2 F3 F4 F5 F6 F7 F8, Gen3B.N3_L_builder_p1_2 c c3 fn vp0 vp1 vp2 m00 m01 m02 m10 m11 m12 m20 m21 m22 F0 F1 F2 F3 F4 F5 F6 F7 F8, Gen3B.N3_L_builder_p2_2 c c3 fn vp0 vp1 vp2 m00 m01 m02 m10 m11 m12 m20 m21 m22 F0 F1 F2 F3 F4 F5 F6 F7 F8, Gen3B.N3_L_builder_p3_2 c c3 fn vp0 vp1 vp2 m00 m01 m02 m10 m11 m12 m20 m21 m22 F0 F1 F2 F3 F4 F5 F6 F7 F8, Gen3B.N3_L_builder_p4_2 c c3 fn vp0 vp1 vp2 m00 m01 m02 m10 m11 m12 m20 m21 m22 F0 F1 F2 F3 F4 F5 F6 F7 F8, Gen3B.N3_L_builder_p5_2 c c3 fn vp0 vp1 vp2 m00 m01 m02 m10 m11 m12 m20 m21 m22 F0 F1 F2 F3 F4 F5 F6 F7 F8]
    = M3.mandel3 c (DK (Mo m00 m01 m02 m10 m11 m12 m20 m21 m22) (ThL c c3 fn vp0 vp1 vp2 m00 m01 m02 m10 m11 m12 m20 m21 m22 F0 F1 F2 F3 F4 F5 F6 F7 F8) (E c 2)) := by
  simp only [gen_simp, ThL, Mo, DK, eig, theta, dd1, hadamard, E, M3.sym, M3.mul_def, M3.mul, M3.transpose, M3.mandel3,
    List.cons.injEq, and_true, one_div, div_eq_mul_inv, mul_inv, inv_sub_swap vp0 vp1, inv_sub_swap vp0 vp2, inv_sub_swap vp1 vp2]
  generalize fn.call "log1p" [vp0 - 1] = l0
  generalize fn.call "log1p" [vp1 - 1] = l1
  generalize fn.call "log1p" [vp2 - 1] = l2
  generalize (vp0 - vp1)⁻¹ = r01
  generalize (vp0 - vp2)⁻¹ = r02
  generalize (vp1 - vp2)⁻¹ = r12
  generalize vp0⁻¹ = iv0
  generalize vp1⁻¹ = iv1
  generalize vp2⁻¹ = iv2
  repeat' apply And.intro
  all_goals c24_ring hc

theorem N3_L_p_col3 (hc : c * c = 2) :
    [Gen3B.N3_L_builder_p0_3 c c3 fn vp0 vp1 vp2 m00 m01 m02 m10 m11 m12 m20 m21 m22 F0 F1 F2 F3 F4 F5 F6 F7 F8, Gen3B.N3_L_builder_p1_3 c c3 fn vp0 vp1 vp2 m00 m01 m02 m10 m11 m12 m20 m21 m22 F0 F1 F2 F3 F4 F5 F6 F7 F8, Gen3B.N3_L_builder_p2_3 c c3 fn vp0 vp1 vp2 m00 m01 m02 m10 m11 m12 m20 m21 m22 F0 F1 F2 F3 F4 F5 F6 F7 F8, Gen3B.N3_L_builder_p3_3 c c3 fn vp0 vp1 vp2 m00 m01 m02 m10 m11 m12 m20 m21 m22 F0 F1 F2 F3 F4 F5 F6 F7 F8, Gen3B.N3_L_builder_p4_3 c c3 fn vp0 vp1 vp2 m00 m01 m02 m10 m11 m12 m20 m21 m22 F0 F1 F2 F3 F4 F5 F6 F7 F8, Gen3B.N3_L_builder_p5_3 c c3 fn vp0 vp1 vp2 m00 m01 m02 m10 m11 m12 m20 m21 m22 F0 F1 F2 F3 F4 F5 F6 F7 F8]
    = M3.mandel3 c (DK (Mo m00 m01 m02 m10 m11 m12 m20 m21 m22) (ThL c c3 fn vp0 vp1 vp2 m00 m01 m02 m10 m11 m12 m20 m21 m22 F0 F1 F2 F3 F4 F5 F6 F7 F8) (E c 3)) := by
  simp only [gen_simp, ThL, Mo, DK, eig, theta, dd1, hadamard, E, M3.sym, M3.mul_def, M3.mul, M3.transpose, M3.mandel3,
    List.cons.injEq, and_true, one_div, div_eq_mul_inv, mul_inv, inv_sub_swap vp0 vp1, inv_sub_swap vp0 vp2, inv_sub_swap vp1 vp2]
  generalize fn.call "log1p" [vp0 - 1] = l0
  generalize fn.call "log1p" [vp1 - 1] = l1
  generalize fn.call "log1p" [vp2 - 1] = l2
  generalize (vp0 - vp1)⁻¹ = r01
  generalize (vp0 - vp2)⁻¹ = r02
  generalize (vp1 - vp2)⁻¹ = r12
  generalize vp0⁻¹ = iv0
  generalize vp1⁻¹ = iv1
  generalize vp2⁻¹ = iv2
  repeat' apply And.intro
  all_goals c24_ring hc

theorem N3_L_p_col4 (hc : c * c = 2) :
    [Gen3B.N3_L_builder_p0_4 c c3 fn vp0 vp1 vp2 m00 m01 m02 m10 m11 m12 m20 m21 m22 F0 F1 F2 F3 F4 F5 F6 F7 F8, Gen3B.N3_L_builder_p1_4 c c3 fn vp0 vp1 vp2 m00 m01 m02 m10 m11 m12 m20 m21 m22 F0 F1 F2 F3 F4 F5 F6 F7 F8, Gen3B.N3_L_builder_p2_4 c c3 fn vp0 vp1 vp2 m00 m01 m02 m10 m11 m12 m20 m21 m22 F0 F1 F2 F3 F4 F5 F6 F7 F8, Gen3B.N3_L_builder_p3_4 c c3 fn vp0 vp1 vp2 m00 m01 m02 m10 m11 m12 m20 m21 m22 F0 F1 F2 F3 F4 F5 F6 F7 F8, Gen3B.N3_L_builder_p4_4 c c3 fn vp0 vp1 vp2 m00 m01 m02 m10 m11 m12 m20 m21 m22 F0 F1 F2 F3 F4 F5 F6 F7 F8, Gen3B.N3_L_builder_p5_4 c c3 fn vp0 vp1 vp2 m00 m01 m02 m10 m11 m12 m20 m21 m22 F0 F1 F2 F3 F4 F5 F6 F7 F8]
    = M3.mandel3 c (DK (Mo m00 m01 m02 m10 m11 m12 m20 m21 m22) (ThL c c3 fn vp0 vp1 vp2 m00 m01 m02 m10 m11 m12 m20 m21 m22 F0 F1 F2 F3 F4 F5 F6 F7 F8) (E c 4)) := by
  simp only [gen_simp, ThL, Mo, DK, eig, theta, dd1, hadamard, E, M3.sym, M3.mul_def, M3.mul, M3.transpose, M3.mandel3,
    List.cons.injEq, and_true, one_div, div_eq_mul_inv, mul_inv, inv_sub_swap vp0 vp1, inv_sub_swap vp0 vp2, inv_sub_swap vp1 vp2]
  generalize fn.call "log1p" [vp0 - 1] = l0
  generalize fn.call "log1p" [vp1 - 1] = l1
  generalize fn.call "log1p" [vp2 - 1] = l2
  generalize (vp0 - vp1)⁻¹ = r01
  generalize (vp0 - vp2)⁻¹ = r02
  generalize (vp1 - vp2)⁻¹ = r12
  generalize vp0⁻¹ = iv0
  generalize vp1⁻¹ = iv1
  generalize vp2⁻¹ = iv2
  repeat' apply And.intro
  all_goals c24_ring hc

theorem N3_L_p_col5 (hc : c * c = 2) :
    [Gen3B.N3_L_builder_p0_5 c c3 fn vp0 vp1 vp2 m00 m01 m02 m10 m11 m12 m20 m21 m22 F0 F1 F2 F3 F4 F5 F6 F7 F8, Gen3B.N3_L_builder_p1_5 c c3 fn vp0 vp1 vp2 m00 m01 m02 m10 m11 m12 m20 m21 m22 F0 F1 F2 F3 F4 F5 F6 F7 F8, Gen3B.N3_L_builder_p2_5 c c3 fn vp0 vp1 vp2 m00 m01 m02 m10 m11 m12 m20 m21 m22 F0 F1 F2 F3 F4 F5 F6 F7 F8, Gen3B.N3_L_builder_p3_5 c c3 fn vp0 vp1 vp2 m00 m01 m02 m10 m11 m12 m20 m21 m22 F0 F1 F2 F3 F4 F5 F6 F7 F8, Gen3B.N3_L_builder_p4_5 c c3 fn vp0 vp1 vp2 m00 m01 m02 m10 m11 m12 m20 m21 m22 F0 F1 F2 F3 F4 F5 F6 F7 F8, Gen3B.N3_L_builder_p5_5 c c3 fn vp0 vp1 vp2 m00 m01 m02 m10 m11 m12 m20 m21 m22 F0 F1 F2 F3 F4 F5 F6 F7 F8]
    = M3.mandel3 c (DK (Mo m00 m01 m02 m10 m11 m12 m20 m21 m22) (ThL c c3 fn vp0 vp1 vp2 m00 m01 m02 m10 m11 m12 m20 m21 m22 F0 F1 F2 F3 F4 F5 F6 F7 F8) (E c 5)) := by
  simp only [gen_simp, ThL, Mo, DK, eig, theta, dd1, hadamard, E, M3.sym, M3.mul_def, M3.mul, M3.transpose, M3.mandel3,
    List.cons.injEq, and_true, one_div, div_eq_mul_inv, mul_inv, inv_sub_swap vp0 vp1, inv_sub_swap vp0 vp2, inv_sub_swap vp1 vp2]
  generalize fn.call "log1p" [vp0 - 1] = l0
  generalize fn.call "log1p" [vp1 - 1] = l1
  generalize fn.call "log1p" [vp2 - 1] = l2
  generalize (vp0 - vp1)⁻¹ = r01
  generalize (vp0 - vp2)⁻¹ = r02
  generalize (vp1 - vp2)⁻¹ = r12
  generalize vp0⁻¹ = iv0
  generalize vp1⁻¹ = iv1
  generalize vp2⁻¹ = iv2
  repeat' apply And.intro
  all_goals c24_ring hc
end L

/-! ## Eulerian setting -/
section E
abbrev In := Gen3B.N3_E_builder_In
def ME (i : In K) : M3 K := ⟨i.m00, i.m01, i.m02, i.m10, i.m11, i.m12, i.m20, i.m21, i.m22⟩
def FE (i : In K) : M3 K := M3.ofTens [i.F0, i.F1, i.F2, i.F3, i.F4, i.F5, i.F6, i.F7, i.F8]
def ThE (fn : Fns K) (i : In K) : M3 K :=
  theta i.vp0 i.vp1 i.vp2 (fn.call "log1p" [i.vp0 - 1] / 2) (fn.call "log1p" [i.vp1 - 1] / 2)
    (fn.call "log1p" [i.vp2 - 1] / 2) (1 / (2 * i.vp0)) (1 / (2 * i.vp1)) (1 / (2 * i.vp2))

theorem N3_E_builder_e (i : In K) :
    [Gen3B.N3_E_builder_e0_full c c3 fn i, Gen3B.N3_E_builder_e1_full c c3 fn i, Gen3B.N3_E_builder_e2_full c c3 fn i,
     Gen3B.N3_E_builder_vpo0_full c c3 fn i, Gen3B.N3_E_builder_vpo1_full c c3 fn i, Gen3B.N3_E_builder_vpo2_full c c3 fn i]
    = [fn.call "log1p" [i.vp0 - 1] / 2, fn.call "log1p" [i.vp1 - 1] / 2, fn.call "log1p" [i.vp2 - 1] / 2,
       i.vp0, i.vp1, i.vp2] := by
  simp only [Gen3B.N3_E_builder_e0_full, Gen3B.N3_E_builder_e1_full, Gen3B.N3_E_builder_e2_full,
    Gen3B.N3_E_builder_vpo0_full, Gen3B.N3_E_builder_vpo1_full, Gen3B.N3_E_builder_vpo2_full, gen_simp]

theorem N3_E_p_row0 (hc : c * c = 2) (i : In K) :
    [Gen3B.N3_E_builder_p0_0_full c c3 fn i, Gen3B.N3_E_builder_p0_1_full c c3 fn i, Gen3B.N3_E_builder_p0_2_full c c3 fn i, Gen3B.N3_E_builder_p0_3_full c c3 fn i, Gen3B.N3_E_builder_p0_4_full c c3 fn i, Gen3B.N3_E_builder_p0_5_full c c3 fn i]
    = M3.mandel3 c (DK2 (FE i * ME i) (ME i) (ThE fn i) (E c 0)) := by
  simp only [Gen3B.N3_E_builder_p0_0_full, Gen3B.N3_E_builder_p0_1_full, Gen3B.N3_E_builder_p0_2_full, Gen3B.N3_E_builder_p0_3_full, Gen3B.N3_E_builder_p0_4_full, Gen3B.N3_E_builder_p0_5_full,
    Gen3B.N3_E_builder_cuts, gen_simp, ThE, ME, FE, M3.ofTens, DK2, eig, theta, dd1, hadamard, E, M3.sym, M3.mul_def, M3.mul,
    M3.transpose, M3.mandel3, List.cons.injEq, and_true, one_div, div_eq_mul_inv, mul_inv,
    inv_sub_swap i.vp0 i.vp1, inv_sub_swap i.vp0 i.vp2, inv_sub_swap i.vp1 i.vp2]
  generalize fn.call "log1p" [i.vp0 - 1] = l0
  generalize fn.call "log1p" [i.vp1 - 1] = l1
  generalize fn.call "log1p" [i.vp2 - 1] = l2
  generalize (i.vp0 - i.vp1)⁻¹ = r01
  generalize (i.vp0 - i.vp2)⁻¹ = r02
  generalize (i.vp1 - i.vp2)⁻¹ = r12
  generalize i.vp0⁻¹ = iv0
  generalize i.vp1⁻¹ = iv1
  generalize i.vp2⁻¹ = iv2
  repeat' apply And.intro
  all_goals c24_ring hc

theorem N3_E_p_row1 (hc : c * c = 2) (i : In K) :
    [Gen3B.N3_E_builder_p1_0_full c c3 fn i, Gen3B.N3_E_builder_p1_1_full c c3 fn i, Gen3B.N3_E_builder_p1_2_full c c3 fn i, Gen3B.N3_E_builder_p1_3_full c c3 fn i, Gen3B.N3_E_builder_p1_4_full c c3 fn i, Gen3B.N3_E_builder_p1_5_full c c3 fn i]
    = M3.mandel3 c (DK2 (FE i * ME i) (ME i) (ThE fn i) (E c 1)) := by
  simp only [Gen3B.N3_E_builder_p1_0_full, Gen3B.N3_E_builder_p1_1_full, Gen3B.N3_E_builder_p1_2_full, Gen3B.N3_E_builder_p1_3_full, Gen3B.N3_E_builder_p1_4_full, Gen3B.N3_E_builder_p1_5_full,
    Gen3B.N3_E_builder_cuts, gen_simp, ThE, ME, FE, M3.ofTens, DK2, eig, theta, dd1, hadamard, E, M3.sym, M3.mul_def, M3.mul,
    M3.transpose, M3.mandel3, List.cons.injEq, and_true, one_div, div_eq_mul_inv, mul_inv,
    inv_sub_swap i.vp0 i.vp1, inv_sub_swap i.vp0 i.vp2, inv_sub_swap i.vp1 i.vp2]
  generalize fn.call "log1p" [i.vp0 - 1] = l0
  generalize fn.call "log1p" [i.vp1 - 1] = l1
  generalize fn.call "log1p" [i.vp2 - 1] = l2
  generalize (i.vp0 - i.vp1)⁻¹ = r01
  generalize (i.vp0 - i.vp2)⁻¹ = r02
  generalize (i.vp1 - i.vp2)⁻¹ = r12
  generalize i.vp0⁻¹ = iv0
  generalize i.vp1⁻¹ = iv1
  generalize i.vp2⁻¹ = iv2
  repeat' apply And.intro
  all_goals c24_ring hc

theorem N3_E_p_row2 (hc : c * c = 2) (i : In K) :
    [Gen3B.N3_E_builder_p2_0_full c c3 fn i, Gen3B.N3_E_builder_p2_1_full c c3 fn i, Gen3B.N3_E_builder_p2_2_full c c3 fn i, Gen3B.N3_E_builder_p2_3_full c c3 fn i, Gen3B.N3_E_builder_p2_4_full c c3 fn i, Gen3B.N3_E_builder_p2_5_full c c3 fn i]
    = M3.mandel3 c (DK2 (FE i * ME i) (ME i) (ThE fn i) (E c 2)) := by
  simp only [Gen3B.N3_E_builder_p2_0_full, Gen3B.N3_E_builder_p2_1_full, Gen3B.N3_E_builder_p2_2_full, Gen3B.N3_E_builder_p2_3_full, Gen3B.N3_E_builder_p2_4_full, Gen3B.N3_E_builder_p2_5_full,
    Gen3B.N3_E_builder_cuts, gen_simp, ThE, ME, FE, M3.ofTens, DK2, eig, theta, dd1, hadamard, E, M3.sym, M3.mul_def, M3.mul,
    M3.transpose, M3.mandel3, List.cons.injEq, and_true, one_div, div_eq_mul_inv, mul_inv,
    inv_sub_swap i.vp0 i.vp1, inv_sub_swap i.vp0 i.vp2, inv_sub_swap i.vp1 i.vp2]
  generalize fn.call "log1p" [i.vp0 - 1] = l0
  generalize fn.call "log1p" [i.vp1 - 1] = l1
  generalize fn.call "log1p" [i.vp2 - 1] = l2
  generalize (i.vp0 - i.vp1)⁻¹ = r01
  generalize (i.vp0 - i.vp2)⁻¹ = r02
  generalize (i.vp1 - i.vp2)⁻¹ = r12
  generalize i.vp0⁻¹ = iv0
  generalize i.vp1⁻¹ = iv1
  generalize i.vp2⁻¹ = iv2
  repeat' apply And.intro
  all_goals c24_ring hc

theorem N3_E_p_row3 (hc : c * c = 2) (i : In K) :
    [Gen3B.N3_E_builder_p3_0_full c c3 fn i, Gen3B.N3_E_builder_p3_1_full c c3 fn i, Gen3B.N3_E_builder_p3_2_full c c3 fn i, Gen3B.N3_E_builder_p3_3_full c c3 fn i, Gen3B.N3_E_builder_p3_4_full c c3 fn i, Gen3B.N3_E_builder_p3_5_full c c3 fn i]
    = M3.mandel3 c (DK2 (FE i * ME i) (ME i) (ThE fn i) (E c 3)) := by
  simp only [Gen3B.N3_E_builder_p3_0_full, Gen3B.N3_E_builder_p3_1_full, Gen3B.N3_E_builder_p3_2_full, Gen3B.N3_E_builder_p3_3_full, Gen3B.N3_E_builder_p3_4_full, Gen3B.N3_E_builder_p3_5_full,
    Gen3B.N3_E_builder_cuts, gen_simp, ThE, ME, FE, M3.ofTens, DK2, eig, theta, dd1, hadamard, E, M3.sym, M3.mul_def, M3.mul,
    M3.transpose, M3.mandel3, List.cons.injEq, and_true, one_div, div_eq_mul_inv, mul_inv,
    inv_sub_swap i.vp0 i.vp1, inv_sub_swap i.vp0 i.vp2, inv_sub_swap i.vp1 i.vp2]
  generalize fn.call "log1p" [i.vp0 - 1] = l0
  generalize fn.call "log1p" [i.vp1 - 1] = l1
  generalize fn.call "log1p" [i.vp2 - 1] = l2
  generalize (i.vp0 - i.vp1)⁻¹ = r01
  generalize (i.vp0 - i.vp2)⁻¹ = r02
  generalize (i.vp1 - i.vp2)⁻¹ = r12
  generalize i.vp0⁻¹ = iv0
  generalize i.vp1⁻¹ = iv1
  generalize i.vp2⁻¹ = iv2
  repeat' apply And.intro
  all_goals c24_ring hc

theorem N3_E_p_row4 (hc : c * c = 2) (i : In K) :
    [Gen3B.N3_E_builder_p4_0_full c c3 fn i, Gen3B.N3_E_builder_p4_1_full c c3 fn i, Gen3B.N3_E_builder_p4_2_full c c3 fn i, Gen3B.N3_E_builder_p4_3_full c c3 fn i, Gen3B.N3_E_builder_p4_4_full c c3 fn i, Gen3B.N3_E_builder_p4_5_full c c3 fn i]
    = M3.mandel3 c (DK2 (FE i * ME i) (ME i) (ThE fn i) (E c 4)) := by
  simp only [Gen3B.N3_E_builder_p4_0_full, Gen3B.N3_E_builder_p4_1_full, Gen3B.N3_E_builder_p4_2_full, Gen3B.N3_E_builder_p4_3_full, Gen3B.N3_E_builder_p4_4_full, Gen3B.N3_E_builder_p4_5_full,
    Gen3B.N3_E_builder_cuts, gen_simp, ThE, ME, FE, M3.ofTens, DK2, eig, theta, dd1, hadamard, E, M3.sym, M3.mul_def, M3.mul,
    M3.transpose, M3.mandel3, List.cons.injEq, and_true, one_div, div_eq_mul_inv, mul_inv,
    inv_sub_swap i.vp0 i.vp1, inv_sub_swap i.vp0 i.vp2, inv_sub_swap i.vp1 i.vp2]
  generalize fn.call "log1p" [i.vp0 - 1] = l0
  generalize fn.call "log1p" [i.vp1 - 1] = l1
  generalize fn.call "log1p" [i.vp2 - 1] = l2
  generalize (i.vp0 - i.vp1)⁻¹ = r01
  generalize (i.vp0 - i.vp2)⁻¹ = r02
  generalize (i.vp1 - i.vp2)⁻¹ = r12
  generalize i.vp0⁻¹ = iv0
  generalize i.vp1⁻¹ = iv1
  generalize i.vp2⁻¹ = iv2
  repeat' apply And.intro
  all_goals c24_ring hc

theorem N3_E_p_row5 (hc : c * c = 2) (i : In K) :
    [Gen3B.N3_E_builder_p5_0_full c c3 fn i, Gen3B.N3_E_builder_p5_1_full c c3 fn i, Gen3B.N3_E_builder_p5_2_full c c3 fn i, Gen3B.N3_E_builder_p5_3_full c c3 fn i, Gen3B.N3_E_builder_p5_4_full c c3 fn i, Gen3B.N3_E_builder_p5_5_full c c3 fn i]
    = M3.mandel3 c (DK2 (FE i * ME i) (ME i) (ThE fn i) (E c 5)) := by
  simp only [Gen3B.N3_E_builder_p5_0_full, Gen3B.N3_E_builder_p5_1_full, Gen3B.N3_E_builder_p5_2_full, Gen3B.N3_E_builder_p5_3_full, Gen3B.N3_E_builder_p5_4_full, Gen3B.N3_E_builder_p5_5_full,
    Gen3B.N3_E_builder_cuts, gen_simp, ThE, ME, FE, M3.ofTens, DK2, eig, theta, dd1, hadamard, E, M3.sym, M3.mul_def, M3.mul,
    M3.transpose, M3.mandel3, List.cons.injEq, and_true, one_div, div_eq_mul_inv, mul_inv,
    inv_sub_swap i.vp0 i.vp1, inv_sub_swap i.vp0 i.vp2, inv_sub_swap i.vp1 i.vp2]
  generalize fn.call "log1p" [i.vp0 - 1] = l0
  generalize fn.call "log1p" [i.vp1 - 1] = l1
  generalize fn.call "log1p" [i.vp2 - 1] = l2
  generalize (i.vp0 - i.vp1)⁻¹ = r01
  generalize (i.vp0 - i.vp2)⁻¹ = r02
  generalize (i.vp1 - i.vp2)⁻¹ = r12
  generalize i.vp0⁻¹ = iv0
  generalize i.vp1⁻¹ = iv1
  generalize i.vp2⁻¹ = iv2
  repeat' apply And.intro
  all_goals c24_ring hc
end E

end TfelVerif.C24.Props3B
