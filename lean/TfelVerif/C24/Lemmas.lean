/-
  C24 — helper lemmas (pure algebra on the reference definitions of Spec.lean; nothing here mentions
  the traced code).
-/
import TfelVerif.C24.Spec
import Mathlib.Algebra.CharZero.Defs
import Mathlib.Algebra.BigOperators.Fin
import Mathlib.Tactic.FinCases

namespace TfelVerif.C24
open TfelVerif TfelVerif.Mandel
set_option linter.unusedVariables false
set_option linter.unusedSimpArgs false
set_option linter.unusedSectionVars false
variable {K : Type} [Field K] [CharZero K]

/-- finishing tactic for the polynomial identities of this property: inverses have been turned into
atoms beforehand, powers of `c` are reduced with `c * c = 2`. -/
macro "c24_ring" hc:term : tactic =>
  `(tactic| (first
      | exact True.intro
      | ring1
      | (ring_nf; (try c_powers $hc); first | done | ring1 | (ring_nf; (try c_powers $hc); ring1))))

theorem inv_sub_swap (a b : K) : (b - a)⁻¹ = -(a - b)⁻¹ := by rw [← neg_sub, neg_inv]

/-- symmetric matrices -/
def IsSym (A : M3 K) : Prop := A.a10 = A.a01 ∧ A.a20 = A.a02 ∧ A.a21 = A.a12

theorem isSym_sym (a b d e f g : K) : IsSym (M3.sym a b d e f g) := ⟨rfl, rfl, rfl⟩
theorem isSym_E (c : K) (j : Fin 6) : IsSym (E c j) := by
  fin_cases j <;> exact ⟨rfl, rfl, rfl⟩
theorem isSym_eig (M X : M3 K) (h : IsSym X) : IsSym (eig M X) := by
  obtain ⟨h1, h2, h3⟩ := h
  simp only [IsSym, eig, M3.mul_def, M3.mul, M3.transpose, h1, h2, h3]
  refine ⟨?_, ?_, ?_⟩ <;> ring

/-! ### second divided differences: table of values -/
section g2
variable (l e d s : Fin 3 → K)

theorem g2_iii (i : Fin 3) : g2 l e d s i i i = s i / 2 := by simp [g2]

theorem g2_ikk (i k : Fin 3) (h : i ≠ k) :
    g2 l e d s i k k = xi (l i) (l k) (e i) (e k) (d k) := by
  simp only [g2, h, if_false, if_true, dd1, xi]; ring

theorem g2_iik (i k : Fin 3) (h : i ≠ k) (hl : l i ≠ l k) :
    g2 l e d s i i k = xi (l k) (l i) (e k) (e i) (d i) := by
  have d1 : l i - l k ≠ 0 := sub_ne_zero.mpr hl
  have d2 : l k - l i ≠ 0 := sub_ne_zero.mpr hl.symm
  simp only [g2, h, if_false, if_true, dd1, xi]; field_simp; ring

theorem g2_iki (i k : Fin 3) (h : i ≠ k) (hl : l i ≠ l k) :
    g2 l e d s i k i = xi (l k) (l i) (e k) (e i) (d i) := by
  have d1 : l i - l k ≠ 0 := sub_ne_zero.mpr hl
  have d2 : l k - l i ≠ 0 := sub_ne_zero.mpr hl.symm
  simp only [g2, h, Ne.symm h, if_false, if_true, dd1, xi]; field_simp; ring

theorem g2_distinct (i k j : Fin 3) (hik : i ≠ k) (hkj : k ≠ j) (hij : i ≠ j)
    (hl : ∀ a b : Fin 3, a ≠ b → l a ≠ l b) :
    g2 l e d s i k j = eta3 (l 0) (l 1) (l 2) (e 0) (e 1) (e 2) := by
  have d01 : l 0 - l 1 ≠ 0 := sub_ne_zero.mpr (hl 0 1 (by decide))
  have d10 : l 1 - l 0 ≠ 0 := sub_ne_zero.mpr (hl 1 0 (by decide))
  have d02 : l 0 - l 2 ≠ 0 := sub_ne_zero.mpr (hl 0 2 (by decide))
  have d20 : l 2 - l 0 ≠ 0 := sub_ne_zero.mpr (hl 2 0 (by decide))
  have d12 : l 1 - l 2 ≠ 0 := sub_ne_zero.mpr (hl 1 2 (by decide))
  have d21 : l 2 - l 1 ≠ 0 := sub_ne_zero.mpr (hl 2 1 (by decide))
  fin_cases i <;> fin_cases k <;> fin_cases j <;> simp at hik hkj hij <;>
    (simp only [g2, dd1, eta3, Fin.isValue, Fin.reduceEq, if_false, reduceIte, Fin.mk_one, Fin.zero_eta, Fin.reduceFinMk]
     field_simp
     ring)
end g2

/-- The second order term in the form implemented by the code (coefficients `f_i = 4 f''(l_i)`,
`ξ_ij`, `η`) is four times `T : D²f[X, Y]` written with second divided differences, for symmetric
`t, x, y` and pairwise distinct eigenvalues. -/
theorem miehe3_eq_D2 (l e d s : Fin 3 → K) (t x y : M3 K)
    (ht : IsSym t) (hx : IsSym x) (hy : IsSym y)
    (hl : ∀ a b : Fin 3, a ≠ b → l a ≠ l b) :
    miehe3 (4 * s 0) (4 * s 1) (4 * s 2) (eta3 (l 0) (l 1) (l 2) (e 0) (e 1) (e 2))
      (xi (l 0) (l 1) (e 0) (e 1) (d 1)) (xi (l 0) (l 2) (e 0) (e 2) (d 2))
      (xi (l 1) (l 0) (e 1) (e 0) (d 0)) (xi (l 1) (l 2) (e 1) (e 2) (d 2))
      (xi (l 2) (l 0) (e 2) (e 0) (d 0)) (xi (l 2) (l 1) (e 2) (e 1) (d 1)) t x y
    = 4 * D2 l e d s t x y := by
  obtain ⟨t1, t2, t3⟩ := ht
  obtain ⟨x1, x2, x3⟩ := hx
  obtain ⟨y1, y2, y3⟩ := hy
  have k011 := g2_ikk l e d s 0 1 (by decide)
  have k001 := g2_iik l e d s 0 1 (by decide) (hl 0 1 (by decide))
  have k010 := g2_iki l e d s 0 1 (by decide) (hl 0 1 (by decide))
  have k022 := g2_ikk l e d s 0 2 (by decide)
  have k002 := g2_iik l e d s 0 2 (by decide) (hl 0 2 (by decide))
  have k020 := g2_iki l e d s 0 2 (by decide) (hl 0 2 (by decide))
  have k100 := g2_ikk l e d s 1 0 (by decide)
  have k110 := g2_iik l e d s 1 0 (by decide) (hl 1 0 (by decide))
  have k101 := g2_iki l e d s 1 0 (by decide) (hl 1 0 (by decide))
  have k122 := g2_ikk l e d s 1 2 (by decide)
  have k112 := g2_iik l e d s 1 2 (by decide) (hl 1 2 (by decide))
  have k121 := g2_iki l e d s 1 2 (by decide) (hl 1 2 (by decide))
  have k200 := g2_ikk l e d s 2 0 (by decide)
  have k220 := g2_iik l e d s 2 0 (by decide) (hl 2 0 (by decide))
  have k202 := g2_iki l e d s 2 0 (by decide) (hl 2 0 (by decide))
  have k211 := g2_ikk l e d s 2 1 (by decide)
  have k221 := g2_iik l e d s 2 1 (by decide) (hl 2 1 (by decide))
  have k212 := g2_iki l e d s 2 1 (by decide) (hl 2 1 (by decide))
  have k012 := g2_distinct l e d s 0 1 2 (by decide) (by decide) (by decide) hl
  have k021 := g2_distinct l e d s 0 2 1 (by decide) (by decide) (by decide) hl
  have k102 := g2_distinct l e d s 1 0 2 (by decide) (by decide) (by decide) hl
  have k120 := g2_distinct l e d s 1 2 0 (by decide) (by decide) (by decide) hl
  have k201 := g2_distinct l e d s 2 0 1 (by decide) (by decide) (by decide) hl
  have k210 := g2_distinct l e d s 2 1 0 (by decide) (by decide) (by decide) hl
  simp only [D2, Fin.sum_univ_three, ent, miehe3, miehePair, g2_iii, k011, k022, k100, k122, k200, k211, k001, k002, k110, k112, k220, k221, k010, k020, k101, k121, k202, k212, k012, k021, k102, k120, k201, k210,
    t1, t2, t3, x1, x2, x3, y1, y2, y3]
  ring

/-- planar matrices: no coupling between the plane (indices 0,1) and the axis 2 -/
def Planar (A : M3 K) : Prop := A.a02 = 0 ∧ A.a12 = 0 ∧ A.a20 = 0 ∧ A.a21 = 0

/-- 2D version of `miehe3_eq_D2`: for planar symmetric `t, x, y` only the in-plane pair of eigenvalues
interacts, `l 0 ≠ l 1` suffices. -/
theorem miehe2_eq_D2 (l e d s : Fin 3 → K) (t x y : M3 K)
    (ht : IsSym t) (hx : IsSym x) (hy : IsSym y) (pt : Planar t) (px : Planar x) (py : Planar y)
    (h01 : l 0 ≠ l 1) :
    miehe2 (4 * s 0) (4 * s 1) (4 * s 2) (xi (l 0) (l 1) (e 0) (e 1) (d 1)) (xi (l 1) (l 0) (e 1) (e 0) (d 0)) t x y
    = 4 * D2 l e d s t x y := by
  obtain ⟨t1, t2, t3⟩ := ht
  obtain ⟨x1, x2, x3⟩ := hx
  obtain ⟨y1, y2, y3⟩ := hy
  obtain ⟨t4, t5, t6, t7⟩ := pt
  obtain ⟨x4, x5, x6, x7⟩ := px
  obtain ⟨y4, y5, y6, y7⟩ := py
  have k011 := g2_ikk l e d s 0 1 (by decide)
  have k100 := g2_ikk l e d s 1 0 (by decide)
  have k001 := g2_iik l e d s 0 1 (by decide) h01
  have k110 := g2_iik l e d s 1 0 (by decide) h01.symm
  have k010 := g2_iki l e d s 0 1 (by decide) h01
  have k101 := g2_iki l e d s 1 0 (by decide) h01.symm
  simp only [D2, Fin.sum_univ_three, ent, miehe2, miehePair, g2_iii, k011, k100, k001, k110, k010, k101,
    t1, t2, t3, x1, x2, x3, y1, y2, y3, t4, t5, t6, t7, x4, x5, x6, x7, y4, y5, y6, y7,
    mul_zero, zero_mul, add_zero, zero_add]
  ring

end TfelVerif.C24
