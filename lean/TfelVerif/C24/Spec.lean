/-
  C24 — reference definitions (hand written, independent of the traced code).

  `M3` is the explicit 3×3 matrix type of Common/M3.lean (tied to Mathlib's `Matrix` there).
  Everything here is plain algebra over a field `K` with an element `c`, `c * c = 2` (√2):

  * `iso M e`            : the isotropic tensor function `M diag(e) Mᵀ`;
  * `theta`, `DK`        : first divided differences and the Daleckii–Krein form
                           `M (Θ ∘ (Mᵀ X M)) Mᵀ` of its derivative;
  * `g2`, `D2`           : second divided differences and the second derivative contracted with `T`,
                           `T : D²f(C)[X, Y] = Σ t_ij g(i,k,j) (x_ik y_kj + y_ik x_kj)` in the eigenbasis;
  * `miehe`              : the same quantity written with the coefficients `f, ξ, η` of Miehe & Lambrecht
                           (the formula the code implements; `Lemmas.miehe_eq_D2` proves both agree);
  * `E c j`, `col c L j` : Mandel basis tensors and the j-th column of the 6×6 (4×4, 3×3) Mandel matrix
                           of a linear map `L` on symmetric tensors (TFEL's `st2tost2` storage);
  * `pf F A = F A Fᵀ`    : push-forward.
-/
import TfelVerif.Common.M3

namespace TfelVerif.C24
variable {K : Type} [Field K]

/-- entries as a function of indices -/
def ent (A : M3 K) : Fin 3 → Fin 3 → K
  | 0, 0 => A.a00 | 0, 1 => A.a01 | 0, 2 => A.a02
  | 1, 0 => A.a10 | 1, 1 => A.a11 | 1, 2 => A.a12
  | 2, 0 => A.a20 | 2, 1 => A.a21 | 2, 2 => A.a22

/-- entrywise (Hadamard) product -/
def hadamard (A B : M3 K) : M3 K :=
  ⟨A.a00*B.a00, A.a01*B.a01, A.a02*B.a02, A.a10*B.a10, A.a11*B.a11, A.a12*B.a12,
   A.a20*B.a20, A.a21*B.a21, A.a22*B.a22⟩

/-- `M diag(e0,e1,e2) Mᵀ` -/
def iso (M : M3 K) (e0 e1 e2 : K) : M3 K := M * M3.diag e0 e1 e2 * M.transpose

/-- components of `X` in the basis given by the columns of `M`: `Mᵀ X M` -/
def eig (M X : M3 K) : M3 K := M.transpose * X * M

/-- push-forward `F A Fᵀ` -/
def pf (F A : M3 K) : M3 K := F * A * F.transpose

/-- first divided difference -/
def dd1 (la lb ea eb : K) : K := (ea - eb) / (la - lb)

/-- matrix of first divided differences of `f` at the eigenvalues: `Θ_ii = f'(l_i)` (`d_i`),
`Θ_ij = (f(l_i) - f(l_j)) / (l_i - l_j)` (`e_i = f(l_i)`). -/
def theta (l0 l1 l2 e0 e1 e2 d0 d1 d2 : K) : M3 K :=
  ⟨d0, dd1 l0 l1 e0 e1, dd1 l0 l2 e0 e2,
   dd1 l1 l0 e1 e0, d1, dd1 l1 l2 e1 e2,
   dd1 l2 l0 e2 e0, dd1 l2 l1 e2 e1, d2⟩

/-- Daleckii–Krein form `M (Θ ∘ (Mᵀ X M)) Mᵀ`: the action on `X` of the derivative of
`C ↦ M f(Λ) Mᵀ` at `C = M Λ Mᵀ` (`Calc.dk_is_derivative`). -/
def DK (M Θ X : M3 K) : M3 K := M * hadamard Θ (eig M X) * M.transpose

/-- the same with different bases on both sides: `N (Θ ∘ (Mᵀ X M)) Nᵀ`; with `N = F M` this is the
push-forward `F (DK M Θ X) Fᵀ`. -/
def DK2 (N M Θ X : M3 K) : M3 K := N * hadamard Θ (eig M X) * N.transpose

/-! ### second derivative -/

/-- second divided differences `f[l_i, l_k, l_j]` with repeated arguments allowed:
`l, e, d, s` = eigenvalues, `f`, `f'`, `f''` at the eigenvalues. -/
def g2 (l e d s : Fin 3 → K) (i k j : Fin 3) : K :=
  if i = k then
    if k = j then s i / 2 else (d i - dd1 (l i) (l j) (e i) (e j)) / (l i - l j)
  else if k = j then (dd1 (l i) (l k) (e i) (e k) - d k) / (l i - l k)
  else if i = j then (d i - dd1 (l i) (l k) (e i) (e k)) / (l i - l k)
  else (dd1 (l i) (l k) (e i) (e k) - dd1 (l k) (l j) (e k) (e j)) / (l i - l j)

/-- `T : D²f(C)[X,Y]` in the eigenbasis: `t = Mᵀ T M`, `x = Mᵀ X M`, `y = Mᵀ Y M` -/
def D2 (l e d s : Fin 3 → K) (t x y : M3 K) : K :=
  Finset.univ.sum fun i : Fin 3 => Finset.univ.sum fun k : Fin 3 => Finset.univ.sum fun j : Fin 3 =>
    ent t i j * g2 l e d s i k j * (ent x i k * ent y k j + ent y i k * ent x k j)

/-- coefficient `ξ_ij` of the code (`f[l_i, l_j, l_j]`) -/
def xi (li lj ei ej dj : K) : K := ((ei - ej) * (1 / (li - lj)) - dj) * (1 / (li - lj))

/-- coefficient `η` of the code (`f[l_0, l_1, l_2]` written as a symmetric sum) -/
def eta3 (l0 l1 l2 e0 e1 e2 : K) : K :=
  e0 / (2 * (l0 - l1) * (l0 - l2)) + e0 / (2 * (l0 - l2) * (l0 - l1))
  + e1 / (2 * (l1 - l0) * (l1 - l2)) + e1 / (2 * (l1 - l2) * (l1 - l0))
  + e2 / (2 * (l2 - l0) * (l2 - l1)) + e2 / (2 * (l2 - l1) * (l2 - l0))

/-- one ordered pair `(i,j)`, `k` the third index, of the second order term of Miehe's formula,
contracted with `X` (left) and `Y` (right); `tij = t_ij`, `tjj = t_jj`, … -/
def miehePair (η ξij tij tjj xik xij xjj yjk yij yjj : K) : K :=
  8 * (η * tij * xik * yjk + ξij * (tij * (xij * yjj + xjj * yij) + tjj * xij * yij))

/-- second order term of the tangent conversion in the form implemented by the code (3D) -/
def miehe3 (f0 f1 f2 η ξ01 ξ02 ξ10 ξ12 ξ20 ξ21 : K) (t x y : M3 K) : K :=
  f0 * t.a00 * x.a00 * y.a00 + f1 * t.a11 * x.a11 * y.a11 + f2 * t.a22 * x.a22 * y.a22
  + miehePair η ξ01 t.a01 t.a11 x.a02 x.a01 x.a11 y.a12 y.a01 y.a11
  + miehePair η ξ02 t.a02 t.a22 x.a01 x.a02 x.a22 y.a21 y.a02 y.a22
  + miehePair η ξ10 t.a10 t.a00 x.a12 x.a10 x.a00 y.a02 y.a10 y.a00
  + miehePair η ξ12 t.a12 t.a22 x.a10 x.a12 x.a22 y.a20 y.a12 y.a22
  + miehePair η ξ20 t.a20 t.a00 x.a21 x.a20 x.a00 y.a01 y.a20 y.a00
  + miehePair η ξ21 t.a21 t.a11 x.a20 x.a21 x.a11 y.a10 y.a21 y.a11

/-- 2D: no `η` term, only the in-plane pair -/
def miehe2 (f0 f1 f2 ξ01 ξ10 : K) (t x y : M3 K) : K :=
  f0 * t.a00 * x.a00 * y.a00 + f1 * t.a11 * x.a11 * y.a11 + f2 * t.a22 * x.a22 * y.a22
  + miehePair 0 ξ01 t.a01 t.a11 0 x.a01 x.a11 0 y.a01 y.a11
  + miehePair 0 ξ10 t.a10 t.a00 0 x.a10 x.a00 0 y.a10 y.a00

/-! ### Mandel storage of fourth order objects -/

/-- Mandel basis of symmetric tensors (orthonormal for the Frobenius product); `c/2 = 1/√2` -/
def E (c : K) : Fin 6 → M3 K
  | 0 => M3.sym 1 0 0 0 0 0
  | 1 => M3.sym 0 1 0 0 0 0
  | 2 => M3.sym 0 0 1 0 0 0
  | 3 => M3.sym 0 0 0 (c/2) 0 0
  | 4 => M3.sym 0 0 0 0 (c/2) 0
  | 5 => M3.sym 0 0 0 0 0 (c/2)

/-- i-th Mandel component of a symmetric matrix -/
def mc (c : K) (A : M3 K) : Fin 6 → K
  | 0 => A.a00 | 1 => A.a11 | 2 => A.a22 | 3 => c * A.a01 | 4 => c * A.a02 | 5 => c * A.a12

/-- contraction of two Mandel vectors given as functions -/
def dot6 (u v : Fin 6 → K) : K := u 0 * v 0 + u 1 * v 1 + u 2 * v 2 + u 3 * v 3 + u 4 * v 4 + u 5 * v 5
def dot4 (u v : Fin 6 → K) : K := u 0 * v 0 + u 1 * v 1 + u 2 * v 2 + u 3 * v 3

end TfelVerif.C24

namespace TfelVerif.C24
variable {K : Type} [Field K]
def vec6 (a0 a1 a2 a3 a4 a5 : K) : Fin 6 → K
  | 0 => a0 | 1 => a1 | 2 => a2 | 3 => a3 | 4 => a4 | 5 => a5
def mat6 (r0 r1 r2 r3 r4 r5 : Fin 6 → K) : Fin 6 → Fin 6 → K
  | 0 => r0 | 1 => r1 | 2 => r2 | 3 => r3 | 4 => r4 | 5 => r5
/-- `(pᵀ Ks p)_ab` for 6×6 Mandel matrices -/
def quad6 (p Ks : Fin 6 → Fin 6 → K) (a b : Fin 6) : K :=
  dot6 (fun k => p k a) (fun k => dot6 (Ks k) (fun l => p l b))
/-- 4×4 (2D) -/
def quad4 (p Ks : Fin 6 → Fin 6 → K) (a b : Fin 6) : K :=
  dot4 (fun k => p k a) (fun k => dot4 (Ks k) (fun l => p l b))
end TfelVerif.C24
