/-
  C24 — 3D, tangent operator conversion, Lagrangian setting (generic eps-branch: pairwise distinct
  eigenvalues). Property theorems only.

  Traced unit `N3_L_material` = `LogarithmicStrainHandler<3u,Sym>::convertToMaterialTangentModuli(Ks, T)`
  on a handler whose members `p, m, vp, e, F` are input symbols (harness/C24/trace.cxx). The unit is
  emitted with cut points (checks/c24emit.py): `Gen3TL.N3_L_material_Kr{a}_{b}_full c c3 fn i` is the
  value computed by the code for `Kr(a,b)`; `i : Gen3TL.N3_L_material_In K` gathers the inputs.

  Main statement (`N3_L_material_row{a}`): for pairwise distinct eigenvalues
      Kr(a,b) = 4 (pᵀ Ks p)(a,b) + 4 · T : D²f(C)[E_a, E_b]
  where the second term is written with second divided differences in the eigenbasis
  (`Spec.D2`, `Spec.g2`) of `f = ½ log` given through its values `e_i`, `d_i = 1/(2 vp_i)`,
  `s_i = -1/(2 vp_i²)` — no property of `log` is used. `Calc.lean` shows that this is the derivative
  of the converted stress.
-/
import TfelVerif.C24.Lemmas
import TfelVerif.C24.Gen3TL

namespace TfelVerif.C24.Props3T
open TfelVerif TfelVerif.Mandel TfelVerif.C24
set_option linter.unusedVariables false
set_option linter.unusedSimpArgs false
set_option linter.unusedSectionVars false
set_option maxRecDepth 100000

variable {K : Type} [Field K] [CharZero K] (c c3 : K) (fn : Fns K)

abbrev In := Gen3TL.N3_L_material_In
abbrev Cut := Gen3TL.N3_L_material_Cut

/-- eigenvectors (columns) -/
def Mm (i : In K) : M3 K := ⟨i.m00, i.m01, i.m02, i.m10, i.m11, i.m12, i.m20, i.m21, i.m22⟩
/-- dual of the logarithmic strain: the inputs `T0..T5` are its Mandel components -/
def Tm (c : K) (i : In K) : M3 K := M3.sym i.T0 i.T1 i.T2 (i.T3 / c) (i.T4 / c) (i.T5 / c)
/-- `p` and `Ks` as 6×6 Mandel matrices -/
def P (i : In K) : Fin 6 → Fin 6 → K :=
  mat6 (vec6 i.p0_0 i.p0_1 i.p0_2 i.p0_3 i.p0_4 i.p0_5) (vec6 i.p1_0 i.p1_1 i.p1_2 i.p1_3 i.p1_4 i.p1_5) (vec6 i.p2_0 i.p2_1 i.p2_2 i.p2_3 i.p2_4 i.p2_5) (vec6 i.p3_0 i.p3_1 i.p3_2 i.p3_3 i.p3_4 i.p3_5) (vec6 i.p4_0 i.p4_1 i.p4_2 i.p4_3 i.p4_4 i.p4_5) (vec6 i.p5_0 i.p5_1 i.p5_2 i.p5_3 i.p5_4 i.p5_5)
def KS (i : In K) : Fin 6 → Fin 6 → K :=
  mat6 (vec6 i.K0_0 i.K0_1 i.K0_2 i.K0_3 i.K0_4 i.K0_5) (vec6 i.K1_0 i.K1_1 i.K1_2 i.K1_3 i.K1_4 i.K1_5) (vec6 i.K2_0 i.K2_1 i.K2_2 i.K2_3 i.K2_4 i.K2_5) (vec6 i.K3_0 i.K3_1 i.K3_2 i.K3_3 i.K3_4 i.K3_5) (vec6 i.K4_0 i.K4_1 i.K4_2 i.K4_3 i.K4_4 i.K4_5) (vec6 i.K5_0 i.K5_1 i.K5_2 i.K5_3 i.K5_4 i.K5_5)
def lam (i : In K) : Fin 3 → K | 0 => i.vp0 | 1 => i.vp1 | 2 => i.vp2
def ev (i : In K) : Fin 3 → K | 0 => i.e0 | 1 => i.e1 | 2 => i.e2
/-- `f' = 1/(2x)` and `f'' = -1/(2x²)` at the eigenvalues (f = ½ log) -/
def dv (i : In K) : Fin 3 → K | 0 => 1 / (2 * i.vp0) | 1 => 1 / (2 * i.vp1) | 2 => 1 / (2 * i.vp2)
def sv (i : In K) : Fin 3 → K
  | 0 => -1 / (2 * (i.vp0 * i.vp0)) | 1 => -1 / (2 * (i.vp1 * i.vp1)) | 2 => -1 / (2 * (i.vp2 * i.vp2))

/-- cut values gathered as matrices -/
def zmat (k : Cut K) : M3 K := ⟨k.z00, k.z01, k.z02, k.z10, k.z11, k.z12, k.z20, k.z21, k.z22⟩
def Nc0 (k : Cut K) : M3 K := ⟨k.N00_0 / 2, k.N01_0 / 2, k.N02_0 / 2, k.N10_0 / 2, k.N11_0 / 2, k.N12_0 / 2, k.N20_0 / 2, k.N21_0 / 2, k.N22_0 / 2⟩
def Nc1 (k : Cut K) : M3 K := ⟨k.N00_1 / 2, k.N01_1 / 2, k.N02_1 / 2, k.N10_1 / 2, k.N11_1 / 2, k.N12_1 / 2, k.N20_1 / 2, k.N21_1 / 2, k.N22_1 / 2⟩
def Nc2 (k : Cut K) : M3 K := ⟨k.N00_2 / 2, k.N01_2 / 2, k.N02_2 / 2, k.N10_2 / 2, k.N11_2 / 2, k.N12_2 / 2, k.N20_2 / 2, k.N21_2 / 2, k.N22_2 / 2⟩
def Nc3 (k : Cut K) : M3 K := ⟨k.N00_3 / 2, k.N01_3 / 2, k.N02_3 / 2, k.N10_3 / 2, k.N11_3 / 2, k.N12_3 / 2, k.N20_3 / 2, k.N21_3 / 2, k.N22_3 / 2⟩
def Nc4 (k : Cut K) : M3 K := ⟨k.N00_4 / 2, k.N01_4 / 2, k.N02_4 / 2, k.N10_4 / 2, k.N11_4 / 2, k.N12_4 / 2, k.N20_4 / 2, k.N21_4 / 2, k.N22_4 / 2⟩
def Nc5 (k : Cut K) : M3 K := ⟨k.N00_5 / 2, k.N01_5 / 2, k.N02_5 / 2, k.N10_5 / 2, k.N11_5 / 2, k.N12_5 / 2, k.N20_5 / 2, k.N21_5 / 2, k.N22_5 / 2⟩
def Nc (k : Cut K) : Fin 6 → M3 K | 0 => Nc0 k | 1 => Nc1 k | 2 => Nc2 k | 3 => Nc3 k | 4 => Nc4 k | 5 => Nc5 k

/-- the second order term in terms of the cut values -/
def so (k : Cut K) (a b : Fin 6) : K :=
  miehe3 k.f0 k.f1 k.f2 k.eta k.xi01 k.xi02 k.xi10 k.xi12 k.xi20 k.xi21 (zmat k) (Nc k a) (Nc k b)

/-! ## structure of the traced formula (cut values free) -/
theorem struct_row0 (i : In K) (k : Cut K) :
    [Gen3TL.N3_L_material_Kr0_0 c c3 fn i k, Gen3TL.N3_L_material_Kr0_1 c c3 fn i k, Gen3TL.N3_L_material_Kr0_2 c c3 fn i k, Gen3TL.N3_L_material_Kr0_3 c c3 fn i k, Gen3TL.N3_L_material_Kr0_4 c c3 fn i k, Gen3TL.N3_L_material_Kr0_5 c c3 fn i k]
    = [4 * quad6 (P i) (KS i) 0 0 + so k 0 0, 4 * quad6 (P i) (KS i) 0 1 + so k 0 1, 4 * quad6 (P i) (KS i) 0 2 + so k 0 2, 4 * quad6 (P i) (KS i) 0 3 + so k 0 3, 4 * quad6 (P i) (KS i) 0 4 + so k 0 4, 4 * quad6 (P i) (KS i) 0 5 + so k 0 5] := by
  simp only [gen_simp, quad6, dot6, mat6, vec6, P, KS, so, miehe3, miehePair, zmat, Nc, Nc0, Nc1, Nc2, Nc3, Nc4, Nc5,
    List.cons.injEq, and_true]
  repeat' apply And.intro
  all_goals ring
theorem struct_row1 (i : In K) (k : Cut K) :
    [Gen3TL.N3_L_material_Kr1_0 c c3 fn i k, Gen3TL.N3_L_material_Kr1_1 c c3 fn i k, Gen3TL.N3_L_material_Kr1_2 c c3 fn i k, Gen3TL.N3_L_material_Kr1_3 c c3 fn i k, Gen3TL.N3_L_material_Kr1_4 c c3 fn i k, Gen3TL.N3_L_material_Kr1_5 c c3 fn i k]
    = [4 * quad6 (P i) (KS i) 1 0 + so k 1 0, 4 * quad6 (P i) (KS i) 1 1 + so k 1 1, 4 * quad6 (P i) (KS i) 1 2 + so k 1 2, 4 * quad6 (P i) (KS i) 1 3 + so k 1 3, 4 * quad6 (P i) (KS i) 1 4 + so k 1 4, 4 * quad6 (P i) (KS i) 1 5 + so k 1 5] := by
  simp only [gen_simp, quad6, dot6, mat6, vec6, P, KS, so, miehe3, miehePair, zmat, Nc, Nc0, Nc1, Nc2, Nc3, Nc4, Nc5,
    List.cons.injEq, and_true]
  repeat' apply And.intro
  all_goals ring
theorem struct_row2 (i : In K) (k : Cut K) :
    [Gen3TL.N3_L_material_Kr2_0 c c3 fn i k, Gen3TL.N3_L_material_Kr2_1 c c3 fn i k, Gen3TL.N3_L_material_Kr2_2 c c3 fn i k, Gen3TL.N3_L_material_Kr2_3 c c3 fn i k, Gen3TL.N3_L_material_Kr2_4 c c3 fn i k, Gen3TL.N3_L_material_Kr2_5 c c3 fn i k]
    = [4 * quad6 (P i) (KS i) 2 0 + so k 2 0, 4 * quad6 (P i) (KS i) 2 1 + so k 2 1, 4 * quad6 (P i) (KS i) 2 2 + so k 2 2, 4 * quad6 (P i) (KS i) 2 3 + so k 2 3, 4 * quad6 (P i) (KS i) 2 4 + so k 2 4, 4 * quad6 (P i) (KS i) 2 5 + so k 2 5] := by
  simp only [gen_simp, quad6, dot6, mat6, vec6, P, KS, so, miehe3, miehePair, zmat, Nc, Nc0, Nc1, Nc2, Nc3, Nc4, Nc5,
    List.cons.injEq, and_true]
  repeat' apply And.intro
  all_goals ring
theorem struct_row3 (i : In K) (k : Cut K) :
    [Gen3TL.N3_L_material_Kr3_0 c c3 fn i k, Gen3TL.N3_L_material_Kr3_1 c c3 fn i k, Gen3TL.N3_L_material_Kr3_2 c c3 fn i k, Gen3TL.N3_L_material_Kr3_3 c c3 fn i k, Gen3TL.N3_L_material_Kr3_4 c c3 fn i k, Gen3TL.N3_L_material_Kr3_5 c c3 fn i k]
    = [4 * quad6 (P i) (KS i) 3 0 + so k 3 0, 4 * quad6 (P i) (KS i) 3 1 + so k 3 1, 4 * quad6 (P i) (KS i) 3 2 + so k 3 2, 4 * quad6 (P i) (KS i) 3 3 + so k 3 3, 4 * quad6 (P i) (KS i) 3 4 + so k 3 4, 4 * quad6 (P i) (KS i) 3 5 + so k 3 5] := by
  simp only [gen_simp, quad6, dot6, mat6, vec6, P, KS, so, miehe3, miehePair, zmat, Nc, Nc0, Nc1, Nc2, Nc3, Nc4, Nc5,
    List.cons.injEq, and_true]
  repeat' apply And.intro
  all_goals ring
theorem struct_row4 (i : In K) (k : Cut K) :
    [Gen3TL.N3_L_material_Kr4_0 c c3 fn i k, Gen3TL.N3_L_material_Kr4_1 c c3 fn i k, Gen3TL.N3_L_material_Kr4_2 c c3 fn i k, Gen3TL.N3_L_material_Kr4_3 c c3 fn i k, Gen3TL.N3_L_material_Kr4_4 c c3 fn i k, Gen3TL.N3_L_material_Kr4_5 c c3 fn i k]
    = [4 * quad6 (P i) (KS i) 4 0 + so k 4 0, 4 * quad6 (P i) (KS i) 4 1 + so k 4 1, 4 * quad6 (P i) (KS i) 4 2 + so k 4 2, 4 * quad6 (P i) (KS i) 4 3 + so k 4 3, 4 * quad6 (P i) (KS i) 4 4 + so k 4 4, 4 * quad6 (P i) (KS i) 4 5 + so k 4 5] := by
  simp only [gen_simp, quad6, dot6, mat6, vec6, P, KS, so, miehe3, miehePair, zmat, Nc, Nc0, Nc1, Nc2, Nc3, Nc4, Nc5,
    List.cons.injEq, and_true]
  repeat' apply And.intro
  all_goals ring
theorem struct_row5 (i : In K) (k : Cut K) :
    [Gen3TL.N3_L_material_Kr5_0 c c3 fn i k, Gen3TL.N3_L_material_Kr5_1 c c3 fn i k, Gen3TL.N3_L_material_Kr5_2 c c3 fn i k, Gen3TL.N3_L_material_Kr5_3 c c3 fn i k, Gen3TL.N3_L_material_Kr5_4 c c3 fn i k, Gen3TL.N3_L_material_Kr5_5 c c3 fn i k]
    = [4 * quad6 (P i) (KS i) 5 0 + so k 5 0, 4 * quad6 (P i) (KS i) 5 1 + so k 5 1, 4 * quad6 (P i) (KS i) 5 2 + so k 5 2, 4 * quad6 (P i) (KS i) 5 3 + so k 5 3, 4 * quad6 (P i) (KS i) 5 4 + so k 5 4, 4 * quad6 (P i) (KS i) 5 5 + so k 5 5] := by
  simp only [gen_simp, quad6, dot6, mat6, vec6, P, KS, so, miehe3, miehePair, zmat, Nc, Nc0, Nc1, Nc2, Nc3, Nc4, Nc5,
    List.cons.injEq, and_true]
  repeat' apply And.intro
  all_goals ring

/-! ## the cut values -/
abbrev cuts (i : In K) : Cut K := Gen3TL.N3_L_material_cuts c c3 fn i

theorem zmat_cuts (hc : c * c = 2) (i : In K) : zmat (cuts c c3 fn i) = eig (Mm i) (Tm c i) := by
  have hi : c⁻¹ = c / 2 := c_inv hc two_ne_zero
  simp only [zmat, cuts, Gen3TL.N3_L_material_cuts, gen_simp, eig, Mm, Tm, M3.sym, M3.mul_def, M3.mul, M3.transpose,
    M3.mk.injEq, div_eq_mul_inv, hi]
  repeat' apply And.intro
  all_goals c24_ring hc

theorem Nc_cuts (hc : c * c = 2) (i : In K) (a : Fin 6) :
    Nc (cuts c c3 fn i) a = eig (Mm i) (E c a) := by
  fin_cases a <;>
  · simp only [Nc, Nc0, Nc1, Nc2, Nc3, Nc4, Nc5, cuts, Gen3TL.N3_L_material_cuts, gen_simp, eig, Mm, E, M3.sym,
      M3.mul_def, M3.mul, M3.transpose, M3.mk.injEq, Fin.zero_eta, Fin.mk_one, Fin.reduceFinMk, Fin.isValue]
    repeat' apply And.intro
    all_goals c24_ring hc

theorem coef_cuts (i : In K) :
    let k := cuts c c3 fn i
    k.f0 = 4 * sv i 0 ∧ k.f1 = 4 * sv i 1 ∧ k.f2 = 4 * sv i 2
    ∧ k.eta = eta3 i.vp0 i.vp1 i.vp2 i.e0 i.e1 i.e2
    ∧ k.xi01 = xi i.vp0 i.vp1 i.e0 i.e1 (dv i 1) ∧ k.xi02 = xi i.vp0 i.vp2 i.e0 i.e2 (dv i 2)
    ∧ k.xi10 = xi i.vp1 i.vp0 i.e1 i.e0 (dv i 0) ∧ k.xi12 = xi i.vp1 i.vp2 i.e1 i.e2 (dv i 2)
    ∧ k.xi20 = xi i.vp2 i.vp0 i.e2 i.e0 (dv i 0) ∧ k.xi21 = xi i.vp2 i.vp1 i.e2 i.e1 (dv i 1) := by
  simp only [cuts, Gen3TL.N3_L_material_cuts, gen_simp, sv, dv, eta3, xi]
  repeat' apply And.intro
  all_goals (first | trivial | ring)

theorem so_cuts (hc : c * c = 2) (i : In K)
    (hl : ∀ a b : Fin 3, a ≠ b → lam i a ≠ lam i b) (a b : Fin 6) :
    so (cuts c c3 fn i) a b
      = 4 * D2 (lam i) (ev i) (dv i) (sv i) (eig (Mm i) (Tm c i)) (eig (Mm i) (E c a)) (eig (Mm i) (E c b)) := by
  obtain ⟨h0, h1, h2, h3, h4, h5, h6, h7, h8, h9⟩ := coef_cuts c c3 fn i
  simp only [so]
  rw [zmat_cuts c c3 fn hc, Nc_cuts c c3 fn hc, Nc_cuts c c3 fn hc, h0, h1, h2, h3, h4, h5, h6, h7, h8, h9]
  exact miehe3_eq_D2 (lam i) (ev i) (dv i) (sv i) _ _ _
    (isSym_eig _ _ (isSym_sym ..)) (isSym_eig _ _ (isSym_E c a)) (isSym_eig _ _ (isSym_E c b)) hl

/-! ## the property: converted tangent = 4 pᵀ Ks p + 4 T : D²E_log(C) -/
theorem N3_L_material_row0 (hc : c * c = 2) (i : In K)
    (hl : ∀ a b : Fin 3, a ≠ b → lam i a ≠ lam i b) :
    [Gen3TL.N3_L_material_Kr0_0_full c c3 fn i, Gen3TL.N3_L_material_Kr0_1_full c c3 fn i, Gen3TL.N3_L_material_Kr0_2_full c c3 fn i, Gen3TL.N3_L_material_Kr0_3_full c c3 fn i, Gen3TL.N3_L_material_Kr0_4_full c c3 fn i, Gen3TL.N3_L_material_Kr0_5_full c c3 fn i]
    = [4 * quad6 (P i) (KS i) 0 0 + 4 * D2 (lam i) (ev i) (dv i) (sv i) (eig (Mm i) (Tm c i)) (eig (Mm i) (E c 0)) (eig (Mm i) (E c 0)),
       4 * quad6 (P i) (KS i) 0 1 + 4 * D2 (lam i) (ev i) (dv i) (sv i) (eig (Mm i) (Tm c i)) (eig (Mm i) (E c 0)) (eig (Mm i) (E c 1)),
       4 * quad6 (P i) (KS i) 0 2 + 4 * D2 (lam i) (ev i) (dv i) (sv i) (eig (Mm i) (Tm c i)) (eig (Mm i) (E c 0)) (eig (Mm i) (E c 2)),
       4 * quad6 (P i) (KS i) 0 3 + 4 * D2 (lam i) (ev i) (dv i) (sv i) (eig (Mm i) (Tm c i)) (eig (Mm i) (E c 0)) (eig (Mm i) (E c 3)),
       4 * quad6 (P i) (KS i) 0 4 + 4 * D2 (lam i) (ev i) (dv i) (sv i) (eig (Mm i) (Tm c i)) (eig (Mm i) (E c 0)) (eig (Mm i) (E c 4)),
       4 * quad6 (P i) (KS i) 0 5 + 4 * D2 (lam i) (ev i) (dv i) (sv i) (eig (Mm i) (Tm c i)) (eig (Mm i) (E c 0)) (eig (Mm i) (E c 5))] := by
  simp only [Gen3TL.N3_L_material_Kr0_0_full, Gen3TL.N3_L_material_Kr0_1_full, Gen3TL.N3_L_material_Kr0_2_full, Gen3TL.N3_L_material_Kr0_3_full, Gen3TL.N3_L_material_Kr0_4_full, Gen3TL.N3_L_material_Kr0_5_full]
  rw [struct_row0 c c3 fn i (cuts c c3 fn i)]
  simp only [so_cuts c c3 fn hc i hl]
theorem N3_L_material_row1 (hc : c * c = 2) (i : In K)
    (hl : ∀ a b : Fin 3, a ≠ b → lam i a ≠ lam i b) :
    [Gen3TL.N3_L_material_Kr1_0_full c c3 fn i, Gen3TL.N3_L_material_Kr1_1_full c c3 fn i, Gen3TL.N3_L_material_Kr1_2_full c c3 fn i, Gen3TL.N3_L_material_Kr1_3_full c c3 fn i, Gen3TL.N3_L_material_Kr1_4_full c c3 fn i, Gen3TL.N3_L_material_Kr1_5_full c c3 fn i]
    = [4 * quad6 (P i) (KS i) 1 0 + 4 * D2 (lam i) (ev i) (dv i) (sv i) (eig (Mm i) (Tm c i)) (eig (Mm i) (E c 1)) (eig (Mm i) (E c 0)),
       4 * quad6 (P i) (KS i) 1 1 + 4 * D2 (lam i) (ev i) (dv i) (sv i) (eig (Mm i) (Tm c i)) (eig (Mm i) (E c 1)) (eig (Mm i) (E c 1)),
       4 * quad6 (P i) (KS i) 1 2 + 4 * D2 (lam i) (ev i) (dv i) (sv i) (eig (Mm i) (Tm c i)) (eig (Mm i) (E c 1)) (eig (Mm i) (E c 2)),
       4 * quad6 (P i) (KS i) 1 3 + 4 * D2 (lam i) (ev i) (dv i) (sv i) (eig (Mm i) (Tm c i)) (eig (Mm i) (E c 1)) (eig (Mm i) (E c 3)),
       4 * quad6 (P i) (KS i) 1 4 + 4 * D2 (lam i) (ev i) (dv i) (sv i) (eig (Mm i) (Tm c i)) (eig (Mm i) (E c 1)) (eig (Mm i) (E c 4)),
       4 * quad6 (P i) (KS i) 1 5 + 4 * D2 (lam i) (ev i) (dv i) (sv i) (eig (Mm i) (Tm c i)) (eig (Mm i) (E c 1)) (eig (Mm i) (E c 5))] := by
  simp only [Gen3TL.N3_L_material_Kr1_0_full, Gen3TL.N3_L_material_Kr1_1_full, Gen3TL.N3_L_material_Kr1_2_full, Gen3TL.N3_L_material_Kr1_3_full, Gen3TL.N3_L_material_Kr1_4_full, Gen3TL.N3_L_material_Kr1_5_full]
  rw [struct_row1 c c3 fn i (cuts c c3 fn i)]
  simp only [so_cuts c c3 fn hc i hl]
theorem N3_L_material_row2 (hc : c * c = 2) (i : In K)
    (hl : ∀ a b : Fin 3, a ≠ b → lam i a ≠ lam i b) :
    [Gen3TL.N3_L_material_Kr2_0_full c c3 fn i, Gen3TL.N3_L_material_Kr2_1_full c c3 fn i, Gen3TL.N3_L_material_Kr2_2_full c c3 fn i, Gen3TL.N3_L_material_Kr2_3_full c c3 fn i, Gen3TL.N3_L_material_Kr2_4_full c c3 fn i, Gen3TL.N3_L_material_Kr2_5_full c c3 fn i]
    = [4 * quad6 (P i) (KS i) 2 0 + 4 * D2 (lam i) (ev i) (dv i) (sv i) (eig (Mm i) (Tm c i)) (eig (Mm i) (E c 2)) (eig (Mm i) (E c 0)),
       4 * quad6 (P i) (KS i) 2 1 + 4 * D2 (lam i) (ev i) (dv i) (sv i) (eig (Mm i) (Tm c i)) (eig (Mm i) (E c 2)) (eig (Mm i) (E c 1)),
       4 * quad6 (P i) (KS i) 2 2 + 4 * D2 (lam i) (ev i) (dv i) (sv i) (eig (Mm i) (Tm c i)) (eig (Mm i) (E c 2)) (eig (Mm i) (E c 2)),
       4 * quad6 (P i) (KS i) 2 3 + 4 * D2 (lam i) (ev i) (dv i) (sv i) (eig (Mm i) (Tm c i)) (eig (Mm i) (E c 2)) (eig (Mm i) (E c 3)),
       4 * quad6 (P i) (KS i) 2 4 + 4 * D2 (lam i) (ev i) (dv i) (sv i) (eig (Mm i) (Tm c i)) (eig (Mm i) (E c 2)) (eig (Mm i) (E c 4)),
       4 * quad6 (P i) (KS i) 2 5 + 4 * D2 (lam i) (ev i) (dv i) (sv i) (eig (Mm i) (Tm c i)) (eig (Mm i) (E c 2)) (eig (Mm i) (E c 5))] := by
  simp only [Gen3TL.N3_L_material_Kr2_0_full, Gen3TL.N3_L_material_Kr2_1_full, Gen3TL.N3_L_material_Kr2_2_full, Gen3TL.N3_L_material_Kr2_3_full, Gen3TL.N3_L_material_Kr2_4_full, Gen3TL.N3_L_material_Kr2_5_full]
  rw [struct_row2 c c3 fn i (cuts c c3 fn i)]
  simp only [so_cuts c c3 fn hc i hl]
theorem N3_L_material_row3 (hc : c * c = 2) (i : In K)
    (hl : ∀ a b : Fin 3, a ≠ b → lam i a ≠ lam i b) :
    [Gen3TL.N3_L_material_Kr3_0_full c c3 fn i, Gen3TL.N3_L_material_Kr3_1_full c c3 fn i, Gen3TL.N3_L_material_Kr3_2_full c c3 fn i, Gen3TL.N3_L_material_Kr3_3_full c c3 fn i, Gen3TL.N3_L_material_Kr3_4_full c c3 fn i, Gen3TL.N3_L_material_Kr3_5_full c c3 fn i]
    = [4 * quad6 (P i) (KS i) 3 0 + 4 * D2 (lam i) (ev i) (dv i) (sv i) (eig (Mm i) (Tm c i)) (eig (Mm i) (E c 3)) (eig (Mm i) (E c 0)),
       4 * quad6 (P i) (KS i) 3 1 + 4 * D2 (lam i) (ev i) (dv i) (sv i) (eig (Mm i) (Tm c i)) (eig (Mm i) (E c 3)) (eig (Mm i) (E c 1)),
       4 * quad6 (P i) (KS i) 3 2 + 4 * D2 (lam i) (ev i) (dv i) (sv i) (eig (Mm i) (Tm c i)) (eig (Mm i) (E c 3)) (eig (Mm i) (E c 2)),
       4 * quad6 (P i) (KS i) 3 3 + 4 * D2 (lam i) (ev i) (dv i) (sv i) (eig (Mm i) (Tm c i)) (eig (Mm i) (E c 3)) (eig (Mm i) (E c 3)),
       4 * quad6 (P i) (KS i) 3 4 + 4 * D2 (lam i) (ev i) (dv i) (sv i) (eig (Mm i) (Tm c i)) (eig (Mm i) (E c 3)) (eig (Mm i) (E c 4)),
       4 * quad6 (P i) (KS i) 3 5 + 4 * D2 (lam i) (ev i) (dv i) (sv i) (eig (Mm i) (Tm c i)) (eig (Mm i) (E c 3)) (eig (Mm i) (E c 5))] := by
  simp only [Gen3TL.N3_L_material_Kr3_0_full, Gen3TL.N3_L_material_Kr3_1_full, Gen3TL.N3_L_material_Kr3_2_full, Gen3TL.N3_L_material_Kr3_3_full, Gen3TL.N3_L_material_Kr3_4_full, Gen3TL.N3_L_material_Kr3_5_full]
  rw [struct_row3 c c3 fn i (cuts c c3 fn i)]
  simp only [so_cuts c c3 fn hc i hl]
theorem N3_L_material_row4 (hc : c * c = 2) (i : In K)
    (hl : ∀ a b : Fin 3, a ≠ b → lam i a ≠ lam i b) :
    [Gen3TL.N3_L_material_Kr4_0_full c c3 fn i, Gen3TL.N3_L_material_Kr4_1_full c c3 fn i, Gen3TL.N3_L_material_Kr4_2_full c c3 fn i, Gen3TL.N3_L_material_Kr4_3_full c c3 fn i, Gen3TL.N3_L_material_Kr4_4_full c c3 fn i, Gen3TL.N3_L_material_Kr4_5_full c c3 fn i]
    = [4 * quad6 (P i) (KS i) 4 0 + 4 * D2 (lam i) (ev i) (dv i) (sv i) (eig (Mm i) (Tm c i)) (eig (Mm i) (E c 4)) (eig (Mm i) (E c 0)),
       4 * quad6 (P i) (KS i) 4 1 + 4 * D2 (lam i) (ev i) (dv i) (sv i) (eig (Mm i) (Tm c i)) (eig (Mm i) (E c 4)) (eig (Mm i) (E c 1)),
       4 * quad6 (P i) (KS i) 4 2 + 4 * D2 (lam i) (ev i) (dv i) (sv i) (eig (Mm i) (Tm c i)) (eig (Mm i) (E c 4)) (eig (Mm i) (E c 2)),
       4 * quad6 (P i) (KS i) 4 3 + 4 * D2 (lam i) (ev i) (dv i) (sv i) (eig (Mm i) (Tm c i)) (eig (Mm i) (E c 4)) (eig (Mm i) (E c 3)),
       4 * quad6 (P i) (KS i) 4 4 + 4 * D2 (lam i) (ev i) (dv i) (sv i) (eig (Mm i) (Tm c i)) (eig (Mm i) (E c 4)) (eig (Mm i) (E c 4)),
       4 * quad6 (P i) (KS i) 4 5 + 4 * D2 (lam i) (ev i) (dv i) (sv i) (eig (Mm i) (Tm c i)) (eig (Mm i) (E c 4)) (eig (Mm i) (E c 5))] := by
  simp only [Gen3TL.N3_L_material_Kr4_0_full, Gen3TL.N3_L_material_Kr4_1_full, Gen3TL.N3_L_material_Kr4_2_full, Gen3TL.N3_L_material_Kr4_3_full, Gen3TL.N3_L_material_Kr4_4_full, Gen3TL.N3_L_material_Kr4_5_full]
  rw [struct_row4 c c3 fn i (cuts c c3 fn i)]
  simp only [so_cuts c c3 fn hc i hl]
theorem N3_L_material_row5 (hc : c * c = 2) (i : In K)
    (hl : ∀ a b : Fin 3, a ≠ b → lam i a ≠ lam i b) :
    [Gen3TL.N3_L_material_Kr5_0_full c c3 fn i, Gen3TL.N3_L_material_Kr5_1_full c c3 fn i, Gen3TL.N3_L_material_Kr5_2_full c c3 fn i, Gen3TL.N3_L_material_Kr5_3_full c c3 fn i, Gen3TL.N3_L_material_Kr5_4_full c c3 fn i, Gen3TL.N3_L_material_Kr5_5_full c c3 fn i]
    = [4 * quad6 (P i) (KS i) 5 0 + 4 * D2 (lam i) (ev i) (dv i) (sv i) (eig (Mm i) (Tm c i)) (eig (Mm i) (E c 5)) (eig (Mm i) (E c 0)),
       4 * quad6 (P i) (KS i) 5 1 + 4 * D2 (lam i) (ev i) (dv i) (sv i) (eig (Mm i) (Tm c i)) (eig (Mm i) (E c 5)) (eig (Mm i) (E c 1)),
       4 * quad6 (P i) (KS i) 5 2 + 4 * D2 (lam i) (ev i) (dv i) (sv i) (eig (Mm i) (Tm c i)) (eig (Mm i) (E c 5)) (eig (Mm i) (E c 2)),
       4 * quad6 (P i) (KS i) 5 3 + 4 * D2 (lam i) (ev i) (dv i) (sv i) (eig (Mm i) (Tm c i)) (eig (Mm i) (E c 5)) (eig (Mm i) (E c 3)),
       4 * quad6 (P i) (KS i) 5 4 + 4 * D2 (lam i) (ev i) (dv i) (sv i) (eig (Mm i) (Tm c i)) (eig (Mm i) (E c 5)) (eig (Mm i) (E c 4)),
       4 * quad6 (P i) (KS i) 5 5 + 4 * D2 (lam i) (ev i) (dv i) (sv i) (eig (Mm i) (Tm c i)) (eig (Mm i) (E c 5)) (eig (Mm i) (E c 5))] := by
  simp only [Gen3TL.N3_L_material_Kr5_0_full, Gen3TL.N3_L_material_Kr5_1_full, Gen3TL.N3_L_material_Kr5_2_full, Gen3TL.N3_L_material_Kr5_3_full, Gen3TL.N3_L_material_Kr5_4_full, Gen3TL.N3_L_material_Kr5_5_full]
  rw [struct_row5 c c3 fn i (cuts c c3 fn i)]
  simp only [so_cuts c c3 fn hc i hl]

end TfelVerif.C24.Props3T
