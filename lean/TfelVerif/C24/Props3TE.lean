/-
  C24 — 3D, tangent operator conversion, Eulerian setting (generic eps-branch). Property theorems only.

  Traced units `N3_E_spatial` = `convertToSpatialTangentModuli(Ks, T)` and `N3_E_truesdell` =
  `convertToCauchyStressTruesdellRateTangentModuli(Ks, T)` on an EULERIAN handler whose members are input
  symbols (see Props3T for the conventions).

  `N3_E_spatial_row{a}`:  Kr(a,b) = 4 (pᵀ Ks p)(a,b) + 4 · T : D²f(C)[Fᵀ E_a F, Fᵀ E_b F]
  — the eigenbasis components of `X` are taken in the pushed-forward basis `n_i = F v_i`
  (`eig (F M) X = Mᵀ (Fᵀ X F) M`): the spatial second order term is the push-forward of the material one
  (Props3T.N3_L_material_row*).  `N3_E_truesdell_row{a}`: the same divided by `det F`.
-/
import TfelVerif.C24.Lemmas
import TfelVerif.C24.Gen3TE

namespace TfelVerif.C24.Props3TE
open TfelVerif TfelVerif.Mandel TfelVerif.C24
set_option linter.unusedVariables false
set_option linter.unusedSimpArgs false
set_option linter.unusedSectionVars false
set_option maxRecDepth 100000

variable {K : Type} [Field K] [CharZero K] (c c3 : K) (fn : Fns K)

abbrev In := Gen3TE.N3_E_spatial_In
abbrev Cut := Gen3TE.N3_E_spatial_Cut

/-- eigenvectors (columns) -/
def Mm (i : In K) : M3 K := ⟨i.m00, i.m01, i.m02, i.m10, i.m11, i.m12, i.m20, i.m21, i.m22⟩
/-- deformation gradient (TFEL tensor storage) -/
def FE (i : In K) : M3 K := M3.ofTens [i.F0, i.F1, i.F2, i.F3, i.F4, i.F5, i.F6, i.F7, i.F8]
/-- dual of the logarithmic strain: the inputs `T0..T5` are its Mandel components -/
def Tm (c : K) (i : In K) : M3 K := M3.sym i.T0 i.T1 i.T2 (i.T3 / c) (i.T4 / c) (i.T5 / c)
/-- `p` and `Ks` as 6×6 Mandel matrices -/
def P (i : In K) : Fin 6 → Fin 6 → K :=
  mat6 (vec6 i.p0_0 i.p0_1 i.p0_2 i.p0_3 i.p0_4 i.p0_5) (vec6 i.p1_0 i.p1_1 i.p1_2 i.p1_3 i.p1_4 i.p1_5) (vec6 i.p2_0 i.p2_1 i.p2_2 i.p2_3 i.p2_4 i.p2_5) (vec6 i.p3_0 i.p3_1 i.p3_2 i.p3_3 i.p3_4 i.p3_5) (vec6 i.p4_0 i.p4_1 i.p4_2 i.p4_3 i.p4_4 i.p4_5) (vec6 i.p5_0 i.p5_1 i.p5_2 i.p5_3 i.p5_4 i.p5_5)
def KS (i : In K) : Fin 6 → Fin 6 → K :=
  mat6 (vec6 i.K0_0 i.K0_1 i.K0_2 i.K0_3 i.K0_4 i.K0_5) (vec6 i.K1_0 i.K1_1 i.K1_2 i.K1_3 i.K1_4 i.K1_5) (vec6 i.K2_0 i.K2_1 i.K2_2 i.K2_3 i.K2_4 i.K2_5) (vec6 i.K3_0 i.K3_1 i.K3_2 i.K3_3 i.K3_4 i.K3_5) (vec6 i.K4_0 i.K4_1 i.K4_2 i.K4_3 i.K4_4 i.K4_5) (vec6 i.K5_0 i.K5_1 i.K5_2 i.K5_3 i.K5_4 i.K5_5)
def lam (i : In K) : Fin 3 → K | 0 => i.vp0 | 1 => i.vp1 | 2 => i.vp2
def ev (i : In K) : Fin 3 → K | 0 => i.e0 | 1 => i.e1 | 2 => i.e2
/-- `f' = 1/(2x)` and `f'' = -1/(2x²)` at the eigenvalues (f = ½ log) -/
def dv (i : In K) : Fin 3 → K | 0 => 1 / (2 * i.vp0) | 1 => 1 / (2 * i.vp1) | 2 => 1 / (2 * i.vp2)
def sv (i : In K) : Fin 3 → K
  | 0 => -1 / (2 * (i.vp0 * i.vp0)) | 1 => -1 / (2 * (i.vp1 * i.vp1)) | 2 => -1 / (2 * (i.vp2 * i.vp2))

/-- cut values gathered as matrices -/
def zmat (k : Cut K) : M3 K := ⟨k.z00, k.z01, k.z02, k.z10, k.z11, k.z12, k.z20, k.z21, k.z22⟩
def Mc0 (k : Cut K) : M3 K := ⟨k.M00_0 / 2, k.M01_0 / 2, k.M02_0 / 2, k.M10_0 / 2, k.M11_0 / 2, k.M12_0 / 2, k.M20_0 / 2, k.M21_0 / 2, k.M22_0 / 2⟩
def Mc1 (k : Cut K) : M3 K := ⟨k.M00_1 / 2, k.M01_1 / 2, k.M02_1 / 2, k.M10_1 / 2, k.M11_1 / 2, k.M12_1 / 2, k.M20_1 / 2, k.M21_1 / 2, k.M22_1 / 2⟩
def Mc2 (k : Cut K) : M3 K := ⟨k.M00_2 / 2, k.M01_2 / 2, k.M02_2 / 2, k.M10_2 / 2, k.M11_2 / 2, k.M12_2 / 2, k.M20_2 / 2, k.M21_2 / 2, k.M22_2 / 2⟩
def Mc3 (k : Cut K) : M3 K := ⟨k.M00_3 / 2, k.M01_3 / 2, k.M02_3 / 2, k.M10_3 / 2, k.M11_3 / 2, k.M12_3 / 2, k.M20_3 / 2, k.M21_3 / 2, k.M22_3 / 2⟩
def Mc4 (k : Cut K) : M3 K := ⟨k.M00_4 / 2, k.M01_4 / 2, k.M02_4 / 2, k.M10_4 / 2, k.M11_4 / 2, k.M12_4 / 2, k.M20_4 / 2, k.M21_4 / 2, k.M22_4 / 2⟩
def Mc5 (k : Cut K) : M3 K := ⟨k.M00_5 / 2, k.M01_5 / 2, k.M02_5 / 2, k.M10_5 / 2, k.M11_5 / 2, k.M12_5 / 2, k.M20_5 / 2, k.M21_5 / 2, k.M22_5 / 2⟩
def Mc (k : Cut K) : Fin 6 → M3 K | 0 => Mc0 k | 1 => Mc1 k | 2 => Mc2 k | 3 => Mc3 k | 4 => Mc4 k | 5 => Mc5 k

/-- the second order term in terms of the cut values -/
def so (k : Cut K) (a b : Fin 6) : K :=
  miehe3 k.f0 k.f1 k.f2 k.eta k.xi01 k.xi02 k.xi10 k.xi12 k.xi20 k.xi21 (zmat k) (Mc k a) (Mc k b)

/-! ## structure of the traced formula (cut values free) -/
theorem struct_row0 (i : In K) (k : Cut K) :
    [Gen3TE.N3_E_spatial_Kr0_0 c c3 fn i k, Gen3TE.N3_E_spatial_Kr0_1 c c3 fn i k, Gen3TE.N3_E_spatial_Kr0_2 c c3 fn i k, Gen3TE.N3_E_spatial_Kr0_3 c c3 fn i k, Gen3TE.N3_E_spatial_Kr0_4 c c3 fn i k, Gen3TE.N3_E_spatial_Kr0_5 c c3 fn i k]
    = [4 * quad6 (P i) (KS i) 0 0 + so k 0 0, 4 * quad6 (P i) (KS i) 0 1 + so k 0 1, 4 * quad6 (P i) (KS i) 0 2 + so k 0 2, 4 * quad6 (P i) (KS i) 0 3 + so k 0 3, 4 * quad6 (P i) (KS i) 0 4 + so k 0 4, 4 * quad6 (P i) (KS i) 0 5 + so k 0 5] := by
  simp only [gen_simp, quad6, dot6, mat6, vec6, P, KS, so, miehe3, miehePair, zmat, Mc, Mc0, Mc1, Mc2, Mc3, Mc4, Mc5,
    List.cons.injEq, and_true]
  repeat' apply And.intro
  all_goals ring
theorem struct_row1 (i : In K) (k : Cut K) :
    [Gen3TE.N3_E_spatial_Kr1_0 c c3 fn i k, Gen3TE.N3_E_spatial_Kr1_1 c c3 fn i k, Gen3TE.N3_E_spatial_Kr1_2 c c3 fn i k, Gen3TE.N3_E_spatial_Kr1_3 c c3 fn i k, Gen3TE.N3_E_spatial_Kr1_4 c c3 fn i k, Gen3TE.N3_E_spatial_Kr1_5 c c3 fn i k]
    = [4 * quad6 (P i) (KS i) 1 0 + so k 1 0, 4 * quad6 (P i) (KS i) 1 1 + so k 1 1, 4 * quad6 (P i) (KS i) 1 2 + so k 1 2, 4 * quad6 (P i) (KS i) 1 3 + so k 1 3, 4 * quad6 (P i) (KS i) 1 4 + so k 1 4, 4 * quad6 (P i) (KS i) 1 5 + so k 1 5] := by
  simp only [gen_simp, quad6, dot6, mat6, vec6, P, KS, so, miehe3, miehePair, zmat, Mc, Mc0, Mc1, Mc2, Mc3, Mc4, Mc5,
    List.cons.injEq, and_true]
  repeat' apply And.intro
  all_goals ring
theorem struct_row2 (i : In K) (k : Cut K) :
    [Gen3TE.N3_E_spatial_Kr2_0 c c3 fn i k, Gen3TE.N3_E_spatial_Kr2_1 c c3 fn i k, Gen3TE.N3_E_spatial_Kr2_2 c c3 fn i k, Gen3TE.N3_E_spatial_Kr2_3 c c3 fn i k, Gen3TE.N3_E_spatial_Kr2_4 c c3 fn i k, Gen3TE.N3_E_spatial_Kr2_5 c c3 fn i k]
    = [4 * quad6 (P i) (KS i) 2 0 + so k 2 0, 4 * quad6 (P i) (KS i) 2 1 + so k 2 1, 4 * quad6 (P i) (KS i) 2 2 + so k 2 2, 4 * quad6 (P i) (KS i) 2 3 + so k 2 3, 4 * quad6 (P i) (KS i) 2 4 + so k 2 4, 4 * quad6 (P i) (KS i) 2 5 + so k 2 5] := by
  simp only [gen_simp, quad6, dot6, mat6, vec6, P, KS, so, miehe3, miehePair, zmat, Mc, Mc0, Mc1, Mc2, Mc3, Mc4, Mc5,
    List.cons.injEq, and_true]
  repeat' apply And.intro
  all_goals ring
theorem struct_row3 (i : In K) (k : Cut K) :
    [Gen3TE.N3_E_spatial_Kr3_0 c c3 fn i k, Gen3TE.N3_E_spatial_Kr3_1 c c3 fn i k, Gen3TE.N3_E_spatial_Kr3_2 c c3 fn i k, Gen3TE.N3_E_spatial_Kr3_3 c c3 fn i k, Gen3TE.N3_E_spatial_Kr3_4 c c3 fn i k, Gen3TE.N3_E_spatial_Kr3_5 c c3 fn i k]
    = [4 * quad6 (P i) (KS i) 3 0 + so k 3 0, 4 * quad6 (P i) (KS i) 3 1 + so k 3 1, 4 * quad6 (P i) (KS i) 3 2 + so k 3 2, 4 * quad6 (P i) (KS i) 3 3 + so k 3 3, 4 * quad6 (P i) (KS i) 3 4 + so k 3 4, 4 * quad6 (P i) (KS i) 3 5 + so k 3 5] := by
  simp only [gen_simp, quad6, dot6, mat6, vec6, P, KS, so, miehe3, miehePair, zmat, Mc, Mc0, Mc1, Mc2, Mc3, Mc4, Mc5,
    List.cons.injEq, and_true]
  repeat' apply And.intro
  all_goals ring
theorem struct_row4 (i : In K) (k : Cut K) :
    [Gen3TE.N3_E_spatial_Kr4_0 c c3 fn i k, Gen3TE.N3_E_spatial_Kr4_1 c c3 fn i k, Gen3TE.N3_E_spatial_Kr4_2 c c3 fn i k, Gen3TE.N3_E_spatial_Kr4_3 c c3 fn i k, Gen3TE.N3_E_spatial_Kr4_4 c c3 fn i k, Gen3TE.N3_E_spatial_Kr4_5 c c3 fn i k]
    = [4 * quad6 (P i) (KS i) 4 0 + so k 4 0, 4 * quad6 (P i) (KS i) 4 1 + so k 4 1, 4 * quad6 (P i) (KS i) 4 2 + so k 4 2, 4 * quad6 (P i) (KS i) 4 3 + so k 4 3, 4 * quad6 (P i) (KS i) 4 4 + so k 4 4, 4 * quad6 (P i) (KS i) 4 5 + so k 4 5] := by
  simp only [gen_simp, quad6, dot6, mat6, vec6, P, KS, so, miehe3, miehePair, zmat, Mc, Mc0, Mc1, Mc2, Mc3, Mc4, Mc5,
    List.cons.injEq, and_true]
  repeat' apply And.intro
  all_goals ring
theorem struct_row5 (i : In K) (k : Cut K) :
    [Gen3TE.N3_E_spatial_Kr5_0 c c3 fn i k, Gen3TE.N3_E_spatial_Kr5_1 c c3 fn i k, Gen3TE.N3_E_spatial_Kr5_2 c c3 fn i k, Gen3TE.N3_E_spatial_Kr5_3 c c3 fn i k, Gen3TE.N3_E_spatial_Kr5_4 c c3 fn i k, Gen3TE.N3_E_spatial_Kr5_5 c c3 fn i k]
    = [4 * quad6 (P i) (KS i) 5 0 + so k 5 0, 4 * quad6 (P i) (KS i) 5 1 + so k 5 1, 4 * quad6 (P i) (KS i) 5 2 + so k 5 2, 4 * quad6 (P i) (KS i) 5 3 + so k 5 3, 4 * quad6 (P i) (KS i) 5 4 + so k 5 4, 4 * quad6 (P i) (KS i) 5 5 + so k 5 5] := by
  simp only [gen_simp, quad6, dot6, mat6, vec6, P, KS, so, miehe3, miehePair, zmat, Mc, Mc0, Mc1, Mc2, Mc3, Mc4, Mc5,
    List.cons.injEq, and_true]
  repeat' apply And.intro
  all_goals ring

/-! ## the cut values -/
abbrev cuts (i : In K) : Cut K := Gen3TE.N3_E_spatial_cuts c c3 fn i

theorem zmat_cuts (hc : c * c = 2) (i : In K) : zmat (cuts c c3 fn i) = eig (Mm i) (Tm c i) := by
  have hi : c⁻¹ = c / 2 := c_inv hc two_ne_zero
  simp only [zmat, cuts, Gen3TE.N3_E_spatial_cuts, gen_simp, eig, Mm, Tm, M3.sym, M3.mul_def, M3.mul, M3.transpose,
    M3.mk.injEq, div_eq_mul_inv, hi]
  repeat' apply And.intro
  all_goals c24_ring hc

theorem Mc_cuts (hc : c * c = 2) (i : In K) (a : Fin 6) :
    Mc (cuts c c3 fn i) a = eig (FE i * Mm i) (E c a) := by
  fin_cases a <;>
  · simp only [Mc, Mc0, Mc1, Mc2, Mc3, Mc4, Mc5, cuts, Gen3TE.N3_E_spatial_cuts, gen_simp, eig, Mm, FE, M3.ofTens, E, M3.sym,
      M3.mul_def, M3.mul, M3.transpose, M3.mk.injEq, Fin.zero_eta, Fin.mk_one, Fin.reduceFinMk, Fin.isValue]
    repeat' apply And.intro
    all_goals c24_ring hc

theorem coef_cuts (i : In K) :
    let k := cuts c c3 fn i
    k.f0 = 4 * sv i 0 ∧ k.f1 = 4 * sv i 1 ∧ k.f2 = 4 * sv i 2
    ∧ k.eta = eta3 i.vp0 i.vp1 i.vp2 i.e0 i.e1 i.e2
    ∧ k.xi01 = xi i.vp0 i.vp1 i.e0 i.e1 (dv i 1) ∧ k.xi02 = xi i.vp0 i.vp2 i.e0 i.e2 (dv i 2)
    ∧ k.xi10 = xi i.vp1 i.vp0 i.e1 i.e0 (dv i 0) ∧ k.xi12 = xi i.vp1 i.vp2 i.e1 i.e2 (dv i 2)
    ∧ k.xi20 = xi i.vp2 i.vp0 i.e2 i.e0 (dv i 0) ∧ k.xi21 = xi i.vp2 i.vp1 i.e2 i.e1 (dv i 1) := by
  simp only [cuts, Gen3TE.N3_E_spatial_cuts, gen_simp, sv, dv, eta3, xi]
  repeat' apply And.intro
  all_goals (first | trivial | ring)

theorem so_cuts (hc : c * c = 2) (i : In K)
    (hl : ∀ a b : Fin 3, a ≠ b → lam i a ≠ lam i b) (a b : Fin 6) :
    so (cuts c c3 fn i) a b
      = 4 * D2 (lam i) (ev i) (dv i) (sv i) (eig (Mm i) (Tm c i)) (eig (FE i * Mm i) (E c a)) (eig (FE i * Mm i) (E c b)) := by
  obtain ⟨h0, h1, h2, h3, h4, h5, h6, h7, h8, h9⟩ := coef_cuts c c3 fn i
  simp only [so]
  rw [zmat_cuts c c3 fn hc, Mc_cuts c c3 fn hc, Mc_cuts c c3 fn hc, h0, h1, h2, h3, h4, h5, h6, h7, h8, h9]
  exact miehe3_eq_D2 (lam i) (ev i) (dv i) (sv i) _ _ _
    (isSym_eig _ _ (isSym_sym ..)) (isSym_eig _ _ (isSym_E c a)) (isSym_eig _ _ (isSym_E c b)) hl

/-! ## the property: converted tangent = 4 pᵀ Ks p + 4 T : D²E_log(C) -/
theorem N3_E_spatial_row0 (hc : c * c = 2) (i : In K)
    (hl : ∀ a b : Fin 3, a ≠ b → lam i a ≠ lam i b) :
    [Gen3TE.N3_E_spatial_Kr0_0_full c c3 fn i, Gen3TE.N3_E_spatial_Kr0_1_full c c3 fn i, Gen3TE.N3_E_spatial_Kr0_2_full c c3 fn i, Gen3TE.N3_E_spatial_Kr0_3_full c c3 fn i, Gen3TE.N3_E_spatial_Kr0_4_full c c3 fn i, Gen3TE.N3_E_spatial_Kr0_5_full c c3 fn i]
    = [4 * quad6 (P i) (KS i) 0 0 + 4 * D2 (lam i) (ev i) (dv i) (sv i) (eig (Mm i) (Tm c i)) (eig (FE i * Mm i) (E c 0)) (eig (FE i * Mm i) (E c 0)),
       4 * quad6 (P i) (KS i) 0 1 + 4 * D2 (lam i) (ev i) (dv i) (sv i) (eig (Mm i) (Tm c i)) (eig (FE i * Mm i) (E c 0)) (eig (FE i * Mm i) (E c 1)),
       4 * quad6 (P i) (KS i) 0 2 + 4 * D2 (lam i) (ev i) (dv i) (sv i) (eig (Mm i) (Tm c i)) (eig (FE i * Mm i) (E c 0)) (eig (FE i * Mm i) (E c 2)),
       4 * quad6 (P i) (KS i) 0 3 + 4 * D2 (lam i) (ev i) (dv i) (sv i) (eig (Mm i) (Tm c i)) (eig (FE i * Mm i) (E c 0)) (eig (FE i * Mm i) (E c 3)),
       4 * quad6 (P i) (KS i) 0 4 + 4 * D2 (lam i) (ev i) (dv i) (sv i) (eig (Mm i) (Tm c i)) (eig (FE i * Mm i) (E c 0)) (eig (FE i * Mm i) (E c 4)),
       4 * quad6 (P i) (KS i) 0 5 + 4 * D2 (lam i) (ev i) (dv i) (sv i) (eig (Mm i) (Tm c i)) (eig (FE i * Mm i) (E c 0)) (eig (FE i * Mm i) (E c 5))] := by
  simp only [Gen3TE.N3_E_spatial_Kr0_0_full, Gen3TE.N3_E_spatial_Kr0_1_full, Gen3TE.N3_E_spatial_Kr0_2_full, Gen3TE.N3_E_spatial_Kr0_3_full, Gen3TE.N3_E_spatial_Kr0_4_full, Gen3TE.N3_E_spatial_Kr0_5_full]
  rw [struct_row0 c c3 fn i (cuts c c3 fn i)]
  simp only [so_cuts c c3 fn hc i hl]
theorem N3_E_spatial_row1 (hc : c * c = 2) (i : In K)
    (hl : ∀ a b : Fin 3, a ≠ b → lam i a ≠ lam i b) :
    [Gen3TE.N3_E_spatial_Kr1_0_full c c3 fn i, Gen3TE.N3_E_spatial_Kr1_1_full c c3 fn i, Gen3TE.N3_E_spatial_Kr1_2_full c c3 fn i, Gen3TE.N3_E_spatial_Kr1_3_full c c3 fn i, Gen3TE.N3_E_spatial_Kr1_4_full c c3 fn i, Gen3TE.N3_E_spatial_Kr1_5_full c c3 fn i]
    = [4 * quad6 (P i) (KS i) 1 0 + 4 * D2 (lam i) (ev i) (dv i) (sv i) (eig (Mm i) (Tm c i)) (eig (FE i * Mm i) (E c 1)) (eig (FE i * Mm i) (E c 0)),
       4 * quad6 (P i) (KS i) 1 1 + 4 * D2 (lam i) (ev i) (dv i) (sv i) (eig (Mm i) (Tm c i)) (eig (FE i * Mm i) (E c 1)) (eig (FE i * Mm i) (E c 1)),
       4 * quad6 (P i) (KS i) 1 2 + 4 * D2 (lam i) (ev i) (dv i) (sv i) (eig (Mm i) (Tm c i)) (eig (FE i * Mm i) (E c 1)) (eig (FE i * Mm i) (E c 2)),
       4 * quad6 (P i) (KS i) 1 3 + 4 * D2 (lam i) (ev i) (dv i) (sv i) (eig (Mm i) (Tm c i)) (eig (FE i * Mm i) (E c 1)) (eig (FE i * Mm i) (E c 3)),
       4 * quad6 (P i) (KS i) 1 4 + 4 * D2 (lam i) (ev i) (dv i) (sv i) (eig (Mm i) (Tm c i)) (eig (FE i * Mm i) (E c 1)) (eig (FE i * Mm i) (E c 4)),
       4 * quad6 (P i) (KS i) 1 5 + 4 * D2 (lam i) (ev i) (dv i) (sv i) (eig (Mm i) (Tm c i)) (eig (FE i * Mm i) (E c 1)) (eig (FE i * Mm i) (E c 5))] := by
  simp only [Gen3TE.N3_E_spatial_Kr1_0_full, Gen3TE.N3_E_spatial_Kr1_1_full, Gen3TE.N3_E_spatial_Kr1_2_full, Gen3TE.N3_E_spatial_Kr1_3_full, Gen3TE.N3_E_spatial_Kr1_4_full, Gen3TE.N3_E_spatial_Kr1_5_full]
  rw [struct_row1 c c3 fn i (cuts c c3 fn i)]
  simp only [so_cuts c c3 fn hc i hl]
theorem N3_E_spatial_row2 (hc : c * c = 2) (i : In K)
    (hl : ∀ a b : Fin 3, a ≠ b → lam i a ≠ lam i b) :
    [Gen3TE.N3_E_spatial_Kr2_0_full c c3 fn i, Gen3TE.N3_E_spatial_Kr2_1_full c c3 fn i, Gen3TE.N3_E_spatial_Kr2_2_full c c3 fn i, Gen3TE.N3_E_spatial_Kr2_3_full c c3 fn i, Gen3TE.N3_E_spatial_Kr2_4_full c c3 fn i, Gen3TE.N3_E_spatial_Kr2_5_full c c3 fn i]
    = [4 * quad6 (P i) (KS i) 2 0 + 4 * D2 (lam i) (ev i) (dv i) (sv i) (eig (Mm i) (Tm c i)) (eig (FE i * Mm i) (E c 2)) (eig (FE i * Mm i) (E c 0)),
       4 * quad6 (P i) (KS i) 2 1 + 4 * D2 (lam i) (ev i) (dv i) (sv i) (eig (Mm i) (Tm c i)) (eig (FE i * Mm i) (E c 2)) (eig (FE i * Mm i) (E c 1)),
       4 * quad6 (P i) (KS i) 2 2 + 4 * D2 (lam i) (ev i) (dv i) (sv i) (eig (Mm i) (Tm c i)) (eig (FE i * Mm i) (E c 2)) (eig (FE i * Mm i) (E c 2)),
       4 * quad6 (P i) (KS i) 2 3 + 4 * D2 (lam i) (ev i) (dv i) (sv i) (eig (Mm i) (Tm c i)) (eig (FE i * Mm i) (E c 2)) (eig (FE i * Mm i) (E c 3)),
       4 * quad6 (P i) (KS i) 2 4 + 4 * D2 (lam i) (ev i) (dv i) (sv i) (eig (Mm i) (Tm c i)) (eig (FE i * Mm i) (E c 2)) (eig (FE i * Mm i) (E c 4)),
       4 * quad6 (P i) (KS i) 2 5 + 4 * D2 (lam i) (ev i) (dv i) (sv i) (eig (Mm i) (Tm c i)) (eig (FE i * Mm i) (E c 2)) (eig (FE i * Mm i) (E c 5))] := by
  simp only [Gen3TE.N3_E_spatial_Kr2_0_full, Gen3TE.N3_E_spatial_Kr2_1_full, Gen3TE.N3_E_spatial_Kr2_2_full, Gen3TE.N3_E_spatial_Kr2_3_full, Gen3TE.N3_E_spatial_Kr2_4_full, Gen3TE.N3_E_spatial_Kr2_5_full]
  rw [struct_row2 c c3 fn i (cuts c c3 fn i)]
  simp only [so_cuts c c3 fn hc i hl]
theorem N3_E_spatial_row3 (hc : c * c = 2) (i : In K)
    (hl : ∀ a b : Fin 3, a ≠ b → lam i a ≠ lam i b) :
    [Gen3TE.N3_E_spatial_Kr3_0_full c c3 fn i, Gen3TE.N3_E_spatial_Kr3_1_full c c3 fn i, Gen3TE.N3_E_spatial_Kr3_2_full c c3 fn i, Gen3TE.N3_E_spatial_Kr3_3_full c c3 fn i, Gen3TE.N3_E_spatial_Kr3_4_full c c3 fn i, Gen3TE.N3_E_spatial_Kr3_5_full c c3 fn i]
    = [4 * quad6 (P i) (KS i) 3 0 + 4 * D2 (lam i) (ev i) (dv i) (sv i) (eig (Mm i) (Tm c i)) (eig (FE i * Mm i) (E c 3)) (eig (FE i * Mm i) (E c 0)),
       4 * quad6 (P i) (KS i) 3 1 + 4 * D2 (lam i) (ev i) (dv i) (sv i) (eig (Mm i) (Tm c i)) (eig (FE i * Mm i) (E c 3)) (eig (FE i * Mm i) (E c 1)),
       4 * quad6 (P i) (KS i) 3 2 + 4 * D2 (lam i) (ev i) (dv i) (sv i) (eig (Mm i) (Tm c i)) (eig (FE i * Mm i) (E c 3)) (eig (FE i * Mm i) (E c 2)),
       4 * quad6 (P i) (KS i) 3 3 + 4 * D2 (lam i) (ev i) (dv i) (sv i) (eig (Mm i) (Tm c i)) (eig (FE i * Mm i) (E c 3)) (eig (FE i * Mm i) (E c 3)),
       4 * quad6 (P i) (KS i) 3 4 + 4 * D2 (lam i) (ev i) (dv i) (sv i) (eig (Mm i) (Tm c i)) (eig (FE i * Mm i) (E c 3)) (eig (FE i * Mm i) (E c 4)),
       4 * quad6 (P i) (KS i) 3 5 + 4 * D2 (lam i) (ev i) (dv i) (sv i) (eig (Mm i) (Tm c i)) (eig (FE i * Mm i) (E c 3)) (eig (FE i * Mm i) (E c 5))] := by
  simp only [Gen3TE.N3_E_spatial_Kr3_0_full, Gen3TE.N3_E_spatial_Kr3_1_full, Gen3TE.N3_E_spatial_Kr3_2_full, Gen3TE.N3_E_spatial_Kr3_3_full, Gen3TE.N3_E_spatial_Kr3_4_full, Gen3TE.N3_E_spatial_Kr3_5_full]
  rw [struct_row3 c c3 fn i (cuts c c3 fn i)]
  simp only [so_cuts c c3 fn hc i hl]
theorem N3_E_spatial_row4 (hc : c * c = 2) (i : In K)
    (hl : ∀ a b : Fin 3, a ≠ b → lam i a ≠ lam i b) :
    [Gen3TE.N3_E_spatial_Kr4_0_full c c3 fn i, Gen3TE.N3_E_spatial_Kr4_1_full c c3 fn i, Gen3TE.N3_E_spatial_Kr4_2_full c c3 fn i, Gen3TE.N3_E_spatial_Kr4_3_full c c3 fn i, Gen3TE.N3_E_spatial_Kr4_4_full c c3 fn i, Gen3TE.N3_E_spatial_Kr4_5_full c c3 fn i]
    = [4 * quad6 (P i) (KS i) 4 0 + 4 * D2 (lam i) (ev i) (dv i) (sv i) (eig (Mm i) (Tm c i)) (eig (FE i * Mm i) (E c 4)) (eig (FE i * Mm i) (E c 0)),
       4 * quad6 (P i) (KS i) 4 1 + 4 * D2 (lam i) (ev i) (dv i) (sv i) (eig (Mm i) (Tm c i)) (eig (FE i * Mm i) (E c 4)) (eig (FE i * Mm i) (E c 1)),
       4 * quad6 (P i) (KS i) 4 2 + 4 * D2 (lam i) (ev i) (dv i) (sv i) (eig (Mm i) (Tm c i)) (eig (FE i * Mm i) (E c 4)) (eig (FE i * Mm i) (E c 2)),
       4 * quad6 (P i) (KS i) 4 3 + 4 * D2 (lam i) (ev i) (dv i) (sv i) (eig (Mm i) (Tm c i)) (eig (FE i * Mm i) (E c 4)) (eig (FE i * Mm i) (E c 3)),
       4 * quad6 (P i) (KS i) 4 4 + 4 * D2 (lam i) (ev i) (dv i) (sv i) (eig (Mm i) (Tm c i)) (eig (FE i * Mm i) (E c 4)) (eig (FE i * Mm i) (E c 4)),
       4 * quad6 (P i) (KS i) 4 5 + 4 * D2 (lam i) (ev i) (dv i) (sv i) (eig (Mm i) (Tm c i)) (eig (FE i * Mm i) (E c 4)) (eig (FE i * Mm i) (E c 5))] := by
  simp only [Gen3TE.N3_E_spatial_Kr4_0_full, Gen3TE.N3_E_spatial_Kr4_1_full, Gen3TE.N3_E_spatial_Kr4_2_full, Gen3TE.N3_E_spatial_Kr4_3_full, Gen3TE.N3_E_spatial_Kr4_4_full, Gen3TE.N3_E_spatial_Kr4_5_full]
  rw [struct_row4 c c3 fn i (cuts c c3 fn i)]
  simp only [so_cuts c c3 fn hc i hl]
theorem N3_E_spatial_row5 (hc : c * c = 2) (i : In K)
    (hl : ∀ a b : Fin 3, a ≠ b → lam i a ≠ lam i b) :
    [Gen3TE.N3_E_spatial_Kr5_0_full c c3 fn i, Gen3TE.N3_E_spatial_Kr5_1_full c c3 fn i, Gen3TE.N3_E_spatial_Kr5_2_full c c3 fn i, Gen3TE.N3_E_spatial_Kr5_3_full c c3 fn i, Gen3TE.N3_E_spatial_Kr5_4_full c c3 fn i, Gen3TE.N3_E_spatial_Kr5_5_full c c3 fn i]
    = [4 * quad6 (P i) (KS i) 5 0 + 4 * D2 (lam i) (ev i) (dv i) (sv i) (eig (Mm i) (Tm c i)) (eig (FE i * Mm i) (E c 5)) (eig (FE i * Mm i) (E c 0)),
       4 * quad6 (P i) (KS i) 5 1 + 4 * D2 (lam i) (ev i) (dv i) (sv i) (eig (Mm i) (Tm c i)) (eig (FE i * Mm i) (E c 5)) (eig (FE i * Mm i) (E c 1)),
       4 * quad6 (P i) (KS i) 5 2 + 4 * D2 (lam i) (ev i) (dv i) (sv i) (eig (Mm i) (Tm c i)) (eig (FE i * Mm i) (E c 5)) (eig (FE i * Mm i) (E c 2)),
       4 * quad6 (P i) (KS i) 5 3 + 4 * D2 (lam i) (ev i) (dv i) (sv i) (eig (Mm i) (Tm c i)) (eig (FE i * Mm i) (E c 5)) (eig (FE i * Mm i) (E c 3)),
       4 * quad6 (P i) (KS i) 5 4 + 4 * D2 (lam i) (ev i) (dv i) (sv i) (eig (Mm i) (Tm c i)) (eig (FE i * Mm i) (E c 5)) (eig (FE i * Mm i) (E c 4)),
       4 * quad6 (P i) (KS i) 5 5 + 4 * D2 (lam i) (ev i) (dv i) (sv i) (eig (Mm i) (Tm c i)) (eig (FE i * Mm i) (E c 5)) (eig (FE i * Mm i) (E c 5))] := by
  simp only [Gen3TE.N3_E_spatial_Kr5_0_full, Gen3TE.N3_E_spatial_Kr5_1_full, Gen3TE.N3_E_spatial_Kr5_2_full, Gen3TE.N3_E_spatial_Kr5_3_full, Gen3TE.N3_E_spatial_Kr5_4_full, Gen3TE.N3_E_spatial_Kr5_5_full]
  rw [struct_row5 c c3 fn i (cuts c c3 fn i)]
  simp only [so_cuts c c3 fn hc i hl]

/-! ## moduli associated with the Truesdell rate of the Cauchy stress: spatial moduli / det F -/
abbrev InT := Gen3TE.N3_E_truesdell_In
/-- the two units have the same inputs -/
def toS (i : InT K) : In K :=
  { vp0 := i.vp0, vp1 := i.vp1, vp2 := i.vp2, m00 := i.m00, m01 := i.m01, m02 := i.m02, m10 := i.m10, m11 := i.m11, m12 := i.m12, m20 := i.m20, m21 := i.m21, m22 := i.m22, e0 := i.e0, e1 := i.e1, e2 := i.e2, p0_0 := i.p0_0, p0_1 := i.p0_1, p0_2 := i.p0_2, p0_3 := i.p0_3, p0_4 := i.p0_4, p0_5 := i.p0_5, p1_0 := i.p1_0, p1_1 := i.p1_1, p1_2 := i.p1_2, p1_3 := i.p1_3, p1_4 := i.p1_4, p1_5 := i.p1_5, p2_0 := i.p2_0, p2_1 := i.p2_1, p2_2 := i.p2_2, p2_3 := i.p2_3, p2_4 := i.p2_4, p2_5 := i.p2_5, p3_0 := i.p3_0, p3_1 := i.p3_1, p3_2 := i.p3_2, p3_3 := i.p3_3, p3_4 := i.p3_4, p3_5 := i.p3_5, p4_0 := i.p4_0, p4_1 := i.p4_1, p4_2 := i.p4_2, p4_3 := i.p4_3, p4_4 := i.p4_4, p4_5 := i.p4_5, p5_0 := i.p5_0, p5_1 := i.p5_1, p5_2 := i.p5_2, p5_3 := i.p5_3, p5_4 := i.p5_4, p5_5 := i.p5_5, F0 := i.F0, F1 := i.F1, F2 := i.F2, F3 := i.F3, F4 := i.F4, F5 := i.F5, F6 := i.F6, F7 := i.F7, F8 := i.F8, T0 := i.T0, T1 := i.T1, T2 := i.T2, T3 := i.T3, T4 := i.T4, T5 := i.T5, K0_0 := i.K0_0, K0_1 := i.K0_1, K0_2 := i.K0_2, K0_3 := i.K0_3, K0_4 := i.K0_4, K0_5 := i.K0_5, K1_0 := i.K1_0, K1_1 := i.K1_1, K1_2 := i.K1_2, K1_3 := i.K1_3, K1_4 := i.K1_4, K1_5 := i.K1_5, K2_0 := i.K2_0, K2_1 := i.K2_1, K2_2 := i.K2_2, K2_3 := i.K2_3, K2_4 := i.K2_4, K2_5 := i.K2_5, K3_0 := i.K3_0, K3_1 := i.K3_1, K3_2 := i.K3_2, K3_3 := i.K3_3, K3_4 := i.K3_4, K3_5 := i.K3_5, K4_0 := i.K4_0, K4_1 := i.K4_1, K4_2 := i.K4_2, K4_3 := i.K4_3, K4_4 := i.K4_4, K4_5 := i.K4_5, K5_0 := i.K5_0, K5_1 := i.K5_1, K5_2 := i.K5_2, K5_3 := i.K5_3, K5_4 := i.K5_4, K5_5 := i.K5_5 }
def toSc (k : Gen3TE.N3_E_truesdell_Cut K) : Cut K :=
  { N00_0 := k.N00_0, N00_1 := k.N00_1, N00_2 := k.N00_2, N00_3 := k.N00_3, N00_4 := k.N00_4, N00_5 := k.N00_5, N01_0 := k.N01_0, N01_1 := k.N01_1, N01_2 := k.N01_2, N01_3 := k.N01_3, N01_4 := k.N01_4, N01_5 := k.N01_5, N02_0 := k.N02_0, N02_1 := k.N02_1, N02_2 := k.N02_2, N02_3 := k.N02_3, N02_4 := k.N02_4, N02_5 := k.N02_5, N10_0 := k.N10_0, N10_1 := k.N10_1, N10_2 := k.N10_2, N10_3 := k.N10_3, N10_4 := k.N10_4, N10_5 := k.N10_5, N11_0 := k.N11_0, N11_1 := k.N11_1, N11_2 := k.N11_2, N11_3 := k.N11_3, N11_4 := k.N11_4, N11_5 := k.N11_5, N12_0 := k.N12_0, N12_1 := k.N12_1, N12_2 := k.N12_2, N12_3 := k.N12_3, N12_4 := k.N12_4, N12_5 := k.N12_5, N20_0 := k.N20_0, N20_1 := k.N20_1, N20_2 := k.N20_2, N20_3 := k.N20_3, N20_4 := k.N20_4, N20_5 := k.N20_5, N21_0 := k.N21_0, N21_1 := k.N21_1, N21_2 := k.N21_2, N21_3 := k.N21_3, N21_4 := k.N21_4, N21_5 := k.N21_5, N22_0 := k.N22_0, N22_1 := k.N22_1, N22_2 := k.N22_2, N22_3 := k.N22_3, N22_4 := k.N22_4, N22_5 := k.N22_5, M00_0 := k.M00_0, M00_1 := k.M00_1, M00_2 := k.M00_2, M00_3 := k.M00_3, M00_4 := k.M00_4, M00_5 := k.M00_5, M01_0 := k.M01_0, M01_1 := k.M01_1, M01_2 := k.M01_2, M01_3 := k.M01_3, M01_4 := k.M01_4, M01_5 := k.M01_5, M02_0 := k.M02_0, M02_1 := k.M02_1, M02_2 := k.M02_2, M02_3 := k.M02_3, M02_4 := k.M02_4, M02_5 := k.M02_5, M10_0 := k.M10_0, M10_1 := k.M10_1, M10_2 := k.M10_2, M10_3 := k.M10_3, M10_4 := k.M10_4, M10_5 := k.M10_5, M11_0 := k.M11_0, M11_1 := k.M11_1, M11_2 := k.M11_2, M11_3 := k.M11_3, M11_4 := k.M11_4, M11_5 := k.M11_5, M12_0 := k.M12_0, M12_1 := k.M12_1, M12_2 := k.M12_2, M12_3 := k.M12_3, M12_4 := k.M12_4, M12_5 := k.M12_5, M20_0 := k.M20_0, M20_1 := k.M20_1, M20_2 := k.M20_2, M20_3 := k.M20_3, M20_4 := k.M20_4, M20_5 := k.M20_5, M21_0 := k.M21_0, M21_1 := k.M21_1, M21_2 := k.M21_2, M21_3 := k.M21_3, M21_4 := k.M21_4, M21_5 := k.M21_5, M22_0 := k.M22_0, M22_1 := k.M22_1, M22_2 := k.M22_2, M22_3 := k.M22_3, M22_4 := k.M22_4, M22_5 := k.M22_5, f0 := k.f0, f1 := k.f1, f2 := k.f2, z00 := k.z00, xi01 := k.xi01, z01 := k.z01, xi02 := k.xi02, z02 := k.z02, xi10 := k.xi10, z10 := k.z10, z11 := k.z11, xi12 := k.xi12, z12 := k.z12, xi20 := k.xi20, z20 := k.z20, xi21 := k.xi21, z21 := k.z21, z22 := k.z22, eta := k.eta }

theorem truesdell_cuts (i : InT K) :
    toSc (Gen3TE.N3_E_truesdell_cuts c c3 fn i) = Gen3TE.N3_E_spatial_cuts c c3 fn (toS i) := by
  simp only [toSc, toS, Gen3TE.N3_E_truesdell_cuts, Gen3TE.N3_E_spatial_cuts, gen_simp]

theorem N3_E_truesdell_row0 (hc : c * c = 2) (i : InT K)
    (hl : ∀ a b : Fin 3, a ≠ b → lam (toS i) a ≠ lam (toS i) b) :
    [Gen3TE.N3_E_truesdell_Kr0_0_full c c3 fn i, Gen3TE.N3_E_truesdell_Kr0_1_full c c3 fn i, Gen3TE.N3_E_truesdell_Kr0_2_full c c3 fn i, Gen3TE.N3_E_truesdell_Kr0_3_full c c3 fn i, Gen3TE.N3_E_truesdell_Kr0_4_full c c3 fn i, Gen3TE.N3_E_truesdell_Kr0_5_full c c3 fn i]
    = [(4 * quad6 (P (toS i)) (KS (toS i)) 0 0 + 4 * D2 (lam (toS i)) (ev (toS i)) (dv (toS i)) (sv (toS i)) (eig (Mm (toS i)) (Tm c (toS i))) (eig (FE (toS i) * Mm (toS i)) (E c 0)) (eig (FE (toS i) * Mm (toS i)) (E c 0))) / (FE (toS i)).det, (4 * quad6 (P (toS i)) (KS (toS i)) 0 1 + 4 * D2 (lam (toS i)) (ev (toS i)) (dv (toS i)) (sv (toS i)) (eig (Mm (toS i)) (Tm c (toS i))) (eig (FE (toS i) * Mm (toS i)) (E c 0)) (eig (FE (toS i) * Mm (toS i)) (E c 1))) / (FE (toS i)).det, (4 * quad6 (P (toS i)) (KS (toS i)) 0 2 + 4 * D2 (lam (toS i)) (ev (toS i)) (dv (toS i)) (sv (toS i)) (eig (Mm (toS i)) (Tm c (toS i))) (eig (FE (toS i) * Mm (toS i)) (E c 0)) (eig (FE (toS i) * Mm (toS i)) (E c 2))) / (FE (toS i)).det, (4 * quad6 (P (toS i)) (KS (toS i)) 0 3 + 4 * D2 (lam (toS i)) (ev (toS i)) (dv (toS i)) (sv (toS i)) (eig (Mm (toS i)) (Tm c (toS i))) (eig (FE (toS i) * Mm (toS i)) (E c 0)) (eig (FE (toS i) * Mm (toS i)) (E c 3))) / (FE (toS i)).det, (4 * quad6 (P (toS i)) (KS (toS i)) 0 4 + 4 * D2 (lam (toS i)) (ev (toS i)) (dv (toS i)) (sv (toS i)) (eig (Mm (toS i)) (Tm c (toS i))) (eig (FE (toS i) * Mm (toS i)) (E c 0)) (eig (FE (toS i) * Mm (toS i)) (E c 4))) / (FE (toS i)).det, (4 * quad6 (P (toS i)) (KS (toS i)) 0 5 + 4 * D2 (lam (toS i)) (ev (toS i)) (dv (toS i)) (sv (toS i)) (eig (Mm (toS i)) (Tm c (toS i))) (eig (FE (toS i) * Mm (toS i)) (E c 0)) (eig (FE (toS i) * Mm (toS i)) (E c 5))) / (FE (toS i)).det] := by
  have h := N3_E_spatial_row0 c c3 fn hc (toS i) hl
  have e : [Gen3TE.N3_E_truesdell_Kr0_0_full c c3 fn i, Gen3TE.N3_E_truesdell_Kr0_1_full c c3 fn i, Gen3TE.N3_E_truesdell_Kr0_2_full c c3 fn i, Gen3TE.N3_E_truesdell_Kr0_3_full c c3 fn i, Gen3TE.N3_E_truesdell_Kr0_4_full c c3 fn i, Gen3TE.N3_E_truesdell_Kr0_5_full c c3 fn i]
      = [Gen3TE.N3_E_spatial_Kr0_0_full c c3 fn (toS i) / (FE (toS i)).det, Gen3TE.N3_E_spatial_Kr0_1_full c c3 fn (toS i) / (FE (toS i)).det, Gen3TE.N3_E_spatial_Kr0_2_full c c3 fn (toS i) / (FE (toS i)).det, Gen3TE.N3_E_spatial_Kr0_3_full c c3 fn (toS i) / (FE (toS i)).det, Gen3TE.N3_E_spatial_Kr0_4_full c c3 fn (toS i) / (FE (toS i)).det, Gen3TE.N3_E_spatial_Kr0_5_full c c3 fn (toS i) / (FE (toS i)).det] := by
    simp only [Gen3TE.N3_E_truesdell_Kr0_0_full, Gen3TE.N3_E_truesdell_Kr0_1_full, Gen3TE.N3_E_truesdell_Kr0_2_full, Gen3TE.N3_E_truesdell_Kr0_3_full, Gen3TE.N3_E_truesdell_Kr0_4_full, Gen3TE.N3_E_truesdell_Kr0_5_full, Gen3TE.N3_E_spatial_Kr0_0_full, Gen3TE.N3_E_spatial_Kr0_1_full, Gen3TE.N3_E_spatial_Kr0_2_full, Gen3TE.N3_E_spatial_Kr0_3_full, Gen3TE.N3_E_spatial_Kr0_4_full, Gen3TE.N3_E_spatial_Kr0_5_full, ← truesdell_cuts]
    simp only [gen_simp, toS, toSc, FE, M3.ofTens, M3.det, List.cons.injEq, and_true]
    repeat' apply And.intro
    all_goals ring
  rw [e]
  simp only [List.cons.injEq, and_true] at h ⊢
  obtain ⟨h0, h1, h2, h3, h4, h5⟩ := h
  rw [h0, h1, h2, h3, h4, h5]
  exact ⟨rfl, rfl, rfl, rfl, rfl, rfl⟩

theorem N3_E_truesdell_row1 (hc : c * c = 2) (i : InT K)
    (hl : ∀ a b : Fin 3, a ≠ b → lam (toS i) a ≠ lam (toS i) b) :
    [Gen3TE.N3_E_truesdell_Kr1_0_full c c3 fn i, Gen3TE.N3_E_truesdell_Kr1_1_full c c3 fn i, Gen3TE.N3_E_truesdell_Kr1_2_full c c3 fn i, Gen3TE.N3_E_truesdell_Kr1_3_full c c3 fn i, Gen3TE.N3_E_truesdell_Kr1_4_full c c3 fn i, Gen3TE.N3_E_truesdell_Kr1_5_full c c3 fn i]
    = [(4 * quad6 (P (toS i)) (KS (toS i)) 1 0 + 4 * D2 (lam (toS i)) (ev (toS i)) (dv (toS i)) (sv (toS i)) (eig (Mm (toS i)) (Tm c (toS i))) (eig (FE (toS i) * Mm (toS i)) (E c 1)) (eig (FE (toS i) * Mm (toS i)) (E c 0))) / (FE (toS i)).det, (4 * quad6 (P (toS i)) (KS (toS i)) 1 1 + 4 * D2 (lam (toS i)) (ev (toS i)) (dv (toS i)) (sv (toS i)) (eig (Mm (toS i)) (Tm c (toS i))) (eig (FE (toS i) * Mm (toS i)) (E c 1)) (eig (FE (toS i) * Mm (toS i)) (E c 1))) / (FE (toS i)).det, (4 * quad6 (P (toS i)) (KS (toS i)) 1 2 + 4 * D2 (lam (toS i)) (ev (toS i)) (dv (toS i)) (sv (toS i)) (eig (Mm (toS i)) (Tm c (toS i))) (eig (FE (toS i) * Mm (toS i)) (E c 1)) (eig (FE (toS i) * Mm (toS i)) (E c 2))) / (FE (toS i)).det, (4 * quad6 (P (toS i)) (KS (toS i)) 1 3 + 4 * D2 (lam (toS i)) (ev (toS i)) (dv (toS i)) (sv (toS i)) (eig (Mm (toS i)) (Tm c (toS i))) (eig (FE (toS i) * Mm (toS i)) (E c 1)) (eig (FE (toS i) * Mm (toS i)) (E c 3))) / (FE (toS i)).det, (4 * quad6 (P (toS i)) (KS (toS i)) 1 4 + 4 * D2 (lam (toS i)) (ev (toS i)) (dv (toS i)) (sv (toS i)) (eig (Mm (toS i)) (Tm c (toS i))) (eig (FE (toS i) * Mm (toS i)) (E c 1)) (eig (FE (toS i) * Mm (toS i)) (E c 4))) / (FE (toS i)).det, (4 * quad6 (P (toS i)) (KS (toS i)) 1 5 + 4 * D2 (lam (toS i)) (ev (toS i)) (dv (toS i)) (sv (toS i)) (eig (Mm (toS i)) (Tm c (toS i))) (eig (FE (toS i) * Mm (toS i)) (E c 1)) (eig (FE (toS i) * Mm (toS i)) (E c 5))) / (FE (toS i)).det] := by
  have h := N3_E_spatial_row1 c c3 fn hc (toS i) hl
  have e : [Gen3TE.N3_E_truesdell_Kr1_0_full c c3 fn i, Gen3TE.N3_E_truesdell_Kr1_1_full c c3 fn i, Gen3TE.N3_E_truesdell_Kr1_2_full c c3 fn i, Gen3TE.N3_E_truesdell_Kr1_3_full c c3 fn i, Gen3TE.N3_E_truesdell_Kr1_4_full c c3 fn i, Gen3TE.N3_E_truesdell_Kr1_5_full c c3 fn i]
      = [Gen3TE.N3_E_spatial_Kr1_0_full c c3 fn (toS i) / (FE (toS i)).det, Gen3TE.N3_E_spatial_Kr1_1_full c c3 fn (toS i) / (FE (toS i)).det, Gen3TE.N3_E_spatial_Kr1_2_full c c3 fn (toS i) / (FE (toS i)).det, Gen3TE.N3_E_spatial_Kr1_3_full c c3 fn (toS i) / (FE (toS i)).det, Gen3TE.N3_E_spatial_Kr1_4_full c c3 fn (toS i) / (FE (toS i)).det, Gen3TE.N3_E_spatial_Kr1_5_full c c3 fn (toS i) / (FE (toS i)).det] := by
    simp only [Gen3TE.N3_E_truesdell_Kr1_0_full, Gen3TE.N3_E_truesdell_Kr1_1_full, Gen3TE.N3_E_truesdell_Kr1_2_full, Gen3TE.N3_E_truesdell_Kr1_3_full, Gen3TE.N3_E_truesdell_Kr1_4_full, Gen3TE.N3_E_truesdell_Kr1_5_full, Gen3TE.N3_E_spatial_Kr1_0_full, Gen3TE.N3_E_spatial_Kr1_1_full, Gen3TE.N3_E_spatial_Kr1_2_full, Gen3TE.N3_E_spatial_Kr1_3_full, Gen3TE.N3_E_spatial_Kr1_4_full, Gen3TE.N3_E_spatial_Kr1_5_full, ← truesdell_cuts]
    simp only [gen_simp, toS, toSc, FE, M3.ofTens, M3.det, List.cons.injEq, and_true]
    repeat' apply And.intro
    all_goals ring
  rw [e]
  simp only [List.cons.injEq, and_true] at h ⊢
  obtain ⟨h0, h1, h2, h3, h4, h5⟩ := h
  rw [h0, h1, h2, h3, h4, h5]
  exact ⟨rfl, rfl, rfl, rfl, rfl, rfl⟩

theorem N3_E_truesdell_row2 (hc : c * c = 2) (i : InT K)
    (hl : ∀ a b : Fin 3, a ≠ b → lam (toS i) a ≠ lam (toS i) b) :
    [Gen3TE.N3_E_truesdell_Kr2_0_full c c3 fn i, Gen3TE.N3_E_truesdell_Kr2_1_full c c3 fn i, Gen3TE.N3_E_truesdell_Kr2_2_full c c3 fn i, Gen3TE.N3_E_truesdell_Kr2_3_full c c3 fn i, Gen3TE.N3_E_truesdell_Kr2_4_full c c3 fn i, Gen3TE.N3_E_truesdell_Kr2_5_full c c3 fn i]
    = [(4 * quad6 (P (toS i)) (KS (toS i)) 2 0 + 4 * D2 (lam (toS i)) (ev (toS i)) (dv (toS i)) (sv (toS i)) (eig (Mm (toS i)) (Tm c (toS i))) (eig (FE (toS i) * Mm (toS i)) (E c 2)) (eig (FE (toS i) * Mm (toS i)) (E c 0))) / (FE (toS i)).det, (4 * quad6 (P (toS i)) (KS (toS i)) 2 1 + 4 * D2 (lam (toS i)) (ev (toS i)) (dv (toS i)) (sv (toS i)) (eig (Mm (toS i)) (Tm c (toS i))) (eig (FE (toS i) * Mm (toS i)) (E c 2)) (eig (FE (toS i) * Mm (toS i)) (E c 1))) / (FE (toS i)).det, (4 * quad6 (P (toS i)) (KS (toS i)) 2 2 + 4 * D2 (lam (toS i)) (ev (toS i)) (dv (toS i)) (sv (toS i)) (eig (Mm (toS i)) (Tm c (toS i))) (eig (FE (toS i) * Mm (toS i)) (E c 2)) (eig (FE (toS i) * Mm (toS i)) (E c 2))) / (FE (toS i)).det, (4 * quad6 (P (toS i)) (KS (toS i)) 2 3 + 4 * D2 (lam (toS i)) (ev (toS i)) (dv (toS i)) (sv (toS i)) (eig (Mm (toS i)) (Tm c (toS i))) (eig (FE (toS i) * Mm (toS i)) (E c 2)) (eig (FE (toS i) * Mm (toS i)) (E c 3))) / (FE (toS i)).det, (4 * quad6 (P (toS i)) (KS (toS i)) 2 4 + 4 * D2 (lam (toS i)) (ev (toS i)) (dv (toS i)) (sv (toS i)) (eig (Mm (toS i)) (Tm c (toS i))) (eig (FE (toS i) * Mm (toS i)) (E c 2)) (eig (FE (toS i) * Mm (toS i)) (E c 4))) / (FE (toS i)).det, (4 * quad6 (P (toS i)) (KS (toS i)) 2 5 + 4 * D2 (lam (toS i)) (ev (toS i)) (dv (toS i)) (sv (toS i)) (eig (Mm (toS i)) (Tm c (toS i))) (eig (FE (toS i) * Mm (toS i)) (E c 2)) (eig (FE (toS i) * Mm (toS i)) (E c 5))) / (FE (toS i)).det] := by
  have h := N3_E_spatial_row2 c c3 fn hc (toS i) hl
  have e : [Gen3TE.N3_E_truesdell_Kr2_0_full c c3 fn i, Gen3TE.N3_E_truesdell_Kr2_1_full c c3 fn i, Gen3TE.N3_E_truesdell_Kr2_2_full c c3 fn i, Gen3TE.N3_E_truesdell_Kr2_3_full c c3 fn i, Gen3TE.N3_E_truesdell_Kr2_4_full c c3 fn i, Gen3TE.N3_E_truesdell_Kr2_5_full c c3 fn i]
      = [Gen3TE.N3_E_spatial_Kr2_0_full c c3 fn (toS i) / (FE (toS i)).det, Gen3TE.N3_E_spatial_Kr2_1_full c c3 fn (toS i) / (FE (toS i)).det, Gen3TE.N3_E_spatial_Kr2_2_full c c3 fn (toS i) / (FE (toS i)).det, Gen3TE.N3_E_spatial_Kr2_3_full c c3 fn (toS i) / (FE (toS i)).det, Gen3TE.N3_E_spatial_Kr2_4_full c c3 fn (toS i) / (FE (toS i)).det, Gen3TE.N3_E_spatial_Kr2_5_full c c3 fn (toS i) / (FE (toS i)).det] := by
    simp only [Gen3TE.N3_E_truesdell_Kr2_0_full, Gen3TE.N3_E_truesdell_Kr2_1_full, Gen3TE.N3_E_truesdell_Kr2_2_full, Gen3TE.N3_E_truesdell_Kr2_3_full, Gen3TE.N3_E_truesdell_Kr2_4_full, Gen3TE.N3_E_truesdell_Kr2_5_full, Gen3TE.N3_E_spatial_Kr2_0_full, Gen3TE.N3_E_spatial_Kr2_1_full, Gen3TE.N3_E_spatial_Kr2_2_full, Gen3TE.N3_E_spatial_Kr2_3_full, Gen3TE.N3_E_spatial_Kr2_4_full, Gen3TE.N3_E_spatial_Kr2_5_full, ← truesdell_cuts]
    simp only [gen_simp, toS, toSc, FE, M3.ofTens, M3.det, List.cons.injEq, and_true]
    repeat' apply And.intro
    all_goals ring
  rw [e]
  simp only [List.cons.injEq, and_true] at h ⊢
  obtain ⟨h0, h1, h2, h3, h4, h5⟩ := h
  rw [h0, h1, h2, h3, h4, h5]
  exact ⟨rfl, rfl, rfl, rfl, rfl, rfl⟩

theorem N3_E_truesdell_row3 (hc : c * c = 2) (i : InT K)
    (hl : ∀ a b : Fin 3, a ≠ b → lam (toS i) a ≠ lam (toS i) b) :
    [Gen3TE.N3_E_truesdell_Kr3_0_full c c3 fn i, Gen3TE.N3_E_truesdell_Kr3_1_full c c3 fn i, Gen3TE.N3_E_truesdell_Kr3_2_full c c3 fn i, Gen3TE.N3_E_truesdell_Kr3_3_full c c3 fn i, Gen3TE.N3_E_truesdell_Kr3_4_full c c3 fn i, Gen3TE.N3_E_truesdell_Kr3_5_full c c3 fn i]
    = [(4 * quad6 (P (toS i)) (KS (toS i)) 3 0 + 4 * D2 (lam (toS i)) (ev (toS i)) (dv (toS i)) (sv (toS i)) (eig (Mm (toS i)) (Tm c (toS i))) (eig (FE (toS i) * Mm (toS i)) (E c 3)) (eig (FE (toS i) * Mm (toS i)) (E c 0))) / (FE (toS i)).det, (4 * quad6 (P (toS i)) (KS (toS i)) 3 1 + 4 * D2 (lam (toS i)) (ev (toS i)) (dv (toS i)) (sv (toS i)) (eig (Mm (toS i)) (Tm c (toS i))) (eig (FE (toS i) * Mm (toS i)) (E c 3)) (eig (FE (toS i) * Mm (toS i)) (E c 1))) / (FE (toS i)).det, (4 * quad6 (P (toS i)) (KS (toS i)) 3 2 + 4 * D2 (lam (toS i)) (ev (toS i)) (dv (toS i)) (sv (toS i)) (eig (Mm (toS i)) (Tm c (toS i))) (eig (FE (toS i) * Mm (toS i)) (E c 3)) (eig (FE (toS i) * Mm (toS i)) (E c 2))) / (FE (toS i)).det, (4 * quad6 (P (toS i)) (KS (toS i)) 3 3 + 4 * D2 (lam (toS i)) (ev (toS i)) (dv (toS i)) (sv (toS i)) (eig (Mm (toS i)) (Tm c (toS i))) (eig (FE (toS i) * Mm (toS i)) (E c 3)) (eig (FE (toS i) * Mm (toS i)) (E c 3))) / (FE (toS i)).det, (4 * quad6 (P (toS i)) (KS (toS i)) 3 4 + 4 * D2 (lam (toS i)) (ev (toS i)) (dv (toS i)) (sv (toS i)) (eig (Mm (toS i)) (Tm c (toS i))) (eig (FE (toS i) * Mm (toS i)) (E c 3)) (eig (FE (toS i) * Mm (toS i)) (E c 4))) / (FE (toS i)).det, (4 * quad6 (P (toS i)) (KS (toS i)) 3 5 + 4 * D2 (lam (toS i)) (ev (toS i)) (dv (toS i)) (sv (toS i)) (eig (Mm (toS i)) (Tm c (toS i))) (eig (FE (toS i) * Mm (toS i)) (E c 3)) (eig (FE (toS i) * Mm (toS i)) (E c 5))) / (FE (toS i)).det] := by
  have h := N3_E_spatial_row3 c c3 fn hc (toS i) hl
  have e : [Gen3TE.N3_E_truesdell_Kr3_0_full c c3 fn i, Gen3TE.N3_E_truesdell_Kr3_1_full c c3 fn i, Gen3TE.N3_E_truesdell_Kr3_2_full c c3 fn i, Gen3TE.N3_E_truesdell_Kr3_3_full c c3 fn i, Gen3TE.N3_E_truesdell_Kr3_4_full c c3 fn i, Gen3TE.N3_E_truesdell_Kr3_5_full c c3 fn i]
      = [Gen3TE.N3_E_spatial_Kr3_0_full c c3 fn (toS i) / (FE (toS i)).det, Gen3TE.N3_E_spatial_Kr3_1_full c c3 fn (toS i) / (FE (toS i)).det, Gen3TE.N3_E_spatial_Kr3_2_full c c3 fn (toS i) / (FE (toS i)).det, Gen3TE.N3_E_spatial_Kr3_3_full c c3 fn (toS i) / (FE (toS i)).det, Gen3TE.N3_E_spatial_Kr3_4_full c c3 fn (toS i) / (FE (toS i)).det, Gen3TE.N3_E_spatial_Kr3_5_full c c3 fn (toS i) / (FE (toS i)).det] := by
    simp only [Gen3TE.N3_E_truesdell_Kr3_0_full, Gen3TE.N3_E_truesdell_Kr3_1_full, Gen3TE.N3_E_truesdell_Kr3_2_full, Gen3TE.N3_E_truesdell_Kr3_3_full, Gen3TE.N3_E_truesdell_Kr3_4_full, Gen3TE.N3_E_truesdell_Kr3_5_full, Gen3TE.N3_E_spatial_Kr3_0_full, Gen3TE.N3_E_spatial_Kr3_1_full, Gen3TE.N3_E_spatial_Kr3_2_full, Gen3TE.N3_E_spatial_Kr3_3_full, Gen3TE.N3_E_spatial_Kr3_4_full, Gen3TE.N3_E_spatial_Kr3_5_full, ← truesdell_cuts]
    simp only [gen_simp, toS, toSc, FE, M3.ofTens, M3.det, List.cons.injEq, and_true]
    repeat' apply And.intro
    all_goals ring
  rw [e]
  simp only [List.cons.injEq, and_true] at h ⊢
  obtain ⟨h0, h1, h2, h3, h4, h5⟩ := h
  rw [h0, h1, h2, h3, h4, h5]
  exact ⟨rfl, rfl, rfl, rfl, rfl, rfl⟩

theorem N3_E_truesdell_row4 (hc : c * c = 2) (i : InT K)
    (hl : ∀ a b : Fin 3, a ≠ b → lam (toS i) a ≠ lam (toS i) b) :
    [Gen3TE.N3_E_truesdell_Kr4_0_full c c3 fn i, Gen3TE.N3_E_truesdell_Kr4_1_full c c3 fn i, Gen3TE.N3_E_truesdell_Kr4_2_full c c3 fn i, Gen3TE.N3_E_truesdell_Kr4_3_full c c3 fn i, Gen3TE.N3_E_truesdell_Kr4_4_full c c3 fn i, Gen3TE.N3_E_truesdell_Kr4_5_full c c3 fn i]
    = [(4 * quad6 (P (toS i)) (KS (toS i)) 4 0 + 4 * D2 (lam (toS i)) (ev (toS i)) (dv (toS i)) (sv (toS i)) (eig (Mm (toS i)) (Tm c (toS i))) (eig (FE (toS i) * Mm (toS i)) (E c 4)) (eig (FE (toS i) * Mm (toS i)) (E c 0))) / (FE (toS i)).det, (4 * quad6 (P (toS i)) (KS (toS i)) 4 1 + 4 * D2 (lam (toS i)) (ev (toS i)) (dv (toS i)) (sv (toS i)) (eig (Mm (toS i)) (Tm c (toS i))) (eig (FE (toS i) * Mm (toS i)) (E c 4)) (eig (FE (toS i) * Mm (toS i)) (E c 1))) / (FE (toS i)).det, (4 * quad6 (P (toS i)) (KS (toS i)) 4 2 + 4 * D2 (lam (toS i)) (ev (toS i)) (dv (toS i)) (sv (toS i)) (eig (Mm (toS i)) (Tm c (toS i))) (eig (FE (toS i) * Mm (toS i)) (E c 4)) (eig (FE (toS i) * Mm (toS i)) (E c 2))) / (FE (toS i)).det, (4 * quad6 (P (toS i)) (KS (toS i)) 4 3 + 4 * D2 (lam (toS i)) (ev (toS i)) (dv (toS i)) (sv (toS i)) (eig (Mm (toS i)) (Tm c (toS i))) (eig (FE (toS i) * Mm (toS i)) (E c 4)) (eig (FE (toS i) * Mm (toS i)) (E c 3))) / (FE (toS i)).det, (4 * quad6 (P (toS i)) (KS (toS i)) 4 4 + 4 * D2 (lam (toS i)) (ev (toS i)) (dv (toS i)) (sv (toS i)) (eig (Mm (toS i)) (Tm c (toS i))) (eig (FE (toS i) * Mm (toS i)) (E c 4)) (eig (FE (toS i) * Mm (toS i)) (E c 4))) / (FE (toS i)).det, (4 * quad6 (P (toS i)) (KS (toS i)) 4 5 + 4 * D2 (lam (toS i)) (ev (toS i)) (dv (toS i)) (sv (toS i)) (eig (Mm (toS i)) (Tm c (toS i))) (eig (FE (toS i) * Mm (toS i)) (E c 4)) (eig (FE (toS i) * Mm (toS i)) (E c 5))) / (FE (toS i)).det] := by
  have h := N3_E_spatial_row4 c c3 fn hc (toS i) hl
  have e : [Gen3TE.N3_E_truesdell_Kr4_0_full c c3 fn i, Gen3TE.N3_E_truesdell_Kr4_1_full c c3 fn i, Gen3TE.N3_E_truesdell_Kr4_2_full c c3 fn i, Gen3TE.N3_E_truesdell_Kr4_3_full c c3 fn i, Gen3TE.N3_E_truesdell_Kr4_4_full c c3 fn i, Gen3TE.N3_E_truesdell_Kr4_5_full c c3 fn i]
      = [Gen3TE.N3_E_spatial_Kr4_0_full c c3 fn (toS i) / (FE (toS i)).det, Gen3TE.N3_E_spatial_Kr4_1_full c c3 fn (toS i) / (FE (toS i)).det, Gen3TE.N3_E_spatial_Kr4_2_full c c3 fn (toS i) / (FE (toS i)).det, Gen3TE.N3_E_spatial_Kr4_3_full c c3 fn (toS i) / (FE (toS i)).det, Gen3TE.N3_E_spatial_Kr4_4_full c c3 fn (toS i) / (FE (toS i)).det, Gen3TE.N3_E_spatial_Kr4_5_full c c3 fn (toS i) / (FE (toS i)).det] := by
    simp only [Gen3TE.N3_E_truesdell_Kr4_0_full, Gen3TE.N3_E_truesdell_Kr4_1_full, Gen3TE.N3_E_truesdell_Kr4_2_full, Gen3TE.N3_E_truesdell_Kr4_3_full, Gen3TE.N3_E_truesdell_Kr4_4_full, Gen3TE.N3_E_truesdell_Kr4_5_full, Gen3TE.N3_E_spatial_Kr4_0_full, Gen3TE.N3_E_spatial_Kr4_1_full, Gen3TE.N3_E_spatial_Kr4_2_full, Gen3TE.N3_E_spatial_Kr4_3_full, Gen3TE.N3_E_spatial_Kr4_4_full, Gen3TE.N3_E_spatial_Kr4_5_full, ← truesdell_cuts]
    simp only [gen_simp, toS, toSc, FE, M3.ofTens, M3.det, List.cons.injEq, and_true]
    repeat' apply And.intro
    all_goals ring
  rw [e]
  simp only [List.cons.injEq, and_true] at h ⊢
  obtain ⟨h0, h1, h2, h3, h4, h5⟩ := h
  rw [h0, h1, h2, h3, h4, h5]
  exact ⟨rfl, rfl, rfl, rfl, rfl, rfl⟩

theorem N3_E_truesdell_row5 (hc : c * c = 2) (i : InT K)
    (hl : ∀ a b : Fin 3, a ≠ b → lam (toS i) a ≠ lam (toS i) b) :
    [Gen3TE.N3_E_truesdell_Kr5_0_full c c3 fn i, Gen3TE.N3_E_truesdell_Kr5_1_full c c3 fn i, Gen3TE.N3_E_truesdell_Kr5_2_full c c3 fn i, Gen3TE.N3_E_truesdell_Kr5_3_full c c3 fn i, Gen3TE.N3_E_truesdell_Kr5_4_full c c3 fn i, Gen3TE.N3_E_truesdell_Kr5_5_full c c3 fn i]
    = [(4 * quad6 (P (toS i)) (KS (toS i)) 5 0 + 4 * D2 (lam (toS i)) (ev (toS i)) (dv (toS i)) (sv (toS i)) (eig (Mm (toS i)) (Tm c (toS i))) (eig (FE (toS i) * Mm (toS i)) (E c 5)) (eig (FE (toS i) * Mm (toS i)) (E c 0))) / (FE (toS i)).det, (4 * quad6 (P (toS i)) (KS (toS i)) 5 1 + 4 * D2 (lam (toS i)) (ev (toS i)) (dv (toS i)) (sv (toS i)) (eig (Mm (toS i)) (Tm c (toS i))) (eig (FE (toS i) * Mm (toS i)) (E c 5)) (eig (FE (toS i) * Mm (toS i)) (E c 1))) / (FE (toS i)).det, (4 * quad6 (P (toS i)) (KS (toS i)) 5 2 + 4 * D2 (lam (toS i)) (ev (toS i)) (dv (toS i)) (sv (toS i)) (eig (Mm (toS i)) (Tm c (toS i))) (eig (FE (toS i) * Mm (toS i)) (E c 5)) (eig (FE (toS i) * Mm (toS i)) (E c 2))) / (FE (toS i)).det, (4 * quad6 (P (toS i)) (KS (toS i)) 5 3 + 4 * D2 (lam (toS i)) (ev (toS i)) (dv (toS i)) (sv (toS i)) (eig (Mm (toS i)) (Tm c (toS i))) (eig (FE (toS i) * Mm (toS i)) (E c 5)) (eig (FE (toS i) * Mm (toS i)) (E c 3))) / (FE (toS i)).det, (4 * quad6 (P (toS i)) (KS (toS i)) 5 4 + 4 * D2 (lam (toS i)) (ev (toS i)) (dv (toS i)) (sv (toS i)) (eig (Mm (toS i)) (Tm c (toS i))) (eig (FE (toS i) * Mm (toS i)) (E c 5)) (eig (FE (toS i) * Mm (toS i)) (E c 4))) / (FE (toS i)).det, (4 * quad6 (P (toS i)) (KS (toS i)) 5 5 + 4 * D2 (lam (toS i)) (ev (toS i)) (dv (toS i)) (sv (toS i)) (eig (Mm (toS i)) (Tm c (toS i))) (eig (FE (toS i) * Mm (toS i)) (E c 5)) (eig (FE (toS i) * Mm (toS i)) (E c 5))) / (FE (toS i)).det] := by
  have h := N3_E_spatial_row5 c c3 fn hc (toS i) hl
  have e : [Gen3TE.N3_E_truesdell_Kr5_0_full c c3 fn i, Gen3TE.N3_E_truesdell_Kr5_1_full c c3 fn i, Gen3TE.N3_E_truesdell_Kr5_2_full c c3 fn i, Gen3TE.N3_E_truesdell_Kr5_3_full c c3 fn i, Gen3TE.N3_E_truesdell_Kr5_4_full c c3 fn i, Gen3TE.N3_E_truesdell_Kr5_5_full c c3 fn i]
      = [Gen3TE.N3_E_spatial_Kr5_0_full c c3 fn (toS i) / (FE (toS i)).det, Gen3TE.N3_E_spatial_Kr5_1_full c c3 fn (toS i) / (FE (toS i)).det, Gen3TE.N3_E_spatial_Kr5_2_full c c3 fn (toS i) / (FE (toS i)).det, Gen3TE.N3_E_spatial_Kr5_3_full c c3 fn (toS i) / (FE (toS i)).det, Gen3TE.N3_E_spatial_Kr5_4_full c c3 fn (toS i) / (FE (toS i)).det, Gen3TE.N3_E_spatial_Kr5_5_full c c3 fn (toS i) / (FE (toS i)).det] := by
    simp only [Gen3TE.N3_E_truesdell_Kr5_0_full, Gen3TE.N3_E_truesdell_Kr5_1_full, Gen3TE.N3_E_truesdell_Kr5_2_full, Gen3TE.N3_E_truesdell_Kr5_3_full, Gen3TE.N3_E_truesdell_Kr5_4_full, Gen3TE.N3_E_truesdell_Kr5_5_full, Gen3TE.N3_E_spatial_Kr5_0_full, Gen3TE.N3_E_spatial_Kr5_1_full, Gen3TE.N3_E_spatial_Kr5_2_full, Gen3TE.N3_E_spatial_Kr5_3_full, Gen3TE.N3_E_spatial_Kr5_4_full, Gen3TE.N3_E_spatial_Kr5_5_full, ← truesdell_cuts]
    simp only [gen_simp, toS, toSc, FE, M3.ofTens, M3.det, List.cons.injEq, and_true]
    repeat' apply And.intro
    all_goals ring
  rw [e]
  simp only [List.cons.injEq, and_true] at h ⊢
  obtain ⟨h0, h1, h2, h3, h4, h5⟩ := h
  rw [h0, h1, h2, h3, h4, h5]
  exact ⟨rfl, rfl, rfl, rfl, rfl, rfl⟩

end TfelVerif.C24.Props3TE
