/-
  C24 — 3D, dual stress conversions. Property theorems only.

  Units (harness/C24/trace.cxx): the real member functions called on a handler whose data members
  (`p`, `m`, `vp`, `e`, `F`) are input symbols; `T*`, `S*`, `s*` are Mandel components of the stress given.
  `tfel::math::invert(p)` (LU) is replaced by an oracle `ip` (hypothesis `p * ip = 1` where needed).

  * `N3_L_toPK2`            : `S = 2 (T | p)`, i.e. `S_j = 2 Σ_i T_i p_ij`;
  * `N3_power_conjugacy`    : for every `dE_GL`:  `S : dE_GL = T : (2 p : dE_GL)` — with `2 p = ∂E_log/∂E_GL`
                              (Props3B.N3_L_p_col*, Calc.dk_is_derivative) this is `S : dE_GL = T : dE_log`;
  * `N3_L_fromPK2`, `N3_L_PK2_roundtrip` : the inverse conversion is the inverse map;
  * `N3_L_toCauchy`         : `σ = F S Fᵀ / det F`;
  * `N3_E_toCauchy`, `N3_E_fromCauchy`, `N3_E_Cauchy_roundtrip` : Eulerian setting `σ = 2 (T | p) / det F`
                              (with Props3B.N3_E_p_row*: `det F σ = F S Fᵀ`).
-/
import TfelVerif.C24.Lemmas
import TfelVerif.C24.Gen3S

namespace TfelVerif.C24.Props3S
open TfelVerif TfelVerif.Mandel TfelVerif.C24
set_option linter.unusedVariables false
set_option linter.unusedSimpArgs false
set_option linter.unusedSectionVars false
set_option maxRecDepth 100000

variable {K : Type} [Field K] [CharZero K] (c c3 : K) (fn : Fns K)
variable (vp0 vp1 vp2 m00 m01 m02 m10 m11 m12 m20 m21 m22 e0 e1 e2 p0_0 p0_1 p0_2 p0_3 p0_4 p0_5 p1_0 p1_1 p1_2 p1_3 p1_4 p1_5 p2_0 p2_1 p2_2 p2_3 p2_4 p2_5 p3_0 p3_1 p3_2 p3_3 p3_4 p3_5 p4_0 p4_1 p4_2 p4_3 p4_4 p4_5 p5_0 p5_1 p5_2 p5_3 p5_4 p5_5 F0 F1 F2 F3 F4 F5 F6 F7 F8 : K)

set_option hygiene false in
/-- a traced function of units `*_toPK2`, `*_toCauchy` applied to the inputs (stress given: `T0..T5`) -/
local macro "TT(" f:ident ")" : term =>
  `($f c c3 fn vp0 vp1 vp2 m00 m01 m02 m10 m11 m12 m20 m21 m22 e0 e1 e2 p0_0 p0_1 p0_2 p0_3 p0_4 p0_5 p1_0 p1_1 p1_2 p1_3 p1_4 p1_5 p2_0 p2_1 p2_2 p2_3 p2_4 p2_5 p3_0 p3_1 p3_2 p3_3 p3_4 p3_5 p4_0 p4_1 p4_2 p4_3 p4_4 p4_5 p5_0 p5_1 p5_2 p5_3 p5_4 p5_5 F0 F1 F2 F3 F4 F5 F6 F7 F8 T0 T1 T2 T3 T4 T5)
set_option hygiene false in
/-- units with the inverse oracle (stress given: `X0..X5`) -/
local macro "II(" f:ident ")" : term =>
  `($f c c3 fn vp0 vp1 vp2 m00 m01 m02 m10 m11 m12 m20 m21 m22 e0 e1 e2 p0_0 p0_1 p0_2 p0_3 p0_4 p0_5 p1_0 p1_1 p1_2 p1_3 p1_4 p1_5 p2_0 p2_1 p2_2 p2_3 p2_4 p2_5 p3_0 p3_1 p3_2 p3_3 p3_4 p3_5 p4_0 p4_1 p4_2 p4_3 p4_4 p4_5 p5_0 p5_1 p5_2 p5_3 p5_4 p5_5 F0 F1 F2 F3 F4 F5 F6 F7 F8 X0 X1 X2 X3 X4 X5 ip0_0 ip0_1 ip0_2 ip0_3 ip0_4 ip0_5 ip1_0 ip1_1 ip1_2 ip1_3 ip1_4 ip1_5 ip2_0 ip2_1 ip2_2 ip2_3 ip2_4 ip2_5 ip3_0 ip3_1 ip3_2 ip3_3 ip3_4 ip3_5 ip4_0 ip4_1 ip4_2 ip4_3 ip4_4 ip4_5 ip5_0 ip5_1 ip5_2 ip5_3 ip5_4 ip5_5)

/-- `p` as a 6×6 Mandel matrix -/
abbrev P : Fin 6 → Fin 6 → K := (mat6 (vec6 p0_0 p0_1 p0_2 p0_3 p0_4 p0_5) (vec6 p1_0 p1_1 p1_2 p1_3 p1_4 p1_5) (vec6 p2_0 p2_1 p2_2 p2_3 p2_4 p2_5) (vec6 p3_0 p3_1 p3_2 p3_3 p3_4 p3_5) (vec6 p4_0 p4_1 p4_2 p4_3 p4_4 p4_5) (vec6 p5_0 p5_1 p5_2 p5_3 p5_4 p5_5))
abbrev Fm : M3 K := M3.ofTens [F0, F1, F2, F3, F4, F5, F6, F7, F8]

section toPK2
variable (T0 T1 T2 T3 T4 T5 : K)

theorem N3_L_toPK2 :
    [TT(Gen3S.N3_L_toPK2_S0), TT(Gen3S.N3_L_toPK2_S1), TT(Gen3S.N3_L_toPK2_S2), TT(Gen3S.N3_L_toPK2_S3), TT(Gen3S.N3_L_toPK2_S4), TT(Gen3S.N3_L_toPK2_S5)]
    = [2 * dot6 (vec6 T0 T1 T2 T3 T4 T5) (fun i => P p0_0 p0_1 p0_2 p0_3 p0_4 p0_5 p1_0 p1_1 p1_2 p1_3 p1_4 p1_5 p2_0 p2_1 p2_2 p2_3 p2_4 p2_5 p3_0 p3_1 p3_2 p3_3 p3_4 p3_5 p4_0 p4_1 p4_2 p4_3 p4_4 p4_5 p5_0 p5_1 p5_2 p5_3 p5_4 p5_5 i 0), 2 * dot6 (vec6 T0 T1 T2 T3 T4 T5) (fun i => P p0_0 p0_1 p0_2 p0_3 p0_4 p0_5 p1_0 p1_1 p1_2 p1_3 p1_4 p1_5 p2_0 p2_1 p2_2 p2_3 p2_4 p2_5 p3_0 p3_1 p3_2 p3_3 p3_4 p3_5 p4_0 p4_1 p4_2 p4_3 p4_4 p4_5 p5_0 p5_1 p5_2 p5_3 p5_4 p5_5 i 1), 2 * dot6 (vec6 T0 T1 T2 T3 T4 T5) (fun i => P p0_0 p0_1 p0_2 p0_3 p0_4 p0_5 p1_0 p1_1 p1_2 p1_3 p1_4 p1_5 p2_0 p2_1 p2_2 p2_3 p2_4 p2_5 p3_0 p3_1 p3_2 p3_3 p3_4 p3_5 p4_0 p4_1 p4_2 p4_3 p4_4 p4_5 p5_0 p5_1 p5_2 p5_3 p5_4 p5_5 i 2), 2 * dot6 (vec6 T0 T1 T2 T3 T4 T5) (fun i => P p0_0 p0_1 p0_2 p0_3 p0_4 p0_5 p1_0 p1_1 p1_2 p1_3 p1_4 p1_5 p2_0 p2_1 p2_2 p2_3 p2_4 p2_5 p3_0 p3_1 p3_2 p3_3 p3_4 p3_5 p4_0 p4_1 p4_2 p4_3 p4_4 p4_5 p5_0 p5_1 p5_2 p5_3 p5_4 p5_5 i 3), 2 * dot6 (vec6 T0 T1 T2 T3 T4 T5) (fun i => P p0_0 p0_1 p0_2 p0_3 p0_4 p0_5 p1_0 p1_1 p1_2 p1_3 p1_4 p1_5 p2_0 p2_1 p2_2 p2_3 p2_4 p2_5 p3_0 p3_1 p3_2 p3_3 p3_4 p3_5 p4_0 p4_1 p4_2 p4_3 p4_4 p4_5 p5_0 p5_1 p5_2 p5_3 p5_4 p5_5 i 4), 2 * dot6 (vec6 T0 T1 T2 T3 T4 T5) (fun i => P p0_0 p0_1 p0_2 p0_3 p0_4 p0_5 p1_0 p1_1 p1_2 p1_3 p1_4 p1_5 p2_0 p2_1 p2_2 p2_3 p2_4 p2_5 p3_0 p3_1 p3_2 p3_3 p3_4 p3_5 p4_0 p4_1 p4_2 p4_3 p4_4 p4_5 p5_0 p5_1 p5_2 p5_3 p5_4 p5_5 i 5)] := by
  simp only [gen_simp, P, dot6, mat6, vec6, List.cons.injEq, and_true]
  repeat' apply And.intro
  all_goals ring

/-- stress power: `S : dE = T : (2 p : dE)` for every `dE` (Mandel components `d0..d5`) -/
theorem N3_power_conjugacy (d0 d1 d2 d3 d4 d5 : K) :
    dot6 (vec6 (TT(Gen3S.N3_L_toPK2_S0)) (TT(Gen3S.N3_L_toPK2_S1)) (TT(Gen3S.N3_L_toPK2_S2)) (TT(Gen3S.N3_L_toPK2_S3)) (TT(Gen3S.N3_L_toPK2_S4)) (TT(Gen3S.N3_L_toPK2_S5))) (vec6 d0 d1 d2 d3 d4 d5)
    = dot6 (vec6 T0 T1 T2 T3 T4 T5) (fun i => 2 * dot6 (P p0_0 p0_1 p0_2 p0_3 p0_4 p0_5 p1_0 p1_1 p1_2 p1_3 p1_4 p1_5 p2_0 p2_1 p2_2 p2_3 p2_4 p2_5 p3_0 p3_1 p3_2 p3_3 p3_4 p3_5 p4_0 p4_1 p4_2 p4_3 p4_4 p4_5 p5_0 p5_1 p5_2 p5_3 p5_4 p5_5 i) (vec6 d0 d1 d2 d3 d4 d5)) := by
  simp only [gen_simp, P, dot6, mat6, vec6]
  ring

theorem N3_L_toCauchy_den : TT(Gen3S.N3_L_toCauchy_den0) = (Fm F0 F1 F2 F3 F4 F5 F6 F7 F8).det := by
  simp only [gen_simp, Fm, M3.ofTens, M3.det]; ring
theorem N3_E_toCauchy_den : TT(Gen3S.N3_E_toCauchy_den0) = (Fm F0 F1 F2 F3 F4 F5 F6 F7 F8).det := by
  simp only [gen_simp, Fm, M3.ofTens, M3.det]; ring

/-- Lagrangian setting: `σ = F S Fᵀ / det F`, `S = 2 (T | p)` -/
theorem N3_L_toCauchy (hc : c * c = 2) :
    [TT(Gen3S.N3_L_toCauchy_s0), TT(Gen3S.N3_L_toCauchy_s1), TT(Gen3S.N3_L_toCauchy_s2), TT(Gen3S.N3_L_toCauchy_s3), TT(Gen3S.N3_L_toCauchy_s4), TT(Gen3S.N3_L_toCauchy_s5)]
    = M3.mandel3 c ((1 / TT(Gen3S.N3_L_toCauchy_den0)) •
        pf (Fm F0 F1 F2 F3 F4 F5 F6 F7 F8) (M3.ofMandel c [TT(Gen3S.N3_L_toPK2_S0), TT(Gen3S.N3_L_toPK2_S1), TT(Gen3S.N3_L_toPK2_S2), TT(Gen3S.N3_L_toPK2_S3), TT(Gen3S.N3_L_toPK2_S4), TT(Gen3S.N3_L_toPK2_S5)])) := by
  have hi : c⁻¹ = c / 2 := c_inv hc two_ne_zero
  simp only [gen_simp, pf, Fm, M3.ofTens, M3.ofMandel, M3.sym, M3.mandel3, M3.smul_def, M3.smul, M3.mul_def, M3.mul,
    M3.transpose, List.cons.injEq, and_true, one_div, div_eq_mul_inv, hi]
  repeat' apply And.intro
  all_goals c24_ring hc

/-- Eulerian setting: `σ = 2 (T | p) / det F` -/
theorem N3_E_toCauchy :
    [TT(Gen3S.N3_E_toCauchy_s0), TT(Gen3S.N3_E_toCauchy_s1), TT(Gen3S.N3_E_toCauchy_s2), TT(Gen3S.N3_E_toCauchy_s3), TT(Gen3S.N3_E_toCauchy_s4), TT(Gen3S.N3_E_toCauchy_s5)]
    = [2 * dot6 (vec6 T0 T1 T2 T3 T4 T5) (fun i => P p0_0 p0_1 p0_2 p0_3 p0_4 p0_5 p1_0 p1_1 p1_2 p1_3 p1_4 p1_5 p2_0 p2_1 p2_2 p2_3 p2_4 p2_5 p3_0 p3_1 p3_2 p3_3 p3_4 p3_5 p4_0 p4_1 p4_2 p4_3 p4_4 p4_5 p5_0 p5_1 p5_2 p5_3 p5_4 p5_5 i 0) / TT(Gen3S.N3_E_toCauchy_den0), 2 * dot6 (vec6 T0 T1 T2 T3 T4 T5) (fun i => P p0_0 p0_1 p0_2 p0_3 p0_4 p0_5 p1_0 p1_1 p1_2 p1_3 p1_4 p1_5 p2_0 p2_1 p2_2 p2_3 p2_4 p2_5 p3_0 p3_1 p3_2 p3_3 p3_4 p3_5 p4_0 p4_1 p4_2 p4_3 p4_4 p4_5 p5_0 p5_1 p5_2 p5_3 p5_4 p5_5 i 1) / TT(Gen3S.N3_E_toCauchy_den0), 2 * dot6 (vec6 T0 T1 T2 T3 T4 T5) (fun i => P p0_0 p0_1 p0_2 p0_3 p0_4 p0_5 p1_0 p1_1 p1_2 p1_3 p1_4 p1_5 p2_0 p2_1 p2_2 p2_3 p2_4 p2_5 p3_0 p3_1 p3_2 p3_3 p3_4 p3_5 p4_0 p4_1 p4_2 p4_3 p4_4 p4_5 p5_0 p5_1 p5_2 p5_3 p5_4 p5_5 i 2) / TT(Gen3S.N3_E_toCauchy_den0), 2 * dot6 (vec6 T0 T1 T2 T3 T4 T5) (fun i => P p0_0 p0_1 p0_2 p0_3 p0_4 p0_5 p1_0 p1_1 p1_2 p1_3 p1_4 p1_5 p2_0 p2_1 p2_2 p2_3 p2_4 p2_5 p3_0 p3_1 p3_2 p3_3 p3_4 p3_5 p4_0 p4_1 p4_2 p4_3 p4_4 p4_5 p5_0 p5_1 p5_2 p5_3 p5_4 p5_5 i 3) / TT(Gen3S.N3_E_toCauchy_den0), 2 * dot6 (vec6 T0 T1 T2 T3 T4 T5) (fun i => P p0_0 p0_1 p0_2 p0_3 p0_4 p0_5 p1_0 p1_1 p1_2 p1_3 p1_4 p1_5 p2_0 p2_1 p2_2 p2_3 p2_4 p2_5 p3_0 p3_1 p3_2 p3_3 p3_4 p3_5 p4_0 p4_1 p4_2 p4_3 p4_4 p4_5 p5_0 p5_1 p5_2 p5_3 p5_4 p5_5 i 4) / TT(Gen3S.N3_E_toCauchy_den0), 2 * dot6 (vec6 T0 T1 T2 T3 T4 T5) (fun i => P p0_0 p0_1 p0_2 p0_3 p0_4 p0_5 p1_0 p1_1 p1_2 p1_3 p1_4 p1_5 p2_0 p2_1 p2_2 p2_3 p2_4 p2_5 p3_0 p3_1 p3_2 p3_3 p3_4 p3_5 p4_0 p4_1 p4_2 p4_3 p4_4 p4_5 p5_0 p5_1 p5_2 p5_3 p5_4 p5_5 i 5) / TT(Gen3S.N3_E_toCauchy_den0)] := by
  simp only [gen_simp, P, dot6, mat6, vec6, List.cons.injEq, and_true]
  repeat' apply And.intro
  all_goals ring
end toPK2

section inverse
variable (X0 X1 X2 X3 X4 X5 ip0_0 ip0_1 ip0_2 ip0_3 ip0_4 ip0_5 ip1_0 ip1_1 ip1_2 ip1_3 ip1_4 ip1_5 ip2_0 ip2_1 ip2_2 ip2_3 ip2_4 ip2_5 ip3_0 ip3_1 ip3_2 ip3_3 ip3_4 ip3_5 ip4_0 ip4_1 ip4_2 ip4_3 ip4_4 ip4_5 ip5_0 ip5_1 ip5_2 ip5_3 ip5_4 ip5_5 : K)
/-- the oracle for `invert(p)` as a 6×6 Mandel matrix -/
abbrev IP : Fin 6 → Fin 6 → K := (mat6 (vec6 ip0_0 ip0_1 ip0_2 ip0_3 ip0_4 ip0_5) (vec6 ip1_0 ip1_1 ip1_2 ip1_3 ip1_4 ip1_5) (vec6 ip2_0 ip2_1 ip2_2 ip2_3 ip2_4 ip2_5) (vec6 ip3_0 ip3_1 ip3_2 ip3_3 ip3_4 ip3_5) (vec6 ip4_0 ip4_1 ip4_2 ip4_3 ip4_4 ip4_5) (vec6 ip5_0 ip5_1 ip5_2 ip5_3 ip5_4 ip5_5))

theorem N3_L_fromPK2 :
    [II(Gen3S.N3_L_fromPK2_T0), II(Gen3S.N3_L_fromPK2_T1), II(Gen3S.N3_L_fromPK2_T2), II(Gen3S.N3_L_fromPK2_T3), II(Gen3S.N3_L_fromPK2_T4), II(Gen3S.N3_L_fromPK2_T5)]
    = [dot6 (vec6 X0 X1 X2 X3 X4 X5) (fun i => IP ip0_0 ip0_1 ip0_2 ip0_3 ip0_4 ip0_5 ip1_0 ip1_1 ip1_2 ip1_3 ip1_4 ip1_5 ip2_0 ip2_1 ip2_2 ip2_3 ip2_4 ip2_5 ip3_0 ip3_1 ip3_2 ip3_3 ip3_4 ip3_5 ip4_0 ip4_1 ip4_2 ip4_3 ip4_4 ip4_5 ip5_0 ip5_1 ip5_2 ip5_3 ip5_4 ip5_5 i 0) / 2, dot6 (vec6 X0 X1 X2 X3 X4 X5) (fun i => IP ip0_0 ip0_1 ip0_2 ip0_3 ip0_4 ip0_5 ip1_0 ip1_1 ip1_2 ip1_3 ip1_4 ip1_5 ip2_0 ip2_1 ip2_2 ip2_3 ip2_4 ip2_5 ip3_0 ip3_1 ip3_2 ip3_3 ip3_4 ip3_5 ip4_0 ip4_1 ip4_2 ip4_3 ip4_4 ip4_5 ip5_0 ip5_1 ip5_2 ip5_3 ip5_4 ip5_5 i 1) / 2, dot6 (vec6 X0 X1 X2 X3 X4 X5) (fun i => IP ip0_0 ip0_1 ip0_2 ip0_3 ip0_4 ip0_5 ip1_0 ip1_1 ip1_2 ip1_3 ip1_4 ip1_5 ip2_0 ip2_1 ip2_2 ip2_3 ip2_4 ip2_5 ip3_0 ip3_1 ip3_2 ip3_3 ip3_4 ip3_5 ip4_0 ip4_1 ip4_2 ip4_3 ip4_4 ip4_5 ip5_0 ip5_1 ip5_2 ip5_3 ip5_4 ip5_5 i 2) / 2, dot6 (vec6 X0 X1 X2 X3 X4 X5) (fun i => IP ip0_0 ip0_1 ip0_2 ip0_3 ip0_4 ip0_5 ip1_0 ip1_1 ip1_2 ip1_3 ip1_4 ip1_5 ip2_0 ip2_1 ip2_2 ip2_3 ip2_4 ip2_5 ip3_0 ip3_1 ip3_2 ip3_3 ip3_4 ip3_5 ip4_0 ip4_1 ip4_2 ip4_3 ip4_4 ip4_5 ip5_0 ip5_1 ip5_2 ip5_3 ip5_4 ip5_5 i 3) / 2, dot6 (vec6 X0 X1 X2 X3 X4 X5) (fun i => IP ip0_0 ip0_1 ip0_2 ip0_3 ip0_4 ip0_5 ip1_0 ip1_1 ip1_2 ip1_3 ip1_4 ip1_5 ip2_0 ip2_1 ip2_2 ip2_3 ip2_4 ip2_5 ip3_0 ip3_1 ip3_2 ip3_3 ip3_4 ip3_5 ip4_0 ip4_1 ip4_2 ip4_3 ip4_4 ip4_5 ip5_0 ip5_1 ip5_2 ip5_3 ip5_4 ip5_5 i 4) / 2, dot6 (vec6 X0 X1 X2 X3 X4 X5) (fun i => IP ip0_0 ip0_1 ip0_2 ip0_3 ip0_4 ip0_5 ip1_0 ip1_1 ip1_2 ip1_3 ip1_4 ip1_5 ip2_0 ip2_1 ip2_2 ip2_3 ip2_4 ip2_5 ip3_0 ip3_1 ip3_2 ip3_3 ip3_4 ip3_5 ip4_0 ip4_1 ip4_2 ip4_3 ip4_4 ip4_5 ip5_0 ip5_1 ip5_2 ip5_3 ip5_4 ip5_5 i 5) / 2] := by
  simp only [gen_simp, IP, dot6, mat6, vec6, List.cons.injEq, and_true]
  repeat' apply And.intro
  all_goals ring

theorem N3_E_fromCauchy :
    [II(Gen3S.N3_E_fromCauchy_T0), II(Gen3S.N3_E_fromCauchy_T1), II(Gen3S.N3_E_fromCauchy_T2), II(Gen3S.N3_E_fromCauchy_T3), II(Gen3S.N3_E_fromCauchy_T4), II(Gen3S.N3_E_fromCauchy_T5)]
    = [dot6 (vec6 X0 X1 X2 X3 X4 X5) (fun i => IP ip0_0 ip0_1 ip0_2 ip0_3 ip0_4 ip0_5 ip1_0 ip1_1 ip1_2 ip1_3 ip1_4 ip1_5 ip2_0 ip2_1 ip2_2 ip2_3 ip2_4 ip2_5 ip3_0 ip3_1 ip3_2 ip3_3 ip3_4 ip3_5 ip4_0 ip4_1 ip4_2 ip4_3 ip4_4 ip4_5 ip5_0 ip5_1 ip5_2 ip5_3 ip5_4 ip5_5 i 0) * (Fm F0 F1 F2 F3 F4 F5 F6 F7 F8).det / 2, dot6 (vec6 X0 X1 X2 X3 X4 X5) (fun i => IP ip0_0 ip0_1 ip0_2 ip0_3 ip0_4 ip0_5 ip1_0 ip1_1 ip1_2 ip1_3 ip1_4 ip1_5 ip2_0 ip2_1 ip2_2 ip2_3 ip2_4 ip2_5 ip3_0 ip3_1 ip3_2 ip3_3 ip3_4 ip3_5 ip4_0 ip4_1 ip4_2 ip4_3 ip4_4 ip4_5 ip5_0 ip5_1 ip5_2 ip5_3 ip5_4 ip5_5 i 1) * (Fm F0 F1 F2 F3 F4 F5 F6 F7 F8).det / 2, dot6 (vec6 X0 X1 X2 X3 X4 X5) (fun i => IP ip0_0 ip0_1 ip0_2 ip0_3 ip0_4 ip0_5 ip1_0 ip1_1 ip1_2 ip1_3 ip1_4 ip1_5 ip2_0 ip2_1 ip2_2 ip2_3 ip2_4 ip2_5 ip3_0 ip3_1 ip3_2 ip3_3 ip3_4 ip3_5 ip4_0 ip4_1 ip4_2 ip4_3 ip4_4 ip4_5 ip5_0 ip5_1 ip5_2 ip5_3 ip5_4 ip5_5 i 2) * (Fm F0 F1 F2 F3 F4 F5 F6 F7 F8).det / 2, dot6 (vec6 X0 X1 X2 X3 X4 X5) (fun i => IP ip0_0 ip0_1 ip0_2 ip0_3 ip0_4 ip0_5 ip1_0 ip1_1 ip1_2 ip1_3 ip1_4 ip1_5 ip2_0 ip2_1 ip2_2 ip2_3 ip2_4 ip2_5 ip3_0 ip3_1 ip3_2 ip3_3 ip3_4 ip3_5 ip4_0 ip4_1 ip4_2 ip4_3 ip4_4 ip4_5 ip5_0 ip5_1 ip5_2 ip5_3 ip5_4 ip5_5 i 3) * (Fm F0 F1 F2 F3 F4 F5 F6 F7 F8).det / 2, dot6 (vec6 X0 X1 X2 X3 X4 X5) (fun i => IP ip0_0 ip0_1 ip0_2 ip0_3 ip0_4 ip0_5 ip1_0 ip1_1 ip1_2 ip1_3 ip1_4 ip1_5 ip2_0 ip2_1 ip2_2 ip2_3 ip2_4 ip2_5 ip3_0 ip3_1 ip3_2 ip3_3 ip3_4 ip3_5 ip4_0 ip4_1 ip4_2 ip4_3 ip4_4 ip4_5 ip5_0 ip5_1 ip5_2 ip5_3 ip5_4 ip5_5 i 4) * (Fm F0 F1 F2 F3 F4 F5 F6 F7 F8).det / 2, dot6 (vec6 X0 X1 X2 X3 X4 X5) (fun i => IP ip0_0 ip0_1 ip0_2 ip0_3 ip0_4 ip0_5 ip1_0 ip1_1 ip1_2 ip1_3 ip1_4 ip1_5 ip2_0 ip2_1 ip2_2 ip2_3 ip2_4 ip2_5 ip3_0 ip3_1 ip3_2 ip3_3 ip3_4 ip3_5 ip4_0 ip4_1 ip4_2 ip4_3 ip4_4 ip4_5 ip5_0 ip5_1 ip5_2 ip5_3 ip5_4 ip5_5 i 5) * (Fm F0 F1 F2 F3 F4 F5 F6 F7 F8).det / 2] := by
  simp only [gen_simp, IP, dot6, mat6, vec6, Fm, M3.ofTens, M3.det, List.cons.injEq, and_true]
  repeat' apply And.intro
  all_goals ring
end inverse

/-! ### the inverse conversions are the inverse maps (given `p * invert(p) = 1`) -/
section roundtrip
variable (T0 T1 T2 T3 T4 T5 ip0_0 ip0_1 ip0_2 ip0_3 ip0_4 ip0_5 ip1_0 ip1_1 ip1_2 ip1_3 ip1_4 ip1_5 ip2_0 ip2_1 ip2_2 ip2_3 ip2_4 ip2_5 ip3_0 ip3_1 ip3_2 ip3_3 ip3_4 ip3_5 ip4_0 ip4_1 ip4_2 ip4_3 ip4_4 ip4_5 ip5_0 ip5_1 ip5_2 ip5_3 ip5_4 ip5_5 : K)

theorem N3_L_PK2_roundtrip (hinv : ∀ k j : Fin 6, dot6 (P p0_0 p0_1 p0_2 p0_3 p0_4 p0_5 p1_0 p1_1 p1_2 p1_3 p1_4 p1_5 p2_0 p2_1 p2_2 p2_3 p2_4 p2_5 p3_0 p3_1 p3_2 p3_3 p3_4 p3_5 p4_0 p4_1 p4_2 p4_3 p4_4 p4_5 p5_0 p5_1 p5_2 p5_3 p5_4 p5_5 k) (fun i => IP ip0_0 ip0_1 ip0_2 ip0_3 ip0_4 ip0_5 ip1_0 ip1_1 ip1_2 ip1_3 ip1_4 ip1_5 ip2_0 ip2_1 ip2_2 ip2_3 ip2_4 ip2_5 ip3_0 ip3_1 ip3_2 ip3_3 ip3_4 ip3_5 ip4_0 ip4_1 ip4_2 ip4_3 ip4_4 ip4_5 ip5_0 ip5_1 ip5_2 ip5_3 ip5_4 ip5_5 i j) = if k = j then 1 else 0) :
    [Gen3S.N3_L_fromPK2_T0 c c3 fn vp0 vp1 vp2 m00 m01 m02 m10 m11 m12 m20 m21 m22 e0 e1 e2 p0_0 p0_1 p0_2 p0_3 p0_4 p0_5 p1_0 p1_1 p1_2 p1_3 p1_4 p1_5 p2_0 p2_1 p2_2 p2_3 p2_4 p2_5 p3_0 p3_1 p3_2 p3_3 p3_4 p3_5 p4_0 p4_1 p4_2 p4_3 p4_4 p4_5 p5_0 p5_1 p5_2 p5_3 p5_4 p5_5 F0 F1 F2 F3 F4 F5 F6 F7 F8 (Gen3S.N3_L_toPK2_S0 c c3 fn vp0 vp1 vp2 m00 m01 m02 m10 m11 m12 m20 m21 m22 e0 e1 e2 p0_0 p0_1 p0_2 p0_3 p0_4 p0_5 p1_0 p1_1 p1_2 p1_3 p1_4 p1_5 p2_0 p2_1 p2_2 p2_3 p2_4 p2_5 p3_0 p3_1 p3_2 p3_3 p3_4 p3_5 p4_0 p4_1 p4_2 p4_3 p4_4 p4_5 p5_0 p5_1 p5_2 p5_3 p5_4 p5_5 F0 F1 F2 F3 F4 F5 F6 F7 F8 T0 T1 T2 T3 T4 T5) (Gen3S.N3_L_toPK2_S1 c c3 fn vp0 vp1 vp2 m00 m01 m02 m10 m11 m12 m20 m21 m22 e0 e1 e2 p0_0 p0_1 p0_2 p0_3 p0_4 p0_5 p1_0 p1_1 p1_2 p1_3 p1_4 p1_5 p2_0 p2_1 p2_2 p2_3 p2_4 p2_5 p3_0 p3_1 p3_2 p3_3 p3_4 p3_5 p4_0 p4_1 p4_2 p4_3 p4_4 p4_5 p5_0 p5_1 p5_2 p5_3 p5_4 p5_5 F0 F1 F2 F3 F4 F5 F6 F7 F8 T0 T1 T2 T3 T4 T5) (Gen3S.N3_L_toPK2_S2 c c3 fn vp0 vp1 vp2 m00 m01 m02 m10 m11 m12 m20 m21 m22 e0 e1 e2 p0_0 p0_1 p0_2 p0_3 p0_4 p0_5 p1_0 p1_1 p1_2 p1_3 p1_4 p1_5 p2_0 p2_1 p2_2 p2_3 p2_4 p2_5 p3_0 p3_1 p3_2 p3_3 p3_4 p3_5 p4_0 p4_1 p4_2 p4_3 p4_4 p4_5 p5_0 p5_1 p5_2 p5_3 p5_4 p5_5 F0 F1 F2 F3 F4 F5 F6 F7 F8 T0 T1 T2 T3 T4 T5) (Gen3S.N3_L_toPK2_S3 c c3 fn vp0 vp1 vp2 m00 m01 m02 m10 m11 m12 m20 m21 m22 e0 e1 e2 p0_0 p0_1 p0_2 p0_3 p0_4 p0_5 p1_0 p1_1 p1_2 p1_3 p1_4 p1_5 p2_0 p2_1 p2_2 p2_3 p2_4 p2_5 p3_0 p3_1 p3_2 p3_3 p3_4 p3_5 p4_0 p4_1 p4_2 p4_3 p4_4 p4_5 p5_0 p5_1 p5_2 p5_3 p5_4 p5_5 F0 F1 F2 F3 F4 F5 F6 F7 F8 T0 T1 T2 T3 T4 T5) (Gen3S.N3_L_toPK2_S4 c c3 fn vp0 vp1 vp2 m00 m01 m02 m10 m11 m12 m20 m21 m22 e0 e1 e2 p0_0 p0_1 p0_2 p0_3 p0_4 p0_5 p1_0 p1_1 p1_2 p1_3 p1_4 p1_5 p2_0 p2_1 p2_2 p2_3 p2_4 p2_5 p3_0 p3_1 p3_2 p3_3 p3_4 p3_5 p4_0 p4_1 p4_2 p4_3 p4_4 p4_5 p5_0 p5_1 p5_2 p5_3 p5_4 p5_5 F0 F1 F2 F3 F4 F5 F6 F7 F8 T0 T1 T2 T3 T4 T5) (Gen3S.N3_L_toPK2_S5 c c3 fn vp0 vp1 vp2 m00 m01 m02 m10 m11 m12 m20 m21 m22 e0 e1 e2 p0_0 p0_1 p0_2 p0_3 p0_4 p0_5 p1_0 p1_1 p1_2 p1_3 p1_4 p1_5 p2_0 p2_1 p2_2 p2_3 p2_4 p2_5 p3_0 p3_1 p3_2 p3_3 p3_4 p3_5 p4_0 p4_1 p4_2 p4_3 p4_4 p4_5 p5_0 p5_1 p5_2 p5_3 p5_4 p5_5 F0 F1 F2 F3 F4 F5 F6 F7 F8 T0 T1 T2 T3 T4 T5) ip0_0 ip0_1 ip0_2 ip0_3 ip0_4 ip0_5 ip1_0 ip1_1 ip1_2 ip1_3 ip1_4 ip1_5 ip2_0 ip2_1 ip2_2 ip2_3 ip2_4 ip2_5 ip3_0 ip3_1 ip3_2 ip3_3 ip3_4 ip3_5 ip4_0 ip4_1 ip4_2 ip4_3 ip4_4 ip4_5 ip5_0 ip5_1 ip5_2 ip5_3 ip5_4 ip5_5, Gen3S.N3_L_fromPK2_T1 c c3 fn vp0 vp1 vp2 m00 m01 m02 m10 m11 m12 m20 m21 m22 e0 e1 e2 p0_0 p0_1 p0_2 p0_3 p0_4 p0_5 p1_0 p1_1 p1_2 p1_3 p1_4 p1_5 p2_0 p2_1 p2_2 p2_3 p2_4 p2_5 p3_0 p3_1 p3_2 p3_3 p3_4 p3_5 p4_0 p4_1 p4_2 p4_3 p4_4 p4_5 p5_0 p5_1 p5_2 p5_3 p5_4 p5_5 F0 F1 F2 F3 F4 F5 F6 F7 F8 (Gen3S.N3_L_toPK2_S0 c c3 fn vp0 vp1 vp2 m00 m01 m02 m10 m11 m12 m20 m21 m22 e0 e1 e2 p0_0 p0_1 p0_2 p0_3 p0_4 p0_5 p1_0 p1_1 p1_2 p1_3 p1_4 p1_5 p2_0 p2_1 p2_2 p2_3 p2_4 p2_5 p3_0 p3_1 p3_2 p3_3 p3_4 p3_5 p4_0 p4_1 p4_2 p4_3 p4_4 p4_5 p5_0 p5_1 p5_2 p5_3 p5_4 p5_5 F0 F1 F2 F3 F4 F5 F6 F7 F8 T0 T1 T2 T3 T4 T5) (Gen3S.N3_L_toPK2_S1 c c3 fn vp0 vp1 vp2 m00 m01 m02 m10 m11 m12 m20 m21 m22 e0 e1 e2 p0_0 p0_1 p0_2 p0_3 p0_4 p0_5 p1_0 p1_1 p1_2 p1_3 p1_4 p1_5 p2_0 p2_1 p2_2 p2_3 p2_4 p2_5 p3_0 p3_1 p3_2 p3_3 p3_4 p3_5 p4_0 p4_1 p4_2 p4_3 p4_4 p4_5 p5_0 p5_1 p5_2 p5_3 p5_4 p5_5 F0 F1 F2 F3 F4 F5 F6 F7 F8 T0 T1 T2 T3 T4 T5) (Gen3S.N3_L_toPK2_S2 c c3 fn vp0 vp1 vp2 m00 m01 m02 m10 m11 m12 m20 m21 m22 e0 e1 e2 p0_0 p0_1 p0_2 p0_3 p0_4 p0_5 p1_0 p1_1 p1_2 p1_3 p1_4 p1_5 p2_0 p2_1 p2_2 p2_3 p2_4 p2_5 p3_0 p3_1 p3_2 p3_3 p3_4 p3_5 p4_0 p4_1 p4_2 p4_3 p4_4 p4_5 p5_0 p5_1 p5_2 p5_3 p5_4 p5_5 F0 F1 F2 F3 F4 F5 F6 F7 F8 T0 T1 T2 T3 T4 T5) (Gen3S.N3_L_toPK2_S3 c c3 fn vp0 vp1 vp2 m00 m01 m02 m10 m11 m12 m20 m21 m22 e0 e1 e2 p0_0 p0_1 p0_2 p0_3 p0_4 p0_5 p1_0 p1_1 p1_2 p1_3 p1_4 p1_5 p2_0 p2_1 p2_2 p2_3 p2_4 p2_5 p3_0 p3_1 p3_2 p3_3 p3_4 p3_5 p4_0 p4_1 p4_2 p4_3 p4_4 p4_5 p5_0 p5_1 p5_2 p5_3 p5_4 p5_5 F0 F1 F2 F3 F4 F5 F6 F7 F8 T0 T1 T2 T3 T4 T5) (Gen3S.N3_L_toPK2_S4 c c3 fn vp0 vp1 vp2 m00 m01 m02 m10 m11 m12 m20 m21 m22 e0 e1 e2 p0_0 p0_1 p0_2 p0_3 p0_4 p0_5 p1_0 p1_1 p1_2 p1_3 p1_4 p1_5 p2_0 p2_1 p2_2 p2_3 p2_4 p2_5 p3_0 p3_1 p3_2 p3_3 p3_4 p3_5 p4_0 p4_1 p4_2 p4_3 p4_4 p4_5 p5_0 p5_1 p5_2 p5_3 p5_4 p5_5 F0 F1 F2 F3 F4 F5 F6 F7 F8 T0 T1 T2 T3 T4 T5) (Gen3S.N3_L_toPK2_S5 c c3 fn vp0 vp1 vp2 m00 m01 m02 m10 m11 m12 m20 m21 m22 e0 e1 e2 p0_0 p0_1 p0_2 p0_3 p0_4 p0_5 p1_0 p1_1 p1_2 p1_3 p1_4 p1_5 p2_0 p2_1 p2_2 p2_3 p2_4 p2_5 p3_0 p3_1 p3_2 p3_3 p3_4 p3_5 p4_0 p4_1 p4_2 p4_3 p4_4 p4_5 p5_0 p5_1 p5_2 p5_3 p5_4 p5_5 F0 F1 F2 F3 F4 F5 F6 F7 F8 T0 T1 T2 T3 T4 T5) ip0_0 ip0_1 ip0_2 ip0_3 ip0_4 ip0_5 ip1_0 ip1_1 ip1_2 ip1_3 ip1_4 ip1_5 ip2_0 ip2_1 ip2_2 ip2_3 ip2_4 ip2_5 ip3_0 ip3_1 ip3_2 ip3_3 ip3_4 ip3_5 ip4_0 ip4_1 ip4_2 ip4_3 ip4_4 ip4_5 ip5_0 ip5_1 ip5_2 ip5_3 ip5_4 ip5_5, Gen3S.N3_L_fromPK2_T2 c c3 fn vp0 vp1 vp2 m00 m01 m02 m10 m11 m12 m20 m21 m22 e0 e1 e2 p0_0 p0_1 p0_2 p0_3 p0_4 p0_5 p1_0 p1_1 p1_2 p1_3 p1_4 p1_5 p2_0 p2_1 p2_2 p2_3 p2_4 p2_5 p3_0 p3_1 p3_2 p3_3 p3_4 p3_5 p4_0 p4_1 p4_2 p4_3 p4_4 p4_5 p5_0 p5_1 p5_2 p5_3 p5_4 p5_5 F0 F1 F2 F3 F4 F5 F6 F7 F8 (Gen3S.N3_L_toPK2_S0 c c3 fn vp0 vp1 vp2 m00 m01 m02 m10 m11 m12 m20 m21 m22 e0 e1 e2 p0_0 p0_1 p0_2 p0_3 p0_4 p0_5 p1_0 p1_1 p1_2 p1_3 p1_4 p1_5 p2_0 p2_1 p2_2 p2_3 p2_4 p2_5 p3_0 p3_1 p3_2 p3_3 p3_4 p3_5 p4_0 p4_1 p4_2 p4_3 p4_4 p4_5 p5_0 p5_1 p5_2 p5_3 p5_4 p5_5 F0 F1 F2 F3 F4 F5 F6 F7 F8 T0 T1 T2 T3 T4 T5) (Gen3S.N3_L_toPK2_S1 c c3 fn vp0 vp1 vp2 m00 m01 m02 m10 m11 m12 m20 m21 m22 e0 e1 e2 p0_0 p0_1 p0_2 p0_3 p0_4 p0_5 p1_0 p1_1 p1_2 p1_3 p1_4 p1_5 p2_0 p2_1 p2_2 p2_3 p2_4 p2_5 p3_0 p3_1 p3_2 p3_3 p3_4 p3_5 p4_0 p4_1 p4_2 p4_3 p4_4 p4_5 p5_0 p5_1 p5_2 p5_3 p5_4 p5_5 F0 F1 F2 F3 F4 F5 F6 F7 F8 T0 T1 T2 T3 T4 T5) (Gen3S.N3_L_toPK2_S2 c c3 fn vp0 vp1 vp2 m00 m01 m02 m10 m11 m12 m20 m21 m22 e0 e1 e2 p0_0 p0_1 p0_2 p0_3 p0_4 p0_5 p1_0 p1_1 p1_2 p1_3 p1_4 p1_5 p2_0 p2_1 p2_2 p2_3 p2_4 p2_5 p3_0 p3_1 p3_2 p3_3 p3_4 p3_5 p4_0 p4_1 p4_2 p4_3 p4_4 p4_5 p5_0 p5_1 p5_2 p5_3 p5_4 p5_5 F0 F1 F2 F3 F4 F5 F6 F7 F8 T0 T1 T2 T3 T4 T5) (Gen3S.N3_L_toPK2_S3 c c3 fn vp0 vp1 vp2 m00 m01 m02 m10 m11 m12 m20 m21 m22 e0 e1 e2 p0_0 p0_1 p0_2 p0_3 p0_4 p0_5 p1_0 p1_1 p1_2 p1_3 p1_4 p1_5 p2_0 p2_1 p2_2 p2_3 p2_4 p2_5 p3_0 p3_1 p3_2 p3_3 p3_4 p3_5 p4_0 p4_1 p4_2 p4_3 p4_4 p4_5 p5_0 p5_1 p5_2 p5_3 p5_4 p5_5 F0 F1 F2 F3 F4 F5 F6 F7 F8 T0 T1 T2 T3 T4 T5) (Gen3S.N3_L_toPK2_S4 c c3 fn vp0 vp1 vp2 m00 m01 m02 m10 m11 m12 m20 m21 m22 e0 e1 e2 p0_0 p0_1 p0_2 p0_3 p0_4 p0_5 p1_0 p1_1 p1_2 p1_3 p1_4 p1_5 p2_0 p2_1 p2_2 p2_3 p2_4 p2_5 p3_0 p3_1 p3_2 p3_3 p3_4 p3_5 p4_0 p4_1 p4_2 p4_3 p4_4 p4_5 p5_0 p5_1 p5_2 p5_3 p5_4 p5_5 F0 F1 F2 F3 F4 F5 F6 F7 F8 T0 T1 T2 T3 T4 T5) (Gen3S.N3_L_toPK2_S5 c c3 fn vp0 vp1 vp2 m00 m01 m02 m10 m11 m12 m20 m21 m22 e0 e1 e2 p0_0 p0_1 p0_2 p0_3 p0_4 p0_5 p1_0 p1_1 p1_2 p1_3 p1_4 p1_5 p2_0 p2_1 p2_2 p2_3 p2_4 p2_5 p3_0 p3_1 p3_2 p3_3 p3_4 p3_5 p4_0 p4_1 p4_2 p4_3 p4_4 p4_5 p5_0 p5_1 p5_2 p5_3 p5_4 p5_5 F0 F1 F2 F3 F4 F5 F6 F7 F8 T0 T1 T2 T3 T4 T5) ip0_0 ip0_1 ip0_2 ip0_3 ip0_4 ip0_5 ip1_0 ip1_1 ip1_2 ip1_3 ip1_4 ip1_5 ip2_0 ip2_1 ip2_2 ip2_3 ip2_4 ip2_5 ip3_0 ip3_1 ip3_2 ip3_3 ip3_4 ip3_5 ip4_0 ip4_1 ip4_2 ip4_3 ip4_4 ip4_5 ip5_0 ip5_1 ip5_2 ip5_3 ip5_4 ip5_5, Gen3S.N3_L_fromPK2_T3 c c3 fn vp0 vp1 vp2 m00 m01 m02 m10 m11 m12 m20 m21 m22 e0 e1 e2 p0_0 p0_1 p0_2 p0_3 p0_4 p0_5 p1_0 p1_1 p1_2 p1_3 p1_4 p1_5 p2_0 p2_1 p2_2 p2_3 p2_4 p2_5 p3_0 p3_1 p3_2 p3_3 p3_4 p3_5 p4_0 p4_1 p4_2 p4_3 p4_4 p4_5 p5_0 p5_1 p5_2 p5_3 p5_4 p5_5 F0 F1 F2 F3 F4 F5 F6 F7 F8 (Gen3S.N3_L_toPK2_S0 c c3 fn vp0 vp1 vp2 m00 m01 m02 m10 m11 m12 m20 m21 m22 e0 e1 e2 p0_0 p0_1 p0_2 p0_3 p0_4 p0_5 p1_0 p1_1 p1_2 p1_3 p1_4 p1_5 p2_0 p2_1 p2_2 p2_3 p2_4 p2_5 p3_0 p3_1 p3_2 p3_3 p3_4 p3_5 p4_0 p4_1 p4_2 p4_3 p4_4 p4_5 p5_0 p5_1 p5_2 p5_3 p5_4 p5_5 F0 F1 F2 F3 F4 F5 F6 F7 F8 T0 T1 T2 T3 T4 T5) (Gen3S.N3_L_toPK2_S1 c c3 fn vp0 vp1 vp2 m00 m01 m02 m10 m11 m12 m20 m21 m22 e0 e1 e2 p0_0 p0_1 p0_2 p0_3 p0_4 p0_5 p1_0 p1_1 p1_2 p1_3 p1_4 p1_5 p2_0 p2_1 p2_2 p2_3 p2_4 p2_5 p3_0 p3_1 p3_2 p3_3 p3_4 p3_5 p4_0 p4_1 p4_2 p4_3 p4_4 p4_5 p5_0 p5_1 p5_2 p5_3 p5_4 p5_5 F0 F1 F2 F3 F4 F5 F6 F7 F8 T0 T1 T2 T3 T4 T5) (Gen3S.N3_L_toPK2_S2 c c3 fn vp0 vp1 vp2 m00 m01 m02 m10 m11 m12 m20 m21 m22 e0 e1 e2 p0_0 p0_1 p0_2 p0_3 p0_4 p0_5 p1_0 p1_1 p1_2 p1_3 p1_4 p1_5 p2_0 p2_1 p2_2 p2_3 p2_4 p2_5 p3_0 p3_1 p3_2 p3_3 p3_4 p3_5 p4_0 p4_1 p4_2 p4_3 p4_4 p4_5 p5_0 p5_1 p5_2 p5_3 p5_4 p5_5 F0 F1 F2 F3 F4 F5 F6 F7 F8 T0 T1 T2 T3 T4 T5) (Gen3S.N3_L_toPK2_S3 c c3 fn vp0 vp1 vp2 m00 m01 m02 m10 m11 m12 m20 m21 m22 e0 e1 e2 p0_0 p0_1 p0_2 p0_3 p0_4 p0_5 p1_0 p1_1 p1_2 p1_3 p1_4 p1_5 p2_0 p2_1 p2_2 p2_3 p2_4 p2_5 p3_0 p3_1 p3_2 p3_3 p3_4 p3_5 p4_0 p4_1 p4_2 p4_3 p4_4 p4_5 p5_0 p5_1 p5_2 p5_3 p5_4 p5_5 F0 F1 F2 F3 F4 F5 F6 F7 F8 T0 T1 T2 T3 T4 T5) (Gen3S.N3_L_toPK2_S4 c c3 fn vp0 vp1 vp2 m00 m01 m02 m10 m11 m12 m20 m21 m22 e0 e1 e2 p0_0 p0_1 p0_2 p0_3 p0_4 p0_5 p1_0 p1_1 p1_2 p1_3 p1_4 p1_5 p2_0 p2_1 p2_2 p2_3 p2_4 p2_5 p3_0 p3_1 p3_2 p3_3 p3_4 p3_5 p4_0 p4_1 p4_2 p4_3 p4_4 p4_5 p5_0 p5_1 p5_2 p5_3 p5_4 p5_5 F0 F1 F2 F3 F4 F5 F6 F7 F8 T0 T1 T2 T3 T4 T5) (Gen3S.N3_L_toPK2_S5 c c3 fn vp0 vp1 vp2 m00 m01 m02 m10 m11 m12 m20 m21 m22 e0 e1 e2 p0_0 p0_1 p0_2 p0_3 p0_4 p0_5 p1_0 p1_1 p1_2 p1_3 p1_4 p1_5 p2_0 p2_1 p2_2 p2_3 p2_4 p2_5 p3_0 p3_1 p3_2 p3_3 p3_4 p3_5 p4_0 p4_1 p4_2 p4_3 p4_4 p4_5 p5_0 p5_1 p5_2 p5_3 p5_4 p5_5 F0 F1 F2 F3 F4 F5 F6 F7 F8 T0 T1 T2 T3 T4 T5) ip0_0 ip0_1 ip0_2 ip0_3 ip0_4 ip0_5 ip1_0 ip1_1 ip1_2 ip1_3 ip1_4 ip1_5 ip2_0 ip2_1 ip2_2 ip2_3 ip2_4 ip2_5 ip3_0 ip3_1 ip3_2 ip3_3 ip3_4 ip3_5 ip4_0 ip4_1 ip4_2 ip4_3 ip4_4 ip4_5 ip5_0 ip5_1 ip5_2 ip5_3 ip5_4 ip5_5, Gen3S.N3_L_fromPK2_T4 c c3 fn vp0 vp1 vp2 m00 m01 m02 m10 m11 m12 m20 m21 m22 e0 e1 e2 p0_0 p0_1 p0_2 p0_3 p0_4 p0_5 p1_0 p1_1 p1_2 p1_3 p1_4 p1_5 p2_0 p2_1 p2_2 p2_3 p2_4 p2_5 p3_0 p3_1 p3_2 p3_3 p3_4 p3_5 p4_0 p4_1 p4_2 p4_3 p4_4 p4_5 p5_0 p5_1 p5_2 p5_3 p5_4 p5_5 F0 F1 F2 F3 F4 F5 F6 F7 F8 (Gen3S.N3_L_toPK2_S0 c c3 fn vp0 vp1 vp2 m00 m01 m02 m10 m11 m12 m20 m21 m22 e0 e1 e2 p0_0 p0_1 p0_2 p0_3 p0_4 p0_5 p1_0 p1_1 p1_2 p1_3 p1_4 p1_5 p2_0 p2_1 p2_2 p2_3 p2_4 p2_5 p3_0 p3_1 p3_2 p3_3 p3_4 p3_5 p4_0 p4_1 p4_2 p4_3 p4_4 p4_5 p5_0 p5_1 p5_2 p5_3 p5_4 p5_5 F0 F1 F2 F3 F4 F5 F6 F7 F8 T0 T1 T2 T3 T4 T5) (Gen3S.N3_L_toPK2_S1 c c3 fn vp0 vp1 vp2 m00 m01 m02 m10 m11 m12 m20 m21 m22 e0 e1 e2 p0_0 p0_1 p0_2 p0_3 p0_4 p0_5 p1_0 p1_1 p1_2 p1_3 p1_4 p1_5 p2_0 p2_1 p2_2 p2_3 p2_4 p2_5 p3_0 p3_1 p3_2 p3_3 p3_4 p3_5 p4_0 p4_1 p4_2 p4_3 p4_4 p4_5 p5_0 p5_1 p5_2 p5_3 p5_4 p5_5 F0 F1 F2 F3 F4 F5 F6 F7 F8 T0 T1 T2 T3 T4 T5) (Gen3S.N3_L_toPK2_S2 c c3 fn vp0 vp1 vp2 m00 m01 m02 m10 m11 m12 m20 m21 m22 e0 e1 e2 p0_0 p0_1 p0_2 p0_3 p0_4 p0_5 p1_0 p1_1 p1_2 p1_3 p1_4 p1_5 p2_0 p2_1 p2_2 p2_3 p2_4 p2_5 p3_0 p3_1 p3_2 p3_3 p3_4 p3_5 p4_0 p4_1 p4_2 p4_3 p4_4 p4_5 p5_0 p5_1 p5_2 p5_3 p5_4 p5_5 F0 F1 F2 F3 F4 F5 F6 F7 F8 T0 T1 T2 T3 T4 T5) (Gen3S.N3_L_toPK2_S3 c c3 fn vp0 vp1 vp2 m00 m01 m02 m10 m11 m12 m20 m21 m22 e0 e1 e2 p0_0 p0_1 p0_2 p0_3 p0_4 p0_5 p1_0 p1_1 p1_2 p1_3 p1_4 p1_5 p2_0 p2_1 p2_2 p2_3 p2_4 p2_5 p3_0 p3_1 p3_2 p3_3 p3_4 p3_5 p4_0 p4_1 p4_2 p4_3 p4_4 p4_5 p5_0 p5_1 p5_2 p5_3 p5_4 p5_5 F0 F1 F2 F3 F4 F5 F6 F7 F8 T0 T1 T2 T3 T4 T5) (Gen3S.N3_L_toPK2_S4 c c3 fn vp0 vp1 vp2 m00 m01 m02 m10 m11 m12 m20 m21 m22 e0 e1 e2 p0_0 p0_1 p0_2 p0_3 p0_4 p0_5 p1_0 p1_1 p1_2 p1_3 p1_4 p1_5 p2_0 p2_1 p2_2 p2_3 p2_4 p2_5 p3_0 p3_1 p3_2 p3_3 p3_4 p3_5 p4_0 p4_1 p4_2 p4_3 p4_4 p4_5 p5_0 p5_1 p5_2 p5_3 p5_4 p5_5 F0 F1 F2 F3 F4 F5 F6 F7 F8 T0 T1 T2 T3 T4 T5) (Gen3S.N3_L_toPK2_S5 c c3 fn vp0 vp1 vp2 m00 m01 m02 m10 m11 m12 m20 m21 m22 e0 e1 e2 p0_0 p0_1 p0_2 p0_3 p0_4 p0_5 p1_0 p1_1 p1_2 p1_3 p1_4 p1_5 p2_0 p2_1 p2_2 p2_3 p2_4 p2_5 p3_0 p3_1 p3_2 p3_3 p3_4 p3_5 p4_0 p4_1 p4_2 p4_3 p4_4 p4_5 p5_0 p5_1 p5_2 p5_3 p5_4 p5_5 F0 F1 F2 F3 F4 F5 F6 F7 F8 T0 T1 T2 T3 T4 T5) ip0_0 ip0_1 ip0_2 ip0_3 ip0_4 ip0_5 ip1_0 ip1_1 ip1_2 ip1_3 ip1_4 ip1_5 ip2_0 ip2_1 ip2_2 ip2_3 ip2_4 ip2_5 ip3_0 ip3_1 ip3_2 ip3_3 ip3_4 ip3_5 ip4_0 ip4_1 ip4_2 ip4_3 ip4_4 ip4_5 ip5_0 ip5_1 ip5_2 ip5_3 ip5_4 ip5_5, Gen3S.N3_L_fromPK2_T5 c c3 fn vp0 vp1 vp2 m00 m01 m02 m10 m11 m12 m20 m21 m22 e0 e1 e2 p0_0 p0_1 p0_2 p0_3 p0_4 p0_5 p1_0 p1_1 p1_2 p1_3 p1_4 p1_5 p2_0 p2_1 p2_2 p2_3 p2_4 p2_5 p3_0 p3_1 p3_2 p3_3 p3_4 p3_5 p4_0 p4_1 p4_2 p4_3 p4_4 p4_5 p5_0 p5_1 p5_2 p5_3 p5_4 p5_5 F0 F1 F2 F3 F4 F5 F6 F7 F8 (Gen3S.N3_L_toPK2_S0 c c3 fn vp0 vp1 vp2 m00 m01 m02 m10 m11 m12 m20 m21 m22 e0 e1 e2 p0_0 p0_1 p0_2 p0_3 p0_4 p0_5 p1_0 p1_1 p1_2 p1_3 p1_4 p1_5 p2_0 p2_1 p2_2 p2_3 p2_4 p2_5 p3_0 p3_1 p3_2 p3_3 p3_4 p3_5 p4_0 p4_1 p4_2 p4_3 p4_4 p4_5 p5_0 p5_1 p5_2 p5_3 p5_4 p5_5 F0 F1 F2 F3 F4 F5 F6 F7 F8 T0 T1 T2 T3 T4 T5) (Gen3S.N3_L_toPK2_S1 c c3 fn vp0 vp1 vp2 m00 m01 m02 m10 m11 m12 m20 m21 m22 e0 e1 e2 p0_0 p0_1 p0_2 p0_3 p0_4 p0_5 p1_0 p1_1 p1_2 p1_3 p1_4 p1_5 p2_0 p2_1 p2_2 p2_3 p2_4 p2_5 p3_0 p3_1 p3_2 p3_3 p3_4 p3_5 p4_0 p4_1 p4_2 p4_3 p4_4 p4_5 p5_0 p5_1 p5_2 p5_3 p5_4 p5_5 F0 F1 F2 F3 F4 F5 F6 F7 F8 T0 T1 T2 T3 T4 T5) (Gen3S.N3_L_toPK2_S2 c c3 fn vp0 vp1 vp2 m00 m01 m02 m10 m11 m12 m20 m21 m22 e0 e1 e2 p0_0 p0_1 p0_2 p0_3 p0_4 p0_5 p1_0 p1_1 p1_2 p1_3 p1_4 p1_5 p2_0 p2_1 p2_2 p2_3 p2_4 p2_5 p3_0 p3_1 p3_2 p3_3 p3_4 p3_5 p4_0 p4_1 p4_2 p4_3 p4_4 p4_5 p5_0 p5_1 p5_2 p5_3 p5_4 p5_5 F0 F1 F2 F3 F4 F5 F6 F7 F8 T0 T1 T2 T3 T4 T5) (Gen3S.N3_L_toPK2_S3 c c3 fn vp0 vp1 vp2 m00 m01 m02 m10 m11 m12 m20 m21 m22 e0 e1 e2 p0_0 p0_1 p0_2 p0_3 p0_4 p0_5 p1_0 p1_1 p1_2 p1_3 p1_4 p1_5 p2_0 p2_1 p2_2 p2_3 p2_4 p2_5 p3_0 p3_1 p3_2 p3_3 p3_4 p3_5 p4_0 p4_1 p4_2 p4_3 p4_4 p4_5 p5_0 p5_1 p5_2 p5_3 p5_4 p5_5 F0 F1 F2 F3 F4 F5 F6 F7 F8 T0 T1 T2 T3 T4 T5) (Gen3S.N3_L_toPK2_S4 c c3 fn vp0 vp1 vp2 m00 m01 m02 m10 m11 m12 m20 m21 m22 e0 e1 e2 p0_0 p0_1 p0_2 p0_3 p0_4 p0_5 p1_0 p1_1 p1_2 p1_3 p1_4 p1_5 p2_0 p2_1 p2_2 p2_3 p2_4 p2_5 p3_0 p3_1 p3_2 p3_3 p3_4 p3_5 p4_0 p4_1 p4_2 p4_3 p4_4 p4_5 p5_0 p5_1 p5_2 p5_3 p5_4 p5_5 F0 F1 F2 F3 F4 F5 F6 F7 F8 T0 T1 T2 T3 T4 T5) (Gen3S.N3_L_toPK2_S5 c c3 fn vp0 vp1 vp2 m00 m01 m02 m10 m11 m12 m20 m21 m22 e0 e1 e2 p0_0 p0_1 p0_2 p0_3 p0_4 p0_5 p1_0 p1_1 p1_2 p1_3 p1_4 p1_5 p2_0 p2_1 p2_2 p2_3 p2_4 p2_5 p3_0 p3_1 p3_2 p3_3 p3_4 p3_5 p4_0 p4_1 p4_2 p4_3 p4_4 p4_5 p5_0 p5_1 p5_2 p5_3 p5_4 p5_5 F0 F1 F2 F3 F4 F5 F6 F7 F8 T0 T1 T2 T3 T4 T5) ip0_0 ip0_1 ip0_2 ip0_3 ip0_4 ip0_5 ip1_0 ip1_1 ip1_2 ip1_3 ip1_4 ip1_5 ip2_0 ip2_1 ip2_2 ip2_3 ip2_4 ip2_5 ip3_0 ip3_1 ip3_2 ip3_3 ip3_4 ip3_5 ip4_0 ip4_1 ip4_2 ip4_3 ip4_4 ip4_5 ip5_0 ip5_1 ip5_2 ip5_3 ip5_4 ip5_5]
    = [T0, T1, T2, T3, T4, T5] := by
  have h00 := hinv 0 0
  have h01 := hinv 0 1
  have h02 := hinv 0 2
  have h03 := hinv 0 3
  have h04 := hinv 0 4
  have h05 := hinv 0 5
  have h10 := hinv 1 0
  have h11 := hinv 1 1
  have h12 := hinv 1 2
  have h13 := hinv 1 3
  have h14 := hinv 1 4
  have h15 := hinv 1 5
  have h20 := hinv 2 0
  have h21 := hinv 2 1
  have h22 := hinv 2 2
  have h23 := hinv 2 3
  have h24 := hinv 2 4
  have h25 := hinv 2 5
  have h30 := hinv 3 0
  have h31 := hinv 3 1
  have h32 := hinv 3 2
  have h33 := hinv 3 3
  have h34 := hinv 3 4
  have h35 := hinv 3 5
  have h40 := hinv 4 0
  have h41 := hinv 4 1
  have h42 := hinv 4 2
  have h43 := hinv 4 3
  have h44 := hinv 4 4
  have h45 := hinv 4 5
  have h50 := hinv 5 0
  have h51 := hinv 5 1
  have h52 := hinv 5 2
  have h53 := hinv 5 3
  have h54 := hinv 5 4
  have h55 := hinv 5 5
  simp only [P, IP, dot6, mat6, vec6, Fin.isValue, Fin.reduceEq, if_true, if_false, reduceIte] at h00 h01 h02 h03 h04 h05 h10 h11 h12 h13 h14 h15 h20 h21 h22 h23 h24 h25 h30 h31 h32 h33 h34 h35 h40 h41 h42 h43 h44 h45 h50 h51 h52 h53 h54 h55
  simp only [gen_simp, List.cons.injEq, and_true]
  refine ⟨?_, ?_, ?_, ?_, ?_, ?_⟩
  · linear_combination T0 * h00 + T1 * h10 + T2 * h20 + T3 * h30 + T4 * h40 + T5 * h50
  · linear_combination T0 * h01 + T1 * h11 + T2 * h21 + T3 * h31 + T4 * h41 + T5 * h51
  · linear_combination T0 * h02 + T1 * h12 + T2 * h22 + T3 * h32 + T4 * h42 + T5 * h52
  · linear_combination T0 * h03 + T1 * h13 + T2 * h23 + T3 * h33 + T4 * h43 + T5 * h53
  · linear_combination T0 * h04 + T1 * h14 + T2 * h24 + T3 * h34 + T4 * h44 + T5 * h54
  · linear_combination T0 * h05 + T1 * h15 + T2 * h25 + T3 * h35 + T4 * h45 + T5 * h55
end roundtrip

end TfelVerif.C24.Props3S
