/-
  C23 — helper lemmas and tactics (no property theorem here).
-/
import TfelVerif.Common.M3
import TfelVerif.C23.Spec

namespace TfelVerif.C23
open TfelVerif TfelVerif.Mandel
set_option linter.unusedVariables false
variable {K : Type} [Field K]

/-- unfold generated definitions and the specification vocabulary down to field expressions -/
macro "c23_unfold" loc:(Lean.Parser.Tactic.location)? : tactic =>
  `(tactic| simp only [gen_simp, tensv, mandv, dot, act, rowsOf, i3, i4, i5, i6, i9, List.map, plane, dg,
      upper, lower, symLower, symm, dE, dC, kirch, lamS, lamSM, lamTr, lamJ, lamAb, lamTau, lamSig, lamP,
      M3.mandel3, M3.mandel2, M3.mandel1, M3.ofMandel, M3.tens3, M3.tens2, M3.tens1,
      M3.ofTens, M3.sym, M3.diag, M3.mul_def, M3.mul, M3.one_def, M3.one, M3.add_def, M3.add, M3.sub_def, M3.sub,
      M3.smul_def, M3.smul, M3.transpose, M3.outer, M3.trace, M3.det, M3.frob, M3.mk.injEq,
      List.cons.injEq, and_true, true_and, mul_zero, zero_mul, add_zero, zero_add, sub_zero, mul_one, one_mul] $[$loc]?)

/-- close a polynomial identity modulo `hc : c * c = 2` -/
macro "c23_ring" hc:term : tactic =>
  `(tactic| first
      | rfl
      | ring1
      | (ring_nf; (try c_powers $hc); first | done | ring1))

/-- same for a rational identity: denominators cleared with the `≠ 0` facts in context -/
macro "c23_field" hc:term : tactic =>
  `(tactic| first
      | rfl
      | (field_simp <;> first | ring1 | (ring_nf; (try c_powers $hc); first | done | ring1)))

/-- all components of a list / matrix equality, polynomial case -/
macro "c23_poly" hc:term : tactic =>
  `(tactic| (c23_unfold; (try (repeat' apply And.intro)); all_goals (c23_ring $hc)))

/-- all components, rational case with the traced denominator `hd : den ≠ 0` made an atom -/
macro "c23_rat" hc:term " with " hd:ident : tactic =>
  `(tactic| ((try c23_unfold at $hd:ident); c23_unfold; generalize_ne $hd => e he
             (try (repeat' apply And.intro))
             all_goals (first | rfl | (field_simp <;> (try simp only [← he]) <;> c23_ring $hc))))

/-- all components, rational case with atomic denominators already in context -/
macro "c23_rat0" hc:term : tactic =>
  `(tactic| (c23_unfold; (try (repeat' apply And.intro)); all_goals (c23_field $hc)))

/-! ### determinant facts for the restricted shapes -/
theorem plane_det (f0 f1 f2 f3 f4 : K) : (plane f0 f1 f2 f3 f4).det = (f0 * f1 - f3 * f4) * f2 := by
  simp only [plane, M3.det]; ring
theorem plane_det_ne {f0 f1 f2 f3 f4 : K} (h : (plane f0 f1 f2 f3 f4).det ≠ 0) :
    f0 * f1 - f3 * f4 ≠ 0 ∧ f2 ≠ 0 := by
  rw [plane_det] at h
  exact ⟨left_ne_zero_of_mul h, right_ne_zero_of_mul h⟩
theorem dg_det (f0 f1 f2 : K) : (dg f0 f1 f2).det = f0 * f1 * f2 := by
  simp only [dg, M3.det]; ring
theorem dg_det_ne {f0 f1 f2 : K} (h : (dg f0 f1 f2).det ≠ 0) : f0 ≠ 0 ∧ f1 ≠ 0 ∧ f2 ≠ 0 := by
  rw [dg_det] at h
  exact ⟨left_ne_zero_of_mul (left_ne_zero_of_mul h), right_ne_zero_of_mul (left_ne_zero_of_mul h),
    right_ne_zero_of_mul h⟩


/-! ### a little algebra of explicit 3×3 matrices (cancellation by an invertible matrix) -/
/-- all components of an `M3` identity that is a plain polynomial identity -/
macro "m3_poly" : tactic =>
  `(tactic| (c23_unfold; (try (repeat' apply And.intro)); all_goals ring1))

/-- adjugate (transposed cofactor matrix) -/
def adj (A : M3 K) : M3 K :=
  ⟨A.a11 * A.a22 - A.a12 * A.a21, A.a02 * A.a21 - A.a01 * A.a22, A.a01 * A.a12 - A.a02 * A.a11,
   A.a12 * A.a20 - A.a10 * A.a22, A.a00 * A.a22 - A.a02 * A.a20, A.a02 * A.a10 - A.a00 * A.a12,
   A.a10 * A.a21 - A.a11 * A.a20, A.a01 * A.a20 - A.a00 * A.a21, A.a00 * A.a11 - A.a01 * A.a10⟩
theorem adj_mul (A : M3 K) : adj A * A = A.det • (1 : M3 K) := by
  obtain ⟨a00,a01,a02,a10,a11,a12,a20,a21,a22⟩ := A; simp only [adj]; m3_poly
theorem mul_adj (A : M3 K) : A * adj A = A.det • (1 : M3 K) := by
  obtain ⟨a00,a01,a02,a10,a11,a12,a20,a21,a22⟩ := A; simp only [adj]; m3_poly
theorem m3_mul_assoc (A B C : M3 K) : A * B * C = A * (B * C) := by
  obtain ⟨a00,a01,a02,a10,a11,a12,a20,a21,a22⟩ := A
  obtain ⟨b00,b01,b02,b10,b11,b12,b20,b21,b22⟩ := B
  obtain ⟨c00,c01,c02,c10,c11,c12,c20,c21,c22⟩ := C
  m3_poly
theorem smul_one_mul (k : K) (X : M3 K) : (k • (1 : M3 K)) * X = k • X := by
  obtain ⟨a00,a01,a02,a10,a11,a12,a20,a21,a22⟩ := X; m3_poly
theorem mul_smul_one (k : K) (X : M3 K) : X * (k • (1 : M3 K)) = k • X := by
  obtain ⟨a00,a01,a02,a10,a11,a12,a20,a21,a22⟩ := X; m3_poly
theorem smul_cancel {k : K} (hk : k ≠ 0) {A B : M3 K} (h : k • A = k • B) : A = B := by
  obtain ⟨a00,a01,a02,a10,a11,a12,a20,a21,a22⟩ := A
  obtain ⟨b00,b01,b02,b10,b11,b12,b20,b21,b22⟩ := B
  simp only [M3.smul_def, M3.smul, M3.mk.injEq] at h ⊢
  obtain ⟨h0,h1,h2,h3,h4,h5,h6,h7,h8⟩ := h
  exact ⟨mul_left_cancel₀ hk h0, mul_left_cancel₀ hk h1, mul_left_cancel₀ hk h2, mul_left_cancel₀ hk h3,
    mul_left_cancel₀ hk h4, mul_left_cancel₀ hk h5, mul_left_cancel₀ hk h6, mul_left_cancel₀ hk h7,
    mul_left_cancel₀ hk h8⟩
theorem mul_left_cancel_det {F X Y : M3 K} (hJ : F.det ≠ 0) (h : F * X = F * Y) : X = Y := by
  have e : adj F * (F * X) = adj F * (F * Y) := by rw [h]
  rw [← m3_mul_assoc, ← m3_mul_assoc, adj_mul, smul_one_mul, smul_one_mul] at e
  exact smul_cancel hJ e
theorem mul_right_cancel_det {F X Y : M3 K} (hJ : F.det ≠ 0) (h : X * F = Y * F) : X = Y := by
  have e : X * F * adj F = Y * F * adj F := by rw [h]
  rw [m3_mul_assoc, m3_mul_assoc, mul_adj, mul_smul_one, mul_smul_one] at e
  exact smul_cancel hJ e
theorem det_transpose (A : M3 K) : A.transpose.det = A.det := by
  obtain ⟨a00,a01,a02,a10,a11,a12,a20,a21,a22⟩ := A; simp only [M3.transpose, M3.det]; ring

/-! ### linearity of the action in the stored second-order object -/
theorem dot_add (r v w : List K) (h : v.length = w.length) :
    dot r (List.zipWith (· + ·) v w) = dot r v + dot r w := by
  induction r generalizing v w with
  | nil => simp [dot]
  | cons a as ih =>
    cases v with
    | nil => cases w with
      | nil => simp [dot]
      | cons b bs => simp at h
    | cons x xs => cases w with
      | nil => simp at h
      | cons b bs =>
        simp only [List.length_cons, Nat.add_right_cancel_iff] at h
        simp only [List.zipWith_cons_cons, dot, ih xs bs h]; ring

end TfelVerif.C23
