/-
  C23 — helper lemmas and tactics (no property theorem here).
-/
import TfelVerif.Common.M3
import TfelVerif.C23.Spec

namespace TfelVerif.C23
open TfelVerif TfelVerif.Mandel
set_option linter.unusedVariables false
variable {K : Type} [Field K]

/-- unfold generated definitions and the specification vocabulary down to field expressions -/
macro "c23_unfold" loc:(Lean.Parser.Tactic.location)? : tactic =>
  `(tactic| simp only [gen_simp, tensv, mandv, dot, act, rowsOf, i3, i4, i5, i6, i9, List.map, plane, dg,
      upper, lower, symLower, symm, dE, dC, kirch, lamS, lamSM, lamTr, lamJ, lamAb, lamTau, lamSig, lamP,
      M3.mandel3, M3.mandel2, M3.mandel1, M3.ofMandel, M3.tens3, M3.tens2, M3.tens1,
      M3.ofTens, M3.sym, M3.diag, M3.mul_def, M3.mul, M3.one_def, M3.one, M3.add_def, M3.add, M3.sub_def, M3.sub,
      M3.smul_def, M3.smul, M3.transpose, M3.outer, M3.trace, M3.det, M3.frob, M3.mk.injEq,
      List.cons.injEq, and_true, true_and, mul_zero, zero_mul, add_zero, zero_add, sub_zero, mul_one, one_mul] $[$loc]?)

/-- close a polynomial identity modulo `hc : c * c = 2` -/
macro "c23_ring" hc:term : tactic =>
  `(tactic| first
      | rfl
      | ring1
      | (ring_nf; (try c_powers $hc); first | done | ring1))

/-- same for a rational identity: denominators cleared with the `≠ 0` facts in context -/
macro "c23_field" hc:term : tactic =>
  `(tactic| first
      | rfl
      | (field_simp <;> first | ring1 | (ring_nf; (try c_powers $hc); first | done | ring1))
      | c23_ring $hc)

/-- all components of a list / matrix equality, polynomial case -/
macro "c23_poly" hc:term : tactic =>
  `(tactic| (c23_unfold; (try (repeat' apply And.intro)); all_goals (c23_ring $hc)))

/-- all components, rational case with the traced denominator `hd : den ≠ 0` made an atom -/
macro "c23_rat" hc:term " with " hd:ident : tactic =>
  `(tactic| ((try c23_unfold at $hd:ident); c23_unfold; generalize_ne $hd => e he
             (try (repeat' apply And.intro))
             all_goals (first | rfl | (field_simp <;> (try simp only [← he]) <;> c23_field $hc))))

/-- all components, rational case with atomic denominators already in context -/
macro "c23_rat0" hc:term : tactic =>
  `(tactic| (c23_unfold; (try (repeat' apply And.intro)); all_goals (c23_field $hc)))

/-- variants for goals known to involve `c`: normalise, rewrite the powers of `c`, compare (no first
attempt with plain `ring1`, which would fail after a full normalisation) -/
macro "c23_ringc" hc:term : tactic =>
  `(tactic| first
      | rfl
      | (ring_nf; (try c_powers $hc); first | done | ring1))
macro "c23_fieldc" hc:term : tactic =>
  `(tactic| first
      | rfl
      | (field_simp <;> (ring_nf; (try c_powers $hc); first | done | ring1))
      | c23_ringc $hc)
/-- all components, rational case with atomic denominators already in context, goals involving `c` -/
macro "c23_rat0c" hc:term : tactic =>
  `(tactic| (c23_unfold; (try (repeat' apply And.intro)); all_goals (c23_fieldc $hc)))

/-! ### determinant facts for the restricted shapes -/
theorem plane_det (f0 f1 f2 f3 f4 : K) : (plane f0 f1 f2 f3 f4).det = (f0 * f1 - f3 * f4) * f2 := by
  simp only [plane, M3.det]; ring
theorem plane_det_ne {f0 f1 f2 f3 f4 : K} (h : (plane f0 f1 f2 f3 f4).det ≠ 0) :
    f0 * f1 - f3 * f4 ≠ 0 ∧ f2 ≠ 0 := by
  rw [plane_det] at h
  exact ⟨left_ne_zero_of_mul h, right_ne_zero_of_mul h⟩
theorem dg_det (f0 f1 f2 : K) : (dg f0 f1 f2).det = f0 * f1 * f2 := by
  simp only [dg, M3.det]; ring
theorem dg_det_ne {f0 f1 f2 : K} (h : (dg f0 f1 f2).det ≠ 0) : f0 ≠ 0 ∧ f1 ≠ 0 ∧ f2 ≠ 0 := by
  rw [dg_det] at h
  exact ⟨left_ne_zero_of_mul (left_ne_zero_of_mul h), right_ne_zero_of_mul (left_ne_zero_of_mul h),
    right_ne_zero_of_mul h⟩


/-! ### a little algebra of explicit 3×3 matrices (cancellation by an invertible matrix) -/
/-- all components of an `M3` identity that is a plain polynomial identity -/
macro "m3_poly" : tactic =>
  `(tactic| (c23_unfold; (try (repeat' apply And.intro)); all_goals ring1))

/-- adjugate (transposed cofactor matrix) -/
def adj (A : M3 K) : M3 K :=
  ⟨A.a11 * A.a22 - A.a12 * A.a21, A.a02 * A.a21 - A.a01 * A.a22, A.a01 * A.a12 - A.a02 * A.a11,
   A.a12 * A.a20 - A.a10 * A.a22, A.a00 * A.a22 - A.a02 * A.a20, A.a02 * A.a10 - A.a00 * A.a12,
   A.a10 * A.a21 - A.a11 * A.a20, A.a01 * A.a20 - A.a00 * A.a21, A.a00 * A.a11 - A.a01 * A.a10⟩
theorem adj_mul (A : M3 K) : adj A * A = A.det • (1 : M3 K) := by
  obtain ⟨a00,a01,a02,a10,a11,a12,a20,a21,a22⟩ := A; simp only [adj]; m3_poly
theorem mul_adj (A : M3 K) : A * adj A = A.det • (1 : M3 K) := by
  obtain ⟨a00,a01,a02,a10,a11,a12,a20,a21,a22⟩ := A; simp only [adj]; m3_poly
theorem m3_mul_assoc (A B C : M3 K) : A * B * C = A * (B * C) := by
  obtain ⟨a00,a01,a02,a10,a11,a12,a20,a21,a22⟩ := A
  obtain ⟨b00,b01,b02,b10,b11,b12,b20,b21,b22⟩ := B
  obtain ⟨c00,c01,c02,c10,c11,c12,c20,c21,c22⟩ := C
  m3_poly
theorem smul_one_mul (k : K) (X : M3 K) : (k • (1 : M3 K)) * X = k • X := by
  obtain ⟨a00,a01,a02,a10,a11,a12,a20,a21,a22⟩ := X; m3_poly
theorem mul_smul_one (k : K) (X : M3 K) : X * (k • (1 : M3 K)) = k • X := by
  obtain ⟨a00,a01,a02,a10,a11,a12,a20,a21,a22⟩ := X; m3_poly
theorem smul_cancel {k : K} (hk : k ≠ 0) {A B : M3 K} (h : k • A = k • B) : A = B := by
  obtain ⟨a00,a01,a02,a10,a11,a12,a20,a21,a22⟩ := A
  obtain ⟨b00,b01,b02,b10,b11,b12,b20,b21,b22⟩ := B
  simp only [M3.smul_def, M3.smul, M3.mk.injEq] at h ⊢
  obtain ⟨h0,h1,h2,h3,h4,h5,h6,h7,h8⟩ := h
  exact ⟨mul_left_cancel₀ hk h0, mul_left_cancel₀ hk h1, mul_left_cancel₀ hk h2, mul_left_cancel₀ hk h3,
    mul_left_cancel₀ hk h4, mul_left_cancel₀ hk h5, mul_left_cancel₀ hk h6, mul_left_cancel₀ hk h7,
    mul_left_cancel₀ hk h8⟩
theorem mul_left_cancel_det {F X Y : M3 K} (hJ : F.det ≠ 0) (h : F * X = F * Y) : X = Y := by
  have e : adj F * (F * X) = adj F * (F * Y) := by rw [h]
  rw [← m3_mul_assoc, ← m3_mul_assoc, adj_mul, smul_one_mul, smul_one_mul] at e
  exact smul_cancel hJ e
theorem mul_right_cancel_det {F X Y : M3 K} (hJ : F.det ≠ 0) (h : X * F = Y * F) : X = Y := by
  have e : X * F * adj F = Y * F * adj F := by rw [h]
  rw [m3_mul_assoc, m3_mul_assoc, mul_adj, mul_smul_one, mul_smul_one] at e
  exact smul_cancel hJ e
theorem det_transpose (A : M3 K) : A.transpose.det = A.det := by
  obtain ⟨a00,a01,a02,a10,a11,a12,a20,a21,a22⟩ := A; simp only [M3.transpose, M3.det]; ring


/-! ### symmetric matrices, transposes (used by the pull-back chain) -/
theorem transpose_mul (A B : M3 K) : (A * B).transpose = B.transpose * A.transpose := by
  obtain ⟨a00,a01,a02,a10,a11,a12,a20,a21,a22⟩ := A
  obtain ⟨b00,b01,b02,b10,b11,b12,b20,b21,b22⟩ := B
  m3_poly
theorem transpose_one : (1 : M3 K).transpose = 1 := by m3_poly
theorem m3_one_mul (A : M3 K) : 1 * A = A := by
  obtain ⟨a00,a01,a02,a10,a11,a12,a20,a21,a22⟩ := A; m3_poly
theorem m3_mul_one (A : M3 K) : A * 1 = A := by
  obtain ⟨a00,a01,a02,a10,a11,a12,a20,a21,a22⟩ := A; m3_poly
theorem ofMandel_symm (c : K) (l : List K) : (M3.ofMandel c l).transpose = M3.ofMandel c l := by
  unfold M3.ofMandel; split <;> rfl
theorem symLower_smul_ofMandel (k c : K) (l : List K) : symLower (k • M3.ofMandel c l) = k • M3.ofMandel c l := by
  unfold M3.ofMandel; split <;> simp only [symLower, M3.sym, M3.smul_def, M3.smul]
/-- a symmetric matrix is determined by its upper triangle -/
theorem eq_of_upper {A B : M3 K} (hA : A.transpose = A) (hB : B.transpose = B) (h : upper A = upper B) : A = B := by
  obtain ⟨a00,a01,a02,a10,a11,a12,a20,a21,a22⟩ := A
  obtain ⟨b00,b01,b02,b10,b11,b12,b20,b21,b22⟩ := B
  simp only [M3.transpose, M3.mk.injEq] at hA hB
  simp only [upper, List.cons.injEq, and_true] at h
  obtain ⟨h0,h1,h2,h3,h4,h5⟩ := h
  obtain ⟨-,ha1,ha2,-,-,ha5,-,-,-⟩ := hA
  obtain ⟨-,hb1,hb2,-,-,hb5,-,-,-⟩ := hB
  simp only [M3.mk.injEq]
  refine ⟨h0, h3, h4, ?_, h1, h5, ?_, ?_, h2⟩
  · rw [ha1, hb1]; exact h3
  · rw [ha2, hb2]; exact h4
  · rw [ha5, hb5]; exact h5
theorem conj_symm {G Y : M3 K} (hY : Y.transpose = Y) : (G * Y * G.transpose).transpose = G * Y * G.transpose := by
  rw [transpose_mul, transpose_mul, hY, ← m3_mul_assoc]
  obtain ⟨a00,a01,a02,a10,a11,a12,a20,a21,a22⟩ := G
  simp only [M3.transpose]
theorem symm_transpose (L : M3 K) : (symm L).transpose = symm L := by
  obtain ⟨a00,a01,a02,a10,a11,a12,a20,a21,a22⟩ := L; m3_poly
theorem dE_transpose (F L : M3 K) : (dE F L).transpose = dE F L := by
  unfold dE
  rw [transpose_mul, transpose_mul, symm_transpose, ← m3_mul_assoc]
  obtain ⟨a00,a01,a02,a10,a11,a12,a20,a21,a22⟩ := F
  simp only [M3.transpose]
theorem symm_of_symmetric (h2 : (2:K) ≠ 0) {A : M3 K} (hA : A.transpose = A) : symm A = A := by
  obtain ⟨a00,a01,a02,a10,a11,a12,a20,a21,a22⟩ := A
  simp only [M3.transpose, M3.mk.injEq] at hA
  obtain ⟨-,ha1,ha2,-,-,ha5,-,-,-⟩ := hA
  subst ha1 ha2 ha5
  c23_unfold
  refine ⟨?_,?_,?_,?_,?_,?_,?_,?_,?_⟩ <;> field_simp <;> ring
/-- `F G = 1` gives `G F = 1` for 3×3 matrices with `det F ≠ 0` -/
theorem inv_comm {F G : M3 K} (hJ : F.det ≠ 0) (h : F * G = 1) : G * F = 1 := by
  apply mul_left_cancel_det hJ
  rw [← m3_mul_assoc, h, m3_one_mul, m3_mul_one]
/-- pulling a symmetric rate back and forth: `Gᵀ (Fᵀ D F) G = D` when `F G = 1` -/
theorem dE_inv (h2 : (2:K) ≠ 0) {F G : M3 K} (h : F * G = 1) (L : M3 K) : dE G (dE F L) = symm L := by
  have hs : symm (dE F L) = dE F L := symm_of_symmetric h2 (dE_transpose F L)
  have ht : G.transpose * F.transpose = 1 := by rw [← transpose_mul, h, transpose_one]
  unfold dE at hs ⊢
  rw [hs]
  calc G.transpose * (F.transpose * symm L * F) * G
      = (G.transpose * F.transpose) * symm L * (F * G) := by simp only [m3_mul_assoc]
    _ = symm L := by rw [ht, h, m3_one_mul, m3_mul_one]
theorem pull_back_alg {F G X Y : M3 K} (h : F * G = 1) (hX : X = G * Y * G.transpose) :
    F * X * F.transpose = Y := by
  have ht : G.transpose * F.transpose = 1 := by rw [← transpose_mul, h, transpose_one]
  subst hX
  calc F * (G * Y * G.transpose) * F.transpose
      = (F * G) * Y * (G.transpose * F.transpose) := by simp only [m3_mul_assoc]
    _ = Y := by rw [ht, h, m3_one_mul, m3_mul_one]


/-! ### first-order content of the `lam*` of Spec.lean (product rules, exact in a formal parameter `ε`)

Along `F(ε) = F + ε L F`, with a stress measure varying as `T(ε) = T + ε r`:
the coefficient of `ε` is the variation used in Spec.lean, the remainders are written out. -/
/-- second invariant of `L` (sum of the principal 2×2 minors) -/
def inv2 (L : M3 K) : K :=
  L.a00 * L.a11 - L.a01 * L.a10 + (L.a00 * L.a22 - L.a02 * L.a20) + (L.a11 * L.a22 - L.a12 * L.a21)
/-- `det (F + ε L F) = det F (1 + ε tr L + ε² I₂(L) + ε³ det L)`: `δJ = J tr L` -/
theorem det_first_order (F L : M3 K) (ε : K) :
    (F + ε • (L * F)).det = F.det * (1 + ε * L.trace + ε * ε * inv2 L + ε * ε * ε * L.det) := by
  obtain ⟨f00,f01,f02,f10,f11,f12,f20,f21,f22⟩ := F
  obtain ⟨l00,l01,l02,l10,l11,l12,l20,l21,l22⟩ := L
  simp only [inv2]; c23_unfold; ring
/-- `τ = F S Fᵀ`: `δτ = F r Fᵀ + L τ + τ Lᵀ`, i.e. `ℓ = F r Fᵀ` (`lamS`) -/
theorem pk2_first_order (F L S r : M3 K) (ε : K) :
    (F + ε • (L * F)) * (S + ε • r) * (F + ε • (L * F)).transpose
      = F * S * F.transpose
        + ε • (F * r * F.transpose + L * (F * S * F.transpose) + (F * S * F.transpose) * L.transpose)
        + (ε * ε) • (L * (F * S * F.transpose) * L.transpose + L * (F * r * F.transpose) + (F * r * F.transpose) * L.transpose)
        + (ε * ε * ε) • (L * (F * r * F.transpose) * L.transpose) := by
  obtain ⟨f00,f01,f02,f10,f11,f12,f20,f21,f22⟩ := F
  obtain ⟨l00,l01,l02,l10,l11,l12,l20,l21,l22⟩ := L
  obtain ⟨s00,s01,s02,s10,s11,s12,s20,s21,s22⟩ := S
  obtain ⟨r00,r01,r02,r10,r11,r12,r20,r21,r22⟩ := r
  m3_poly
/-- `τ = P Fᵀ`: `δτ = r Fᵀ + τ Lᵀ`, i.e. `ℓ = r Fᵀ − L τ` (`lamP`) -/
theorem pk1_first_order (F L P r : M3 K) (ε : K) :
    (P + ε • r) * (F + ε • (L * F)).transpose
      = P * F.transpose + ε • (r * F.transpose + (P * F.transpose) * L.transpose)
        + (ε * ε) • ((r * F.transpose) * L.transpose) := by
  obtain ⟨f00,f01,f02,f10,f11,f12,f20,f21,f22⟩ := F
  obtain ⟨l00,l01,l02,l10,l11,l12,l20,l21,l22⟩ := L
  obtain ⟨p00,p01,p02,p10,p11,p12,p20,p21,p22⟩ := P
  obtain ⟨r00,r01,r02,r10,r11,r12,r20,r21,r22⟩ := r
  m3_poly
/-- Green–Lagrange strain `E = (FᵀF − 1)/2`: `δE = Fᵀ sym(L) F` (`dE`) -/
theorem gl_first_order (h2 : (2:K) ≠ 0) (F L : M3 K) (ε : K) :
    (1/2 : K) • ((F + ε • (L * F)).transpose * (F + ε • (L * F)) - 1)
      = (1/2 : K) • (F.transpose * F - 1) + ε • dE F L + (ε * ε) • ((1/2 : K) • ((L * F).transpose * (L * F))) := by
  obtain ⟨f00,f01,f02,f10,f11,f12,f20,f21,f22⟩ := F
  obtain ⟨l00,l01,l02,l10,l11,l12,l20,l21,l22⟩ := L
  c23_unfold
  refine ⟨?_,?_,?_,?_,?_,?_,?_,?_,?_⟩ <;> field_simp <;> ring

/-! ### linearity of the action in the stored second-order object -/
theorem dot_add (r v w : List K) (h : v.length = w.length) :
    dot r (List.zipWith (· + ·) v w) = dot r v + dot r w := by
  induction r generalizing v w with
  | nil => simp [dot]
  | cons a as ih =>
    cases v with
    | nil => cases w with
      | nil => simp [dot]
      | cons b bs => simp at h
    | cons x xs => cases w with
      | nil => simp at h
      | cons b bs =>
        simp only [List.length_cons, Nat.add_right_cancel_iff] at h
        simp only [List.zipWith_cons_cons, dot, ih xs bs h]; ring

end TfelVerif.C23
