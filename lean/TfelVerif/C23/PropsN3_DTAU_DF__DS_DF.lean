/-
  C23 — tangent operator converters `tfel::material::convert<To, From>` (property theorems only).
  `DTAU_DF ← DS_DF`, N = 3.
  `Gen.N<d>_<TO>__<FROM>_r c c3 fn D f g s` is the stored result (list of rows) of the traced converter
  for the source operator `D` (arbitrary symbols, stored matrix), `F0` (`f`), `F1` (`g`) and the stored
  Cauchy stress `s`. The meaning of every flag (`lam*`, kinematic rates) is in Spec.lean. Each theorem
  holds for every source operator, every deformation gradient, every stress and every variation.
-/
import TfelVerif.Common.M3
import TfelVerif.C23.Spec
import TfelVerif.C23.Lemmas
import TfelVerif.C23.GenN3_DTAU_DF__DS_DF

namespace TfelVerif.C23.PropsN3_DTAU_DF__DS_DF
open TfelVerif TfelVerif.Mandel TfelVerif.C23
set_option linter.all false
set_option maxHeartbeats 16000000
set_option maxRecDepth 100000
variable {K : Type} [Field K] (c c3 : K) (fn : Fns K)

/-- `DTAU_DF ← DS_DF` (3D): along every variation `δF = L F` the converted operator, applied to the
rate of its kinematic variable, gives the rate of the Kirchhoff stress that reproduces the same Lie derivative of
the Kirchhoff stress as the source operator (rate of the second Piola–Kirchhoff stress) does. -/
theorem N3_DTAU_DF__DS_DF (hc : c * c = 2) (h2 : (2:K) ≠ 0)
    (D : Nat → Nat → K) (F0 F : M3 K) (L : M3 K) (s : Nat → K) (hJ : F.det ≠ 0) :
    upper (lamTau F (M3.ofMandel c [s 0, s 1, s 2, s 3, s 4, s 5]) L (M3.ofMandel c (act (Gen.N3_DTAU_DF__DS_DF_r c c3 fn D (tensv F0) (tensv F) s) (M3.tens3 (L * F)))))
      = upper (lamS F (M3.ofMandel c [s 0, s 1, s 2, s 3, s 4, s 5]) L (M3.ofMandel c (act (rowsOf D i6 i9) (M3.tens3 (L * F))))) := by
  have hc0 : c ≠ 0 := c_ne_zero hc h2
  have hden0 : Gen.N3_DTAU_DF__DS_DF_den0 c c3 fn D (tensv F0) (tensv F) s = F.det := by
    c23_unfold <;> (try ring1)
  have hd0 : Gen.N3_DTAU_DF__DS_DF_den0 c c3 fn D (tensv F0) (tensv F) s ≠ 0 := by rw [hden0]; exact hJ
  c23_unfold at hden0 hd0
  c23_unfold
  (try rw [← hden0])
  generalize_ne hd0 => e0 he0
  (try (repeat' apply And.intro))
  all_goals (first | rfl | (field_simp <;> first | (c23_ringc hc) | ((try simp only [← he0]) <;> c23_fieldc hc)))

end TfelVerif.C23.PropsN3_DTAU_DF__DS_DF
