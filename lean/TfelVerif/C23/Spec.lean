/-
  C23 — reference definitions (hand written, independent of the traced code).

  * storage conventions of TFEL second-order objects as functions `Nat → K` (what the generated
    definitions take) and as lists (what they return);
  * the action of a fourth-order object, stored as a matrix in those coordinates, on a stored
    second-order object (`act`): in Mandel / full tensor storage the double contraction is the plain
    matrix–vector product;
  * for every tangent-operator flag of `FiniteStrainBehaviourTangentOperatorBase` its *meaning*, given
    as a pair (kinematic rate `k`, canonical rate `lam`):
      along a variation `δF = L F` of the deformation gradient (`L` an arbitrary 3×3 matrix: since
      `F` is invertible every `δF` is of this form) the flag's kinematic variable varies by
      `k F L`; if the flag's stress measure varies by `r`, then the Lie derivative of the Kirchhoff
      stress `ℓ = δτ − L τ − τ Lᵀ` is `lam F σ L r`.
    A tangent operator `D` of that flag is consistent with the material response along `L` iff
      `lam F σ L (D : k F L) = ℓ`.
    "Converting gives the derivative of the target stress w.r.t. the target kinematic variable" is
    then: for every `L`, `lam₂ (conv D : k₂) = lam₁ (D : k₁)` — the converted operator reproduces the
    same `ℓ`, i.e. describes the same material response, for every variation.
  The first-order (product rule) content of each `lam` is justified in Lemmas.lean
  (`*_first_order` theorems: exact polynomial expansions in a formal parameter `ε`).
-/
import TfelVerif.Common.M3

set_option linter.unusedVariables false
namespace TfelVerif.C23
open TfelVerif
variable {K : Type} [Field K]

/-! ## restricted shapes (2D: plane tensors, 1D: diagonal tensors) -/
/-- 2D tensor (storage t00 t11 t22 t01 t10) -/
def plane (a00 a11 a22 a01 a10 : K) : M3 K := ⟨a00, a01, 0, a10, a11, 0, 0, 0, a22⟩
/-- 1D tensor (storage t00 t11 t22) -/
def dg (a00 a11 a22 : K) : M3 K := ⟨a00, 0, 0, 0, a11, 0, 0, 0, a22⟩

/-! ## storage as functions (inputs of the generated definitions) -/
/-- full tensor storage `(t00 t11 t22 t01 t10 t02 t20 t12 t21)` -/
def tensv (A : M3 K) : Nat → K
  | 0 => A.a00 | 1 => A.a11 | 2 => A.a22 | 3 => A.a01 | 4 => A.a10
  | 5 => A.a02 | 6 => A.a20 | 7 => A.a12 | 8 => A.a21 | _ => 0
/-- Mandel storage `(s00 s11 s22 √2 s01 √2 s02 √2 s12)` of a symmetric matrix (upper triangle read) -/
def mandv (c : K) (A : M3 K) : Nat → K
  | 0 => A.a00 | 1 => A.a11 | 2 => A.a22 | 3 => c * A.a01 | 4 => c * A.a02 | 5 => c * A.a12 | _ => 0

/-- the six independent entries of a symmetric matrix, read in the upper / lower triangle -/
def upper (A : M3 K) : List K := [A.a00, A.a11, A.a22, A.a01, A.a02, A.a12]
def lower (A : M3 K) : List K := [A.a00, A.a11, A.a22, A.a10, A.a20, A.a21]
/-- the symmetric matrix whose independent entries are read in the lower triangle of `A` -/
def symLower (A : M3 K) : M3 K := M3.sym A.a00 A.a11 A.a22 A.a10 A.a20 A.a21

/-! ## fourth-order objects: stored matrix × stored vector -/
def dot : List K → List K → K
  | a :: as, b :: bs => a * b + dot as bs
  | _, _ => 0
/-- action of a stored fourth-order object (list of rows) on a stored second-order object -/
def act (rows : List (List K)) (v : List K) : List K := rows.map (fun r => dot r v)
/-- the rows `is` × columns `js` of an operator given as a function (the *source* operator of a conversion:
arbitrary symbols) -/
def rowsOf (D : Nat → Nat → K) (is js : List Nat) : List (List K) := is.map (fun i => js.map (fun j => D i j))
/-- a stored operator (list of rows) / vector (list) read back as a function of the storage indices:
how the result of one generated definition is fed to the next one -/
def matOf (R : List (List K)) : Nat → Nat → K := fun i j => (R.getD i []).getD j 0
def vecOf (l : List K) : Nat → K := fun i => l.getD i 0
def i3 : List Nat := [0, 1, 2]
def i4 : List Nat := [0, 1, 2, 3]
def i5 : List Nat := [0, 1, 2, 3, 4]
def i6 : List Nat := [0, 1, 2, 3, 4, 5]
def i9 : List Nat := [0, 1, 2, 3, 4, 5, 6, 7, 8]

/-! ## kinematics along `δF = L F` -/
/-- rate of deformation `D = sym L` -/
def symm (L : M3 K) : M3 K := (1/2 : K) • (L + L.transpose)
/-- `δE` of the Green–Lagrange strain `E = (FᵀF − 1)/2` : `Fᵀ D F` -/
def dE (F L : M3 K) : M3 K := F.transpose * symm L * F
/-- `δC` of the right Cauchy–Green tensor -/
def dC (F L : M3 K) : M3 K := (2 : K) • dE F L
/-- Kirchhoff stress `τ = J σ` -/
def kirch (F σ : M3 K) : M3 K := F.det • σ

/-! ## canonical rate `ℓ = δτ − Lτ − τLᵀ` from the rate `r` of each stress measure -/
/-- second Piola–Kirchhoff stress `S` (`F S Fᵀ = τ`): flags DS_DF, DS_DC, DS_DEGL -/
def lamS (F σ L r : M3 K) : M3 K := F * r * F.transpose
/-- spatial moduli: `r` is the Lie derivative of `τ` itself -/
def lamSM (F σ L r : M3 K) : M3 K := r
/-- Truesdell rate of the Cauchy stress: `J r = ℓ` -/
def lamTr (F σ L r : M3 K) : M3 K := F.det • r
/-- Jaumann rate of the Kirchhoff stress: `r = δτ − Wτ + τW = ℓ + Dτ + τD` -/
def lamJ (F σ L r : M3 K) : M3 K := r - (symm L * kirch F σ + kirch F σ * symm L)
/-- Abaqus: Jaumann rate of the Kirchhoff stress divided by `J` -/
def lamAb (F σ L r : M3 K) : M3 K := F.det • r - (symm L * kirch F σ + kirch F σ * symm L)
/-- Kirchhoff stress itself, `r = δτ`: flags DTAU_DF, DTAU_DDF -/
def lamTau (F σ L r : M3 K) : M3 K := r - (L * kirch F σ + kirch F σ * L.transpose)
/-- Cauchy stress, `r = δσ`, `δτ = J (δσ + tr L σ)`: flags DSIG_DF, DSIG_DDF -/
def lamSig (F σ L r : M3 K) : M3 K :=
  F.det • r + L.trace • kirch F σ - (L * kirch F σ + kirch F σ * L.transpose)
/-- first Piola–Kirchhoff stress `P` (`P Fᵀ = τ`), `r = δP`: `δτ = r Fᵀ + τ Lᵀ` -/
def lamP (F σ L r : M3 K) : M3 K := r * F.transpose - L * kirch F σ

end TfelVerif.C23
