/-
  C23 — tangent operator converters `tfel::material::convert<To, From>` (property theorems only).
  core of `DTAU_DF__DS_DF` (3D): the converter with the second Piola–Kirchhoff stress given as a stored vector `p`.
  `Gen.N<d>_<TO>__<FROM>_r c c3 fn D f g s` is the stored result (list of rows) of the traced converter
  for the source operator `D` (arbitrary symbols, stored matrix), `F0` (`f`), `F1` (`g`) and the stored
  Cauchy stress `s`. The meaning of every flag (`lam*`, kinematic rates) is in Spec.lean. Each theorem
  holds for every source operator, every deformation gradient, every stress and every variation.
-/
import TfelVerif.Common.M3
import TfelVerif.C23.Spec
import TfelVerif.C23.Lemmas
import TfelVerif.C23.GenN3_DTAU_DF__DS_DF_core

namespace TfelVerif.C23.PropsN3_DTAU_DF__DS_DF_core
open TfelVerif TfelVerif.Mandel TfelVerif.C23
set_option linter.all false
set_option maxHeartbeats 16000000
set_option maxRecDepth 100000
variable {K : Type} [Field K] (c c3 : K) (fn : Fns K)

/-- core of `DTAU_DF ← DS_DF`: `computePushForwardDerivative(dS/dF, S, F)` applied to `δF = L F` is
`δ(F S Fᵀ) = L τ + τ Lᵀ + F δS Fᵀ` with `τ = F S Fᵀ`, for every stored second Piola–Kirchhoff stress `p`. -/
theorem N3_DTAU_DF__DS_DF_core (hc : c * c = 2) (h2 : (2:K) ≠ 0)
    (D : Nat → Nat → K) (F L : M3 K) (p : Nat → K) :
    upper (M3.ofMandel c (act (Gen.N3_DTAU_DF__DS_DF_core_r c c3 fn D p (tensv F)) (M3.tens3 (L * F)))
        - (L * (F * (M3.ofMandel c [p 0, p 1, p 2, p 3, p 4, p 5]) * F.transpose) + (F * (M3.ofMandel c [p 0, p 1, p 2, p 3, p 4, p 5]) * F.transpose) * L.transpose))
      = upper (F * (M3.ofMandel c (act (rowsOf D i6 i9) (M3.tens3 (L * F)))) * F.transpose) := by
  have hc0 : c ≠ 0 := c_ne_zero hc h2
  c23_rat0c hc

end TfelVerif.C23.PropsN3_DTAU_DF__DS_DF_core
