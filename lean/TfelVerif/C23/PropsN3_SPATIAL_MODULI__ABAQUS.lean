/-
  C23 — tangent operator converters `tfel::material::convert<To, From>` (property theorems only).
  `SPATIAL_MODULI ← ABAQUS`, N = 3.
  `Gen.N<d>_<TO>__<FROM>_r c c3 fn D f g s` is the stored result (list of rows) of the traced converter
  for the source operator `D` (arbitrary symbols, stored matrix), `F0` (`f`), `F1` (`g`) and the stored
  Cauchy stress `s`. The meaning of every flag (`lam*`, kinematic rates) is in Spec.lean. Each theorem
  holds for every source operator, every deformation gradient, every stress and every variation.
-/
import TfelVerif.Common.M3
import TfelVerif.C23.Spec
import TfelVerif.C23.Lemmas
import TfelVerif.C23.GenN3_SPATIAL_MODULI__ABAQUS

namespace TfelVerif.C23.PropsN3_SPATIAL_MODULI__ABAQUS
open TfelVerif TfelVerif.Mandel TfelVerif.C23
set_option linter.all false
set_option maxHeartbeats 16000000
set_option maxRecDepth 100000
variable {K : Type} [Field K] (c c3 : K) (fn : Fns K)

/-- `SPATIAL_MODULI ← ABAQUS` (3D): along every variation `δF = L F` the converted operator, applied to the
rate of its kinematic variable, gives the rate of the Lie derivative of the Kirchhoff stress that reproduces the same Lie derivative of
the Kirchhoff stress as the source operator (rate of the Jaumann rate of the Kirchhoff stress / J) does. -/
theorem N3_SPATIAL_MODULI__ABAQUS (hc : c * c = 2) (h2 : (2:K) ≠ 0)
    (D : Nat → Nat → K) (F0 F : M3 K) (L : M3 K) (s : Nat → K)  :
    upper (lamSM F (M3.ofMandel c [s 0, s 1, s 2, s 3, s 4, s 5]) L (M3.ofMandel c (act (Gen.N3_SPATIAL_MODULI__ABAQUS_r c c3 fn D (tensv F0) (tensv F) s) (M3.mandel3 c (symm L)))))
      = upper (lamAb F (M3.ofMandel c [s 0, s 1, s 2, s 3, s 4, s 5]) L (M3.ofMandel c (act (rowsOf D i6 i6) (M3.mandel3 c (symm L))))) := by
  have hc0 : c ≠ 0 := c_ne_zero hc h2
  obtain ⟨f00,f01,f02,f10,f11,f12,f20,f21,f22⟩ := F
  obtain ⟨l00,l01,l02,l10,l11,l12,l20,l21,l22⟩ := L
  c23_rat0c hc

end TfelVerif.C23.PropsN3_SPATIAL_MODULI__ABAQUS
