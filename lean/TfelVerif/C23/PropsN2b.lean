/-
  C23 — tangent operator converters `tfel::material::convert<To, From>` (property theorems only).
  Pairs DTAU_DF__C_TAU_JAUMANN, DSIG_DF__DSIG_DDF, DPK1_DF__DSIG_DF, DTAU_DDF__DTAU_DF, C_TAU_JAUMANN__ABAQUS, DS_DEGL__DS_DC, N = 2.
  `Gen.N<d>_<TO>__<FROM>_r c c3 fn D f g s` is the stored result (list of rows) of the traced converter
  for the source operator `D` (arbitrary symbols, stored matrix), `F0` (`f`), `F1` (`g`) and the stored
  Cauchy stress `s`. The meaning of every flag (`lam*`, kinematic rates) is in Spec.lean. Each theorem
  holds for every source operator, every deformation gradient, every stress and every variation.
-/
import TfelVerif.Common.M3
import TfelVerif.C23.Spec
import TfelVerif.C23.Lemmas
import TfelVerif.C23.GenN2b

namespace TfelVerif.C23.PropsN2b
open TfelVerif TfelVerif.Mandel TfelVerif.C23
set_option linter.all false
set_option maxHeartbeats 16000000
set_option maxRecDepth 100000
variable {K : Type} [Field K] (c c3 : K) (fn : Fns K)

/-- `DTAU_DF ← C_TAU_JAUMANN` (2D): along every variation `δF = L F` the converted operator, applied to the
rate of its kinematic variable, gives the rate of the Kirchhoff stress that reproduces the same Lie derivative of
the Kirchhoff stress as the source operator (rate of the Jaumann rate of the Kirchhoff stress) does. -/
theorem N2_DTAU_DF__C_TAU_JAUMANN (hc : c * c = 2) (h2 : (2:K) ≠ 0)
    (D : Nat → Nat → K) (F0 : M3 K) (f0 f1 f2 f3 f4 : K) (l0 l1 l2 l3 l4 : K) (s : Nat → K) (hJ : (plane f0 f1 f2 f3 f4).det ≠ 0) :
    upper (lamTau (plane f0 f1 f2 f3 f4) (M3.ofMandel c [s 0, s 1, s 2, s 3]) (plane l0 l1 l2 l3 l4) (M3.ofMandel c (act (Gen.N2_DTAU_DF__C_TAU_JAUMANN_r c c3 fn D (tensv F0) (tensv (plane f0 f1 f2 f3 f4)) s) (M3.tens2 ((plane l0 l1 l2 l3 l4) * (plane f0 f1 f2 f3 f4))))))
      = upper (lamJ (plane f0 f1 f2 f3 f4) (M3.ofMandel c [s 0, s 1, s 2, s 3]) (plane l0 l1 l2 l3 l4) (M3.ofMandel c (act (rowsOf D i4 i4) (M3.mandel2 c (symm (plane l0 l1 l2 l3 l4)))))) := by
  have hc0 : c ≠ 0 := c_ne_zero hc h2
  obtain ⟨h1, h2'⟩ := plane_det_ne hJ
  have hd0 : Gen.N2_DTAU_DF__C_TAU_JAUMANN_den0 c c3 fn D (tensv F0) (tensv (plane f0 f1 f2 f3 f4)) s ≠ 0 := by
    have : Gen.N2_DTAU_DF__C_TAU_JAUMANN_den0 c c3 fn D (tensv F0) (tensv (plane f0 f1 f2 f3 f4)) s = f0 * f1 - f3 * f4 := by
      c23_unfold <;> (try ring1)
    rw [this]; exact h1
  have hd2 : Gen.N2_DTAU_DF__C_TAU_JAUMANN_den2 c c3 fn D (tensv F0) (tensv (plane f0 f1 f2 f3 f4)) s ≠ 0 := by
    have : Gen.N2_DTAU_DF__C_TAU_JAUMANN_den2 c c3 fn D (tensv F0) (tensv (plane f0 f1 f2 f3 f4)) s = f0 * f1 - f3 * f4 := by
      c23_unfold <;> (try ring1)
    rw [this]; exact h1
  (try c23_unfold at hd0 hd2)
  c23_unfold
  generalize_ne hd0 => e0 he0
  generalize_ne hd2 => e2 he2
  (try (repeat' apply And.intro))
  all_goals (first | rfl | (field_simp <;> (try simp only [← he0, ← he2]) <;> c23_fieldc hc))

/-- `DSIG_DF ← DSIG_DDF` (2D): along every variation `δF = L F` the converted operator, applied to the
rate of its kinematic variable, gives the rate of the Cauchy stress that reproduces the same Lie derivative of
the Kirchhoff stress as the source operator (rate of the Cauchy stress) does. -/
theorem N2_DSIG_DF__DSIG_DDF (hc : c * c = 2) (h2 : (2:K) ≠ 0)
    (D : Nat → Nat → K) (g0 g1 g2 g3 g4 d0 d1 d2 d3 d4 : K) (l0 l1 l2 l3 l4 : K) (s : Nat → K) (hJ : (plane g0 g1 g2 g3 g4).det ≠ 0) :
    upper (lamSig ((plane d0 d1 d2 d3 d4) * (plane g0 g1 g2 g3 g4)) (M3.ofMandel c [s 0, s 1, s 2, s 3]) (plane l0 l1 l2 l3 l4) (M3.ofMandel c (act (Gen.N2_DSIG_DF__DSIG_DDF_r c c3 fn D (tensv (plane g0 g1 g2 g3 g4)) (tensv ((plane d0 d1 d2 d3 d4) * (plane g0 g1 g2 g3 g4))) s) (M3.tens2 ((plane l0 l1 l2 l3 l4) * ((plane d0 d1 d2 d3 d4) * (plane g0 g1 g2 g3 g4)))))))
      = upper (lamSig ((plane d0 d1 d2 d3 d4) * (plane g0 g1 g2 g3 g4)) (M3.ofMandel c [s 0, s 1, s 2, s 3]) (plane l0 l1 l2 l3 l4) (M3.ofMandel c (act (rowsOf D i4 i5) (M3.tens2 ((plane l0 l1 l2 l3 l4) * (plane d0 d1 d2 d3 d4)))))) := by
  have key : (act (Gen.N2_DSIG_DF__DSIG_DDF_r c c3 fn D (tensv (plane g0 g1 g2 g3 g4)) (tensv ((plane d0 d1 d2 d3 d4) * (plane g0 g1 g2 g3 g4))) s) (M3.tens2 ((plane l0 l1 l2 l3 l4) * ((plane d0 d1 d2 d3 d4) * (plane g0 g1 g2 g3 g4)))))
      = (act (rowsOf D i4 i5) (M3.tens2 ((plane l0 l1 l2 l3 l4) * (plane d0 d1 d2 d3 d4)))) := by
    have hc0 : c ≠ 0 := c_ne_zero hc h2
    obtain ⟨h1, h2'⟩ := plane_det_ne hJ
    have hd0 : Gen.N2_DSIG_DF__DSIG_DDF_den0 c c3 fn D (tensv (plane g0 g1 g2 g3 g4)) (tensv ((plane d0 d1 d2 d3 d4) * (plane g0 g1 g2 g3 g4))) s ≠ 0 := by
      have : Gen.N2_DSIG_DF__DSIG_DDF_den0 c c3 fn D (tensv (plane g0 g1 g2 g3 g4)) (tensv ((plane d0 d1 d2 d3 d4) * (plane g0 g1 g2 g3 g4))) s = g0 * g1 - g3 * g4 := by
        c23_unfold <;> (try ring1)
      rw [this]; exact h1
    (try c23_unfold at hd0)
    c23_unfold
    generalize_ne hd0 => e0 he0
    (try (repeat' apply And.intro))
    all_goals (first | rfl | (field_simp <;> (try simp only [← he0]) <;> c23_fieldc hc))
  rw [key]

/-- `DPK1_DF ← DSIG_DF` (2D): along every variation `δF = L F` the converted operator, applied to the
rate of its kinematic variable, gives the rate of the first Piola–Kirchhoff stress that reproduces the same Lie derivative of
the Kirchhoff stress as the source operator (rate of the Cauchy stress) does. -/
theorem N2_DPK1_DF__DSIG_DF (hc : c * c = 2) (h2 : (2:K) ≠ 0)
    (D : Nat → Nat → K) (F0 : M3 K) (f0 f1 f2 f3 f4 : K) (l0 l1 l2 l3 l4 : K) (s : Nat → K)  :
    M3.tens3 (lamP (plane f0 f1 f2 f3 f4) (M3.ofMandel c [s 0, s 1, s 2, s 3]) (plane l0 l1 l2 l3 l4) (M3.ofTens (act (Gen.N2_DPK1_DF__DSIG_DF_r c c3 fn D (tensv F0) (tensv (plane f0 f1 f2 f3 f4)) s) (M3.tens2 ((plane l0 l1 l2 l3 l4) * (plane f0 f1 f2 f3 f4))))))
      = M3.tens3 (lamSig (plane f0 f1 f2 f3 f4) (M3.ofMandel c [s 0, s 1, s 2, s 3]) (plane l0 l1 l2 l3 l4) (M3.ofMandel c (act (rowsOf D i4 i5) (M3.tens2 ((plane l0 l1 l2 l3 l4) * (plane f0 f1 f2 f3 f4)))))) := by
  have hc0 : c ≠ 0 := c_ne_zero hc h2
  c23_rat0c hc

/-- `DTAU_DDF ← DTAU_DF` (2D): along every variation `δF = L F` the converted operator, applied to the
rate of its kinematic variable, gives the rate of the Kirchhoff stress that reproduces the same Lie derivative of
the Kirchhoff stress as the source operator (rate of the Kirchhoff stress) does. -/
theorem N2_DTAU_DDF__DTAU_DF (hc : c * c = 2) (h2 : (2:K) ≠ 0)
    (D : Nat → Nat → K) (g0 g1 g2 g3 g4 d0 d1 d2 d3 d4 : K) (l0 l1 l2 l3 l4 : K) (s : Nat → K)  :
    upper (lamTau ((plane d0 d1 d2 d3 d4) * (plane g0 g1 g2 g3 g4)) (M3.ofMandel c [s 0, s 1, s 2, s 3]) (plane l0 l1 l2 l3 l4) (M3.ofMandel c (act (Gen.N2_DTAU_DDF__DTAU_DF_r c c3 fn D (tensv (plane g0 g1 g2 g3 g4)) (tensv ((plane d0 d1 d2 d3 d4) * (plane g0 g1 g2 g3 g4))) s) (M3.tens2 ((plane l0 l1 l2 l3 l4) * (plane d0 d1 d2 d3 d4))))))
      = upper (lamTau ((plane d0 d1 d2 d3 d4) * (plane g0 g1 g2 g3 g4)) (M3.ofMandel c [s 0, s 1, s 2, s 3]) (plane l0 l1 l2 l3 l4) (M3.ofMandel c (act (rowsOf D i4 i5) (M3.tens2 ((plane l0 l1 l2 l3 l4) * ((plane d0 d1 d2 d3 d4) * (plane g0 g1 g2 g3 g4))))))) := by
  have key : (act (Gen.N2_DTAU_DDF__DTAU_DF_r c c3 fn D (tensv (plane g0 g1 g2 g3 g4)) (tensv ((plane d0 d1 d2 d3 d4) * (plane g0 g1 g2 g3 g4))) s) (M3.tens2 ((plane l0 l1 l2 l3 l4) * (plane d0 d1 d2 d3 d4))))
      = (act (rowsOf D i4 i5) (M3.tens2 ((plane l0 l1 l2 l3 l4) * ((plane d0 d1 d2 d3 d4) * (plane g0 g1 g2 g3 g4))))) := by
    have hc0 : c ≠ 0 := c_ne_zero hc h2
    c23_rat0c hc
  rw [key]

/-- `C_TAU_JAUMANN ← ABAQUS` (2D): along every variation `δF = L F` the converted operator, applied to the
rate of its kinematic variable, gives the rate of the Jaumann rate of the Kirchhoff stress that reproduces the same Lie derivative of
the Kirchhoff stress as the source operator (rate of the Jaumann rate of the Kirchhoff stress / J) does. -/
theorem N2_C_TAU_JAUMANN__ABAQUS (hc : c * c = 2) (h2 : (2:K) ≠ 0)
    (D : Nat → Nat → K) (F0 : M3 K) (f0 f1 f2 f3 f4 : K) (l0 l1 l2 l3 l4 : K) (s : Nat → K)  :
    upper (lamJ (plane f0 f1 f2 f3 f4) (M3.ofMandel c [s 0, s 1, s 2, s 3]) (plane l0 l1 l2 l3 l4) (M3.ofMandel c (act (Gen.N2_C_TAU_JAUMANN__ABAQUS_r c c3 fn D (tensv F0) (tensv (plane f0 f1 f2 f3 f4)) s) (M3.mandel2 c (symm (plane l0 l1 l2 l3 l4))))))
      = upper (lamAb (plane f0 f1 f2 f3 f4) (M3.ofMandel c [s 0, s 1, s 2, s 3]) (plane l0 l1 l2 l3 l4) (M3.ofMandel c (act (rowsOf D i4 i4) (M3.mandel2 c (symm (plane l0 l1 l2 l3 l4)))))) := by
  have hc0 : c ≠ 0 := c_ne_zero hc h2
  c23_rat0c hc

/-- `DS_DEGL ← DS_DC` (2D): along every variation `δF = L F` the converted operator, applied to the
rate of its kinematic variable, gives the rate of the second Piola–Kirchhoff stress that reproduces the same Lie derivative of
the Kirchhoff stress as the source operator (rate of the second Piola–Kirchhoff stress) does. -/
theorem N2_DS_DEGL__DS_DC (hc : c * c = 2) (h2 : (2:K) ≠ 0)
    (D : Nat → Nat → K) (F0 : M3 K) (f0 f1 f2 f3 f4 : K) (l0 l1 l2 l3 l4 : K) (s : Nat → K)  :
    upper (lamS (plane f0 f1 f2 f3 f4) (M3.ofMandel c [s 0, s 1, s 2, s 3]) (plane l0 l1 l2 l3 l4) (M3.ofMandel c (act (Gen.N2_DS_DEGL__DS_DC_r c c3 fn D (tensv F0) (tensv (plane f0 f1 f2 f3 f4)) s) (M3.mandel2 c (dE (plane f0 f1 f2 f3 f4) (plane l0 l1 l2 l3 l4))))))
      = upper (lamS (plane f0 f1 f2 f3 f4) (M3.ofMandel c [s 0, s 1, s 2, s 3]) (plane l0 l1 l2 l3 l4) (M3.ofMandel c (act (rowsOf D i4 i4) (M3.mandel2 c (dC (plane f0 f1 f2 f3 f4) (plane l0 l1 l2 l3 l4)))))) := by
  have key : (act (Gen.N2_DS_DEGL__DS_DC_r c c3 fn D (tensv F0) (tensv (plane f0 f1 f2 f3 f4)) s) (M3.mandel2 c (dE (plane f0 f1 f2 f3 f4) (plane l0 l1 l2 l3 l4))))
      = (act (rowsOf D i4 i4) (M3.mandel2 c (dC (plane f0 f1 f2 f3 f4) (plane l0 l1 l2 l3 l4)))) := by
    have hc0 : c ≠ 0 := c_ne_zero hc h2
    c23_rat0c hc
  rw [key]

end TfelVerif.C23.PropsN2b
