/-
  C23 — tangent operator converters `tfel::material::convert<To, From>` (property theorems only).
  Auxiliary component 3 of the core of the 3D `DPK1_DF ← DS_DEGL` (characteristic zero: numerals are handled by `ring`).
  `Gen.N<d>_<TO>__<FROM>_r c c3 fn D f g s` is the stored result (list of rows) of the traced converter
  for the source operator `D` (arbitrary symbols, stored matrix), `F0` (`f`), `F1` (`g`) and the stored
  Cauchy stress `s`. The meaning of every flag (`lam*`, kinematic rates) is in Spec.lean. Each theorem
  holds for every source operator, every deformation gradient, every stress and every variation.
-/
import TfelVerif.Common.M3
import TfelVerif.C23.Spec
import TfelVerif.C23.Lemmas
import TfelVerif.C23.GenN3_DPK1_DF__DS_DEGL_core

namespace TfelVerif.C23.PropsN3_DPK1_DF__DS_DEGL_core_aux3
open TfelVerif TfelVerif.Mandel TfelVerif.C23
set_option linter.all false
set_option maxHeartbeats 16000000
set_option maxRecDepth 100000
variable {K : Type} [Field K] [CharZero K] (c c3 : K) (fn : Fns K)

/-- component `a01` of the core of `DPK1_DF ← DS_DEGL` -/
theorem aux3 (hc : c * c = 2) (h2 : (2:K) ≠ 0)
    (D : Nat → Nat → K) (F L : M3 K) (p : Nat → K) :
    (M3.ofTens (act (Gen.N3_DPK1_DF__DS_DEGL_core_r c c3 fn D p (tensv F)) (M3.tens3 (L * F))) * F.transpose - L * (F * (M3.ofMandel c [p 0, p 1, p 2, p 3, p 4, p 5]) * F.transpose)).a01
      = (F * (M3.ofMandel c (act (rowsOf D i6 i6) (M3.mandel3 c (dE F L)))) * F.transpose).a01 := by
  c23_unfold
  simp only [div_eq_mul_inv, c_inv hc h2]
  ring_nf
  (try c_powers hc)
  (try ring1)

end TfelVerif.C23.PropsN3_DPK1_DF__DS_DEGL_core_aux3
