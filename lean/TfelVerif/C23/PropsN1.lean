/-
  C23 — tangent operator converters `tfel::material::convert<To, From>` (property theorems only).
  All pairs, N = 1 (the chained converters are proved on their own traced DAG).
  `Gen.N<d>_<TO>__<FROM>_r c c3 fn D f g s` is the stored result (list of rows) of the traced converter
  for the source operator `D` (arbitrary symbols, stored matrix), `F0` (`f`), `F1` (`g`) and the stored
  Cauchy stress `s`. The meaning of every flag (`lam*`, kinematic rates) is in Spec.lean. Each theorem
  holds for every source operator, every deformation gradient, every stress and every variation.
-/
import TfelVerif.Common.M3
import TfelVerif.C23.Spec
import TfelVerif.C23.Lemmas
import TfelVerif.C23.GenN1

namespace TfelVerif.C23.PropsN1
open TfelVerif TfelVerif.Mandel TfelVerif.C23
set_option linter.all false
set_option maxHeartbeats 16000000
set_option maxRecDepth 100000
variable {K : Type} [Field K] (c c3 : K) (fn : Fns K)

/-- `DS_DC ← DS_DEGL` (1D): along every variation `δF = L F` the converted operator, applied to the
rate of its kinematic variable, gives the rate of the second Piola–Kirchhoff stress that reproduces the same Lie derivative of
the Kirchhoff stress as the source operator (rate of the second Piola–Kirchhoff stress) does. -/
theorem N1_DS_DC__DS_DEGL (hc : c * c = 2) (h2 : (2:K) ≠ 0)
    (D : Nat → Nat → K) (F0 : M3 K) (f0 f1 f2 : K) (l0 l1 l2 : K) (s : Nat → K)  :
    upper (lamS (dg f0 f1 f2) (M3.ofMandel c [s 0, s 1, s 2]) (dg l0 l1 l2) (M3.ofMandel c (act (Gen.N1_DS_DC__DS_DEGL_r c c3 fn D (tensv F0) (tensv (dg f0 f1 f2)) s) (M3.mandel1 (dC (dg f0 f1 f2) (dg l0 l1 l2))))))
      = upper (lamS (dg f0 f1 f2) (M3.ofMandel c [s 0, s 1, s 2]) (dg l0 l1 l2) (M3.ofMandel c (act (rowsOf D i3 i3) (M3.mandel1 (dE (dg f0 f1 f2) (dg l0 l1 l2)))))) := by
  have key : (act (Gen.N1_DS_DC__DS_DEGL_r c c3 fn D (tensv F0) (tensv (dg f0 f1 f2)) s) (M3.mandel1 (dC (dg f0 f1 f2) (dg l0 l1 l2))))
      = (act (rowsOf D i3 i3) (M3.mandel1 (dE (dg f0 f1 f2) (dg l0 l1 l2)))) := by
    have hc0 : c ≠ 0 := c_ne_zero hc h2
    c23_rat0 hc
  rw [key]

/-- `DS_DEGL ← DS_DC` (1D): along every variation `δF = L F` the converted operator, applied to the
rate of its kinematic variable, gives the rate of the second Piola–Kirchhoff stress that reproduces the same Lie derivative of
the Kirchhoff stress as the source operator (rate of the second Piola–Kirchhoff stress) does. -/
theorem N1_DS_DEGL__DS_DC (hc : c * c = 2) (h2 : (2:K) ≠ 0)
    (D : Nat → Nat → K) (F0 : M3 K) (f0 f1 f2 : K) (l0 l1 l2 : K) (s : Nat → K)  :
    upper (lamS (dg f0 f1 f2) (M3.ofMandel c [s 0, s 1, s 2]) (dg l0 l1 l2) (M3.ofMandel c (act (Gen.N1_DS_DEGL__DS_DC_r c c3 fn D (tensv F0) (tensv (dg f0 f1 f2)) s) (M3.mandel1 (dE (dg f0 f1 f2) (dg l0 l1 l2))))))
      = upper (lamS (dg f0 f1 f2) (M3.ofMandel c [s 0, s 1, s 2]) (dg l0 l1 l2) (M3.ofMandel c (act (rowsOf D i3 i3) (M3.mandel1 (dC (dg f0 f1 f2) (dg l0 l1 l2)))))) := by
  have key : (act (Gen.N1_DS_DEGL__DS_DC_r c c3 fn D (tensv F0) (tensv (dg f0 f1 f2)) s) (M3.mandel1 (dE (dg f0 f1 f2) (dg l0 l1 l2))))
      = (act (rowsOf D i3 i3) (M3.mandel1 (dC (dg f0 f1 f2) (dg l0 l1 l2)))) := by
    have hc0 : c ≠ 0 := c_ne_zero hc h2
    c23_rat0 hc
  rw [key]

/-- `SPATIAL_MODULI ← DS_DEGL` (1D): along every variation `δF = L F` the converted operator, applied to the
rate of its kinematic variable, gives the rate of the Lie derivative of the Kirchhoff stress that reproduces the same Lie derivative of
the Kirchhoff stress as the source operator (rate of the second Piola–Kirchhoff stress) does. -/
theorem N1_SPATIAL_MODULI__DS_DEGL (hc : c * c = 2) (h2 : (2:K) ≠ 0)
    (D : Nat → Nat → K) (F0 : M3 K) (f0 f1 f2 : K) (l0 l1 l2 : K) (s : Nat → K)  :
    upper (lamSM (dg f0 f1 f2) (M3.ofMandel c [s 0, s 1, s 2]) (dg l0 l1 l2) (M3.ofMandel c (act (Gen.N1_SPATIAL_MODULI__DS_DEGL_r c c3 fn D (tensv F0) (tensv (dg f0 f1 f2)) s) (M3.mandel1 (symm (dg l0 l1 l2))))))
      = upper (lamS (dg f0 f1 f2) (M3.ofMandel c [s 0, s 1, s 2]) (dg l0 l1 l2) (M3.ofMandel c (act (rowsOf D i3 i3) (M3.mandel1 (dE (dg f0 f1 f2) (dg l0 l1 l2)))))) := by
  have hc0 : c ≠ 0 := c_ne_zero hc h2
  c23_rat0 hc

/-- `DS_DEGL ← SPATIAL_MODULI` (1D): along every variation `δF = L F` the converted operator, applied to the
rate of its kinematic variable, gives the rate of the second Piola–Kirchhoff stress that reproduces the same Lie derivative of
the Kirchhoff stress as the source operator (rate of the Lie derivative of the Kirchhoff stress) does. -/
theorem N1_DS_DEGL__SPATIAL_MODULI (hc : c * c = 2) (h2 : (2:K) ≠ 0)
    (D : Nat → Nat → K) (F0 : M3 K) (f0 f1 f2 : K) (l0 l1 l2 : K) (s : Nat → K) (hJ : (dg f0 f1 f2).det ≠ 0) :
    upper (lamS (dg f0 f1 f2) (M3.ofMandel c [s 0, s 1, s 2]) (dg l0 l1 l2) (M3.ofMandel c (act (Gen.N1_DS_DEGL__SPATIAL_MODULI_r c c3 fn D (tensv F0) (tensv (dg f0 f1 f2)) s) (M3.mandel1 (dE (dg f0 f1 f2) (dg l0 l1 l2))))))
      = upper (lamSM (dg f0 f1 f2) (M3.ofMandel c [s 0, s 1, s 2]) (dg l0 l1 l2) (M3.ofMandel c (act (rowsOf D i3 i3) (M3.mandel1 (symm (dg l0 l1 l2)))))) := by
  have hc0 : c ≠ 0 := c_ne_zero hc h2
  obtain ⟨h0, h1, h2'⟩ := dg_det_ne hJ
  c23_rat0 hc

/-- `DSIG_DF ← DS_DEGL` (1D): along every variation `δF = L F` the converted operator, applied to the
rate of its kinematic variable, gives the rate of the Cauchy stress that reproduces the same Lie derivative of
the Kirchhoff stress as the source operator (rate of the second Piola–Kirchhoff stress) does. -/
theorem N1_DSIG_DF__DS_DEGL (hc : c * c = 2) (h2 : (2:K) ≠ 0)
    (D : Nat → Nat → K) (F0 : M3 K) (f0 f1 f2 : K) (l0 l1 l2 : K) (s : Nat → K) (hJ : (dg f0 f1 f2).det ≠ 0) :
    upper (lamSig (dg f0 f1 f2) (M3.ofMandel c [s 0, s 1, s 2]) (dg l0 l1 l2) (M3.ofMandel c (act (Gen.N1_DSIG_DF__DS_DEGL_r c c3 fn D (tensv F0) (tensv (dg f0 f1 f2)) s) (M3.tens1 ((dg l0 l1 l2) * (dg f0 f1 f2))))))
      = upper (lamS (dg f0 f1 f2) (M3.ofMandel c [s 0, s 1, s 2]) (dg l0 l1 l2) (M3.ofMandel c (act (rowsOf D i3 i3) (M3.mandel1 (dE (dg f0 f1 f2) (dg l0 l1 l2)))))) := by
  have hc0 : c ≠ 0 := c_ne_zero hc h2
  obtain ⟨h0, h1, h2'⟩ := dg_det_ne hJ
  c23_rat0 hc

/-- `DS_DF ← DS_DC` (1D): along every variation `δF = L F` the converted operator, applied to the
rate of its kinematic variable, gives the rate of the second Piola–Kirchhoff stress that reproduces the same Lie derivative of
the Kirchhoff stress as the source operator (rate of the second Piola–Kirchhoff stress) does. -/
theorem N1_DS_DF__DS_DC (hc : c * c = 2) (h2 : (2:K) ≠ 0)
    (D : Nat → Nat → K) (F0 : M3 K) (f0 f1 f2 : K) (l0 l1 l2 : K) (s : Nat → K)  :
    upper (lamS (dg f0 f1 f2) (M3.ofMandel c [s 0, s 1, s 2]) (dg l0 l1 l2) (M3.ofMandel c (act (Gen.N1_DS_DF__DS_DC_r c c3 fn D (tensv F0) (tensv (dg f0 f1 f2)) s) (M3.tens1 ((dg l0 l1 l2) * (dg f0 f1 f2))))))
      = upper (lamS (dg f0 f1 f2) (M3.ofMandel c [s 0, s 1, s 2]) (dg l0 l1 l2) (M3.ofMandel c (act (rowsOf D i3 i3) (M3.mandel1 (dC (dg f0 f1 f2) (dg l0 l1 l2)))))) := by
  have key : (act (Gen.N1_DS_DF__DS_DC_r c c3 fn D (tensv F0) (tensv (dg f0 f1 f2)) s) (M3.tens1 ((dg l0 l1 l2) * (dg f0 f1 f2))))
      = (act (rowsOf D i3 i3) (M3.mandel1 (dC (dg f0 f1 f2) (dg l0 l1 l2)))) := by
    have hc0 : c ≠ 0 := c_ne_zero hc h2
    c23_rat0 hc
  rw [key]

/-- `DS_DF ← DS_DEGL` (1D): along every variation `δF = L F` the converted operator, applied to the
rate of its kinematic variable, gives the rate of the second Piola–Kirchhoff stress that reproduces the same Lie derivative of
the Kirchhoff stress as the source operator (rate of the second Piola–Kirchhoff stress) does. -/
theorem N1_DS_DF__DS_DEGL (hc : c * c = 2) (h2 : (2:K) ≠ 0)
    (D : Nat → Nat → K) (F0 : M3 K) (f0 f1 f2 : K) (l0 l1 l2 : K) (s : Nat → K)  :
    upper (lamS (dg f0 f1 f2) (M3.ofMandel c [s 0, s 1, s 2]) (dg l0 l1 l2) (M3.ofMandel c (act (Gen.N1_DS_DF__DS_DEGL_r c c3 fn D (tensv F0) (tensv (dg f0 f1 f2)) s) (M3.tens1 ((dg l0 l1 l2) * (dg f0 f1 f2))))))
      = upper (lamS (dg f0 f1 f2) (M3.ofMandel c [s 0, s 1, s 2]) (dg l0 l1 l2) (M3.ofMandel c (act (rowsOf D i3 i3) (M3.mandel1 (dE (dg f0 f1 f2) (dg l0 l1 l2)))))) := by
  have key : (act (Gen.N1_DS_DF__DS_DEGL_r c c3 fn D (tensv F0) (tensv (dg f0 f1 f2)) s) (M3.tens1 ((dg l0 l1 l2) * (dg f0 f1 f2))))
      = (act (rowsOf D i3 i3) (M3.mandel1 (dE (dg f0 f1 f2) (dg l0 l1 l2)))) := by
    have hc0 : c ≠ 0 := c_ne_zero hc h2
    c23_rat0 hc
  rw [key]

/-- `ABAQUS ← SPATIAL_MODULI` (1D): along every variation `δF = L F` the converted operator, applied to the
rate of its kinematic variable, gives the rate of the Jaumann rate of the Kirchhoff stress / J that reproduces the same Lie derivative of
the Kirchhoff stress as the source operator (rate of the Lie derivative of the Kirchhoff stress) does. -/
theorem N1_ABAQUS__SPATIAL_MODULI (hc : c * c = 2) (h2 : (2:K) ≠ 0)
    (D : Nat → Nat → K) (F0 : M3 K) (f0 f1 f2 : K) (l0 l1 l2 : K) (s : Nat → K) (hJ : (dg f0 f1 f2).det ≠ 0) :
    upper (lamAb (dg f0 f1 f2) (M3.ofMandel c [s 0, s 1, s 2]) (dg l0 l1 l2) (M3.ofMandel c (act (Gen.N1_ABAQUS__SPATIAL_MODULI_r c c3 fn D (tensv F0) (tensv (dg f0 f1 f2)) s) (M3.mandel1 (symm (dg l0 l1 l2))))))
      = upper (lamSM (dg f0 f1 f2) (M3.ofMandel c [s 0, s 1, s 2]) (dg l0 l1 l2) (M3.ofMandel c (act (rowsOf D i3 i3) (M3.mandel1 (symm (dg l0 l1 l2)))))) := by
  have hc0 : c ≠ 0 := c_ne_zero hc h2
  obtain ⟨h0, h1, h2'⟩ := dg_det_ne hJ
  c23_rat0 hc

/-- `ABAQUS ← DS_DEGL` (1D): along every variation `δF = L F` the converted operator, applied to the
rate of its kinematic variable, gives the rate of the Jaumann rate of the Kirchhoff stress / J that reproduces the same Lie derivative of
the Kirchhoff stress as the source operator (rate of the second Piola–Kirchhoff stress) does. -/
theorem N1_ABAQUS__DS_DEGL (hc : c * c = 2) (h2 : (2:K) ≠ 0)
    (D : Nat → Nat → K) (F0 : M3 K) (f0 f1 f2 : K) (l0 l1 l2 : K) (s : Nat → K) (hJ : (dg f0 f1 f2).det ≠ 0) :
    upper (lamAb (dg f0 f1 f2) (M3.ofMandel c [s 0, s 1, s 2]) (dg l0 l1 l2) (M3.ofMandel c (act (Gen.N1_ABAQUS__DS_DEGL_r c c3 fn D (tensv F0) (tensv (dg f0 f1 f2)) s) (M3.mandel1 (symm (dg l0 l1 l2))))))
      = upper (lamS (dg f0 f1 f2) (M3.ofMandel c [s 0, s 1, s 2]) (dg l0 l1 l2) (M3.ofMandel c (act (rowsOf D i3 i3) (M3.mandel1 (dE (dg f0 f1 f2) (dg l0 l1 l2)))))) := by
  have hc0 : c ≠ 0 := c_ne_zero hc h2
  obtain ⟨h0, h1, h2'⟩ := dg_det_ne hJ
  c23_rat0 hc

/-- `DSIG_DF ← C_TRUESDELL` (1D): along every variation `δF = L F` the converted operator, applied to the
rate of its kinematic variable, gives the rate of the Cauchy stress that reproduces the same Lie derivative of
the Kirchhoff stress as the source operator (rate of the Truesdell rate of the Cauchy stress) does. -/
theorem N1_DSIG_DF__C_TRUESDELL (hc : c * c = 2) (h2 : (2:K) ≠ 0)
    (D : Nat → Nat → K) (F0 : M3 K) (f0 f1 f2 : K) (l0 l1 l2 : K) (s : Nat → K) (hJ : (dg f0 f1 f2).det ≠ 0) :
    upper (lamSig (dg f0 f1 f2) (M3.ofMandel c [s 0, s 1, s 2]) (dg l0 l1 l2) (M3.ofMandel c (act (Gen.N1_DSIG_DF__C_TRUESDELL_r c c3 fn D (tensv F0) (tensv (dg f0 f1 f2)) s) (M3.tens1 ((dg l0 l1 l2) * (dg f0 f1 f2))))))
      = upper (lamTr (dg f0 f1 f2) (M3.ofMandel c [s 0, s 1, s 2]) (dg l0 l1 l2) (M3.ofMandel c (act (rowsOf D i3 i3) (M3.mandel1 (symm (dg l0 l1 l2)))))) := by
  have hc0 : c ≠ 0 := c_ne_zero hc h2
  obtain ⟨h0, h1, h2'⟩ := dg_det_ne hJ
  c23_rat0 hc

/-- `SPATIAL_MODULI ← ABAQUS` (1D): along every variation `δF = L F` the converted operator, applied to the
rate of its kinematic variable, gives the rate of the Lie derivative of the Kirchhoff stress that reproduces the same Lie derivative of
the Kirchhoff stress as the source operator (rate of the Jaumann rate of the Kirchhoff stress / J) does. -/
theorem N1_SPATIAL_MODULI__ABAQUS (hc : c * c = 2) (h2 : (2:K) ≠ 0)
    (D : Nat → Nat → K) (F0 : M3 K) (f0 f1 f2 : K) (l0 l1 l2 : K) (s : Nat → K)  :
    upper (lamSM (dg f0 f1 f2) (M3.ofMandel c [s 0, s 1, s 2]) (dg l0 l1 l2) (M3.ofMandel c (act (Gen.N1_SPATIAL_MODULI__ABAQUS_r c c3 fn D (tensv F0) (tensv (dg f0 f1 f2)) s) (M3.mandel1 (symm (dg l0 l1 l2))))))
      = upper (lamAb (dg f0 f1 f2) (M3.ofMandel c [s 0, s 1, s 2]) (dg l0 l1 l2) (M3.ofMandel c (act (rowsOf D i3 i3) (M3.mandel1 (symm (dg l0 l1 l2)))))) := by
  have hc0 : c ≠ 0 := c_ne_zero hc h2
  c23_rat0 hc

/-- `C_TRUESDELL ← SPATIAL_MODULI` (1D): along every variation `δF = L F` the converted operator, applied to the
rate of its kinematic variable, gives the rate of the Truesdell rate of the Cauchy stress that reproduces the same Lie derivative of
the Kirchhoff stress as the source operator (rate of the Lie derivative of the Kirchhoff stress) does. -/
theorem N1_C_TRUESDELL__SPATIAL_MODULI (hc : c * c = 2) (h2 : (2:K) ≠ 0)
    (D : Nat → Nat → K) (F0 : M3 K) (f0 f1 f2 : K) (l0 l1 l2 : K) (s : Nat → K) (hJ : (dg f0 f1 f2).det ≠ 0) :
    upper (lamTr (dg f0 f1 f2) (M3.ofMandel c [s 0, s 1, s 2]) (dg l0 l1 l2) (M3.ofMandel c (act (Gen.N1_C_TRUESDELL__SPATIAL_MODULI_r c c3 fn D (tensv F0) (tensv (dg f0 f1 f2)) s) (M3.mandel1 (symm (dg l0 l1 l2))))))
      = upper (lamSM (dg f0 f1 f2) (M3.ofMandel c [s 0, s 1, s 2]) (dg l0 l1 l2) (M3.ofMandel c (act (rowsOf D i3 i3) (M3.mandel1 (symm (dg l0 l1 l2)))))) := by
  have hc0 : c ≠ 0 := c_ne_zero hc h2
  obtain ⟨h0, h1, h2'⟩ := dg_det_ne hJ
  c23_rat0 hc

/-- `C_TRUESDELL ← DS_DEGL` (1D): along every variation `δF = L F` the converted operator, applied to the
rate of its kinematic variable, gives the rate of the Truesdell rate of the Cauchy stress that reproduces the same Lie derivative of
the Kirchhoff stress as the source operator (rate of the second Piola–Kirchhoff stress) does. -/
theorem N1_C_TRUESDELL__DS_DEGL (hc : c * c = 2) (h2 : (2:K) ≠ 0)
    (D : Nat → Nat → K) (F0 : M3 K) (f0 f1 f2 : K) (l0 l1 l2 : K) (s : Nat → K) (hJ : (dg f0 f1 f2).det ≠ 0) :
    upper (lamTr (dg f0 f1 f2) (M3.ofMandel c [s 0, s 1, s 2]) (dg l0 l1 l2) (M3.ofMandel c (act (Gen.N1_C_TRUESDELL__DS_DEGL_r c c3 fn D (tensv F0) (tensv (dg f0 f1 f2)) s) (M3.mandel1 (symm (dg l0 l1 l2))))))
      = upper (lamS (dg f0 f1 f2) (M3.ofMandel c [s 0, s 1, s 2]) (dg l0 l1 l2) (M3.ofMandel c (act (rowsOf D i3 i3) (M3.mandel1 (dE (dg f0 f1 f2) (dg l0 l1 l2)))))) := by
  have hc0 : c ≠ 0 := c_ne_zero hc h2
  obtain ⟨h0, h1, h2'⟩ := dg_det_ne hJ
  c23_rat0 hc

/-- `SPATIAL_MODULI ← C_TRUESDELL` (1D): along every variation `δF = L F` the converted operator, applied to the
rate of its kinematic variable, gives the rate of the Lie derivative of the Kirchhoff stress that reproduces the same Lie derivative of
the Kirchhoff stress as the source operator (rate of the Truesdell rate of the Cauchy stress) does. -/
theorem N1_SPATIAL_MODULI__C_TRUESDELL (hc : c * c = 2) (h2 : (2:K) ≠ 0)
    (D : Nat → Nat → K) (F0 : M3 K) (f0 f1 f2 : K) (l0 l1 l2 : K) (s : Nat → K)  :
    upper (lamSM (dg f0 f1 f2) (M3.ofMandel c [s 0, s 1, s 2]) (dg l0 l1 l2) (M3.ofMandel c (act (Gen.N1_SPATIAL_MODULI__C_TRUESDELL_r c c3 fn D (tensv F0) (tensv (dg f0 f1 f2)) s) (M3.mandel1 (symm (dg l0 l1 l2))))))
      = upper (lamTr (dg f0 f1 f2) (M3.ofMandel c [s 0, s 1, s 2]) (dg l0 l1 l2) (M3.ofMandel c (act (rowsOf D i3 i3) (M3.mandel1 (symm (dg l0 l1 l2)))))) := by
  have hc0 : c ≠ 0 := c_ne_zero hc h2
  c23_rat0 hc

/-- `DSIG_DDF ← DSIG_DF` (1D): along every variation `δF = L F` the converted operator, applied to the
rate of its kinematic variable, gives the rate of the Cauchy stress that reproduces the same Lie derivative of
the Kirchhoff stress as the source operator (rate of the Cauchy stress) does. -/
theorem N1_DSIG_DDF__DSIG_DF (hc : c * c = 2) (h2 : (2:K) ≠ 0)
    (D : Nat → Nat → K) (g0 g1 g2 d0 d1 d2 : K) (l0 l1 l2 : K) (s : Nat → K)  :
    upper (lamSig ((dg d0 d1 d2) * (dg g0 g1 g2)) (M3.ofMandel c [s 0, s 1, s 2]) (dg l0 l1 l2) (M3.ofMandel c (act (Gen.N1_DSIG_DDF__DSIG_DF_r c c3 fn D (tensv (dg g0 g1 g2)) (tensv ((dg d0 d1 d2) * (dg g0 g1 g2))) s) (M3.tens1 ((dg l0 l1 l2) * (dg d0 d1 d2))))))
      = upper (lamSig ((dg d0 d1 d2) * (dg g0 g1 g2)) (M3.ofMandel c [s 0, s 1, s 2]) (dg l0 l1 l2) (M3.ofMandel c (act (rowsOf D i3 i3) (M3.tens1 ((dg l0 l1 l2) * ((dg d0 d1 d2) * (dg g0 g1 g2))))))) := by
  have key : (act (Gen.N1_DSIG_DDF__DSIG_DF_r c c3 fn D (tensv (dg g0 g1 g2)) (tensv ((dg d0 d1 d2) * (dg g0 g1 g2))) s) (M3.tens1 ((dg l0 l1 l2) * (dg d0 d1 d2))))
      = (act (rowsOf D i3 i3) (M3.tens1 ((dg l0 l1 l2) * ((dg d0 d1 d2) * (dg g0 g1 g2))))) := by
    have hc0 : c ≠ 0 := c_ne_zero hc h2
    c23_rat0 hc
  rw [key]

/-- `DSIG_DF ← DSIG_DDF` (1D): along every variation `δF = L F` the converted operator, applied to the
rate of its kinematic variable, gives the rate of the Cauchy stress that reproduces the same Lie derivative of
the Kirchhoff stress as the source operator (rate of the Cauchy stress) does. -/
theorem N1_DSIG_DF__DSIG_DDF (hc : c * c = 2) (h2 : (2:K) ≠ 0)
    (D : Nat → Nat → K) (g0 g1 g2 d0 d1 d2 : K) (l0 l1 l2 : K) (s : Nat → K) (hJ : (dg g0 g1 g2).det ≠ 0) :
    upper (lamSig ((dg d0 d1 d2) * (dg g0 g1 g2)) (M3.ofMandel c [s 0, s 1, s 2]) (dg l0 l1 l2) (M3.ofMandel c (act (Gen.N1_DSIG_DF__DSIG_DDF_r c c3 fn D (tensv (dg g0 g1 g2)) (tensv ((dg d0 d1 d2) * (dg g0 g1 g2))) s) (M3.tens1 ((dg l0 l1 l2) * ((dg d0 d1 d2) * (dg g0 g1 g2)))))))
      = upper (lamSig ((dg d0 d1 d2) * (dg g0 g1 g2)) (M3.ofMandel c [s 0, s 1, s 2]) (dg l0 l1 l2) (M3.ofMandel c (act (rowsOf D i3 i3) (M3.tens1 ((dg l0 l1 l2) * (dg d0 d1 d2)))))) := by
  have key : (act (Gen.N1_DSIG_DF__DSIG_DDF_r c c3 fn D (tensv (dg g0 g1 g2)) (tensv ((dg d0 d1 d2) * (dg g0 g1 g2))) s) (M3.tens1 ((dg l0 l1 l2) * ((dg d0 d1 d2) * (dg g0 g1 g2)))))
      = (act (rowsOf D i3 i3) (M3.tens1 ((dg l0 l1 l2) * (dg d0 d1 d2)))) := by
    have hc0 : c ≠ 0 := c_ne_zero hc h2
    obtain ⟨h0, h1, h2'⟩ := dg_det_ne hJ
    c23_rat0 hc
  rw [key]

/-- `DTAU_DDF ← DTAU_DF` (1D): along every variation `δF = L F` the converted operator, applied to the
rate of its kinematic variable, gives the rate of the Kirchhoff stress that reproduces the same Lie derivative of
the Kirchhoff stress as the source operator (rate of the Kirchhoff stress) does. -/
theorem N1_DTAU_DDF__DTAU_DF (hc : c * c = 2) (h2 : (2:K) ≠ 0)
    (D : Nat → Nat → K) (g0 g1 g2 d0 d1 d2 : K) (l0 l1 l2 : K) (s : Nat → K)  :
    upper (lamTau ((dg d0 d1 d2) * (dg g0 g1 g2)) (M3.ofMandel c [s 0, s 1, s 2]) (dg l0 l1 l2) (M3.ofMandel c (act (Gen.N1_DTAU_DDF__DTAU_DF_r c c3 fn D (tensv (dg g0 g1 g2)) (tensv ((dg d0 d1 d2) * (dg g0 g1 g2))) s) (M3.tens1 ((dg l0 l1 l2) * (dg d0 d1 d2))))))
      = upper (lamTau ((dg d0 d1 d2) * (dg g0 g1 g2)) (M3.ofMandel c [s 0, s 1, s 2]) (dg l0 l1 l2) (M3.ofMandel c (act (rowsOf D i3 i3) (M3.tens1 ((dg l0 l1 l2) * ((dg d0 d1 d2) * (dg g0 g1 g2))))))) := by
  have key : (act (Gen.N1_DTAU_DDF__DTAU_DF_r c c3 fn D (tensv (dg g0 g1 g2)) (tensv ((dg d0 d1 d2) * (dg g0 g1 g2))) s) (M3.tens1 ((dg l0 l1 l2) * (dg d0 d1 d2))))
      = (act (rowsOf D i3 i3) (M3.tens1 ((dg l0 l1 l2) * ((dg d0 d1 d2) * (dg g0 g1 g2))))) := by
    have hc0 : c ≠ 0 := c_ne_zero hc h2
    c23_rat0 hc
  rw [key]

/-- `DTAU_DF ← DTAU_DDF` (1D): along every variation `δF = L F` the converted operator, applied to the
rate of its kinematic variable, gives the rate of the Kirchhoff stress that reproduces the same Lie derivative of
the Kirchhoff stress as the source operator (rate of the Kirchhoff stress) does. -/
theorem N1_DTAU_DF__DTAU_DDF (hc : c * c = 2) (h2 : (2:K) ≠ 0)
    (D : Nat → Nat → K) (g0 g1 g2 d0 d1 d2 : K) (l0 l1 l2 : K) (s : Nat → K) (hJ : (dg g0 g1 g2).det ≠ 0) :
    upper (lamTau ((dg d0 d1 d2) * (dg g0 g1 g2)) (M3.ofMandel c [s 0, s 1, s 2]) (dg l0 l1 l2) (M3.ofMandel c (act (Gen.N1_DTAU_DF__DTAU_DDF_r c c3 fn D (tensv (dg g0 g1 g2)) (tensv ((dg d0 d1 d2) * (dg g0 g1 g2))) s) (M3.tens1 ((dg l0 l1 l2) * ((dg d0 d1 d2) * (dg g0 g1 g2)))))))
      = upper (lamTau ((dg d0 d1 d2) * (dg g0 g1 g2)) (M3.ofMandel c [s 0, s 1, s 2]) (dg l0 l1 l2) (M3.ofMandel c (act (rowsOf D i3 i3) (M3.tens1 ((dg l0 l1 l2) * (dg d0 d1 d2)))))) := by
  have key : (act (Gen.N1_DTAU_DF__DTAU_DDF_r c c3 fn D (tensv (dg g0 g1 g2)) (tensv ((dg d0 d1 d2) * (dg g0 g1 g2))) s) (M3.tens1 ((dg l0 l1 l2) * ((dg d0 d1 d2) * (dg g0 g1 g2)))))
      = (act (rowsOf D i3 i3) (M3.tens1 ((dg l0 l1 l2) * (dg d0 d1 d2)))) := by
    have hc0 : c ≠ 0 := c_ne_zero hc h2
    obtain ⟨h0, h1, h2'⟩ := dg_det_ne hJ
    c23_rat0 hc
  rw [key]

/-- `DSIG_DF ← DTAU_DF` (1D): along every variation `δF = L F` the converted operator, applied to the
rate of its kinematic variable, gives the rate of the Cauchy stress that reproduces the same Lie derivative of
the Kirchhoff stress as the source operator (rate of the Kirchhoff stress) does. -/
theorem N1_DSIG_DF__DTAU_DF (hc : c * c = 2) (h2 : (2:K) ≠ 0)
    (D : Nat → Nat → K) (F0 : M3 K) (f0 f1 f2 : K) (l0 l1 l2 : K) (s : Nat → K) (hJ : (dg f0 f1 f2).det ≠ 0) :
    upper (lamSig (dg f0 f1 f2) (M3.ofMandel c [s 0, s 1, s 2]) (dg l0 l1 l2) (M3.ofMandel c (act (Gen.N1_DSIG_DF__DTAU_DF_r c c3 fn D (tensv F0) (tensv (dg f0 f1 f2)) s) (M3.tens1 ((dg l0 l1 l2) * (dg f0 f1 f2))))))
      = upper (lamTau (dg f0 f1 f2) (M3.ofMandel c [s 0, s 1, s 2]) (dg l0 l1 l2) (M3.ofMandel c (act (rowsOf D i3 i3) (M3.tens1 ((dg l0 l1 l2) * (dg f0 f1 f2)))))) := by
  have hc0 : c ≠ 0 := c_ne_zero hc h2
  obtain ⟨h0, h1, h2'⟩ := dg_det_ne hJ
  c23_rat0 hc

/-- `DTAU_DF ← DS_DF` (1D): along every variation `δF = L F` the converted operator, applied to the
rate of its kinematic variable, gives the rate of the Kirchhoff stress that reproduces the same Lie derivative of
the Kirchhoff stress as the source operator (rate of the second Piola–Kirchhoff stress) does. -/
theorem N1_DTAU_DF__DS_DF (hc : c * c = 2) (h2 : (2:K) ≠ 0)
    (D : Nat → Nat → K) (F0 : M3 K) (f0 f1 f2 : K) (l0 l1 l2 : K) (s : Nat → K) (hJ : (dg f0 f1 f2).det ≠ 0) :
    upper (lamTau (dg f0 f1 f2) (M3.ofMandel c [s 0, s 1, s 2]) (dg l0 l1 l2) (M3.ofMandel c (act (Gen.N1_DTAU_DF__DS_DF_r c c3 fn D (tensv F0) (tensv (dg f0 f1 f2)) s) (M3.tens1 ((dg l0 l1 l2) * (dg f0 f1 f2))))))
      = upper (lamS (dg f0 f1 f2) (M3.ofMandel c [s 0, s 1, s 2]) (dg l0 l1 l2) (M3.ofMandel c (act (rowsOf D i3 i3) (M3.tens1 ((dg l0 l1 l2) * (dg f0 f1 f2)))))) := by
  have hc0 : c ≠ 0 := c_ne_zero hc h2
  obtain ⟨h0, h1, h2'⟩ := dg_det_ne hJ
  c23_rat0 hc

/-- `SPATIAL_MODULI ← DTAU_DF` (1D): along every variation `δF = L F` with symmetric `L` the converted operator, applied to the
rate of its kinematic variable, gives the rate of the Lie derivative of the Kirchhoff stress that reproduces the same Lie derivative of
the Kirchhoff stress as the source operator (rate of the Kirchhoff stress) does. -/
theorem N1_SPATIAL_MODULI__DTAU_DF (hc : c * c = 2) (h2 : (2:K) ≠ 0)
    (D : Nat → Nat → K) (F0 : M3 K) (f0 f1 f2 : K) (l0 l1 l2 : K) (s : Nat → K)  :
    upper (lamSM (dg f0 f1 f2) (M3.ofMandel c [s 0, s 1, s 2]) (dg l0 l1 l2) (M3.ofMandel c (act (Gen.N1_SPATIAL_MODULI__DTAU_DF_r c c3 fn D (tensv F0) (tensv (dg f0 f1 f2)) s) (M3.mandel1 (symm (dg l0 l1 l2))))))
      = upper (lamTau (dg f0 f1 f2) (M3.ofMandel c [s 0, s 1, s 2]) (dg l0 l1 l2) (M3.ofMandel c (act (rowsOf D i3 i3) (M3.tens1 ((dg l0 l1 l2) * (dg f0 f1 f2)))))) := by
  have hc0 : c ≠ 0 := c_ne_zero hc h2
  c23_rat0 hc

/-- `C_TAU_JAUMANN ← DTAU_DF` (1D): along every variation `δF = L F` with symmetric `L` the converted operator, applied to the
rate of its kinematic variable, gives the rate of the Jaumann rate of the Kirchhoff stress that reproduces the same Lie derivative of
the Kirchhoff stress as the source operator (rate of the Kirchhoff stress) does. -/
theorem N1_C_TAU_JAUMANN__DTAU_DF (hc : c * c = 2) (h2 : (2:K) ≠ 0)
    (D : Nat → Nat → K) (F0 : M3 K) (f0 f1 f2 : K) (l0 l1 l2 : K) (s : Nat → K)  :
    upper (lamJ (dg f0 f1 f2) (M3.ofMandel c [s 0, s 1, s 2]) (dg l0 l1 l2) (M3.ofMandel c (act (Gen.N1_C_TAU_JAUMANN__DTAU_DF_r c c3 fn D (tensv F0) (tensv (dg f0 f1 f2)) s) (M3.mandel1 (symm (dg l0 l1 l2))))))
      = upper (lamTau (dg f0 f1 f2) (M3.ofMandel c [s 0, s 1, s 2]) (dg l0 l1 l2) (M3.ofMandel c (act (rowsOf D i3 i3) (M3.tens1 ((dg l0 l1 l2) * (dg f0 f1 f2)))))) := by
  have hc0 : c ≠ 0 := c_ne_zero hc h2
  c23_rat0 hc

/-- `C_TRUESDELL ← DTAU_DF` (1D): along every variation `δF = L F` with symmetric `L` the converted operator, applied to the
rate of its kinematic variable, gives the rate of the Truesdell rate of the Cauchy stress that reproduces the same Lie derivative of
the Kirchhoff stress as the source operator (rate of the Kirchhoff stress) does. -/
theorem N1_C_TRUESDELL__DTAU_DF (hc : c * c = 2) (h2 : (2:K) ≠ 0)
    (D : Nat → Nat → K) (F0 : M3 K) (f0 f1 f2 : K) (l0 l1 l2 : K) (s : Nat → K) (hJ : (dg f0 f1 f2).det ≠ 0) :
    upper (lamTr (dg f0 f1 f2) (M3.ofMandel c [s 0, s 1, s 2]) (dg l0 l1 l2) (M3.ofMandel c (act (Gen.N1_C_TRUESDELL__DTAU_DF_r c c3 fn D (tensv F0) (tensv (dg f0 f1 f2)) s) (M3.mandel1 (symm (dg l0 l1 l2))))))
      = upper (lamTau (dg f0 f1 f2) (M3.ofMandel c [s 0, s 1, s 2]) (dg l0 l1 l2) (M3.ofMandel c (act (rowsOf D i3 i3) (M3.tens1 ((dg l0 l1 l2) * (dg f0 f1 f2)))))) := by
  have hc0 : c ≠ 0 := c_ne_zero hc h2
  obtain ⟨h0, h1, h2'⟩ := dg_det_ne hJ
  c23_rat0 hc

/-- `ABAQUS ← C_TAU_JAUMANN` (1D): along every variation `δF = L F` the converted operator, applied to the
rate of its kinematic variable, gives the rate of the Jaumann rate of the Kirchhoff stress / J that reproduces the same Lie derivative of
the Kirchhoff stress as the source operator (rate of the Jaumann rate of the Kirchhoff stress) does. -/
theorem N1_ABAQUS__C_TAU_JAUMANN (hc : c * c = 2) (h2 : (2:K) ≠ 0)
    (D : Nat → Nat → K) (F0 : M3 K) (f0 f1 f2 : K) (l0 l1 l2 : K) (s : Nat → K) (hJ : (dg f0 f1 f2).det ≠ 0) :
    upper (lamAb (dg f0 f1 f2) (M3.ofMandel c [s 0, s 1, s 2]) (dg l0 l1 l2) (M3.ofMandel c (act (Gen.N1_ABAQUS__C_TAU_JAUMANN_r c c3 fn D (tensv F0) (tensv (dg f0 f1 f2)) s) (M3.mandel1 (symm (dg l0 l1 l2))))))
      = upper (lamJ (dg f0 f1 f2) (M3.ofMandel c [s 0, s 1, s 2]) (dg l0 l1 l2) (M3.ofMandel c (act (rowsOf D i3 i3) (M3.mandel1 (symm (dg l0 l1 l2)))))) := by
  have hc0 : c ≠ 0 := c_ne_zero hc h2
  obtain ⟨h0, h1, h2'⟩ := dg_det_ne hJ
  c23_rat0 hc

/-- `C_TAU_JAUMANN ← ABAQUS` (1D): along every variation `δF = L F` the converted operator, applied to the
rate of its kinematic variable, gives the rate of the Jaumann rate of the Kirchhoff stress that reproduces the same Lie derivative of
the Kirchhoff stress as the source operator (rate of the Jaumann rate of the Kirchhoff stress / J) does. -/
theorem N1_C_TAU_JAUMANN__ABAQUS (hc : c * c = 2) (h2 : (2:K) ≠ 0)
    (D : Nat → Nat → K) (F0 : M3 K) (f0 f1 f2 : K) (l0 l1 l2 : K) (s : Nat → K)  :
    upper (lamJ (dg f0 f1 f2) (M3.ofMandel c [s 0, s 1, s 2]) (dg l0 l1 l2) (M3.ofMandel c (act (Gen.N1_C_TAU_JAUMANN__ABAQUS_r c c3 fn D (tensv F0) (tensv (dg f0 f1 f2)) s) (M3.mandel1 (symm (dg l0 l1 l2))))))
      = upper (lamAb (dg f0 f1 f2) (M3.ofMandel c [s 0, s 1, s 2]) (dg l0 l1 l2) (M3.ofMandel c (act (rowsOf D i3 i3) (M3.mandel1 (symm (dg l0 l1 l2)))))) := by
  have hc0 : c ≠ 0 := c_ne_zero hc h2
  c23_rat0 hc

/-- `C_TAU_JAUMANN ← SPATIAL_MODULI` (1D): along every variation `δF = L F` the converted operator, applied to the
rate of its kinematic variable, gives the rate of the Jaumann rate of the Kirchhoff stress that reproduces the same Lie derivative of
the Kirchhoff stress as the source operator (rate of the Lie derivative of the Kirchhoff stress) does. -/
theorem N1_C_TAU_JAUMANN__SPATIAL_MODULI (hc : c * c = 2) (h2 : (2:K) ≠ 0)
    (D : Nat → Nat → K) (F0 : M3 K) (f0 f1 f2 : K) (l0 l1 l2 : K) (s : Nat → K)  :
    upper (lamJ (dg f0 f1 f2) (M3.ofMandel c [s 0, s 1, s 2]) (dg l0 l1 l2) (M3.ofMandel c (act (Gen.N1_C_TAU_JAUMANN__SPATIAL_MODULI_r c c3 fn D (tensv F0) (tensv (dg f0 f1 f2)) s) (M3.mandel1 (symm (dg l0 l1 l2))))))
      = upper (lamSM (dg f0 f1 f2) (M3.ofMandel c [s 0, s 1, s 2]) (dg l0 l1 l2) (M3.ofMandel c (act (rowsOf D i3 i3) (M3.mandel1 (symm (dg l0 l1 l2)))))) := by
  have hc0 : c ≠ 0 := c_ne_zero hc h2
  c23_rat0 hc

/-- `SPATIAL_MODULI ← C_TAU_JAUMANN` (1D): along every variation `δF = L F` the converted operator, applied to the
rate of its kinematic variable, gives the rate of the Lie derivative of the Kirchhoff stress that reproduces the same Lie derivative of
the Kirchhoff stress as the source operator (rate of the Jaumann rate of the Kirchhoff stress) does. -/
theorem N1_SPATIAL_MODULI__C_TAU_JAUMANN (hc : c * c = 2) (h2 : (2:K) ≠ 0)
    (D : Nat → Nat → K) (F0 : M3 K) (f0 f1 f2 : K) (l0 l1 l2 : K) (s : Nat → K)  :
    upper (lamSM (dg f0 f1 f2) (M3.ofMandel c [s 0, s 1, s 2]) (dg l0 l1 l2) (M3.ofMandel c (act (Gen.N1_SPATIAL_MODULI__C_TAU_JAUMANN_r c c3 fn D (tensv F0) (tensv (dg f0 f1 f2)) s) (M3.mandel1 (symm (dg l0 l1 l2))))))
      = upper (lamJ (dg f0 f1 f2) (M3.ofMandel c [s 0, s 1, s 2]) (dg l0 l1 l2) (M3.ofMandel c (act (rowsOf D i3 i3) (M3.mandel1 (symm (dg l0 l1 l2)))))) := by
  have hc0 : c ≠ 0 := c_ne_zero hc h2
  c23_rat0 hc

/-- `ABAQUS ← DTAU_DF` (1D): along every variation `δF = L F` with symmetric `L` the converted operator, applied to the
rate of its kinematic variable, gives the rate of the Jaumann rate of the Kirchhoff stress / J that reproduces the same Lie derivative of
the Kirchhoff stress as the source operator (rate of the Kirchhoff stress) does. -/
theorem N1_ABAQUS__DTAU_DF (hc : c * c = 2) (h2 : (2:K) ≠ 0)
    (D : Nat → Nat → K) (F0 : M3 K) (f0 f1 f2 : K) (l0 l1 l2 : K) (s : Nat → K) (hJ : (dg f0 f1 f2).det ≠ 0) :
    upper (lamAb (dg f0 f1 f2) (M3.ofMandel c [s 0, s 1, s 2]) (dg l0 l1 l2) (M3.ofMandel c (act (Gen.N1_ABAQUS__DTAU_DF_r c c3 fn D (tensv F0) (tensv (dg f0 f1 f2)) s) (M3.mandel1 (symm (dg l0 l1 l2))))))
      = upper (lamTau (dg f0 f1 f2) (M3.ofMandel c [s 0, s 1, s 2]) (dg l0 l1 l2) (M3.ofMandel c (act (rowsOf D i3 i3) (M3.tens1 ((dg l0 l1 l2) * (dg f0 f1 f2)))))) := by
  have hc0 : c ≠ 0 := c_ne_zero hc h2
  obtain ⟨h0, h1, h2'⟩ := dg_det_ne hJ
  c23_rat0 hc

/-- `DTAU_DF ← C_TAU_JAUMANN` (1D): along every variation `δF = L F` the converted operator, applied to the
rate of its kinematic variable, gives the rate of the Kirchhoff stress that reproduces the same Lie derivative of
the Kirchhoff stress as the source operator (rate of the Jaumann rate of the Kirchhoff stress) does. -/
theorem N1_DTAU_DF__C_TAU_JAUMANN (hc : c * c = 2) (h2 : (2:K) ≠ 0)
    (D : Nat → Nat → K) (F0 : M3 K) (f0 f1 f2 : K) (l0 l1 l2 : K) (s : Nat → K) (hJ : (dg f0 f1 f2).det ≠ 0) :
    upper (lamTau (dg f0 f1 f2) (M3.ofMandel c [s 0, s 1, s 2]) (dg l0 l1 l2) (M3.ofMandel c (act (Gen.N1_DTAU_DF__C_TAU_JAUMANN_r c c3 fn D (tensv F0) (tensv (dg f0 f1 f2)) s) (M3.tens1 ((dg l0 l1 l2) * (dg f0 f1 f2))))))
      = upper (lamJ (dg f0 f1 f2) (M3.ofMandel c [s 0, s 1, s 2]) (dg l0 l1 l2) (M3.ofMandel c (act (rowsOf D i3 i3) (M3.mandel1 (symm (dg l0 l1 l2)))))) := by
  have hc0 : c ≠ 0 := c_ne_zero hc h2
  obtain ⟨h0, h1, h2'⟩ := dg_det_ne hJ
  c23_rat0 hc

/-- `DTAU_DF ← ABAQUS` (1D): along every variation `δF = L F` the converted operator, applied to the
rate of its kinematic variable, gives the rate of the Kirchhoff stress that reproduces the same Lie derivative of
the Kirchhoff stress as the source operator (rate of the Jaumann rate of the Kirchhoff stress / J) does. -/
theorem N1_DTAU_DF__ABAQUS (hc : c * c = 2) (h2 : (2:K) ≠ 0)
    (D : Nat → Nat → K) (F0 : M3 K) (f0 f1 f2 : K) (l0 l1 l2 : K) (s : Nat → K) (hJ : (dg f0 f1 f2).det ≠ 0) :
    upper (lamTau (dg f0 f1 f2) (M3.ofMandel c [s 0, s 1, s 2]) (dg l0 l1 l2) (M3.ofMandel c (act (Gen.N1_DTAU_DF__ABAQUS_r c c3 fn D (tensv F0) (tensv (dg f0 f1 f2)) s) (M3.tens1 ((dg l0 l1 l2) * (dg f0 f1 f2))))))
      = upper (lamAb (dg f0 f1 f2) (M3.ofMandel c [s 0, s 1, s 2]) (dg l0 l1 l2) (M3.ofMandel c (act (rowsOf D i3 i3) (M3.mandel1 (symm (dg l0 l1 l2)))))) := by
  have hc0 : c ≠ 0 := c_ne_zero hc h2
  obtain ⟨h0, h1, h2'⟩ := dg_det_ne hJ
  c23_rat0 hc

/-- `DTAU_DF ← SPATIAL_MODULI` (1D): along every variation `δF = L F` the converted operator, applied to the
rate of its kinematic variable, gives the rate of the Kirchhoff stress that reproduces the same Lie derivative of
the Kirchhoff stress as the source operator (rate of the Lie derivative of the Kirchhoff stress) does. -/
theorem N1_DTAU_DF__SPATIAL_MODULI (hc : c * c = 2) (h2 : (2:K) ≠ 0)
    (D : Nat → Nat → K) (F0 : M3 K) (f0 f1 f2 : K) (l0 l1 l2 : K) (s : Nat → K) (hJ : (dg f0 f1 f2).det ≠ 0) :
    upper (lamTau (dg f0 f1 f2) (M3.ofMandel c [s 0, s 1, s 2]) (dg l0 l1 l2) (M3.ofMandel c (act (Gen.N1_DTAU_DF__SPATIAL_MODULI_r c c3 fn D (tensv F0) (tensv (dg f0 f1 f2)) s) (M3.tens1 ((dg l0 l1 l2) * (dg f0 f1 f2))))))
      = upper (lamSM (dg f0 f1 f2) (M3.ofMandel c [s 0, s 1, s 2]) (dg l0 l1 l2) (M3.ofMandel c (act (rowsOf D i3 i3) (M3.mandel1 (symm (dg l0 l1 l2)))))) := by
  have hc0 : c ≠ 0 := c_ne_zero hc h2
  obtain ⟨h0, h1, h2'⟩ := dg_det_ne hJ
  c23_rat0 hc

/-- `DSIG_DF ← ABAQUS` (1D): along every variation `δF = L F` the converted operator, applied to the
rate of its kinematic variable, gives the rate of the Cauchy stress that reproduces the same Lie derivative of
the Kirchhoff stress as the source operator (rate of the Jaumann rate of the Kirchhoff stress / J) does. -/
theorem N1_DSIG_DF__ABAQUS (hc : c * c = 2) (h2 : (2:K) ≠ 0)
    (D : Nat → Nat → K) (F0 : M3 K) (f0 f1 f2 : K) (l0 l1 l2 : K) (s : Nat → K) (hJ : (dg f0 f1 f2).det ≠ 0) :
    upper (lamSig (dg f0 f1 f2) (M3.ofMandel c [s 0, s 1, s 2]) (dg l0 l1 l2) (M3.ofMandel c (act (Gen.N1_DSIG_DF__ABAQUS_r c c3 fn D (tensv F0) (tensv (dg f0 f1 f2)) s) (M3.tens1 ((dg l0 l1 l2) * (dg f0 f1 f2))))))
      = upper (lamAb (dg f0 f1 f2) (M3.ofMandel c [s 0, s 1, s 2]) (dg l0 l1 l2) (M3.ofMandel c (act (rowsOf D i3 i3) (M3.mandel1 (symm (dg l0 l1 l2)))))) := by
  have hc0 : c ≠ 0 := c_ne_zero hc h2
  obtain ⟨h0, h1, h2'⟩ := dg_det_ne hJ
  c23_rat0 hc

/-- `DPK1_DF ← DSIG_DF` (1D): along every variation `δF = L F` the converted operator, applied to the
rate of its kinematic variable, gives the rate of the first Piola–Kirchhoff stress that reproduces the same Lie derivative of
the Kirchhoff stress as the source operator (rate of the Cauchy stress) does. -/
theorem N1_DPK1_DF__DSIG_DF (hc : c * c = 2) (h2 : (2:K) ≠ 0)
    (D : Nat → Nat → K) (F0 : M3 K) (f0 f1 f2 : K) (l0 l1 l2 : K) (s : Nat → K)  :
    M3.tens3 (lamP (dg f0 f1 f2) (M3.ofMandel c [s 0, s 1, s 2]) (dg l0 l1 l2) (M3.ofTens (act (Gen.N1_DPK1_DF__DSIG_DF_r c c3 fn D (tensv F0) (tensv (dg f0 f1 f2)) s) (M3.tens1 ((dg l0 l1 l2) * (dg f0 f1 f2))))))
      = M3.tens3 (lamSig (dg f0 f1 f2) (M3.ofMandel c [s 0, s 1, s 2]) (dg l0 l1 l2) (M3.ofMandel c (act (rowsOf D i3 i3) (M3.tens1 ((dg l0 l1 l2) * (dg f0 f1 f2)))))) := by
  have hc0 : c ≠ 0 := c_ne_zero hc h2
  c23_rat0 hc

/-- `DTAU_DF ← DPK1_DF` (1D): along every variation `δF = L F` the converted operator, applied to the
rate of its kinematic variable, gives the rate of the Kirchhoff stress that reproduces the same Lie derivative of
the Kirchhoff stress as the source operator (rate of the first Piola–Kirchhoff stress) does. -/
theorem N1_DTAU_DF__DPK1_DF (hc : c * c = 2) (h2 : (2:K) ≠ 0)
    (D : Nat → Nat → K) (F0 : M3 K) (f0 f1 f2 : K) (l0 l1 l2 : K) (s : Nat → K)  :
    lower (lamTau (dg f0 f1 f2) (M3.ofMandel c [s 0, s 1, s 2]) (dg l0 l1 l2) (M3.ofMandel c (act (Gen.N1_DTAU_DF__DPK1_DF_r c c3 fn D (tensv F0) (tensv (dg f0 f1 f2)) s) (M3.tens1 ((dg l0 l1 l2) * (dg f0 f1 f2))))))
      = lower (lamP (dg f0 f1 f2) (M3.ofMandel c [s 0, s 1, s 2]) (dg l0 l1 l2) (M3.ofTens (act (rowsOf D i3 i3) (M3.tens1 ((dg l0 l1 l2) * (dg f0 f1 f2)))))) := by
  have hc0 : c ≠ 0 := c_ne_zero hc h2
  c23_rat0 hc

/-- `DSIG_DF ← DPK1_DF` (1D): along every variation `δF = L F` the converted operator, applied to the
rate of its kinematic variable, gives the rate of the Cauchy stress that reproduces the same Lie derivative of
the Kirchhoff stress as the source operator (rate of the first Piola–Kirchhoff stress) does. -/
theorem N1_DSIG_DF__DPK1_DF (hc : c * c = 2) (h2 : (2:K) ≠ 0)
    (D : Nat → Nat → K) (F0 : M3 K) (f0 f1 f2 : K) (l0 l1 l2 : K) (s : Nat → K) (hJ : (dg f0 f1 f2).det ≠ 0) :
    lower (lamSig (dg f0 f1 f2) (M3.ofMandel c [s 0, s 1, s 2]) (dg l0 l1 l2) (M3.ofMandel c (act (Gen.N1_DSIG_DF__DPK1_DF_r c c3 fn D (tensv F0) (tensv (dg f0 f1 f2)) s) (M3.tens1 ((dg l0 l1 l2) * (dg f0 f1 f2))))))
      = lower (lamP (dg f0 f1 f2) (M3.ofMandel c [s 0, s 1, s 2]) (dg l0 l1 l2) (M3.ofTens (act (rowsOf D i3 i3) (M3.tens1 ((dg l0 l1 l2) * (dg f0 f1 f2)))))) := by
  have hc0 : c ≠ 0 := c_ne_zero hc h2
  obtain ⟨h0, h1, h2'⟩ := dg_det_ne hJ
  c23_rat0 hc

/-- `DPK1_DF ← DS_DEGL` (1D): along every variation `δF = L F` the converted operator, applied to the
rate of its kinematic variable, gives the rate of the first Piola–Kirchhoff stress that reproduces the same Lie derivative of
the Kirchhoff stress as the source operator (rate of the second Piola–Kirchhoff stress) does. -/
theorem N1_DPK1_DF__DS_DEGL (hc : c * c = 2) (h2 : (2:K) ≠ 0)
    (D : Nat → Nat → K) (F0 : M3 K) (f0 f1 f2 : K) (l0 l1 l2 : K) (s : Nat → K) (hJ : (dg f0 f1 f2).det ≠ 0) :
    M3.tens3 (lamP (dg f0 f1 f2) (M3.ofMandel c [s 0, s 1, s 2]) (dg l0 l1 l2) (M3.ofTens (act (Gen.N1_DPK1_DF__DS_DEGL_r c c3 fn D (tensv F0) (tensv (dg f0 f1 f2)) s) (M3.tens1 ((dg l0 l1 l2) * (dg f0 f1 f2))))))
      = M3.tens3 (lamS (dg f0 f1 f2) (M3.ofMandel c [s 0, s 1, s 2]) (dg l0 l1 l2) (M3.ofMandel c (act (rowsOf D i3 i3) (M3.mandel1 (dE (dg f0 f1 f2) (dg l0 l1 l2)))))) := by
  have hc0 : c ≠ 0 := c_ne_zero hc h2
  obtain ⟨h0, h1, h2'⟩ := dg_det_ne hJ
  c23_rat0 hc

end TfelVerif.C23.PropsN1
