/-
  C23 — tangent operator converters `tfel::material::convert<To, From>` (property theorems only).
  core of `DPK1_DF ← DS_DEGL` (3D), assembled from the nine component modules.
  `Gen.N<d>_<TO>__<FROM>_r c c3 fn D f g s` is the stored result (list of rows) of the traced converter
  for the source operator `D` (arbitrary symbols, stored matrix), `F0` (`f`), `F1` (`g`) and the stored
  Cauchy stress `s`. The meaning of every flag (`lam*`, kinematic rates) is in Spec.lean. Each theorem
  holds for every source operator, every deformation gradient, every stress and every variation.
-/
import TfelVerif.Common.M3
import TfelVerif.C23.Spec
import TfelVerif.C23.Lemmas
import TfelVerif.C23.GenN3_DPK1_DF__DS_DEGL_core
import TfelVerif.C23.PropsN3_DPK1_DF__DS_DEGL_core_aux0
import TfelVerif.C23.PropsN3_DPK1_DF__DS_DEGL_core_aux1
import TfelVerif.C23.PropsN3_DPK1_DF__DS_DEGL_core_aux2
import TfelVerif.C23.PropsN3_DPK1_DF__DS_DEGL_core_aux3
import TfelVerif.C23.PropsN3_DPK1_DF__DS_DEGL_core_aux4
import TfelVerif.C23.PropsN3_DPK1_DF__DS_DEGL_core_aux5
import TfelVerif.C23.PropsN3_DPK1_DF__DS_DEGL_core_aux6
import TfelVerif.C23.PropsN3_DPK1_DF__DS_DEGL_core_aux7
import TfelVerif.C23.PropsN3_DPK1_DF__DS_DEGL_core_aux8

namespace TfelVerif.C23.PropsN3_DPK1_DF__DS_DEGL_core
open TfelVerif TfelVerif.Mandel TfelVerif.C23
set_option linter.all false
set_option maxHeartbeats 16000000
set_option maxRecDepth 100000
variable {K : Type} [Field K] [CharZero K] (c c3 : K) (fn : Fns K)

/-- core of `DPK1_DF ← DS_DEGL`: `δP = δF S + F δS` with `δS = dS : δE`, for every stored second
Piola–Kirchhoff stress `p`: `δP Fᵀ − L (F S Fᵀ) = F δS Fᵀ`. -/
theorem N3_DPK1_DF__DS_DEGL_core (hc : c * c = 2) (h2 : (2:K) ≠ 0)
    (D : Nat → Nat → K) (F L : M3 K) (p : Nat → K) :
    M3.tens3 (M3.ofTens (act (Gen.N3_DPK1_DF__DS_DEGL_core_r c c3 fn D p (tensv F)) (M3.tens3 (L * F))) * F.transpose
        - L * (F * (M3.ofMandel c [p 0, p 1, p 2, p 3, p 4, p 5]) * F.transpose))
      = M3.tens3 (F * (M3.ofMandel c (act (rowsOf D i6 i6) (M3.mandel3 c (dE F L)))) * F.transpose) := by
  simp only [M3.tens3, List.cons.injEq, and_true]
  exact ⟨PropsN3_DPK1_DF__DS_DEGL_core_aux0.aux0 c c3 fn hc h2 D F L p, PropsN3_DPK1_DF__DS_DEGL_core_aux1.aux1 c c3 fn hc h2 D F L p, PropsN3_DPK1_DF__DS_DEGL_core_aux2.aux2 c c3 fn hc h2 D F L p, PropsN3_DPK1_DF__DS_DEGL_core_aux3.aux3 c c3 fn hc h2 D F L p, PropsN3_DPK1_DF__DS_DEGL_core_aux4.aux4 c c3 fn hc h2 D F L p, PropsN3_DPK1_DF__DS_DEGL_core_aux5.aux5 c c3 fn hc h2 D F L p, PropsN3_DPK1_DF__DS_DEGL_core_aux6.aux6 c c3 fn hc h2 D F L p, PropsN3_DPK1_DF__DS_DEGL_core_aux7.aux7 c c3 fn hc h2 D F L p, PropsN3_DPK1_DF__DS_DEGL_core_aux8.aux8 c c3 fn hc h2 D F L p⟩

end TfelVerif.C23.PropsN3_DPK1_DF__DS_DEGL_core
