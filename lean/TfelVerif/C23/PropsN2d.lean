/-
  C23 — tangent operator converters `tfel::material::convert<To, From>` (property theorems only).
  Pairs SPATIAL_MODULI__DS_DEGL, DTAU_DF__DS_DF, C_TAU_JAUMANN__DTAU_DF, DSIG_DDF__DSIG_DF, ABAQUS__SPATIAL_MODULI, ABAQUS__C_TAU_JAUMANN, DS_DC__DS_DEGL, N = 2.
  `Gen.N<d>_<TO>__<FROM>_r c c3 fn D f g s` is the stored result (list of rows) of the traced converter
  for the source operator `D` (arbitrary symbols, stored matrix), `F0` (`f`), `F1` (`g`) and the stored
  Cauchy stress `s`. The meaning of every flag (`lam*`, kinematic rates) is in Spec.lean. Each theorem
  holds for every source operator, every deformation gradient, every stress and every variation.
-/
import TfelVerif.Common.M3
import TfelVerif.C23.Spec
import TfelVerif.C23.Lemmas
import TfelVerif.C23.GenN2d

namespace TfelVerif.C23.PropsN2d
open TfelVerif TfelVerif.Mandel TfelVerif.C23
set_option linter.all false
set_option maxHeartbeats 16000000
set_option maxRecDepth 100000
variable {K : Type} [Field K] (c c3 : K) (fn : Fns K)

/-- `SPATIAL_MODULI ← DS_DEGL` (2D): along every variation `δF = L F` the converted operator, applied to the
rate of its kinematic variable, gives the rate of the Lie derivative of the Kirchhoff stress that reproduces the same Lie derivative of
the Kirchhoff stress as the source operator (rate of the second Piola–Kirchhoff stress) does. -/
theorem N2_SPATIAL_MODULI__DS_DEGL (hc : c * c = 2) (h2 : (2:K) ≠ 0)
    (D : Nat → Nat → K) (F0 : M3 K) (g : Nat → K) (l0 l1 l2 l3 l4 : K) (s : Nat → K)  :
    upper (lamSM (M3.ofTens [g 0, g 1, g 2, g 3, g 4]) (M3.ofMandel c [s 0, s 1, s 2, s 3]) (plane l0 l1 l2 l3 l4) (M3.ofMandel c (act (Gen.N2_SPATIAL_MODULI__DS_DEGL_r c c3 fn D (tensv F0) g s) (M3.mandel2 c (symm (plane l0 l1 l2 l3 l4))))))
      = upper (lamS (M3.ofTens [g 0, g 1, g 2, g 3, g 4]) (M3.ofMandel c [s 0, s 1, s 2, s 3]) (plane l0 l1 l2 l3 l4) (M3.ofMandel c (act (rowsOf D i4 i4) (M3.mandel2 c (dE (M3.ofTens [g 0, g 1, g 2, g 3, g 4]) (plane l0 l1 l2 l3 l4)))))) := by
  have hc0 : c ≠ 0 := c_ne_zero hc h2
  c23_rat0c hc

/-- `DTAU_DF ← DS_DF` (2D): along every variation `δF = L F` the converted operator, applied to the
rate of its kinematic variable, gives the rate of the Kirchhoff stress that reproduces the same Lie derivative of
the Kirchhoff stress as the source operator (rate of the second Piola–Kirchhoff stress) does. -/
theorem N2_DTAU_DF__DS_DF (hc : c * c = 2) (h2 : (2:K) ≠ 0)
    (D : Nat → Nat → K) (F0 : M3 K) (f0 f1 f2 f3 f4 : K) (l0 l1 l2 l3 l4 : K) (s : Nat → K) (hJ : (plane f0 f1 f2 f3 f4).det ≠ 0) :
    upper (lamTau (plane f0 f1 f2 f3 f4) (M3.ofMandel c [s 0, s 1, s 2, s 3]) (plane l0 l1 l2 l3 l4) (M3.ofMandel c (act (Gen.N2_DTAU_DF__DS_DF_r c c3 fn D (tensv F0) (tensv (plane f0 f1 f2 f3 f4)) s) (M3.tens2 ((plane l0 l1 l2 l3 l4) * (plane f0 f1 f2 f3 f4))))))
      = upper (lamS (plane f0 f1 f2 f3 f4) (M3.ofMandel c [s 0, s 1, s 2, s 3]) (plane l0 l1 l2 l3 l4) (M3.ofMandel c (act (rowsOf D i4 i5) (M3.tens2 ((plane l0 l1 l2 l3 l4) * (plane f0 f1 f2 f3 f4)))))) := by
  have hc0 : c ≠ 0 := c_ne_zero hc h2
  obtain ⟨h1, h2'⟩ := plane_det_ne hJ
  have hd0 : Gen.N2_DTAU_DF__DS_DF_den0 c c3 fn D (tensv F0) (tensv (plane f0 f1 f2 f3 f4)) s ≠ 0 := by
    have : Gen.N2_DTAU_DF__DS_DF_den0 c c3 fn D (tensv F0) (tensv (plane f0 f1 f2 f3 f4)) s = f0 * f1 - f3 * f4 := by
      c23_unfold <;> (try ring1)
    rw [this]; exact h1
  (try c23_unfold at hd0)
  c23_unfold
  generalize_ne hd0 => e0 he0
  (try (repeat' apply And.intro))
  all_goals (first | rfl | (field_simp <;> (try simp only [← he0]) <;> c23_fieldc hc))

/-- `C_TAU_JAUMANN ← DTAU_DF` (2D): along every variation `δF = L F` with symmetric `L` the converted operator, applied to the
rate of its kinematic variable, gives the rate of the Jaumann rate of the Kirchhoff stress that reproduces the same Lie derivative of
the Kirchhoff stress as the source operator (rate of the Kirchhoff stress) does. -/
theorem N2_C_TAU_JAUMANN__DTAU_DF (hc : c * c = 2) (h2 : (2:K) ≠ 0)
    (D : Nat → Nat → K) (F0 : M3 K) (f0 f1 f2 f3 f4 : K) (l0 l1 l2 l3 : K) (s : Nat → K)  :
    upper (lamJ (plane f0 f1 f2 f3 f4) (M3.ofMandel c [s 0, s 1, s 2, s 3]) (plane l0 l1 l2 l3 l3) (M3.ofMandel c (act (Gen.N2_C_TAU_JAUMANN__DTAU_DF_r c c3 fn D (tensv F0) (tensv (plane f0 f1 f2 f3 f4)) s) (M3.mandel2 c (symm (plane l0 l1 l2 l3 l3))))))
      = upper (lamTau (plane f0 f1 f2 f3 f4) (M3.ofMandel c [s 0, s 1, s 2, s 3]) (plane l0 l1 l2 l3 l3) (M3.ofMandel c (act (rowsOf D i4 i5) (M3.tens2 ((plane l0 l1 l2 l3 l3) * (plane f0 f1 f2 f3 f4)))))) := by
  have hc0 : c ≠ 0 := c_ne_zero hc h2
  c23_rat0c hc

/-- `DSIG_DDF ← DSIG_DF` (2D): along every variation `δF = L F` the converted operator, applied to the
rate of its kinematic variable, gives the rate of the Cauchy stress that reproduces the same Lie derivative of
the Kirchhoff stress as the source operator (rate of the Cauchy stress) does. -/
theorem N2_DSIG_DDF__DSIG_DF (hc : c * c = 2) (h2 : (2:K) ≠ 0)
    (D : Nat → Nat → K) (g0 g1 g2 g3 g4 d0 d1 d2 d3 d4 : K) (l0 l1 l2 l3 l4 : K) (s : Nat → K)  :
    upper (lamSig ((plane d0 d1 d2 d3 d4) * (plane g0 g1 g2 g3 g4)) (M3.ofMandel c [s 0, s 1, s 2, s 3]) (plane l0 l1 l2 l3 l4) (M3.ofMandel c (act (Gen.N2_DSIG_DDF__DSIG_DF_r c c3 fn D (tensv (plane g0 g1 g2 g3 g4)) (tensv ((plane d0 d1 d2 d3 d4) * (plane g0 g1 g2 g3 g4))) s) (M3.tens2 ((plane l0 l1 l2 l3 l4) * (plane d0 d1 d2 d3 d4))))))
      = upper (lamSig ((plane d0 d1 d2 d3 d4) * (plane g0 g1 g2 g3 g4)) (M3.ofMandel c [s 0, s 1, s 2, s 3]) (plane l0 l1 l2 l3 l4) (M3.ofMandel c (act (rowsOf D i4 i5) (M3.tens2 ((plane l0 l1 l2 l3 l4) * ((plane d0 d1 d2 d3 d4) * (plane g0 g1 g2 g3 g4))))))) := by
  have key : (act (Gen.N2_DSIG_DDF__DSIG_DF_r c c3 fn D (tensv (plane g0 g1 g2 g3 g4)) (tensv ((plane d0 d1 d2 d3 d4) * (plane g0 g1 g2 g3 g4))) s) (M3.tens2 ((plane l0 l1 l2 l3 l4) * (plane d0 d1 d2 d3 d4))))
      = (act (rowsOf D i4 i5) (M3.tens2 ((plane l0 l1 l2 l3 l4) * ((plane d0 d1 d2 d3 d4) * (plane g0 g1 g2 g3 g4))))) := by
    have hc0 : c ≠ 0 := c_ne_zero hc h2
    c23_rat0c hc
  rw [key]

/-- `ABAQUS ← SPATIAL_MODULI` (2D): along every variation `δF = L F` the converted operator, applied to the
rate of its kinematic variable, gives the rate of the Jaumann rate of the Kirchhoff stress / J that reproduces the same Lie derivative of
the Kirchhoff stress as the source operator (rate of the Lie derivative of the Kirchhoff stress) does. -/
theorem N2_ABAQUS__SPATIAL_MODULI (hc : c * c = 2) (h2 : (2:K) ≠ 0)
    (D : Nat → Nat → K) (F0 : M3 K) (f0 f1 f2 f3 f4 : K) (l0 l1 l2 l3 l4 : K) (s : Nat → K) (hJ : (plane f0 f1 f2 f3 f4).det ≠ 0) :
    upper (lamAb (plane f0 f1 f2 f3 f4) (M3.ofMandel c [s 0, s 1, s 2, s 3]) (plane l0 l1 l2 l3 l4) (M3.ofMandel c (act (Gen.N2_ABAQUS__SPATIAL_MODULI_r c c3 fn D (tensv F0) (tensv (plane f0 f1 f2 f3 f4)) s) (M3.mandel2 c (symm (plane l0 l1 l2 l3 l4))))))
      = upper (lamSM (plane f0 f1 f2 f3 f4) (M3.ofMandel c [s 0, s 1, s 2, s 3]) (plane l0 l1 l2 l3 l4) (M3.ofMandel c (act (rowsOf D i4 i4) (M3.mandel2 c (symm (plane l0 l1 l2 l3 l4)))))) := by
  have hc0 : c ≠ 0 := c_ne_zero hc h2
  obtain ⟨h1, h2'⟩ := plane_det_ne hJ
  c23_rat0c hc

/-- `ABAQUS ← C_TAU_JAUMANN` (2D): along every variation `δF = L F` the converted operator, applied to the
rate of its kinematic variable, gives the rate of the Jaumann rate of the Kirchhoff stress / J that reproduces the same Lie derivative of
the Kirchhoff stress as the source operator (rate of the Jaumann rate of the Kirchhoff stress) does. -/
theorem N2_ABAQUS__C_TAU_JAUMANN (hc : c * c = 2) (h2 : (2:K) ≠ 0)
    (D : Nat → Nat → K) (F0 : M3 K) (f0 f1 f2 f3 f4 : K) (l0 l1 l2 l3 l4 : K) (s : Nat → K) (hJ : (plane f0 f1 f2 f3 f4).det ≠ 0) :
    upper (lamAb (plane f0 f1 f2 f3 f4) (M3.ofMandel c [s 0, s 1, s 2, s 3]) (plane l0 l1 l2 l3 l4) (M3.ofMandel c (act (Gen.N2_ABAQUS__C_TAU_JAUMANN_r c c3 fn D (tensv F0) (tensv (plane f0 f1 f2 f3 f4)) s) (M3.mandel2 c (symm (plane l0 l1 l2 l3 l4))))))
      = upper (lamJ (plane f0 f1 f2 f3 f4) (M3.ofMandel c [s 0, s 1, s 2, s 3]) (plane l0 l1 l2 l3 l4) (M3.ofMandel c (act (rowsOf D i4 i4) (M3.mandel2 c (symm (plane l0 l1 l2 l3 l4)))))) := by
  have hc0 : c ≠ 0 := c_ne_zero hc h2
  obtain ⟨h1, h2'⟩ := plane_det_ne hJ
  c23_rat0c hc

/-- `DS_DC ← DS_DEGL` (2D): along every variation `δF = L F` the converted operator, applied to the
rate of its kinematic variable, gives the rate of the second Piola–Kirchhoff stress that reproduces the same Lie derivative of
the Kirchhoff stress as the source operator (rate of the second Piola–Kirchhoff stress) does. -/
theorem N2_DS_DC__DS_DEGL (hc : c * c = 2) (h2 : (2:K) ≠ 0)
    (D : Nat → Nat → K) (F0 : M3 K) (f0 f1 f2 f3 f4 : K) (l0 l1 l2 l3 l4 : K) (s : Nat → K)  :
    upper (lamS (plane f0 f1 f2 f3 f4) (M3.ofMandel c [s 0, s 1, s 2, s 3]) (plane l0 l1 l2 l3 l4) (M3.ofMandel c (act (Gen.N2_DS_DC__DS_DEGL_r c c3 fn D (tensv F0) (tensv (plane f0 f1 f2 f3 f4)) s) (M3.mandel2 c (dC (plane f0 f1 f2 f3 f4) (plane l0 l1 l2 l3 l4))))))
      = upper (lamS (plane f0 f1 f2 f3 f4) (M3.ofMandel c [s 0, s 1, s 2, s 3]) (plane l0 l1 l2 l3 l4) (M3.ofMandel c (act (rowsOf D i4 i4) (M3.mandel2 c (dE (plane f0 f1 f2 f3 f4) (plane l0 l1 l2 l3 l4)))))) := by
  have key : (act (Gen.N2_DS_DC__DS_DEGL_r c c3 fn D (tensv F0) (tensv (plane f0 f1 f2 f3 f4)) s) (M3.mandel2 c (dC (plane f0 f1 f2 f3 f4) (plane l0 l1 l2 l3 l4))))
      = (act (rowsOf D i4 i4) (M3.mandel2 c (dE (plane f0 f1 f2 f3 f4) (plane l0 l1 l2 l3 l4)))) := by
    have hc0 : c ≠ 0 := c_ne_zero hc h2
    c23_rat0c hc
  rw [key]

end TfelVerif.C23.PropsN2d
