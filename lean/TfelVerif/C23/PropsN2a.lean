/-
  C23 — tangent operator converters `tfel::material::convert<To, From>` (property theorems only).
  Pairs DTAU_DF__ABAQUS, DTAU_DF__DTAU_DDF, DS_DF__DS_DC, DTAU_DF__DPK1_DF, C_TRUESDELL__SPATIAL_MODULI, SPATIAL_MODULI__C_TAU_JAUMANN, N = 2.
  `Gen.N<d>_<TO>__<FROM>_r c c3 fn D f g s` is the stored result (list of rows) of the traced converter
  for the source operator `D` (arbitrary symbols, stored matrix), `F0` (`f`), `F1` (`g`) and the stored
  Cauchy stress `s`. The meaning of every flag (`lam*`, kinematic rates) is in Spec.lean. Each theorem
  holds for every source operator, every deformation gradient, every stress and every variation.
-/
import TfelVerif.Common.M3
import TfelVerif.C23.Spec
import TfelVerif.C23.Lemmas
import TfelVerif.C23.GenN2a

namespace TfelVerif.C23.PropsN2a
open TfelVerif TfelVerif.Mandel TfelVerif.C23
set_option linter.all false
set_option maxHeartbeats 16000000
set_option maxRecDepth 100000
variable {K : Type} [Field K] (c c3 : K) (fn : Fns K)

/-- `DTAU_DF ← ABAQUS` (2D): along every variation `δF = L F` the converted operator, applied to the
rate of its kinematic variable, gives the rate of the Kirchhoff stress that reproduces the same Lie derivative of
the Kirchhoff stress as the source operator (rate of the Jaumann rate of the Kirchhoff stress / J) does. -/
theorem N2_DTAU_DF__ABAQUS (hc : c * c = 2) (h2 : (2:K) ≠ 0)
    (D : Nat → Nat → K) (F0 : M3 K) (f0 f1 f2 f3 f4 : K) (l0 l1 l2 l3 l4 : K) (s : Nat → K) (hJ : (plane f0 f1 f2 f3 f4).det ≠ 0) :
    upper (lamTau (plane f0 f1 f2 f3 f4) (M3.ofMandel c [s 0, s 1, s 2, s 3]) (plane l0 l1 l2 l3 l4) (M3.ofMandel c (act (Gen.N2_DTAU_DF__ABAQUS_r c c3 fn D (tensv F0) (tensv (plane f0 f1 f2 f3 f4)) s) (M3.tens2 ((plane l0 l1 l2 l3 l4) * (plane f0 f1 f2 f3 f4))))))
      = upper (lamAb (plane f0 f1 f2 f3 f4) (M3.ofMandel c [s 0, s 1, s 2, s 3]) (plane l0 l1 l2 l3 l4) (M3.ofMandel c (act (rowsOf D i4 i4) (M3.mandel2 c (symm (plane l0 l1 l2 l3 l4)))))) := by
  have hc0 : c ≠ 0 := c_ne_zero hc h2
  obtain ⟨h1, h2'⟩ := plane_det_ne hJ
  have hd0 : Gen.N2_DTAU_DF__ABAQUS_den0 c c3 fn D (tensv F0) (tensv (plane f0 f1 f2 f3 f4)) s ≠ 0 := by
    have : Gen.N2_DTAU_DF__ABAQUS_den0 c c3 fn D (tensv F0) (tensv (plane f0 f1 f2 f3 f4)) s = f0 * f1 - f3 * f4 := by
      c23_unfold <;> (try ring1)
    rw [this]; exact h1
  have hd2 : Gen.N2_DTAU_DF__ABAQUS_den2 c c3 fn D (tensv F0) (tensv (plane f0 f1 f2 f3 f4)) s ≠ 0 := by
    have : Gen.N2_DTAU_DF__ABAQUS_den2 c c3 fn D (tensv F0) (tensv (plane f0 f1 f2 f3 f4)) s = f0 * f1 - f3 * f4 := by
      c23_unfold <;> (try ring1)
    rw [this]; exact h1
  (try c23_unfold at hd0 hd2)
  c23_unfold
  generalize_ne hd0 => e0 he0
  generalize_ne hd2 => e2 he2
  (try (repeat' apply And.intro))
  all_goals (first | rfl | (field_simp <;> (try simp only [← he0, ← he2]) <;> c23_fieldc hc))

/-- `DTAU_DF ← DTAU_DDF` (2D): along every variation `δF = L F` the converted operator, applied to the
rate of its kinematic variable, gives the rate of the Kirchhoff stress that reproduces the same Lie derivative of
the Kirchhoff stress as the source operator (rate of the Kirchhoff stress) does. -/
theorem N2_DTAU_DF__DTAU_DDF (hc : c * c = 2) (h2 : (2:K) ≠ 0)
    (D : Nat → Nat → K) (g0 g1 g2 g3 g4 d0 d1 d2 d3 d4 : K) (l0 l1 l2 l3 l4 : K) (s : Nat → K) (hJ : (plane g0 g1 g2 g3 g4).det ≠ 0) :
    upper (lamTau ((plane d0 d1 d2 d3 d4) * (plane g0 g1 g2 g3 g4)) (M3.ofMandel c [s 0, s 1, s 2, s 3]) (plane l0 l1 l2 l3 l4) (M3.ofMandel c (act (Gen.N2_DTAU_DF__DTAU_DDF_r c c3 fn D (tensv (plane g0 g1 g2 g3 g4)) (tensv ((plane d0 d1 d2 d3 d4) * (plane g0 g1 g2 g3 g4))) s) (M3.tens2 ((plane l0 l1 l2 l3 l4) * ((plane d0 d1 d2 d3 d4) * (plane g0 g1 g2 g3 g4)))))))
      = upper (lamTau ((plane d0 d1 d2 d3 d4) * (plane g0 g1 g2 g3 g4)) (M3.ofMandel c [s 0, s 1, s 2, s 3]) (plane l0 l1 l2 l3 l4) (M3.ofMandel c (act (rowsOf D i4 i5) (M3.tens2 ((plane l0 l1 l2 l3 l4) * (plane d0 d1 d2 d3 d4)))))) := by
  have key : (act (Gen.N2_DTAU_DF__DTAU_DDF_r c c3 fn D (tensv (plane g0 g1 g2 g3 g4)) (tensv ((plane d0 d1 d2 d3 d4) * (plane g0 g1 g2 g3 g4))) s) (M3.tens2 ((plane l0 l1 l2 l3 l4) * ((plane d0 d1 d2 d3 d4) * (plane g0 g1 g2 g3 g4)))))
      = (act (rowsOf D i4 i5) (M3.tens2 ((plane l0 l1 l2 l3 l4) * (plane d0 d1 d2 d3 d4)))) := by
    have hc0 : c ≠ 0 := c_ne_zero hc h2
    obtain ⟨h1, h2'⟩ := plane_det_ne hJ
    have hd0 : Gen.N2_DTAU_DF__DTAU_DDF_den0 c c3 fn D (tensv (plane g0 g1 g2 g3 g4)) (tensv ((plane d0 d1 d2 d3 d4) * (plane g0 g1 g2 g3 g4))) s ≠ 0 := by
      have : Gen.N2_DTAU_DF__DTAU_DDF_den0 c c3 fn D (tensv (plane g0 g1 g2 g3 g4)) (tensv ((plane d0 d1 d2 d3 d4) * (plane g0 g1 g2 g3 g4))) s = g0 * g1 - g3 * g4 := by
        c23_unfold <;> (try ring1)
      rw [this]; exact h1
    (try c23_unfold at hd0)
    c23_unfold
    generalize_ne hd0 => e0 he0
    (try (repeat' apply And.intro))
    all_goals (first | rfl | (field_simp <;> (try simp only [← he0]) <;> c23_fieldc hc))
  rw [key]

/-- `DS_DF ← DS_DC` (2D): along every variation `δF = L F` the converted operator, applied to the
rate of its kinematic variable, gives the rate of the second Piola–Kirchhoff stress that reproduces the same Lie derivative of
the Kirchhoff stress as the source operator (rate of the second Piola–Kirchhoff stress) does. -/
theorem N2_DS_DF__DS_DC (hc : c * c = 2) (h2 : (2:K) ≠ 0)
    (D : Nat → Nat → K) (F0 : M3 K) (f0 f1 f2 f3 f4 : K) (l0 l1 l2 l3 l4 : K) (s : Nat → K)  :
    upper (lamS (plane f0 f1 f2 f3 f4) (M3.ofMandel c [s 0, s 1, s 2, s 3]) (plane l0 l1 l2 l3 l4) (M3.ofMandel c (act (Gen.N2_DS_DF__DS_DC_r c c3 fn D (tensv F0) (tensv (plane f0 f1 f2 f3 f4)) s) (M3.tens2 ((plane l0 l1 l2 l3 l4) * (plane f0 f1 f2 f3 f4))))))
      = upper (lamS (plane f0 f1 f2 f3 f4) (M3.ofMandel c [s 0, s 1, s 2, s 3]) (plane l0 l1 l2 l3 l4) (M3.ofMandel c (act (rowsOf D i4 i4) (M3.mandel2 c (dC (plane f0 f1 f2 f3 f4) (plane l0 l1 l2 l3 l4)))))) := by
  have key : (act (Gen.N2_DS_DF__DS_DC_r c c3 fn D (tensv F0) (tensv (plane f0 f1 f2 f3 f4)) s) (M3.tens2 ((plane l0 l1 l2 l3 l4) * (plane f0 f1 f2 f3 f4))))
      = (act (rowsOf D i4 i4) (M3.mandel2 c (dC (plane f0 f1 f2 f3 f4) (plane l0 l1 l2 l3 l4)))) := by
    have hc0 : c ≠ 0 := c_ne_zero hc h2
    c23_rat0c hc
  rw [key]

/-- `DTAU_DF ← DPK1_DF` (2D): along every variation `δF = L F` the converted operator, applied to the
rate of its kinematic variable, gives the rate of the Kirchhoff stress that reproduces the same Lie derivative of
the Kirchhoff stress as the source operator (rate of the first Piola–Kirchhoff stress) does. -/
theorem N2_DTAU_DF__DPK1_DF (hc : c * c = 2) (h2 : (2:K) ≠ 0)
    (D : Nat → Nat → K) (F0 : M3 K) (f0 f1 f2 f3 f4 : K) (l0 l1 l2 l3 l4 : K) (s : Nat → K)  :
    lower (lamTau (plane f0 f1 f2 f3 f4) (M3.ofMandel c [s 0, s 1, s 2, s 3]) (plane l0 l1 l2 l3 l4) (M3.ofMandel c (act (Gen.N2_DTAU_DF__DPK1_DF_r c c3 fn D (tensv F0) (tensv (plane f0 f1 f2 f3 f4)) s) (M3.tens2 ((plane l0 l1 l2 l3 l4) * (plane f0 f1 f2 f3 f4))))))
      = lower (lamP (plane f0 f1 f2 f3 f4) (M3.ofMandel c [s 0, s 1, s 2, s 3]) (plane l0 l1 l2 l3 l4) (M3.ofTens (act (rowsOf D i5 i5) (M3.tens2 ((plane l0 l1 l2 l3 l4) * (plane f0 f1 f2 f3 f4)))))) := by
  have hc0 : c ≠ 0 := c_ne_zero hc h2
  c23_rat0c hc

/-- `C_TRUESDELL ← SPATIAL_MODULI` (2D): along every variation `δF = L F` the converted operator, applied to the
rate of its kinematic variable, gives the rate of the Truesdell rate of the Cauchy stress that reproduces the same Lie derivative of
the Kirchhoff stress as the source operator (rate of the Lie derivative of the Kirchhoff stress) does. -/
theorem N2_C_TRUESDELL__SPATIAL_MODULI (hc : c * c = 2) (h2 : (2:K) ≠ 0)
    (D : Nat → Nat → K) (F0 : M3 K) (f0 f1 f2 f3 f4 : K) (l0 l1 l2 l3 l4 : K) (s : Nat → K) (hJ : (plane f0 f1 f2 f3 f4).det ≠ 0) :
    upper (lamTr (plane f0 f1 f2 f3 f4) (M3.ofMandel c [s 0, s 1, s 2, s 3]) (plane l0 l1 l2 l3 l4) (M3.ofMandel c (act (Gen.N2_C_TRUESDELL__SPATIAL_MODULI_r c c3 fn D (tensv F0) (tensv (plane f0 f1 f2 f3 f4)) s) (M3.mandel2 c (symm (plane l0 l1 l2 l3 l4))))))
      = upper (lamSM (plane f0 f1 f2 f3 f4) (M3.ofMandel c [s 0, s 1, s 2, s 3]) (plane l0 l1 l2 l3 l4) (M3.ofMandel c (act (rowsOf D i4 i4) (M3.mandel2 c (symm (plane l0 l1 l2 l3 l4)))))) := by
  have hc0 : c ≠ 0 := c_ne_zero hc h2
  obtain ⟨h1, h2'⟩ := plane_det_ne hJ
  c23_rat0c hc

/-- `SPATIAL_MODULI ← C_TAU_JAUMANN` (2D): along every variation `δF = L F` the converted operator, applied to the
rate of its kinematic variable, gives the rate of the Lie derivative of the Kirchhoff stress that reproduces the same Lie derivative of
the Kirchhoff stress as the source operator (rate of the Jaumann rate of the Kirchhoff stress) does. -/
theorem N2_SPATIAL_MODULI__C_TAU_JAUMANN (hc : c * c = 2) (h2 : (2:K) ≠ 0)
    (D : Nat → Nat → K) (F0 : M3 K) (f0 f1 f2 f3 f4 : K) (l0 l1 l2 l3 l4 : K) (s : Nat → K)  :
    upper (lamSM (plane f0 f1 f2 f3 f4) (M3.ofMandel c [s 0, s 1, s 2, s 3]) (plane l0 l1 l2 l3 l4) (M3.ofMandel c (act (Gen.N2_SPATIAL_MODULI__C_TAU_JAUMANN_r c c3 fn D (tensv F0) (tensv (plane f0 f1 f2 f3 f4)) s) (M3.mandel2 c (symm (plane l0 l1 l2 l3 l4))))))
      = upper (lamJ (plane f0 f1 f2 f3 f4) (M3.ofMandel c [s 0, s 1, s 2, s 3]) (plane l0 l1 l2 l3 l4) (M3.ofMandel c (act (rowsOf D i4 i4) (M3.mandel2 c (symm (plane l0 l1 l2 l3 l4)))))) := by
  have hc0 : c ≠ 0 := c_ne_zero hc h2
  c23_rat0c hc

end TfelVerif.C23.PropsN2a
