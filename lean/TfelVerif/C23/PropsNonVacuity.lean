/-
  C23 — the standing hypotheses of the C23 theorems are satisfiable: over ℝ with `c = √2`, the identity
  deformation gradient (in its 3D, plane and diagonal shapes) and the identity stretch have determinant 1.
-/
import TfelVerif.Common.M3
import TfelVerif.Common.Model
import TfelVerif.C23.Spec

namespace TfelVerif.C23.PropsNonVacuity
open TfelVerif TfelVerif.C23

theorem hypotheses_satisfiable :
    ∃ c : ℝ, c * c = 2 ∧ (2 : ℝ) ≠ 0 ∧ (1 : M3 ℝ).det ≠ 0 ∧ (plane (1 : ℝ) 1 1 0 0).det ≠ 0 ∧
      (dg (1 : ℝ) 1 1).det ≠ 0 ∧ (M3.ofMandel c [1, 1, 1, 0, 0, 0]).det ≠ 0 := by
  obtain ⟨c, hc, h2⟩ := mandel_hypotheses_satisfiable
  refine ⟨c, hc, h2, ?_, ?_, ?_, ?_⟩ <;>
    simp [M3.one_def, M3.one, M3.det, plane, dg, M3.ofMandel, M3.sym]

end TfelVerif.C23.PropsNonVacuity
