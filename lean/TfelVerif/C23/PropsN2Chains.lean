/-
  C23 — tangent operator converters `tfel::material::convert<To, From>` (property theorems only).
  Converters that FiniteStrainBehaviourTangentOperator.ixx defines as a chain of other converters, N = 2: `Gen.N2_<pair>_r` is the composition of the traced parts (GenN2Chains.lean, generated after the exact structural comparison of the traced DAG of the composite with that composition), and its theorem is the composition of the parts' theorems.
  `Gen.N<d>_<TO>__<FROM>_r c c3 fn D f g s` is the stored result (list of rows) of the traced converter
  for the source operator `D` (arbitrary symbols, stored matrix), `F0` (`f`), `F1` (`g`) and the stored
  Cauchy stress `s`. The meaning of every flag (`lam*`, kinematic rates) is in Spec.lean. Each theorem
  holds for every source operator, every deformation gradient, every stress and every variation.
-/
import TfelVerif.Common.M3
import TfelVerif.C23.Spec
import TfelVerif.C23.Lemmas
import TfelVerif.C23.Lemmas2
import TfelVerif.C23.GenN2Chains
import TfelVerif.C23.PropsN2a
import TfelVerif.C23.PropsN2b
import TfelVerif.C23.PropsN2c
import TfelVerif.C23.PropsN2d
import TfelVerif.C23.PropsStress

namespace TfelVerif.C23.PropsN2Chains
open TfelVerif TfelVerif.Mandel TfelVerif.C23
set_option linter.all false
set_option maxHeartbeats 16000000
set_option maxRecDepth 100000
variable {K : Type} [Field K] (c c3 : K) (fn : Fns K)

/-- `DTAU_DF ← SPATIAL_MODULI` (2D): along every variation `δF = L F` the converted operator, applied to the
rate of its kinematic variable, gives the rate of the Kirchhoff stress that reproduces the same Lie derivative of
the Kirchhoff stress as the source operator (rate of the Lie derivative of the Kirchhoff stress) does. -/
theorem N2_DTAU_DF__SPATIAL_MODULI (hc : c * c = 2) (h2 : (2:K) ≠ 0)
    (D : Nat → Nat → K) (F0 : M3 K) (f0 f1 f2 f3 f4 : K) (l0 l1 l2 l3 l4 : K) (s : Nat → K) (hJ : (plane f0 f1 f2 f3 f4).det ≠ 0) :
    upper (lamTau (plane f0 f1 f2 f3 f4) (M3.ofMandel c [s 0, s 1, s 2, s 3]) (plane l0 l1 l2 l3 l4) (M3.ofMandel c (act (Gen.N2_DTAU_DF__SPATIAL_MODULI_r c c3 fn D (tensv F0) (tensv (plane f0 f1 f2 f3 f4)) s) (M3.tens2 ((plane l0 l1 l2 l3 l4) * (plane f0 f1 f2 f3 f4))))))
      = upper (lamSM (plane f0 f1 f2 f3 f4) (M3.ofMandel c [s 0, s 1, s 2, s 3]) (plane l0 l1 l2 l3 l4) (M3.ofMandel c (act (rowsOf D i4 i4) (M3.mandel2 c (symm (plane l0 l1 l2 l3 l4)))))) := by
  have hc0 : c ≠ 0 := c_ne_zero hc h2
  unfold Gen.N2_DTAU_DF__SPATIAL_MODULI_r
  refine (PropsN2b.N2_DTAU_DF__C_TAU_JAUMANN c c3 fn hc h2 (hJ := hJ) ..).trans ?_
  exact PropsN2c.N2_C_TAU_JAUMANN__SPATIAL_MODULI c c3 fn hc h2 ..

/-- `DS_DEGL ← SPATIAL_MODULI` (2D): along every variation `δF = L F` the converted operator, applied to the
rate of its kinematic variable, gives the rate of the second Piola–Kirchhoff stress that reproduces the same Lie derivative of
the Kirchhoff stress as the source operator (rate of the Lie derivative of the Kirchhoff stress) does. -/
theorem N2_DS_DEGL__SPATIAL_MODULI (hc : c * c = 2) (h2 : (2:K) ≠ 0)
    (D : Nat → Nat → K) (F0 : M3 K) (f0 f1 f2 f3 f4 : K) (l0 l1 l2 l3 l4 : K) (s : Nat → K) (hJ : (plane f0 f1 f2 f3 f4).det ≠ 0) :
    upper (lamS (plane f0 f1 f2 f3 f4) (M3.ofMandel c [s 0, s 1, s 2, s 3]) (plane l0 l1 l2 l3 l4) (M3.ofMandel c (act (Gen.N2_DS_DEGL__SPATIAL_MODULI_r c c3 fn D (tensv F0) (tensv (plane f0 f1 f2 f3 f4)) s) (M3.mandel2 c (dE (plane f0 f1 f2 f3 f4) (plane l0 l1 l2 l3 l4))))))
      = upper (lamSM (plane f0 f1 f2 f3 f4) (M3.ofMandel c [s 0, s 1, s 2, s 3]) (plane l0 l1 l2 l3 l4) (M3.ofMandel c (act (rowsOf D i4 i4) (M3.mandel2 c (symm (plane l0 l1 l2 l3 l4)))))) := by
  have hFG := PropsStress.N2_invert c c3 fn f0 f1 f2 f3 f4 hc hJ
  have T1 := PropsN2d.N2_SPATIAL_MODULI__DS_DEGL c c3 fn hc h2 D F0 (vecOf (Gen.N2_invert_r c c3 fn (tensv (plane f0 f1 f2 f3 f4)))) (dE (plane f0 f1 f2 f3 f4) (plane l0 l1 l2 l3 l4)).a00 (dE (plane f0 f1 f2 f3 f4) (plane l0 l1 l2 l3 l4)).a11 (dE (plane f0 f1 f2 f3 f4) (plane l0 l1 l2 l3 l4)).a22 (dE (plane f0 f1 f2 f3 f4) (plane l0 l1 l2 l3 l4)).a01 (dE (plane f0 f1 f2 f3 f4) (plane l0 l1 l2 l3 l4)).a10 s
  have eL : plane (dE (plane f0 f1 f2 f3 f4) (plane l0 l1 l2 l3 l4)).a00 (dE (plane f0 f1 f2 f3 f4) (plane l0 l1 l2 l3 l4)).a11 (dE (plane f0 f1 f2 f3 f4) (plane l0 l1 l2 l3 l4)).a22 (dE (plane f0 f1 f2 f3 f4) (plane l0 l1 l2 l3 l4)).a01 (dE (plane f0 f1 f2 f3 f4) (plane l0 l1 l2 l3 l4)).a10 = dE (plane f0 f1 f2 f3 f4) (plane l0 l1 l2 l3 l4) := by m3_poly
  rw [eL] at T1
  have e : M3.ofTens [vecOf (Gen.N2_invert_r c c3 fn (tensv (plane f0 f1 f2 f3 f4))) 0, vecOf (Gen.N2_invert_r c c3 fn (tensv (plane f0 f1 f2 f3 f4))) 1, vecOf (Gen.N2_invert_r c c3 fn (tensv (plane f0 f1 f2 f3 f4))) 2, vecOf (Gen.N2_invert_r c c3 fn (tensv (plane f0 f1 f2 f3 f4))) 3, vecOf (Gen.N2_invert_r c c3 fn (tensv (plane f0 f1 f2 f3 f4))) 4] = M3.ofTens (Gen.N2_invert_r c c3 fn (tensv (plane f0 f1 f2 f3 f4))) := rfl
  rw [e, symm_of_symmetric h2 (dE_transpose (plane f0 f1 f2 f3 f4) (plane l0 l1 l2 l3 l4)), dE_inv h2 hFG (plane l0 l1 l2 l3 l4)] at T1
  unfold lamSM lamS at T1
  unfold lamSM lamS Gen.N2_DS_DEGL__SPATIAL_MODULI_r
  have hX := eq_of_upper (ofMandel_symm c _) (conj_symm (ofMandel_symm c _)) T1
  rw [pull_back_alg hFG hX]

/-- `DSIG_DF ← DS_DEGL` (2D): along every variation `δF = L F` the converted operator, applied to the
rate of its kinematic variable, gives the rate of the Cauchy stress that reproduces the same Lie derivative of
the Kirchhoff stress as the source operator (rate of the second Piola–Kirchhoff stress) does. -/
theorem N2_DSIG_DF__DS_DEGL (hc : c * c = 2) (h2 : (2:K) ≠ 0)
    (D : Nat → Nat → K) (F0 : M3 K) (f0 f1 f2 f3 f4 : K) (l0 l1 l2 l3 l4 : K) (s : Nat → K) (hJ : (plane f0 f1 f2 f3 f4).det ≠ 0) :
    upper (lamSig (plane f0 f1 f2 f3 f4) (M3.ofMandel c [s 0, s 1, s 2, s 3]) (plane l0 l1 l2 l3 l4) (M3.ofMandel c (act (Gen.N2_DSIG_DF__DS_DEGL_r c c3 fn D (tensv F0) (tensv (plane f0 f1 f2 f3 f4)) s) (M3.tens2 ((plane l0 l1 l2 l3 l4) * (plane f0 f1 f2 f3 f4))))))
      = upper (lamS (plane f0 f1 f2 f3 f4) (M3.ofMandel c [s 0, s 1, s 2, s 3]) (plane l0 l1 l2 l3 l4) (M3.ofMandel c (act (rowsOf D i4 i4) (M3.mandel2 c (dE (plane f0 f1 f2 f3 f4) (plane l0 l1 l2 l3 l4)))))) := by
  have hc0 : c ≠ 0 := c_ne_zero hc h2
  unfold Gen.N2_DSIG_DF__DS_DEGL_r
  refine (PropsN2c.N2_DSIG_DF__DTAU_DF c c3 fn hc h2 (hJ := hJ) ..).trans ?_
  refine (PropsN2Chains.N2_DTAU_DF__SPATIAL_MODULI c c3 fn hc h2 (hJ := hJ) ..).trans ?_
  exact PropsN2d.N2_SPATIAL_MODULI__DS_DEGL c c3 fn hc h2 ..

/-- `ABAQUS ← DS_DEGL` (2D): along every variation `δF = L F` the converted operator, applied to the
rate of its kinematic variable, gives the rate of the Jaumann rate of the Kirchhoff stress / J that reproduces the same Lie derivative of
the Kirchhoff stress as the source operator (rate of the second Piola–Kirchhoff stress) does. -/
theorem N2_ABAQUS__DS_DEGL (hc : c * c = 2) (h2 : (2:K) ≠ 0)
    (D : Nat → Nat → K) (F0 : M3 K) (f0 f1 f2 f3 f4 : K) (l0 l1 l2 l3 l4 : K) (s : Nat → K) (hJ : (plane f0 f1 f2 f3 f4).det ≠ 0) :
    upper (lamAb (plane f0 f1 f2 f3 f4) (M3.ofMandel c [s 0, s 1, s 2, s 3]) (plane l0 l1 l2 l3 l4) (M3.ofMandel c (act (Gen.N2_ABAQUS__DS_DEGL_r c c3 fn D (tensv F0) (tensv (plane f0 f1 f2 f3 f4)) s) (M3.mandel2 c (symm (plane l0 l1 l2 l3 l4))))))
      = upper (lamS (plane f0 f1 f2 f3 f4) (M3.ofMandel c [s 0, s 1, s 2, s 3]) (plane l0 l1 l2 l3 l4) (M3.ofMandel c (act (rowsOf D i4 i4) (M3.mandel2 c (dE (plane f0 f1 f2 f3 f4) (plane l0 l1 l2 l3 l4)))))) := by
  have hc0 : c ≠ 0 := c_ne_zero hc h2
  unfold Gen.N2_ABAQUS__DS_DEGL_r
  refine (PropsN2d.N2_ABAQUS__SPATIAL_MODULI c c3 fn hc h2 (hJ := hJ) ..).trans ?_
  exact PropsN2d.N2_SPATIAL_MODULI__DS_DEGL c c3 fn hc h2 ..

/-- `DSIG_DF ← C_TRUESDELL` (2D): along every variation `δF = L F` the converted operator, applied to the
rate of its kinematic variable, gives the rate of the Cauchy stress that reproduces the same Lie derivative of
the Kirchhoff stress as the source operator (rate of the Truesdell rate of the Cauchy stress) does. -/
theorem N2_DSIG_DF__C_TRUESDELL (hc : c * c = 2) (h2 : (2:K) ≠ 0)
    (D : Nat → Nat → K) (F0 : M3 K) (f0 f1 f2 f3 f4 : K) (l0 l1 l2 l3 l4 : K) (s : Nat → K) (hJ : (plane f0 f1 f2 f3 f4).det ≠ 0) :
    upper (lamSig (plane f0 f1 f2 f3 f4) (M3.ofMandel c [s 0, s 1, s 2, s 3]) (plane l0 l1 l2 l3 l4) (M3.ofMandel c (act (Gen.N2_DSIG_DF__C_TRUESDELL_r c c3 fn D (tensv F0) (tensv (plane f0 f1 f2 f3 f4)) s) (M3.tens2 ((plane l0 l1 l2 l3 l4) * (plane f0 f1 f2 f3 f4))))))
      = upper (lamTr (plane f0 f1 f2 f3 f4) (M3.ofMandel c [s 0, s 1, s 2, s 3]) (plane l0 l1 l2 l3 l4) (M3.ofMandel c (act (rowsOf D i4 i4) (M3.mandel2 c (symm (plane l0 l1 l2 l3 l4)))))) := by
  have hc0 : c ≠ 0 := c_ne_zero hc h2
  unfold Gen.N2_DSIG_DF__C_TRUESDELL_r
  refine (PropsN2c.N2_DSIG_DF__DTAU_DF c c3 fn hc h2 (hJ := hJ) ..).trans ?_
  refine (PropsN2Chains.N2_DTAU_DF__SPATIAL_MODULI c c3 fn hc h2 (hJ := hJ) ..).trans ?_
  exact PropsN2c.N2_SPATIAL_MODULI__C_TRUESDELL c c3 fn hc h2 ..

/-- `C_TRUESDELL ← DS_DEGL` (2D): along every variation `δF = L F` the converted operator, applied to the
rate of its kinematic variable, gives the rate of the Truesdell rate of the Cauchy stress that reproduces the same Lie derivative of
the Kirchhoff stress as the source operator (rate of the second Piola–Kirchhoff stress) does. -/
theorem N2_C_TRUESDELL__DS_DEGL (hc : c * c = 2) (h2 : (2:K) ≠ 0)
    (D : Nat → Nat → K) (F0 : M3 K) (f0 f1 f2 f3 f4 : K) (l0 l1 l2 l3 l4 : K) (s : Nat → K) (hJ : (plane f0 f1 f2 f3 f4).det ≠ 0) :
    upper (lamTr (plane f0 f1 f2 f3 f4) (M3.ofMandel c [s 0, s 1, s 2, s 3]) (plane l0 l1 l2 l3 l4) (M3.ofMandel c (act (Gen.N2_C_TRUESDELL__DS_DEGL_r c c3 fn D (tensv F0) (tensv (plane f0 f1 f2 f3 f4)) s) (M3.mandel2 c (symm (plane l0 l1 l2 l3 l4))))))
      = upper (lamS (plane f0 f1 f2 f3 f4) (M3.ofMandel c [s 0, s 1, s 2, s 3]) (plane l0 l1 l2 l3 l4) (M3.ofMandel c (act (rowsOf D i4 i4) (M3.mandel2 c (dE (plane f0 f1 f2 f3 f4) (plane l0 l1 l2 l3 l4)))))) := by
  have hc0 : c ≠ 0 := c_ne_zero hc h2
  unfold Gen.N2_C_TRUESDELL__DS_DEGL_r
  refine (PropsN2a.N2_C_TRUESDELL__SPATIAL_MODULI c c3 fn hc h2 (hJ := hJ) ..).trans ?_
  exact PropsN2d.N2_SPATIAL_MODULI__DS_DEGL c c3 fn hc h2 ..

/-- `SPATIAL_MODULI ← DTAU_DF` (2D): along every variation `δF = L F` with symmetric `L` the converted operator, applied to the
rate of its kinematic variable, gives the rate of the Lie derivative of the Kirchhoff stress that reproduces the same Lie derivative of
the Kirchhoff stress as the source operator (rate of the Kirchhoff stress) does. -/
theorem N2_SPATIAL_MODULI__DTAU_DF (hc : c * c = 2) (h2 : (2:K) ≠ 0)
    (D : Nat → Nat → K) (F0 : M3 K) (f0 f1 f2 f3 f4 : K) (l0 l1 l2 l3 : K) (s : Nat → K)  :
    upper (lamSM (plane f0 f1 f2 f3 f4) (M3.ofMandel c [s 0, s 1, s 2, s 3]) (plane l0 l1 l2 l3 l3) (M3.ofMandel c (act (Gen.N2_SPATIAL_MODULI__DTAU_DF_r c c3 fn D (tensv F0) (tensv (plane f0 f1 f2 f3 f4)) s) (M3.mandel2 c (symm (plane l0 l1 l2 l3 l3))))))
      = upper (lamTau (plane f0 f1 f2 f3 f4) (M3.ofMandel c [s 0, s 1, s 2, s 3]) (plane l0 l1 l2 l3 l3) (M3.ofMandel c (act (rowsOf D i4 i5) (M3.tens2 ((plane l0 l1 l2 l3 l3) * (plane f0 f1 f2 f3 f4)))))) := by
  have hc0 : c ≠ 0 := c_ne_zero hc h2
  unfold Gen.N2_SPATIAL_MODULI__DTAU_DF_r
  refine (PropsN2a.N2_SPATIAL_MODULI__C_TAU_JAUMANN c c3 fn hc h2 ..).trans ?_
  exact PropsN2d.N2_C_TAU_JAUMANN__DTAU_DF c c3 fn hc h2 ..

/-- `C_TRUESDELL ← DTAU_DF` (2D): along every variation `δF = L F` with symmetric `L` the converted operator, applied to the
rate of its kinematic variable, gives the rate of the Truesdell rate of the Cauchy stress that reproduces the same Lie derivative of
the Kirchhoff stress as the source operator (rate of the Kirchhoff stress) does. -/
theorem N2_C_TRUESDELL__DTAU_DF (hc : c * c = 2) (h2 : (2:K) ≠ 0)
    (D : Nat → Nat → K) (F0 : M3 K) (f0 f1 f2 f3 f4 : K) (l0 l1 l2 l3 : K) (s : Nat → K) (hJ : (plane f0 f1 f2 f3 f4).det ≠ 0) :
    upper (lamTr (plane f0 f1 f2 f3 f4) (M3.ofMandel c [s 0, s 1, s 2, s 3]) (plane l0 l1 l2 l3 l3) (M3.ofMandel c (act (Gen.N2_C_TRUESDELL__DTAU_DF_r c c3 fn D (tensv F0) (tensv (plane f0 f1 f2 f3 f4)) s) (M3.mandel2 c (symm (plane l0 l1 l2 l3 l3))))))
      = upper (lamTau (plane f0 f1 f2 f3 f4) (M3.ofMandel c [s 0, s 1, s 2, s 3]) (plane l0 l1 l2 l3 l3) (M3.ofMandel c (act (rowsOf D i4 i5) (M3.tens2 ((plane l0 l1 l2 l3 l3) * (plane f0 f1 f2 f3 f4)))))) := by
  have hc0 : c ≠ 0 := c_ne_zero hc h2
  unfold Gen.N2_C_TRUESDELL__DTAU_DF_r
  refine (PropsN2a.N2_C_TRUESDELL__SPATIAL_MODULI c c3 fn hc h2 (hJ := hJ) ..).trans ?_
  refine (PropsN2a.N2_SPATIAL_MODULI__C_TAU_JAUMANN c c3 fn hc h2 ..).trans ?_
  exact PropsN2d.N2_C_TAU_JAUMANN__DTAU_DF c c3 fn hc h2 ..

/-- `DSIG_DF ← ABAQUS` (2D): along every variation `δF = L F` the converted operator, applied to the
rate of its kinematic variable, gives the rate of the Cauchy stress that reproduces the same Lie derivative of
the Kirchhoff stress as the source operator (rate of the Jaumann rate of the Kirchhoff stress / J) does. -/
theorem N2_DSIG_DF__ABAQUS (hc : c * c = 2) (h2 : (2:K) ≠ 0)
    (D : Nat → Nat → K) (F0 : M3 K) (f0 f1 f2 f3 f4 : K) (l0 l1 l2 l3 l4 : K) (s : Nat → K) (hJ : (plane f0 f1 f2 f3 f4).det ≠ 0) :
    upper (lamSig (plane f0 f1 f2 f3 f4) (M3.ofMandel c [s 0, s 1, s 2, s 3]) (plane l0 l1 l2 l3 l4) (M3.ofMandel c (act (Gen.N2_DSIG_DF__ABAQUS_r c c3 fn D (tensv F0) (tensv (plane f0 f1 f2 f3 f4)) s) (M3.tens2 ((plane l0 l1 l2 l3 l4) * (plane f0 f1 f2 f3 f4))))))
      = upper (lamAb (plane f0 f1 f2 f3 f4) (M3.ofMandel c [s 0, s 1, s 2, s 3]) (plane l0 l1 l2 l3 l4) (M3.ofMandel c (act (rowsOf D i4 i4) (M3.mandel2 c (symm (plane l0 l1 l2 l3 l4)))))) := by
  have hc0 : c ≠ 0 := c_ne_zero hc h2
  unfold Gen.N2_DSIG_DF__ABAQUS_r
  refine (PropsN2c.N2_DSIG_DF__DTAU_DF c c3 fn hc h2 (hJ := hJ) ..).trans ?_
  exact PropsN2a.N2_DTAU_DF__ABAQUS c c3 fn hc h2 (hJ := hJ) ..

/-- `DSIG_DF ← DPK1_DF` (2D): along every variation `δF = L F` the converted operator, applied to the
rate of its kinematic variable, gives the rate of the Cauchy stress that reproduces the same Lie derivative of
the Kirchhoff stress as the source operator (rate of the first Piola–Kirchhoff stress) does. -/
theorem N2_DSIG_DF__DPK1_DF (hc : c * c = 2) (h2 : (2:K) ≠ 0)
    (D : Nat → Nat → K) (F0 : M3 K) (f0 f1 f2 f3 f4 : K) (l0 l1 l2 l3 l4 : K) (s : Nat → K) (hJ : (plane f0 f1 f2 f3 f4).det ≠ 0) :
    lower (lamSig (plane f0 f1 f2 f3 f4) (M3.ofMandel c [s 0, s 1, s 2, s 3]) (plane l0 l1 l2 l3 l4) (M3.ofMandel c (act (Gen.N2_DSIG_DF__DPK1_DF_r c c3 fn D (tensv F0) (tensv (plane f0 f1 f2 f3 f4)) s) (M3.tens2 ((plane l0 l1 l2 l3 l4) * (plane f0 f1 f2 f3 f4))))))
      = lower (lamP (plane f0 f1 f2 f3 f4) (M3.ofMandel c [s 0, s 1, s 2, s 3]) (plane l0 l1 l2 l3 l4) (M3.ofTens (act (rowsOf D i5 i5) (M3.tens2 ((plane l0 l1 l2 l3 l4) * (plane f0 f1 f2 f3 f4)))))) := by
  unfold Gen.N2_DSIG_DF__DPK1_DF_r
  rw [lower_eq_upper (lamSig_symm _ _ (ofMandel_symm c _) (ofMandel_symm c _))]
  refine (PropsN2c.N2_DSIG_DF__DTAU_DF c c3 fn hc h2 (hJ := hJ) ..).trans ?_
  rw [← lower_eq_upper (lamTau_symm _ _ (ofMandel_symm c _) (ofMandel_symm c _))]
  exact PropsN2a.N2_DTAU_DF__DPK1_DF c c3 fn hc h2 ..

end TfelVerif.C23.PropsN2Chains
