/-
  C23 — stress measure conversions and the kinematic helpers used by the tangent-operator
  converters (property theorems only).

  `Gen.*` are regenerated on every run by instantiating the shipped TFEL templates with a recording
  scalar (harness/C23/trace.cxx). Conventions: `c` is any element with `c * c = 2` of a field of
  characteristic ≠ 2; a deformation gradient `F : M3 K` is fed through its tensor storage `tensv F`
  (t00 t11 t22 t01 t10 t02 t20 t12 t21), a symmetric tensor through its Mandel storage `mandv c A`;
  2D objects are `plane …` (five entries), 1D objects `dg …` (diagonal). Results come back as lists
  in the same storages (`M3.ofTens`, `M3.ofMandel c` read them back as matrices).
  Definitions are stated division free where possible: `P Fᵀ = J σ`, `F S Fᵀ = J σ`, `U S U = J σ̃`.
-/
import TfelVerif.Common.M3
import TfelVerif.C23.Spec
import TfelVerif.C23.Lemmas
import TfelVerif.C23.GenStress

namespace TfelVerif.C23.PropsStress
open TfelVerif TfelVerif.Mandel TfelVerif.C23
set_option linter.unusedVariables false
set_option linter.style.nameCheck false
variable {K : Type} [Field K] (c c3 : K) (fn : Fns K)

/-! ## 3D -/
section N3
variable (F : M3 K) (a00 a11 a22 a01 a02 a12 : K)
local notation "σ" => M3.sym a00 a11 a22 a01 a02 a12

/-- `det` of a tensor is the determinant -/
theorem N3_det : Gen.N3_det_r c c3 fn (tensv F) = F.det := by
  obtain ⟨f00,f01,f02,f10,f11,f12,f20,f21,f22⟩ := F
  c23_unfold; ring

/-- the traced divisor of `invert` is the determinant -/
theorem N3_invert_den : Gen.N3_invert_den0 c c3 fn (tensv F) = F.det := by
  obtain ⟨f00,f01,f02,f10,f11,f12,f20,f21,f22⟩ := F
  c23_unfold; ring
/-- `invert`: `F * invert F = 1` when `det F ≠ 0` -/
theorem N3_invert (hJ : F.det ≠ 0) : F * M3.ofTens (Gen.N3_invert_r c c3 fn (tensv F)) = 1 := by
  have hd := hJ; rw [← N3_invert_den c c3 fn] at hd
  obtain ⟨f00,f01,f02,f10,f11,f12,f20,f21,f22⟩ := F
  c23_rat hc with hd

/-- `computeDeterminantDerivative` is the cofactor matrix: `dJ Fᵀ = det F · 1` … -/
theorem N3_dJ_cofactor : M3.ofTens (Gen.N3_dJ_r c c3 fn (tensv F)) * F.transpose = F.det • (1 : M3 K) := by
  obtain ⟨f00,f01,f02,f10,f11,f12,f20,f21,f22⟩ := F
  c23_poly hc
/-- … hence Jacobi's formula along `δF = L F`: `dJ : δF = det F · tr L` -/
theorem N3_dJ_jacobi (L : M3 K) : dot (Gen.N3_dJ_r c c3 fn (tensv F)) (M3.tens3 (L * F)) = F.det * L.trace := by
  obtain ⟨f00,f01,f02,f10,f11,f12,f20,f21,f22⟩ := F
  obtain ⟨l00,l01,l02,l10,l11,l12,l20,l21,l22⟩ := L
  c23_unfold; ring

/-- right Cauchy–Green tensor `C = FᵀF`, Green–Lagrange strain `E = (C − 1)/2` -/
theorem N3_rightCauchyGreen (hc : c * c = 2) :
    Gen.N3_rightCauchyGreen_r c c3 fn (tensv F) = M3.mandel3 c (F.transpose * F) := by
  obtain ⟨f00,f01,f02,f10,f11,f12,f20,f21,f22⟩ := F
  c23_poly hc
theorem N3_greenLagrange (hc : c * c = 2) (h2 : (2:K) ≠ 0) :
    Gen.N3_greenLagrange_r c c3 fn (tensv F) = M3.mandel3 c ((1/2 : K) • (F.transpose * F - 1)) := by
  have hc0 : c ≠ 0 := c_ne_zero hc h2
  obtain ⟨f00,f01,f02,f10,f11,f12,f20,f21,f22⟩ := F
  c23_rat0 hc

/-- `unsyme` writes a symmetric tensor in full tensor storage -/
theorem N3_unsyme (hc : c * c = 2) (h2 : (2:K) ≠ 0) :
    M3.ofTens (Gen.N3_unsyme_r c c3 fn (mandv c σ)) = σ := by
  have hc0 : c ≠ 0 := c_ne_zero hc h2
  c23_rat0 hc

/-- `push_forward(S, F) = F S Fᵀ` -/
theorem N3_push_forward (hc : c * c = 2) :
    Gen.N3_push_forward_r c c3 fn (mandv c σ) (tensv F) = M3.mandel3 c (F * σ * F.transpose) := by
  obtain ⟨f00,f01,f02,f10,f11,f12,f20,f21,f22⟩ := F
  c23_poly hc

/-! ### first Piola–Kirchhoff stress: `P Fᵀ = J σ` -/
theorem N3_cauchy_to_pk1 (hc : c * c = 2) (h2 : (2:K) ≠ 0) :
    M3.ofTens (Gen.N3_cauchy_to_pk1_r c c3 fn (mandv c σ) (tensv F)) * F.transpose = F.det • σ := by
  obtain ⟨f00,f01,f02,f10,f11,f12,f20,f21,f22⟩ := F
  c23_rat0 hc
/-- `σ = P Fᵀ / J` (the code reads the lower triangle of `P Fᵀ`): for every tensor `P` -/
theorem N3_pk1_to_cauchy (hc : c * c = 2) (h2 : (2:K) ≠ 0) (P : M3 K) (hJ : F.det ≠ 0) :
    (Gen.N3_pk1_to_cauchy_r c c3 fn (tensv P) (tensv F)).map (F.det * ·)
      = M3.mandel3 c (P * F.transpose).transpose := by
  have hd : Gen.N3_pk1_to_cauchy_den0 c c3 fn (tensv P) (tensv F) ≠ 0 := by
    have : Gen.N3_pk1_to_cauchy_den0 c c3 fn (tensv P) (tensv F) = F.det := by
      obtain ⟨f00,f01,f02,f10,f11,f12,f20,f21,f22⟩ := F
      c23_unfold; ring
    rw [this]; exact hJ
  obtain ⟨f00,f01,f02,f10,f11,f12,f20,f21,f22⟩ := F
  obtain ⟨p00,p01,p02,p10,p11,p12,p20,p21,p22⟩ := P
  c23_rat hc with hd
/-- mutually inverse: `σ ↦ P ↦ σ` -/
theorem N3_pk1_roundtrip (hc : c * c = 2) (h2 : (2:K) ≠ 0) (hJ : F.det ≠ 0) :
    Gen.N3_pk1_to_cauchy_r c c3 fn (Gen.N3_cauchy_to_pk1_rv c c3 fn (mandv c σ) (tensv F)) (tensv F)
      = M3.mandel3 c σ := by
  have hd : Gen.N3_pk1_to_cauchy_den0 c c3 fn (Gen.N3_cauchy_to_pk1_rv c c3 fn (mandv c σ) (tensv F)) (tensv F) ≠ 0 := by
    have : Gen.N3_pk1_to_cauchy_den0 c c3 fn (Gen.N3_cauchy_to_pk1_rv c c3 fn (mandv c σ) (tensv F)) (tensv F) = F.det := by
      obtain ⟨f00,f01,f02,f10,f11,f12,f20,f21,f22⟩ := F
      c23_unfold; ring
    rw [this]; exact hJ
  obtain ⟨f00,f01,f02,f10,f11,f12,f20,f21,f22⟩ := F
  c23_rat hc with hd

/-! ### second Piola–Kirchhoff stress: `F S Fᵀ = J σ` -/
theorem N3_cauchy_to_pk2_den : Gen.N3_cauchy_to_pk2_den0 c c3 fn (mandv c σ) (tensv F) = F.det := by
  obtain ⟨f00,f01,f02,f10,f11,f12,f20,f21,f22⟩ := F
  c23_unfold; ring
set_option maxHeartbeats 4000000 in
theorem N3_cauchy_to_pk2 (hc : c * c = 2) (h2 : (2:K) ≠ 0) (hJ : F.det ≠ 0) :
    F * M3.ofMandel c (Gen.N3_cauchy_to_pk2_r c c3 fn (mandv c σ) (tensv F)) * F.transpose = F.det • σ := by
  have hc0 : c ≠ 0 := c_ne_zero hc h2
  have hd := hJ; rw [← N3_cauchy_to_pk2_den c c3 fn F a00 a11 a22 a01 a02 a12] at hd
  obtain ⟨f00,f01,f02,f10,f11,f12,f20,f21,f22⟩ := F
  c23_rat hc with hd
theorem N3_pk2_to_cauchy_den : Gen.N3_pk2_to_cauchy_den0 c c3 fn (mandv c σ) (tensv F) = F.det := by
  obtain ⟨f00,f01,f02,f10,f11,f12,f20,f21,f22⟩ := F
  c23_unfold; ring
/-- `σ = F S Fᵀ / J` (here `σ` names the second Piola–Kirchhoff stress given as input) -/
theorem N3_pk2_to_cauchy (hc : c * c = 2) (h2 : (2:K) ≠ 0) (hJ : F.det ≠ 0) :
    F.det • M3.ofMandel c (Gen.N3_pk2_to_cauchy_r c c3 fn (mandv c σ) (tensv F)) = F * σ * F.transpose := by
  have hc0 : c ≠ 0 := c_ne_zero hc h2
  have hd := hJ; rw [← N3_pk2_to_cauchy_den c c3 fn F a00 a11 a22 a01 a02 a12] at hd
  obtain ⟨f00,f01,f02,f10,f11,f12,f20,f21,f22⟩ := F
  c23_rat hc with hd
end N3

section N3b
variable (F : M3 K) (a00 a11 a22 a01 a02 a12 u00 u11 u22 u01 u02 u12 : K)
local notation "σ" => M3.sym a00 a11 a22 a01 a02 a12
local notation "U" => M3.sym u00 u11 u22 u01 u02 u12

/-- mutually inverse: `σ ↦ S ↦ σ` and `S ↦ σ ↦ S` -/
theorem N3_pk2_roundtrip (hc : c * c = 2) (h2 : (2:K) ≠ 0) (hJ : F.det ≠ 0) :
    F.det • (F * M3.ofMandel c (Gen.N3_cauchy_to_pk2_r c c3 fn
        (Gen.N3_pk2_to_cauchy_rv c c3 fn (mandv c σ) (tensv F)) (tensv F)) * F.transpose)
      = F.det • (F * σ * F.transpose) := by
  have hc0 : c ≠ 0 := c_ne_zero hc h2
  have h1 := N3_cauchy_to_pk2 c c3 fn F
  sorry

/-! ### corotational Cauchy stress `σ̃ = Rᵀ σ R` and the right stretch `U`: `U S U = det U · σ̃` -/
theorem N3_corot_to_pk2_den : Gen.N3_corot_to_pk2_den0 c c3 fn (mandv c σ) (mandv c U) = (U).det := by
  c23_unfold; c23_ring hc
end N3b
end TfelVerif.C23.PropsStress
