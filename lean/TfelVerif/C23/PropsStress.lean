/-
  C23 — stress measure conversions and the kinematic helpers used by the tangent-operator
  converters (property theorems only), N = 1, 2, 3.

  `Gen.*` are regenerated on every run by instantiating the shipped TFEL templates with a recording
  scalar (harness/C23/trace.cxx → harness/C23/emit23.py). Conventions: `c` is any element with
  `c * c = 2` of a field of characteristic ≠ 2 (ℝ with √2: Common/Model.lean). A deformation gradient
  `F : M3 K` is fed through its tensor storage `tensv F` (t00 t11 t22 t01 t10 t02 t20 t12 t21); 2D
  tensors are `plane f0 f1 f2 f3 f4`, 1D tensors `dg f0 f1 f2`. A stress is fed as an *arbitrary*
  stored vector `s : Nat → K`; the symmetric matrix it denotes is `M3.ofMandel c [s 0, …]` (Mandel
  storage), a first Piola–Kirchhoff stress `p` denotes `M3.ofTens [p 0, …]`. Results come back as lists
  in the same storages. Definitions are stated division free: `P Fᵀ = J σ`, `F S Fᵀ = J σ`,
  `U S U = det U · σ̃`; `J σ = P Fᵀ`, … for the inverse maps; the round trips follow.
-/
import TfelVerif.Common.M3
import TfelVerif.C23.Spec
import TfelVerif.C23.Lemmas
import TfelVerif.C23.GenStress

namespace TfelVerif.C23.PropsStress
open TfelVerif TfelVerif.Mandel TfelVerif.C23
set_option linter.unusedVariables false
set_option linter.all false
set_option maxRecDepth 100000
set_option maxHeartbeats 4000000
variable {K : Type} [Field K] (c c3 : K) (fn : Fns K)

/-! ## 3D -/
section N3
variable (F : M3 K) (s p u : Nat → K)
/-- `det` of a tensor is the determinant -/
theorem N3_det : Gen.N3_det_r c c3 fn (tensv F) = F.det := by
  obtain ⟨f00,f01,f02,f10,f11,f12,f20,f21,f22⟩ := F
  c23_unfold <;> (try ring1)
/-- `invert`: `F * invert F = 1` when `det F ≠ 0` -/
theorem N3_invert (hc : c * c = 2) (hJ : F.det ≠ 0) : F * M3.ofTens (Gen.N3_invert_r c c3 fn (tensv F)) = 1 := by
  have hd : Gen.N3_invert_den0 c c3 fn (tensv F) ≠ 0 := by
    have : Gen.N3_invert_den0 c c3 fn (tensv F) = F.det := by
      obtain ⟨f00,f01,f02,f10,f11,f12,f20,f21,f22⟩ := F
      c23_unfold <;> (try ring1)
    rw [this]; exact hJ
  obtain ⟨f00,f01,f02,f10,f11,f12,f20,f21,f22⟩ := F
  c23_rat hc with hd
/-- `computeDeterminantDerivative` is the cofactor matrix: `dJ Fᵀ = det F · 1` … -/
theorem N3_dJ_cofactor (hc : c * c = 2) : M3.ofTens (Gen.N3_dJ_r c c3 fn (tensv F)) * F.transpose = F.det • (1 : M3 K) := by
  obtain ⟨f00,f01,f02,f10,f11,f12,f20,f21,f22⟩ := F
  c23_poly hc
/-- … hence Jacobi's formula along `δF = L F`: `dJ : δF = det F · tr L` -/
theorem N3_dJ_jacobi (L : M3 K) : dot (Gen.N3_dJ_r c c3 fn (tensv F)) (M3.tens3 (L * F)) = F.det * L.trace := by
  obtain ⟨f00,f01,f02,f10,f11,f12,f20,f21,f22⟩ := F
  obtain ⟨l00,l01,l02,l10,l11,l12,l20,l21,l22⟩ := L
  c23_unfold <;> (try ring1)
/-- right Cauchy–Green tensor `C = FᵀF` and Green–Lagrange strain `E = (C − 1)/2` -/
theorem N3_rightCauchyGreen (hc : c * c = 2) :
    Gen.N3_rightCauchyGreen_r c c3 fn (tensv F) = M3.mandel3 c (F.transpose * F) := by
  obtain ⟨f00,f01,f02,f10,f11,f12,f20,f21,f22⟩ := F
  c23_poly hc
theorem N3_greenLagrange (hc : c * c = 2) (h2 : (2:K) ≠ 0) :
    Gen.N3_greenLagrange_r c c3 fn (tensv F) = M3.mandel3 c ((1/2 : K) • (F.transpose * F - 1)) := by
  have hc0 : c ≠ 0 := c_ne_zero hc h2
  obtain ⟨f00,f01,f02,f10,f11,f12,f20,f21,f22⟩ := F
  c23_rat0 hc
/-- `unsyme` writes a symmetric tensor in full tensor storage -/
theorem N3_unsyme (hc : c * c = 2) (h2 : (2:K) ≠ 0) :
    M3.ofTens (Gen.N3_unsyme_r c c3 fn s) = M3.ofMandel c [s 0, s 1, s 2, s 3, s 4, s 5] := by
  have hc0 : c ≠ 0 := c_ne_zero hc h2
  c23_rat0 hc
/-- `push_forward(S, F) = F S Fᵀ` -/
theorem N3_push_forward (hc : c * c = 2) (h2 : (2:K) ≠ 0) :
    M3.ofMandel c (Gen.N3_push_forward_r c c3 fn s (tensv F)) = F * M3.ofMandel c [s 0, s 1, s 2, s 3, s 4, s 5] * F.transpose := by
  have hc0 : c ≠ 0 := c_ne_zero hc h2
  obtain ⟨f00,f01,f02,f10,f11,f12,f20,f21,f22⟩ := F
  c23_rat0 hc
/-! ### first Piola–Kirchhoff stress: `P Fᵀ = J σ` -/
theorem N3_cauchy_to_pk1 (hc : c * c = 2) (h2 : (2:K) ≠ 0) :
    M3.ofTens (Gen.N3_cauchy_to_pk1_r c c3 fn s (tensv F)) * F.transpose = F.det • M3.ofMandel c [s 0, s 1, s 2, s 3, s 4, s 5] := by
  have hc0 : c ≠ 0 := c_ne_zero hc h2
  obtain ⟨f00,f01,f02,f10,f11,f12,f20,f21,f22⟩ := F
  c23_rat0 hc
/-- `J σ = P Fᵀ`; the code reads the lower triangle of `P Fᵀ` (symmetric for a physical `P`) -/
theorem N3_pk1_to_cauchy (hc : c * c = 2) (h2 : (2:K) ≠ 0) (hJ : F.det ≠ 0) :
    F.det • M3.ofMandel c (Gen.N3_pk1_to_cauchy_r c c3 fn p (tensv F)) = symLower (M3.ofTens [p 0, p 1, p 2, p 3, p 4, p 5, p 6, p 7, p 8] * F.transpose) := by
  have hc0 : c ≠ 0 := c_ne_zero hc h2
  have hd : Gen.N3_pk1_to_cauchy_den0 c c3 fn p (tensv F) ≠ 0 := by
    have : Gen.N3_pk1_to_cauchy_den0 c c3 fn p (tensv F) = F.det := by
      obtain ⟨f00,f01,f02,f10,f11,f12,f20,f21,f22⟩ := F
      c23_unfold <;> (try ring1)
    rw [this]; exact hJ
  obtain ⟨f00,f01,f02,f10,f11,f12,f20,f21,f22⟩ := F
  c23_rat hc with hd
/-! ### second Piola–Kirchhoff stress: `F S Fᵀ = J σ` -/
theorem N3_cauchy_to_pk2 (hc : c * c = 2) (h2 : (2:K) ≠ 0) (hJ : F.det ≠ 0) :
    F * M3.ofMandel c (Gen.N3_cauchy_to_pk2_r c c3 fn s (tensv F)) * F.transpose = F.det • M3.ofMandel c [s 0, s 1, s 2, s 3, s 4, s 5] := by
  have hc0 : c ≠ 0 := c_ne_zero hc h2
  have hd : Gen.N3_cauchy_to_pk2_den0 c c3 fn s (tensv F) ≠ 0 := by
    have : Gen.N3_cauchy_to_pk2_den0 c c3 fn s (tensv F) = F.det := by
      obtain ⟨f00,f01,f02,f10,f11,f12,f20,f21,f22⟩ := F
      c23_unfold <;> (try ring1)
    rw [this]; exact hJ
  obtain ⟨f00,f01,f02,f10,f11,f12,f20,f21,f22⟩ := F
  c23_rat hc with hd
/-- `J σ = F S Fᵀ` (`p` is the stored second Piola–Kirchhoff stress) -/
theorem N3_pk2_to_cauchy (hc : c * c = 2) (h2 : (2:K) ≠ 0) (hJ : F.det ≠ 0) :
    F.det • M3.ofMandel c (Gen.N3_pk2_to_cauchy_r c c3 fn p (tensv F)) = F * M3.ofMandel c [p 0, p 1, p 2, p 3, p 4, p 5] * F.transpose := by
  have hc0 : c ≠ 0 := c_ne_zero hc h2
  have hd : Gen.N3_pk2_to_cauchy_den0 c c3 fn p (tensv F) ≠ 0 := by
    have : Gen.N3_pk2_to_cauchy_den0 c c3 fn p (tensv F) = F.det := by
      obtain ⟨f00,f01,f02,f10,f11,f12,f20,f21,f22⟩ := F
      c23_unfold <;> (try ring1)
    rw [this]; exact hJ
  obtain ⟨f00,f01,f02,f10,f11,f12,f20,f21,f22⟩ := F
  c23_rat hc with hd
/-! ### corotational Cauchy stress `σ̃ = Rᵀ σ R` and right stretch `U` (stored `u`): `U S U = det U · σ̃` -/
theorem N3_corot_to_pk2 (hc : c * c = 2) (h2 : (2:K) ≠ 0) (hU : (M3.ofMandel c [u 0, u 1, u 2, u 3, u 4, u 5]).det ≠ 0) :
    (M3.ofMandel c [u 0, u 1, u 2, u 3, u 4, u 5]) * M3.ofMandel c (Gen.N3_corot_to_pk2_r c c3 fn s u) * (M3.ofMandel c [u 0, u 1, u 2, u 3, u 4, u 5]) = (M3.ofMandel c [u 0, u 1, u 2, u 3, u 4, u 5]).det • M3.ofMandel c [s 0, s 1, s 2, s 3, s 4, s 5] := by
  have hc0 : c ≠ 0 := c_ne_zero hc h2
  have hd : Gen.N3_corot_to_pk2_den0 c c3 fn s u ≠ 0 := by
    have : Gen.N3_corot_to_pk2_den0 c c3 fn s u = (M3.ofMandel c [u 0, u 1, u 2, u 3, u 4, u 5]).det := by
      c23_unfold; c23_field hc
    rw [this]; exact hU
  c23_rat hc with hd
/-- `det U · σ̃ = U S U` -/
theorem N3_pk2_to_corot (hc : c * c = 2) (h2 : (2:K) ≠ 0) (hU : (M3.ofMandel c [u 0, u 1, u 2, u 3, u 4, u 5]).det ≠ 0) :
    (M3.ofMandel c [u 0, u 1, u 2, u 3, u 4, u 5]).det • M3.ofMandel c (Gen.N3_pk2_to_corot_r c c3 fn p u) = (M3.ofMandel c [u 0, u 1, u 2, u 3, u 4, u 5]) * M3.ofMandel c [p 0, p 1, p 2, p 3, p 4, p 5] * (M3.ofMandel c [u 0, u 1, u 2, u 3, u 4, u 5]) := by
  have hc0 : c ≠ 0 := c_ne_zero hc h2
  have hd : Gen.N3_pk2_to_corot_den0 c c3 fn p u ≠ 0 := by
    have : Gen.N3_pk2_to_corot_den0 c c3 fn p u = (M3.ofMandel c [u 0, u 1, u 2, u 3, u 4, u 5]).det := by
      c23_unfold; c23_field hc
    rw [this]; exact hU
  c23_rat hc with hd
/-! ### the conversions are mutually inverse (`det F ≠ 0`, `det U ≠ 0`) -/
/-- `σ ↦ P ↦ σ` -/
theorem N3_pk1_roundtrip (hc : c * c = 2) (h2 : (2:K) ≠ 0) (hJ : F.det ≠ 0) :
    M3.ofMandel c (Gen.N3_pk1_to_cauchy_r c c3 fn (Gen.N3_cauchy_to_pk1_rv c c3 fn s (tensv F)) (tensv F)) = M3.ofMandel c [s 0, s 1, s 2, s 3, s 4, s 5] := by
  have B := N3_pk1_to_cauchy c c3 fn F (Gen.N3_cauchy_to_pk1_rv c c3 fn s (tensv F)) hc h2 hJ
  have A := N3_cauchy_to_pk1 c c3 fn F s hc h2
  have e : M3.ofTens [Gen.N3_cauchy_to_pk1_rv c c3 fn s (tensv F) 0, Gen.N3_cauchy_to_pk1_rv c c3 fn s (tensv F) 1, Gen.N3_cauchy_to_pk1_rv c c3 fn s (tensv F) 2, Gen.N3_cauchy_to_pk1_rv c c3 fn s (tensv F) 3, Gen.N3_cauchy_to_pk1_rv c c3 fn s (tensv F) 4, Gen.N3_cauchy_to_pk1_rv c c3 fn s (tensv F) 5, Gen.N3_cauchy_to_pk1_rv c c3 fn s (tensv F) 6, Gen.N3_cauchy_to_pk1_rv c c3 fn s (tensv F) 7, Gen.N3_cauchy_to_pk1_rv c c3 fn s (tensv F) 8] = M3.ofTens (Gen.N3_cauchy_to_pk1_r c c3 fn s (tensv F)) := rfl
  rw [e, A, symLower_smul_ofMandel] at B
  exact smul_cancel hJ B
/-- `σ ↦ S ↦ σ` -/
theorem N3_pk2_roundtrip (hc : c * c = 2) (h2 : (2:K) ≠ 0) (hJ : F.det ≠ 0) :
    M3.ofMandel c (Gen.N3_pk2_to_cauchy_r c c3 fn (Gen.N3_cauchy_to_pk2_rv c c3 fn s (tensv F)) (tensv F)) = M3.ofMandel c [s 0, s 1, s 2, s 3, s 4, s 5] := by
  have B := N3_pk2_to_cauchy c c3 fn F (Gen.N3_cauchy_to_pk2_rv c c3 fn s (tensv F)) hc h2 hJ
  have A := N3_cauchy_to_pk2 c c3 fn F s hc h2 hJ
  have e : M3.ofMandel c [Gen.N3_cauchy_to_pk2_rv c c3 fn s (tensv F) 0, Gen.N3_cauchy_to_pk2_rv c c3 fn s (tensv F) 1, Gen.N3_cauchy_to_pk2_rv c c3 fn s (tensv F) 2, Gen.N3_cauchy_to_pk2_rv c c3 fn s (tensv F) 3, Gen.N3_cauchy_to_pk2_rv c c3 fn s (tensv F) 4, Gen.N3_cauchy_to_pk2_rv c c3 fn s (tensv F) 5] = M3.ofMandel c (Gen.N3_cauchy_to_pk2_r c c3 fn s (tensv F)) := rfl
  rw [e, A] at B
  exact smul_cancel hJ B
/-- `S ↦ σ ↦ S` -/
theorem N3_pk2_roundtrip_rev (hc : c * c = 2) (h2 : (2:K) ≠ 0) (hJ : F.det ≠ 0) :
    M3.ofMandel c (Gen.N3_cauchy_to_pk2_r c c3 fn (Gen.N3_pk2_to_cauchy_rv c c3 fn p (tensv F)) (tensv F)) = M3.ofMandel c [p 0, p 1, p 2, p 3, p 4, p 5] := by
  have A := N3_cauchy_to_pk2 c c3 fn F (Gen.N3_pk2_to_cauchy_rv c c3 fn p (tensv F)) hc h2 hJ
  have B := N3_pk2_to_cauchy c c3 fn F p hc h2 hJ
  have e : M3.ofMandel c [Gen.N3_pk2_to_cauchy_rv c c3 fn p (tensv F) 0, Gen.N3_pk2_to_cauchy_rv c c3 fn p (tensv F) 1, Gen.N3_pk2_to_cauchy_rv c c3 fn p (tensv F) 2, Gen.N3_pk2_to_cauchy_rv c c3 fn p (tensv F) 3, Gen.N3_pk2_to_cauchy_rv c c3 fn p (tensv F) 4, Gen.N3_pk2_to_cauchy_rv c c3 fn p (tensv F) 5] = M3.ofMandel c (Gen.N3_pk2_to_cauchy_r c c3 fn p (tensv F)) := rfl
  rw [e, B] at A
  have hJt : F.transpose.det ≠ 0 := by rw [det_transpose]; exact hJ
  exact mul_left_cancel_det hJ (mul_right_cancel_det hJt A)
/-- `σ̃ ↦ S ↦ σ̃` -/
theorem N3_corot_roundtrip (hc : c * c = 2) (h2 : (2:K) ≠ 0) (hU : (M3.ofMandel c [u 0, u 1, u 2, u 3, u 4, u 5]).det ≠ 0) :
    M3.ofMandel c (Gen.N3_pk2_to_corot_r c c3 fn (Gen.N3_corot_to_pk2_rv c c3 fn s u) u) = M3.ofMandel c [s 0, s 1, s 2, s 3, s 4, s 5] := by
  have B := N3_pk2_to_corot c c3 fn (Gen.N3_corot_to_pk2_rv c c3 fn s u) u hc h2 hU
  have A := N3_corot_to_pk2 c c3 fn s u hc h2 hU
  have e : M3.ofMandel c [Gen.N3_corot_to_pk2_rv c c3 fn s u 0, Gen.N3_corot_to_pk2_rv c c3 fn s u 1, Gen.N3_corot_to_pk2_rv c c3 fn s u 2, Gen.N3_corot_to_pk2_rv c c3 fn s u 3, Gen.N3_corot_to_pk2_rv c c3 fn s u 4, Gen.N3_corot_to_pk2_rv c c3 fn s u 5] = M3.ofMandel c (Gen.N3_corot_to_pk2_r c c3 fn s u) := rfl
  rw [e, A] at B
  exact smul_cancel hU B
/-- `S ↦ σ̃ ↦ S` -/
theorem N3_corot_roundtrip_rev (hc : c * c = 2) (h2 : (2:K) ≠ 0) (hU : (M3.ofMandel c [u 0, u 1, u 2, u 3, u 4, u 5]).det ≠ 0) :
    M3.ofMandel c (Gen.N3_corot_to_pk2_r c c3 fn (Gen.N3_pk2_to_corot_rv c c3 fn p u) u) = M3.ofMandel c [p 0, p 1, p 2, p 3, p 4, p 5] := by
  have A := N3_corot_to_pk2 c c3 fn (Gen.N3_pk2_to_corot_rv c c3 fn p u) u hc h2 hU
  have B := N3_pk2_to_corot c c3 fn p u hc h2 hU
  have e : M3.ofMandel c [Gen.N3_pk2_to_corot_rv c c3 fn p u 0, Gen.N3_pk2_to_corot_rv c c3 fn p u 1, Gen.N3_pk2_to_corot_rv c c3 fn p u 2, Gen.N3_pk2_to_corot_rv c c3 fn p u 3, Gen.N3_pk2_to_corot_rv c c3 fn p u 4, Gen.N3_pk2_to_corot_rv c c3 fn p u 5] = M3.ofMandel c (Gen.N3_pk2_to_corot_r c c3 fn p u) := rfl
  rw [e, B] at A
  exact mul_left_cancel_det hU (mul_right_cancel_det hU A)
end N3

/-! ## 2D -/
section N2
variable (f0 f1 f2 f3 f4 : K) (s p u : Nat → K)
/-- `det` of a tensor is the determinant -/
theorem N2_det : Gen.N2_det_r c c3 fn (tensv (plane f0 f1 f2 f3 f4)) = (plane f0 f1 f2 f3 f4).det := by
  c23_unfold <;> (try ring1)
/-- `invert`: `F * invert F = 1` when `det F ≠ 0` -/
theorem N2_invert (hc : c * c = 2) (hJ : (plane f0 f1 f2 f3 f4).det ≠ 0) : (plane f0 f1 f2 f3 f4) * M3.ofTens (Gen.N2_invert_r c c3 fn (tensv (plane f0 f1 f2 f3 f4))) = 1 := by
  obtain ⟨h1, h2'⟩ := plane_det_ne hJ
  c23_rat hc with h1
/-- `computeDeterminantDerivative` is the cofactor matrix: `dJ Fᵀ = det F · 1` … -/
theorem N2_dJ_cofactor (hc : c * c = 2) : M3.ofTens (Gen.N2_dJ_r c c3 fn (tensv (plane f0 f1 f2 f3 f4))) * (plane f0 f1 f2 f3 f4).transpose = (plane f0 f1 f2 f3 f4).det • (1 : M3 K) := by
  c23_poly hc
/-- … hence Jacobi's formula along `δF = L F`: `dJ : δF = det F · tr L` -/
theorem N2_dJ_jacobi (l0 l1 l2 l3 l4 : K) : dot (Gen.N2_dJ_r c c3 fn (tensv (plane f0 f1 f2 f3 f4))) (M3.tens2 ((plane l0 l1 l2 l3 l4) * (plane f0 f1 f2 f3 f4))) = (plane f0 f1 f2 f3 f4).det * (plane l0 l1 l2 l3 l4).trace := by
  c23_unfold <;> (try ring1)
/-- right Cauchy–Green tensor `C = FᵀF` and Green–Lagrange strain `E = (C − 1)/2` -/
theorem N2_rightCauchyGreen (hc : c * c = 2) :
    Gen.N2_rightCauchyGreen_r c c3 fn (tensv (plane f0 f1 f2 f3 f4)) = M3.mandel2 c ((plane f0 f1 f2 f3 f4).transpose * (plane f0 f1 f2 f3 f4)) := by
  c23_poly hc
theorem N2_greenLagrange (hc : c * c = 2) (h2 : (2:K) ≠ 0) :
    Gen.N2_greenLagrange_r c c3 fn (tensv (plane f0 f1 f2 f3 f4)) = M3.mandel2 c ((1/2 : K) • ((plane f0 f1 f2 f3 f4).transpose * (plane f0 f1 f2 f3 f4) - 1)) := by
  have hc0 : c ≠ 0 := c_ne_zero hc h2
  c23_rat0 hc
/-- `unsyme` writes a symmetric tensor in full tensor storage -/
theorem N2_unsyme (hc : c * c = 2) (h2 : (2:K) ≠ 0) :
    M3.ofTens (Gen.N2_unsyme_r c c3 fn s) = M3.ofMandel c [s 0, s 1, s 2, s 3] := by
  have hc0 : c ≠ 0 := c_ne_zero hc h2
  c23_rat0 hc
/-- `push_forward(S, F) = F S Fᵀ` -/
theorem N2_push_forward (hc : c * c = 2) (h2 : (2:K) ≠ 0) :
    M3.ofMandel c (Gen.N2_push_forward_r c c3 fn s (tensv (plane f0 f1 f2 f3 f4))) = (plane f0 f1 f2 f3 f4) * M3.ofMandel c [s 0, s 1, s 2, s 3] * (plane f0 f1 f2 f3 f4).transpose := by
  have hc0 : c ≠ 0 := c_ne_zero hc h2
  c23_rat0 hc
/-! ### first Piola–Kirchhoff stress: `P Fᵀ = J σ` -/
theorem N2_cauchy_to_pk1 (hc : c * c = 2) (h2 : (2:K) ≠ 0) :
    M3.ofTens (Gen.N2_cauchy_to_pk1_r c c3 fn s (tensv (plane f0 f1 f2 f3 f4))) * (plane f0 f1 f2 f3 f4).transpose = (plane f0 f1 f2 f3 f4).det • M3.ofMandel c [s 0, s 1, s 2, s 3] := by
  have hc0 : c ≠ 0 := c_ne_zero hc h2
  c23_rat0 hc
/-- `J σ = P Fᵀ`; the code reads the lower triangle of `P Fᵀ` (symmetric for a physical `P`) -/
theorem N2_pk1_to_cauchy (hc : c * c = 2) (h2 : (2:K) ≠ 0) (hJ : (plane f0 f1 f2 f3 f4).det ≠ 0) :
    (plane f0 f1 f2 f3 f4).det • M3.ofMandel c (Gen.N2_pk1_to_cauchy_r c c3 fn p (tensv (plane f0 f1 f2 f3 f4))) = symLower (M3.ofTens [p 0, p 1, p 2, p 3, p 4] * (plane f0 f1 f2 f3 f4).transpose) := by
  have hc0 : c ≠ 0 := c_ne_zero hc h2
  obtain ⟨h1, h2'⟩ := plane_det_ne hJ
  c23_rat hc with h1
/-! ### second Piola–Kirchhoff stress: `F S Fᵀ = J σ` -/
theorem N2_cauchy_to_pk2 (hc : c * c = 2) (h2 : (2:K) ≠ 0) (hJ : (plane f0 f1 f2 f3 f4).det ≠ 0) :
    (plane f0 f1 f2 f3 f4) * M3.ofMandel c (Gen.N2_cauchy_to_pk2_r c c3 fn s (tensv (plane f0 f1 f2 f3 f4))) * (plane f0 f1 f2 f3 f4).transpose = (plane f0 f1 f2 f3 f4).det • M3.ofMandel c [s 0, s 1, s 2, s 3] := by
  have hc0 : c ≠ 0 := c_ne_zero hc h2
  obtain ⟨h1, h2'⟩ := plane_det_ne hJ
  c23_rat hc with h1
/-- `J σ = F S Fᵀ` (`p` is the stored second Piola–Kirchhoff stress) -/
theorem N2_pk2_to_cauchy (hc : c * c = 2) (h2 : (2:K) ≠ 0) (hJ : (plane f0 f1 f2 f3 f4).det ≠ 0) :
    (plane f0 f1 f2 f3 f4).det • M3.ofMandel c (Gen.N2_pk2_to_cauchy_r c c3 fn p (tensv (plane f0 f1 f2 f3 f4))) = (plane f0 f1 f2 f3 f4) * M3.ofMandel c [p 0, p 1, p 2, p 3] * (plane f0 f1 f2 f3 f4).transpose := by
  have hc0 : c ≠ 0 := c_ne_zero hc h2
  obtain ⟨h1, h2'⟩ := plane_det_ne hJ
  c23_rat hc with h1
/-! ### corotational Cauchy stress `σ̃ = Rᵀ σ R` and right stretch `U` (stored `u`): `U S U = det U · σ̃` -/
theorem N2_corot_to_pk2 (hc : c * c = 2) (h2 : (2:K) ≠ 0) (hU : (M3.ofMandel c [u 0, u 1, u 2, u 3]).det ≠ 0) :
    (M3.ofMandel c [u 0, u 1, u 2, u 3]) * M3.ofMandel c (Gen.N2_corot_to_pk2_r c c3 fn s u) * (M3.ofMandel c [u 0, u 1, u 2, u 3]) = (M3.ofMandel c [u 0, u 1, u 2, u 3]).det • M3.ofMandel c [s 0, s 1, s 2, s 3] := by
  have hc0 : c ≠ 0 := c_ne_zero hc h2
  have hu2 : u 2 ≠ 0 := by
    intro h; apply hU; c23_unfold; rw [h]; ring
  have hd : Gen.N2_corot_to_pk2_den0 c c3 fn s u ≠ 0 := by
    have : Gen.N2_corot_to_pk2_den0 c c3 fn s u = (M3.ofMandel c [u 0, u 1, u 2, u 3]).det := by
      c23_unfold; c23_field hc
    rw [this]; exact hU
  c23_rat hc with hd
/-- `det U · σ̃ = U S U` -/
theorem N2_pk2_to_corot (hc : c * c = 2) (h2 : (2:K) ≠ 0) (hU : (M3.ofMandel c [u 0, u 1, u 2, u 3]).det ≠ 0) :
    (M3.ofMandel c [u 0, u 1, u 2, u 3]).det • M3.ofMandel c (Gen.N2_pk2_to_corot_r c c3 fn p u) = (M3.ofMandel c [u 0, u 1, u 2, u 3]) * M3.ofMandel c [p 0, p 1, p 2, p 3] * (M3.ofMandel c [u 0, u 1, u 2, u 3]) := by
  have hc0 : c ≠ 0 := c_ne_zero hc h2
  have hu2 : u 2 ≠ 0 := by
    intro h; apply hU; c23_unfold; rw [h]; ring
  have hd : Gen.N2_pk2_to_corot_den0 c c3 fn p u ≠ 0 := by
    have : Gen.N2_pk2_to_corot_den0 c c3 fn p u = (M3.ofMandel c [u 0, u 1, u 2, u 3]).det := by
      c23_unfold; c23_field hc
    rw [this]; exact hU
  c23_rat hc with hd
/-! ### the conversions are mutually inverse (`det F ≠ 0`, `det U ≠ 0`) -/
/-- `σ ↦ P ↦ σ` -/
theorem N2_pk1_roundtrip (hc : c * c = 2) (h2 : (2:K) ≠ 0) (hJ : (plane f0 f1 f2 f3 f4).det ≠ 0) :
    M3.ofMandel c (Gen.N2_pk1_to_cauchy_r c c3 fn (Gen.N2_cauchy_to_pk1_rv c c3 fn s (tensv (plane f0 f1 f2 f3 f4))) (tensv (plane f0 f1 f2 f3 f4))) = M3.ofMandel c [s 0, s 1, s 2, s 3] := by
  have B := N2_pk1_to_cauchy c c3 fn f0 f1 f2 f3 f4 (Gen.N2_cauchy_to_pk1_rv c c3 fn s (tensv (plane f0 f1 f2 f3 f4))) hc h2 hJ
  have A := N2_cauchy_to_pk1 c c3 fn f0 f1 f2 f3 f4 s hc h2
  have e : M3.ofTens [Gen.N2_cauchy_to_pk1_rv c c3 fn s (tensv (plane f0 f1 f2 f3 f4)) 0, Gen.N2_cauchy_to_pk1_rv c c3 fn s (tensv (plane f0 f1 f2 f3 f4)) 1, Gen.N2_cauchy_to_pk1_rv c c3 fn s (tensv (plane f0 f1 f2 f3 f4)) 2, Gen.N2_cauchy_to_pk1_rv c c3 fn s (tensv (plane f0 f1 f2 f3 f4)) 3, Gen.N2_cauchy_to_pk1_rv c c3 fn s (tensv (plane f0 f1 f2 f3 f4)) 4] = M3.ofTens (Gen.N2_cauchy_to_pk1_r c c3 fn s (tensv (plane f0 f1 f2 f3 f4))) := rfl
  rw [e, A, symLower_smul_ofMandel] at B
  exact smul_cancel hJ B
/-- `σ ↦ S ↦ σ` -/
theorem N2_pk2_roundtrip (hc : c * c = 2) (h2 : (2:K) ≠ 0) (hJ : (plane f0 f1 f2 f3 f4).det ≠ 0) :
    M3.ofMandel c (Gen.N2_pk2_to_cauchy_r c c3 fn (Gen.N2_cauchy_to_pk2_rv c c3 fn s (tensv (plane f0 f1 f2 f3 f4))) (tensv (plane f0 f1 f2 f3 f4))) = M3.ofMandel c [s 0, s 1, s 2, s 3] := by
  have B := N2_pk2_to_cauchy c c3 fn f0 f1 f2 f3 f4 (Gen.N2_cauchy_to_pk2_rv c c3 fn s (tensv (plane f0 f1 f2 f3 f4))) hc h2 hJ
  have A := N2_cauchy_to_pk2 c c3 fn f0 f1 f2 f3 f4 s hc h2 hJ
  have e : M3.ofMandel c [Gen.N2_cauchy_to_pk2_rv c c3 fn s (tensv (plane f0 f1 f2 f3 f4)) 0, Gen.N2_cauchy_to_pk2_rv c c3 fn s (tensv (plane f0 f1 f2 f3 f4)) 1, Gen.N2_cauchy_to_pk2_rv c c3 fn s (tensv (plane f0 f1 f2 f3 f4)) 2, Gen.N2_cauchy_to_pk2_rv c c3 fn s (tensv (plane f0 f1 f2 f3 f4)) 3] = M3.ofMandel c (Gen.N2_cauchy_to_pk2_r c c3 fn s (tensv (plane f0 f1 f2 f3 f4))) := rfl
  rw [e, A] at B
  exact smul_cancel hJ B
/-- `S ↦ σ ↦ S` -/
theorem N2_pk2_roundtrip_rev (hc : c * c = 2) (h2 : (2:K) ≠ 0) (hJ : (plane f0 f1 f2 f3 f4).det ≠ 0) :
    M3.ofMandel c (Gen.N2_cauchy_to_pk2_r c c3 fn (Gen.N2_pk2_to_cauchy_rv c c3 fn p (tensv (plane f0 f1 f2 f3 f4))) (tensv (plane f0 f1 f2 f3 f4))) = M3.ofMandel c [p 0, p 1, p 2, p 3] := by
  have A := N2_cauchy_to_pk2 c c3 fn f0 f1 f2 f3 f4 (Gen.N2_pk2_to_cauchy_rv c c3 fn p (tensv (plane f0 f1 f2 f3 f4))) hc h2 hJ
  have B := N2_pk2_to_cauchy c c3 fn f0 f1 f2 f3 f4 p hc h2 hJ
  have e : M3.ofMandel c [Gen.N2_pk2_to_cauchy_rv c c3 fn p (tensv (plane f0 f1 f2 f3 f4)) 0, Gen.N2_pk2_to_cauchy_rv c c3 fn p (tensv (plane f0 f1 f2 f3 f4)) 1, Gen.N2_pk2_to_cauchy_rv c c3 fn p (tensv (plane f0 f1 f2 f3 f4)) 2, Gen.N2_pk2_to_cauchy_rv c c3 fn p (tensv (plane f0 f1 f2 f3 f4)) 3] = M3.ofMandel c (Gen.N2_pk2_to_cauchy_r c c3 fn p (tensv (plane f0 f1 f2 f3 f4))) := rfl
  rw [e, B] at A
  have hJt : (plane f0 f1 f2 f3 f4).transpose.det ≠ 0 := by rw [det_transpose]; exact hJ
  exact mul_left_cancel_det hJ (mul_right_cancel_det hJt A)
/-- `σ̃ ↦ S ↦ σ̃` -/
theorem N2_corot_roundtrip (hc : c * c = 2) (h2 : (2:K) ≠ 0) (hU : (M3.ofMandel c [u 0, u 1, u 2, u 3]).det ≠ 0) :
    M3.ofMandel c (Gen.N2_pk2_to_corot_r c c3 fn (Gen.N2_corot_to_pk2_rv c c3 fn s u) u) = M3.ofMandel c [s 0, s 1, s 2, s 3] := by
  have B := N2_pk2_to_corot c c3 fn (Gen.N2_corot_to_pk2_rv c c3 fn s u) u hc h2 hU
  have A := N2_corot_to_pk2 c c3 fn s u hc h2 hU
  have e : M3.ofMandel c [Gen.N2_corot_to_pk2_rv c c3 fn s u 0, Gen.N2_corot_to_pk2_rv c c3 fn s u 1, Gen.N2_corot_to_pk2_rv c c3 fn s u 2, Gen.N2_corot_to_pk2_rv c c3 fn s u 3] = M3.ofMandel c (Gen.N2_corot_to_pk2_r c c3 fn s u) := rfl
  rw [e, A] at B
  exact smul_cancel hU B
/-- `S ↦ σ̃ ↦ S` -/
theorem N2_corot_roundtrip_rev (hc : c * c = 2) (h2 : (2:K) ≠ 0) (hU : (M3.ofMandel c [u 0, u 1, u 2, u 3]).det ≠ 0) :
    M3.ofMandel c (Gen.N2_corot_to_pk2_r c c3 fn (Gen.N2_pk2_to_corot_rv c c3 fn p u) u) = M3.ofMandel c [p 0, p 1, p 2, p 3] := by
  have A := N2_corot_to_pk2 c c3 fn (Gen.N2_pk2_to_corot_rv c c3 fn p u) u hc h2 hU
  have B := N2_pk2_to_corot c c3 fn p u hc h2 hU
  have e : M3.ofMandel c [Gen.N2_pk2_to_corot_rv c c3 fn p u 0, Gen.N2_pk2_to_corot_rv c c3 fn p u 1, Gen.N2_pk2_to_corot_rv c c3 fn p u 2, Gen.N2_pk2_to_corot_rv c c3 fn p u 3] = M3.ofMandel c (Gen.N2_pk2_to_corot_r c c3 fn p u) := rfl
  rw [e, B] at A
  exact mul_left_cancel_det hU (mul_right_cancel_det hU A)
end N2

/-! ## 1D -/
section N1
variable (f0 f1 f2 : K) (s p u : Nat → K)
/-- `det` of a tensor is the determinant -/
theorem N1_det : Gen.N1_det_r c c3 fn (tensv (dg f0 f1 f2)) = (dg f0 f1 f2).det := by
  c23_unfold <;> (try ring1)
/-- `invert`: `F * invert F = 1` when `det F ≠ 0` -/
theorem N1_invert (hc : c * c = 2) (hJ : (dg f0 f1 f2).det ≠ 0) : (dg f0 f1 f2) * M3.ofTens (Gen.N1_invert_r c c3 fn (tensv (dg f0 f1 f2))) = 1 := by
  obtain ⟨h0, h1, h2'⟩ := dg_det_ne hJ
  c23_rat0 hc
/-- `computeDeterminantDerivative` is the cofactor matrix: `dJ Fᵀ = det F · 1` … -/
theorem N1_dJ_cofactor (hc : c * c = 2) : M3.ofTens (Gen.N1_dJ_r c c3 fn (tensv (dg f0 f1 f2))) * (dg f0 f1 f2).transpose = (dg f0 f1 f2).det • (1 : M3 K) := by
  c23_poly hc
/-- … hence Jacobi's formula along `δF = L F`: `dJ : δF = det F · tr L` -/
theorem N1_dJ_jacobi (l0 l1 l2 : K) : dot (Gen.N1_dJ_r c c3 fn (tensv (dg f0 f1 f2))) (M3.tens1 ((dg l0 l1 l2) * (dg f0 f1 f2))) = (dg f0 f1 f2).det * (dg l0 l1 l2).trace := by
  c23_unfold <;> (try ring1)
/-- right Cauchy–Green tensor `C = FᵀF` and Green–Lagrange strain `E = (C − 1)/2` -/
theorem N1_rightCauchyGreen (hc : c * c = 2) :
    Gen.N1_rightCauchyGreen_r c c3 fn (tensv (dg f0 f1 f2)) = M3.mandel1 ((dg f0 f1 f2).transpose * (dg f0 f1 f2)) := by
  c23_poly hc
theorem N1_greenLagrange (hc : c * c = 2) (h2 : (2:K) ≠ 0) :
    Gen.N1_greenLagrange_r c c3 fn (tensv (dg f0 f1 f2)) = M3.mandel1 ((1/2 : K) • ((dg f0 f1 f2).transpose * (dg f0 f1 f2) - 1)) := by
  have hc0 : c ≠ 0 := c_ne_zero hc h2
  c23_rat0 hc
/-- `unsyme` writes a symmetric tensor in full tensor storage -/
theorem N1_unsyme (hc : c * c = 2) (h2 : (2:K) ≠ 0) :
    M3.ofTens (Gen.N1_unsyme_r c c3 fn s) = M3.ofMandel c [s 0, s 1, s 2] := by
  have hc0 : c ≠ 0 := c_ne_zero hc h2
  c23_rat0 hc
/-- `push_forward(S, F) = F S Fᵀ` -/
theorem N1_push_forward (hc : c * c = 2) (h2 : (2:K) ≠ 0) :
    M3.ofMandel c (Gen.N1_push_forward_r c c3 fn s (tensv (dg f0 f1 f2))) = (dg f0 f1 f2) * M3.ofMandel c [s 0, s 1, s 2] * (dg f0 f1 f2).transpose := by
  have hc0 : c ≠ 0 := c_ne_zero hc h2
  c23_rat0 hc
/-! ### first Piola–Kirchhoff stress: `P Fᵀ = J σ` -/
theorem N1_cauchy_to_pk1 (hc : c * c = 2) (h2 : (2:K) ≠ 0) :
    M3.ofTens (Gen.N1_cauchy_to_pk1_r c c3 fn s (tensv (dg f0 f1 f2))) * (dg f0 f1 f2).transpose = (dg f0 f1 f2).det • M3.ofMandel c [s 0, s 1, s 2] := by
  have hc0 : c ≠ 0 := c_ne_zero hc h2
  c23_rat0 hc
/-- `J σ = P Fᵀ`; the code reads the lower triangle of `P Fᵀ` (symmetric for a physical `P`) -/
theorem N1_pk1_to_cauchy (hc : c * c = 2) (h2 : (2:K) ≠ 0) (hJ : (dg f0 f1 f2).det ≠ 0) :
    (dg f0 f1 f2).det • M3.ofMandel c (Gen.N1_pk1_to_cauchy_r c c3 fn p (tensv (dg f0 f1 f2))) = symLower (M3.ofTens [p 0, p 1, p 2] * (dg f0 f1 f2).transpose) := by
  have hc0 : c ≠ 0 := c_ne_zero hc h2
  obtain ⟨h0, h1, h2'⟩ := dg_det_ne hJ
  c23_rat0 hc
/-! ### second Piola–Kirchhoff stress: `F S Fᵀ = J σ` -/
theorem N1_cauchy_to_pk2 (hc : c * c = 2) (h2 : (2:K) ≠ 0) (hJ : (dg f0 f1 f2).det ≠ 0) :
    (dg f0 f1 f2) * M3.ofMandel c (Gen.N1_cauchy_to_pk2_r c c3 fn s (tensv (dg f0 f1 f2))) * (dg f0 f1 f2).transpose = (dg f0 f1 f2).det • M3.ofMandel c [s 0, s 1, s 2] := by
  have hc0 : c ≠ 0 := c_ne_zero hc h2
  obtain ⟨h0, h1, h2'⟩ := dg_det_ne hJ
  c23_rat0 hc
/-- `J σ = F S Fᵀ` (`p` is the stored second Piola–Kirchhoff stress) -/
theorem N1_pk2_to_cauchy (hc : c * c = 2) (h2 : (2:K) ≠ 0) (hJ : (dg f0 f1 f2).det ≠ 0) :
    (dg f0 f1 f2).det • M3.ofMandel c (Gen.N1_pk2_to_cauchy_r c c3 fn p (tensv (dg f0 f1 f2))) = (dg f0 f1 f2) * M3.ofMandel c [p 0, p 1, p 2] * (dg f0 f1 f2).transpose := by
  have hc0 : c ≠ 0 := c_ne_zero hc h2
  obtain ⟨h0, h1, h2'⟩ := dg_det_ne hJ
  c23_rat0 hc
/-! ### corotational Cauchy stress `σ̃ = Rᵀ σ R` and right stretch `U` (stored `u`): `U S U = det U · σ̃` -/
theorem N1_corot_to_pk2 (hc : c * c = 2) (h2 : (2:K) ≠ 0) (hU : (M3.ofMandel c [u 0, u 1, u 2]).det ≠ 0) :
    (M3.ofMandel c [u 0, u 1, u 2]) * M3.ofMandel c (Gen.N1_corot_to_pk2_r c c3 fn s u) * (M3.ofMandel c [u 0, u 1, u 2]) = (M3.ofMandel c [u 0, u 1, u 2]).det • M3.ofMandel c [s 0, s 1, s 2] := by
  have hc0 : c ≠ 0 := c_ne_zero hc h2
  have hu0 : u 0 ≠ 0 := by
    intro h; apply hU; c23_unfold; rw [h]; ring
  have hu1 : u 1 ≠ 0 := by
    intro h; apply hU; c23_unfold; rw [h]; ring
  have hu2 : u 2 ≠ 0 := by
    intro h; apply hU; c23_unfold; rw [h]; ring
  c23_rat0 hc
/-- `det U · σ̃ = U S U` -/
theorem N1_pk2_to_corot (hc : c * c = 2) (h2 : (2:K) ≠ 0) (hU : (M3.ofMandel c [u 0, u 1, u 2]).det ≠ 0) :
    (M3.ofMandel c [u 0, u 1, u 2]).det • M3.ofMandel c (Gen.N1_pk2_to_corot_r c c3 fn p u) = (M3.ofMandel c [u 0, u 1, u 2]) * M3.ofMandel c [p 0, p 1, p 2] * (M3.ofMandel c [u 0, u 1, u 2]) := by
  have hc0 : c ≠ 0 := c_ne_zero hc h2
  have hu0 : u 0 ≠ 0 := by
    intro h; apply hU; c23_unfold; rw [h]; ring
  have hu1 : u 1 ≠ 0 := by
    intro h; apply hU; c23_unfold; rw [h]; ring
  have hu2 : u 2 ≠ 0 := by
    intro h; apply hU; c23_unfold; rw [h]; ring
  c23_rat0 hc
/-! ### the conversions are mutually inverse (`det F ≠ 0`, `det U ≠ 0`) -/
/-- `σ ↦ P ↦ σ` -/
theorem N1_pk1_roundtrip (hc : c * c = 2) (h2 : (2:K) ≠ 0) (hJ : (dg f0 f1 f2).det ≠ 0) :
    M3.ofMandel c (Gen.N1_pk1_to_cauchy_r c c3 fn (Gen.N1_cauchy_to_pk1_rv c c3 fn s (tensv (dg f0 f1 f2))) (tensv (dg f0 f1 f2))) = M3.ofMandel c [s 0, s 1, s 2] := by
  have B := N1_pk1_to_cauchy c c3 fn f0 f1 f2 (Gen.N1_cauchy_to_pk1_rv c c3 fn s (tensv (dg f0 f1 f2))) hc h2 hJ
  have A := N1_cauchy_to_pk1 c c3 fn f0 f1 f2 s hc h2
  have e : M3.ofTens [Gen.N1_cauchy_to_pk1_rv c c3 fn s (tensv (dg f0 f1 f2)) 0, Gen.N1_cauchy_to_pk1_rv c c3 fn s (tensv (dg f0 f1 f2)) 1, Gen.N1_cauchy_to_pk1_rv c c3 fn s (tensv (dg f0 f1 f2)) 2] = M3.ofTens (Gen.N1_cauchy_to_pk1_r c c3 fn s (tensv (dg f0 f1 f2))) := rfl
  rw [e, A, symLower_smul_ofMandel] at B
  exact smul_cancel hJ B
/-- `σ ↦ S ↦ σ` -/
theorem N1_pk2_roundtrip (hc : c * c = 2) (h2 : (2:K) ≠ 0) (hJ : (dg f0 f1 f2).det ≠ 0) :
    M3.ofMandel c (Gen.N1_pk2_to_cauchy_r c c3 fn (Gen.N1_cauchy_to_pk2_rv c c3 fn s (tensv (dg f0 f1 f2))) (tensv (dg f0 f1 f2))) = M3.ofMandel c [s 0, s 1, s 2] := by
  have B := N1_pk2_to_cauchy c c3 fn f0 f1 f2 (Gen.N1_cauchy_to_pk2_rv c c3 fn s (tensv (dg f0 f1 f2))) hc h2 hJ
  have A := N1_cauchy_to_pk2 c c3 fn f0 f1 f2 s hc h2 hJ
  have e : M3.ofMandel c [Gen.N1_cauchy_to_pk2_rv c c3 fn s (tensv (dg f0 f1 f2)) 0, Gen.N1_cauchy_to_pk2_rv c c3 fn s (tensv (dg f0 f1 f2)) 1, Gen.N1_cauchy_to_pk2_rv c c3 fn s (tensv (dg f0 f1 f2)) 2] = M3.ofMandel c (Gen.N1_cauchy_to_pk2_r c c3 fn s (tensv (dg f0 f1 f2))) := rfl
  rw [e, A] at B
  exact smul_cancel hJ B
/-- `S ↦ σ ↦ S` -/
theorem N1_pk2_roundtrip_rev (hc : c * c = 2) (h2 : (2:K) ≠ 0) (hJ : (dg f0 f1 f2).det ≠ 0) :
    M3.ofMandel c (Gen.N1_cauchy_to_pk2_r c c3 fn (Gen.N1_pk2_to_cauchy_rv c c3 fn p (tensv (dg f0 f1 f2))) (tensv (dg f0 f1 f2))) = M3.ofMandel c [p 0, p 1, p 2] := by
  have A := N1_cauchy_to_pk2 c c3 fn f0 f1 f2 (Gen.N1_pk2_to_cauchy_rv c c3 fn p (tensv (dg f0 f1 f2))) hc h2 hJ
  have B := N1_pk2_to_cauchy c c3 fn f0 f1 f2 p hc h2 hJ
  have e : M3.ofMandel c [Gen.N1_pk2_to_cauchy_rv c c3 fn p (tensv (dg f0 f1 f2)) 0, Gen.N1_pk2_to_cauchy_rv c c3 fn p (tensv (dg f0 f1 f2)) 1, Gen.N1_pk2_to_cauchy_rv c c3 fn p (tensv (dg f0 f1 f2)) 2] = M3.ofMandel c (Gen.N1_pk2_to_cauchy_r c c3 fn p (tensv (dg f0 f1 f2))) := rfl
  rw [e, B] at A
  have hJt : (dg f0 f1 f2).transpose.det ≠ 0 := by rw [det_transpose]; exact hJ
  exact mul_left_cancel_det hJ (mul_right_cancel_det hJt A)
/-- `σ̃ ↦ S ↦ σ̃` -/
theorem N1_corot_roundtrip (hc : c * c = 2) (h2 : (2:K) ≠ 0) (hU : (M3.ofMandel c [u 0, u 1, u 2]).det ≠ 0) :
    M3.ofMandel c (Gen.N1_pk2_to_corot_r c c3 fn (Gen.N1_corot_to_pk2_rv c c3 fn s u) u) = M3.ofMandel c [s 0, s 1, s 2] := by
  have B := N1_pk2_to_corot c c3 fn (Gen.N1_corot_to_pk2_rv c c3 fn s u) u hc h2 hU
  have A := N1_corot_to_pk2 c c3 fn s u hc h2 hU
  have e : M3.ofMandel c [Gen.N1_corot_to_pk2_rv c c3 fn s u 0, Gen.N1_corot_to_pk2_rv c c3 fn s u 1, Gen.N1_corot_to_pk2_rv c c3 fn s u 2] = M3.ofMandel c (Gen.N1_corot_to_pk2_r c c3 fn s u) := rfl
  rw [e, A] at B
  exact smul_cancel hU B
/-- `S ↦ σ̃ ↦ S` -/
theorem N1_corot_roundtrip_rev (hc : c * c = 2) (h2 : (2:K) ≠ 0) (hU : (M3.ofMandel c [u 0, u 1, u 2]).det ≠ 0) :
    M3.ofMandel c (Gen.N1_corot_to_pk2_r c c3 fn (Gen.N1_pk2_to_corot_rv c c3 fn p u) u) = M3.ofMandel c [p 0, p 1, p 2] := by
  have A := N1_corot_to_pk2 c c3 fn (Gen.N1_pk2_to_corot_rv c c3 fn p u) u hc h2 hU
  have B := N1_pk2_to_corot c c3 fn p u hc h2 hU
  have e : M3.ofMandel c [Gen.N1_pk2_to_corot_rv c c3 fn p u 0, Gen.N1_pk2_to_corot_rv c c3 fn p u 1, Gen.N1_pk2_to_corot_rv c c3 fn p u 2] = M3.ofMandel c (Gen.N1_pk2_to_corot_r c c3 fn p u) := rfl
  rw [e, B] at A
  exact mul_left_cancel_det hU (mul_right_cancel_det hU A)
end N1

end TfelVerif.C23.PropsStress
