/-
  C23 — stress measure conversions and the kinematic helpers used by the tangent-operator
  converters (property theorems only).

  `Gen.*` are regenerated on every run by instantiating the shipped TFEL templates with a recording
  scalar (harness/C23/trace.cxx). Conventions: `c` is any element with `c * c = 2` of a field of
  characteristic ≠ 2; a deformation gradient `F : M3 K` is fed through its tensor storage `tensv F`
  (t00 t11 t22 t01 t10 t02 t20 t12 t21), a symmetric tensor through its Mandel storage `mandv c A`;
  2D objects are `plane …` (five entries), 1D objects `dg …` (diagonal). Results come back as lists
  in the same storages (`M3.ofTens`, `M3.ofMandel c` read them back as matrices).
  Definitions are stated division free where possible: `P Fᵀ = J σ`, `F S Fᵀ = J σ`, `U S U = J σ̃`.
-/
import TfelVerif.Common.M3
import TfelVerif.Common.Model
import TfelVerif.C23.Spec
import TfelVerif.C23.Lemmas
import TfelVerif.C23.GenStress

namespace TfelVerif.C23.PropsStress
open TfelVerif TfelVerif.Mandel TfelVerif.C23
set_option linter.unusedVariables false
set_option linter.style.nameCheck false
variable {K : Type} [Field K] (c c3 : K) (fn : Fns K)

/-! ## 3D -/
section N3
variable (F : M3 K) (a00 a11 a22 a01 a02 a12 : K)
local notation "σ" => M3.sym a00 a11 a22 a01 a02 a12

/-- `det` of a tensor is the determinant -/
theorem N3_det : Gen.N3_det_r c c3 fn (tensv F) = F.det := by
  obtain ⟨f00,f01,f02,f10,f11,f12,f20,f21,f22⟩ := F
  c23_unfold; ring

/-- `invert`: `F * invert F = 1` when `det F ≠ 0` -/
theorem N3_invert (hJ : F.det ≠ 0) : F * M3.ofTens (Gen.N3_invert_r c c3 fn (tensv F)) = 1 := by
  have hd : Gen.N3_invert_den0 c c3 fn (tensv F) ≠ 0 := by
    have : Gen.N3_invert_den0 c c3 fn (tensv F) = F.det := by
      obtain ⟨f00,f01,f02,f10,f11,f12,f20,f21,f22⟩ := F
      c23_unfold; ring
    rw [this]; exact hJ
  obtain ⟨f00,f01,f02,f10,f11,f12,f20,f21,f22⟩ := F
  c23_rat (rfl : (2:K) = 2) with hd
end N3
end TfelVerif.C23.PropsStress
