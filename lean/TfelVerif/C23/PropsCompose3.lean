/-
  C23 — conversions compose and round trips are the identity (property theorems only), N = 3.
  Every theorem is the composition (transitivity) of the converters' own theorems: all of them express the
  same canonical rate `ℓ`, so `A ← B ← C` and `A ← C`, or `A ← B ← A` and the operator started from, have the
  same action on every variation. (`matOf` feeds the stored result of one traced converter to the next.)
  DPK1_DF and mixed DDF combinations are not stated here.
-/
import TfelVerif.Common.M3
import TfelVerif.C23.Spec
import TfelVerif.C23.Lemmas
import TfelVerif.C23.PropsN3Chains
import TfelVerif.C23.PropsN3_ABAQUS__C_TAU_JAUMANN
import TfelVerif.C23.PropsN3_ABAQUS__DTAU_DF
import TfelVerif.C23.PropsN3_ABAQUS__SPATIAL_MODULI
import TfelVerif.C23.PropsN3_C_TAU_JAUMANN__ABAQUS
import TfelVerif.C23.PropsN3_C_TAU_JAUMANN__DTAU_DF
import TfelVerif.C23.PropsN3_C_TAU_JAUMANN__SPATIAL_MODULI
import TfelVerif.C23.PropsN3_C_TRUESDELL__SPATIAL_MODULI
import TfelVerif.C23.PropsN3_DSIG_DDF__DSIG_DF
import TfelVerif.C23.PropsN3_DSIG_DF__DSIG_DDF
import TfelVerif.C23.PropsN3_DSIG_DF__DTAU_DF
import TfelVerif.C23.PropsN3_DS_DC__DS_DEGL
import TfelVerif.C23.PropsN3_DS_DEGL__DS_DC
import TfelVerif.C23.PropsN3_DS_DF__DS_DC
import TfelVerif.C23.PropsN3_DS_DF__DS_DEGL
import TfelVerif.C23.PropsN3_DTAU_DDF__DTAU_DF
import TfelVerif.C23.PropsN3_DTAU_DF__ABAQUS
import TfelVerif.C23.PropsN3_DTAU_DF__C_TAU_JAUMANN
import TfelVerif.C23.PropsN3_DTAU_DF__DTAU_DDF
import TfelVerif.C23.PropsN3_SPATIAL_MODULI__ABAQUS
import TfelVerif.C23.PropsN3_SPATIAL_MODULI__C_TAU_JAUMANN
import TfelVerif.C23.PropsN3_SPATIAL_MODULI__C_TRUESDELL
import TfelVerif.C23.PropsN3_SPATIAL_MODULI__DS_DEGL

namespace TfelVerif.C23.PropsCompose3
open TfelVerif TfelVerif.Mandel TfelVerif.C23
set_option linter.all false
set_option maxHeartbeats 16000000
set_option maxRecDepth 100000
variable {K : Type} [Field K] [CharZero K] (c c3 : K) (fn : Fns K)

/-- round trip `DS_DC → DS_DEGL → DS_DC`: converting back gives an operator with the same action (hence the same
meaning) as the one started from, for every variation. -/
theorem N3_roundtrip_DS_DC__DS_DEGL (hc : c * c = 2) (h2 : (2:K) ≠ 0)
    (D : Nat → Nat → K) (F0 F : M3 K) (L : M3 K) (s : Nat → K)  :
    upper (lamS F (M3.ofMandel c [s 0, s 1, s 2, s 3, s 4, s 5]) L (M3.ofMandel c (act (Gen.N3_DS_DC__DS_DEGL_r c c3 fn (matOf (Gen.N3_DS_DEGL__DS_DC_r c c3 fn D (tensv F0) (tensv F) s)) (tensv F0) (tensv F) s) (M3.mandel3 c (dC F L)))))
      = upper (lamS F (M3.ofMandel c [s 0, s 1, s 2, s 3, s 4, s 5]) L (M3.ofMandel c (act (rowsOf D i6 i6) (M3.mandel3 c (dC F L))))) := by
  refine (PropsN3_DS_DC__DS_DEGL.N3_DS_DC__DS_DEGL c c3 fn hc h2 (F0 := F0) ..).trans ?_
  exact PropsN3_DS_DEGL__DS_DC.N3_DS_DEGL__DS_DC c c3 fn hc h2 (F0 := F0) ..

/-- round trip `DS_DEGL → DS_DC → DS_DEGL`: converting back gives an operator with the same action (hence the same
meaning) as the one started from, for every variation. -/
theorem N3_roundtrip_DS_DEGL__DS_DC (hc : c * c = 2) (h2 : (2:K) ≠ 0)
    (D : Nat → Nat → K) (F0 F : M3 K) (L : M3 K) (s : Nat → K)  :
    upper (lamS F (M3.ofMandel c [s 0, s 1, s 2, s 3, s 4, s 5]) L (M3.ofMandel c (act (Gen.N3_DS_DEGL__DS_DC_r c c3 fn (matOf (Gen.N3_DS_DC__DS_DEGL_r c c3 fn D (tensv F0) (tensv F) s)) (tensv F0) (tensv F) s) (M3.mandel3 c (dE F L)))))
      = upper (lamS F (M3.ofMandel c [s 0, s 1, s 2, s 3, s 4, s 5]) L (M3.ofMandel c (act (rowsOf D i6 i6) (M3.mandel3 c (dE F L))))) := by
  refine (PropsN3_DS_DEGL__DS_DC.N3_DS_DEGL__DS_DC c c3 fn hc h2 (F0 := F0) ..).trans ?_
  exact PropsN3_DS_DC__DS_DEGL.N3_DS_DC__DS_DEGL c c3 fn hc h2 (F0 := F0) ..

/-- round trip `SPATIAL_MODULI → DS_DEGL → SPATIAL_MODULI`: converting back gives an operator with the same action (hence the same
meaning) as the one started from, for every variation. -/
theorem N3_roundtrip_SPATIAL_MODULI__DS_DEGL (hc : c * c = 2) (h2 : (2:K) ≠ 0)
    (D : Nat → Nat → K) (F0 F : M3 K) (L : M3 K) (s : Nat → K) (hJ : F.det ≠ 0) :
    upper (lamSM F (M3.ofMandel c [s 0, s 1, s 2, s 3, s 4, s 5]) L (M3.ofMandel c (act (Gen.N3_SPATIAL_MODULI__DS_DEGL_r c c3 fn (matOf (Gen.N3_DS_DEGL__SPATIAL_MODULI_r c c3 fn D (tensv F0) (tensv F) s)) (tensv F0) (tensv F) s) (M3.mandel3 c (symm L)))))
      = upper (lamSM F (M3.ofMandel c [s 0, s 1, s 2, s 3, s 4, s 5]) L (M3.ofMandel c (act (rowsOf D i6 i6) (M3.mandel3 c (symm L))))) := by
  refine (PropsN3_SPATIAL_MODULI__DS_DEGL.N3_SPATIAL_MODULI__DS_DEGL c c3 fn hc h2 (F0 := F0) (g := tensv F) ..).trans ?_
  exact PropsN3Chains.N3_DS_DEGL__SPATIAL_MODULI c c3 fn hc h2 (hJ := hJ) (F0 := F0) ..

/-- round trip `DS_DEGL → SPATIAL_MODULI → DS_DEGL`: converting back gives an operator with the same action (hence the same
meaning) as the one started from, for every variation. -/
theorem N3_roundtrip_DS_DEGL__SPATIAL_MODULI (hc : c * c = 2) (h2 : (2:K) ≠ 0)
    (D : Nat → Nat → K) (F0 F : M3 K) (L : M3 K) (s : Nat → K) (hJ : F.det ≠ 0) :
    upper (lamS F (M3.ofMandel c [s 0, s 1, s 2, s 3, s 4, s 5]) L (M3.ofMandel c (act (Gen.N3_DS_DEGL__SPATIAL_MODULI_r c c3 fn (matOf (Gen.N3_SPATIAL_MODULI__DS_DEGL_r c c3 fn D (tensv F0) (tensv F) s)) (tensv F0) (tensv F) s) (M3.mandel3 c (dE F L)))))
      = upper (lamS F (M3.ofMandel c [s 0, s 1, s 2, s 3, s 4, s 5]) L (M3.ofMandel c (act (rowsOf D i6 i6) (M3.mandel3 c (dE F L))))) := by
  refine (PropsN3Chains.N3_DS_DEGL__SPATIAL_MODULI c c3 fn hc h2 (hJ := hJ) (F0 := F0) ..).trans ?_
  exact PropsN3_SPATIAL_MODULI__DS_DEGL.N3_SPATIAL_MODULI__DS_DEGL c c3 fn hc h2 (F0 := F0) (g := tensv F) ..

/-- round trip `ABAQUS → SPATIAL_MODULI → ABAQUS`: converting back gives an operator with the same action (hence the same
meaning) as the one started from, for every variation. -/
theorem N3_roundtrip_ABAQUS__SPATIAL_MODULI (hc : c * c = 2) (h2 : (2:K) ≠ 0)
    (D : Nat → Nat → K) (F0 F : M3 K) (L : M3 K) (s : Nat → K) (hJ : F.det ≠ 0) :
    upper (lamAb F (M3.ofMandel c [s 0, s 1, s 2, s 3, s 4, s 5]) L (M3.ofMandel c (act (Gen.N3_ABAQUS__SPATIAL_MODULI_r c c3 fn (matOf (Gen.N3_SPATIAL_MODULI__ABAQUS_r c c3 fn D (tensv F0) (tensv F) s)) (tensv F0) (tensv F) s) (M3.mandel3 c (symm L)))))
      = upper (lamAb F (M3.ofMandel c [s 0, s 1, s 2, s 3, s 4, s 5]) L (M3.ofMandel c (act (rowsOf D i6 i6) (M3.mandel3 c (symm L))))) := by
  refine (PropsN3_ABAQUS__SPATIAL_MODULI.N3_ABAQUS__SPATIAL_MODULI c c3 fn hc h2 (hJ := hJ) (F0 := F0) ..).trans ?_
  exact PropsN3_SPATIAL_MODULI__ABAQUS.N3_SPATIAL_MODULI__ABAQUS c c3 fn hc h2 (F0 := F0) ..

/-- round trip `SPATIAL_MODULI → ABAQUS → SPATIAL_MODULI`: converting back gives an operator with the same action (hence the same
meaning) as the one started from, for every variation. -/
theorem N3_roundtrip_SPATIAL_MODULI__ABAQUS (hc : c * c = 2) (h2 : (2:K) ≠ 0)
    (D : Nat → Nat → K) (F0 F : M3 K) (L : M3 K) (s : Nat → K) (hJ : F.det ≠ 0) :
    upper (lamSM F (M3.ofMandel c [s 0, s 1, s 2, s 3, s 4, s 5]) L (M3.ofMandel c (act (Gen.N3_SPATIAL_MODULI__ABAQUS_r c c3 fn (matOf (Gen.N3_ABAQUS__SPATIAL_MODULI_r c c3 fn D (tensv F0) (tensv F) s)) (tensv F0) (tensv F) s) (M3.mandel3 c (symm L)))))
      = upper (lamSM F (M3.ofMandel c [s 0, s 1, s 2, s 3, s 4, s 5]) L (M3.ofMandel c (act (rowsOf D i6 i6) (M3.mandel3 c (symm L))))) := by
  refine (PropsN3_SPATIAL_MODULI__ABAQUS.N3_SPATIAL_MODULI__ABAQUS c c3 fn hc h2 (F0 := F0) ..).trans ?_
  exact PropsN3_ABAQUS__SPATIAL_MODULI.N3_ABAQUS__SPATIAL_MODULI c c3 fn hc h2 (hJ := hJ) (F0 := F0) ..

/-- round trip `C_TRUESDELL → SPATIAL_MODULI → C_TRUESDELL`: converting back gives an operator with the same action (hence the same
meaning) as the one started from, for every variation. -/
theorem N3_roundtrip_C_TRUESDELL__SPATIAL_MODULI (hc : c * c = 2) (h2 : (2:K) ≠ 0)
    (D : Nat → Nat → K) (F0 F : M3 K) (L : M3 K) (s : Nat → K) (hJ : F.det ≠ 0) :
    upper (lamTr F (M3.ofMandel c [s 0, s 1, s 2, s 3, s 4, s 5]) L (M3.ofMandel c (act (Gen.N3_C_TRUESDELL__SPATIAL_MODULI_r c c3 fn (matOf (Gen.N3_SPATIAL_MODULI__C_TRUESDELL_r c c3 fn D (tensv F0) (tensv F) s)) (tensv F0) (tensv F) s) (M3.mandel3 c (symm L)))))
      = upper (lamTr F (M3.ofMandel c [s 0, s 1, s 2, s 3, s 4, s 5]) L (M3.ofMandel c (act (rowsOf D i6 i6) (M3.mandel3 c (symm L))))) := by
  refine (PropsN3_C_TRUESDELL__SPATIAL_MODULI.N3_C_TRUESDELL__SPATIAL_MODULI c c3 fn hc h2 (hJ := hJ) (F0 := F0) ..).trans ?_
  exact PropsN3_SPATIAL_MODULI__C_TRUESDELL.N3_SPATIAL_MODULI__C_TRUESDELL c c3 fn hc h2 (F0 := F0) ..

/-- round trip `SPATIAL_MODULI → C_TRUESDELL → SPATIAL_MODULI`: converting back gives an operator with the same action (hence the same
meaning) as the one started from, for every variation. -/
theorem N3_roundtrip_SPATIAL_MODULI__C_TRUESDELL (hc : c * c = 2) (h2 : (2:K) ≠ 0)
    (D : Nat → Nat → K) (F0 F : M3 K) (L : M3 K) (s : Nat → K) (hJ : F.det ≠ 0) :
    upper (lamSM F (M3.ofMandel c [s 0, s 1, s 2, s 3, s 4, s 5]) L (M3.ofMandel c (act (Gen.N3_SPATIAL_MODULI__C_TRUESDELL_r c c3 fn (matOf (Gen.N3_C_TRUESDELL__SPATIAL_MODULI_r c c3 fn D (tensv F0) (tensv F) s)) (tensv F0) (tensv F) s) (M3.mandel3 c (symm L)))))
      = upper (lamSM F (M3.ofMandel c [s 0, s 1, s 2, s 3, s 4, s 5]) L (M3.ofMandel c (act (rowsOf D i6 i6) (M3.mandel3 c (symm L))))) := by
  refine (PropsN3_SPATIAL_MODULI__C_TRUESDELL.N3_SPATIAL_MODULI__C_TRUESDELL c c3 fn hc h2 (F0 := F0) ..).trans ?_
  exact PropsN3_C_TRUESDELL__SPATIAL_MODULI.N3_C_TRUESDELL__SPATIAL_MODULI c c3 fn hc h2 (hJ := hJ) (F0 := F0) ..

/-- round trip `DSIG_DDF → DSIG_DF → DSIG_DDF`: converting back gives an operator with the same action (hence the same
meaning) as the one started from, for every variation. -/
theorem N3_roundtrip_DSIG_DDF__DSIG_DF (hc : c * c = 2) (h2 : (2:K) ≠ 0)
    (D : Nat → Nat → K) (F0 Δ : M3 K) (L : M3 K) (s : Nat → K) (hJ : F0.det ≠ 0) :
    upper (lamSig (Δ * F0) (M3.ofMandel c [s 0, s 1, s 2, s 3, s 4, s 5]) L (M3.ofMandel c (act (Gen.N3_DSIG_DDF__DSIG_DF_r c c3 fn (matOf (Gen.N3_DSIG_DF__DSIG_DDF_r c c3 fn D (tensv F0) (tensv (Δ * F0)) s)) (tensv F0) (tensv (Δ * F0)) s) (M3.tens3 (L * Δ)))))
      = upper (lamSig (Δ * F0) (M3.ofMandel c [s 0, s 1, s 2, s 3, s 4, s 5]) L (M3.ofMandel c (act (rowsOf D i6 i9) (M3.tens3 (L * Δ))))) := by
  refine (PropsN3_DSIG_DDF__DSIG_DF.N3_DSIG_DDF__DSIG_DF c c3 fn hc h2 ..).trans ?_
  exact PropsN3_DSIG_DF__DSIG_DDF.N3_DSIG_DF__DSIG_DDF c c3 fn hc h2 (hJ := hJ) ..

/-- round trip `DSIG_DF → DSIG_DDF → DSIG_DF`: converting back gives an operator with the same action (hence the same
meaning) as the one started from, for every variation. -/
theorem N3_roundtrip_DSIG_DF__DSIG_DDF (hc : c * c = 2) (h2 : (2:K) ≠ 0)
    (D : Nat → Nat → K) (F0 Δ : M3 K) (L : M3 K) (s : Nat → K) (hJ : F0.det ≠ 0) :
    upper (lamSig (Δ * F0) (M3.ofMandel c [s 0, s 1, s 2, s 3, s 4, s 5]) L (M3.ofMandel c (act (Gen.N3_DSIG_DF__DSIG_DDF_r c c3 fn (matOf (Gen.N3_DSIG_DDF__DSIG_DF_r c c3 fn D (tensv F0) (tensv (Δ * F0)) s)) (tensv F0) (tensv (Δ * F0)) s) (M3.tens3 (L * (Δ * F0))))))
      = upper (lamSig (Δ * F0) (M3.ofMandel c [s 0, s 1, s 2, s 3, s 4, s 5]) L (M3.ofMandel c (act (rowsOf D i6 i9) (M3.tens3 (L * (Δ * F0)))))) := by
  refine (PropsN3_DSIG_DF__DSIG_DDF.N3_DSIG_DF__DSIG_DDF c c3 fn hc h2 (hJ := hJ) ..).trans ?_
  exact PropsN3_DSIG_DDF__DSIG_DF.N3_DSIG_DDF__DSIG_DF c c3 fn hc h2 ..

/-- round trip `DTAU_DDF → DTAU_DF → DTAU_DDF`: converting back gives an operator with the same action (hence the same
meaning) as the one started from, for every variation. -/
theorem N3_roundtrip_DTAU_DDF__DTAU_DF (hc : c * c = 2) (h2 : (2:K) ≠ 0)
    (D : Nat → Nat → K) (F0 Δ : M3 K) (L : M3 K) (s : Nat → K) (hJ : F0.det ≠ 0) :
    upper (lamTau (Δ * F0) (M3.ofMandel c [s 0, s 1, s 2, s 3, s 4, s 5]) L (M3.ofMandel c (act (Gen.N3_DTAU_DDF__DTAU_DF_r c c3 fn (matOf (Gen.N3_DTAU_DF__DTAU_DDF_r c c3 fn D (tensv F0) (tensv (Δ * F0)) s)) (tensv F0) (tensv (Δ * F0)) s) (M3.tens3 (L * Δ)))))
      = upper (lamTau (Δ * F0) (M3.ofMandel c [s 0, s 1, s 2, s 3, s 4, s 5]) L (M3.ofMandel c (act (rowsOf D i6 i9) (M3.tens3 (L * Δ))))) := by
  refine (PropsN3_DTAU_DDF__DTAU_DF.N3_DTAU_DDF__DTAU_DF c c3 fn hc h2 ..).trans ?_
  exact PropsN3_DTAU_DF__DTAU_DDF.N3_DTAU_DF__DTAU_DDF c c3 fn hc h2 (hJ := hJ) ..

/-- round trip `DTAU_DF → DTAU_DDF → DTAU_DF`: converting back gives an operator with the same action (hence the same
meaning) as the one started from, for every variation. -/
theorem N3_roundtrip_DTAU_DF__DTAU_DDF (hc : c * c = 2) (h2 : (2:K) ≠ 0)
    (D : Nat → Nat → K) (F0 Δ : M3 K) (L : M3 K) (s : Nat → K) (hJ : F0.det ≠ 0) :
    upper (lamTau (Δ * F0) (M3.ofMandel c [s 0, s 1, s 2, s 3, s 4, s 5]) L (M3.ofMandel c (act (Gen.N3_DTAU_DF__DTAU_DDF_r c c3 fn (matOf (Gen.N3_DTAU_DDF__DTAU_DF_r c c3 fn D (tensv F0) (tensv (Δ * F0)) s)) (tensv F0) (tensv (Δ * F0)) s) (M3.tens3 (L * (Δ * F0))))))
      = upper (lamTau (Δ * F0) (M3.ofMandel c [s 0, s 1, s 2, s 3, s 4, s 5]) L (M3.ofMandel c (act (rowsOf D i6 i9) (M3.tens3 (L * (Δ * F0)))))) := by
  refine (PropsN3_DTAU_DF__DTAU_DDF.N3_DTAU_DF__DTAU_DDF c c3 fn hc h2 (hJ := hJ) ..).trans ?_
  exact PropsN3_DTAU_DDF__DTAU_DF.N3_DTAU_DDF__DTAU_DF c c3 fn hc h2 ..

/-- round trip `SPATIAL_MODULI → DTAU_DF → SPATIAL_MODULI`: converting back gives an operator with the same action (hence the same
meaning) as the one started from, for every variation. -/
theorem N3_roundtrip_SPATIAL_MODULI__DTAU_DF (hc : c * c = 2) (h2 : (2:K) ≠ 0)
    (D : Nat → Nat → K) (F0 F : M3 K) (l00 l11 l22 l01 l02 l12 : K) (s : Nat → K) (hJ : F.det ≠ 0) :
    upper (lamSM F (M3.ofMandel c [s 0, s 1, s 2, s 3, s 4, s 5]) (M3.sym l00 l11 l22 l01 l02 l12) (M3.ofMandel c (act (Gen.N3_SPATIAL_MODULI__DTAU_DF_r c c3 fn (matOf (Gen.N3_DTAU_DF__SPATIAL_MODULI_r c c3 fn D (tensv F0) (tensv F) s)) (tensv F0) (tensv F) s) (M3.mandel3 c (symm (M3.sym l00 l11 l22 l01 l02 l12))))))
      = upper (lamSM F (M3.ofMandel c [s 0, s 1, s 2, s 3, s 4, s 5]) (M3.sym l00 l11 l22 l01 l02 l12) (M3.ofMandel c (act (rowsOf D i6 i6) (M3.mandel3 c (symm (M3.sym l00 l11 l22 l01 l02 l12)))))) := by
  refine (PropsN3Chains.N3_SPATIAL_MODULI__DTAU_DF c c3 fn hc h2 (F0 := F0) ..).trans ?_
  exact PropsN3Chains.N3_DTAU_DF__SPATIAL_MODULI c c3 fn hc h2 (hJ := hJ) (F0 := F0) ..

/-- round trip `C_TAU_JAUMANN → DTAU_DF → C_TAU_JAUMANN`: converting back gives an operator with the same action (hence the same
meaning) as the one started from, for every variation. -/
theorem N3_roundtrip_C_TAU_JAUMANN__DTAU_DF (hc : c * c = 2) (h2 : (2:K) ≠ 0)
    (D : Nat → Nat → K) (F0 F : M3 K) (l00 l11 l22 l01 l02 l12 : K) (s : Nat → K) (hJ : F.det ≠ 0) :
    upper (lamJ F (M3.ofMandel c [s 0, s 1, s 2, s 3, s 4, s 5]) (M3.sym l00 l11 l22 l01 l02 l12) (M3.ofMandel c (act (Gen.N3_C_TAU_JAUMANN__DTAU_DF_r c c3 fn (matOf (Gen.N3_DTAU_DF__C_TAU_JAUMANN_r c c3 fn D (tensv F0) (tensv F) s)) (tensv F0) (tensv F) s) (M3.mandel3 c (symm (M3.sym l00 l11 l22 l01 l02 l12))))))
      = upper (lamJ F (M3.ofMandel c [s 0, s 1, s 2, s 3, s 4, s 5]) (M3.sym l00 l11 l22 l01 l02 l12) (M3.ofMandel c (act (rowsOf D i6 i6) (M3.mandel3 c (symm (M3.sym l00 l11 l22 l01 l02 l12)))))) := by
  refine (PropsN3_C_TAU_JAUMANN__DTAU_DF.N3_C_TAU_JAUMANN__DTAU_DF c c3 fn hc h2 (F0 := F0) ..).trans ?_
  exact PropsN3_DTAU_DF__C_TAU_JAUMANN.N3_DTAU_DF__C_TAU_JAUMANN c c3 fn hc h2 (hJ := hJ) (F0 := F0) ..

/-- round trip `ABAQUS → C_TAU_JAUMANN → ABAQUS`: converting back gives an operator with the same action (hence the same
meaning) as the one started from, for every variation. -/
theorem N3_roundtrip_ABAQUS__C_TAU_JAUMANN (hc : c * c = 2) (h2 : (2:K) ≠ 0)
    (D : Nat → Nat → K) (F0 F : M3 K) (L : M3 K) (s : Nat → K) (hJ : F.det ≠ 0) :
    upper (lamAb F (M3.ofMandel c [s 0, s 1, s 2, s 3, s 4, s 5]) L (M3.ofMandel c (act (Gen.N3_ABAQUS__C_TAU_JAUMANN_r c c3 fn (matOf (Gen.N3_C_TAU_JAUMANN__ABAQUS_r c c3 fn D (tensv F0) (tensv F) s)) (tensv F0) (tensv F) s) (M3.mandel3 c (symm L)))))
      = upper (lamAb F (M3.ofMandel c [s 0, s 1, s 2, s 3, s 4, s 5]) L (M3.ofMandel c (act (rowsOf D i6 i6) (M3.mandel3 c (symm L))))) := by
  refine (PropsN3_ABAQUS__C_TAU_JAUMANN.N3_ABAQUS__C_TAU_JAUMANN c c3 fn hc h2 (hJ := hJ) (F0 := F0) ..).trans ?_
  exact PropsN3_C_TAU_JAUMANN__ABAQUS.N3_C_TAU_JAUMANN__ABAQUS c c3 fn hc h2 (F0 := F0) ..

/-- round trip `C_TAU_JAUMANN → ABAQUS → C_TAU_JAUMANN`: converting back gives an operator with the same action (hence the same
meaning) as the one started from, for every variation. -/
theorem N3_roundtrip_C_TAU_JAUMANN__ABAQUS (hc : c * c = 2) (h2 : (2:K) ≠ 0)
    (D : Nat → Nat → K) (F0 F : M3 K) (L : M3 K) (s : Nat → K) (hJ : F.det ≠ 0) :
    upper (lamJ F (M3.ofMandel c [s 0, s 1, s 2, s 3, s 4, s 5]) L (M3.ofMandel c (act (Gen.N3_C_TAU_JAUMANN__ABAQUS_r c c3 fn (matOf (Gen.N3_ABAQUS__C_TAU_JAUMANN_r c c3 fn D (tensv F0) (tensv F) s)) (tensv F0) (tensv F) s) (M3.mandel3 c (symm L)))))
      = upper (lamJ F (M3.ofMandel c [s 0, s 1, s 2, s 3, s 4, s 5]) L (M3.ofMandel c (act (rowsOf D i6 i6) (M3.mandel3 c (symm L))))) := by
  refine (PropsN3_C_TAU_JAUMANN__ABAQUS.N3_C_TAU_JAUMANN__ABAQUS c c3 fn hc h2 (F0 := F0) ..).trans ?_
  exact PropsN3_ABAQUS__C_TAU_JAUMANN.N3_ABAQUS__C_TAU_JAUMANN c c3 fn hc h2 (hJ := hJ) (F0 := F0) ..

/-- round trip `C_TAU_JAUMANN → SPATIAL_MODULI → C_TAU_JAUMANN`: converting back gives an operator with the same action (hence the same
meaning) as the one started from, for every variation. -/
theorem N3_roundtrip_C_TAU_JAUMANN__SPATIAL_MODULI (hc : c * c = 2) (h2 : (2:K) ≠ 0)
    (D : Nat → Nat → K) (F0 F : M3 K) (L : M3 K) (s : Nat → K)  :
    upper (lamJ F (M3.ofMandel c [s 0, s 1, s 2, s 3, s 4, s 5]) L (M3.ofMandel c (act (Gen.N3_C_TAU_JAUMANN__SPATIAL_MODULI_r c c3 fn (matOf (Gen.N3_SPATIAL_MODULI__C_TAU_JAUMANN_r c c3 fn D (tensv F0) (tensv F) s)) (tensv F0) (tensv F) s) (M3.mandel3 c (symm L)))))
      = upper (lamJ F (M3.ofMandel c [s 0, s 1, s 2, s 3, s 4, s 5]) L (M3.ofMandel c (act (rowsOf D i6 i6) (M3.mandel3 c (symm L))))) := by
  refine (PropsN3_C_TAU_JAUMANN__SPATIAL_MODULI.N3_C_TAU_JAUMANN__SPATIAL_MODULI c c3 fn hc h2 (F0 := F0) ..).trans ?_
  exact PropsN3_SPATIAL_MODULI__C_TAU_JAUMANN.N3_SPATIAL_MODULI__C_TAU_JAUMANN c c3 fn hc h2 (F0 := F0) ..

/-- round trip `SPATIAL_MODULI → C_TAU_JAUMANN → SPATIAL_MODULI`: converting back gives an operator with the same action (hence the same
meaning) as the one started from, for every variation. -/
theorem N3_roundtrip_SPATIAL_MODULI__C_TAU_JAUMANN (hc : c * c = 2) (h2 : (2:K) ≠ 0)
    (D : Nat → Nat → K) (F0 F : M3 K) (L : M3 K) (s : Nat → K)  :
    upper (lamSM F (M3.ofMandel c [s 0, s 1, s 2, s 3, s 4, s 5]) L (M3.ofMandel c (act (Gen.N3_SPATIAL_MODULI__C_TAU_JAUMANN_r c c3 fn (matOf (Gen.N3_C_TAU_JAUMANN__SPATIAL_MODULI_r c c3 fn D (tensv F0) (tensv F) s)) (tensv F0) (tensv F) s) (M3.mandel3 c (symm L)))))
      = upper (lamSM F (M3.ofMandel c [s 0, s 1, s 2, s 3, s 4, s 5]) L (M3.ofMandel c (act (rowsOf D i6 i6) (M3.mandel3 c (symm L))))) := by
  refine (PropsN3_SPATIAL_MODULI__C_TAU_JAUMANN.N3_SPATIAL_MODULI__C_TAU_JAUMANN c c3 fn hc h2 (F0 := F0) ..).trans ?_
  exact PropsN3_C_TAU_JAUMANN__SPATIAL_MODULI.N3_C_TAU_JAUMANN__SPATIAL_MODULI c c3 fn hc h2 (F0 := F0) ..

/-- round trip `ABAQUS → DTAU_DF → ABAQUS`: converting back gives an operator with the same action (hence the same
meaning) as the one started from, for every variation. -/
theorem N3_roundtrip_ABAQUS__DTAU_DF (hc : c * c = 2) (h2 : (2:K) ≠ 0)
    (D : Nat → Nat → K) (F0 F : M3 K) (l00 l11 l22 l01 l02 l12 : K) (s : Nat → K) (hJ : F.det ≠ 0) :
    upper (lamAb F (M3.ofMandel c [s 0, s 1, s 2, s 3, s 4, s 5]) (M3.sym l00 l11 l22 l01 l02 l12) (M3.ofMandel c (act (Gen.N3_ABAQUS__DTAU_DF_r c c3 fn (matOf (Gen.N3_DTAU_DF__ABAQUS_r c c3 fn D (tensv F0) (tensv F) s)) (tensv F0) (tensv F) s) (M3.mandel3 c (symm (M3.sym l00 l11 l22 l01 l02 l12))))))
      = upper (lamAb F (M3.ofMandel c [s 0, s 1, s 2, s 3, s 4, s 5]) (M3.sym l00 l11 l22 l01 l02 l12) (M3.ofMandel c (act (rowsOf D i6 i6) (M3.mandel3 c (symm (M3.sym l00 l11 l22 l01 l02 l12)))))) := by
  refine (PropsN3_ABAQUS__DTAU_DF.N3_ABAQUS__DTAU_DF c c3 fn hc h2 (hJ := hJ) (F0 := F0) ..).trans ?_
  exact PropsN3_DTAU_DF__ABAQUS.N3_DTAU_DF__ABAQUS c c3 fn hc h2 (hJ := hJ) (F0 := F0) ..

/-- round trip `DTAU_DF → C_TAU_JAUMANN → DTAU_DF`: converting back gives an operator with the same action (hence the same
meaning) as the one started from, for every variation. -/
theorem N3_roundtrip_DTAU_DF__C_TAU_JAUMANN (hc : c * c = 2) (h2 : (2:K) ≠ 0)
    (D : Nat → Nat → K) (F0 F : M3 K) (l00 l11 l22 l01 l02 l12 : K) (s : Nat → K) (hJ : F.det ≠ 0) :
    upper (lamTau F (M3.ofMandel c [s 0, s 1, s 2, s 3, s 4, s 5]) (M3.sym l00 l11 l22 l01 l02 l12) (M3.ofMandel c (act (Gen.N3_DTAU_DF__C_TAU_JAUMANN_r c c3 fn (matOf (Gen.N3_C_TAU_JAUMANN__DTAU_DF_r c c3 fn D (tensv F0) (tensv F) s)) (tensv F0) (tensv F) s) (M3.tens3 ((M3.sym l00 l11 l22 l01 l02 l12) * F)))))
      = upper (lamTau F (M3.ofMandel c [s 0, s 1, s 2, s 3, s 4, s 5]) (M3.sym l00 l11 l22 l01 l02 l12) (M3.ofMandel c (act (rowsOf D i6 i9) (M3.tens3 ((M3.sym l00 l11 l22 l01 l02 l12) * F))))) := by
  refine (PropsN3_DTAU_DF__C_TAU_JAUMANN.N3_DTAU_DF__C_TAU_JAUMANN c c3 fn hc h2 (hJ := hJ) (F0 := F0) ..).trans ?_
  exact PropsN3_C_TAU_JAUMANN__DTAU_DF.N3_C_TAU_JAUMANN__DTAU_DF c c3 fn hc h2 (F0 := F0) ..

/-- round trip `DTAU_DF → ABAQUS → DTAU_DF`: converting back gives an operator with the same action (hence the same
meaning) as the one started from, for every variation. -/
theorem N3_roundtrip_DTAU_DF__ABAQUS (hc : c * c = 2) (h2 : (2:K) ≠ 0)
    (D : Nat → Nat → K) (F0 F : M3 K) (l00 l11 l22 l01 l02 l12 : K) (s : Nat → K) (hJ : F.det ≠ 0) :
    upper (lamTau F (M3.ofMandel c [s 0, s 1, s 2, s 3, s 4, s 5]) (M3.sym l00 l11 l22 l01 l02 l12) (M3.ofMandel c (act (Gen.N3_DTAU_DF__ABAQUS_r c c3 fn (matOf (Gen.N3_ABAQUS__DTAU_DF_r c c3 fn D (tensv F0) (tensv F) s)) (tensv F0) (tensv F) s) (M3.tens3 ((M3.sym l00 l11 l22 l01 l02 l12) * F)))))
      = upper (lamTau F (M3.ofMandel c [s 0, s 1, s 2, s 3, s 4, s 5]) (M3.sym l00 l11 l22 l01 l02 l12) (M3.ofMandel c (act (rowsOf D i6 i9) (M3.tens3 ((M3.sym l00 l11 l22 l01 l02 l12) * F))))) := by
  refine (PropsN3_DTAU_DF__ABAQUS.N3_DTAU_DF__ABAQUS c c3 fn hc h2 (hJ := hJ) (F0 := F0) ..).trans ?_
  exact PropsN3_ABAQUS__DTAU_DF.N3_ABAQUS__DTAU_DF c c3 fn hc h2 (hJ := hJ) (F0 := F0) ..

/-- round trip `DTAU_DF → SPATIAL_MODULI → DTAU_DF`: converting back gives an operator with the same action (hence the same
meaning) as the one started from, for every variation. -/
theorem N3_roundtrip_DTAU_DF__SPATIAL_MODULI (hc : c * c = 2) (h2 : (2:K) ≠ 0)
    (D : Nat → Nat → K) (F0 F : M3 K) (l00 l11 l22 l01 l02 l12 : K) (s : Nat → K) (hJ : F.det ≠ 0) :
    upper (lamTau F (M3.ofMandel c [s 0, s 1, s 2, s 3, s 4, s 5]) (M3.sym l00 l11 l22 l01 l02 l12) (M3.ofMandel c (act (Gen.N3_DTAU_DF__SPATIAL_MODULI_r c c3 fn (matOf (Gen.N3_SPATIAL_MODULI__DTAU_DF_r c c3 fn D (tensv F0) (tensv F) s)) (tensv F0) (tensv F) s) (M3.tens3 ((M3.sym l00 l11 l22 l01 l02 l12) * F)))))
      = upper (lamTau F (M3.ofMandel c [s 0, s 1, s 2, s 3, s 4, s 5]) (M3.sym l00 l11 l22 l01 l02 l12) (M3.ofMandel c (act (rowsOf D i6 i9) (M3.tens3 ((M3.sym l00 l11 l22 l01 l02 l12) * F))))) := by
  refine (PropsN3Chains.N3_DTAU_DF__SPATIAL_MODULI c c3 fn hc h2 (hJ := hJ) (F0 := F0) ..).trans ?_
  exact PropsN3Chains.N3_SPATIAL_MODULI__DTAU_DF c c3 fn hc h2 (F0 := F0) ..

/-- conversions compose: `DS_DF ← DS_DC ← DS_DEGL` acts as the direct `DS_DF ← DS_DEGL`, for every variation. -/
theorem N3_compose_DS_DF__DS_DC__DS_DEGL (hc : c * c = 2) (h2 : (2:K) ≠ 0)
    (D : Nat → Nat → K) (F0 F : M3 K) (L : M3 K) (s : Nat → K)  :
    upper (lamS F (M3.ofMandel c [s 0, s 1, s 2, s 3, s 4, s 5]) L (M3.ofMandel c (act (Gen.N3_DS_DF__DS_DC_r c c3 fn (matOf (Gen.N3_DS_DC__DS_DEGL_r c c3 fn D (tensv F0) (tensv F) s)) (tensv F0) (tensv F) s) (M3.tens3 (L * F)))))
      = upper (lamS F (M3.ofMandel c [s 0, s 1, s 2, s 3, s 4, s 5]) L (M3.ofMandel c (act (Gen.N3_DS_DF__DS_DEGL_r c c3 fn D (tensv F0) (tensv F) s) (M3.tens3 (L * F))))) := by
  refine (PropsN3_DS_DF__DS_DC.N3_DS_DF__DS_DC c c3 fn hc h2 (F0 := F0) ..).trans ?_
  refine (PropsN3_DS_DC__DS_DEGL.N3_DS_DC__DS_DEGL c c3 fn hc h2 (F0 := F0) ..).trans ?_
  exact (PropsN3_DS_DF__DS_DEGL.N3_DS_DF__DS_DEGL c c3 fn hc h2 (F0 := F0) ..).symm

/-- conversions compose: `DS_DF ← DS_DEGL ← DS_DC` acts as the direct `DS_DF ← DS_DC`, for every variation. -/
theorem N3_compose_DS_DF__DS_DEGL__DS_DC (hc : c * c = 2) (h2 : (2:K) ≠ 0)
    (D : Nat → Nat → K) (F0 F : M3 K) (L : M3 K) (s : Nat → K)  :
    upper (lamS F (M3.ofMandel c [s 0, s 1, s 2, s 3, s 4, s 5]) L (M3.ofMandel c (act (Gen.N3_DS_DF__DS_DEGL_r c c3 fn (matOf (Gen.N3_DS_DEGL__DS_DC_r c c3 fn D (tensv F0) (tensv F) s)) (tensv F0) (tensv F) s) (M3.tens3 (L * F)))))
      = upper (lamS F (M3.ofMandel c [s 0, s 1, s 2, s 3, s 4, s 5]) L (M3.ofMandel c (act (Gen.N3_DS_DF__DS_DC_r c c3 fn D (tensv F0) (tensv F) s) (M3.tens3 (L * F))))) := by
  refine (PropsN3_DS_DF__DS_DEGL.N3_DS_DF__DS_DEGL c c3 fn hc h2 (F0 := F0) ..).trans ?_
  refine (PropsN3_DS_DEGL__DS_DC.N3_DS_DEGL__DS_DC c c3 fn hc h2 (F0 := F0) ..).trans ?_
  exact (PropsN3_DS_DF__DS_DC.N3_DS_DF__DS_DC c c3 fn hc h2 (F0 := F0) ..).symm

/-- conversions compose: `ABAQUS ← SPATIAL_MODULI ← DS_DEGL` acts as the direct `ABAQUS ← DS_DEGL`, for every variation. -/
theorem N3_compose_ABAQUS__SPATIAL_MODULI__DS_DEGL (hc : c * c = 2) (h2 : (2:K) ≠ 0)
    (D : Nat → Nat → K) (F0 F : M3 K) (L : M3 K) (s : Nat → K) (hJ : F.det ≠ 0) :
    upper (lamAb F (M3.ofMandel c [s 0, s 1, s 2, s 3, s 4, s 5]) L (M3.ofMandel c (act (Gen.N3_ABAQUS__SPATIAL_MODULI_r c c3 fn (matOf (Gen.N3_SPATIAL_MODULI__DS_DEGL_r c c3 fn D (tensv F0) (tensv F) s)) (tensv F0) (tensv F) s) (M3.mandel3 c (symm L)))))
      = upper (lamAb F (M3.ofMandel c [s 0, s 1, s 2, s 3, s 4, s 5]) L (M3.ofMandel c (act (Gen.N3_ABAQUS__DS_DEGL_r c c3 fn D (tensv F0) (tensv F) s) (M3.mandel3 c (symm L))))) := by
  refine (PropsN3_ABAQUS__SPATIAL_MODULI.N3_ABAQUS__SPATIAL_MODULI c c3 fn hc h2 (hJ := hJ) (F0 := F0) ..).trans ?_
  refine (PropsN3_SPATIAL_MODULI__DS_DEGL.N3_SPATIAL_MODULI__DS_DEGL c c3 fn hc h2 (F0 := F0) (g := tensv F) ..).trans ?_
  exact (PropsN3Chains.N3_ABAQUS__DS_DEGL c c3 fn hc h2 (hJ := hJ) (F0 := F0) ..).symm

/-- conversions compose: `ABAQUS ← SPATIAL_MODULI ← DTAU_DF` acts as the direct `ABAQUS ← DTAU_DF`, for every variation. -/
theorem N3_compose_ABAQUS__SPATIAL_MODULI__DTAU_DF (hc : c * c = 2) (h2 : (2:K) ≠ 0)
    (D : Nat → Nat → K) (F0 F : M3 K) (l00 l11 l22 l01 l02 l12 : K) (s : Nat → K) (hJ : F.det ≠ 0) :
    upper (lamAb F (M3.ofMandel c [s 0, s 1, s 2, s 3, s 4, s 5]) (M3.sym l00 l11 l22 l01 l02 l12) (M3.ofMandel c (act (Gen.N3_ABAQUS__SPATIAL_MODULI_r c c3 fn (matOf (Gen.N3_SPATIAL_MODULI__DTAU_DF_r c c3 fn D (tensv F0) (tensv F) s)) (tensv F0) (tensv F) s) (M3.mandel3 c (symm (M3.sym l00 l11 l22 l01 l02 l12))))))
      = upper (lamAb F (M3.ofMandel c [s 0, s 1, s 2, s 3, s 4, s 5]) (M3.sym l00 l11 l22 l01 l02 l12) (M3.ofMandel c (act (Gen.N3_ABAQUS__DTAU_DF_r c c3 fn D (tensv F0) (tensv F) s) (M3.mandel3 c (symm (M3.sym l00 l11 l22 l01 l02 l12)))))) := by
  refine (PropsN3_ABAQUS__SPATIAL_MODULI.N3_ABAQUS__SPATIAL_MODULI c c3 fn hc h2 (hJ := hJ) (F0 := F0) ..).trans ?_
  refine (PropsN3Chains.N3_SPATIAL_MODULI__DTAU_DF c c3 fn hc h2 (F0 := F0) ..).trans ?_
  exact (PropsN3_ABAQUS__DTAU_DF.N3_ABAQUS__DTAU_DF c c3 fn hc h2 (hJ := hJ) (F0 := F0) ..).symm

/-- conversions compose: `ABAQUS ← SPATIAL_MODULI ← C_TAU_JAUMANN` acts as the direct `ABAQUS ← C_TAU_JAUMANN`, for every variation. -/
theorem N3_compose_ABAQUS__SPATIAL_MODULI__C_TAU_JAUMANN (hc : c * c = 2) (h2 : (2:K) ≠ 0)
    (D : Nat → Nat → K) (F0 F : M3 K) (L : M3 K) (s : Nat → K) (hJ : F.det ≠ 0) :
    upper (lamAb F (M3.ofMandel c [s 0, s 1, s 2, s 3, s 4, s 5]) L (M3.ofMandel c (act (Gen.N3_ABAQUS__SPATIAL_MODULI_r c c3 fn (matOf (Gen.N3_SPATIAL_MODULI__C_TAU_JAUMANN_r c c3 fn D (tensv F0) (tensv F) s)) (tensv F0) (tensv F) s) (M3.mandel3 c (symm L)))))
      = upper (lamAb F (M3.ofMandel c [s 0, s 1, s 2, s 3, s 4, s 5]) L (M3.ofMandel c (act (Gen.N3_ABAQUS__C_TAU_JAUMANN_r c c3 fn D (tensv F0) (tensv F) s) (M3.mandel3 c (symm L))))) := by
  refine (PropsN3_ABAQUS__SPATIAL_MODULI.N3_ABAQUS__SPATIAL_MODULI c c3 fn hc h2 (hJ := hJ) (F0 := F0) ..).trans ?_
  refine (PropsN3_SPATIAL_MODULI__C_TAU_JAUMANN.N3_SPATIAL_MODULI__C_TAU_JAUMANN c c3 fn hc h2 (F0 := F0) ..).trans ?_
  exact (PropsN3_ABAQUS__C_TAU_JAUMANN.N3_ABAQUS__C_TAU_JAUMANN c c3 fn hc h2 (hJ := hJ) (F0 := F0) ..).symm

/-- conversions compose: `ABAQUS ← DS_DEGL ← SPATIAL_MODULI` acts as the direct `ABAQUS ← SPATIAL_MODULI`, for every variation. -/
theorem N3_compose_ABAQUS__DS_DEGL__SPATIAL_MODULI (hc : c * c = 2) (h2 : (2:K) ≠ 0)
    (D : Nat → Nat → K) (F0 F : M3 K) (L : M3 K) (s : Nat → K) (hJ : F.det ≠ 0) :
    upper (lamAb F (M3.ofMandel c [s 0, s 1, s 2, s 3, s 4, s 5]) L (M3.ofMandel c (act (Gen.N3_ABAQUS__DS_DEGL_r c c3 fn (matOf (Gen.N3_DS_DEGL__SPATIAL_MODULI_r c c3 fn D (tensv F0) (tensv F) s)) (tensv F0) (tensv F) s) (M3.mandel3 c (symm L)))))
      = upper (lamAb F (M3.ofMandel c [s 0, s 1, s 2, s 3, s 4, s 5]) L (M3.ofMandel c (act (Gen.N3_ABAQUS__SPATIAL_MODULI_r c c3 fn D (tensv F0) (tensv F) s) (M3.mandel3 c (symm L))))) := by
  refine (PropsN3Chains.N3_ABAQUS__DS_DEGL c c3 fn hc h2 (hJ := hJ) (F0 := F0) ..).trans ?_
  refine (PropsN3Chains.N3_DS_DEGL__SPATIAL_MODULI c c3 fn hc h2 (hJ := hJ) (F0 := F0) ..).trans ?_
  exact (PropsN3_ABAQUS__SPATIAL_MODULI.N3_ABAQUS__SPATIAL_MODULI c c3 fn hc h2 (hJ := hJ) (F0 := F0) ..).symm

/-- conversions compose: `DSIG_DF ← C_TRUESDELL ← DS_DEGL` acts as the direct `DSIG_DF ← DS_DEGL`, for every variation. -/
theorem N3_compose_DSIG_DF__C_TRUESDELL__DS_DEGL (hc : c * c = 2) (h2 : (2:K) ≠ 0)
    (D : Nat → Nat → K) (F0 F : M3 K) (L : M3 K) (s : Nat → K) (hJ : F.det ≠ 0) :
    upper (lamSig F (M3.ofMandel c [s 0, s 1, s 2, s 3, s 4, s 5]) L (M3.ofMandel c (act (Gen.N3_DSIG_DF__C_TRUESDELL_r c c3 fn (matOf (Gen.N3_C_TRUESDELL__DS_DEGL_r c c3 fn D (tensv F0) (tensv F) s)) (tensv F0) (tensv F) s) (M3.tens3 (L * F)))))
      = upper (lamSig F (M3.ofMandel c [s 0, s 1, s 2, s 3, s 4, s 5]) L (M3.ofMandel c (act (Gen.N3_DSIG_DF__DS_DEGL_r c c3 fn D (tensv F0) (tensv F) s) (M3.tens3 (L * F))))) := by
  refine (PropsN3Chains.N3_DSIG_DF__C_TRUESDELL c c3 fn hc h2 (hJ := hJ) (F0 := F0) ..).trans ?_
  refine (PropsN3Chains.N3_C_TRUESDELL__DS_DEGL c c3 fn hc h2 (hJ := hJ) (F0 := F0) ..).trans ?_
  exact (PropsN3Chains.N3_DSIG_DF__DS_DEGL c c3 fn hc h2 (hJ := hJ) (F0 := F0) ..).symm

/-- conversions compose: `DSIG_DF ← C_TRUESDELL ← DTAU_DF` acts as the direct `DSIG_DF ← DTAU_DF`, for every variation. -/
theorem N3_compose_DSIG_DF__C_TRUESDELL__DTAU_DF (hc : c * c = 2) (h2 : (2:K) ≠ 0)
    (D : Nat → Nat → K) (F0 F : M3 K) (l00 l11 l22 l01 l02 l12 : K) (s : Nat → K) (hJ : F.det ≠ 0) :
    upper (lamSig F (M3.ofMandel c [s 0, s 1, s 2, s 3, s 4, s 5]) (M3.sym l00 l11 l22 l01 l02 l12) (M3.ofMandel c (act (Gen.N3_DSIG_DF__C_TRUESDELL_r c c3 fn (matOf (Gen.N3_C_TRUESDELL__DTAU_DF_r c c3 fn D (tensv F0) (tensv F) s)) (tensv F0) (tensv F) s) (M3.tens3 ((M3.sym l00 l11 l22 l01 l02 l12) * F)))))
      = upper (lamSig F (M3.ofMandel c [s 0, s 1, s 2, s 3, s 4, s 5]) (M3.sym l00 l11 l22 l01 l02 l12) (M3.ofMandel c (act (Gen.N3_DSIG_DF__DTAU_DF_r c c3 fn D (tensv F0) (tensv F) s) (M3.tens3 ((M3.sym l00 l11 l22 l01 l02 l12) * F))))) := by
  refine (PropsN3Chains.N3_DSIG_DF__C_TRUESDELL c c3 fn hc h2 (hJ := hJ) (F0 := F0) ..).trans ?_
  refine (PropsN3Chains.N3_C_TRUESDELL__DTAU_DF c c3 fn hc h2 (hJ := hJ) (F0 := F0) ..).trans ?_
  exact (PropsN3_DSIG_DF__DTAU_DF.N3_DSIG_DF__DTAU_DF c c3 fn hc h2 (hJ := hJ) (F0 := F0) ..).symm

/-- conversions compose: `SPATIAL_MODULI ← ABAQUS ← DS_DEGL` acts as the direct `SPATIAL_MODULI ← DS_DEGL`, for every variation. -/
theorem N3_compose_SPATIAL_MODULI__ABAQUS__DS_DEGL (hc : c * c = 2) (h2 : (2:K) ≠ 0)
    (D : Nat → Nat → K) (F0 F : M3 K) (L : M3 K) (s : Nat → K) (hJ : F.det ≠ 0) :
    upper (lamSM F (M3.ofMandel c [s 0, s 1, s 2, s 3, s 4, s 5]) L (M3.ofMandel c (act (Gen.N3_SPATIAL_MODULI__ABAQUS_r c c3 fn (matOf (Gen.N3_ABAQUS__DS_DEGL_r c c3 fn D (tensv F0) (tensv F) s)) (tensv F0) (tensv F) s) (M3.mandel3 c (symm L)))))
      = upper (lamSM F (M3.ofMandel c [s 0, s 1, s 2, s 3, s 4, s 5]) L (M3.ofMandel c (act (Gen.N3_SPATIAL_MODULI__DS_DEGL_r c c3 fn D (tensv F0) (tensv F) s) (M3.mandel3 c (symm L))))) := by
  refine (PropsN3_SPATIAL_MODULI__ABAQUS.N3_SPATIAL_MODULI__ABAQUS c c3 fn hc h2 (F0 := F0) ..).trans ?_
  refine (PropsN3Chains.N3_ABAQUS__DS_DEGL c c3 fn hc h2 (hJ := hJ) (F0 := F0) ..).trans ?_
  exact (PropsN3_SPATIAL_MODULI__DS_DEGL.N3_SPATIAL_MODULI__DS_DEGL c c3 fn hc h2 (F0 := F0) (g := tensv F) ..).symm

/-- conversions compose: `SPATIAL_MODULI ← ABAQUS ← C_TAU_JAUMANN` acts as the direct `SPATIAL_MODULI ← C_TAU_JAUMANN`, for every variation. -/
theorem N3_compose_SPATIAL_MODULI__ABAQUS__C_TAU_JAUMANN (hc : c * c = 2) (h2 : (2:K) ≠ 0)
    (D : Nat → Nat → K) (F0 F : M3 K) (L : M3 K) (s : Nat → K) (hJ : F.det ≠ 0) :
    upper (lamSM F (M3.ofMandel c [s 0, s 1, s 2, s 3, s 4, s 5]) L (M3.ofMandel c (act (Gen.N3_SPATIAL_MODULI__ABAQUS_r c c3 fn (matOf (Gen.N3_ABAQUS__C_TAU_JAUMANN_r c c3 fn D (tensv F0) (tensv F) s)) (tensv F0) (tensv F) s) (M3.mandel3 c (symm L)))))
      = upper (lamSM F (M3.ofMandel c [s 0, s 1, s 2, s 3, s 4, s 5]) L (M3.ofMandel c (act (Gen.N3_SPATIAL_MODULI__C_TAU_JAUMANN_r c c3 fn D (tensv F0) (tensv F) s) (M3.mandel3 c (symm L))))) := by
  refine (PropsN3_SPATIAL_MODULI__ABAQUS.N3_SPATIAL_MODULI__ABAQUS c c3 fn hc h2 (F0 := F0) ..).trans ?_
  refine (PropsN3_ABAQUS__C_TAU_JAUMANN.N3_ABAQUS__C_TAU_JAUMANN c c3 fn hc h2 (hJ := hJ) (F0 := F0) ..).trans ?_
  exact (PropsN3_SPATIAL_MODULI__C_TAU_JAUMANN.N3_SPATIAL_MODULI__C_TAU_JAUMANN c c3 fn hc h2 (F0 := F0) ..).symm

/-- conversions compose: `SPATIAL_MODULI ← ABAQUS ← DTAU_DF` acts as the direct `SPATIAL_MODULI ← DTAU_DF`, for every variation. -/
theorem N3_compose_SPATIAL_MODULI__ABAQUS__DTAU_DF (hc : c * c = 2) (h2 : (2:K) ≠ 0)
    (D : Nat → Nat → K) (F0 F : M3 K) (l00 l11 l22 l01 l02 l12 : K) (s : Nat → K) (hJ : F.det ≠ 0) :
    upper (lamSM F (M3.ofMandel c [s 0, s 1, s 2, s 3, s 4, s 5]) (M3.sym l00 l11 l22 l01 l02 l12) (M3.ofMandel c (act (Gen.N3_SPATIAL_MODULI__ABAQUS_r c c3 fn (matOf (Gen.N3_ABAQUS__DTAU_DF_r c c3 fn D (tensv F0) (tensv F) s)) (tensv F0) (tensv F) s) (M3.mandel3 c (symm (M3.sym l00 l11 l22 l01 l02 l12))))))
      = upper (lamSM F (M3.ofMandel c [s 0, s 1, s 2, s 3, s 4, s 5]) (M3.sym l00 l11 l22 l01 l02 l12) (M3.ofMandel c (act (Gen.N3_SPATIAL_MODULI__DTAU_DF_r c c3 fn D (tensv F0) (tensv F) s) (M3.mandel3 c (symm (M3.sym l00 l11 l22 l01 l02 l12)))))) := by
  refine (PropsN3_SPATIAL_MODULI__ABAQUS.N3_SPATIAL_MODULI__ABAQUS c c3 fn hc h2 (F0 := F0) ..).trans ?_
  refine (PropsN3_ABAQUS__DTAU_DF.N3_ABAQUS__DTAU_DF c c3 fn hc h2 (hJ := hJ) (F0 := F0) ..).trans ?_
  exact (PropsN3Chains.N3_SPATIAL_MODULI__DTAU_DF c c3 fn hc h2 (F0 := F0) ..).symm

/-- conversions compose: `C_TRUESDELL ← SPATIAL_MODULI ← DS_DEGL` acts as the direct `C_TRUESDELL ← DS_DEGL`, for every variation. -/
theorem N3_compose_C_TRUESDELL__SPATIAL_MODULI__DS_DEGL (hc : c * c = 2) (h2 : (2:K) ≠ 0)
    (D : Nat → Nat → K) (F0 F : M3 K) (L : M3 K) (s : Nat → K) (hJ : F.det ≠ 0) :
    upper (lamTr F (M3.ofMandel c [s 0, s 1, s 2, s 3, s 4, s 5]) L (M3.ofMandel c (act (Gen.N3_C_TRUESDELL__SPATIAL_MODULI_r c c3 fn (matOf (Gen.N3_SPATIAL_MODULI__DS_DEGL_r c c3 fn D (tensv F0) (tensv F) s)) (tensv F0) (tensv F) s) (M3.mandel3 c (symm L)))))
      = upper (lamTr F (M3.ofMandel c [s 0, s 1, s 2, s 3, s 4, s 5]) L (M3.ofMandel c (act (Gen.N3_C_TRUESDELL__DS_DEGL_r c c3 fn D (tensv F0) (tensv F) s) (M3.mandel3 c (symm L))))) := by
  refine (PropsN3_C_TRUESDELL__SPATIAL_MODULI.N3_C_TRUESDELL__SPATIAL_MODULI c c3 fn hc h2 (hJ := hJ) (F0 := F0) ..).trans ?_
  refine (PropsN3_SPATIAL_MODULI__DS_DEGL.N3_SPATIAL_MODULI__DS_DEGL c c3 fn hc h2 (F0 := F0) (g := tensv F) ..).trans ?_
  exact (PropsN3Chains.N3_C_TRUESDELL__DS_DEGL c c3 fn hc h2 (hJ := hJ) (F0 := F0) ..).symm

/-- conversions compose: `C_TRUESDELL ← SPATIAL_MODULI ← DTAU_DF` acts as the direct `C_TRUESDELL ← DTAU_DF`, for every variation. -/
theorem N3_compose_C_TRUESDELL__SPATIAL_MODULI__DTAU_DF (hc : c * c = 2) (h2 : (2:K) ≠ 0)
    (D : Nat → Nat → K) (F0 F : M3 K) (l00 l11 l22 l01 l02 l12 : K) (s : Nat → K) (hJ : F.det ≠ 0) :
    upper (lamTr F (M3.ofMandel c [s 0, s 1, s 2, s 3, s 4, s 5]) (M3.sym l00 l11 l22 l01 l02 l12) (M3.ofMandel c (act (Gen.N3_C_TRUESDELL__SPATIAL_MODULI_r c c3 fn (matOf (Gen.N3_SPATIAL_MODULI__DTAU_DF_r c c3 fn D (tensv F0) (tensv F) s)) (tensv F0) (tensv F) s) (M3.mandel3 c (symm (M3.sym l00 l11 l22 l01 l02 l12))))))
      = upper (lamTr F (M3.ofMandel c [s 0, s 1, s 2, s 3, s 4, s 5]) (M3.sym l00 l11 l22 l01 l02 l12) (M3.ofMandel c (act (Gen.N3_C_TRUESDELL__DTAU_DF_r c c3 fn D (tensv F0) (tensv F) s) (M3.mandel3 c (symm (M3.sym l00 l11 l22 l01 l02 l12)))))) := by
  refine (PropsN3_C_TRUESDELL__SPATIAL_MODULI.N3_C_TRUESDELL__SPATIAL_MODULI c c3 fn hc h2 (hJ := hJ) (F0 := F0) ..).trans ?_
  refine (PropsN3Chains.N3_SPATIAL_MODULI__DTAU_DF c c3 fn hc h2 (F0 := F0) ..).trans ?_
  exact (PropsN3Chains.N3_C_TRUESDELL__DTAU_DF c c3 fn hc h2 (hJ := hJ) (F0 := F0) ..).symm

/-- conversions compose: `C_TRUESDELL ← DS_DEGL ← SPATIAL_MODULI` acts as the direct `C_TRUESDELL ← SPATIAL_MODULI`, for every variation. -/
theorem N3_compose_C_TRUESDELL__DS_DEGL__SPATIAL_MODULI (hc : c * c = 2) (h2 : (2:K) ≠ 0)
    (D : Nat → Nat → K) (F0 F : M3 K) (L : M3 K) (s : Nat → K) (hJ : F.det ≠ 0) :
    upper (lamTr F (M3.ofMandel c [s 0, s 1, s 2, s 3, s 4, s 5]) L (M3.ofMandel c (act (Gen.N3_C_TRUESDELL__DS_DEGL_r c c3 fn (matOf (Gen.N3_DS_DEGL__SPATIAL_MODULI_r c c3 fn D (tensv F0) (tensv F) s)) (tensv F0) (tensv F) s) (M3.mandel3 c (symm L)))))
      = upper (lamTr F (M3.ofMandel c [s 0, s 1, s 2, s 3, s 4, s 5]) L (M3.ofMandel c (act (Gen.N3_C_TRUESDELL__SPATIAL_MODULI_r c c3 fn D (tensv F0) (tensv F) s) (M3.mandel3 c (symm L))))) := by
  refine (PropsN3Chains.N3_C_TRUESDELL__DS_DEGL c c3 fn hc h2 (hJ := hJ) (F0 := F0) ..).trans ?_
  refine (PropsN3Chains.N3_DS_DEGL__SPATIAL_MODULI c c3 fn hc h2 (hJ := hJ) (F0 := F0) ..).trans ?_
  exact (PropsN3_C_TRUESDELL__SPATIAL_MODULI.N3_C_TRUESDELL__SPATIAL_MODULI c c3 fn hc h2 (hJ := hJ) (F0 := F0) ..).symm

/-- conversions compose: `SPATIAL_MODULI ← C_TRUESDELL ← DS_DEGL` acts as the direct `SPATIAL_MODULI ← DS_DEGL`, for every variation. -/
theorem N3_compose_SPATIAL_MODULI__C_TRUESDELL__DS_DEGL (hc : c * c = 2) (h2 : (2:K) ≠ 0)
    (D : Nat → Nat → K) (F0 F : M3 K) (L : M3 K) (s : Nat → K) (hJ : F.det ≠ 0) :
    upper (lamSM F (M3.ofMandel c [s 0, s 1, s 2, s 3, s 4, s 5]) L (M3.ofMandel c (act (Gen.N3_SPATIAL_MODULI__C_TRUESDELL_r c c3 fn (matOf (Gen.N3_C_TRUESDELL__DS_DEGL_r c c3 fn D (tensv F0) (tensv F) s)) (tensv F0) (tensv F) s) (M3.mandel3 c (symm L)))))
      = upper (lamSM F (M3.ofMandel c [s 0, s 1, s 2, s 3, s 4, s 5]) L (M3.ofMandel c (act (Gen.N3_SPATIAL_MODULI__DS_DEGL_r c c3 fn D (tensv F0) (tensv F) s) (M3.mandel3 c (symm L))))) := by
  refine (PropsN3_SPATIAL_MODULI__C_TRUESDELL.N3_SPATIAL_MODULI__C_TRUESDELL c c3 fn hc h2 (F0 := F0) ..).trans ?_
  refine (PropsN3Chains.N3_C_TRUESDELL__DS_DEGL c c3 fn hc h2 (hJ := hJ) (F0 := F0) ..).trans ?_
  exact (PropsN3_SPATIAL_MODULI__DS_DEGL.N3_SPATIAL_MODULI__DS_DEGL c c3 fn hc h2 (F0 := F0) (g := tensv F) ..).symm

/-- conversions compose: `SPATIAL_MODULI ← C_TRUESDELL ← DTAU_DF` acts as the direct `SPATIAL_MODULI ← DTAU_DF`, for every variation. -/
theorem N3_compose_SPATIAL_MODULI__C_TRUESDELL__DTAU_DF (hc : c * c = 2) (h2 : (2:K) ≠ 0)
    (D : Nat → Nat → K) (F0 F : M3 K) (l00 l11 l22 l01 l02 l12 : K) (s : Nat → K) (hJ : F.det ≠ 0) :
    upper (lamSM F (M3.ofMandel c [s 0, s 1, s 2, s 3, s 4, s 5]) (M3.sym l00 l11 l22 l01 l02 l12) (M3.ofMandel c (act (Gen.N3_SPATIAL_MODULI__C_TRUESDELL_r c c3 fn (matOf (Gen.N3_C_TRUESDELL__DTAU_DF_r c c3 fn D (tensv F0) (tensv F) s)) (tensv F0) (tensv F) s) (M3.mandel3 c (symm (M3.sym l00 l11 l22 l01 l02 l12))))))
      = upper (lamSM F (M3.ofMandel c [s 0, s 1, s 2, s 3, s 4, s 5]) (M3.sym l00 l11 l22 l01 l02 l12) (M3.ofMandel c (act (Gen.N3_SPATIAL_MODULI__DTAU_DF_r c c3 fn D (tensv F0) (tensv F) s) (M3.mandel3 c (symm (M3.sym l00 l11 l22 l01 l02 l12)))))) := by
  refine (PropsN3_SPATIAL_MODULI__C_TRUESDELL.N3_SPATIAL_MODULI__C_TRUESDELL c c3 fn hc h2 (F0 := F0) ..).trans ?_
  refine (PropsN3Chains.N3_C_TRUESDELL__DTAU_DF c c3 fn hc h2 (hJ := hJ) (F0 := F0) ..).trans ?_
  exact (PropsN3Chains.N3_SPATIAL_MODULI__DTAU_DF c c3 fn hc h2 (F0 := F0) ..).symm

/-- conversions compose: `DSIG_DF ← DTAU_DF ← ABAQUS` acts as the direct `DSIG_DF ← ABAQUS`, for every variation. -/
theorem N3_compose_DSIG_DF__DTAU_DF__ABAQUS (hc : c * c = 2) (h2 : (2:K) ≠ 0)
    (D : Nat → Nat → K) (F0 F : M3 K) (L : M3 K) (s : Nat → K) (hJ : F.det ≠ 0) :
    upper (lamSig F (M3.ofMandel c [s 0, s 1, s 2, s 3, s 4, s 5]) L (M3.ofMandel c (act (Gen.N3_DSIG_DF__DTAU_DF_r c c3 fn (matOf (Gen.N3_DTAU_DF__ABAQUS_r c c3 fn D (tensv F0) (tensv F) s)) (tensv F0) (tensv F) s) (M3.tens3 (L * F)))))
      = upper (lamSig F (M3.ofMandel c [s 0, s 1, s 2, s 3, s 4, s 5]) L (M3.ofMandel c (act (Gen.N3_DSIG_DF__ABAQUS_r c c3 fn D (tensv F0) (tensv F) s) (M3.tens3 (L * F))))) := by
  refine (PropsN3_DSIG_DF__DTAU_DF.N3_DSIG_DF__DTAU_DF c c3 fn hc h2 (hJ := hJ) (F0 := F0) ..).trans ?_
  refine (PropsN3_DTAU_DF__ABAQUS.N3_DTAU_DF__ABAQUS c c3 fn hc h2 (hJ := hJ) (F0 := F0) ..).trans ?_
  exact (PropsN3Chains.N3_DSIG_DF__ABAQUS c c3 fn hc h2 (hJ := hJ) (F0 := F0) ..).symm

/-- conversions compose: `SPATIAL_MODULI ← DTAU_DF ← C_TAU_JAUMANN` acts as the direct `SPATIAL_MODULI ← C_TAU_JAUMANN`, for every variation. -/
theorem N3_compose_SPATIAL_MODULI__DTAU_DF__C_TAU_JAUMANN (hc : c * c = 2) (h2 : (2:K) ≠ 0)
    (D : Nat → Nat → K) (F0 F : M3 K) (l00 l11 l22 l01 l02 l12 : K) (s : Nat → K) (hJ : F.det ≠ 0) :
    upper (lamSM F (M3.ofMandel c [s 0, s 1, s 2, s 3, s 4, s 5]) (M3.sym l00 l11 l22 l01 l02 l12) (M3.ofMandel c (act (Gen.N3_SPATIAL_MODULI__DTAU_DF_r c c3 fn (matOf (Gen.N3_DTAU_DF__C_TAU_JAUMANN_r c c3 fn D (tensv F0) (tensv F) s)) (tensv F0) (tensv F) s) (M3.mandel3 c (symm (M3.sym l00 l11 l22 l01 l02 l12))))))
      = upper (lamSM F (M3.ofMandel c [s 0, s 1, s 2, s 3, s 4, s 5]) (M3.sym l00 l11 l22 l01 l02 l12) (M3.ofMandel c (act (Gen.N3_SPATIAL_MODULI__C_TAU_JAUMANN_r c c3 fn D (tensv F0) (tensv F) s) (M3.mandel3 c (symm (M3.sym l00 l11 l22 l01 l02 l12)))))) := by
  refine (PropsN3Chains.N3_SPATIAL_MODULI__DTAU_DF c c3 fn hc h2 (F0 := F0) ..).trans ?_
  refine (PropsN3_DTAU_DF__C_TAU_JAUMANN.N3_DTAU_DF__C_TAU_JAUMANN c c3 fn hc h2 (hJ := hJ) (F0 := F0) ..).trans ?_
  exact (PropsN3_SPATIAL_MODULI__C_TAU_JAUMANN.N3_SPATIAL_MODULI__C_TAU_JAUMANN c c3 fn hc h2 (F0 := F0) ..).symm

/-- conversions compose: `SPATIAL_MODULI ← DTAU_DF ← ABAQUS` acts as the direct `SPATIAL_MODULI ← ABAQUS`, for every variation. -/
theorem N3_compose_SPATIAL_MODULI__DTAU_DF__ABAQUS (hc : c * c = 2) (h2 : (2:K) ≠ 0)
    (D : Nat → Nat → K) (F0 F : M3 K) (l00 l11 l22 l01 l02 l12 : K) (s : Nat → K) (hJ : F.det ≠ 0) :
    upper (lamSM F (M3.ofMandel c [s 0, s 1, s 2, s 3, s 4, s 5]) (M3.sym l00 l11 l22 l01 l02 l12) (M3.ofMandel c (act (Gen.N3_SPATIAL_MODULI__DTAU_DF_r c c3 fn (matOf (Gen.N3_DTAU_DF__ABAQUS_r c c3 fn D (tensv F0) (tensv F) s)) (tensv F0) (tensv F) s) (M3.mandel3 c (symm (M3.sym l00 l11 l22 l01 l02 l12))))))
      = upper (lamSM F (M3.ofMandel c [s 0, s 1, s 2, s 3, s 4, s 5]) (M3.sym l00 l11 l22 l01 l02 l12) (M3.ofMandel c (act (Gen.N3_SPATIAL_MODULI__ABAQUS_r c c3 fn D (tensv F0) (tensv F) s) (M3.mandel3 c (symm (M3.sym l00 l11 l22 l01 l02 l12)))))) := by
  refine (PropsN3Chains.N3_SPATIAL_MODULI__DTAU_DF c c3 fn hc h2 (F0 := F0) ..).trans ?_
  refine (PropsN3_DTAU_DF__ABAQUS.N3_DTAU_DF__ABAQUS c c3 fn hc h2 (hJ := hJ) (F0 := F0) ..).trans ?_
  exact (PropsN3_SPATIAL_MODULI__ABAQUS.N3_SPATIAL_MODULI__ABAQUS c c3 fn hc h2 (F0 := F0) ..).symm

/-- conversions compose: `C_TAU_JAUMANN ← DTAU_DF ← ABAQUS` acts as the direct `C_TAU_JAUMANN ← ABAQUS`, for every variation. -/
theorem N3_compose_C_TAU_JAUMANN__DTAU_DF__ABAQUS (hc : c * c = 2) (h2 : (2:K) ≠ 0)
    (D : Nat → Nat → K) (F0 F : M3 K) (l00 l11 l22 l01 l02 l12 : K) (s : Nat → K) (hJ : F.det ≠ 0) :
    upper (lamJ F (M3.ofMandel c [s 0, s 1, s 2, s 3, s 4, s 5]) (M3.sym l00 l11 l22 l01 l02 l12) (M3.ofMandel c (act (Gen.N3_C_TAU_JAUMANN__DTAU_DF_r c c3 fn (matOf (Gen.N3_DTAU_DF__ABAQUS_r c c3 fn D (tensv F0) (tensv F) s)) (tensv F0) (tensv F) s) (M3.mandel3 c (symm (M3.sym l00 l11 l22 l01 l02 l12))))))
      = upper (lamJ F (M3.ofMandel c [s 0, s 1, s 2, s 3, s 4, s 5]) (M3.sym l00 l11 l22 l01 l02 l12) (M3.ofMandel c (act (Gen.N3_C_TAU_JAUMANN__ABAQUS_r c c3 fn D (tensv F0) (tensv F) s) (M3.mandel3 c (symm (M3.sym l00 l11 l22 l01 l02 l12)))))) := by
  refine (PropsN3_C_TAU_JAUMANN__DTAU_DF.N3_C_TAU_JAUMANN__DTAU_DF c c3 fn hc h2 (F0 := F0) ..).trans ?_
  refine (PropsN3_DTAU_DF__ABAQUS.N3_DTAU_DF__ABAQUS c c3 fn hc h2 (hJ := hJ) (F0 := F0) ..).trans ?_
  exact (PropsN3_C_TAU_JAUMANN__ABAQUS.N3_C_TAU_JAUMANN__ABAQUS c c3 fn hc h2 (F0 := F0) ..).symm

/-- conversions compose: `C_TAU_JAUMANN ← DTAU_DF ← SPATIAL_MODULI` acts as the direct `C_TAU_JAUMANN ← SPATIAL_MODULI`, for every variation. -/
theorem N3_compose_C_TAU_JAUMANN__DTAU_DF__SPATIAL_MODULI (hc : c * c = 2) (h2 : (2:K) ≠ 0)
    (D : Nat → Nat → K) (F0 F : M3 K) (l00 l11 l22 l01 l02 l12 : K) (s : Nat → K) (hJ : F.det ≠ 0) :
    upper (lamJ F (M3.ofMandel c [s 0, s 1, s 2, s 3, s 4, s 5]) (M3.sym l00 l11 l22 l01 l02 l12) (M3.ofMandel c (act (Gen.N3_C_TAU_JAUMANN__DTAU_DF_r c c3 fn (matOf (Gen.N3_DTAU_DF__SPATIAL_MODULI_r c c3 fn D (tensv F0) (tensv F) s)) (tensv F0) (tensv F) s) (M3.mandel3 c (symm (M3.sym l00 l11 l22 l01 l02 l12))))))
      = upper (lamJ F (M3.ofMandel c [s 0, s 1, s 2, s 3, s 4, s 5]) (M3.sym l00 l11 l22 l01 l02 l12) (M3.ofMandel c (act (Gen.N3_C_TAU_JAUMANN__SPATIAL_MODULI_r c c3 fn D (tensv F0) (tensv F) s) (M3.mandel3 c (symm (M3.sym l00 l11 l22 l01 l02 l12)))))) := by
  refine (PropsN3_C_TAU_JAUMANN__DTAU_DF.N3_C_TAU_JAUMANN__DTAU_DF c c3 fn hc h2 (F0 := F0) ..).trans ?_
  refine (PropsN3Chains.N3_DTAU_DF__SPATIAL_MODULI c c3 fn hc h2 (hJ := hJ) (F0 := F0) ..).trans ?_
  exact (PropsN3_C_TAU_JAUMANN__SPATIAL_MODULI.N3_C_TAU_JAUMANN__SPATIAL_MODULI c c3 fn hc h2 (F0 := F0) ..).symm

/-- conversions compose: `C_TRUESDELL ← DTAU_DF ← SPATIAL_MODULI` acts as the direct `C_TRUESDELL ← SPATIAL_MODULI`, for every variation. -/
theorem N3_compose_C_TRUESDELL__DTAU_DF__SPATIAL_MODULI (hc : c * c = 2) (h2 : (2:K) ≠ 0)
    (D : Nat → Nat → K) (F0 F : M3 K) (l00 l11 l22 l01 l02 l12 : K) (s : Nat → K) (hJ : F.det ≠ 0) :
    upper (lamTr F (M3.ofMandel c [s 0, s 1, s 2, s 3, s 4, s 5]) (M3.sym l00 l11 l22 l01 l02 l12) (M3.ofMandel c (act (Gen.N3_C_TRUESDELL__DTAU_DF_r c c3 fn (matOf (Gen.N3_DTAU_DF__SPATIAL_MODULI_r c c3 fn D (tensv F0) (tensv F) s)) (tensv F0) (tensv F) s) (M3.mandel3 c (symm (M3.sym l00 l11 l22 l01 l02 l12))))))
      = upper (lamTr F (M3.ofMandel c [s 0, s 1, s 2, s 3, s 4, s 5]) (M3.sym l00 l11 l22 l01 l02 l12) (M3.ofMandel c (act (Gen.N3_C_TRUESDELL__SPATIAL_MODULI_r c c3 fn D (tensv F0) (tensv F) s) (M3.mandel3 c (symm (M3.sym l00 l11 l22 l01 l02 l12)))))) := by
  refine (PropsN3Chains.N3_C_TRUESDELL__DTAU_DF c c3 fn hc h2 (hJ := hJ) (F0 := F0) ..).trans ?_
  refine (PropsN3Chains.N3_DTAU_DF__SPATIAL_MODULI c c3 fn hc h2 (hJ := hJ) (F0 := F0) ..).trans ?_
  exact (PropsN3_C_TRUESDELL__SPATIAL_MODULI.N3_C_TRUESDELL__SPATIAL_MODULI c c3 fn hc h2 (hJ := hJ) (F0 := F0) ..).symm

/-- conversions compose: `ABAQUS ← C_TAU_JAUMANN ← DTAU_DF` acts as the direct `ABAQUS ← DTAU_DF`, for every variation. -/
theorem N3_compose_ABAQUS__C_TAU_JAUMANN__DTAU_DF (hc : c * c = 2) (h2 : (2:K) ≠ 0)
    (D : Nat → Nat → K) (F0 F : M3 K) (l00 l11 l22 l01 l02 l12 : K) (s : Nat → K) (hJ : F.det ≠ 0) :
    upper (lamAb F (M3.ofMandel c [s 0, s 1, s 2, s 3, s 4, s 5]) (M3.sym l00 l11 l22 l01 l02 l12) (M3.ofMandel c (act (Gen.N3_ABAQUS__C_TAU_JAUMANN_r c c3 fn (matOf (Gen.N3_C_TAU_JAUMANN__DTAU_DF_r c c3 fn D (tensv F0) (tensv F) s)) (tensv F0) (tensv F) s) (M3.mandel3 c (symm (M3.sym l00 l11 l22 l01 l02 l12))))))
      = upper (lamAb F (M3.ofMandel c [s 0, s 1, s 2, s 3, s 4, s 5]) (M3.sym l00 l11 l22 l01 l02 l12) (M3.ofMandel c (act (Gen.N3_ABAQUS__DTAU_DF_r c c3 fn D (tensv F0) (tensv F) s) (M3.mandel3 c (symm (M3.sym l00 l11 l22 l01 l02 l12)))))) := by
  refine (PropsN3_ABAQUS__C_TAU_JAUMANN.N3_ABAQUS__C_TAU_JAUMANN c c3 fn hc h2 (hJ := hJ) (F0 := F0) ..).trans ?_
  refine (PropsN3_C_TAU_JAUMANN__DTAU_DF.N3_C_TAU_JAUMANN__DTAU_DF c c3 fn hc h2 (F0 := F0) ..).trans ?_
  exact (PropsN3_ABAQUS__DTAU_DF.N3_ABAQUS__DTAU_DF c c3 fn hc h2 (hJ := hJ) (F0 := F0) ..).symm

/-- conversions compose: `ABAQUS ← C_TAU_JAUMANN ← SPATIAL_MODULI` acts as the direct `ABAQUS ← SPATIAL_MODULI`, for every variation. -/
theorem N3_compose_ABAQUS__C_TAU_JAUMANN__SPATIAL_MODULI (hc : c * c = 2) (h2 : (2:K) ≠ 0)
    (D : Nat → Nat → K) (F0 F : M3 K) (L : M3 K) (s : Nat → K) (hJ : F.det ≠ 0) :
    upper (lamAb F (M3.ofMandel c [s 0, s 1, s 2, s 3, s 4, s 5]) L (M3.ofMandel c (act (Gen.N3_ABAQUS__C_TAU_JAUMANN_r c c3 fn (matOf (Gen.N3_C_TAU_JAUMANN__SPATIAL_MODULI_r c c3 fn D (tensv F0) (tensv F) s)) (tensv F0) (tensv F) s) (M3.mandel3 c (symm L)))))
      = upper (lamAb F (M3.ofMandel c [s 0, s 1, s 2, s 3, s 4, s 5]) L (M3.ofMandel c (act (Gen.N3_ABAQUS__SPATIAL_MODULI_r c c3 fn D (tensv F0) (tensv F) s) (M3.mandel3 c (symm L))))) := by
  refine (PropsN3_ABAQUS__C_TAU_JAUMANN.N3_ABAQUS__C_TAU_JAUMANN c c3 fn hc h2 (hJ := hJ) (F0 := F0) ..).trans ?_
  refine (PropsN3_C_TAU_JAUMANN__SPATIAL_MODULI.N3_C_TAU_JAUMANN__SPATIAL_MODULI c c3 fn hc h2 (F0 := F0) ..).trans ?_
  exact (PropsN3_ABAQUS__SPATIAL_MODULI.N3_ABAQUS__SPATIAL_MODULI c c3 fn hc h2 (hJ := hJ) (F0 := F0) ..).symm

/-- conversions compose: `C_TAU_JAUMANN ← ABAQUS ← SPATIAL_MODULI` acts as the direct `C_TAU_JAUMANN ← SPATIAL_MODULI`, for every variation. -/
theorem N3_compose_C_TAU_JAUMANN__ABAQUS__SPATIAL_MODULI (hc : c * c = 2) (h2 : (2:K) ≠ 0)
    (D : Nat → Nat → K) (F0 F : M3 K) (L : M3 K) (s : Nat → K) (hJ : F.det ≠ 0) :
    upper (lamJ F (M3.ofMandel c [s 0, s 1, s 2, s 3, s 4, s 5]) L (M3.ofMandel c (act (Gen.N3_C_TAU_JAUMANN__ABAQUS_r c c3 fn (matOf (Gen.N3_ABAQUS__SPATIAL_MODULI_r c c3 fn D (tensv F0) (tensv F) s)) (tensv F0) (tensv F) s) (M3.mandel3 c (symm L)))))
      = upper (lamJ F (M3.ofMandel c [s 0, s 1, s 2, s 3, s 4, s 5]) L (M3.ofMandel c (act (Gen.N3_C_TAU_JAUMANN__SPATIAL_MODULI_r c c3 fn D (tensv F0) (tensv F) s) (M3.mandel3 c (symm L))))) := by
  refine (PropsN3_C_TAU_JAUMANN__ABAQUS.N3_C_TAU_JAUMANN__ABAQUS c c3 fn hc h2 (F0 := F0) ..).trans ?_
  refine (PropsN3_ABAQUS__SPATIAL_MODULI.N3_ABAQUS__SPATIAL_MODULI c c3 fn hc h2 (hJ := hJ) (F0 := F0) ..).trans ?_
  exact (PropsN3_C_TAU_JAUMANN__SPATIAL_MODULI.N3_C_TAU_JAUMANN__SPATIAL_MODULI c c3 fn hc h2 (F0 := F0) ..).symm

/-- conversions compose: `C_TAU_JAUMANN ← ABAQUS ← DTAU_DF` acts as the direct `C_TAU_JAUMANN ← DTAU_DF`, for every variation. -/
theorem N3_compose_C_TAU_JAUMANN__ABAQUS__DTAU_DF (hc : c * c = 2) (h2 : (2:K) ≠ 0)
    (D : Nat → Nat → K) (F0 F : M3 K) (l00 l11 l22 l01 l02 l12 : K) (s : Nat → K) (hJ : F.det ≠ 0) :
    upper (lamJ F (M3.ofMandel c [s 0, s 1, s 2, s 3, s 4, s 5]) (M3.sym l00 l11 l22 l01 l02 l12) (M3.ofMandel c (act (Gen.N3_C_TAU_JAUMANN__ABAQUS_r c c3 fn (matOf (Gen.N3_ABAQUS__DTAU_DF_r c c3 fn D (tensv F0) (tensv F) s)) (tensv F0) (tensv F) s) (M3.mandel3 c (symm (M3.sym l00 l11 l22 l01 l02 l12))))))
      = upper (lamJ F (M3.ofMandel c [s 0, s 1, s 2, s 3, s 4, s 5]) (M3.sym l00 l11 l22 l01 l02 l12) (M3.ofMandel c (act (Gen.N3_C_TAU_JAUMANN__DTAU_DF_r c c3 fn D (tensv F0) (tensv F) s) (M3.mandel3 c (symm (M3.sym l00 l11 l22 l01 l02 l12)))))) := by
  refine (PropsN3_C_TAU_JAUMANN__ABAQUS.N3_C_TAU_JAUMANN__ABAQUS c c3 fn hc h2 (F0 := F0) ..).trans ?_
  refine (PropsN3_ABAQUS__DTAU_DF.N3_ABAQUS__DTAU_DF c c3 fn hc h2 (hJ := hJ) (F0 := F0) ..).trans ?_
  exact (PropsN3_C_TAU_JAUMANN__DTAU_DF.N3_C_TAU_JAUMANN__DTAU_DF c c3 fn hc h2 (F0 := F0) ..).symm

/-- conversions compose: `C_TAU_JAUMANN ← SPATIAL_MODULI ← ABAQUS` acts as the direct `C_TAU_JAUMANN ← ABAQUS`, for every variation. -/
theorem N3_compose_C_TAU_JAUMANN__SPATIAL_MODULI__ABAQUS (hc : c * c = 2) (h2 : (2:K) ≠ 0)
    (D : Nat → Nat → K) (F0 F : M3 K) (L : M3 K) (s : Nat → K)  :
    upper (lamJ F (M3.ofMandel c [s 0, s 1, s 2, s 3, s 4, s 5]) L (M3.ofMandel c (act (Gen.N3_C_TAU_JAUMANN__SPATIAL_MODULI_r c c3 fn (matOf (Gen.N3_SPATIAL_MODULI__ABAQUS_r c c3 fn D (tensv F0) (tensv F) s)) (tensv F0) (tensv F) s) (M3.mandel3 c (symm L)))))
      = upper (lamJ F (M3.ofMandel c [s 0, s 1, s 2, s 3, s 4, s 5]) L (M3.ofMandel c (act (Gen.N3_C_TAU_JAUMANN__ABAQUS_r c c3 fn D (tensv F0) (tensv F) s) (M3.mandel3 c (symm L))))) := by
  refine (PropsN3_C_TAU_JAUMANN__SPATIAL_MODULI.N3_C_TAU_JAUMANN__SPATIAL_MODULI c c3 fn hc h2 (F0 := F0) ..).trans ?_
  refine (PropsN3_SPATIAL_MODULI__ABAQUS.N3_SPATIAL_MODULI__ABAQUS c c3 fn hc h2 (F0 := F0) ..).trans ?_
  exact (PropsN3_C_TAU_JAUMANN__ABAQUS.N3_C_TAU_JAUMANN__ABAQUS c c3 fn hc h2 (F0 := F0) ..).symm

/-- conversions compose: `C_TAU_JAUMANN ← SPATIAL_MODULI ← DTAU_DF` acts as the direct `C_TAU_JAUMANN ← DTAU_DF`, for every variation. -/
theorem N3_compose_C_TAU_JAUMANN__SPATIAL_MODULI__DTAU_DF (hc : c * c = 2) (h2 : (2:K) ≠ 0)
    (D : Nat → Nat → K) (F0 F : M3 K) (l00 l11 l22 l01 l02 l12 : K) (s : Nat → K)  :
    upper (lamJ F (M3.ofMandel c [s 0, s 1, s 2, s 3, s 4, s 5]) (M3.sym l00 l11 l22 l01 l02 l12) (M3.ofMandel c (act (Gen.N3_C_TAU_JAUMANN__SPATIAL_MODULI_r c c3 fn (matOf (Gen.N3_SPATIAL_MODULI__DTAU_DF_r c c3 fn D (tensv F0) (tensv F) s)) (tensv F0) (tensv F) s) (M3.mandel3 c (symm (M3.sym l00 l11 l22 l01 l02 l12))))))
      = upper (lamJ F (M3.ofMandel c [s 0, s 1, s 2, s 3, s 4, s 5]) (M3.sym l00 l11 l22 l01 l02 l12) (M3.ofMandel c (act (Gen.N3_C_TAU_JAUMANN__DTAU_DF_r c c3 fn D (tensv F0) (tensv F) s) (M3.mandel3 c (symm (M3.sym l00 l11 l22 l01 l02 l12)))))) := by
  refine (PropsN3_C_TAU_JAUMANN__SPATIAL_MODULI.N3_C_TAU_JAUMANN__SPATIAL_MODULI c c3 fn hc h2 (F0 := F0) ..).trans ?_
  refine (PropsN3Chains.N3_SPATIAL_MODULI__DTAU_DF c c3 fn hc h2 (F0 := F0) ..).trans ?_
  exact (PropsN3_C_TAU_JAUMANN__DTAU_DF.N3_C_TAU_JAUMANN__DTAU_DF c c3 fn hc h2 (F0 := F0) ..).symm

/-- conversions compose: `SPATIAL_MODULI ← C_TAU_JAUMANN ← DTAU_DF` acts as the direct `SPATIAL_MODULI ← DTAU_DF`, for every variation. -/
theorem N3_compose_SPATIAL_MODULI__C_TAU_JAUMANN__DTAU_DF (hc : c * c = 2) (h2 : (2:K) ≠ 0)
    (D : Nat → Nat → K) (F0 F : M3 K) (l00 l11 l22 l01 l02 l12 : K) (s : Nat → K)  :
    upper (lamSM F (M3.ofMandel c [s 0, s 1, s 2, s 3, s 4, s 5]) (M3.sym l00 l11 l22 l01 l02 l12) (M3.ofMandel c (act (Gen.N3_SPATIAL_MODULI__C_TAU_JAUMANN_r c c3 fn (matOf (Gen.N3_C_TAU_JAUMANN__DTAU_DF_r c c3 fn D (tensv F0) (tensv F) s)) (tensv F0) (tensv F) s) (M3.mandel3 c (symm (M3.sym l00 l11 l22 l01 l02 l12))))))
      = upper (lamSM F (M3.ofMandel c [s 0, s 1, s 2, s 3, s 4, s 5]) (M3.sym l00 l11 l22 l01 l02 l12) (M3.ofMandel c (act (Gen.N3_SPATIAL_MODULI__DTAU_DF_r c c3 fn D (tensv F0) (tensv F) s) (M3.mandel3 c (symm (M3.sym l00 l11 l22 l01 l02 l12)))))) := by
  refine (PropsN3_SPATIAL_MODULI__C_TAU_JAUMANN.N3_SPATIAL_MODULI__C_TAU_JAUMANN c c3 fn hc h2 (F0 := F0) ..).trans ?_
  refine (PropsN3_C_TAU_JAUMANN__DTAU_DF.N3_C_TAU_JAUMANN__DTAU_DF c c3 fn hc h2 (F0 := F0) ..).trans ?_
  exact (PropsN3Chains.N3_SPATIAL_MODULI__DTAU_DF c c3 fn hc h2 (F0 := F0) ..).symm

/-- conversions compose: `SPATIAL_MODULI ← C_TAU_JAUMANN ← ABAQUS` acts as the direct `SPATIAL_MODULI ← ABAQUS`, for every variation. -/
theorem N3_compose_SPATIAL_MODULI__C_TAU_JAUMANN__ABAQUS (hc : c * c = 2) (h2 : (2:K) ≠ 0)
    (D : Nat → Nat → K) (F0 F : M3 K) (L : M3 K) (s : Nat → K)  :
    upper (lamSM F (M3.ofMandel c [s 0, s 1, s 2, s 3, s 4, s 5]) L (M3.ofMandel c (act (Gen.N3_SPATIAL_MODULI__C_TAU_JAUMANN_r c c3 fn (matOf (Gen.N3_C_TAU_JAUMANN__ABAQUS_r c c3 fn D (tensv F0) (tensv F) s)) (tensv F0) (tensv F) s) (M3.mandel3 c (symm L)))))
      = upper (lamSM F (M3.ofMandel c [s 0, s 1, s 2, s 3, s 4, s 5]) L (M3.ofMandel c (act (Gen.N3_SPATIAL_MODULI__ABAQUS_r c c3 fn D (tensv F0) (tensv F) s) (M3.mandel3 c (symm L))))) := by
  refine (PropsN3_SPATIAL_MODULI__C_TAU_JAUMANN.N3_SPATIAL_MODULI__C_TAU_JAUMANN c c3 fn hc h2 (F0 := F0) ..).trans ?_
  refine (PropsN3_C_TAU_JAUMANN__ABAQUS.N3_C_TAU_JAUMANN__ABAQUS c c3 fn hc h2 (F0 := F0) ..).trans ?_
  exact (PropsN3_SPATIAL_MODULI__ABAQUS.N3_SPATIAL_MODULI__ABAQUS c c3 fn hc h2 (F0 := F0) ..).symm

/-- conversions compose: `ABAQUS ← DTAU_DF ← C_TAU_JAUMANN` acts as the direct `ABAQUS ← C_TAU_JAUMANN`, for every variation. -/
theorem N3_compose_ABAQUS__DTAU_DF__C_TAU_JAUMANN (hc : c * c = 2) (h2 : (2:K) ≠ 0)
    (D : Nat → Nat → K) (F0 F : M3 K) (l00 l11 l22 l01 l02 l12 : K) (s : Nat → K) (hJ : F.det ≠ 0) :
    upper (lamAb F (M3.ofMandel c [s 0, s 1, s 2, s 3, s 4, s 5]) (M3.sym l00 l11 l22 l01 l02 l12) (M3.ofMandel c (act (Gen.N3_ABAQUS__DTAU_DF_r c c3 fn (matOf (Gen.N3_DTAU_DF__C_TAU_JAUMANN_r c c3 fn D (tensv F0) (tensv F) s)) (tensv F0) (tensv F) s) (M3.mandel3 c (symm (M3.sym l00 l11 l22 l01 l02 l12))))))
      = upper (lamAb F (M3.ofMandel c [s 0, s 1, s 2, s 3, s 4, s 5]) (M3.sym l00 l11 l22 l01 l02 l12) (M3.ofMandel c (act (Gen.N3_ABAQUS__C_TAU_JAUMANN_r c c3 fn D (tensv F0) (tensv F) s) (M3.mandel3 c (symm (M3.sym l00 l11 l22 l01 l02 l12)))))) := by
  refine (PropsN3_ABAQUS__DTAU_DF.N3_ABAQUS__DTAU_DF c c3 fn hc h2 (hJ := hJ) (F0 := F0) ..).trans ?_
  refine (PropsN3_DTAU_DF__C_TAU_JAUMANN.N3_DTAU_DF__C_TAU_JAUMANN c c3 fn hc h2 (hJ := hJ) (F0 := F0) ..).trans ?_
  exact (PropsN3_ABAQUS__C_TAU_JAUMANN.N3_ABAQUS__C_TAU_JAUMANN c c3 fn hc h2 (hJ := hJ) (F0 := F0) ..).symm

/-- conversions compose: `ABAQUS ← DTAU_DF ← SPATIAL_MODULI` acts as the direct `ABAQUS ← SPATIAL_MODULI`, for every variation. -/
theorem N3_compose_ABAQUS__DTAU_DF__SPATIAL_MODULI (hc : c * c = 2) (h2 : (2:K) ≠ 0)
    (D : Nat → Nat → K) (F0 F : M3 K) (l00 l11 l22 l01 l02 l12 : K) (s : Nat → K) (hJ : F.det ≠ 0) :
    upper (lamAb F (M3.ofMandel c [s 0, s 1, s 2, s 3, s 4, s 5]) (M3.sym l00 l11 l22 l01 l02 l12) (M3.ofMandel c (act (Gen.N3_ABAQUS__DTAU_DF_r c c3 fn (matOf (Gen.N3_DTAU_DF__SPATIAL_MODULI_r c c3 fn D (tensv F0) (tensv F) s)) (tensv F0) (tensv F) s) (M3.mandel3 c (symm (M3.sym l00 l11 l22 l01 l02 l12))))))
      = upper (lamAb F (M3.ofMandel c [s 0, s 1, s 2, s 3, s 4, s 5]) (M3.sym l00 l11 l22 l01 l02 l12) (M3.ofMandel c (act (Gen.N3_ABAQUS__SPATIAL_MODULI_r c c3 fn D (tensv F0) (tensv F) s) (M3.mandel3 c (symm (M3.sym l00 l11 l22 l01 l02 l12)))))) := by
  refine (PropsN3_ABAQUS__DTAU_DF.N3_ABAQUS__DTAU_DF c c3 fn hc h2 (hJ := hJ) (F0 := F0) ..).trans ?_
  refine (PropsN3Chains.N3_DTAU_DF__SPATIAL_MODULI c c3 fn hc h2 (hJ := hJ) (F0 := F0) ..).trans ?_
  exact (PropsN3_ABAQUS__SPATIAL_MODULI.N3_ABAQUS__SPATIAL_MODULI c c3 fn hc h2 (hJ := hJ) (F0 := F0) ..).symm

/-- conversions compose: `DTAU_DF ← C_TAU_JAUMANN ← ABAQUS` acts as the direct `DTAU_DF ← ABAQUS`, for every variation. -/
theorem N3_compose_DTAU_DF__C_TAU_JAUMANN__ABAQUS (hc : c * c = 2) (h2 : (2:K) ≠ 0)
    (D : Nat → Nat → K) (F0 F : M3 K) (L : M3 K) (s : Nat → K) (hJ : F.det ≠ 0) :
    upper (lamTau F (M3.ofMandel c [s 0, s 1, s 2, s 3, s 4, s 5]) L (M3.ofMandel c (act (Gen.N3_DTAU_DF__C_TAU_JAUMANN_r c c3 fn (matOf (Gen.N3_C_TAU_JAUMANN__ABAQUS_r c c3 fn D (tensv F0) (tensv F) s)) (tensv F0) (tensv F) s) (M3.tens3 (L * F)))))
      = upper (lamTau F (M3.ofMandel c [s 0, s 1, s 2, s 3, s 4, s 5]) L (M3.ofMandel c (act (Gen.N3_DTAU_DF__ABAQUS_r c c3 fn D (tensv F0) (tensv F) s) (M3.tens3 (L * F))))) := by
  refine (PropsN3_DTAU_DF__C_TAU_JAUMANN.N3_DTAU_DF__C_TAU_JAUMANN c c3 fn hc h2 (hJ := hJ) (F0 := F0) ..).trans ?_
  refine (PropsN3_C_TAU_JAUMANN__ABAQUS.N3_C_TAU_JAUMANN__ABAQUS c c3 fn hc h2 (F0 := F0) ..).trans ?_
  exact (PropsN3_DTAU_DF__ABAQUS.N3_DTAU_DF__ABAQUS c c3 fn hc h2 (hJ := hJ) (F0 := F0) ..).symm

/-- conversions compose: `DTAU_DF ← C_TAU_JAUMANN ← SPATIAL_MODULI` acts as the direct `DTAU_DF ← SPATIAL_MODULI`, for every variation. -/
theorem N3_compose_DTAU_DF__C_TAU_JAUMANN__SPATIAL_MODULI (hc : c * c = 2) (h2 : (2:K) ≠ 0)
    (D : Nat → Nat → K) (F0 F : M3 K) (L : M3 K) (s : Nat → K) (hJ : F.det ≠ 0) :
    upper (lamTau F (M3.ofMandel c [s 0, s 1, s 2, s 3, s 4, s 5]) L (M3.ofMandel c (act (Gen.N3_DTAU_DF__C_TAU_JAUMANN_r c c3 fn (matOf (Gen.N3_C_TAU_JAUMANN__SPATIAL_MODULI_r c c3 fn D (tensv F0) (tensv F) s)) (tensv F0) (tensv F) s) (M3.tens3 (L * F)))))
      = upper (lamTau F (M3.ofMandel c [s 0, s 1, s 2, s 3, s 4, s 5]) L (M3.ofMandel c (act (Gen.N3_DTAU_DF__SPATIAL_MODULI_r c c3 fn D (tensv F0) (tensv F) s) (M3.tens3 (L * F))))) := by
  refine (PropsN3_DTAU_DF__C_TAU_JAUMANN.N3_DTAU_DF__C_TAU_JAUMANN c c3 fn hc h2 (hJ := hJ) (F0 := F0) ..).trans ?_
  refine (PropsN3_C_TAU_JAUMANN__SPATIAL_MODULI.N3_C_TAU_JAUMANN__SPATIAL_MODULI c c3 fn hc h2 (F0 := F0) ..).trans ?_
  exact (PropsN3Chains.N3_DTAU_DF__SPATIAL_MODULI c c3 fn hc h2 (hJ := hJ) (F0 := F0) ..).symm

/-- conversions compose: `DTAU_DF ← ABAQUS ← SPATIAL_MODULI` acts as the direct `DTAU_DF ← SPATIAL_MODULI`, for every variation. -/
theorem N3_compose_DTAU_DF__ABAQUS__SPATIAL_MODULI (hc : c * c = 2) (h2 : (2:K) ≠ 0)
    (D : Nat → Nat → K) (F0 F : M3 K) (L : M3 K) (s : Nat → K) (hJ : F.det ≠ 0) :
    upper (lamTau F (M3.ofMandel c [s 0, s 1, s 2, s 3, s 4, s 5]) L (M3.ofMandel c (act (Gen.N3_DTAU_DF__ABAQUS_r c c3 fn (matOf (Gen.N3_ABAQUS__SPATIAL_MODULI_r c c3 fn D (tensv F0) (tensv F) s)) (tensv F0) (tensv F) s) (M3.tens3 (L * F)))))
      = upper (lamTau F (M3.ofMandel c [s 0, s 1, s 2, s 3, s 4, s 5]) L (M3.ofMandel c (act (Gen.N3_DTAU_DF__SPATIAL_MODULI_r c c3 fn D (tensv F0) (tensv F) s) (M3.tens3 (L * F))))) := by
  refine (PropsN3_DTAU_DF__ABAQUS.N3_DTAU_DF__ABAQUS c c3 fn hc h2 (hJ := hJ) (F0 := F0) ..).trans ?_
  refine (PropsN3_ABAQUS__SPATIAL_MODULI.N3_ABAQUS__SPATIAL_MODULI c c3 fn hc h2 (hJ := hJ) (F0 := F0) ..).trans ?_
  exact (PropsN3Chains.N3_DTAU_DF__SPATIAL_MODULI c c3 fn hc h2 (hJ := hJ) (F0 := F0) ..).symm

/-- conversions compose: `DTAU_DF ← ABAQUS ← C_TAU_JAUMANN` acts as the direct `DTAU_DF ← C_TAU_JAUMANN`, for every variation. -/
theorem N3_compose_DTAU_DF__ABAQUS__C_TAU_JAUMANN (hc : c * c = 2) (h2 : (2:K) ≠ 0)
    (D : Nat → Nat → K) (F0 F : M3 K) (L : M3 K) (s : Nat → K) (hJ : F.det ≠ 0) :
    upper (lamTau F (M3.ofMandel c [s 0, s 1, s 2, s 3, s 4, s 5]) L (M3.ofMandel c (act (Gen.N3_DTAU_DF__ABAQUS_r c c3 fn (matOf (Gen.N3_ABAQUS__C_TAU_JAUMANN_r c c3 fn D (tensv F0) (tensv F) s)) (tensv F0) (tensv F) s) (M3.tens3 (L * F)))))
      = upper (lamTau F (M3.ofMandel c [s 0, s 1, s 2, s 3, s 4, s 5]) L (M3.ofMandel c (act (Gen.N3_DTAU_DF__C_TAU_JAUMANN_r c c3 fn D (tensv F0) (tensv F) s) (M3.tens3 (L * F))))) := by
  refine (PropsN3_DTAU_DF__ABAQUS.N3_DTAU_DF__ABAQUS c c3 fn hc h2 (hJ := hJ) (F0 := F0) ..).trans ?_
  refine (PropsN3_ABAQUS__C_TAU_JAUMANN.N3_ABAQUS__C_TAU_JAUMANN c c3 fn hc h2 (hJ := hJ) (F0 := F0) ..).trans ?_
  exact (PropsN3_DTAU_DF__C_TAU_JAUMANN.N3_DTAU_DF__C_TAU_JAUMANN c c3 fn hc h2 (hJ := hJ) (F0 := F0) ..).symm

/-- conversions compose: `DTAU_DF ← SPATIAL_MODULI ← ABAQUS` acts as the direct `DTAU_DF ← ABAQUS`, for every variation. -/
theorem N3_compose_DTAU_DF__SPATIAL_MODULI__ABAQUS (hc : c * c = 2) (h2 : (2:K) ≠ 0)
    (D : Nat → Nat → K) (F0 F : M3 K) (L : M3 K) (s : Nat → K) (hJ : F.det ≠ 0) :
    upper (lamTau F (M3.ofMandel c [s 0, s 1, s 2, s 3, s 4, s 5]) L (M3.ofMandel c (act (Gen.N3_DTAU_DF__SPATIAL_MODULI_r c c3 fn (matOf (Gen.N3_SPATIAL_MODULI__ABAQUS_r c c3 fn D (tensv F0) (tensv F) s)) (tensv F0) (tensv F) s) (M3.tens3 (L * F)))))
      = upper (lamTau F (M3.ofMandel c [s 0, s 1, s 2, s 3, s 4, s 5]) L (M3.ofMandel c (act (Gen.N3_DTAU_DF__ABAQUS_r c c3 fn D (tensv F0) (tensv F) s) (M3.tens3 (L * F))))) := by
  refine (PropsN3Chains.N3_DTAU_DF__SPATIAL_MODULI c c3 fn hc h2 (hJ := hJ) (F0 := F0) ..).trans ?_
  refine (PropsN3_SPATIAL_MODULI__ABAQUS.N3_SPATIAL_MODULI__ABAQUS c c3 fn hc h2 (F0 := F0) ..).trans ?_
  exact (PropsN3_DTAU_DF__ABAQUS.N3_DTAU_DF__ABAQUS c c3 fn hc h2 (hJ := hJ) (F0 := F0) ..).symm

/-- conversions compose: `DTAU_DF ← SPATIAL_MODULI ← C_TAU_JAUMANN` acts as the direct `DTAU_DF ← C_TAU_JAUMANN`, for every variation. -/
theorem N3_compose_DTAU_DF__SPATIAL_MODULI__C_TAU_JAUMANN (hc : c * c = 2) (h2 : (2:K) ≠ 0)
    (D : Nat → Nat → K) (F0 F : M3 K) (L : M3 K) (s : Nat → K) (hJ : F.det ≠ 0) :
    upper (lamTau F (M3.ofMandel c [s 0, s 1, s 2, s 3, s 4, s 5]) L (M3.ofMandel c (act (Gen.N3_DTAU_DF__SPATIAL_MODULI_r c c3 fn (matOf (Gen.N3_SPATIAL_MODULI__C_TAU_JAUMANN_r c c3 fn D (tensv F0) (tensv F) s)) (tensv F0) (tensv F) s) (M3.tens3 (L * F)))))
      = upper (lamTau F (M3.ofMandel c [s 0, s 1, s 2, s 3, s 4, s 5]) L (M3.ofMandel c (act (Gen.N3_DTAU_DF__C_TAU_JAUMANN_r c c3 fn D (tensv F0) (tensv F) s) (M3.tens3 (L * F))))) := by
  refine (PropsN3Chains.N3_DTAU_DF__SPATIAL_MODULI c c3 fn hc h2 (hJ := hJ) (F0 := F0) ..).trans ?_
  refine (PropsN3_SPATIAL_MODULI__C_TAU_JAUMANN.N3_SPATIAL_MODULI__C_TAU_JAUMANN c c3 fn hc h2 (F0 := F0) ..).trans ?_
  exact (PropsN3_DTAU_DF__C_TAU_JAUMANN.N3_DTAU_DF__C_TAU_JAUMANN c c3 fn hc h2 (hJ := hJ) (F0 := F0) ..).symm

/-- conversions compose: `DSIG_DF ← ABAQUS ← DS_DEGL` acts as the direct `DSIG_DF ← DS_DEGL`, for every variation. -/
theorem N3_compose_DSIG_DF__ABAQUS__DS_DEGL (hc : c * c = 2) (h2 : (2:K) ≠ 0)
    (D : Nat → Nat → K) (F0 F : M3 K) (L : M3 K) (s : Nat → K) (hJ : F.det ≠ 0) :
    upper (lamSig F (M3.ofMandel c [s 0, s 1, s 2, s 3, s 4, s 5]) L (M3.ofMandel c (act (Gen.N3_DSIG_DF__ABAQUS_r c c3 fn (matOf (Gen.N3_ABAQUS__DS_DEGL_r c c3 fn D (tensv F0) (tensv F) s)) (tensv F0) (tensv F) s) (M3.tens3 (L * F)))))
      = upper (lamSig F (M3.ofMandel c [s 0, s 1, s 2, s 3, s 4, s 5]) L (M3.ofMandel c (act (Gen.N3_DSIG_DF__DS_DEGL_r c c3 fn D (tensv F0) (tensv F) s) (M3.tens3 (L * F))))) := by
  refine (PropsN3Chains.N3_DSIG_DF__ABAQUS c c3 fn hc h2 (hJ := hJ) (F0 := F0) ..).trans ?_
  refine (PropsN3Chains.N3_ABAQUS__DS_DEGL c c3 fn hc h2 (hJ := hJ) (F0 := F0) ..).trans ?_
  exact (PropsN3Chains.N3_DSIG_DF__DS_DEGL c c3 fn hc h2 (hJ := hJ) (F0 := F0) ..).symm

/-- conversions compose: `DSIG_DF ← ABAQUS ← DTAU_DF` acts as the direct `DSIG_DF ← DTAU_DF`, for every variation. -/
theorem N3_compose_DSIG_DF__ABAQUS__DTAU_DF (hc : c * c = 2) (h2 : (2:K) ≠ 0)
    (D : Nat → Nat → K) (F0 F : M3 K) (l00 l11 l22 l01 l02 l12 : K) (s : Nat → K) (hJ : F.det ≠ 0) :
    upper (lamSig F (M3.ofMandel c [s 0, s 1, s 2, s 3, s 4, s 5]) (M3.sym l00 l11 l22 l01 l02 l12) (M3.ofMandel c (act (Gen.N3_DSIG_DF__ABAQUS_r c c3 fn (matOf (Gen.N3_ABAQUS__DTAU_DF_r c c3 fn D (tensv F0) (tensv F) s)) (tensv F0) (tensv F) s) (M3.tens3 ((M3.sym l00 l11 l22 l01 l02 l12) * F)))))
      = upper (lamSig F (M3.ofMandel c [s 0, s 1, s 2, s 3, s 4, s 5]) (M3.sym l00 l11 l22 l01 l02 l12) (M3.ofMandel c (act (Gen.N3_DSIG_DF__DTAU_DF_r c c3 fn D (tensv F0) (tensv F) s) (M3.tens3 ((M3.sym l00 l11 l22 l01 l02 l12) * F))))) := by
  refine (PropsN3Chains.N3_DSIG_DF__ABAQUS c c3 fn hc h2 (hJ := hJ) (F0 := F0) ..).trans ?_
  refine (PropsN3_ABAQUS__DTAU_DF.N3_ABAQUS__DTAU_DF c c3 fn hc h2 (hJ := hJ) (F0 := F0) ..).trans ?_
  exact (PropsN3_DSIG_DF__DTAU_DF.N3_DSIG_DF__DTAU_DF c c3 fn hc h2 (hJ := hJ) (F0 := F0) ..).symm

end TfelVerif.C23.PropsCompose3
