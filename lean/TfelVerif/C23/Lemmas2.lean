/-
  C23 — helper lemmas, second part (symmetry of the canonical rates; used by the `DSIG_DF ← DPK1_DF` chain).
-/
import TfelVerif.Common.M3
import TfelVerif.C23.Spec
import TfelVerif.C23.Lemmas

namespace TfelVerif.C23
open TfelVerif TfelVerif.Mandel
set_option linter.all false
variable {K : Type} [Field K]

theorem lower_eq_upper {A : M3 K} (h : A.transpose = A) : lower A = upper A := by
  obtain ⟨a00,a01,a02,a10,a11,a12,a20,a21,a22⟩ := A
  simp only [M3.transpose, M3.mk.injEq] at h
  obtain ⟨-,h1,h2,-,-,h5,-,-,-⟩ := h
  simp only [lower, upper, h1, h2, h5]
theorem lamTau_symm (F L : M3 K) {S R : M3 K} (hS : S.transpose = S) (hR : R.transpose = R) :
    (lamTau F S L R).transpose = lamTau F S L R := by
  obtain ⟨s00,s01,s02,s10,s11,s12,s20,s21,s22⟩ := S
  obtain ⟨r00,r01,r02,r10,r11,r12,r20,r21,r22⟩ := R
  simp only [M3.transpose, M3.mk.injEq] at hS hR
  obtain ⟨-,hs1,hs2,-,-,hs5,-,-,-⟩ := hS
  obtain ⟨-,hr1,hr2,-,-,hr5,-,-,-⟩ := hR
  subst hs1 hs2 hs5 hr1 hr2 hr5
  m3_poly
theorem lamSig_symm (F L : M3 K) {S R : M3 K} (hS : S.transpose = S) (hR : R.transpose = R) :
    (lamSig F S L R).transpose = lamSig F S L R := by
  obtain ⟨s00,s01,s02,s10,s11,s12,s20,s21,s22⟩ := S
  obtain ⟨r00,r01,r02,r10,r11,r12,r20,r21,r22⟩ := R
  simp only [M3.transpose, M3.mk.injEq] at hS hR
  obtain ⟨-,hs1,hs2,-,-,hs5,-,-,-⟩ := hS
  obtain ⟨-,hr1,hr2,-,-,hr5,-,-,-⟩ := hR
  subst hs1 hs2 hs5 hr1 hr2 hr5
  m3_poly

end TfelVerif.C23
