/-
  C23 — tangent operator converters `tfel::material::convert<To, From>` (property theorems only).
  Converters that FiniteStrainBehaviourTangentOperator.ixx defines as a chain of other converters, N = 3: `Gen.N3_<pair>_r` is the composition of the traced parts (GenN3Chains.lean, generated after the exact structural comparison of the traced DAG of the composite with that composition), and its theorem is the composition of the parts' theorems.
  `Gen.N<d>_<TO>__<FROM>_r c c3 fn D f g s` is the stored result (list of rows) of the traced converter
  for the source operator `D` (arbitrary symbols, stored matrix), `F0` (`f`), `F1` (`g`) and the stored
  Cauchy stress `s`. The meaning of every flag (`lam*`, kinematic rates) is in Spec.lean. Each theorem
  holds for every source operator, every deformation gradient, every stress and every variation.
-/
import TfelVerif.Common.M3
import TfelVerif.C23.Spec
import TfelVerif.C23.Lemmas
import TfelVerif.C23.Lemmas2
import TfelVerif.C23.GenN3Chains
import TfelVerif.C23.PropsN3_ABAQUS__SPATIAL_MODULI
import TfelVerif.C23.PropsN3_C_TAU_JAUMANN__DTAU_DF
import TfelVerif.C23.PropsN3_C_TAU_JAUMANN__SPATIAL_MODULI
import TfelVerif.C23.PropsN3_C_TRUESDELL__SPATIAL_MODULI
import TfelVerif.C23.PropsN3_DPK1_DF__DS_DEGL_core
import TfelVerif.C23.PropsN3_DSIG_DF__DTAU_DF
import TfelVerif.C23.PropsN3_DTAU_DF__ABAQUS
import TfelVerif.C23.PropsN3_DTAU_DF__C_TAU_JAUMANN
import TfelVerif.C23.PropsN3_DTAU_DF__DPK1_DF
import TfelVerif.C23.PropsN3_DTAU_DF__DS_DF_core
import TfelVerif.C23.PropsN3_SPATIAL_MODULI__C_TAU_JAUMANN
import TfelVerif.C23.PropsN3_SPATIAL_MODULI__C_TRUESDELL
import TfelVerif.C23.PropsN3_SPATIAL_MODULI__DS_DEGL
import TfelVerif.C23.PropsStress

namespace TfelVerif.C23.PropsN3Chains
open TfelVerif TfelVerif.Mandel TfelVerif.C23
set_option linter.all false
set_option maxHeartbeats 16000000
set_option maxRecDepth 100000
variable {K : Type} [Field K] [CharZero K] (c c3 : K) (fn : Fns K)

/-- `DTAU_DF ← SPATIAL_MODULI` (3D): along every variation `δF = L F` the converted operator, applied to the
rate of its kinematic variable, gives the rate of the Kirchhoff stress that reproduces the same Lie derivative of
the Kirchhoff stress as the source operator (rate of the Lie derivative of the Kirchhoff stress) does. -/
theorem N3_DTAU_DF__SPATIAL_MODULI (hc : c * c = 2) (h2 : (2:K) ≠ 0)
    (D : Nat → Nat → K) (F0 F : M3 K) (L : M3 K) (s : Nat → K) (hJ : F.det ≠ 0) :
    upper (lamTau F (M3.ofMandel c [s 0, s 1, s 2, s 3, s 4, s 5]) L (M3.ofMandel c (act (Gen.N3_DTAU_DF__SPATIAL_MODULI_r c c3 fn D (tensv F0) (tensv F) s) (M3.tens3 (L * F)))))
      = upper (lamSM F (M3.ofMandel c [s 0, s 1, s 2, s 3, s 4, s 5]) L (M3.ofMandel c (act (rowsOf D i6 i6) (M3.mandel3 c (symm L))))) := by
  have hc0 : c ≠ 0 := c_ne_zero hc h2
  unfold Gen.N3_DTAU_DF__SPATIAL_MODULI_r
  refine (PropsN3_DTAU_DF__C_TAU_JAUMANN.N3_DTAU_DF__C_TAU_JAUMANN c c3 fn hc h2 (hJ := hJ) ..).trans ?_
  exact PropsN3_C_TAU_JAUMANN__SPATIAL_MODULI.N3_C_TAU_JAUMANN__SPATIAL_MODULI c c3 fn hc h2 ..

/-- `DS_DEGL ← SPATIAL_MODULI` (3D): along every variation `δF = L F` the converted operator, applied to the
rate of its kinematic variable, gives the rate of the second Piola–Kirchhoff stress that reproduces the same Lie derivative of
the Kirchhoff stress as the source operator (rate of the Lie derivative of the Kirchhoff stress) does. -/
theorem N3_DS_DEGL__SPATIAL_MODULI (hc : c * c = 2) (h2 : (2:K) ≠ 0)
    (D : Nat → Nat → K) (F0 F : M3 K) (L : M3 K) (s : Nat → K) (hJ : F.det ≠ 0) :
    upper (lamS F (M3.ofMandel c [s 0, s 1, s 2, s 3, s 4, s 5]) L (M3.ofMandel c (act (Gen.N3_DS_DEGL__SPATIAL_MODULI_r c c3 fn D (tensv F0) (tensv F) s) (M3.mandel3 c (dE F L)))))
      = upper (lamSM F (M3.ofMandel c [s 0, s 1, s 2, s 3, s 4, s 5]) L (M3.ofMandel c (act (rowsOf D i6 i6) (M3.mandel3 c (symm L))))) := by
  have hFG := PropsStress.N3_invert c c3 fn F hc hJ
  have T1 := PropsN3_SPATIAL_MODULI__DS_DEGL.N3_SPATIAL_MODULI__DS_DEGL c c3 fn hc h2 D F0 (vecOf (Gen.N3_invert_r c c3 fn (tensv F))) (dE F L) s
  have e : M3.ofTens [vecOf (Gen.N3_invert_r c c3 fn (tensv F)) 0, vecOf (Gen.N3_invert_r c c3 fn (tensv F)) 1, vecOf (Gen.N3_invert_r c c3 fn (tensv F)) 2, vecOf (Gen.N3_invert_r c c3 fn (tensv F)) 3, vecOf (Gen.N3_invert_r c c3 fn (tensv F)) 4, vecOf (Gen.N3_invert_r c c3 fn (tensv F)) 5, vecOf (Gen.N3_invert_r c c3 fn (tensv F)) 6, vecOf (Gen.N3_invert_r c c3 fn (tensv F)) 7, vecOf (Gen.N3_invert_r c c3 fn (tensv F)) 8] = M3.ofTens (Gen.N3_invert_r c c3 fn (tensv F)) := rfl
  rw [e, symm_of_symmetric h2 (dE_transpose F L), dE_inv h2 hFG L] at T1
  unfold lamSM lamS at T1
  unfold lamSM lamS Gen.N3_DS_DEGL__SPATIAL_MODULI_r
  have hX := eq_of_upper (ofMandel_symm c _) (conj_symm (ofMandel_symm c _)) T1
  rw [pull_back_alg hFG hX]

/-- `DSIG_DF ← DS_DEGL` (3D): along every variation `δF = L F` the converted operator, applied to the
rate of its kinematic variable, gives the rate of the Cauchy stress that reproduces the same Lie derivative of
the Kirchhoff stress as the source operator (rate of the second Piola–Kirchhoff stress) does. -/
theorem N3_DSIG_DF__DS_DEGL (hc : c * c = 2) (h2 : (2:K) ≠ 0)
    (D : Nat → Nat → K) (F0 F : M3 K) (L : M3 K) (s : Nat → K) (hJ : F.det ≠ 0) :
    upper (lamSig F (M3.ofMandel c [s 0, s 1, s 2, s 3, s 4, s 5]) L (M3.ofMandel c (act (Gen.N3_DSIG_DF__DS_DEGL_r c c3 fn D (tensv F0) (tensv F) s) (M3.tens3 (L * F)))))
      = upper (lamS F (M3.ofMandel c [s 0, s 1, s 2, s 3, s 4, s 5]) L (M3.ofMandel c (act (rowsOf D i6 i6) (M3.mandel3 c (dE F L))))) := by
  have hc0 : c ≠ 0 := c_ne_zero hc h2
  unfold Gen.N3_DSIG_DF__DS_DEGL_r
  refine (PropsN3_DSIG_DF__DTAU_DF.N3_DSIG_DF__DTAU_DF c c3 fn hc h2 (hJ := hJ) ..).trans ?_
  refine (PropsN3Chains.N3_DTAU_DF__SPATIAL_MODULI c c3 fn hc h2 (hJ := hJ) ..).trans ?_
  exact PropsN3_SPATIAL_MODULI__DS_DEGL.N3_SPATIAL_MODULI__DS_DEGL c c3 fn hc h2 ..

/-- `ABAQUS ← DS_DEGL` (3D): along every variation `δF = L F` the converted operator, applied to the
rate of its kinematic variable, gives the rate of the Jaumann rate of the Kirchhoff stress / J that reproduces the same Lie derivative of
the Kirchhoff stress as the source operator (rate of the second Piola–Kirchhoff stress) does. -/
theorem N3_ABAQUS__DS_DEGL (hc : c * c = 2) (h2 : (2:K) ≠ 0)
    (D : Nat → Nat → K) (F0 F : M3 K) (L : M3 K) (s : Nat → K) (hJ : F.det ≠ 0) :
    upper (lamAb F (M3.ofMandel c [s 0, s 1, s 2, s 3, s 4, s 5]) L (M3.ofMandel c (act (Gen.N3_ABAQUS__DS_DEGL_r c c3 fn D (tensv F0) (tensv F) s) (M3.mandel3 c (symm L)))))
      = upper (lamS F (M3.ofMandel c [s 0, s 1, s 2, s 3, s 4, s 5]) L (M3.ofMandel c (act (rowsOf D i6 i6) (M3.mandel3 c (dE F L))))) := by
  have hc0 : c ≠ 0 := c_ne_zero hc h2
  unfold Gen.N3_ABAQUS__DS_DEGL_r
  refine (PropsN3_ABAQUS__SPATIAL_MODULI.N3_ABAQUS__SPATIAL_MODULI c c3 fn hc h2 (hJ := hJ) ..).trans ?_
  exact PropsN3_SPATIAL_MODULI__DS_DEGL.N3_SPATIAL_MODULI__DS_DEGL c c3 fn hc h2 ..

/-- `DSIG_DF ← C_TRUESDELL` (3D): along every variation `δF = L F` the converted operator, applied to the
rate of its kinematic variable, gives the rate of the Cauchy stress that reproduces the same Lie derivative of
the Kirchhoff stress as the source operator (rate of the Truesdell rate of the Cauchy stress) does. -/
theorem N3_DSIG_DF__C_TRUESDELL (hc : c * c = 2) (h2 : (2:K) ≠ 0)
    (D : Nat → Nat → K) (F0 F : M3 K) (L : M3 K) (s : Nat → K) (hJ : F.det ≠ 0) :
    upper (lamSig F (M3.ofMandel c [s 0, s 1, s 2, s 3, s 4, s 5]) L (M3.ofMandel c (act (Gen.N3_DSIG_DF__C_TRUESDELL_r c c3 fn D (tensv F0) (tensv F) s) (M3.tens3 (L * F)))))
      = upper (lamTr F (M3.ofMandel c [s 0, s 1, s 2, s 3, s 4, s 5]) L (M3.ofMandel c (act (rowsOf D i6 i6) (M3.mandel3 c (symm L))))) := by
  have hc0 : c ≠ 0 := c_ne_zero hc h2
  unfold Gen.N3_DSIG_DF__C_TRUESDELL_r
  refine (PropsN3_DSIG_DF__DTAU_DF.N3_DSIG_DF__DTAU_DF c c3 fn hc h2 (hJ := hJ) ..).trans ?_
  refine (PropsN3Chains.N3_DTAU_DF__SPATIAL_MODULI c c3 fn hc h2 (hJ := hJ) ..).trans ?_
  exact PropsN3_SPATIAL_MODULI__C_TRUESDELL.N3_SPATIAL_MODULI__C_TRUESDELL c c3 fn hc h2 ..

/-- `C_TRUESDELL ← DS_DEGL` (3D): along every variation `δF = L F` the converted operator, applied to the
rate of its kinematic variable, gives the rate of the Truesdell rate of the Cauchy stress that reproduces the same Lie derivative of
the Kirchhoff stress as the source operator (rate of the second Piola–Kirchhoff stress) does. -/
theorem N3_C_TRUESDELL__DS_DEGL (hc : c * c = 2) (h2 : (2:K) ≠ 0)
    (D : Nat → Nat → K) (F0 F : M3 K) (L : M3 K) (s : Nat → K) (hJ : F.det ≠ 0) :
    upper (lamTr F (M3.ofMandel c [s 0, s 1, s 2, s 3, s 4, s 5]) L (M3.ofMandel c (act (Gen.N3_C_TRUESDELL__DS_DEGL_r c c3 fn D (tensv F0) (tensv F) s) (M3.mandel3 c (symm L)))))
      = upper (lamS F (M3.ofMandel c [s 0, s 1, s 2, s 3, s 4, s 5]) L (M3.ofMandel c (act (rowsOf D i6 i6) (M3.mandel3 c (dE F L))))) := by
  have hc0 : c ≠ 0 := c_ne_zero hc h2
  unfold Gen.N3_C_TRUESDELL__DS_DEGL_r
  refine (PropsN3_C_TRUESDELL__SPATIAL_MODULI.N3_C_TRUESDELL__SPATIAL_MODULI c c3 fn hc h2 (hJ := hJ) ..).trans ?_
  exact PropsN3_SPATIAL_MODULI__DS_DEGL.N3_SPATIAL_MODULI__DS_DEGL c c3 fn hc h2 ..

/-- `SPATIAL_MODULI ← DTAU_DF` (3D): along every variation `δF = L F` with symmetric `L` the converted operator, applied to the
rate of its kinematic variable, gives the rate of the Lie derivative of the Kirchhoff stress that reproduces the same Lie derivative of
the Kirchhoff stress as the source operator (rate of the Kirchhoff stress) does. -/
theorem N3_SPATIAL_MODULI__DTAU_DF (hc : c * c = 2) (h2 : (2:K) ≠ 0)
    (D : Nat → Nat → K) (F0 F : M3 K) (l00 l11 l22 l01 l02 l12 : K) (s : Nat → K)  :
    upper (lamSM F (M3.ofMandel c [s 0, s 1, s 2, s 3, s 4, s 5]) (M3.sym l00 l11 l22 l01 l02 l12) (M3.ofMandel c (act (Gen.N3_SPATIAL_MODULI__DTAU_DF_r c c3 fn D (tensv F0) (tensv F) s) (M3.mandel3 c (symm (M3.sym l00 l11 l22 l01 l02 l12))))))
      = upper (lamTau F (M3.ofMandel c [s 0, s 1, s 2, s 3, s 4, s 5]) (M3.sym l00 l11 l22 l01 l02 l12) (M3.ofMandel c (act (rowsOf D i6 i9) (M3.tens3 ((M3.sym l00 l11 l22 l01 l02 l12) * F))))) := by
  have hc0 : c ≠ 0 := c_ne_zero hc h2
  unfold Gen.N3_SPATIAL_MODULI__DTAU_DF_r
  refine (PropsN3_SPATIAL_MODULI__C_TAU_JAUMANN.N3_SPATIAL_MODULI__C_TAU_JAUMANN c c3 fn hc h2 ..).trans ?_
  exact PropsN3_C_TAU_JAUMANN__DTAU_DF.N3_C_TAU_JAUMANN__DTAU_DF c c3 fn hc h2 ..

/-- `C_TRUESDELL ← DTAU_DF` (3D): along every variation `δF = L F` with symmetric `L` the converted operator, applied to the
rate of its kinematic variable, gives the rate of the Truesdell rate of the Cauchy stress that reproduces the same Lie derivative of
the Kirchhoff stress as the source operator (rate of the Kirchhoff stress) does. -/
theorem N3_C_TRUESDELL__DTAU_DF (hc : c * c = 2) (h2 : (2:K) ≠ 0)
    (D : Nat → Nat → K) (F0 F : M3 K) (l00 l11 l22 l01 l02 l12 : K) (s : Nat → K) (hJ : F.det ≠ 0) :
    upper (lamTr F (M3.ofMandel c [s 0, s 1, s 2, s 3, s 4, s 5]) (M3.sym l00 l11 l22 l01 l02 l12) (M3.ofMandel c (act (Gen.N3_C_TRUESDELL__DTAU_DF_r c c3 fn D (tensv F0) (tensv F) s) (M3.mandel3 c (symm (M3.sym l00 l11 l22 l01 l02 l12))))))
      = upper (lamTau F (M3.ofMandel c [s 0, s 1, s 2, s 3, s 4, s 5]) (M3.sym l00 l11 l22 l01 l02 l12) (M3.ofMandel c (act (rowsOf D i6 i9) (M3.tens3 ((M3.sym l00 l11 l22 l01 l02 l12) * F))))) := by
  have hc0 : c ≠ 0 := c_ne_zero hc h2
  unfold Gen.N3_C_TRUESDELL__DTAU_DF_r
  refine (PropsN3_C_TRUESDELL__SPATIAL_MODULI.N3_C_TRUESDELL__SPATIAL_MODULI c c3 fn hc h2 (hJ := hJ) ..).trans ?_
  refine (PropsN3_SPATIAL_MODULI__C_TAU_JAUMANN.N3_SPATIAL_MODULI__C_TAU_JAUMANN c c3 fn hc h2 ..).trans ?_
  exact PropsN3_C_TAU_JAUMANN__DTAU_DF.N3_C_TAU_JAUMANN__DTAU_DF c c3 fn hc h2 ..

/-- `DSIG_DF ← ABAQUS` (3D): along every variation `δF = L F` the converted operator, applied to the
rate of its kinematic variable, gives the rate of the Cauchy stress that reproduces the same Lie derivative of
the Kirchhoff stress as the source operator (rate of the Jaumann rate of the Kirchhoff stress / J) does. -/
theorem N3_DSIG_DF__ABAQUS (hc : c * c = 2) (h2 : (2:K) ≠ 0)
    (D : Nat → Nat → K) (F0 F : M3 K) (L : M3 K) (s : Nat → K) (hJ : F.det ≠ 0) :
    upper (lamSig F (M3.ofMandel c [s 0, s 1, s 2, s 3, s 4, s 5]) L (M3.ofMandel c (act (Gen.N3_DSIG_DF__ABAQUS_r c c3 fn D (tensv F0) (tensv F) s) (M3.tens3 (L * F)))))
      = upper (lamAb F (M3.ofMandel c [s 0, s 1, s 2, s 3, s 4, s 5]) L (M3.ofMandel c (act (rowsOf D i6 i6) (M3.mandel3 c (symm L))))) := by
  have hc0 : c ≠ 0 := c_ne_zero hc h2
  unfold Gen.N3_DSIG_DF__ABAQUS_r
  refine (PropsN3_DSIG_DF__DTAU_DF.N3_DSIG_DF__DTAU_DF c c3 fn hc h2 (hJ := hJ) ..).trans ?_
  exact PropsN3_DTAU_DF__ABAQUS.N3_DTAU_DF__ABAQUS c c3 fn hc h2 (hJ := hJ) ..

/-- `DSIG_DF ← DPK1_DF` (3D): along every variation `δF = L F` the converted operator, applied to the
rate of its kinematic variable, gives the rate of the Cauchy stress that reproduces the same Lie derivative of
the Kirchhoff stress as the source operator (rate of the first Piola–Kirchhoff stress) does. -/
theorem N3_DSIG_DF__DPK1_DF (hc : c * c = 2) (h2 : (2:K) ≠ 0)
    (D : Nat → Nat → K) (F0 F : M3 K) (L : M3 K) (s : Nat → K) (hJ : F.det ≠ 0) :
    lower (lamSig F (M3.ofMandel c [s 0, s 1, s 2, s 3, s 4, s 5]) L (M3.ofMandel c (act (Gen.N3_DSIG_DF__DPK1_DF_r c c3 fn D (tensv F0) (tensv F) s) (M3.tens3 (L * F)))))
      = lower (lamP F (M3.ofMandel c [s 0, s 1, s 2, s 3, s 4, s 5]) L (M3.ofTens (act (rowsOf D i9 i9) (M3.tens3 (L * F))))) := by
  unfold Gen.N3_DSIG_DF__DPK1_DF_r
  rw [lower_eq_upper (lamSig_symm _ _ (ofMandel_symm c _) (ofMandel_symm c _))]
  refine (PropsN3_DSIG_DF__DTAU_DF.N3_DSIG_DF__DTAU_DF c c3 fn hc h2 (hJ := hJ) ..).trans ?_
  rw [← lower_eq_upper (lamTau_symm _ _ (ofMandel_symm c _) (ofMandel_symm c _))]
  exact PropsN3_DTAU_DF__DPK1_DF.N3_DTAU_DF__DPK1_DF c c3 fn hc h2 ..

/-- `DTAU_DF ← DS_DF` (3D): along every variation `δF = L F` the converted operator, applied to the
rate of its kinematic variable, gives the rate of the Kirchhoff stress that reproduces the same Lie derivative of
the Kirchhoff stress as the source operator (rate of the second Piola–Kirchhoff stress) does. -/
theorem N3_DTAU_DF__DS_DF (hc : c * c = 2) (h2 : (2:K) ≠ 0)
    (D : Nat → Nat → K) (F0 F : M3 K) (L : M3 K) (s : Nat → K) (hJ : F.det ≠ 0) :
    upper (lamTau F (M3.ofMandel c [s 0, s 1, s 2, s 3, s 4, s 5]) L (M3.ofMandel c (act (Gen.N3_DTAU_DF__DS_DF_r c c3 fn D (tensv F0) (tensv F) s) (M3.tens3 (L * F)))))
      = upper (lamS F (M3.ofMandel c [s 0, s 1, s 2, s 3, s 4, s 5]) L (M3.ofMandel c (act (rowsOf D i6 i9) (M3.tens3 (L * F))))) := by
  have A := PropsStress.N3_cauchy_to_pk2 c c3 fn F s hc h2 hJ
  have T := PropsN3_DTAU_DF__DS_DF_core.N3_DTAU_DF__DS_DF_core c c3 fn hc h2 D F L (vecOf (Gen.N3_cauchy_to_pk2_r c c3 fn s (tensv F)))
  have e : M3.ofMandel c [vecOf (Gen.N3_cauchy_to_pk2_r c c3 fn s (tensv F)) 0, vecOf (Gen.N3_cauchy_to_pk2_r c c3 fn s (tensv F)) 1, vecOf (Gen.N3_cauchy_to_pk2_r c c3 fn s (tensv F)) 2, vecOf (Gen.N3_cauchy_to_pk2_r c c3 fn s (tensv F)) 3, vecOf (Gen.N3_cauchy_to_pk2_r c c3 fn s (tensv F)) 4, vecOf (Gen.N3_cauchy_to_pk2_r c c3 fn s (tensv F)) 5] = M3.ofMandel c (Gen.N3_cauchy_to_pk2_r c c3 fn s (tensv F)) := rfl
  rw [e, A] at T
  unfold Gen.N3_DTAU_DF__DS_DF_r lamTau lamS kirch
  exact T

/-- `DPK1_DF ← DS_DEGL` (3D): along every variation `δF = L F` the converted operator, applied to the
rate of its kinematic variable, gives the rate of the first Piola–Kirchhoff stress that reproduces the same Lie derivative of
the Kirchhoff stress as the source operator (rate of the second Piola–Kirchhoff stress) does. -/
theorem N3_DPK1_DF__DS_DEGL (hc : c * c = 2) (h2 : (2:K) ≠ 0)
    (D : Nat → Nat → K) (F0 F : M3 K) (L : M3 K) (s : Nat → K) (hJ : F.det ≠ 0) :
    M3.tens3 (lamP F (M3.ofMandel c [s 0, s 1, s 2, s 3, s 4, s 5]) L (M3.ofTens (act (Gen.N3_DPK1_DF__DS_DEGL_r c c3 fn D (tensv F0) (tensv F) s) (M3.tens3 (L * F)))))
      = M3.tens3 (lamS F (M3.ofMandel c [s 0, s 1, s 2, s 3, s 4, s 5]) L (M3.ofMandel c (act (rowsOf D i6 i6) (M3.mandel3 c (dE F L))))) := by
  have A := PropsStress.N3_cauchy_to_pk2 c c3 fn F s hc h2 hJ
  have T := PropsN3_DPK1_DF__DS_DEGL_core.N3_DPK1_DF__DS_DEGL_core c c3 fn hc h2 D F L (vecOf (Gen.N3_cauchy_to_pk2_r c c3 fn s (tensv F)))
  have e : M3.ofMandel c [vecOf (Gen.N3_cauchy_to_pk2_r c c3 fn s (tensv F)) 0, vecOf (Gen.N3_cauchy_to_pk2_r c c3 fn s (tensv F)) 1, vecOf (Gen.N3_cauchy_to_pk2_r c c3 fn s (tensv F)) 2, vecOf (Gen.N3_cauchy_to_pk2_r c c3 fn s (tensv F)) 3, vecOf (Gen.N3_cauchy_to_pk2_r c c3 fn s (tensv F)) 4, vecOf (Gen.N3_cauchy_to_pk2_r c c3 fn s (tensv F)) 5] = M3.ofMandel c (Gen.N3_cauchy_to_pk2_r c c3 fn s (tensv F)) := rfl
  rw [e, A] at T
  unfold Gen.N3_DPK1_DF__DS_DEGL_r lamP lamS kirch
  exact T

end TfelVerif.C23.PropsN3Chains
