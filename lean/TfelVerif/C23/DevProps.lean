import TfelVerif.Common.M3
import TfelVerif.C23.Spec
import TfelVerif.C23.GenDev
namespace TfelVerif.C23.Dev
open TfelVerif TfelVerif.Mandel TfelVerif.C23
set_option linter.unusedVariables false
variable {K : Type} [Field K] (c c3 : K) (fn : Fns K)

macro "c23_unfold" loc:(Lean.Parser.Tactic.location)? : tactic =>
  `(tactic| simp only [gen_simp, tensv, mandv, dot, act, rowsOf, i3, i4, i5, i6, i9, List.map, plane, dg,
      symm, dE, dC, kirch, lamS, lamSM, lamTr, lamJ, lamAb, lamTau, lamSig, lamP,
      M3.mandel3, M3.mandel2, M3.mandel1, M3.ofMandel, M3.tens3, M3.tens2, M3.tens1,
      M3.ofTens, M3.sym, M3.diag, M3.mul_def, M3.mul, M3.one_def, M3.one, M3.add_def, M3.add, M3.sub_def, M3.sub,
      M3.smul_def, M3.smul, M3.transpose, M3.outer, M3.trace, M3.det, M3.frob, M3.mk.injEq,
      List.cons.injEq, and_true, true_and] $[$loc]?)

theorem N3_det (F : M3 K) : Gen.N3_det_r c c3 fn (tensv F) = F.det := by
  obtain ⟨f00,f01,f02,f10,f11,f12,f20,f21,f22⟩ := F
  c23_unfold
  ring

theorem N3_pk1 (hc : c * c = 2) (h2 : (2:K) ≠ 0) (F : M3 K) (a00 a11 a22 a01 a02 a12 : K) :
    M3.ofTens (Gen.N3_cauchy_to_pk1_r c c3 fn (mandv c (M3.sym a00 a11 a22 a01 a02 a12)) (tensv F)) * F.transpose
      = F.det • M3.sym a00 a11 a22 a01 a02 a12 := by
  obtain ⟨f00,f01,f02,f10,f11,f12,f20,f21,f22⟩ := F
  c23_unfold
  repeat' apply And.intro
  all_goals mandel_ring hc

set_option maxHeartbeats 1000000 in
theorem N3_DSIG_DF__DTAU_DF (hc : c * c = 2) (h2 : (2:K) ≠ 0) (D : Nat → Nat → K) (F0 F L : M3 K)
    (a00 a11 a22 a01 a02 a12 : K) (hJ : F.det ≠ 0) :
    lamSig F (M3.sym a00 a11 a22 a01 a02 a12) L (M3.ofMandel c (act (Gen.N3_DSIG_DF__DTAU_DF_r c c3 fn D (tensv F0) (tensv F) (mandv c (M3.sym a00 a11 a22 a01 a02 a12))) (M3.tens3 (L * F))))
    = lamTau F (M3.sym a00 a11 a22 a01 a02 a12) L (M3.ofMandel c (act (rowsOf D i6 i9) (M3.tens3 (L * F)))) := by
  have hc0 : c ≠ 0 := c_ne_zero hc h2
  have hd : Gen.N3_DSIG_DF__DTAU_DF_den0 c c3 fn D (tensv F0) (tensv F) (mandv c (M3.sym a00 a11 a22 a01 a02 a12)) ≠ 0 := by
    have : Gen.N3_DSIG_DF__DTAU_DF_den0 c c3 fn D (tensv F0) (tensv F) (mandv c (M3.sym a00 a11 a22 a01 a02 a12)) = F.det := by
      obtain ⟨f00,f01,f02,f10,f11,f12,f20,f21,f22⟩ := F
      c23_unfold
      ring
    rw [this]; exact hJ
  obtain ⟨f00,f01,f02,f10,f11,f12,f20,f21,f22⟩ := F
  obtain ⟨l00,l01,l02,l10,l11,l12,l20,l21,l22⟩ := L
  c23_unfold at hd
  c23_unfold
  generalize_ne hd => e he
  repeat' apply And.intro
  all_goals (field_simp; (try simp only [← he]); mandel_ring hc)
end TfelVerif.C23.Dev
