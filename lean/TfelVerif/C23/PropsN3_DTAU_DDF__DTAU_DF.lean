/-
  C23 — tangent operator converters `tfel::material::convert<To, From>` (property theorems only).
  `DTAU_DDF ← DTAU_DF`, N = 3.
  `Gen.N<d>_<TO>__<FROM>_r c c3 fn D f g s` is the stored result (list of rows) of the traced converter
  for the source operator `D` (arbitrary symbols, stored matrix), `F0` (`f`), `F1` (`g`) and the stored
  Cauchy stress `s`. The meaning of every flag (`lam*`, kinematic rates) is in Spec.lean. Each theorem
  holds for every source operator, every deformation gradient, every stress and every variation.
-/
import TfelVerif.Common.M3
import TfelVerif.C23.Spec
import TfelVerif.C23.Lemmas
import TfelVerif.C23.GenN3_DTAU_DDF__DTAU_DF

namespace TfelVerif.C23.PropsN3_DTAU_DDF__DTAU_DF
open TfelVerif TfelVerif.Mandel TfelVerif.C23
set_option linter.all false
set_option maxHeartbeats 16000000
set_option maxRecDepth 100000
variable {K : Type} [Field K] (c c3 : K) (fn : Fns K)

/-- `DTAU_DDF ← DTAU_DF` (3D): along every variation `δF = L F` the converted operator, applied to the
rate of its kinematic variable, gives the rate of the Kirchhoff stress that reproduces the same Lie derivative of
the Kirchhoff stress as the source operator (rate of the Kirchhoff stress) does. -/
theorem N3_DTAU_DDF__DTAU_DF (hc : c * c = 2) (h2 : (2:K) ≠ 0)
    (D : Nat → Nat → K) (F0 Δ : M3 K) (L : M3 K) (s : Nat → K)  :
    upper (lamTau (Δ * F0) (M3.ofMandel c [s 0, s 1, s 2, s 3, s 4, s 5]) L (M3.ofMandel c (act (Gen.N3_DTAU_DDF__DTAU_DF_r c c3 fn D (tensv F0) (tensv (Δ * F0)) s) (M3.tens3 (L * Δ)))))
      = upper (lamTau (Δ * F0) (M3.ofMandel c [s 0, s 1, s 2, s 3, s 4, s 5]) L (M3.ofMandel c (act (rowsOf D i6 i9) (M3.tens3 (L * (Δ * F0)))))) := by
  have key : (act (Gen.N3_DTAU_DDF__DTAU_DF_r c c3 fn D (tensv F0) (tensv (Δ * F0)) s) (M3.tens3 (L * Δ)))
      = (act (rowsOf D i6 i9) (M3.tens3 (L * (Δ * F0)))) := by
    have hc0 : c ≠ 0 := c_ne_zero hc h2
    obtain ⟨d00,d01,d02,d10,d11,d12,d20,d21,d22⟩ := Δ
    obtain ⟨g00,g01,g02,g10,g11,g12,g20,g21,g22⟩ := F0
    obtain ⟨l00,l01,l02,l10,l11,l12,l20,l21,l22⟩ := L
    c23_rat0c hc
  rw [key]

end TfelVerif.C23.PropsN3_DTAU_DDF__DTAU_DF
