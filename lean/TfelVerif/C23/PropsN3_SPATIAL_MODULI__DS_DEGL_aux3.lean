/-
  C23 — tangent operator converters `tfel::material::convert<To, From>` (property theorems only).
  Auxiliary component 3 of the 3D push forward (characteristic zero: numerals are handled by `ring`).
  `Gen.N<d>_<TO>__<FROM>_r c c3 fn D f g s` is the stored result (list of rows) of the traced converter
  for the source operator `D` (arbitrary symbols, stored matrix), `F0` (`f`), `F1` (`g`) and the stored
  Cauchy stress `s`. The meaning of every flag (`lam*`, kinematic rates) is in Spec.lean. Each theorem
  holds for every source operator, every deformation gradient, every stress and every variation.
-/
import TfelVerif.Common.M3
import TfelVerif.C23.Spec
import TfelVerif.C23.Lemmas
import TfelVerif.C23.GenN3_SPATIAL_MODULI__DS_DEGL

namespace TfelVerif.C23.PropsN3_SPATIAL_MODULI__DS_DEGL_aux3
open TfelVerif TfelVerif.Mandel TfelVerif.C23
set_option linter.all false
set_option maxHeartbeats 16000000
set_option maxRecDepth 100000
variable {K : Type} [Field K] [CharZero K] (c c3 : K) (fn : Fns K)

/-- component `a01` of: `push_forward(D, F) : Dm = F (D : (Fᵀ Dm F)) Fᵀ` for a symmetric `Dm` -/
theorem aux3 (hc : c * c = 2) (h2 : (2:K) ≠ 0)
    (D : Nat → Nat → K) (F0 : M3 K) (g : Nat → K) (d00 d11 d22 d01 d02 d12 : K) (s : Nat → K) :
    (M3.ofMandel c (act (Gen.N3_SPATIAL_MODULI__DS_DEGL_r c c3 fn D (tensv F0) g s) (M3.mandel3 c (M3.sym d00 d11 d22 d01 d02 d12)))).a01
      = ((M3.ofTens [g 0, g 1, g 2, g 3, g 4, g 5, g 6, g 7, g 8]) * (M3.ofMandel c (act (rowsOf D i6 i6) (M3.mandel3 c ((M3.ofTens [g 0, g 1, g 2, g 3, g 4, g 5, g 6, g 7, g 8]).transpose * (M3.sym d00 d11 d22 d01 d02 d12) * (M3.ofTens [g 0, g 1, g 2, g 3, g 4, g 5, g 6, g 7, g 8]))))) * (M3.ofTens [g 0, g 1, g 2, g 3, g 4, g 5, g 6, g 7, g 8]).transpose).a01 := by
  c23_unfold
  simp only [div_eq_mul_inv, c_inv hc h2]
  ring_nf
  (try c_powers hc)
  (try ring1)

end TfelVerif.C23.PropsN3_SPATIAL_MODULI__DS_DEGL_aux3
