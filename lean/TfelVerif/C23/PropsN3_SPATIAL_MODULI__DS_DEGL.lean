/-
  C23 — tangent operator converters `tfel::material::convert<To, From>` (property theorems only).
  `SPATIAL_MODULI ← DS_DEGL`, N = 3 (assembled from the six component modules).
  `Gen.N<d>_<TO>__<FROM>_r c c3 fn D f g s` is the stored result (list of rows) of the traced converter
  for the source operator `D` (arbitrary symbols, stored matrix), `F0` (`f`), `F1` (`g`) and the stored
  Cauchy stress `s`. The meaning of every flag (`lam*`, kinematic rates) is in Spec.lean. Each theorem
  holds for every source operator, every deformation gradient, every stress and every variation.
-/
import TfelVerif.Common.M3
import TfelVerif.C23.Spec
import TfelVerif.C23.Lemmas
import TfelVerif.C23.GenN3_SPATIAL_MODULI__DS_DEGL
import TfelVerif.C23.PropsN3_SPATIAL_MODULI__DS_DEGL_aux0
import TfelVerif.C23.PropsN3_SPATIAL_MODULI__DS_DEGL_aux1
import TfelVerif.C23.PropsN3_SPATIAL_MODULI__DS_DEGL_aux2
import TfelVerif.C23.PropsN3_SPATIAL_MODULI__DS_DEGL_aux3
import TfelVerif.C23.PropsN3_SPATIAL_MODULI__DS_DEGL_aux4
import TfelVerif.C23.PropsN3_SPATIAL_MODULI__DS_DEGL_aux5

namespace TfelVerif.C23.PropsN3_SPATIAL_MODULI__DS_DEGL
open TfelVerif TfelVerif.Mandel TfelVerif.C23
set_option linter.all false
set_option maxHeartbeats 16000000
set_option maxRecDepth 100000
variable {K : Type} [Field K] [CharZero K] (c c3 : K) (fn : Fns K)

/-- `SPATIAL_MODULI ← DS_DEGL` (3D): along every variation `δF = L F` the converted operator, applied to the
rate of its kinematic variable, gives the rate of the Lie derivative of the Kirchhoff stress that reproduces the same Lie derivative of
the Kirchhoff stress as the source operator (rate of the second Piola–Kirchhoff stress) does. -/
theorem N3_SPATIAL_MODULI__DS_DEGL (hc : c * c = 2) (h2 : (2:K) ≠ 0)
    (D : Nat → Nat → K) (F0 : M3 K) (g : Nat → K) (L : M3 K) (s : Nat → K)  :
    upper (lamSM (M3.ofTens [g 0, g 1, g 2, g 3, g 4, g 5, g 6, g 7, g 8]) (M3.ofMandel c [s 0, s 1, s 2, s 3, s 4, s 5]) L (M3.ofMandel c (act (Gen.N3_SPATIAL_MODULI__DS_DEGL_r c c3 fn D (tensv F0) g s) (M3.mandel3 c (symm L)))))
      = upper (lamS (M3.ofTens [g 0, g 1, g 2, g 3, g 4, g 5, g 6, g 7, g 8]) (M3.ofMandel c [s 0, s 1, s 2, s 3, s 4, s 5]) L (M3.ofMandel c (act (rowsOf D i6 i6) (M3.mandel3 c (dE (M3.ofTens [g 0, g 1, g 2, g 3, g 4, g 5, g 6, g 7, g 8]) L))))) := by
  have hs : symm L = M3.sym (symm L).a00 (symm L).a11 (symm L).a22 (symm L).a01 (symm L).a02 (symm L).a12 := by
    obtain ⟨l00,l01,l02,l10,l11,l12,l20,l21,l22⟩ := L
    c23_unfold
    refine ⟨?_, ?_, ?_⟩ <;> ring1
  unfold lamSM lamS dE
  rw [hs]
  simp only [upper, List.cons.injEq, and_true]
  exact ⟨PropsN3_SPATIAL_MODULI__DS_DEGL_aux0.aux0 c c3 fn hc h2 D F0 g _ _ _ _ _ _ s, PropsN3_SPATIAL_MODULI__DS_DEGL_aux1.aux1 c c3 fn hc h2 D F0 g _ _ _ _ _ _ s, PropsN3_SPATIAL_MODULI__DS_DEGL_aux2.aux2 c c3 fn hc h2 D F0 g _ _ _ _ _ _ s, PropsN3_SPATIAL_MODULI__DS_DEGL_aux3.aux3 c c3 fn hc h2 D F0 g _ _ _ _ _ _ s, PropsN3_SPATIAL_MODULI__DS_DEGL_aux4.aux4 c c3 fn hc h2 D F0 g _ _ _ _ _ _ s, PropsN3_SPATIAL_MODULI__DS_DEGL_aux5.aux5 c c3 fn hc h2 D F0 g _ _ _ _ _ _ s⟩

end TfelVerif.C23.PropsN3_SPATIAL_MODULI__DS_DEGL
