"""C39/C40 — the parts of Integrate.hxx that `mfront::gb::integrate<Mock>` does not reach (harness/C39/harness2.cxx):

 * every overload of `mfront::gb::exportTangentOperator` and every alternative of the
   FiniteStrainBehaviourTangentOperator overload, in 1D/2D/3D: the K buffer must receive exactly
   the storage of the operator handed over by the behaviour, nothing beyond it; the empty GenType
   must raise before anything is written;
 * `mfront::gb::executeInitializeFunction` / `mfront::gb::executePostProcessing` (the entry points
   generated next to the integration function): exhaustive scripts (policy x message buffer x
   failure/exception in the constructor, initialize(), the user method, the second constructor).
   Reference = the documented behaviour written below (`reference`); the properties' own
   predicates are evaluated on every answer of the implementation:
     C39: the policy is handed over before initialize(), -1 is returned iff a step failed, 0 otherwise,
          the pointers of the caller's data swapped for the construction are restored;
     C40: -1 returned => s1.{thermodynamic_forces, internal_state_variables, energies} untouched.
"""
import itertools

import vlib

SITE = "mfront/include/MFront/GenericBehaviour/Integrate.hxx"
KINDS = ["scalar", "tvector", "tmatrix", "t2tost2", "t2tot2", "st2tost2", "fs_t2tot2", "fs_t2tot2p", "fs_t2tost2",
         "fs_t2tost2p", "fs_st2tost2", "fs_st2tost2p", "fs_empty"]
SIZES = {"scalar": (1, 1, 1), "tvector": (1, 2, 3), "tmatrix": (1, 4, 9), "t2tost2": (9, 20, 54), "t2tot2": (9, 25, 81),
         "st2tost2": (9, 16, 36)}
THROWS = "tuL"
S1 = {"tf", "isv", "se", "de"}


def requests():
    reqs = [("exp", k, n) for k in KINDS for n in (1, 2, 3)]
    for pol, mb, ctor, init, fn in itertools.product("SWN", (0, 1), "ot", "oftuL", "otuL"):
        reqs.append(("ini", pol, mb, ctor, init, fn))
    for pol, mb, ctor, init, fn, c2 in itertools.product("SWN", (0, 1), "ot", "oftuL", "otuL", "ot"):
        reqs.append(("pp", pol, mb, ctor, init, fn, c2))
    return reqs


def line(r):
    return " ".join(str(x) for x in r)


def thrown_msg(act, stage, mb):
    if not mb:
        return "nobuf"
    return {"t": stage, "u": "unknown_exception", "L": "long511"}[act]


def reference(r):
    """the documented answer; None fields are not judged"""
    if r[0] == "exp":
        kind, n = r[1], r[2]
        if kind == "fs_empty":
            return "exp=raised"
        base = kind[3:].rstrip("p") if kind.startswith("fs_") else kind
        return "exp=ok:%d" % SIZES[base][n - 1]
    post = r[0] == "pp"
    pol, mb, ctor, init, fn = r[1:6]
    c2 = r[6] if post else "o"
    first = "ctor1:s1(g1,mp1,esv1),s0(tf1,isv*)" if post else "ctor1:s1(g0,mp0,esv0),s0(tf0,isv0)"
    ev = [first]

    def out(ret, wr, msg, ptr="restored"):
        return {"ret": ret, "ev": ev, "wr": wr, "msg": msg, "ptr": ptr, "vals": "ok"}
    if ctor in THROWS:
        return out(-1, set(), thrown_msg(ctor, "ctor", mb), None)
    ev.append("pol=" + pol)
    if post:
        ev.append("upd")
    ev.append("init")
    if init == "f":
        return out(-1, set(), "behaviour_initialisation_failed" if mb else "nobuf")
    if init in THROWS:
        return out(-1, set(), thrown_msg(init, "init", mb))
    if post:
        ev.append("ctor2:s1(g1,mp1,esv1),s0(tf0,isv0)")
        if c2 in THROWS:
            return out(-1, set(), thrown_msg(c2, "ctor", mb))
        ev.append("pp(values,initial_state=ctor2)")
    else:
        ev.append("fn(values)")
    if fn in THROWS:
        return out(-1, set(), thrown_msg(fn, "fn", mb))
    if not post:
        ev.append("exp")
    return out(0, {"values"} if post else {"tf", "isv"}, "-" if mb else "nobuf")


def parse(ans):
    kv = {}
    f = ans.split()
    for t in f:
        if "=" in t:
            k, v = t.split("=", 1)
            kv[k] = v
    try:
        return {"ret": int(kv["ret"]), "ev": kv["ev"].split(";"), "wr": set() if kv["wr"] == "-" else set(kv["wr"].split(",")),
                "msg": kv["msg"], "ptr": kv["ptr"], "vals": kv["vals"], "extra": [t for t in f if "=" not in t]}
    except (KeyError, ValueError):
        return None


def mask(ev, post):
    # the post-processing entry point shows the first constructor the thermodynamic forces of s1 through s0;
    # which internal state variables it shows is not part of C39/C40: not judged
    if post and ev and ev[0].startswith("ctor1:"):
        return [ev[0].replace("isv0)", "isv*)").replace("isv1)", "isv*)")] + ev[1:]
    return ev


def judge(r, ans):
    """list of (property, key, text, found) for one answer of the implementation"""
    ref = reference(r)
    if r[0] == "exp":
        if ans == ref:
            return []
        return [("C39", "exportTangentOperator:%s" % r[1],
                 "exportTangentOperator(%s, N=%d): %s, expected %s (the K buffer must receive the operator of the behaviour, "
                 "component by component)" % (r[1], r[2], ans, ref), True)]
    fn = "executePostProcessing" if r[0] == "pp" else "executeInitializeFunction"
    a = parse(ans)
    if a is None or a["extra"]:
        return [("C39", fn + ":malformed-answer", "unparsable answer or escaped exception: %s" % ans[:200], True)]
    post = r[0] == "pp"
    a["ev"] = mask(a["ev"], post)
    out = []
    if a["ret"] == -1 and a["wr"] & S1:
        out.append(("C40", fn + ":s1-written-on-failure",
                    "%s: -1 returned with s1.{%s} overwritten (script %s)" % (fn, ",".join(sorted(a["wr"] & S1)), line(r)), True))
    pol = "pol=" + r[1]
    if "init" in a["ev"] and (pol not in a["ev"] or a["ev"].index(pol) > a["ev"].index("init")):
        out.append(("C39", fn + ":policy-not-passed", "%s: the policy %s is not given to the behaviour before initialize(): %s"
                    % (fn, r[1], a["ev"]), True))
    if a["ret"] != ref["ret"]:
        out.append(("C39", fn + ":return-value", "%s: %d returned, %d expected (script %s)" % (fn, a["ret"], ref["ret"], line(r)), True))
    if ref["ptr"] is not None and a["ptr"] != "restored":
        out.append(("C39", fn + ":pointers-not-restored",
                    "%s: after the call the caller's mfront_gb_BehaviourData has %s changed (swapped for the construction of the "
                    "behaviour and not restored)" % (fn, a["ptr"]), True))
    if a["vals"] != "ok":
        out.append(("C39", fn + ":wrong-values", "%s: %s" % (fn, a["vals"]), True))
    if not out:
        same = (a["ev"] == ref["ev"] and a["wr"] == ref["wr"] and a["msg"] == ref["msg"])
        if not same:
            if a["ret"] == 0 and a["wr"] != ref["wr"]:
                out.append(("C39", fn + ":outputs", "%s: success with outputs %s written, %s expected" % (fn, sorted(a["wr"]), sorted(ref["wr"])), True))
            else:
                out.append(("C39", "corr:" + fn, "%s: answer `%s` differs from the reference %s" % (fn, ans, ref), False))
    return out


def build(ck):
    return ck.cxx("c39h2", ["C39/harness2.cxx", vlib.REPO + "/src/Material/MaterialException.cxx",
                            vlib.REPO + "/src/Exception/TFELException.cxx", vlib.REPO + "/src/Utilities/GenTypeCastError.cxx"],
                  includes=[vlib.REPO + "/mfront/include"],
                  flags=["-fsanitize=address,undefined", "-fno-sanitize-recover=all", "-Wno-attributes"])


def run(ck, binary, prop, reported):
    """runs the second harness, reports the violations of `prop`; returns (evaluations, failures, histogram)"""
    reqs = requests()
    p = ck.run([binary], input="".join(line(r) + "\n" for r in reqs), timeout=900)
    answers = p.stdout.splitlines()
    if p.returncode != 0 or len(answers) != len(reqs):
        ck.violation("harness-crash:harness2", "harness/C39/harness2.cxx aborted (sanitizer report or crash)",
                     {"stderr": p.stderr[-3000:], "answers_before_crash": len(answers)}, False)
    failing = 0
    hist = {}
    for i, r in enumerate(reqs):
        a = answers[i] if i < len(answers) else "missing"
        hist[r[0]] = hist.get(r[0], 0) + 1
        for (pr, key, what, found) in judge(r, a):
            if pr != prop and not key.startswith("corr:"):
                continue
            failing += 1
            if key in reported:
                continue
            reported.add(key)
            ck.violation(key, "%s: %s" % (SITE, what),
                         {"site": SITE, "request": line(r), "implementation": a, "reference": str(reference(r)),
                          "how_to_replay": "echo '<request>' | work/%s/c39h2   (harness/C39/harness2.cxx, built from the current tree)" % prop},
                         found)
    return len(reqs), failing, hist
