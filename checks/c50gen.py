"""C50 — T2/T3 generators: the field lists of mtest::{CurrentState, StructureCurrentState, StudyCurrentState}
are read from the headers of the current tree, the bodies of their `update` / `revert` functions are
translated from the sources (a tiny statement subset; anything else makes the translator fail loudly).
Outputs: a Lean module (state records + update/revert + views) and a C++ header (field visitors)."""
import os
import re

import vlib


class TranslationError(vlib.BuildError):
    def __init__(self, what):
        super().__init__(what, "")


def strip_comments(txt):
    txt = re.sub(r"/\*.*?\*/", " ", txt, flags=re.S)
    txt = re.sub(r"//[^\n]*", " ", txt)
    return txt


def struct_body(txt, name):
    m = re.search(r"struct\s+(?:\w+\s+)?%s\s*(?:final\s*)?(?::[^{]*)?\{" % re.escape(name), txt)
    if not m:
        raise TranslationError("struct %s not found in its header" % name)
    i = m.end()
    depth = 1
    j = i
    while j < len(txt) and depth:
        if txt[j] == "{":
            depth += 1
        elif txt[j] == "}":
            depth -= 1
        j += 1
    return txt[i:j - 1]


def data_members(header, name):
    """[(type, name)] of the non-static data members of struct `name`, in declaration order"""
    txt = strip_comments(open(header).read())
    body = struct_body(txt, name)
    # drop nested brace blocks (enum bodies, inline function bodies)
    out = []
    depth = 0
    for ch in body:
        if ch == "{":
            depth += 1
            continue
        if ch == "}":
            depth -= 1
            out.append(" ")
            continue
        if depth == 0:
            out.append(ch)
    flat = "".join(out)
    flat = re.sub(r"\b(public|protected|private)\s*:", ";", flat)
    members = []
    for st in flat.split(";"):
        st = " ".join(st.split())
        if not st:
            continue
        if "(" in st.split("=")[0]:
            continue          # function / constructor declaration
        if re.match(r"(using|typedef|friend|enum|static|template|struct|class)\b", st):
            continue
        st = re.sub(r"^mutable\s+", "", st)
        decl = st.split("=")[0].strip()
        m = re.match(r"(.+?)\s*\b(\w+)$", decl)
        if not m:
            raise TranslationError("cannot parse the member declaration '%s' of %s" % (st, name))
        members.append((m.group(1).strip(), m.group(2)))
    return members


def function_body(txt, signature_re):
    m = re.search(signature_re + r"\s*\{", txt)
    if not m:
        raise TranslationError("function matching /%s/ not found" % signature_re)
    i = m.end()
    depth = 1
    j = i
    while j < len(txt) and depth:
        if txt[j] == "{":
            depth += 1
        elif txt[j] == "}":
            depth -= 1
        j += 1
    return " ".join(txt[i:j - 1].split())


def split_statements(body):
    """top-level statements; a for loop with its block is one statement"""
    sts = []
    i = 0
    cur = ""
    depth = 0
    while i < len(body):
        ch = body[i]
        cur += ch
        if ch == "{":
            depth += 1
        elif ch == "}":
            depth -= 1
            if depth == 0:
                sts.append(cur.strip())
                cur = ""
        elif ch == ";" and depth == 0:
            sts.append(cur.strip())
            cur = ""
        i += 1
    if cur.strip():
        raise TranslationError("dangling text '%s'" % cur.strip())
    return [s for s in sts if s and s != ";"]


def translate_assignments(body, obj, params=()):
    """statements `obj.f = obj.g;` (or `this->f = this->g;`, or `this->f = <param>;`) and the known loops.
    returns a list of ops: ('assign', f, g) | ('param', f, p) | ('map', container, fn)"""
    ops = []
    for st in split_statements(body):
        m = re.fullmatch(r"%s(\w+) = %s(\w+);" % (obj, obj), st)
        if m:
            ops.append(("assign", m.group(1), m.group(2)))
            continue
        m = re.fullmatch(r"%s(\w+) = (\w+);" % obj, st)
        if m and m.group(2) in params:
            ops.append(("param", m.group(1), m.group(2)))
            continue
        m = re.fullmatch(r"for \(auto& p : this->s\) \{ auto& ss = \*\(p\.second\); mtest::(update|revert)\(ss\); \}", st)
        if m:
            ops.append(("map", "s", m.group(1)))
            continue
        m = re.fullmatch(r"for \(auto& s : this->model_states\) \{ mtest::(update|revert)\(\*\(s\.second\)\); \}", st)
        if m:
            ops.append(("map", "model_states", m.group(1)))
            continue
        m = re.fullmatch(r"for \(auto& ls : this->istates\) \{ mtest::(update|revert)\(ls\); \}", st)
        if m:
            ops.append(("map", "istates", m.group(1)))
            continue
        raise TranslationError("statement outside the translated subset: '%s'" % st)
    return ops


def read_members(repo):
    """the data members only (what the harness visitors need), when the bodies cannot be translated"""
    inc = os.path.join(repo, "mtest", "include", "MTest")
    return {"CS": data_members(os.path.join(inc, "CurrentState.hxx"), "CurrentState"),
            "SCS": data_members(os.path.join(inc, "StructureCurrentState.hxx"), "StructureCurrentState"),
            "Study": data_members(os.path.join(inc, "StudyCurrentState.hxx"), "StudyCurrentState")}


def read_sources(repo):
    inc = os.path.join(repo, "mtest", "include", "MTest")
    src = os.path.join(repo, "mtest", "src")
    cs = data_members(os.path.join(inc, "CurrentState.hxx"), "CurrentState")
    scs = data_members(os.path.join(inc, "StructureCurrentState.hxx"), "StructureCurrentState")
    st = data_members(os.path.join(inc, "StudyCurrentState.hxx"), "StudyCurrentState")
    tcs = strip_comments(open(os.path.join(src, "CurrentState.cxx")).read())
    tscs = strip_comments(open(os.path.join(src, "StructureCurrentState.cxx")).read())
    tst = strip_comments(open(os.path.join(src, "StudyCurrentState.cxx")).read())
    fns = {
        "CS.update": translate_assignments(function_body(tcs, r"void update\(CurrentState& s\)"), r"s\."),
        "CS.revert": translate_assignments(function_body(tcs, r"void revert\(CurrentState& s\)"), r"s\."),
        "SCS.update": translate_assignments(function_body(tscs, r"void StructureCurrentState::update\(\)"), r"this->"),
        "SCS.revert": translate_assignments(function_body(tscs, r"void StructureCurrentState::revert\(\)"), r"this->"),
        "Study.update": translate_assignments(function_body(tst, r"void StudyCurrentState::update\(const real dt\)"), r"this->", ("dt",)),
        "Study.revert": translate_assignments(function_body(tst, r"void StudyCurrentState::revert\(\)"), r"this->"),
    }
    # the free functions on structures must just forward
    for fn in ("update", "revert"):
        b = function_body(tscs, r"void %s\(StructureCurrentState& s\)" % fn)
        if b != "s.%s();" % fn:
            raise TranslationError("mtest::%s(StructureCurrentState&) is not a plain forward: '%s'" % (fn, b))
    return {"CS": cs, "SCS": scs, "Study": st, "fns": fns, "iterate_writes": iterate_writes(repo)}


def iterate_writes(repo):
    """fields of the study state that GenericSolver.cxx's iterate / iterate2 (one attempt) write directly:
    `++scs.f`, `++(scs.f)`, `scs.f = ...`, `scs.f op= ...`, and non-const aliases `auto& x = scs.f;`"""
    txt = strip_comments(open(os.path.join(repo, "mtest", "src", "GenericSolver.cxx")).read())
    out = []
    for fn in ("iterate2", "iterate"):
        body = function_body(txt, r"static std::pair<bool, real> %s\(StudyCurrentState& scs,[^)]*\)" % fn)
        found = set()
        found |= set(re.findall(r"(?:\+\+|--)\s*\(?\s*scs\.(\w+)", body))
        found |= set(re.findall(r"scs\.(\w+)\s*\)?\s*(?:\+\+|--)", body))
        found |= set(re.findall(r"scs\.(\w+)\s*(?:=(?!=)|\+=|-=|\*=|/=)", body))
        found |= set(re.findall(r"(?<!const )auto&\s+\w+\s*=\s*scs\.(\w+)\s*;", body))
        out += sorted(found)
    return sorted(set(out))


# ------------------------------------------------------------------ classification of the fields
# role of each field in the time stepping protocol (reading of GenericSolver.cxx / MTest.cxx /
# SingleStructureScheme.cxx / CurrentState.cxx):
#   pers   : not written by an attempt (constants, values at the beginning of the step, history)
#   end    : value at the end of the step, written by the attempts, must be reset by `revert`
#   recomp : overwritten from (t, dt, pers) by `prepare` / at each residual evaluation before being read
#   stat   : statistics / log only (never read by the computation)
#   sub    : container of sub-states
CLASSES = {
    "CS": {"behaviour": "pers", "s_1": "pers", "s0": "pers", "s1": "end", "e0": "recomp", "e1": "recomp",
           "e_th0": "recomp", "e_th1": "recomp", "mprops1": "recomp", "se0": "pers", "se1": "end", "de0": "pers",
           "de1": "end", "iv_1": "pers", "iv0": "pers", "iv1": "end", "esv0": "recomp", "desv": "recomp",
           "isRmDefined": "pers", "r": "pers", "position": "recomp", "Tref": "pers", "packaging_info": "recomp"},
    "SCS": {"istates": "sub", "b": "pers", "h": "pers", "bwks": "recomp", "model_states": "sub", "model_wks": "recomp"},
    "Study": {"u_1": "pers", "u0": "pers", "u1": "end", "u10": "stat", "period": "pers", "iterations": "stat",
              "subSteps": "stat", "dt_1": "pers", "parameters": "pers", "s": "sub", "evs": "pers",
              "failure_criterion_status": "pers"},
}


def classify(struct, name):
    """unknown (new) fields are treated as written by the attempts: `revert` must reset them"""
    return CLASSES[struct].get(name, "end")


def clean_members(ms):
    return [(t, n) for t, n in ms if n != "operator"]


def lean_module(d):
    cs = clean_members(d["CS"])
    scs = clean_members(d["SCS"])
    st = clean_members(d["Study"])
    out = []
    w = out.append
    w("/- GENERATED by checks/c50gen.py from mtest/include/MTest/{CurrentState,StructureCurrentState,StudyCurrentState}.hxx")
    w("   (field lists) and mtest/src/{CurrentState,StructureCurrentState,StudyCurrentState}.cxx (update / revert")
    w("   bodies, statement by statement, sequential semantics). Regenerated on every run: do not edit. -/")
    w("import TfelVerif.C50.Base")
    w("namespace TfelVerif.C50.Gen")
    w("open TfelVerif.C50")
    w("")

    def structure(name, members, struct, subs):
        w("structure %s (V : Type) where" % name)
        for _, n in members:
            if n in subs:
                w("  %s : List (%s V)" % (n, subs[n]))
            else:
                w("  %s : V" % n)
        w("")

    structure("CS", cs, "CS", {})
    structure("SCS", scs, "SCS", {"istates": "CS", "model_states": "CS"})
    structure("Study", st, "Study", {"s": "SCS"})

    def fn(struct, name, ops, sub, param=None):
        sig = "def %s.%s {V : Type} %s(s : %s V) : %s V :=" % (struct, name, "(dt : V) " if param else "", struct, struct)
        w(sig)
        for op in ops:
            if op[0] == "assign":
                w("  let s := { s with %s := s.%s }" % (op[1], op[2]))
            elif op[0] == "param":
                w("  let s := { s with %s := %s }" % (op[1], op[2]))
            else:
                w("  let s := { s with %s := s.%s.map %s.%s }" % (op[1], op[1], sub[op[1]], op[2]))
        w("  s")
        w("")

    fn("CS", "update", d["fns"]["CS.update"], {})
    fn("CS", "revert", d["fns"]["CS.revert"], {})
    fn("SCS", "update", d["fns"]["SCS.update"], {"istates": "CS", "model_states": "CS"})
    fn("SCS", "revert", d["fns"]["SCS.revert"], {"istates": "CS", "model_states": "CS"})
    fn("Study", "update", d["fns"]["Study.update"], {"s": "SCS"}, param=True)
    fn("Study", "revert", d["fns"]["Study.revert"], {"s": "SCS"})

    # views: the fields an attempt may read: `pers` (never written by an attempt) and `endf` (end of step)
    def view(struct, members, sub):
        for vname, classes in (("pers", ("pers",)), ("endf", ("end",))):
            items = []
            for _, n in members:
                c = classify(struct, n)
                if c in classes:
                    items.append(".leaf s.%s" % n)
                elif c == "sub":
                    items.append(".node (s.%s.map %s.%s)" % (n, sub[n], vname))
            w("/-- the `%s` fields of %s -/" % (vname, struct))
            w("def %s.%s {V : Type} (s : %s V) : Tree V :=" % (struct, vname, struct))
            w("  .node [" + ", ".join(items) + "]")
            w("")

    view("CS", cs, {})
    view("SCS", scs, {"istates": "CS", "model_states": "CS"})
    view("Study", st, {"s": "SCS"})

    # executable helpers for the driver: fields in declaration order, tagging, scribbling
    def helpers(struct, members, sub):
        w("def %s.fields {V : Type} (s : %s V) : List (String × V) :=" % (struct, struct))
        items = []
        for _, n in members:
            if classify(struct, n) == "sub":
                items.append("(s.%s.map %s.fields).flatten" % (n, sub[n]))
            else:
                items.append('[("%s", s.%s)]' % (n, n))
        w("  " + " ++ ".join(items))
        w("")
        # fill: every field gets a fresh tag; `writable` = only the fields an attempt may write
        for fname, pred in (("fill", lambda c: True), ("scribble", lambda c: c in ("end", "recomp", "stat"))):
            w("def %s.%s (s : %s Nat) (k : Nat) : %s Nat × Nat :=" % (struct, fname, struct, struct))
            for _, n in members:
                c = classify(struct, n)
                if c == "sub":
                    w("  let r := s.%s.foldl (fun (acc : List (%s Nat) × Nat) x => let y := %s.%s x acc.2; (acc.1 ++ [y.1], y.2)) ([], k)"
                      % (n, sub[n], sub[n], fname))
                    w("  let s := { s with %s := r.1 }" % n)
                    w("  let k := r.2")
                elif pred(c):
                    w("  let s := { s with %s := k }" % n)
                    w("  let k := k + 1")
            w("  (s, k)")
            w("")

    helpers("CS", cs, {})
    helpers("SCS", scs, {"istates": "CS", "model_states": "CS"})
    helpers("Study", st, {"s": "SCS"})
    w("/-- the fields of the study state no attempt may write (class `pers`) -/")
    w("def studyPersNames : List String := [%s]" % ", ".join('"%s"' % n for _, n in st if classify("Study", n) == "pers"))
    w("/-- the fields of the study state that `iterate` / `iterate2` of GenericSolver.cxx (one attempt) write directly -/")
    w("def iterateWrites : List String := [%s]" % ", ".join('"%s"' % n for n in d.get("iterate_writes", [])))
    w("")
    w("def CS.blank : CS Nat := { %s }" % ", ".join("%s := 0" % n for _, n in cs))
    w("def SCS.blank (ni nm : Nat) : SCS Nat := { %s }" % ", ".join(
        ("%s := List.replicate %s CS.blank" % (n, "ni" if n == "istates" else "nm")) if classify("SCS", n) == "sub" else "%s := 0" % n
        for _, n in scs))
    w("def Study.blank (ns ni nm : Nat) : Study Nat := { %s }" % ", ".join(
        ("%s := List.replicate ns (SCS.blank ni nm)" % n) if classify("Study", n) == "sub" else "%s := 0" % n
        for _, n in st))
    w("")
    w("end TfelVerif.C50.Gen")
    return "\n".join(out) + "\n"


FILLABLE = {"tfel::math::vector<real>": "vec", "real": "real", "unsigned int": "uint", "bool": "bool",
            "tfel::math::tmatrix<3u, 3u>": "tmat"}


def cxx_header(d):
    """visitors over the data members, in the same order as the Lean `fields`"""
    cs = clean_members(d["CS"])
    scs = clean_members(d["SCS"])
    st = clean_members(d["Study"])
    out = ["// GENERATED by checks/c50gen.py from the mtest headers of the current tree: do not edit",
           "#pragma once", "#include <string>", "namespace gen50 {",
           "struct Entry { const char* name; const char* kind; const char* cls; };"]
    out.append("template <typename S, typename F> void visit_cs(S& s, F&& f) {")
    for t, n in cs:
        out.append('  f("%s", s.%s, "%s");' % (n, n, classify("CS", n)))
    out.append("}")
    # protected / private members are not reachable from the harness: opaque (counted, never tagged)
    hidden_study = ("parameters", "evs", "failure_criterion_status")
    out.append("static const Entry study_layout[] = {")
    for t, n in st:
        c = classify("Study", n)
        kind = "sub" if n == "s" else ("opaque" if n in hidden_study else "field")
        out.append('  {"%s", "%s", "%s"},' % (n, kind, c))
    out.append("};")
    out.append("static const Entry scs_layout[] = {")
    for t, n in scs:
        c = classify("SCS", n)
        kind = "sub" if c == "sub" else "opaque"
        out.append('  {"%s", "%s", "%s"},' % (n, kind, c))
    out.append("};")
    out.append("template <typename S, typename F> void visit_study_field(S& s, const std::string& n, F&& f) {")
    for t, n in st:
        if n == "s" or n in hidden_study:
            continue
        out.append('  if (n == "%s") { f("%s", s.%s, "%s"); return; }' % (n, n, n, classify("Study", n)))
    out.append("}")
    out.append("}")
    return "\n".join(out) + "\n"


def field_kinds(d):
    """name -> how the harness carries a tag in the field (vec / real / uint / bool / tmat / opaque)"""
    kinds = {}
    for struct in ("CS", "SCS", "Study"):
        for t, n in clean_members(d[struct]):
            kinds[(struct, n)] = FILLABLE.get(t, "opaque")
    for n in ("parameters", "evs", "failure_criterion_status"):
        kinds[("Study", n)] = "opaque"
    for t, n in clean_members(d["SCS"]):
        if classify("SCS", n) != "sub":
            kinds[("SCS", n)] = "opaque"
    return kinds
