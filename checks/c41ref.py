"""Exact references for the traced units of C41..C44 (support of the failing-input search; the proofs are in Lean).

Values are emit.Q2 (a + b sqrt2, exact). Function symbols (sqrt, pow, max, ...) are evaluated by a deterministic
injective-looking hash of their exact arguments into the positive rationals: two applications agree iff their
arguments are equal as exact numbers, so a reference formula agrees with the traced DAG iff it applies the same
functions to equal arguments and combines them identically."""
import hashlib
from fractions import Fraction

import emit
from emit import Q2


def q(x):
    return x if isinstance(x, Q2) else Q2(Fraction(x))


class Fns:
    def __init__(self):
        self.calls = 0

    def __call__(self, name, args):
        self.calls += 1
        args = [q(a) for a in args]
        if name == "max" and all(a.b == 0 for a in args):
            return args[0] if args[0].a >= args[1].a else args[1]
        if name == "min" and all(a.b == 0 for a in args):
            return args[0] if args[0].a <= args[1].a else args[1]
        if name == "abs" and args[0].b == 0:
            return Q2(abs(args[0].a))
        h = hashlib.sha256((name + "|" + "|".join("%s,%s" % (a.a, a.b) for a in args)).encode()).digest()
        return Q2(Fraction(1 + int.from_bytes(h[:3], "big") % 9973, 1 + int.from_bytes(h[3:5], "big") % 97))


def k_(x, proto):
    """the constant x in the number type of `proto` (float for the double replay, Q2 for the exact search)"""
    return float(x) if isinstance(proto, float) else q(x)


def lam(E, nu):
    return nu * E / ((k_(1, E) + nu) * (k_(1, E) - k_(2, E) * nu))


def mu(E, nu):
    return E / (k_(2, E) * (k_(1, E) + nu))


def hooke(l, m, e):
    tr = e[0] + e[1] + e[2]
    return [l * tr + k_(2, l) * m * e[k] for k in range(3)] + [k_(2, l) * m * x for x in e[3:]]


def dev(e):
    tr = (e[0] + e[1] + e[2]) / k_(3, e[0])
    return [e[k] - tr for k in range(3)] + list(e[3:])


def sq(s):
    r = k_(0, s[0])
    for x in s:
        r = r + x * x
    return r


def stiff(l, m, n):
    return [(l if (i < 3 and j < 3) else k_(0, l)) + (k_(2, l) * m if i == j else k_(0, l)) for i in range(n) for j in range(n)]


class FloatFns:
    """libm semantics, for the replay at the tracer's double precision (shadow) point"""
    calls = 0

    def __call__(self, name, args):
        import math
        if name == "sqrt":
            return math.sqrt(args[0])
        if name == "pow":
            return math.pow(args[0], args[1])
        if name in ("max", "min"):
            return max(args) if name == "max" else min(args)
        if name == "abs":
            return abs(args[0])
        return getattr(math, name)(*args)


def double_replay(dump_text, unit, ref, rtol=1e-9):
    """evaluate the reference with doubles at the shadow inputs of the tracer run and compare with the shadow
    outputs (= the result of the generated code executed in double precision): list of mismatches"""
    import re
    m = re.search(r"unit %s\n(.*?)end %s\n" % (re.escape(unit.name), re.escape(unit.name)), dump_text, re.S)
    sh, env = {}, {}
    for line in m.group(1).splitlines():
        f = line.split()
        if f[0] == "n":
            sh[int(f[1])] = float(line.split(";")[1])
            if f[2] == "in":
                env[f[3]] = sh[int(f[1])]
    try:
        exp = ref(unit, env, FloatFns())
    except TypeError:
        # reference defined through the exact evaluation of the DAG (cut points): no floating point version
        return {"inputs": {k: v for k, v in env.items() if not k.startswith("g")}, "mismatches": [], "skipped": True}
    bad = []
    import re as _re
    for oname, node in unit.outs:
        # residuals of a converged iterate are dominated by cancellation: not comparable in floating point
        if oname in exp and not (unit.paths and _re.fullmatch(r"F\d+", oname)):
            a, b = sh[node], exp[oname]
            if abs(a - b) > rtol * max(abs(a), abs(b)) + 1e-300:
                bad.append({"output": oname, "generated_code_double_result": a, "reference": b})
    return {"inputs": {k: v for k, v in env.items() if not k.startswith("g")}, "mismatches": bad}


A_NORTON = Fraction(8.e-67)
EM1_NORTON = Fraction(8.2) - 1
TINY = Fraction(1.e-12)


def rnd(rng, lo=1, hi=9):
    return Q2(Fraction(rng.randint(lo, hi) * rng.choice([1, -1]), rng.choice([1, 2, 3, 5])))


def rnd_env(u, rng, positive=("young", "dt", "theta", "epsilon", "A", "E"), fixed=None):
    env = {}
    for name in u.inputs:
        if fixed and name in fixed:
            env[name] = q(fixed[name])
        elif name in positive:
            env[name] = Q2(Fraction(rng.randint(1, 9), rng.choice([1, 2, 3])))
        elif name == "nu":
            env[name] = Q2(Fraction(rng.randint(1, 4), 10))
        else:
            env[name] = rnd(rng)
    return env


def vec(env, p, n):
    return [env["%s%d" % (p, k)] for k in range(n)]


def compare(u, env, expected, fns):
    """expected: {output name: Q2}; returns None or (name, code value, reference value)"""
    val = emit.evaluate(u, env, fns)
    for oname, node in u.outs:
        if oname in expected and not (val[node] == expected[oname]):
            return oname, val[node], expected[oname]
    return None


def search(ck, units, refs, rng, trials, stats):
    """refs: {unit name: fn(unit, env, fns) -> {output: Q2}}; returns failing inputs"""
    found = []
    for u in units:
        if u.name not in refs:
            continue
        stats["units_evaluated"] = stats.get("units_evaluated", 0) + 1
        for _ in range(trials):
            env = rnd_env(u, rng)
            fns = Fns()
            try:
                exp = refs[u.name](u, env, fns)
                bad = compare(u, env, exp, fns)
            except ZeroDivisionError:
                stats["skipped_division_by_zero"] = stats.get("skipped_division_by_zero", 0) + 1
                continue
            stats["points"] = stats.get("points", 0) + 1
            stats["outputs_compared"] = stats.get("outputs_compared", 0) + len(exp)
            if bad:
                found.append({"unit": u.name, "output": bad[0],
                              "inputs_exact": {k: repr(v) for k, v in env.items() if not k.startswith("g")},
                              "code_value_exact": repr(bad[1]), "spec_value_exact": repr(bad[2]),
                              "code_value": float(bad[1]), "spec_value": float(bad[2]),
                              "note": "exact evaluation of the DAG traced from the generated code; function symbols (sqrt, pow) are evaluated by a hash of their exact arguments"})
                break
    return found
