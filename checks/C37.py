"""C37 — generated material properties compute the declared law.  Tie: M at two levels.

 (i) text level: for seeded random material-property descriptions (0..6 inputs, typed variables,
     glossary / entry names, parameters with defaults, static variables / constants, an `@Function`
     body in the fragment + - * / unary-minus pow exp log sqrt sin cos tanh abs min max with several
     assignments to the output, or an `@Data` table / value) the C++ emitted by the *current* mfront
     binary (`--interface=c,c++,generic`) is parsed back (parser below) into the IR of the Lean
     generator model `gen` (declarations in lookup order and how each value is obtained, initial
     value of the parameter slots, override keys, body as expression trees over names, returned
     variable) and compared with `gen d` printed by the Lean driver;
 (ii) run level: the emitted sources are compiled (-O0 -ffp-contract=off -frounding-math) and called
     on seeded random arguments, with run-time overrides through `<law>_setParameter`,
     `<law>-parameters.txt` (generic) and `set<p>` (c++); the returned double is compared bit for
     bit with `IR.eval (gen d)` and `Desc.evalLaw d` evaluated on `Float` by the Lean driver, and
     with an independent evaluation of the declared law here (libm through ctypes), which is the
     judge of the property on a differing line.
"""
import contextlib
import ctypes
import fcntl
import glob
import math
import os
import random
import re
import struct
from concurrent.futures import ThreadPoolExecutor

import vlib

PROPS = ["TfelVerif.C37.Props"]
IFACES = ["c", "cxx", "generic"]
SRC = {"c": "mfront/src/CMaterialPropertyInterfaceBase.cxx", "cxx": "mfront/src/CppMaterialPropertyInterface.cxx",
       "generic": "mfront/src/GenericMaterialPropertyInterfaceBase.cxx"}
AOPS = {"=": "set", "+=": "add", "-=": "sub", "*=": "mul", "/=": "div"}
TYPES = ["real", "temperature", "stress", "strain", "massdensity", "thermalconductivity", "length", "time"]
GLOSSARY_IN = ["Temperature", "Porosity", "BurnUp_AtPercent", "Pressure", "GrainSize", "NeutronFluence", "HydrostaticPressure"]
GLOSSARY_PAR = ["YoungModulus", "PoissonRatio", "ShearModulus", "YieldStrength", "BulkModulus", "FirstLameCoefficient"]
GLOSSARY_OUT = ["ThermalConductivity", "SpecificHeat", "ThermalExpansion", "MassDensity", "Emissivity"]


def bits(x):
    return "nan" if x != x else struct.pack(">d", x).hex()


def frombits(h):
    return struct.unpack(">d", bytes.fromhex(h))[0]


# ---------------------------------------------------------------- libm (same library as the compiled code and the Lean runtime)
_libm = ctypes.CDLL("libm.so.6", use_errno=True)
for _n in ("exp", "log", "sqrt", "sin", "cos", "tanh", "fabs"):
    getattr(_libm, _n).restype = ctypes.c_double
    getattr(_libm, _n).argtypes = [ctypes.c_double]
_libm.pow.restype = ctypes.c_double
_libm.pow.argtypes = [ctypes.c_double, ctypes.c_double]


class Judge:
    """independent evaluation of a declared law on doubles; records whether libm set errno"""

    def __init__(self):
        self.errno = False

    def call(self, f, *a):
        ctypes.set_errno(0)
        r = f(*a)
        if ctypes.get_errno() != 0:
            self.errno = True
        return r

    def un(self, op, x):
        if op == "neg":
            return -x
        if op == "abs":
            return self.call(_libm.fabs, x)
        return self.call(getattr(_libm, op), x)

    def bin(self, op, a, b):
        if op == "add":
            return a + b
        if op == "sub":
            return a - b
        if op == "mul":
            return a * b
        if op == "div":
            if b == 0:
                if a != a or a == 0:
                    return float("nan")
                neg = (math.copysign(1.0, a) < 0) != (math.copysign(1.0, b) < 0)
                return float("-inf") if neg else float("inf")
            try:
                return a / b
            except OverflowError:
                return float("inf") if (a > 0) == (b > 0) else float("-inf")
        if op == "pow":
            return self.call(_libm.pow, a, b)
        if op == "min":
            return a if a < b else b
        if op == "max":
            return a if a > b else b
        raise ValueError(op)

    def expr(self, t, env, cur):
        k = t[0]
        if k == "l":
            return float(t[1])
        if k == "o":
            return cur
        if k in "ips":
            return env[k][t[1]]
        if k == "u":
            return self.un(t[1], self.expr(t[2], env, cur))
        return self.bin(t[1], self.expr(t[2], env, cur), self.expr(t[3], env, cur))


# ---------------------------------------------------------------- interpolation (judge side; transliterates the documented schemes)
def lin_value(extrapolate, pts, x):
    """tfel::math::computeLinearInterpolation<extrapolate>: piecewise affine through the points"""
    n = len(pts)
    if n == 1:
        return pts[0][1]

    def piece(i):
        (a, va), (b, vb) = pts[i], pts[i + 1]
        return va + (vb - va) / (b - a) * (x - a)
    if not (pts[0][0] < x):
        return piece(0) if extrapolate else pts[0][1]
    if not (x < pts[-1][0]):
        return piece(n - 2) if extrapolate else pts[-1][1]
    i = 0
    while i + 1 != n and pts[i + 1][0] < x:
        i += 1
    return piece(i)


def spline_value(extrapolate, pts, x):
    """cubic Hermite piece between the collocation points (x, y, d); linear continuation / clamp outside"""
    n = len(pts)
    if n == 1:
        return pts[0][1]
    k = 0
    while k != n and pts[k][0] < x:
        k += 1
    if k == 0:
        return pts[0][1] + (x - pts[0][0]) * pts[0][2] if extrapolate else pts[0][1]
    if k == n:
        return pts[-1][1] + (x - pts[-1][0]) * pts[-1][2] if extrapolate else pts[-1][1]
    (xa, ya, da), (xb, yb, db) = pts[k - 1], pts[k]
    usL = 1 / (xb - xa)
    dy = (yb - ya) * usL
    a2 = (3 * dy - db - 2 * da) * usL
    a3 = (-2 * dy + db + da) * usL * usL
    x2 = x - xa
    return ya + x2 * (da + x2 * (a2 + x2 * a3))


def natural_spline_slopes(xs, ys):
    """exact (Fraction) slopes of the natural C2 cubic spline through the points: the declared scheme"""
    from fractions import Fraction as F
    n = len(xs)
    if n == 1:
        return [F(0)]
    X = [F(v) for v in xs]
    Y = [F(v) for v in ys]
    h = [1 / (X[i + 1] - X[i]) for i in range(n - 1)]
    u = [3 * h[i] * h[i] * (Y[i + 1] - Y[i]) for i in range(n - 1)]
    A = [[F(0)] * n for _ in range(n)]
    r = [F(0)] * n
    for i in range(n):
        if i == 0:
            A[0][0], A[0][1], r[0] = 2 * h[0], h[0], u[0]
        elif i == n - 1:
            A[i][i - 1], A[i][i], r[i] = h[i - 1], 2 * h[i - 1], u[i - 1]
        else:
            A[i][i - 1], A[i][i], A[i][i + 1], r[i] = h[i - 1], 2 * (h[i - 1] + h[i]), h[i], u[i - 1] + u[i]
    for i in range(1, n):
        m = A[i][i - 1] / A[i - 1][i - 1]
        A[i][i] -= m * A[i - 1][i]
        r[i] -= m * r[i - 1]
    d = [F(0)] * n
    d[n - 1] = r[n - 1] / A[n - 1][n - 1]
    for i in range(n - 2, -1, -1):
        d[i] = (r[i] - A[i][i + 1] * d[i + 1]) / A[i][i]
    return d


# ---------------------------------------------------------------- descriptions
class Var:
    def __init__(self, name, typ="real", ext=None, extkind=None):
        self.name, self.type, self.extkind = name, typ, extkind
        self.ext = ext or name


class Desc:
    """law: ('fn', [(aop, tree)]) | ('const', txt) | ('lin', extrap, [(xt, yt)], style) | ('spl', extrap, [(xt, yt)])"""

    def __init__(self):
        self.law_name = ""
        self.material = ""
        self.inputs = []
        self.output = Var("res")
        self.declare_output = True
        self.params = []       # (Var, txt, style)
        self.statics = []      # (name, keyword, type, txt)
        self.law = None
        self.texts = {}

    @property
    def fname(self):
        return (self.material + "_" if self.material else "") + self.law_name

    def pval(self, i):
        return float(self.params[i][1])

    def enc(self, spline_d=None):
        t = ["I", str(len(self.inputs))]
        for v in self.inputs:
            t += [v.name, v.ext]
        t += ["O", self.output.name, "P", str(len(self.params))]
        for (v, txt, _) in self.params:
            t += [v.name, v.ext, bits(float(txt))]
        t += ["S", str(len(self.statics))]
        for (n, _, _, txt) in self.statics:
            t += [n, bits(float(txt))]
        t.append("L")
        k = self.law[0]
        if k == "fn":
            t += ["fn", str(len(self.law[1]))]
            for (aop, tree) in self.law[1]:
                t.append(aop)
                t += enc_tree(tree)
        elif k == "const":
            t += ["const", bits(float(self.law[1]))]
        elif k == "lin":
            t += ["lin", "1" if self.law[1] else "0", str(len(self.law[2]))]
            for (x, y) in sorted_pts(self):
                t += [bits(float(x)), bits(float(y))]
        else:
            t += ["spl", "1" if self.law[1] else "0", str(len(self.law[2]))]
            for (x, y), dd in zip(sorted_pts(self), spline_d):
                t += [bits(float(x)), bits(float(y)), bits(dd)]
        return " ".join(t)

    # ---- .mfront text
    def mfront(self, rng):
        L = ["@DSL MaterialProperty;", "@Law %s;" % self.law_name]
        if self.material:
            L.append("@Material %s;" % self.material)
        decl = []
        for (n, kw, typ, txt) in self.statics:
            decl.append("@Constant %s = %s;" % (n, txt) if kw == "@Constant" else "%s %s %s = %s;" % (kw, typ, n, txt))
        for (v, txt, style) in self.params:
            ty = "" if v.type == "real" and style != "typed" else v.type + " "
            if style == "method":
                decl.append("@Parameter %s%s;\n%s.setDefaultValue(%s);" % (ty, v.name, v.name, txt))
            else:
                decl.append("@Parameter %s%s = %s;" % (ty, v.name, txt))
            decl += ext_decl(v)
        ins = []
        i = 0
        while i < len(self.inputs):                       # inputs of the same type may share one @Input
            j = i + 1
            while j < len(self.inputs) and self.inputs[j].type == self.inputs[i].type and rng.random() < 0.5:
                j += 1
            ty = "" if self.inputs[i].type == "real" and rng.random() < 0.5 else self.inputs[i].type + " "
            ins.append("@Input %s%s;" % (ty, ", ".join(v.name for v in self.inputs[i:j])))
            for v in self.inputs[i:j]:
                ins += ext_decl(v)
            i = j
        out = []
        if self.declare_output:
            ty = "" if self.output.type == "real" else self.output.type + " "
            out.append("@Output %s%s;" % (ty, self.output.name))
            out += ext_decl(self.output)
        blocks = [decl, ins, out]
        rng.shuffle(blocks)
        for b in blocks:
            L += b
        k = self.law[0]
        if k == "fn":
            L.append("@Function{")
            for (aop, tree) in self.law[1]:
                op = [s for s, a in AOPS.items() if a == aop][0]
                L.append("  %s %s %s;" % (self.output.name, op, show_tree(tree, self, rng)))
            L.append("}")
        elif k == "const":
            if self.inputs:
                L.append("@Data{ values: {%s: %s} };" % (self.law[2], self.law[1]))
            else:
                L.append("@Data{ value: %s };" % self.law[1])
        else:
            opts = ["values: {%s}" % ", ".join("%s: %s" % p for p in self.law[2])]
            if k == "spl":
                opts.append('interpolation: "cubic_spline"')
            elif self.law[3] == "explicit":
                opts.append('interpolation: "linear"')
            if not self.law[1]:
                opts.append(rng.choice(['extrapolation: false', 'extrapolation: "constant"', 'extrapolation: "bound_to_last_value"']))
            elif rng.random() < 0.4:
                opts.append("extrapolation: true")
            rng.shuffle(opts)
            L.append("@Data{\n  " + ",\n  ".join(opts) + "\n};")
        return "\n".join(L) + "\n"


def ext_decl(v):
    if v.extkind == "glossary":
        return ['%s.setGlossaryName("%s");' % (v.name, v.ext)]
    if v.extkind == "entry":
        return ['%s.setEntryName("%s");' % (v.name, v.ext)]
    return []


def enc_tree(t):
    k = t[0]
    if k == "l":
        return ["l", bits(float(t[1]))]
    if k == "o":
        return ["o"]
    if k in "ips":
        return [k, str(t[1])]
    if k == "u":
        return ["u", t[1]] + enc_tree(t[2])
    return ["b", t[1]] + enc_tree(t[2]) + enc_tree(t[3])


PREC = {"add": 1, "sub": 1, "mul": 2, "div": 2}


def prec(t):
    if t[0] == "b" and t[1] in PREC:
        return PREC[t[1]]
    if t[0] == "u" and t[1] == "neg":
        return 3
    return 4


def show_tree(t, d, rng):
    """C++ text of a tree with the parentheses required by precedence/associativity, plus a few redundant ones"""
    k = t[0]
    if k == "l":
        s = t[1]
    elif k == "o":
        s = d.output.name
    elif k == "i":
        s = d.inputs[t[1]].name
    elif k == "p":
        s = d.params[t[1]][0].name
    elif k == "s":
        s = d.statics[t[1]][0]
    elif k == "u":
        a = show_tree(t[2], d, rng)
        if t[1] == "neg":
            if prec(t[2]) < 3:
                a = "(" + a + ")"
            s = "-" + (" " if a.startswith("-") or rng.random() < 0.3 else "") + a
        else:
            fn = {"abs": rng.choice(["abs", "fabs", "std::abs"])}.get(t[1]) or rng.choice([t[1], t[1], "std::" + t[1]])
            s = "%s(%s)" % (fn, a)
    else:
        op = t[1]
        a, b = show_tree(t[2], d, rng), show_tree(t[3], d, rng)
        if op in PREC:
            if prec(t[2]) < PREC[op]:
                a = "(" + a + ")"
            if prec(t[3]) <= PREC[op]:
                b = "(" + b + ")"
            sym = {"add": "+", "sub": "-", "mul": "*", "div": "/"}[op]
            sp = rng.choice([" ", " ", ""])
            if b.startswith("-") or sym == "/" and b.startswith("*"):
                sp = " "
            s = a + sp + sym + sp + b
        else:
            fn = rng.choice(["pow", "std::pow"]) if op == "pow" else op
            s = "%s(%s,%s%s)" % (fn, a, rng.choice(["", " "]), b)
    if rng.random() < 0.08:
        s = "(" + s + ")"
    return s


# ---- random values
def lit_short(rng, lo=0.1, hi=10.0):
    """<= 5 significant digits: survives any output precision >= 6"""
    from decimal import Decimal
    m = rng.randint(1, 99999)
    e = -3
    while m * 10.0 ** e >= hi:
        e -= 1
    while m * 10.0 ** e < lo:
        e += 1
    if rng.random() < 0.25:
        return "%d.0e%d" % (m, e) if rng.random() < 0.5 else "%de%d" % (m, e)
    s = format(Decimal(m).scaleb(e), "f")
    if "." in s:
        s = s.rstrip("0")
        s = s + "0" if s.endswith(".") else s
    else:
        s += rng.choice([".0", ".", ".00"])
    return s


def lit_digits(rng, nd, lo=0.1, hi=10.0):
    """exactly nd significant digits"""
    m = rng.randint(10 ** (nd - 1), 10 ** nd - 1)
    if m % 10 == 0:
        m += rng.randint(1, 9)
    s = str(m)
    v = float(s[0] + "." + s[1:])
    e = 0
    while v * 10.0 ** e >= hi:
        e -= 1
    while v * 10.0 ** e < lo:
        e += 1
    return "%s.%se%d" % (s[0], s[1:], e) if e else "%s.%s" % (s[0], s[1:])


def lit_any(rng, cls, lo=0.1, hi=10.0):
    if cls == "short":
        return lit_short(rng, lo, hi)
    if cls == "medium":
        return lit_digits(rng, rng.randint(8, 13), lo, hi)
    return lit_digits(rng, rng.randint(16, 17), lo, hi)


def rand_tree(rng, d, depth, allow_out):
    leaves = [("i", k) for k in range(len(d.inputs))] + [("p", k) for k in range(len(d.params))] + \
             [("s", k) for k in range(len(d.statics))]
    if depth == 0 or rng.random() < 0.15:
        r = rng.random()
        if allow_out and r < 0.12:
            return ("o",)
        if leaves and r < 0.75:
            return rng.choice(leaves)
        return ("l", lit_short(rng) if rng.random() < 0.8 else lit_digits(rng, 17))
    r = rng.random()
    if r < 0.62:
        op = rng.choice(["add", "add", "sub", "mul", "mul", "div"])
        return ("b", op, rand_tree(rng, d, depth - 1, allow_out), rand_tree(rng, d, depth - 1, allow_out))
    if r < 0.72:
        return ("b", "pow", rand_tree(rng, d, depth - 1, allow_out), ("l", rng.choice(["2.5", "1.75", "0.3", "1.5", "0.25", "3.5"])))
    if r < 0.80:
        return ("b", rng.choice(["min", "max"]), rand_tree(rng, d, depth - 1, allow_out), rand_tree(rng, d, depth - 1, allow_out))
    if r < 0.86:
        return ("u", "neg", rand_tree(rng, d, depth - 1, allow_out))
    op = rng.choice(["exp", "log", "sqrt", "sin", "cos", "tanh", "abs"])
    a = rand_tree(rng, d, depth - 1, allow_out)
    if op == "exp":                      # keep the argument small
        a = ("u", "neg", ("b", "div", a, ("b", "add", ("l", "1.0"), ("u", "abs", a))))
    if op == "log":
        a = ("b", "add", ("l", "1.0"), ("u", "abs", a))
    if op == "sqrt":
        a = ("u", "abs", a)
    return ("u", op, a)


def uses_ref(t, leaf):
    return t == leaf or any(uses_ref(c, leaf) for c in t[2:] if isinstance(c, tuple))


def uses_input(t):
    return t[0] == "i" or any(uses_input(c) for c in t[2:] if isinstance(c, tuple))


NAMES_IN = ["T", "x", "f", "p", "Bu", "rho", "q", "w", "phi", "z"]
NAMES_PAR = ["a", "b", "c1", "alpha", "kappa", "E0", "nu0", "m"]
NAMES_ST = ["s0", "s1", "Tref", "cst", "u0"]
NAMES_OUT = ["y", "k", "res", "lam", "out"]


def rand_var(rng, name, glossary, used_ext, allow_types=True):
    v = Var(name, rng.choice(TYPES) if allow_types and rng.random() < 0.5 else "real")
    r = rng.random()
    if r < 0.3:
        g = [x for x in glossary if x not in used_ext]
        if g:
            v.ext, v.extkind = rng.choice(g), "glossary"
    elif r < 0.5:
        v.ext, v.extkind = "E" + name + rng.choice(["Entry", "_e", "Val"]), "entry"
    used_ext.add(v.ext)
    return v


def sample_args(rng, d, kind="positive"):
    out = []
    for _ in d.inputs:
        r = rng.random()
        if r < 0.15:
            out.append(float(rng.choice([1, 2, 3, 5, 10])) * rng.choice([1.0, 0.5, 0.25]))
        else:
            out.append(math.exp(rng.uniform(math.log(0.05), math.log(20.0))))
    return out


def rand_desc(rng, idx, kind, vclass):
    """kind: fn | const0 | const1 | lin | spl ; vclass: class of the declared constants (short|medium|long)"""
    d = Desc()
    d.law_name = "C37L%d" % idx
    d.material = rng.choice(["", "", "Zr", "UO2"])
    used = set()
    if kind == "fn":
        nin = rng.choice([0, 1, 1, 2, 2, 3, 3, 4, 5, 6])
    else:
        nin = 0 if kind == "const0" else 1
    d.inputs = [rand_var(rng, n, GLOSSARY_IN, used) for n in rng.sample(NAMES_IN, nin)]
    d.declare_output = rng.random() < 0.85
    d.output = rand_var(rng, rng.choice(NAMES_OUT), GLOSSARY_OUT, used) if d.declare_output else Var("res")
    if d.output.name == "res" and not d.declare_output:
        d.output = Var("res")
    if kind == "fn":
        for n in rng.sample(NAMES_PAR, rng.choice([0, 1, 2, 2, 3, 4])):
            v = rand_var(rng, n, GLOSSARY_PAR, used)
            cls = vclass if rng.random() < 0.8 else "short"
            d.params.append((v, lit_any(rng, cls), rng.choice(["plain", "plain", "typed", "method"])))
        for n in rng.sample(NAMES_ST, rng.choice([0, 0, 1, 2])):
            cls = vclass if rng.random() < 0.8 else "short"
            kw = rng.choice(["@StaticVariable", "@StaticVar", "@Constant"])
            d.statics.append((n, kw, rng.choice(["real", "double"]), lit_any(rng, cls)))
        for attempt in range(200):
            body = []
            ns = rng.choice([1, 1, 2, 3])
            for j in range(ns):
                aop = "set" if j == 0 else rng.choice(["set", "add", "sub", "mul", "div"])
                body.append((aop, rand_tree(rng, d, rng.choice([1, 2, 3, 4]), j > 0)))
            if any(a == "set" and not uses_ref(t, ("o",)) for a, t in body[1:]):
                continue                # earlier statements would be dead
            # every declared input, parameter and static variable takes part in the value
            for leaf in [("i", k) for k in range(len(d.inputs))] + [("p", k) for k in range(len(d.params))] + \
                        [("s", k) for k in range(len(d.statics))]:
                if not any(uses_ref(t, leaf) for _, t in body):
                    j = rng.randrange(len(body))
                    aop, t = body[j]
                    extra = ("b", "mul", leaf, ("l", lit_short(rng))) if rng.random() < 0.5 else leaf
                    body[j] = (aop, ("b", rng.choice(["add", "sub"]), t, extra) if rng.random() < 0.7 else ("b", "mul", t, ("b", "add", ("l", "1.0"), extra)))
            d.law = ("fn", body)
            if d.inputs and not any(uses_input(t) for _, t in body):
                continue
            ok = 0
            for _ in range(8):
                v, e = judge_law(d, sample_args(rng, d), [float(p[1]) for p in d.params])
                if v == v and abs(v) != float("inf") and not e and 1e-12 < abs(v) < 1e12:
                    ok += 1
            if ok >= 7:
                break
        return d
    ycls = vclass
    if kind in ("const0", "const1"):
        d.law = ("const", lit_any(rng, ycls, 0.1, 1000.0), lit_short(rng, 1.0, 1000.0))
        return d
    n = rng.choice([2, 3, 4, 5, 7])
    xs = sorted({round(rng.uniform(1.0, 100.0), rng.choice([0, 1, 2])) for _ in range(n)})
    while len(xs) < 2:
        xs.append(xs[-1] + 1.5)
    xt = [("%g" % x) for x in xs]
    order = list(range(len(xt)))
    rng.shuffle(order)                   # the map is ordered by mfront whatever the order of declaration
    pts = [(xt[i], lit_any(rng, ycls if rng.random() < 0.7 else "short", 0.1, 100.0)) for i in order]
    d.law = (kind, rng.random() < 0.5, pts, rng.choice(["explicit", "default"]))
    return d


def sorted_pts(d):
    return sorted(d.law[2], key=lambda p: float(p[0]))


def judge_law(d, args, pv, spline_d=None):
    """(value of the declared law, errno set by libm)"""
    j = Judge()
    k = d.law[0]
    if k == "fn":
        env = {"i": args, "p": pv, "s": [float(s[3]) for s in d.statics]}
        cur = 0.0
        for (aop, tree) in d.law[1]:
            v = j.expr(tree, env, cur)
            cur = v if aop == "set" else j.bin(aop, cur, v)
        return cur, j.errno
    if k == "const":
        return float(d.law[1]), False
    pts = [(float(x), float(y)) for x, y in sorted_pts(d)]
    try:
        if k == "lin":
            return lin_value(d.law[1], pts, args[0]), False
        return spline_value(d.law[1], [(x, y, dd) for (x, y), dd in zip(pts, spline_d)], args[0]), False
    except OverflowError:
        return float("nan"), False


# ---------------------------------------------------------------- parsing the emitted C++ back into the IR
TOKEN = re.compile(r"\s*(?:(\d+\.?\d*(?:[eE][+-]?\d+)?|\.\d+(?:[eE][+-]?\d+)?)|([A-Za-z_]\w*)|(::|[-+*/(),]))")
FUN_UN = {"exp": "exp", "log": "log", "sqrt": "sqrt", "sin": "sin", "cos": "cos", "tanh": "tanh", "abs": "abs", "fabs": "abs"}
FUN_BIN = {"pow": "pow", "min": "min", "max": "max"}


class ParseError(Exception):
    pass


@contextlib.contextmanager
def build_tree_in_use():
    """shared hold of the build-tree lock while binaries / libraries of the build tree are executed or linked: a concurrent
    `ensure_targets` of another check (exclusive lock) cannot relink them under our feet"""
    f = open(os.path.join(vlib.VERIF, "work", ".ninja.lock"), "a")
    fcntl.flock(f, fcntl.LOCK_SH)
    try:
        yield
    finally:
        fcntl.flock(f, fcntl.LOCK_UN)
        f.close()


def tokenize(s):
    out, pos = [], 0
    s = s.rstrip()
    while pos < len(s):
        m = TOKEN.match(s, pos)
        if not m:
            raise ParseError("cannot tokenize '%s'" % s[pos:pos + 30])
        pos = m.end()
        if m.group(1) is not None:
            out.append(("num", m.group(1)))
        elif m.group(2) is not None:
            out.append(("id", m.group(2)))
        else:
            out.append(("op", m.group(3)))
    return out


class ExprParser:
    """C++ arithmetic subset with the usual precedence and left associativity"""

    def __init__(self, toks, tree=False):
        self.t, self.i, self.tree = toks, 0, tree

    def mk_bin(self, op, a, b):
        return ("b", op, a, b) if self.tree else "(%s %s %s)" % (op, a, b)

    def mk_un(self, op, a):
        return ("u", op, a) if self.tree else "(%s %s)" % (op, a)

    def peek(self):
        return self.t[self.i] if self.i < len(self.t) else ("end", "")

    def eat(self, v=None):
        k = self.peek()
        if k[0] == "end" or (v is not None and k[1] != v):
            raise ParseError("expected %s, found %s" % (v, k[1]))
        self.i += 1
        return k

    def expr(self):
        a = self.term()
        while self.peek() in (("op", "+"), ("op", "-")):
            op = self.eat()[1]
            b = self.term()
            a = self.mk_bin("add" if op == "+" else "sub", a, b)
        return a

    def term(self):
        a = self.unary()
        while self.peek() in (("op", "*"), ("op", "/")):
            op = self.eat()[1]
            b = self.unary()
            a = self.mk_bin("mul" if op == "*" else "div", a, b)
        return a

    def unary(self):
        if self.peek() == ("op", "-"):
            self.eat()
            return self.mk_un("neg", self.unary())
        return self.primary()

    def primary(self):
        k = self.peek()
        if k[0] == "num":
            self.eat()
            return ("l", k[1]) if self.tree else "(l %s)" % bits(float(k[1]))
        if k == ("op", "("):
            self.eat()
            a = self.expr()
            self.eat(")")
            return a
        if k[0] == "id":
            self.eat()
            name = k[1]
            if name == "std" and self.peek() == ("op", "::"):
                self.eat()
                name = self.eat()[1]
                if self.peek() != ("op", "("):
                    raise ParseError("std::%s is not a call" % name)
            if self.peek() == ("op", "("):
                self.eat()
                args = [self.expr()]
                while self.peek() == ("op", ","):
                    self.eat()
                    args.append(self.expr())
                self.eat(")")
                if name in FUN_UN and len(args) == 1:
                    return self.mk_un(FUN_UN[name], args[0])
                if name in FUN_BIN and len(args) == 2:
                    return self.mk_bin(FUN_BIN[name], args[0], args[1])
                raise ParseError("unknown call %s/%d" % (name, len(args)))
            return ("v", name) if self.tree else "(v %s)" % name
        raise ParseError("unexpected token '%s'" % k[1])


def parse_statement(s, out):
    m = re.match(r"\s*(\w+)\s*(=|\+=|-=|\*=|/=)(?!=)(.*)$", s, re.S)
    if not m:
        raise ParseError("not an assignment: '%s'" % s.strip()[:60])
    if m.group(1) != out:
        raise ParseError("assignment to '%s' (output is '%s')" % (m.group(1), out))
    p = ExprParser(tokenize(m.group(3)))
    e = p.expr()
    if p.peek()[0] != "end":
        raise ParseError("trailing tokens in '%s'" % s.strip()[:60])
    return "%s %s" % (AOPS[m.group(2)], e)


NUM = r"(-?(?:\d+\.?\d*|\.\d+)(?:[eE][-+]?\d+)?|-?inf|-?nan)"
LAMBDA_MIN = "[[maybe_unused]] auto min = [](const auto a, const auto b) { return a < b ? a : b; };"
LAMBDA_MAX = "[[maybe_unused]] auto max = [](const auto a, const auto b) { return a > b ? a : b; };"
SKIP = [re.compile(p) for p in (
    r"using namespace std;$", r"using tfel::math::\w+;$", r"constexpr auto use_qt = false;$",
    r"using PhysicalConstants \[\[maybe_unused\]\] = tfel::PhysicalConstants<double, (use_qt|false)>;$",
    r"using \w+ \[\[maybe_unused\]\] = (typename tfel::config::ScalarTypes<double, false>::\w+|double);$",
    r"#ifndef MFRONT_NOERRNO_HANDLING$", r"#endif /\* MFRONT_NOERRNO_HANDLING \*/$",
    r"const auto mfront_errno_old = errno;$", r"errno=0;$", r"#line \d+ \".*\"$")]


def parse_law_lines(lines, out, known_types):
    """body of the function: statements of the @Function fragment or the text written for @Data"""
    text = "\n".join(l for l in lines if not l.startswith("#line"))
    ty = r"(?:%s)" % "|".join(known_types)
    m = re.match(r"\s*constexpr auto mfront_(\w+)_values = std::array<%s, (\d+)>\{(.*?)\};\s*"
                 r"constexpr auto mfront_(\w+)_values = std::array<%s, (\d+)>\{(.*?)\};\s*"
                 r"(\w+) = tfel::math::computeLinearInterpolation<(true|false)>\(mfront_(\w+)_values, mfront_(\w+)_values, (\w+)\);\s*$" % (ty, ty),
                 text, re.S)
    if m:
        xs = re.findall(r"%s\{%s\}" % (ty, NUM), m.group(3))
        ys = re.findall(r"%s\{%s\}" % (ty, NUM), m.group(6))
        if not (len(xs) == len(ys) == int(m.group(2)) == int(m.group(5))) or m.group(7) != out or m.group(4) != out or \
                not (m.group(1) == m.group(9) == m.group(11)) or m.group(10) != out:
            raise ParseError("inconsistent linear interpolation block")
        return "lin %s %s %s" % ("1" if m.group(8) == "true" else "0", m.group(11),
                                 " ".join("%s:%s" % (bits(float(x)), bits(float(y))) for x, y in zip(xs, ys))), None
    pt = r"tfel::math::CubicSplineCollocationPoint<%s, %s>" % (ty, ty)
    m = re.match(r"\s*constexpr auto mfront_collocation_points = std::array<%s, (\d+)>\{(.*?)\};\s*"
                 r"(\w+) = tfel::math::computeCubicSplineInterpolation<(true|false)>\(mfront_collocation_points, (\w+)\);\s*$" % pt,
                 text, re.S)
    if m:
        ps = re.findall(r"%s\{%s\{%s\}, %s\{%s\}, tfel::math::derivative_type<%s, %s>\{%s\}\}" % (pt, ty, NUM, ty, NUM, ty, ty, NUM), m.group(2))
        if len(ps) != int(m.group(1)) or m.group(3) != out:
            raise ParseError("inconsistent spline block")
        return "spl %s %s %s" % ("1" if m.group(4) == "true" else "0", m.group(5),
                                 " ".join("%s:%s:@" % (bits(float(x)), bits(float(y))) for x, y, _ in ps)), [p[2] for p in ps]
    m = re.match(r"\s*(\w+) = %s\{%s\};\s*$" % (ty, NUM), text)
    if m and m.group(1) == out:
        return "const %s" % bits(float(m.group(2))), None
    stmts = [s for s in text.split(";") if s.strip()]
    return "fn " + " ".join(parse_statement(s, out) for s in stmts), None


def skip_line(l):
    return any(p.match(l) for p in SKIP)


def parse_common_prelude(lines, i, binds, need_lambdas=True):
    """using-declarations, the min/max lambdas and the static variables; returns the next index"""
    seen = set()
    while i < len(lines):
        l = lines[i]
        if l == LAMBDA_MIN:
            seen.add("min")
        elif l == LAMBDA_MAX:
            seen.add("max")
        elif skip_line(l):
            pass
        else:
            m = re.match(r"static constexpr  (double|float|long double|int|unsigned int|short|long) (\w+) = %s;$" % NUM, l)
            if not m:
                break
            if m.group(1) != "double":
                raise ParseError("static variable of type %s" % m.group(1))
            binds.append("%s:const:%s" % (m.group(2), bits(float(m.group(3)))))
        i += 1
    if need_lambdas and seen != {"min", "max"}:
        raise ParseError("the min/max lambdas are not the expected ones")
    return i


def fn_lines(text, start_re, end_marker):
    m = re.search(start_re, text, re.M)
    if not m:
        raise ParseError("function header not found")
    e = text.index(end_marker, m.end())
    return m, [l.strip() for l in text[m.end():e].splitlines() if l.strip()]


def ir_string(nargs, binds, slots, keys, out, law, ret):
    return "nargs=%d;binds=%s;slots=%s;keys=%s;out=%s;law=%s;ret=%s" % (
        nargs, ",".join(binds), ",".join(slots), ",".join("|".join(sorted(set(k))) for k in keys), out, law, ret)


def formal_args(s):
    s = s.strip()
    if s in ("", "void"):
        return []
    out = []
    for a in s.split(","):
        m = re.match(r"const double (\w+)$", a.strip())
        if not m:
            raise ParseError("formal argument '%s'" % a)
        out.append(m.group(1))
    return out


def extract_c(gendir, d):
    text = open(os.path.join(gendir, "src", d.fname + ".cxx")).read()
    m, lines = fn_lines(text, r"^double\s+%s\((.*?)\)\s*\{$" % re.escape(d.fname), "} /* end of %s */" % d.law_name)
    args = formal_args(m.group(1))
    binds = ["%s:arg%d" % (a, i) for i, a in enumerate(args)]
    i = parse_common_prelude(lines, 0, binds)
    types = set(TYPES) | {"double"}
    while i < len(lines):
        mm = re.match(r"static constexpr auto (\w+) = (\w+)\(%s\);$" % NUM, lines[i])
        if not mm:
            break
        if mm.group(2) not in types:
            raise ParseError("parameter type %s" % mm.group(2))
        binds.append("%s:const:%s" % (mm.group(1), bits(float(mm.group(3)))))
        i += 1
    while i < len(lines) and skip_line(lines[i]):
        i += 1
    mm = re.match(r"auto (\w+) = (\w+)\{\};$", lines[i])
    if not mm or mm.group(2) not in types:
        raise ParseError("declaration of the output expected, found '%s'" % lines[i][:60])
    out = mm.group(1)
    if lines[i + 1] != "try{":
        raise ParseError("try block expected")
    j = lines.index("} catch(std::exception&){", i)
    law, sd = parse_law_lines(lines[i + 2:j], out, sorted(types))
    tail = lines[j:]
    expected_tail = ["} catch(std::exception&){", 'return std::nan("");', "} catch(...){", 'return std::nan("");', "}"]
    if args:
        expected_tail += ["#ifndef MFRONT_NOERRNO_HANDLING", "const auto mfront_errno = errno;", "errno = mfront_errno_old;",
                          "if((mfront_errno != 0)||(!tfel::math::ieee754::isfinite(%s))){" % out, 'return std::nan("");', "}",
                          "#endif /* MFRONT_NOERRNO_HANDLING */"]
    if tail[:-1] != expected_tail:
        raise ParseError("unexpected epilogue: %s" % [a for a in tail[:-1] if a not in expected_tail][:2])
    mm = re.match(r"return (\w+);$", tail[-1])
    if not mm:
        raise ParseError("return statement expected")
    return ir_string(len(args), binds, [], [], out, law, mm.group(1)), sd


def extract_cxx(gendir, d):
    n = d.fname
    text = open(os.path.join(gendir, "src", n + "-cxx.cxx")).read()
    hdr = open(os.path.join(gendir, "include", n + "-cxx.hxx")).read()
    types = set(TYPES) | {"double"}
    # members (declaration order = lookup order among members) and their initial value
    pm = re.search(r"\nprivate:\n(.*?)\}; // end of class", hdr, re.S)
    members = re.findall(r"^double (\w+);$", pm.group(1), re.M) if pm else []
    if pm and len(members) != len([l for l in pm.group(1).splitlines() if l.strip()]):
        raise ParseError("unexpected member declaration")
    cm = re.search(r"^%s::%s\(\) noexcept\n(.*?)\{\} // end of" % (n, n), text, re.S | re.M)
    if not cm:
        raise ParseError("constructor not found")
    inits = re.findall(r"(\w+)\(%s\)" % NUM, cm.group(1))
    if re.sub(r"\s", "", cm.group(1)) != (":" if inits else "") + ",".join("%s(%s)" % p for p in inits):
        raise ParseError("unexpected constructor initialiser list")
    if [p[0] for p in inits] != members:
        raise ParseError("members %s initialised as %s" % (members, [p[0] for p in inits]))
    slots = [bits(float(v)) for _, v in inits]
    keys = []
    for k, mname in enumerate(members):
        sm = re.findall(r"^void %s::set(\w+)\(const double (\w+)\)\{\nthis->(\w+) = (\w+);\n\}" % n, text, re.M)
        ks = [s[0] for s in sm if s[2] == mname and s[1] == s[3]]
        keys.append(ks)
    m, lines = fn_lines(text, r"^double %s::operator\(\)\((.*?)\) const\n\{$" % n, "} // end of %s::operator()" % n)
    args = formal_args(m.group(1))
    binds = ["%s:arg%d" % (a, i) for i, a in enumerate(args)]
    i = parse_common_prelude(lines, 0, binds)
    binds += ["%s:slot%d" % (mname, k) for k, mname in enumerate(members)]
    mm = re.match(r"auto (\w+) = (\w+)\{\};$", lines[i])
    if not mm or mm.group(2) not in types:
        raise ParseError("declaration of the output expected, found '%s'" % lines[i][:60])
    out = mm.group(1)
    i += 1
    while i < len(lines) and skip_line(lines[i]):
        i += 1
    tail_start = len(lines) - 1
    if args:
        try:
            tail_start = max(k for k, l in enumerate(lines) if l == "const auto mfront_errno = errno;") - 1
        except ValueError:
            raise ParseError("errno epilogue not found")
        exp = ["#ifndef MFRONT_NOERRNO_HANDLING", "const auto mfront_errno = errno;", "errno = mfront_errno_old;",
               "tfel::raise_if((mfront_errno!=0)||(!tfel::math::ieee754::isfinite(%s))," % out]
        if lines[tail_start:tail_start + 4] != exp or lines[-2] != "#endif /* MFRONT_NOERRNO_HANDLING */":
            raise ParseError("unexpected epilogue")
    law, sd = parse_law_lines(lines[i:tail_start], out, sorted(types))
    mm = re.match(r"return (\w+);$", lines[-1])
    if not mm:
        raise ParseError("return statement expected")
    return ir_string(len(args), binds, slots, keys, out, law, mm.group(1)), sd


def extract_generic(gendir, d):
    n = d.fname
    text = open(os.path.join(gendir, "src", n + "-generic.cxx")).read()
    types = set(TYPES) | {"double"}
    members, slots = [], []
    pm = re.search(r"^struct %sMaterialPropertyParameters\n\{\n(.*?)\}; // end of struct" % n, text, re.S | re.M)
    if pm:
        for l in pm.group(1).splitlines():
            mm = re.match(r"double (\w+) = double\{%s\};$" % NUM, l.strip())
            if not mm:
                raise ParseError("unexpected parameter declaration '%s'" % l)
            members.append(mm.group(1))
            slots.append(bits(float(mm.group(2))))
    # keys: <law>_setParameter and the parameters file reader
    keys_set = [[] for _ in members]
    sm = re.search(r"^%s_setParameter\(const char \*const p,const double v\)\{\n(.*?)^return 0;\n\}" % n, text, re.S | re.M)
    if members and not sm:
        raise ParseError("setParameter not found")
    if sm:
        body = sm.group(1)
        pat = re.compile(r'if\(strcmp\("([^"]*)",p\) == 0\)\{\ngeneric::%sMaterialPropertyParametersHandler::get%sMaterialPropertyParametersHandler\(\)\.(\w+) = static_cast<double>\(v\);\nreturn 1;\n\}\n' % (n, n))
        if pat.sub("", body).strip():
            raise ParseError("unexpected statement in setParameter: %s" % pat.sub("", body).strip()[:60])
        for key, mem in pat.findall(body):
            if mem not in members:
                raise ParseError("setParameter sets unknown member %s" % mem)
            keys_set[members.index(mem)].append(key)
    keys_file = [[] for _ in members]
    fm = re.search(r'^std::ifstream pfile\("([^"]*)"\);$', text, re.M)
    if members:
        if not fm or fm.group(1) != n + "-parameters.txt":
            raise ParseError("parameters file name is %s" % (fm.group(1) if fm else None))
        chain = re.search(r"^\s*mfront_converter >> pvalue;.*?return;\n\s*\}\n(.*?)else \{\nset_msg\(\"invalid parameter", text, re.S | re.M)
        if not chain:
            raise ParseError("parameters file reader not found")
        pat = re.compile(r'(?:else )?if\(tokens\[0\]=="([^"]*)"\)\{\nthis->(\w+) = pvalue;\n\}\s*')
        if pat.sub("", chain.group(1)).strip():
            raise ParseError("unexpected statement in the parameters file reader")
        for key, mem in pat.findall(chain.group(1)):
            if mem not in members:
                raise ParseError("parameters file sets unknown member %s" % mem)
            keys_file[members.index(mem)].append(key)
    if [sorted(set(k)) for k in keys_set] != [sorted(set(k)) for k in keys_file]:
        raise ParseError("setParameter keys %s differ from parameters-file keys %s" % (keys_set, keys_file))
    m, lines = fn_lines(text, r"^%s\(mfront_gmp_OutputStatus\* const mfront_output_status,\nconst mfront_gmp_real\* const( mfront_params)?,\nconst mfront_gmp_size_type mfront_nargs,\nconst mfront_gmp_OutOfBoundsPolicy( mfront_out_of_bounds_policy)?\)\n\{$" % n,
                        "} // end of %s\n" % n)
    binds = []
    i = parse_common_prelude(lines, 0, binds)
    report = ["auto mfront_report = [&mfront_output_status](const std::string& mfront_error_message){",
              "if(mfront_error_message.empty()){", "return;", "}",
              "std::strncpy(mfront_output_status->msg,mfront_error_message.c_str(),511);",
              "mfront_output_status->msg[511]='\\0';", "};", "const int mfront_errno_old = errno;",
              "mfront_output_status->status = 0;", "mfront_output_status->bounds_status = 0;",
              "mfront_output_status->c_error_number = 0;", "errno = 0;"]
    if lines[i:i + len(report)] != report:
        raise ParseError("unexpected prologue: %s" % [a for a in lines[i:i + len(report)] if a not in report][:1])
    i += len(report)
    mm = re.match(r"if\(mfront_nargs!= (\d+)\)\{$", lines[i])
    if not mm:
        raise ParseError("argument count test expected")
    nargs = int(mm.group(1))
    i = lines.index("}", i) + 1
    if members:
        if not lines[i].startswith("if(!generic::%sMaterialPropertyParametersHandler::get%sMaterialPropertyParametersHandler().ok){" % (n, n)):
            raise ParseError("handler status test expected")
        i = lines.index("}", i) + 1
    while i < len(lines):
        mm = re.match(r"const (\w+) (\w+) = generic::%sMaterialPropertyParametersHandler::get%sMaterialPropertyParametersHandler\(\)\.(\w+);$" % (n, n), lines[i])
        if not mm:
            break
        if mm.group(1) not in types or mm.group(3) not in members:
            raise ParseError("unexpected parameter load '%s'" % lines[i][:80])
        binds.append("%s:slot%d" % (mm.group(2), members.index(mm.group(3))))
        i += 1
    while i < len(lines):
        mm = re.match(r"const auto (\w+) = \*\(mfront_params(?:\+(\d+)u)?\);$", lines[i])
        if not mm:
            break
        binds.append("%s:arg%d" % (mm.group(1), int(mm.group(2) or 0)))
        i += 1
    mm = re.match(r"auto (\w+) = (\w+)\{\};$", lines[i])
    if not mm or mm.group(2) not in types:
        raise ParseError("declaration of the output expected, found '%s'" % lines[i][:60])
    out = mm.group(1)
    if lines[i + 1] != "try{":
        raise ParseError("try block expected")
    j = lines.index("} catch(std::exception& e){", i)
    law, sd = parse_law_lines(lines[i + 2:j], out, sorted(types))
    tail = lines[j:]
    exp = ["} catch(std::exception& e){", "mfront_output_status->status = -2;", "mfront_report(e.what());", "errno = mfront_errno_old;",
           'return std::nan("");', "} catch(...){", "mfront_output_status->status = -2;", 'mfront_report("unknown C++ exception");',
           "errno = mfront_errno_old;", 'return nan("");', "}", "if (errno != 0) {", "mfront_output_status->status = -3;",
           "mfront_output_status->c_error_number = errno;", "mfront_report(strerror(errno));", "}", "errno = mfront_errno_old;",
           "if(!tfel::math::ieee754::isfinite(%s)){" % out, "mfront_output_status->status = -4;", "}"]
    if tail[:-1] != exp:
        raise ParseError("unexpected epilogue: %s" % [a for a in tail[:-1] if a not in exp][:2])
    mm = re.match(r"return (\w+);$", tail[-1])
    if not mm:
        raise ParseError("return statement expected")
    return ir_string(nargs, binds, slots, keys_set, out, law, mm.group(1)), sd


EXTRACT = {"c": extract_c, "cxx": extract_cxx, "generic": extract_generic}


def ir_fields(s):
    return dict(f.split("=", 1) for f in s.split(";") if "=" in f)


def close_hex(x, y):
    """two constants that agree to about 6 significant digits: the signature of a value written with too few digits"""
    try:
        u, v = frombits(x), frombits(y)
    except Exception:
        return False
    return u != v and abs(u - v) <= 2e-5 * max(abs(u), abs(v))


def site_of_difference(iface, model, emitted):
    """(kind, description, subject) of the difference between the emitted IR and the model: the first difference that is
    not a constant written with too few digits if there is one, else the first of those (kind suffixed `-precision`)"""
    a, b = ir_fields(model), ir_fields(emitted)
    diffs = []          # (kind, description, subject, precision only)
    for f in ("nargs", "binds", "slots", "keys", "out", "law", "ret"):
        if a.get(f) == b.get(f):
            continue
        if f == "binds":
            la, lb = a[f].split(","), b.get(f, "").split(",")
            if len(la) != len(lb):
                diffs.append(("binding", "declarations %s emitted as %s" % (a[f], b.get(f)), None, False))
            for x, y in zip(la, lb):
                if x != y:
                    nx, ny = x.split(":"), y.split(":")
                    if nx[:2] == ny[:2] and nx[1] == "const":
                        diffs.append(("constant-value", "value of `%s`: declared %s, emitted %s" % (nx[0], fmt_bits(nx[2]), fmt_bits(ny[2])), nx[0],
                                      close_hex(nx[2], ny[2])))
                    else:
                        diffs.append(("binding", "declaration `%s` emitted as `%s`" % (x, y), nx[0], False))
        elif f == "slots":
            la, lb = a[f].split(","), b.get(f, "").split(",")
            if len(la) != len(lb):
                diffs.append(("parameter-default", "parameter slots %s emitted as %s" % (a[f], b.get(f)), None, False))
            for k, (x, y) in enumerate(zip(la, lb)):
                if x != y:
                    diffs.append(("parameter-default", "default value of parameter slot %d: declared %s, emitted %s" % (k, fmt_bits(x), fmt_bits(y)), k,
                                  close_hex(x, y)))
        elif f == "law":
            ta, tb = a[f].split(), b.get(f, "").split()
            if len(ta) != len(tb):
                diffs.append(("law", "law `%s` emitted as `%s`" % (a[f][:200], b.get(f, "")[:200]), None, False))
            for x, y in zip(ta, tb):
                if x == y:
                    continue
                if ":" in x and ":" in y and ta[0] == tb[0] and ta[0] in ("lin", "spl"):       # a point of a table
                    px, py = x.split(":"), y.split(":")
                    prec = len(px) == len(py) and all(u == v or close_hex(u, v) for u, v in zip(px, py))
                    diffs.append(("law", "table point declared (%s), emitted (%s)" % (", ".join(fmt_bits(t) for t in px if t != "@"),
                                                                                        ", ".join(fmt_bits(t) for t in py if t != "@")), None, prec))
                elif ta[0] == tb[0] == "const":
                    diffs.append(("law", "value declared %s, emitted %s" % (fmt_bits(x), fmt_bits(y)), None, close_hex(x, y)))
                else:
                    diffs.append(("law", "law `%s` emitted as `%s`" % (a[f][:200], b.get(f, "")[:200]), None, False))
                    break
        else:
            diffs.append((f, "%s: model `%s`, emitted `%s`" % (f, a.get(f), b.get(f)), None, False))
    if not diffs:
        return ("unknown", "IR strings differ", None)
    hard = [x for x in diffs if not x[3]]
    if hard:
        return hard[0][:3]
    k, desc, subj, _ = diffs[0]
    return (k + "-precision", desc, subj)


def fmt_bits(h):
    try:
        return "%r" % frombits(h)
    except Exception:
        return h


# ---------------------------------------------------------------- the repository's property files (run level only)
def strip_comments(t):
    t = re.sub(r"/\*.*?\*/", " ", t, flags=re.S)
    return re.sub(r"//[^\n]*", " ", t)


def corpus_desc(path):
    """a repository material property as a description, when it lies in the modelled fragment (else ParseError);
    local variables of the body are inlined; returns (description, sampling boxes of the inputs)"""
    raw = open(path).read()
    t = strip_comments(raw)
    for bad in ("@UseQt", "@MaterialLaw", "@Import", "@Data", "@Includes", "@Interface", "@Link", "@TFELLibraries", "@Library", "@UnitSystem"):
        if bad in t:
            raise ParseError("uses %s" % bad)
    t = re.sub(r"@Description\s*\{.*?\}", " ", t, flags=re.S)
    fm = re.search(r"@Function\s*\{(.*)\}", t, re.S)
    if not fm:
        raise ParseError("no @Function")
    body_text = fm.group(1)
    head = t[:fm.start()] + t[fm.end():]
    d = Desc()
    d.declare_output = False
    boxes = {}
    for st in [x.strip() for x in head.split(";") if x.strip()]:
        m = re.match(r"@(Parser|DSL)\s+\w+$", st)
        if m:
            continue
        m = re.match(r"@Law\s+(\w+)$", st)
        if m:
            d.law_name = m.group(1)
            continue
        m = re.match(r"@Material\s+(\w+)$", st)
        if m:
            d.material = m.group(1)
            continue
        if re.match(r"@(Author|Date)\b", st):
            continue
        m = re.match(r"@(Input|StateVariable)\s+(.*)$", st, re.S)
        if m:
            names = [x.strip() for x in m.group(2).split(",")]
            first = names[0].split()
            typ = first[0] if len(first) == 2 else "real"
            names[0] = first[-1]
            for n in names:
                if not re.fullmatch(r"\w+", n):
                    raise ParseError("input declaration '%s'" % st)
                d.inputs.append(Var(n, typ))
            continue
        m = re.match(r"@Output\s+(?:(\w+)\s+)?(\w+)$", st)
        if m:
            d.output = Var(m.group(2), m.group(1) or "real")
            d.declare_output = True
            continue
        m = re.match(r"@Parameter\s+(?:(\w+)\s+)?(\w+)\s*=\s*(\S+)$", st)
        if m:
            float(m.group(3))
            d.params.append((Var(m.group(2), m.group(1) or "real"), m.group(3), "plain"))
            continue
        m = re.match(r"@(StaticVar|StaticVariable)\s+(\w+)\s+(\w+)\s*=\s*(\S+)$", st)
        if m:
            if m.group(2) not in ("real", "double"):
                raise ParseError("static variable of type %s" % m.group(2))
            float(m.group(4))
            d.statics.append((m.group(3), "@StaticVariable", m.group(2), m.group(4)))
            continue
        m = re.match(r"@Constant\s+(\w+)\s*=\s*(\S+)$", st)
        if m:
            float(m.group(2))
            d.statics.append((m.group(1), "@Constant", "real", m.group(2)))
            continue
        m = re.match(r"(\w+)\s*\.\s*set(GlossaryName|EntryName)\s*\(\s*\"(\w+)\"\s*\)$", st)
        if m:
            for v in d.inputs + [d.output]:          # (parameters keep their name as only key: glossary aliases are not resolved here)
                if v.name == m.group(1):
                    v.ext, v.extkind = m.group(3), "glossary" if m.group(2) == "GlossaryName" else "entry"
            continue
        m = re.match(r"@(Physical)?Bounds\s+(\w+)\s+in\s+([\[\]])\s*([^:\s]+)\s*:\s*([^\[\]\s]+)\s*([\[\]])$", st)
        if m:
            lo = None if m.group(4) == "*" else float(m.group(4))
            hi = None if m.group(5) == "*" else float(m.group(5))
            b = boxes.setdefault(m.group(2), [None, None])
            b[0] = lo if b[0] is None else (b[0] if lo is None else max(b[0], lo))
            b[1] = hi if b[1] is None else (b[1] if hi is None else min(b[1], hi))
            continue
        raise ParseError("statement '%s'" % st[:60])
    if not d.law_name:
        raise ParseError("no @Law")
    if re.search(r"(?<![\w.])\d+\s*/\s*\d+(?![\w.])", body_text):
        raise ParseError("integer division")
    names = {v.name: ("i", k) for k, v in enumerate(d.inputs)}
    names.update({p[0].name: ("p", k) for k, p in enumerate(d.params)})
    names.update({s_[0]: ("s", k) for k, s_ in enumerate(d.statics)})
    names["PhysicalConstants"] = None
    local = {}

    def resolve(tr):
        if tr[0] == "v":
            if tr[1] == d.output.name:
                return ("o",)
            if tr[1] in local:
                return local[tr[1]]
            if names.get(tr[1]) is None:
                raise ParseError("unknown name %s" % tr[1])
            return names[tr[1]]
        if tr[0] == "l":
            float(tr[1])
            return tr
        if tr[0] == "u":
            return ("u", tr[1], resolve(tr[2]))
        return ("b", tr[1], resolve(tr[2]), resolve(tr[3]))
    body = []
    for st in [x.strip() for x in body_text.split(";") if x.strip()]:
        m = re.match(r"(?:const\s+)?(?:real|double|\w+)\s+(\w+)\s*=(?!=)(.*)$", st, re.S)
        m2 = re.match(r"(\w+)\s*(=|\+=|-=|\*=|/=)(?!=)(.*)$", st, re.S)
        if m and not (m2 and m2.group(1) == d.output.name and not st.startswith("const")) and len(st.split("=")[0].split()) >= 2:
            p = ExprParser(tokenize(m.group(2)), tree=True)
            e = p.expr()
            if p.peek()[0] != "end":
                raise ParseError("trailing tokens")
            local[m.group(1)] = resolve(e)
            continue
        if m2 and m2.group(1) == d.output.name:
            p = ExprParser(tokenize(m2.group(3)), tree=True)
            e = p.expr()
            if p.peek()[0] != "end":
                raise ParseError("trailing tokens")
            body.append((AOPS[m2.group(2)], resolve(e)))
            continue
        raise ParseError("body statement '%s'" % st[:60])
    if not body or body[0][0] != "set":
        raise ParseError("the body does not start by assigning the output")
    d.law = ("fn", body)
    d.texts["mfront"] = raw
    d.corpus_file = os.path.basename(path)
    d.out_box = boxes.get(d.output.name)
    return d, {v.name: boxes.get(v.name, [None, None]) for v in d.inputs}


def corpus_args(rng, d, boxes):
    out = []
    for v in d.inputs:
        lo, hi = boxes[v.name]
        if lo is None and hi is None:
            lo, hi = 250.0, 1500.0
        elif lo is None:
            lo = hi - 500.0
        elif hi is None:
            hi = lo + 1000.0
        out.append(rng.uniform(lo + 1e-3 * (hi - lo), hi - 1e-3 * (hi - lo)))
    return out


# ---------------------------------------------------------------- build steps
def mfront_env():
    dirs = set()
    for root, _, files in os.walk(vlib.BUILD):
        if any(f.endswith(".so") for f in files):
            dirs.add(root)
    return {"LD_LIBRARY_PATH": ":".join(sorted(dirs))}


def run_mfront(ck, gendir, files):
    exe = os.path.join(vlib.BUILD, "mfront", "src", "mfront")
    with build_tree_in_use():
        p = ck.run([exe, "--interface=c,c++,generic"] + files, cwd=gendir, timeout=280, env=mfront_env())
    if p.returncode != 0:
        raise vlib.BuildError("the mfront binary of the tree fails on the generated material-property files",
                              (p.stdout + p.stderr)[-3000:])


def glue(iface, d):
    n = d.fname
    call_args = ", ".join("a[%d]" % i for i in range(len(d.inputs)))
    if iface == "c":
        return '  {"%s", %d, [](const double* a, const Ov&, Result& r){ (void)a; r.v = %s(%s); }},\n' % (n, len(d.inputs), n, call_args)
    if iface == "cxx":
        sets = "".join('if(kv.first == "%s"){ f.set%s(kv.second); r.set.push_back(1); continue; } ' % (v.name, v.name) for (v, _, _) in d.params)
        return ('  {"%s", %d, [](const double* a, const Ov& ov, Result& r){ (void)a; mfront::%s f; for(const auto& kv : ov){ %sr.set.push_back(0); } '
                'try { r.v = f(%s); } catch(std::exception&){ r.exc = true; } }},\n') % (n, len(d.inputs), n, sets, call_args)
    sets = "for(const auto& kv : ov){ r.set.push_back(%s_setParameter(kv.first.c_str(), kv.second)); } " % n if d.params else "(void)ov; "
    return ('  {"%s", %d, [](const double* a, const Ov& ov, Result& r){ %smfront_gmp_OutputStatus s; std::memset(&s, 0x5a, sizeof s); '
            'r.v = %s(&s, a, %d, GENERIC_MATERIALPROPERTY_NONE_POLICY); r.status = s.status; }},\n') % (n, len(d.inputs), sets, n, len(d.inputs))


def build_harness(ck, iface, descs, gendir):
    suffix = {"c": "", "cxx": "-cxx", "generic": "-generic"}[iface]
    wd = ck.path("h_" + iface)
    os.makedirs(wd, exist_ok=True)
    with open(os.path.join(wd, "c37_sources.inc"), "w") as f:
        for d in descs:
            f.write('#include "%s"\n' % os.path.join(gendir, "src", d.fname + suffix + ".cxx"))
    with open(os.path.join(wd, "c37_table.inc"), "w") as f:
        f.write("static const Entry table[] = {\n" + "".join(glue(iface, d) for d in descs) + '  {"", 0, nullptr}\n};\n')
    inc = [wd, os.path.join(gendir, "include"), vlib.REPO + "/mfront/include"]
    libs = ck.libflags("TFELMath", "TFELException") + ["-lm"]
    with build_tree_in_use():
        return ck.cxx("c37h_" + iface, ["C37/harness.cxx"], flags=("-w", "-frounding-math"), includes=inc, libs=libs, opt="-O0")


def build_all(ck, descs, gendir):
    """one translation unit per interface; when it does not compile, the offending law is searched one by one"""
    out, broken = {}, []
    with ThreadPoolExecutor(max_workers=2) as ex:
        futs = {i: ex.submit(build_harness, ck, i, descs, gendir) for i in IFACES}
        for i, f in futs.items():
            try:
                out[i] = f.result()
            except vlib.BuildError as e:
                broken.append((i, e))
    for (i, e) in broken:
        bad = None
        for d in descs:
            try:
                build_harness(ck, i, [d], gendir)
            except vlib.BuildError as e2:
                bad = (d, e2)
                break
        rep = {"interface": i, "compiler_log": (bad[1].log if bad else e.log)[-2500:]}
        if bad:
            rep["law"] = bad[0].fname
            rep["mfront_file"] = bad[0].texts["mfront"]
        ck.violation("%s:emitted-code-does-not-compile" % SRC[i],
                     "the %s interface emitted for %s does not compile" % (i, bad[0].fname if bad else "the generated laws"), rep, bool(bad))
        good = [d for d in descs if not bad or d is not bad[0]]
        try:
            out[i] = build_harness(ck, i, good, gendir)
        except vlib.BuildError:
            out[i] = None
    return out


# ---------------------------------------------------------------- the check
def effective(d, ov, iface):
    """defaults (+) overrides, evaluated here independently of the Lean model: (values, expected return codes)"""
    pv = [float(p[1]) for p in d.params]
    codes = []
    for (k, v) in ov:
        hit = None
        for i, (var, _, _) in enumerate(d.params):
            keys = [var.name] if iface == "cxx" else [var.ext, var.name]
            if k in keys:
                hit = i
                break
        if iface == "c":
            hit = None
        if hit is None:
            codes.append(0)
        else:
            pv[hit] = v
            codes.append(1)
    return pv, codes


def shutil_copy(a, b):
    with open(a, "rb") as f, open(b, "wb") as g:
        g.write(f.read())


def run(ck):
    rng = random.Random(ck.seed)
    ck.ensure_targets("mfront", "mfront-query")
    nfn, ndata = (14, 6) if ck.quick else (120, 40)
    plan = []
    for i in range(nfn):
        plan.append(("fn", ["short", "medium", "long", "short"][i % 4]))
    kinds = ["lin", "spl", "const0", "const1", "lin", "spl"]
    classes = ["long", "long", "long", "medium", "short", "short", "medium", "short"]
    for i in range(ndata):
        plan.append((kinds[i % 6], classes[i % 8]))
    descs = [rand_desc(rng, i, k, c) for i, (k, c) in enumerate(plan)]
    gendir = ck.path("gen")
    os.makedirs(gendir, exist_ok=True)
    for d in descs:
        d.texts["mfront"] = d.mfront(rng)
        with open(os.path.join(gendir, d.law_name + ".mfront"), "w") as f:
            f.write(d.texts["mfront"])
    for k in range(0, len(descs), 40):
        run_mfront(ck, gendir, [d.law_name + ".mfront" for d in descs[k:k + 40]])

    # the repository's own material properties that lie in the modelled fragment (run level only)
    corpus, corpus_boxes, corpus_skipped = [], {}, {}
    for path in sorted(glob.glob(os.path.join(vlib.REPO, "mfront", "tests", "properties", "*.mfront"))):
        try:
            d, boxes = corpus_desc(path)
            if d.fname in {x.fname for x in descs + corpus}:
                raise ParseError("name already used")
            corpus.append(d)
            corpus_boxes[d.fname] = boxes
        except (ParseError, ValueError) as e:
            corpus_skipped[os.path.basename(path)] = str(e)[:80]
    if ck.quick:
        rng.shuffle(corpus)
        corpus = corpus[:6]
    for d in corpus:
        shutil_copy(os.path.join(vlib.REPO, "mfront", "tests", "properties", d.corpus_file), os.path.join(gendir, d.corpus_file))
    if corpus:
        run_mfront(ck, gendir, [d.corpus_file for d in corpus])

    driver = ck.lean_exe("c37driver", "TfelVerif/C37/Driver.lean")
    res = ck.lean(PROPS, PROPS)
    ck.lean_violations(res)
    if ck.tier == "thorough" and res.ok:
        for m, log in ck.leanchecker(PROPS):
            ck.violation("leanchecker:" + m, "leanchecker rejects " + m, {"log": log}, False)

    # ---- (i) text level: emitted C++ -> IR, against `gen d`
    emitted, spline_txt, parse_errors = {}, {}, {}
    for d in descs:
        for itf in IFACES:
            try:
                emitted[(d.law_name, itf)], sd = EXTRACT[itf](gendir, d)
                if sd is not None:
                    spline_txt[(d.law_name, itf)] = sd
            except (ParseError, ValueError, IndexError, AttributeError, FileNotFoundError) as e:
                parse_errors[(d.law_name, itf)] = "%s: %s" % (type(e).__name__, e)
    # spline slopes: the declared scheme is the natural C2 spline; the emitted slopes are 14-digit decimals
    spline_d, slope_checks, slope_bad = {}, 0, []
    for d in descs:
        if d.law[0] != "spl":
            continue
        pts = sorted_pts(d)
        exact = natural_spline_slopes([p[0] for p in pts], [p[1] for p in pts])
        ref = None
        for itf in IFACES:
            sd = spline_txt.get((d.law_name, itf))
            if sd is None:
                continue
            if ref is None:
                ref = sd
            elif sd != ref:
                slope_bad.append((d, itf, "slopes differ between interfaces: %s vs %s" % (sd, ref)))
            for k, (t, ex) in enumerate(zip(sd, exact)):
                slope_checks += 1
                scale = max(abs(float(e)) for e in exact) or 1.0
                if abs(float(t) - float(ex)) > 1e-12 * scale + 1e-300:
                    slope_bad.append((d, itf, "slope %d emitted as %s, natural C2 spline gives %r" % (k, t, float(ex))))
        spline_d[d.law_name] = [float(t) for t in ref] if ref else [float(e) for e in exact]
    q = "".join("gen %s %s\n" % (itf, d.enc(spline_d.get(d.law_name))) for d in descs for itf in IFACES)
    pm = ck.run([driver], input=q, timeout=280).stdout.splitlines()
    model_ir = {}
    k = 0
    for d in descs:
        for itf in IFACES:
            model_ir[(d.law_name, itf)] = pm[k] if k < len(pm) else "?driver"
            k += 1
    text_diffs = {}
    for d in descs:
        for itf in IFACES:
            key = (d.law_name, itf)
            if key in parse_errors:
                text_diffs[key] = ("parser", "the emitted code has a shape the IR extractor does not know: " + parse_errors[key], None)
                continue
            mod = model_ir[key]
            em = emitted[key]
            if d.law[0] == "spl":           # slopes are compared by the rule above
                mod = re.sub(r"(law=spl \S+ \S+ )(.*?)(;ret)", lambda m: m.group(1) + " ".join(":".join(p.split(":")[:2]) + ":@" for p in m.group(2).split()) + m.group(3), mod)
            if mod != em:
                text_diffs[key] = site_of_difference(itf, mod, em)

    # ---- (ii) run level
    generated = len(descs)
    descs = descs + corpus
    exes = build_all(ck, descs, gendir)
    by_name = {d.fname: d for d in descs}
    ncall = 6 if ck.quick else 10
    calls = {itf: [] for itf in IFACES}             # (desc, args, ov_this_call, ov_effective_history, mode)
    calls["generic-file"] = []
    filedir = ck.path("cwd_files")
    os.makedirs(filedir, exist_ok=True)
    file_ov = {}
    for d in descs:
        base = [sample_args(rng, d) for _ in range(ncall)]
        if d.fname in corpus_boxes:
            base = [corpus_args(rng, d, corpus_boxes[d.fname]) for _ in range(ncall)]
        if d.law[0] in ("lin", "spl"):
            xs = [float(p[0]) for p in sorted_pts(d)]
            extra = [xs[0], xs[-1], xs[len(xs) // 2], xs[0] - 1.5, xs[-1] + 2.25, (xs[0] + xs[1]) / 2,
                     math.nextafter(xs[1], 0.0), math.nextafter(xs[0], 1e9)]
            base = [[x] for x in extra] + [[rng.uniform(xs[0] - 5, xs[-1] + 5)] for _ in range(ncall)]
        if d.law[0] == "const":
            base = base[:2]
        for a in base:
            for itf in IFACES:
                calls[itf].append((d, a, [], [], "defaults"))
        if d.params:
            keys = [v.name for v, _, _ in d.params] + [v.ext for v, _, _ in d.params] + ["nope", d.output.name]
            hist = []
            for a in base[:max(3, ncall // 2)]:
                ov = [(rng.choice(keys), float(lit_any(rng, rng.choice(["short", "long"])))) for _ in range(rng.choice([1, 1, 2, 3]))]
                hist = hist + ov
                calls["generic"].append((d, a, ov, list(hist), "setParameter"))
                cov = [(rng.choice(keys), float(lit_any(rng, rng.choice(["short", "long"])))) for _ in range(rng.choice([1, 2, 3]))]
                calls["cxx"].append((d, a, cov, cov, "setter"))
                calls["c"].append((d, a, [], [], "defaults"))
            if rng.random() < 0.7:
                # parameters file read when the handler is first used (separate process, cwd = filedir)
                fov = [(rng.choice(keys[:-2]), lit_any(rng, rng.choice(["short", "long"]))) for _ in range(rng.choice([1, 2, 3]))]
                with open(os.path.join(filedir, d.fname + "-parameters.txt"), "w") as f:
                    f.write("# parameters of %s\n\n" % d.fname + "".join("%s %s\n" % kv for kv in fov))
                file_ov[d.fname] = [(k, float(v)) for k, v in fov]
                h2 = list(file_ov[d.fname])
                for a in base[:3]:
                    calls["generic-file"].append((d, a, [], list(h2), "parameters-file"))
                ov = [(rng.choice(keys), float(lit_any(rng, "short")))]
                h2 = h2 + ov
                calls["generic-file"].append((d, base[0], ov, list(h2), "parameters-file+setParameter"))

    def line_h(d, a, ov):
        return "%s %d %s %d %s\n" % (d.fname, len(ov), " ".join("%s %s" % (k, bits(v)) for k, v in ov), len(a), " ".join(bits(x) for x in a))

    def line_m(itf, d, a, hist):
        return "eval %s %s ; %d %s ; %d %s\n" % (itf, d.enc(spline_d.get(d.law_name)), len(hist),
                                                " ".join("%s %s" % (k, bits(v)) for k, v in hist), len(a), " ".join(bits(x) for x in a))

    hist = {}
    groups = {}
    distinct = set()
    samples = []
    failing_by_law = {}
    counters = {"evaluations": 0, "finite": 0, "second_round": 0}

    def execute(batch):
        """batch: [(mode, calls)]; one harness run per mode, one run of the Lean driver for everything"""
        out = []
        for mode, cs in batch:
            itf = mode.split("-")[0]
            with build_tree_in_use():
                pi = ck.run([exes[itf]], input="".join(line_h(d, a, ov) for (d, a, ov, _, _) in cs), timeout=280,
                            cwd=filedir if mode == "generic-file" else ck.work)
            impl = pi.stdout.splitlines()
            if pi.returncode != 0 or len(impl) != len(cs):
                ck.violation("harness-crash:" + mode, "the run-time harness of the %s interface aborted (exit %s)" % (mode, pi.returncode),
                             {"stderr": pi.stderr[-1500:]}, False)
            out.append(impl)
        mo = ck.run([driver], input="".join(line_m(mode.split("-")[0], d, a, h) for mode, cs in batch for (d, a, _, h, _) in cs),
                    timeout=280).stdout.splitlines()
        k = 0
        res = []
        for (mode, cs), impl in zip(batch, out):
            res.append((mode, cs, impl, mo[k:k + len(cs)]))
            k += len(cs)
        return res

    def compare(mode, cs, impl, mo):
        itf = mode.split("-")[0]
        for i, (d, a, ov, h, kind) in enumerate(cs):
            if i >= len(impl):
                break
            counters["evaluations"] += 1
            got = impl[i].split()
            mod = mo[i].split() if i < len(mo) else ["missing", "missing"]
            pv, codes = effective(d, h, itf)
            val, eflag = judge_law(d, a, pv, spline_d.get(d.law_name))
            ob = getattr(d, "out_box", None)
            if ob and ((ob[0] is not None and val < ob[0]) or (ob[1] is not None and val > ob[1])):
                hist["corpus:output-outside-its-bounds (C38)"] = hist.get("corpus:output-outside-its-bounds (C38)", 0) + 1
                continue
            nonfinite = val != val or abs(val) == float("inf")
            if not nonfinite and not eflag:
                counters["finite"] += 1
                exp_v, exp_s = bits(val), "0"
            elif itf in ("c", "cxx") and not d.inputs:
                exp_v, exp_s = bits(val), "0"      # without inputs these two interfaces emit no errno / finiteness test
            elif itf == "c":
                exp_v, exp_s = "nan", "0"
            elif itf == "cxx":
                exp_v, exp_s = "exc", "0"
            else:
                exp_v, exp_s = bits(val), ("-4" if nonfinite else "-3")
            exp_codes = ",".join(str(c) for c in codes[len(h) - len(ov):]) if (ov and itf != "c") else "-"
            cls = "%s:%s:%s" % (itf, kind, "finite" if exp_s == "0" and exp_v not in ("nan", "exc") else "contract")
            hist[cls] = hist.get(cls, 0) + 1
            distinct.add((d.fname, mode, tuple(a), tuple(h)))
            if len(samples) < 8 and i % max(1, len(cs) // 3) == 0:
                samples.append("%s[%s](%s) overrides=%s -> %s" % (d.fname, mode, ", ".join(repr(x) for x in a), h, impl[i]))
            lean_ok = len(mod) == 2 and mod[0] == bits(val) and mod[1] == bits(val)
            ok_impl = len(got) == 3 and got[0] == exp_v and got[1] == exp_s and got[2] == exp_codes
            if ok_impl and lean_ok:
                continue
            rep = {"law": d.fname, "interface": itf, "channel": kind, "mfront_file": d.texts["mfront"],
                   "arguments": [repr(x) for x in a], "arguments_bits": [bits(x) for x in a],
                   "overrides_in_order": [[k_, repr(v_)] for k_, v_ in h], "effective_parameters": [repr(x) for x in pv],
                   "declared_law_value": repr(val), "declared_law_bits": bits(val), "errno_set_by_libm": eflag,
                   "implementation_answer": impl[i], "expected_answer": "%s %s %s" % (exp_v, exp_s, exp_codes),
                   "lean_model_answer": " ".join(mod)}
            if mode == "generic-file":
                rep["parameters_file"] = {"name": d.fname + "-parameters.txt", "content": file_ov.get(d.fname)}
            td = text_diffs.get((d.law_name, itf))
            if ok_impl:
                groups.setdefault("corr:lean-model:%s" % itf, ("corr", "Lean model answers `%s` where the implementation and the independent "
                                                                       "evaluation agree on %s" % (" ".join(mod), exp_v), rep))
            elif not lean_ok and len(mod) == 2 and mod[0] == mod[1] and got and got[0] == mod[0] and exp_s == "0":
                groups.setdefault("corr:judge:%s" % itf, ("corr", "the implementation and the Lean model agree on %s, the independent evaluation of "
                                                                  "checks/C37.py gives %s" % (got[0], exp_v), rep))
            else:
                if td:
                    rep["emitted_vs_model"] = td[1]
                    key = "%s:%s" % (site_file(itf, td, d), td[0])
                else:
                    key = "%s:value:%s" % (SRC[itf], kind)
                failing_by_law.setdefault((d.law_name, itf), rep)
                if key not in groups:
                    what = "%s through the %s interface%s returns %s on (%s)%s; the declared law gives %r (%s)" % (
                        d.fname, itf, " (%s)" % kind if kind != "defaults" else "", describe(got), ", ".join(repr(x) for x in a),
                        " after overrides %s" % h if h else "", val, td[1] if td else "no difference at text level")
                    groups[key] = ("viol", what, rep)

    ck.log("calling the compiled functions")
    for (mode, cs, impl, mo) in execute([(m, calls[m]) for m in ("c", "cxx", "generic", "generic-file")
                                         if exes.get(m.split("-")[0]) and calls[m]]):
        compare(mode, cs, impl, mo)
    # second round: a text-level difference whose law/interface passed every call so far gets more calls
    extra = {}
    for (ln, itf) in sorted(text_diffs):
        if (ln, itf) in failing_by_law or not exes.get(itf):
            continue
        d = [x for x in descs if x.law_name == ln][0]
        for _ in range(40):
            if d.law[0] in ("lin", "spl"):
                xs = [float(p[0]) for p in sorted_pts(d)]
                a = [rng.uniform(xs[0] - 5, xs[-1] + 5)]
            else:
                a = sample_args(rng, d)
            extra.setdefault(itf, []).append((d, a, [], [], "defaults"))
    counters["second_round"] = sum(len(cs) for cs in extra.values())
    if extra:
        for (mode, cs, impl, mo) in execute(sorted(extra.items())):
            compare(mode, cs, impl, mo)
    ck.log("run level done")
    evaluations, finite = counters["evaluations"], counters["finite"]
    # text-level differences without a failing call of the same law/interface
    for (ln, itf), td in sorted(text_diffs.items()):
        d = [x for x in descs if x.law_name == ln][0]
        key = "%s:%s" % (site_file(itf, td, d), td[0])
        rep = {"law": d.fname, "interface": itf, "mfront_file": d.texts["mfront"], "difference": td[1],
               "model_ir": model_ir[(ln, itf)], "emitted_ir": emitted.get((ln, itf), parse_errors.get((ln, itf)))}
        wit = failing_by_law.get((ln, itf))
        if key in groups:
            continue
        if wit:
            rep["failing_call"] = wit
        groups[key] = ("viol" if wit else "corr", "text level, %s interface of %s: %s" % (itf, d.fname, td[1]), rep)
    for (d, itf, msg) in slope_bad[:3]:
        groups.setdefault("mfront/src/DataInterpolationUtilities.cxx:writeCollocationPoints:slopes",
                          ("corr", "%s (%s): %s" % (d.fname, itf, msg), {"law": d.fname, "mfront_file": d.texts["mfront"], "detail": msg}))
    for key, (kind, what, rep) in sorted(groups.items()):
        ck.violation(key, what, rep, kind == "viol")

    ck.assumptions += [
        "M, two levels: IR extractor (checks/C37.py, rejects every line it does not know) against the Lean generator model `gen`; "
        "compiled emitted code against `IR.eval`/`Desc.evalLaw` on Float, bit for bit",
        "bodies are restricted to the fragment + - * / unary-minus pow exp log sqrt sin cos tanh abs min max over inputs, parameters, "
        "static variables, literals and the output itself, with = += -= *= /= on the output; mfront copies any other C++ verbatim",
        "libm (pow, exp, ...) is the same shared library in the compiled code, the Lean runtime and the judge; the emitted code is built "
        "with -O0 -ffp-contract=off -frounding-math so that no call is folded or contracted by the compiler",
        "non-finite results / errno raised by libm: only the documented outcome class (NaN, exception, status -3/-4) is checked here (C38 covers it)",
        "spline slopes: emitted as 14-digit decimals; compared with the exact natural C2 spline within 1e-12 relative to the largest slope "
        "(rule stated, not a verdict on values); the compiled value is compared bit for bit with the Hermite evaluation of the emitted points",
        "quantities (@UseQt), bounds (C38), @MaterialLaw imports and unicode symbolic names are not generated",
    ]
    return ck.finish({
        "evaluations": evaluations, "distinct_nontrivial": len(distinct),
        "rule": "one evaluation = one call of a compiled emitted function compared bit for bit with the Lean model and the judge; distinct = "
                "distinct (law, interface/channel, argument vector, override history)",
        "exhaustive": False, "programs": generated, "repository_files_run": [d.corpus_file for d in corpus],
        "repository_files_outside_the_fragment": corpus_skipped, "program_kinds": {k: sum(1 for p in plan if p[0] == k) for k in sorted({p[0] for p in plan})},
        "constant_classes": {c: sum(1 for p in plan if p[1] == c) for c in ("short", "medium", "long")},
        "ir_compared": generated * 3, "ir_differences": len(text_diffs), "ir_parse_errors": len(parse_errors),
        "spline_slopes_checked": slope_checks, "finite_bit_exact_comparisons": finite,
        "second_round_calls": counters["second_round"],
        "histogram": dict(sorted(hist.items())), "samples": samples,
    })


def describe(got):
    if not got:
        return "nothing"
    if got[0] in ("nan", "exc"):
        return got[0]
    try:
        return "%r (status %s)" % (frombits(got[0]), got[1] if len(got) > 1 else "?")
    except Exception:
        return " ".join(got)


def site_file(itf, td, d):
    kind = td[0].replace("-precision", "")
    if kind == "constant-value":
        if td[2] in [s[0] for s in d.statics]:
            return "mfront/src/CodeGeneratorUtilities.cxx:writeStaticVariables"
        return SRC[itf] + ":writeMaterialPropertyBody"
    if kind == "parameter-default":
        return ("mfront/src/MaterialPropertyParametersHandler.cxx:writeMaterialPropertyParametersHandler" if itf == "generic"
                else SRC[itf] + ":writeSrcFile")
    if kind == "law" and d.law[0] in ("lin", "spl"):
        return "mfront/src/DataInterpolationUtilities.cxx"
    if kind == "law" and d.law[0] == "const":
        return "mfront/src/MaterialPropertyDSL.cxx:getFunctionAssociatedWithAValue"
    if kind == "law":
        return "mfront/src/MaterialPropertyDSL.cxx:treatFunction"
    return SRC[itf]
