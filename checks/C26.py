"""C26 — inverse Langevin approximations (tie: T1 symtrace).

harness/C26/trace.cxx instantiates InverseLangevinFunction.ixx with the recording scalar, once per sign
region of the argument (concolic mode) and once per piece of the Bergström–Boyce approximation; the
traces become the Lean definitions under the fixed theorems of lean/TfelVerif/C26/Props.lean.
"""
import math
import random
import re
from fractions import Fraction as F

import emit
import t1
import vlib
from emit import Q2

PROPS = ["TfelVerif.C26.Props"]
C0 = F(*(0.84136).as_integer_ratio())
BC = [F(*x.as_integer_ratio()) for x in (0.84136, 1.31446, 1.58986, 0.91209)]
JC = [F(*x.as_integer_ratio()) for x in (2.99942, -2.57332, 0.654805)]
JD = [F(*x.as_integer_ratio()) for x in (-0.894936, -0.105064)]
MC = [F(3)] + [F(*x.as_integer_ratio()) for x in (
    1.8, 1.6971428571428571, 1.7588571428571429, 1.8718664192949908, 1.9972456800342515, 2.1128236517767944,
    2.2023028715016078, 2.2529578706640487, 2.2557674927967937)]
TAYLOR = [F(3), F(9, 5), F(297, 175), F(1539, 875), F(126117, 67375), F(43733439, 21896875),
          F(231321177, 109484375), F(20495009043, 9306171875), F(1073585186448381, 476522530859375),
          F(4387445039583, 1944989921875)]
REGIONS = {"pos": (F(0), F(1)), "neg": (F(-1), F(0)), "lopos": (F(0), C0), "loneg": (-C0, F(0)),
           "hipos": (C0, F(1)), "hineg": (F(-1), -C0)}


def q(x):
    return Q2(F(x))


def fake(name, args):
    """injective-looking interpretation of the uninterpreted symbols (tan, cos) over Q for the exact search"""
    a = args[0].a
    h = (a.numerator * 7919 + a.denominator * 104729 + (13 if name == "tan" else 17)) % 1000003
    return Q2(F(h + 1, 997))


def sample(rng, region):
    lo, hi = REGIONS[region]
    while True:
        y = lo + (hi - lo) * F(rng.randint(1, 199), 200)
        if lo < y < hi:
            return y


def edge_points(region):
    """deterministic points at and next to the ends of a region: the closed ends themselves (0 belongs to the regions of
    non-negative arguments, c0 to the outer Bergstrom-Boyce pieces: `|y| < c0` selects the inner one) and points at a
    relative distance 2^-40 inside each end — a threshold or a comparison (< vs <=) that is slightly off changes the
    branch taken there although it does not at the seeded interior points"""
    lo, hi = REGIONS[region]
    eps = (hi - lo) / 2 ** 40
    pts = [lo + eps, hi - eps]
    if region in ("pos", "lopos"):
        pts.append(F(0))
    if region == "hipos":
        pts.append(C0)
    if region == "hineg":
        pts.append(-C0)
    return pts


def reference(name, y):
    """expected outputs [f] or [f, df] of a unit at y (exact); oddness is built in: negative regions are
    -f(-y), f'(-y) of the positive formula"""
    approx, kind, region = name.split("_")
    s = 1
    t = y
    if y < 0:
        s, t = -1, -y

    def ratio(N, dN, D, dD):
        return s * N / D, (dN * D - N * dD) / (D * D)
    if approx == "cohen":
        f, df = ratio(t * (3 - t * t), 3 - 3 * t * t, 1 - t * t, -2 * t)
    elif approx == "jedynak":
        N = t * (JC[0] + JC[1] * t + JC[2] * t * t)
        dN = JC[0] + 2 * JC[1] * t + 3 * JC[2] * t * t
        D = 1 + JD[0] * t + JD[1] * t * t
        dD = JD[0] + 2 * JD[1] * t
        f, df = ratio(N, dN, D, dD)
    elif approx in ("morch", "kuhngrun"):
        f = s * sum(c * t ** (2 * k + 1) for k, c in enumerate(MC))
        df = sum((2 * k + 1) * c * t ** (2 * k) for k, c in enumerate(MC))
    else:
        if region.startswith("hi"):
            f, df = s / (1 - t), 1 / ((1 - t) * (1 - t))
        else:
            T = fake("tan", [q(BC[2] * y)]).a
            Cc = fake("cos", [q(BC[2] * y)]).a
            f, df = BC[1] * T + BC[3] * y, BC[1] * BC[2] / (Cc * Cc) + BC[3]
    return [q(f)] if kind == "value" else [q(f), q(df)]


def real_double(ck, tracer, settings):
    """run the real code in double precision at the given inputs {unit: y}; returns {unit: {out: value}}"""
    sh = "".join("%s y %.17g\n" % (u, float(y)) for u, y in settings.items())
    p = ck.run([tracer], env={"VERIF_SHADOW": ck.write("shadow.txt", sh)}, timeout=300)
    res = {}
    for m in re.finditer(r"unit (\S+)\n(.*?)end \1\n", p.stdout, re.S):
        nodes, outs = {}, {}
        for line in m.group(2).splitlines():
            f = line.split()
            if f[0] == "n":
                nodes[int(f[1])] = float(line.split(";")[1])
            elif f[0] == "out":
                outs[f[1]] = int(f[2])
        res[m.group(1)] = {o: nodes[i] for o, i in outs.items()}
    return res


def langevin(x):
    return 1 / math.tanh(x) - 1 / x if abs(x) > 1e-6 else x / 3


def series_reversion_ok():
    """exact: L(sum TAYLOR_k y^(2k+1)) = y + O(y^21) with L(x) = sum 2^(2n) B_2n x^(2n-1)/(2n)!"""
    N = 21

    def bern(n):
        A = [F(0)] * (n + 1)
        for m in range(n + 1):
            A[m] = F(1, m + 1)
            for j in range(m, 0, -1):
                A[j - 1] = j * (A[j - 1] - A[j])
        return A[0]
    L = [F(0)] * (N + 1)
    for n in range(1, 11):
        L[2 * n - 1] = F(2 ** (2 * n)) * bern(2 * n) / math.factorial(2 * n)
    f = [F(0)] * (N + 1)
    for k, e in enumerate(TAYLOR):
        f[2 * k + 1] = e

    def mul(a, b):
        r = [F(0)] * (N + 1)
        for i, x in enumerate(a):
            if x:
                for j, y in enumerate(b):
                    if y and i + j <= N:
                        r[i + j] += x * y
        return r
    comp = [F(0)] * (N + 1)
    p = [F(1)] + [F(0)] * N
    for n in range(1, N + 1):
        p = mul(p, f)
        if L[n]:
            comp = [c + L[n] * x for c, x in zip(comp, p)]
    return comp[:21] == [F(0), F(1)] + [F(0)] * 19


def run(ck):
    tracer = ck.cxx("c26trace", ["C26/trace.cxx", vlib.REPO + "/src/Exception/ContractViolation.cxx"], opt="-O0")
    dag, units = t1.run_tracer(ck, tracer)
    ck.emit([dag], "TfelVerif.C26.Gen", "TfelVerif/C26/Gen.lean")
    res = ck.lean(PROPS, PROPS)
    rng = random.Random(ck.seed)
    byname = {u.name: u for u in units}
    trials = 6 if ck.quick else 60
    stats = {"points": 0, "path_checks": 0, "odd_pairs": 0}
    bad_unit, bad_odd, bad_path = {}, {}, {}

    def ev(u, y):
        return emit.evaluate(u, {"y": q(y)}, fake)

    def holds(val, path):
        cmp_, a, b, r = path
        x, z = val[a].a, val[b].a
        t = {"lt": x < z, "le": x <= z, "gt": x > z, "ge": x >= z, "eq": x == z, "ne": x != z}[cmp_]
        return t == r
    for u in units:
        region = u.name.split("_")[2]
        for y in edge_points(region) + [sample(rng, region) for _ in range(trials)]:
            try:
                val = ev(u, y)
            except ZeroDivisionError:
                continue
            stats["points"] += 1
            # the recorded path condition must hold on the whole region the trace stands for
            for pth in u.paths:
                stats["path_checks"] += 1
                if not holds(val, pth) and u.name not in bad_path:
                    bad_path[u.name] = {"unit": u.name, "y": str(y), "path": list(pth)}
            exp = reference(u.name, y)
            for (oname, node), e in zip(u.outs, exp):
                if not (val[node] == e) and u.name not in bad_unit:
                    bad_unit[u.name] = {"unit": u.name, "output": oname, "y_exact": str(y), "y": float(y),
                                        "code_value": float(val[node]), "spec_value": float(e)}
    # oddness: f(-y) = -f(y), across the traces of the two regions
    for a in ("cohen", "jedynak", "morch", "kuhngrun", "bb"):
        for pr, nr in ((("lopos", "loneg"), ("hipos", "hineg")) if a == "bb" else (("pos", "neg"),)):
            up, un = byname.get("%s_value_%s" % (a, pr)), byname.get("%s_value_%s" % (a, nr))
            if up is None or un is None:
                continue
            for _ in range(trials):
                y = sample(rng, pr)
                try:
                    vp, vn = ev(up, y)[up.outs[0][1]], ev(un, -y)[un.outs[0][1]]
                except ZeroDivisionError:
                    continue
                stats["odd_pairs"] += 1
                if a == "bb" and pr == "lopos":
                    continue   # needs tan odd: symbolic only (theorem bb_odd)
                if not (vn == Q2(0) - vp) and a not in bad_odd:
                    bad_odd[a] = {"approximation": a, "y_exact": str(y), "y": float(y),
                                  "f(y)_exact": float(vp), "f(-y)_exact": float(vn)}
    # replay the counterexamples on the real double code
    for a, b in bad_odd.items():
        pr, nr = ("hipos", "hineg") if a == "bb" else ("pos", "neg")
        r = real_double(ck, tracer, {"%s_value_%s" % (a, pr): b["y"], "%s_value_%s" % (a, nr): -b["y"]})
        b["real_code_double"] = {"f(y)": r["%s_value_%s" % (a, pr)]["f"], "f(-y)": r["%s_value_%s" % (a, nr)]["f"]}
    for n, b in bad_unit.items():
        b["real_code_double"] = real_double(ck, tracer, {n: b["y"]}).get(n)
    for n, b in bad_path.items():
        # the value and the AndDerivative variants of the same approximation on the real double code at that argument
        b["y_double"] = float(F(b["y"]))
        twin = n.replace("_value_", "_deriv_") if "_value_" in n else n.replace("_deriv_", "_value_")
        try:
            r = real_double(ck, tracer, {n: b["y_double"], twin: b["y_double"]})
            b["real_code_double"] = {k: r.get(k) for k in (n, twin)}
        except Exception as e:      # e.g. the real code does not terminate / crashes at this argument
            b["real_code_double"] = "no answer from the real code at this argument: %r" % (e,)
    explained = set()
    if not res.ok:
        def search(fl):
            thm = fl.get("theorem") or ""
            a = thm.split("_")[0]
            if thm.endswith("_odd") and a in bad_odd:
                explained.add("odd:" + a)
                return bad_odd[a]
            for n, b in bad_unit.items():
                if n.startswith(a + "_"):
                    explained.add(n)
                    return b
            for n, b in bad_path.items():
                if n.startswith(a + "_"):
                    explained.add(n)
                    return b
            return None
        ck.lean_violations(res, search)
    # with a broken theorem, the other disagreements with the reference (aliases, units built on the same function) are
    # listed in the evidence; when every theorem checks they are verdicts of their own
    if res.ok:
        for a, b in bad_odd.items():
            ck.violation("odd:" + a, "approximation %s is not odd: f(%g) = %.12g, f(%g) = %.12g on the real code"
                         % (a, b["y"], b["real_code_double"]["f(y)"], -b["y"], b["real_code_double"]["f(-y)"]), b, True)
        for n, b in bad_unit.items():
            if n.split("_")[0] in bad_odd and n.split("_")[2] in ("neg", "loneg", "hineg"):
                continue   # same root cause as the oddness violation (the reference is the odd extension)
            ck.violation("unit:" + n, "traced unit %s differs from the reference formula (%s) although every theorem "
                         "checks" % (n, b["output"]), b, True)
        for n, b in bad_path.items():
            ck.violation("region:" + n, "the branch taken by %s is not the same on the whole region it is traced for"
                         % n, b, True)
    if ck.tier == "thorough" and res.ok:
        for m, log in ck.leanchecker(PROPS):
            ck.violation("leanchecker:" + m, "leanchecker rejects " + m, {"log": log}, False)
    # implementation-side accuracy table (evidence only, never a verdict): |L(f(y)) - y| on the real double code
    table = []
    grid = [0.05, 0.1, 0.2, 0.3, 0.4, 0.5, 0.6, 0.7, 0.8, 0.84, 0.85, 0.9, 0.95, 0.99]
    for y in grid:
        st = {}
        for a in ("cohen", "jedynak", "morch"):
            st["%s_value_pos" % a] = y
            st["%s_value_neg" % a] = -y
        st["bb_value_lopos" if y < float(C0) else "bb_value_hipos"] = y
        r = real_double(ck, tracer, st)
        row = {"y": y}
        for a in ("cohen", "jedynak", "morch"):
            row[a] = abs(langevin(r["%s_value_pos" % a]["f"]) - y)
            row[a + "_neg"] = abs(langevin(r["%s_value_neg" % a]["f"]) + y)
        row["bb"] = abs(langevin(r["bb_value_lopos" if y < float(C0) else "bb_value_hipos"]["f"]) - y)
        table.append(row)
    c0 = float(C0)
    jump = 1 / (1 - c0) - (float(BC[1]) * math.tan(float(BC[2]) * c0) + float(BC[3]) * c0)
    ck.assumptions += [
        "T1: g++ instantiating the templates with verif::Sym performs the same scalar operations as with double; sym.hxx/glue.hxx/emit.py are correct",
        "concolic traces: one trace per sign region (and per Bergström–Boyce piece); checks/C26.py evaluates every recorded path condition "
        "on seeded points of the region and at / next to (relative distance 2^-40) its ends, 0 and c0 included (a region split "
        "differently by the code is reported)",
        "exact field semantics (the double literals are exact dyadic rationals, products of constants are exact); tan and cos are "
        "uninterpreted in the generic statements and Real.tan/Real.cos in the statements over the reals",
        "the claim L(f(y)) = y within the documented accuracy is NOT proved (coth): partial; the accuracy table is evidence only",
    ]
    return ck.finish({
        "units_traced": len(units), "outputs_traced": sum(len(u.outs) for u in units),
        "dag_nodes": sum(len(u.order) for u in units),
        "evaluations": stats["points"] + stats["odd_pairs"], "distinct_nontrivial": stats["points"] + stats["odd_pairs"],
        "rule": "each traced unit evaluated exactly over Q at seeded rational points of its region against an independent closed "
                "formula (value and quotient-rule derivative, odd extension for negative arguments), plus exact oddness pairs "
                "f(-y) = -f(y); distinct = points",
        "search_stats": stats,
        "units_differing_from_reference": sorted(bad_unit), "approximations_not_odd": sorted(bad_odd),
        "units_with_region_dependent_branch": sorted(bad_path),
        "partial": "accuracy with respect to the true inverse Langevin function (needs coth) is not proved",
        "accuracy_table_abs_error_of_L_of_f_minus_y": table,
        "bergstrom_boyce_jump_at_c0": jump,
        "taylor_coefficients_series_reversion_exact": series_reversion_ok(),
        "samples": [{"unit": u.name, "outputs": [o for o, _ in u.outs], "paths": len(u.paths)} for u in units[:4]],
    })
