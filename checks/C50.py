"""C50 — a rejected MTest step leaves no trace (ties: T2 field dump + T3 statement translation + M).

Every run:
  1. the data members of mtest::{CurrentState, StructureCurrentState, StudyCurrentState} are read from the
     headers of the tree and the bodies of their update / revert from the sources (checks/c50gen.py):
       -> lean/TfelVerif/C50/GenState.lean (state record, update, revert, views)  [theorems re-checked on it]
       -> work/C50/gen50.hxx (field visitors of the C++ harness);
  2. Props.lean is re-checked against the regenerated record (revert undoes every attempt write on the
     view; run with rejections = run of the accepted steps, by induction on the script);
  3. correspondence generated record <-> real classes: every field tagged, sequences of
     scribble / revert / update / deep copy, every field dumped and compared (exhaustive over short
     sequences, seeded longer ones);
  4. the property itself on the implementation: the real GenericSolver::execute with injected failures
     (all kinds, nested sub-stepping, both time step modes, acceleration algorithms) versus a run of the
     accepted steps only, final states compared field by field.
"""
import itertools
import os
import random
import re

import vlib
from checks import c48lib, c50gen
from checks.c48lib import hx

PROPS = ["TfelVerif.C50.Props"]
AAS = ["none", "none", "Cast3M", "Secant", "Steffensen", "IronsTuck", "UAnderson", "FAnderson"]
#: mtest sources compiled from the tree into the harness (the anchors and what they need)
SOURCES = ["GenericSolver", "StudyCurrentState", "StructureCurrentState", "CurrentState", "SolverOptions", "Solver"]


def site_of(name, d):
    for struct, fn in (("Study", "StudyCurrentState"), ("SCS", "StructureCurrentState"), ("CS", "CurrentState")):
        if name in [n for _, n in c50gen.clean_members(d[struct])]:
            return "mtest/src/%s.cxx:revert/update:%s" % (fn, name)
    return "mtest/src/GenericSolver.cxx:execute:" + name


def normalise_model(line, kinds):
    """the model carries a tag in every field; the harness cannot in opaque members and only a parity in bools"""
    out = []
    for w in line.split():
        if "=" not in w:
            out.append(w)
            continue
        n, v = w.split("=", 1)
        k = kinds.get(n, "opaque")
        if k == "opaque":
            out.append(n + "=opaque")
        elif k == "bool":
            out.append("%s=b%d" % (n, int(v) % 2))
        else:
            out.append(w)
    return " ".join(out)


def gen_run(rng):
    dyn = rng.random() < 0.5
    mSub = rng.choice([4, 10, 10, 10])
    iterMax = rng.choice([3, 4, 6, 8])
    pp = rng.choice([0, 0, 1, 2])
    aa = rng.choice(AAS)
    ni = rng.choice([1, 1, 2, 3])
    nt = rng.choice([2, 2, 3, 4])
    times = [float(rng.randint(0, 4))]
    for _ in range(nt - 1):
        times.append(times[-1] + rng.choice([1.0, 2.0, 0.5, 4.0]))
    span = times[1] - times[0]
    minTs = rng.choice([-1.0, -1.0, span / 1024, span / 4096])
    maxTs = rng.choice([-1.0, -1.0, span / 2, span])
    minF = rng.choice([-1.0, 0.125, 0.25])
    maxF = rng.choice([-1.0, 1.5, 2.0])
    na = 120
    pfail = rng.choice([0.04, 0.08, 0.12, 0.18, 0.25])
    atts = []
    burst = 0
    head = rng.choice([2, 4, 8])
    for ia in range(na):
        if burst > 0:
            burst -= 1
            fail = True
        else:
            # failures are concentrated on the first attempts (the cascade of halved steps that follows
            # would otherwise exhaust the sub-steps), sparse afterwards
            fail = rng.random() < (0.7 if ia == 0 else (max(pfail, 0.35) if ia < head else pfail / 3))
            if fail and rng.random() < 0.3:
                burst = rng.randint(1, 3)       # nested sub-stepping
        if fail and dyn and rng.random() < 0.4:
            # the attempt converges, the behaviour asks for a smaller time step: rejected by execute only
            atts.append((0, rng.choice([0.5, 0.25, 0.75]), rng.randint(1, 2)))
            continue
        if fail:
            kind = rng.choice([1, 1, 2, 3, 4, 0])
            # an integration failure must happen before the attempt converges (iteration 2 without prediction, 1 with)
            at = (rng.randint(1, 2) if pp == 0 else 1) if kind != 0 else iterMax + 2   # kind 0 converging too late = no convergence
        else:
            kind = 0
            at = rng.randint(1, min(iterMax, 5))
        if dyn:
            # in dynamic mode a successful attempt proposing a factor below one is a rejection too
            f = rng.choice([0.5, 0.25, 0.75, 1.0]) if fail else rng.choice([1.0] * 8 + [1.5, 2.0, 1.25, 0.75])
        else:
            f = rng.choice([1.0, 0.5])
        atts.append((kind, f, at))
    line = "run %d %d %d %d %s %d %s %s %s %s %d %s %d %s" % (
        1 if dyn else 0, mSub, iterMax, pp, aa, ni, hx(minTs), hx(maxTs), hx(minF), hx(maxF), nt,
        " ".join(map(hx, times)), na, " ".join("%d %s %d" % (k, hx(f), a) for k, f, a in atts))
    # a study made of several structures (each with its integration points), with 0..2 auxiliary model states each
    ns, nm = rng.choice([(1, 1), (1, 1), (2, 1), (3, 1), (2, 0), (1, 2), (2, 2)])
    # `runs`: mprops1 / esv0 / desv / e_th0 / e_th1 are computed by the real functions of CurrentState.cxx
    line = "runs %d %d %s" % (ns, nm, line[4:])
    return {"line": line, "structures": ns, "model_states": nm, "dyn": dyn, "mSub": mSub, "iterMax": iterMax, "ppolicy": pp, "acceleration": aa,
            "integration_points": ni, "times": times, "script": atts, "minTs": minTs, "maxTs": maxTs, "minF": minF,
            "maxF": maxF}


def directed_runs():
    """a converged attempt rejected for its time step scaling factor (dynamic mode), at every position
    including the first period, with each prediction policy, alone and followed by a real failure"""
    out = []
    for pp in (0, 1, 2):
        for pos in range(0, 5):
            for tail in ((), ((1, 0.5, 1),)):
                for f in (0.5, 0.75):
                    atts = [(0, 1.0, 1)] * pos + [(0, f, 2)] + list(tail) + [(0, 1.0, 2)] * 40
                    times = [0.0, 1.0, 2.0, 4.0]
                    line = "runs 1 1 1 10 6 %d none 1 %s %s %s %s %d %s %d %s" % (
                        pp, hx(-1.0), hx(-1.0), hx(-1.0), hx(-1.0), len(times), " ".join(map(hx, times)), len(atts),
                        " ".join("%d %s %d" % (k, hx(x), a) for k, x, a in atts))
                    out.append({"line": line, "dyn": True, "mSub": 10, "iterMax": 6, "ppolicy": pp, "acceleration": "none",
                                "integration_points": 1, "times": times, "script": atts, "minTs": -1.0, "maxTs": -1.0,
                                "minF": -1.0, "maxF": -1.0, "directed": "converged attempt rejected for its scaling factor "
                                "at position %d" % pos})
    return out


def compare_run(ans, stat):
    """(verdict, compared?, list of differing (field, with-rejections, direct))"""
    if " A " not in ans:
        return ans.split()[0] if ans else "missing", False, [], 0, 0, [], "?", "?"
    head, rest = ans.split(" A ", 1)
    a, b = rest.split(" B ")
    hd = head.split()
    verdict = hd[0]
    info = dict(w.split("=") for w in hd[1:] if "=" in w)
    if verdict != "end" or info.get("direct") != "end" or info.get("exact") != "1":
        # the control run (same script, inert physics) tells what the script alone leads to
        ctl = info.get("ctl", "?/0").split("/")[0]
        leaks = [x for x in info.get("leak", "-").split(",") if x and x != "-"]
        return verdict + ("" if info.get("exact") == "1" else ":inexact"), False, [], int(info.get("rejected", 0)), \
            int(info.get("accepted", 0)), leaks, ctl, info.get("direct")
    diffs = []
    fa, fb = a.split(), b.split()
    for x, y in zip(fa, fb):
        n = x.split("=")[0]
        if x != y and n not in stat:
            diffs.append((n, x.split("=", 1)[1], y.split("=", 1)[1]))
    if len(fa) != len(fb):
        diffs.append(("layout", str(len(fa)), str(len(fb))))
    leaks = [x for x in info.get("leak", "-").split(",") if x and x != "-"]
    return verdict, True, diffs, int(info.get("rejected", 0)), int(info.get("accepted", 0)), leaks, \
        info.get("ctl", "?/0").split("/")[0], info.get("direct")


def untranslated_search(ck, rng):
    """update / revert left the translated subset: run the failure scripts on the real classes (harness
    visitors from the headers only) and report the smallest history after which a rejected attempt left a trace"""
    d = c50gen.read_members(vlib.REPO)
    ck.write("gen50.hxx", c50gen.cxx_header(d))
    stat = {n for struct in ("CS", "SCS", "Study") for _, n in c50gen.clean_members(d[struct])
            if c50gen.classify(struct, n) == "stat"}
    harness = c48lib.build(ck, "c50h", os.path.join(vlib.VERIF, "harness", "C50", "harness.cxx"),
                           SOURCES + c48lib.ACCEL_SOURCES, extra_includes=[ck.work])
    runs = directed_runs() + [gen_run(rng) for _ in range(400)]
    pr = c48lib.run_harness(ck, harness, "".join(r["line"] + "\n" for r in runs))
    best = None
    for r, a in zip(runs, pr.stdout.splitlines()):
        res = compare_run(a, stat)
        if not (res[5] or (res[1] and res[2])):
            continue
        n = res[3] + res[4]
        if best is None or n < best["attempts"]:
            best = {"fields_not_restored": res[5], "attempts": n, "rejected": res[3], "accepted": res[4],
                    "request": r["line"], "script_prefix": r["script"][:n + 1],
                    "history": {k: r[k] for k in ("dyn", "mSub", "iterMax", "ppolicy", "acceleration", "integration_points",
                                                  "structures", "model_states", "times") if k in r},
                    "final_state_differences_with_the_run_of_the_accepted_steps": [
                        {"field": a_, "with_rejections": b_, "accepted_steps_only": c_} for a_, b_, c_ in res[2][:8]]}
    if best:
        fields = best["fields_not_restored"] or [x["field"] for x in
                                                 best["final_state_differences_with_the_run_of_the_accepted_steps"]]
        ck.violation(site_of(fields[0], d) if fields else "mtest/src/GenericSolver.cxx:execute:final-state",
                     "a rejected attempt leaves a trace (update/revert could not be translated; found by running the "
                     "failure scripts on the real classes): after %d rejected and %d accepted attempts the fields %s are "
                     "not what they are in the run of the accepted steps only" % (best["rejected"], best["accepted"], fields[:6]),
                     best, True)


def run(ck):
    rng = random.Random(ck.seed)
    # 1. regenerate the record and the visitors from the current tree
    try:
        d = c50gen.read_sources(vlib.REPO)
    except c50gen.TranslationError as e:
        # the model of the state cannot be regenerated: the tie is broken (reported below). The property itself
        # is still run on the implementation, so that a concrete failing history is reported when there is one
        try:
            untranslated_search(ck, rng)
        except (vlib.BuildError, c50gen.TranslationError, OSError, ValueError, KeyError, IndexError):
            pass
        raise vlib.BuildError("C50 translator: " + e.what, "the update/revert functions or the state headers left "
                              "the translated subset: the model of the state can no longer be regenerated")
    gpath = ck.write_gen("TfelVerif/C50/GenState.lean", c50gen.lean_module(d))
    # lake decides what is up to date by content hash, vlib's stale-olean test by modification time: when the
    # generated module comes back to an earlier content (a change of the tree that is reverted) lake rightly
    # reuses the oleans of the dependent modules, which are then older than GenState.lean. Drop them so that
    # they are rebuilt (and re-checked) against the module as it is now.
    odir = os.path.join(vlib.LEAN, ".lake", "build", "lib", "lean", "TfelVerif", "C50")
    for mod in ("Lemmas", "Props"):
        olean = os.path.join(odir, mod + ".olean")
        if os.path.exists(olean) and os.path.getmtime(olean) < os.path.getmtime(gpath):
            for fn in os.listdir(odir):
                if fn.startswith(mod + "."):
                    os.remove(os.path.join(odir, fn))
    ck.write("gen50.hxx", c50gen.cxx_header(d))
    kinds = {}
    for (struct, n), k in c50gen.field_kinds(d).items():
        if n in kinds and kinds[n] != k:
            raise vlib.BuildError("field name %s has two carriers (%s, %s)" % (n, kinds[n], k), "")
        kinds[n] = k
    classes = {}
    for struct in ("CS", "SCS", "Study"):
        for _, n in c50gen.clean_members(d[struct]):
            classes[n] = c50gen.classify(struct, n)
    unknown = [n for struct in ("CS", "SCS", "Study") for _, n in c50gen.clean_members(d[struct])
               if n not in c50gen.CLASSES[struct]]
    stat = {n for n, c in classes.items() if c == "stat"}

    harness = c48lib.build(ck, "c50h", os.path.join(vlib.VERIF, "harness", "C50", "harness.cxx"),
                           SOURCES + c48lib.ACCEL_SOURCES, extra_includes=[ck.work])
    driver = ck.lean_exe("c50driver", "TfelVerif/C50/Driver.lean")

    # 4. (run first: it is also the failing-input search of the broken obligations)
    runs = directed_runs() + [gen_run(rng) for _ in range(600 if ck.quick else 12000)]
    pr = c48lib.run_harness(ck, harness, "".join(r["line"] + "\n" for r in runs))
    rout = pr.stdout.splitlines()
    if pr.returncode != 0:
        # the harness aborted (sanitizer or crash) and the answers of the whole batch are lost: the runs are done
        # again in one process per acceleration algorithm, so that the groups that survive are still compared
        rout = ["missing"] * len(runs)
        groups = {}
        for i, r in enumerate(runs):
            groups.setdefault(r["acceleration"], []).append(i)
        for aa, idx in sorted(groups.items()):
            pg = c48lib.run_harness(ck, harness, "".join(runs[i]["line"] + "\n" for i in idx))
            lines = pg.stdout.splitlines()
            if pg.returncode != 0 or len(lines) != len(idx):
                ck.violation("harness-crash:" + aa, "the implementation harness aborted (sanitizer or crash) on the runs with "
                             "the acceleration algorithm '%s'" % aa, {"stderr": pg.stderr[-3000:],
                                                                       "first_request_of_the_group": runs[idx[0]]["line"]}, False)
                continue
            for i, l in zip(idx, lines):
                rout[i] = l
    hist = {}
    compared = 0
    rejected_total = 0
    accepted_total = 0
    with_rejections = 0
    failing = {}       # unexplained differences: smallest failing history
    leaked = {}        # field -> smallest history after which it holds a value of a rejected attempt
    runs_differing = 0
    aborted = {}
    distinct = set()
    for r, a in zip(runs, rout):
        res = compare_run(a, stat)
        verdict = res[0]
        hist["run:" + verdict] = hist.get("run:" + verdict, 0) + 1
        hist_key = {k: r[k] for k in ("dyn", "mSub", "iterMax", "ppolicy", "acceleration", "integration_points", "times",
                                      "minTs", "maxTs", "minF", "maxF")}
        hist_key["structures"] = r.get("structures", 1)
        hist_key["model_states"] = r.get("model_states", 1)
        if r.get("directed"):
            hist_key["directed"] = r["directed"]
        for n in res[5]:
            # tag run: after `revert` the readable field n is not what it was when the rejected attempt started
            old = leaked.get(n)
            if old is None or res[3] + res[4] < old["attempts"]:
                leaked[n] = {"field": n, "attempts": res[3] + res[4], "rejected": res[3], "accepted": res[4],
                             "what": "at the beginning of the attempt that follows a rejected one, the field is not what it "
                                     "was when the rejected attempt started (it holds a value written by or because of it)",
                             "request": r["line"], "history": hist_key, "script_prefix": r["script"][:res[3] + res[4] + 1],
                             "final_state_differences_with_the_run_of_the_accepted_steps": [
                                 {"field": a_, "with_rejections": b_, "accepted_steps_only": c_} for a_, b_, c_ in res[2][:8]]}
        if not res[1]:
            if verdict.startswith("err") or "!accepted-detection" in verdict:
                ck.violation("run:harness", "run request failed unexpectedly: " + a[:200], {"request": r["line"]}, False)
            elif verdict.split(":inexact")[0] != "end" and res[6] == "end" and res[7] == "end" and r["acceleration"] == "none":
                # the script alone (control run) completes, the direct run of the accepted steps completes,
                # the run with rejections aborts: something a rejected attempt left behind changed the course
                old = aborted.get("abort")
                if old is None or res[3] + res[4] < old["attempts"]:
                    aborted["abort"] = {"verdict": verdict, "attempts": res[3] + res[4], "rejected": res[3], "accepted": res[4],
                                        "request": r["line"], "history": hist_key, "script_prefix": r["script"][:res[3] + res[4] + 2],
                                        "fields_not_restored": res[5]}
            continue
        compared += 1
        rejected_total += res[3]
        accepted_total += res[4]
        with_rejections += res[3] > 0
        distinct.add((r["dyn"], r["acceleration"], r["ppolicy"], min(res[3], 5), min(res[4], 8), r["integration_points"],
                      r.get("structures", 1), r.get("model_states", 1)))
        if res[2] and not res[5]:
            old = failing.get("diff")
            if old is None or res[3] + res[4] < old["attempts"]:
                failing["diff"] = {"fields": [x[0] for x in res[2]], "attempts": res[3] + res[4], "rejected": res[3],
                                   "accepted": res[4], "request": r["line"], "history": hist_key,
                                   "script_prefix": r["script"][:res[3] + res[4]],
                                   "differences": [{"field": a_, "with_rejections": b_, "accepted_steps_only": c_}
                                                   for a_, b_, c_ in res[2][:12]]}
        if res[2]:
            runs_differing += 1

    def search(_failure=None):
        cands = list(leaked.values()) + list(failing.values()) + list(aborted.values())
        if not cands:
            return None
        return sorted(cands, key=lambda x: x["attempts"])[0]

    # 2. theorems on the regenerated record
    res = c48lib.lean_checked(ck, PROPS)
    ck.lean_violations(res, search)
    if not ck.quick:
        for m, msg in ck.leanchecker(PROPS):
            ck.violation("leanchecker:" + m, "leanchecker rejects " + m, {"log": msg}, False)

    # the property on the implementation
    many = len(leaked) > 4
    for n, rep in sorted(leaked.items()):
        if many:
            break
        ck.violation(site_of(n, d), "a rejected attempt leaves a trace: at the beginning of the next attempt the field %s (read by "
                     "it) is not what it was when the rejected attempt started (history: %d rejected, %d accepted attempts)"
                     % (n, rep["rejected"], rep["accepted"]), rep, True)
    if many:
        rep = sorted(leaked.values(), key=lambda x: x["attempts"])[0]
        rep = dict(rep)
        rep["fields"] = sorted(leaked)
        ck.violation("mtest/src/GenericSolver.cxx:execute:revert", "a rejected attempt leaves a trace in %d fields (%s ...): "
                     "the state is not reverted" % (len(leaked), ", ".join(sorted(leaked)[:6])), rep, True)
    if "abort" in aborted:
        rep = aborted["abort"]
        ck.violation("mtest/src/GenericSolver.cxx:execute:abort-after-rejection", "the run with rejections aborts (%s) after %d "
                     "rejected and %d accepted attempts although the script alone completes and the run of the accepted steps "
                     "only completes: a rejected attempt left a trace (fields not restored: %s)"
                     % (rep["verdict"], rep["rejected"], rep["accepted"], rep["fields_not_restored"] or "?"), rep, True)
    if "diff" in failing:
        rep = failing["diff"]
        ck.violation("mtest/src/GenericSolver.cxx:execute:final-state", "after a run with %d rejected attempts the final state "
                     "differs from the run of the %d accepted steps only (fields %s)" % (rep["rejected"], rep["accepted"],
                                                                                        rep["fields"][:6]), rep, True)

    # 3. correspondence record <-> classes
    reqs = []
    shapes = [(1, 1, 0), (1, 2, 1), (2, 1, 1), (3, 2, 2)]
    for L in range(0, 5):
        for ops in itertools.product("sruf", repeat=L):
            for sh in (shapes[:2] if L > 2 else shapes):
                reqs.append("rv %d %d %d %s" % (sh + (" ".join(ops),)))
    for _ in range(300 if ck.quick else 5000):
        sh = rng.choice(shapes)
        L = rng.randint(5, 14)
        reqs.append("rv %d %d %d %s" % (sh + (" ".join(rng.choice("ssruf") for _ in range(L)),)))
    text = "".join(x + "\n" for x in reqs)
    pi = c48lib.run_harness(ck, harness, text)
    pm = ck.run([driver], input=text, timeout=1200)
    if pi.returncode != 0:
        ck.violation("harness-crash", "the implementation harness aborted (sanitizer or crash)",
                     {"stderr": pi.stderr[-3000:]}, False)
    impl = pi.stdout.splitlines()
    model = pm.stdout.splitlines()
    disagreements = 0
    reported = set()
    for i, rq in enumerate(reqs):
        a = impl[i] if i < len(impl) else "missing"
        m = normalise_model(model[i], kinds) if i < len(model) else "missing"
        if a != m:
            disagreements += 1
            fa, fm = a.split(), m.split()
            bad = [x.split("=")[0] for x, y in zip(fa, fm) if x != y] or ["layout"]
            key = "corr:" + site_of(bad[0], d)
            if key in reported:
                continue
            reported.add(key)
            wit = search()
            rep = {"request": rq, "first_differing_fields": bad[:6], "implementation": a[:1500], "model": m[:1500]}
            if wit:
                rep["failing_input"] = wit
            ck.violation(key, "the generated record and the real state classes disagree after '%s' on %s" % (rq, bad[:4]),
                         rep, bool(wit))
    if unknown:
        ck.notes.append("fields not in the classification table (treated as written by the attempts): %s" % unknown)

    ck.assumptions += [
        "T2/T3: checks/c50gen.py reads the data members from the headers and translates the update/revert bodies (assignments between members, the loops over the sub-states); anything else makes it fail (tie broken)",
        "the classification of the fields (c50gen.CLASSES: pers / end / recomp / stat) is a reading of GenericSolver.cxx, MTest.cxx, SingleStructureScheme.cxx; unknown fields default to 'written by the attempts'",
        "assumed, not proved: iterate (MTest::prepare, behaviour integration, Newton update) reads only the view (pers + end fields) and writes no pers field; the mock physics of the harness does by construction (hash of everything readable -> every writable field)",
        "the LagrangeMultipliersNormalisationFactor study parameter set by MTest::computeStiffnessMatrixAndResidual at the first residual evaluation (even of a rejected attempt) is outside the anchors and not exercised by the mock",
        "private members of StructureCurrentState / protected members of StudyCurrentState cannot carry a tag (opaque in the correspondence)",
    ]
    return ck.finish({
        "evaluations": len(reqs) + len(runs), "distinct_nontrivial": len(distinct) + sum(1 for _ in itertools.chain.from_iterable(
            itertools.product("sruf", repeat=L) for L in range(0, 5))),
        "rule": "rv requests = every sequence of at most 4 operations over {scribble, revert, update, deep copy} on 2-4 container shapes, plus seeded longer ones (distinct = the sequences; each exercises a different composition of the translated statements); run requests = seeded failure scripts (distinct = (mode, acceleration algorithm, prediction, #rejected bucket, #accepted bucket, #integration points) classes observed among the compared runs)",
        "exhaustive": False, "disagreements": disagreements + runs_differing + len(aborted),
        "directed_runs_converged_attempt_rejected_for_its_scaling_factor": len(directed_runs()),
        "fields_found_holding_a_rejected_attempt_value": sorted(leaked),
        "traces_validated_against_impl": len(reqs),
        "runs_compared_with_direct_run": compared, "runs_with_at_least_one_rejection": with_rejections,
        "rejected_attempts_total": rejected_total, "accepted_steps_total": accepted_total,
        "fields": {n: classes[n] for n in classes}, "unknown_fields": unknown,
        "histogram": hist,
        "samples": [reqs[5], reqs[300], runs[0]["line"][:160] + " ...", (rout[0][:200] if rout else "?")],
    })
