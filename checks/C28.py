"""C28 — modelling hypotheses and axes conventions are coherent (ties: T2 + T3-lite tables, T1 symbolic tracing).

Every run, from the tree under test:
  * hypotheses: src/Material/ModellingHypothesis.cxx is (a) parsed — the if-chains of toString / toUpperCaseString /
    fromString / getSpaceDimension / getStensorSize / getTensorSize, the disjunction of isModellingHypothesis, the list of
    getModellingHypotheses — into Lean functions defined on every string / enumerator, (b) compiled into harness/C28/dump.cxx
    which calls the real accessors over the enum and probe strings; both go to GenTable.lean; Props.lean proves in the
    kernel that (a) reproduces (b), then the round trips / membership / size tables for ARBITRARY strings.
  * conventions: harness/C28/trace.cxx instantiates convertStressFreeExpansionStrain<H,C>, computeHillTensor<H,C>,
    computeOrthotropicStiffnessTensor<H,smt,C>, computeJ2O/J3O (+ derivatives) with the recording scalar for every
    hypothesis and convention -> Gen.lean (GenPlate.lean for the PLATE stiffness, traced by a separate program); the
    Props* modules prove that each reduced-hypothesis object is the 3D object read through the documented axis permutation.
Failing-input search: exact evaluation of every traced unit against an independent python reference (documented formulas),
replayed on the real double code.
"""
import os
import random
import re
import sys
from fractions import Fraction

import t1
import vlib
import emit
from emit import Q2

sys.path.insert(0, os.path.join(vlib.VERIF, "harness", "C28"))
import mh  # noqa: E402

PROPS_TABLE = ["TfelVerif.C28.Props"]
PROPS_AXES = ["TfelVerif.C28.PropsAxes", "TfelVerif.C28.PropsStiff3D", "TfelVerif.C28.PropsStiffUDefault",
              "TfelVerif.C28.PropsStiffUPipe", "TfelVerif.C28.PropsStiffADefault", "TfelVerif.C28.PropsStiffAPipe",
              "TfelVerif.C28.PropsPlasticity"]
PROPS_PLATE = ["TfelVerif.C28.PropsPlate"]
H = {"AGPE": 1, "AGPS": 1, "AXI": 2, "PS": 2, "PE": 2, "GPE": 2, "TRI": 3}
SZ = {1: 3, 2: 4, 3: 6}
PLANE = ("PS", "PE", "GPE")
NAMES = ["AxisymmetricalGeneralisedPlaneStrain", "AxisymmetricalGeneralisedPlaneStress", "Axisymmetrical", "PlaneStress",
         "PlaneStrain", "GeneralisedPlaneStrain", "Tridimensional"]
PLATE_REPRODUCER = """@DSL Implicit;
@Behaviour PlateElasticity;
@ModellingHypotheses {Tridimensional, PlaneStrain};
@OrthotropicBehaviour<Plate>;
@ComputeStiffnessTensor<UnAltered>{150e9, 70e9, 40e9, 0.31, 0.23, 0.17, 30e9, 20e9, 10e9};
@ComputeStress { sig = D * eel; }
@Integrator { feel -= deto; }
// mfront --interface=generic PlateElasticity.mfront && g++ -std=c++20 -fsyntax-only -Iinclude src/PlateElasticity-generic.cxx
"""


def q(x):
    return Q2(Fraction(x), 0)


def perm(h, c):
    return [0, 2, 1, 4] if (c == "PIPE" and h in PLANE) else list(range(SZ[H[h]]))


def hill3d(F, G, Hh, L, M, N):
    """Mandel matrix of the documented quadratic form F(s11-s22)^2 + G(s22-s33)^2 + H(s33-s11)^2 + 2L s12^2 + 2M s13^2 + 2N s23^2
    (Mandel shear components carry sqrt2, hence L, M, N on the diagonal)"""
    m = [[Fraction(0)] * 6 for _ in range(6)]
    for (a, b, k) in ((0, 1, F), (1, 2, G), (2, 0, Hh)):
        m[a][a] += k
        m[b][b] += k
        m[a][b] -= k
        m[b][a] -= k
    m[3][3], m[4][4], m[5][5] = L, M, N
    return m


def inv3(a):
    det = (a[0][0] * (a[1][1] * a[2][2] - a[1][2] * a[2][1]) - a[0][1] * (a[1][0] * a[2][2] - a[1][2] * a[2][0]) +
           a[0][2] * (a[1][0] * a[2][1] - a[1][1] * a[2][0]))
    if det == 0:
        raise ZeroDivisionError
    c = [[(a[(j + 1) % 3][(i + 1) % 3] * a[(j + 2) % 3][(i + 2) % 3] - a[(j + 1) % 3][(i + 2) % 3] * a[(j + 2) % 3][(i + 1) % 3]) / det
          for j in range(3)] for i in range(3)]
    return c


def stiff3d(E1, E2, E3, n12, n23, n13, G12, G23, G13):
    """documented orthotropic elasticity: compliance S (nu_ij / E_i convention), C = S^-1, shear 2G in Mandel storage"""
    S = [[1 / E1, -n12 / E1, -n13 / E1], [-n12 / E1, 1 / E2, -n23 / E2], [-n13 / E1, -n23 / E2, 1 / E3]]
    C = inv3(S)
    m = [[Fraction(0)] * 6 for _ in range(6)]
    for i in range(3):
        for j in range(3):
            m[i][j] = C[i][j]
    m[3][3], m[4][4], m[5][5] = 2 * G12, 2 * G13, 2 * G23
    return m


def condense(m, k, idx):
    return {(i, j): m[i][j] - m[i][k] * m[k][j] / m[k][k] for i in idx for j in idx}


def specs(units):
    by = {u.name: u for u in units}
    S = {}

    def rnd(rng, nz=False):
        return t1.rnd_rat(rng, nz)
    for h in H:
        n = SZ[H[h]]
        for c in ("DEFAULT", "PIPE", "PLATE"):
            def sfe(rng, h=h, c=c, n=n):
                v = [rnd(rng) for _ in range(n)]
                r = list(v)
                if c == "PIPE" and h in PLANE:
                    r[1], r[2] = v[2], v[1]
                return {"s%d" % i: q(v[i]) for i in range(n)}, [q(x) for x in r]
            S["sfe_%s_%s" % (h, c)] = sfe

            def hill(rng, h=h, c=c, n=n):
                k = [rnd(rng) for _ in range(6)]
                m = hill3d(*k)
                p = perm(h, c)
                return dict(zip(["hF", "hG", "hH", "hL", "hM", "hN"], [q(x) for x in k])), [q(m[p[i]][p[j]]) for i in range(n) for j in range(n)]
            S["hill_%s_%s" % (h, c)] = hill
            for a in ("U", "A"):
                def stiff(rng, h=h, c=c, n=n, a=a):
                    E = [abs(rnd(rng, True)) + 1 for _ in range(3)]
                    nu = [Fraction(rng.randint(1, 4), 10) for _ in range(3)]
                    G = [abs(rnd(rng, True)) for _ in range(3)]
                    m = stiff3d(E[0], E[1], E[2], nu[0], nu[1], nu[2], G[0], G[1], G[2])
                    p = perm(h, c)
                    out = [[m[p[i]][p[j]] for j in range(n)] for i in range(n)]
                    if a == "A" and h in ("PS", "AGPS"):
                        if h == "PS":
                            k3, inpl = p[2], [0, 1]
                        else:
                            k3, inpl = 1, [0, 2]      # AGPS: the axial stress (zz = index 1 of rr,zz,tt) is the prescribed one
                        cd = condense(m, k3, [p[i] for i in inpl])
                        out = [[Fraction(0)] * n for _ in range(n)]
                        for i in inpl:
                            for j in inpl:
                                out[i][j] = cd[(p[i], p[j])]
                        if n == 4:
                            out[3][3] = m[p[3]][p[3]]
                    env = dict(zip(["E1", "E2", "E3", "nu12", "nu23", "nu13", "G12", "G23", "G13"], [q(x) for x in E + nu + G]))
                    return env, [q(out[i][j]) for i in range(n) for j in range(n)]
                S["stiff_%s_%s_%s" % (h, a, c)] = stiff
    for f, nc, pre in (("j2o", 6, "a"), ("j3o", 11, "b")):
        for suffix in ("", "_d", "_d2"):
            for d in (1, 2):
                n = SZ[d]
                name3 = "%s%s_N3" % (f, suffix)

                def red(rng, n=n, nc=nc, pre=pre, suffix=suffix, name3=name3):
                    s = [rnd(rng) for _ in range(n)]
                    co = [rnd(rng) for _ in range(nc)]
                    env = {"s%d" % i: q(s[i]) for i in range(n)}
                    env.update({"%s%d" % (pre, i + 1): q(co[i]) for i in range(nc)})
                    env3 = dict(env)
                    for i in range(n, 6):
                        env3["s%d" % i] = q(0)
                    u3 = by[name3]
                    val = emit.evaluate(u3, env3)
                    outs3 = [val[node] for _, node in u3.outs]
                    if suffix == "":
                        exp = outs3
                    elif suffix == "_d":
                        exp = outs3[:n]
                    else:
                        exp = [outs3[6 * i + j] for i in range(n) for j in range(n)]
                    return env, exp
                if name3 in by:
                    S["%s%s_N%d" % (f, suffix, d)] = red

    def j2o3(rng):
        s = [rnd(rng) for _ in range(6)]
        a = [rnd(rng) for _ in range(6)]
        env = {"s%d" % i: q(s[i]) for i in range(6)}
        env.update({"a%d" % (i + 1): q(a[i]) for i in range(6)})
        v = (a[5] * s[5] ** 2 + a[4] * s[4] ** 2 + a[3] * s[3] ** 2) / 2 + \
            (a[1] * (s[1] - s[2]) ** 2 + a[2] * (s[0] - s[2]) ** 2 + a[0] * (s[0] - s[1]) ** 2) / 6
        return env, [q(v)]
    S["j2o_N3"] = j2o3
    return S


DOC_TABLE = {"AxisymmetricalGeneralisedPlaneStrain": (1, 3, 3), "AxisymmetricalGeneralisedPlaneStress": (1, 3, 3),
             "Axisymmetrical": (2, 4, 5), "PlaneStress": (2, 4, 5), "PlaneStrain": (2, 4, 5),
             "GeneralisedPlaneStrain": (2, 4, 5), "Tridimensional": (3, 6, 9)}


def table_search(dump):
    """the hypothesis half of the property evaluated on what the compiled accessors answered:
    returns the first concrete violation (or None)"""
    S = {s: (b, f) for (s, b, f) in dump["s"]}
    names = {}
    for (v, ts, up, dim, st, te) in dump["h"]:
        listed = v in dump["hyps"]
        if listed and ts == "!":
            return {"input": "enumerator %d" % v, "observed": "toString raises for a hypothesis returned by getModellingHypotheses"}
        if not listed:
            if (ts, up, dim, st, te) != ("!",) * 5 and v == max(x for x, _ in dump["enum"]):
                return {"input": "UNDEFINEDHYPOTHESIS", "observed": {"toString": ts, "dim": dim}, "expected": "every accessor raises"}
            continue
        names[ts] = v
        if ts in S:
            b, f = S[ts]
            if f != v:
                return {"input": "hypothesis %d ('%s')" % (v, ts), "observed": "fromString(toString(h)) = %s" % f, "expected": v}
            if not b:
                return {"input": ts, "observed": "isModellingHypothesis('%s') = false for the name of hypothesis %d" % (ts, v)}
        if up != ts.upper():
            return {"input": "hypothesis %d" % v, "observed": "toUpperCaseString = %s" % up, "expected": ts.upper()}
        if ts in DOC_TABLE and (dim, st, te) != tuple(str(x) for x in DOC_TABLE[ts]):
            return {"input": "hypothesis %s" % ts, "observed": {"getSpaceDimension": dim, "getStensorSize": st, "getTensorSize": te},
                    "expected_documented": DOC_TABLE[ts]}
        trow = [t for t in dump["t"] if t[0] == v]
        if trow and tuple(str(x) for x in trow[0][1:]) != (dim, st, te):
            return {"input": "hypothesis %s" % ts, "observed": {"compile_time_tables": trow[0][1:], "run_time_functions": (dim, st, te)}}
    if sorted(dump["hyps"]) != sorted(set(dump["hyps"])) or len(dump["hyps"]) != len(dump["enum"]) - 1:
        return {"input": "getModellingHypotheses()", "observed": dump["hyps"], "expected": "every enumerator but the last, once"}
    if set(names) != set(DOC_TABLE):
        return {"input": "names", "observed": sorted(names), "expected": sorted(DOC_TABLE)}
    for s, (b, f) in S.items():
        if (s in names) != b:
            return {"input": s, "observed": "isModellingHypothesis('%s') = %s" % (s, b), "expected": s in names}
        if (s in names) != (f is not None) or (f is not None and f != names[s]):
            return {"input": s, "observed": "fromString('%s') = %s" % (s, "raises" if f is None else f),
                    "expected": names.get(s, "raises")}
    return None


def probes(rng):
    out = []
    for n in NAMES:
        out += [n, n.upper(), n.lower(), n + " ", " " + n, n[:-1], n + "s", n[0].lower() + n[1:], n.swapcase()]
    out += ["", "Undefined", "UNDEFINEDHYPOTHESIS", "UndefinedHypothesis", "3D", "PlaneStressPlaneStrain", "Plane Stress", "plane_stress"]
    alphabet = "AGPSaeilnrstxy dm"
    for _ in range(60):
        base = rng.choice(NAMES)
        k = rng.randrange(len(base))
        out.append(rng.choice([base[:k] + rng.choice(alphabet) + base[k + 1:], base[:k] + base[k + 1:], base[:k] + rng.choice(alphabet) + base[k:],
                               "".join(rng.choice(alphabet) for _ in range(rng.randint(1, 12)))]))
    seen, res = set(), []
    for s in out:
        if s not in seen and "\n" not in s and '"' not in s and "\\" not in s:
            seen.add(s)
            res.append(s)
    return res



def lean_checked(ck, mods, props):
    """ck.lean, re-run once when a props module could not be audited although lake succeeded (its .olean was
    momentarily missing: the lake build directory is shared); still unaudited afterwards = broken obligation"""
    res = ck.lean(mods, props)
    if res.ok and res.failed:
        ck.lean_results.pop()
        res = ck.lean(mods, props)
        if res.ok and res.failed:
            res.ok = False
    return res

def run(ck):
    rng = random.Random(ck.seed)
    src = vlib.REPO + "/src/"
    # ------------------------------------------------------------------ hypotheses: T2 dump + T3-lite parse
    dumper = ck.cxx("c28dump", ["C28/dump.cxx", src + "Material/ModellingHypothesis.cxx", src + "Exception/TFELException.cxx"])
    pr = probes(rng)
    p = ck.run([dumper], input="".join(s + "\n" for s in pr))
    if p.returncode != 0:
        raise vlib.BuildError("C28 dump program failed", p.stderr[-2000:])
    dump = mh.parse_dump(p.stdout)
    try:
        parsed = mh.parse_source(open(src + "Material/ModellingHypothesis.cxx").read(),
                                 open(vlib.REPO + "/include/TFEL/Material/ModellingHypothesis.hxx").read())
    except mh.Unsupported as e:
        raise vlib.BuildError("T3: ModellingHypothesis.cxx left the supported shape: %s" % e, str(e))
    ck.write_gen("TfelVerif/C28/GenTable.lean", mh.to_lean(parsed, dump))
    # ------------------------------------------------------------------ conventions: T1
    cv = src + "Exception/ContractViolation.cxx"
    tracer = ck.cxx("c28trace", ["C28/trace.cxx", cv], opt="-O0")
    dag, units = t1.run_tracer(ck, tracer)
    ck.emit([dag], "TfelVerif.C28.Gen", "TfelVerif/C28/Gen.lean")
    plate_units, plate_tracer, plate_error = [], None, None
    try:
        plate_tracer = ck.cxx("c28plate", ["C28/trace.cxx", cv], opt="-O0", flags=("-DC28_PLATE_STIFFNESS",))
        dagp, plate_units = t1.run_tracer(ck, plate_tracer, out="plate.dag")
        ck.emit([dagp], "TfelVerif.C28.GenPlate", "TfelVerif/C28/GenPlate.lean")
    except vlib.BuildError as e:
        plate_error = e
    props = PROPS_TABLE + PROPS_AXES + (PROPS_PLATE if plate_error is None else [])
    res = lean_checked(ck, props, props)

    if plate_error is not None:
        m = re.search(r"error: ([^\n]*)", plate_error.log or "")
        ck.violation("StiffnessTensor.ixx:ComputeOrthotropicStiffnessTensor<H,smt,PLATE>:undefined",
                     "computeOrthotropicStiffnessTensor<H, smt, OrthotropicAxesConvention::PLATE> cannot be instantiated for any hypothesis "
                     "(no definition of internals::ComputeOrthotropicStiffnessTensor for PLATE) although the PLATE convention is documented for "
                     "Tridimensional / PlaneStress / PlaneStrain / GeneralisedPlaneStrain and mfront emits this call for "
                     "@OrthotropicBehaviour<Plate> + @ComputeStiffnessTensor",
                     {"configuration": {"hypothesis": "TRIDIMENSIONAL (and PLANESTRESS, PLANESTRAIN, GENERALISEDPLANESTRAIN)",
                                        "convention": "PLATE", "alteration": "UNALTERED and ALTERED"},
                      "compiler_error": (m.group(1) if m else (plate_error.log or "")[-600:]),
                      "mfront_reproducer": PLATE_REPRODUCER,
                      "unchecked_theorems": "TfelVerif.C28.PropsPlate (8 theorems) could not be re-checked"}, True)

    # ------------------------------------------------------------------ exact evaluation against the documented formulas
    S = specs(units + plate_units)
    trials = 3 if ck.quick else 30
    found, stats = t1.search_units(ck, units, S, rng, tracer, trials=trials)
    if plate_units:
        f2, s2 = t1.search_units(ck, plate_units, S, rng, plate_tracer, trials=trials)
        found += f2
        for k in stats:
            stats[k] += s2[k]
    by_unit = {f["unit"]: f for f in found}
    table_witness = table_search(dump)
    if not res.ok:
        def search(fl):
            thm = (fl.get("theorem") or "")
            if "C28/Props.lean" in (fl.get("file") or "") or "GenTable" in (fl.get("file") or ""):
                return table_witness
            cands = sorted([u for u in by_unit if thm == u or thm.startswith(u + "_") or thm.startswith(u)], key=len, reverse=True)
            return by_unit[cands[0]] if cands else None
        ck.lean_violations(res, search)
        reported = {v[0] for v in ck.violations}
        for u, f in by_unit.items():
            if not any(u in k for k in reported):
                ck.violation("unit:" + u, "traced unit %s: exact evaluation differs from the documented formula" % u, f, True)
    elif found:
        for f in found:
            ck.violation("search-oracle:" + f["unit"], "exact evaluation of traced unit %s disagrees with the python reference although the theorems check" % f["unit"], f, True)
    if ck.tier == "thorough" and res.ok:
        for m_, log in ck.leanchecker(props):
            ck.violation("leanchecker:" + m_, "leanchecker rejects " + m_, {"log": log}, False)

    ck.assumptions += [
        "T1: g++ instantiating the TFEL templates with verif::Sym performs the same scalar operations as with double; sym.hxx/glue.hxx/emit.py are correct",
        "exact field semantics (no rounding/overflow); Lean's x/0 = 0 convention: the PIPE stiffness theorems only need E2, E3 != 0",
        "T3-lite: harness/C28/mh.py parses the if-chains of ModellingHypothesis.cxx (anything of another shape is a broken tie); "
        "validated in the kernel against the dump of the compiled accessors on %d probe strings and the 8 enumerators" % len(pr),
        "documented conventions taken from OrthotropicAxesConvention.hxx (PIPE: 2nd and 3rd axes exchanged in plane stress / plane strain / "
        "generalised plane strain; PLATE, DEFAULT: same axes), Hill.hxx (quadratic form), StiffnessTensor.hxx (ALTERED = axial strain eliminated); "
        "in 1D the components are (rr, zz, tt), so the axial direction of AxisymmetricalGeneralisedPlaneStress is index 1",
        "OrthotropicPlasticity.ixx has no convention parameter: proved is that the 1D/2D overloads equal the 3D ones at vanishing out-of-plane shear",
    ]
    allu = units + plate_units
    return ck.finish({
        "units_traced": len(allu), "outputs_traced": sum(len(u.outs) for u in allu), "dag_nodes": sum(len(u.order) for u in allu),
        "evaluations": stats["points"] + len(pr) + 8, "distinct_nontrivial": stats["points"] + len([s for s in pr if s]),
        "rule": "T1: each traced unit evaluated exactly over Q at seeded random rational coefficients against an independent python reference "
                "(documented formulas + permutation); distinct = points. T2: probe strings (names, case variants, one-character edits, random) "
                "and the 8 enumerators through the compiled accessors; non-trivial = non-empty strings",
        "search_stats": stats, "probe_strings": len(pr), "plate_stiffness_traced": plate_error is None,
        "hypotheses_parsed": parsed["list"],
        "samples": [{"unit": u.name, "inputs": u.inputs, "outputs": [o for o, _ in u.outs][:6]} for u in (allu[0], allu[30], allu[-1])] +
                   [{"probe": s, "isModellingHypothesis": b, "fromString": f} for (s, b, f) in dump["s"][:3] + dump["s"][-2:]],
    })
