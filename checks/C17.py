"""C17 — expression templates and views behave like eager element-wise code.

(a) index maps (engine M): Lean model of the indexing policies / view cell maps (lean/TfelVerif/C17/Model.lean),
    theorems for all sizes, strides, offsets and nestings (Props.lean); tie = exhaustive enumeration of `getIndex`,
    minimal sizes and view addresses of the real classes (harness/C17/indices.cxx) against the model driver.
(b) lazy evaluation (engine T1): a seeded generator (checks/c17gen.py) emits programs over
    tvector/tmatrix/stensor/tensor and every kind of view, with operator trees and aliasing patterns; the real
    templates are traced with one distinct input symbol per storage cell; for each program a kernel-checked theorem
    (GenP*.lean, regenerated on every run) states that every storage cell after the program equals its eager value.
    This is translation validation of a seeded finite program family (`programs` in the evidence).
"""
import collections
import os
import random
import re
import sys
from concurrent.futures import ThreadPoolExecutor
from fractions import Fraction

import t1
import vlib
from checks import c17gen
from emit import Q2

PROPS_A = "TfelVerif.C17.Props"
K_MIN = "FixedSizeRowMajorMatrixIndexingPolicy::getUnderlyingArrayMinimalSize:Stride!=M"
K_ARR = "FixedSizeIndexingPoliciesCartesianProduct::getIndex(array):second-policy-arity-0"
K_DIV = "operator/=:integer-scalar"
K_SCAL = "scalar-operand:element-of-destination"
K_COMPAT = "checkIndexingPoliciesCompatiblity:extent-mismatch"
# request kinds of harness/C17/indices.cxx answered by the same model request (second overloads / const overloads /
# derivative views of tmatrix.ixx, which address sub-blocks of the matrix)
ALIAS = {"idxa": "idx", "crow": "row", "ccol": "col", "csub": "sub", "dsub": "sub", "dsco": "sco", "csco": "sco"}
VIEW_KEYS = {"row": "row", "col": "col", "sub": "sub", "varr": "varr", "sco": "sco", "crow": "row-const", "ccol": "col-const",
             "csub": "sub-const", "dsub": "map_derivative", "dsco": "map_derivative_strided", "csco": "sco-const"}


def policy_dims(desc):
    """logical extents of a policy descriptor (S | V n s | M n m s | X stride p1 p2)"""
    t = desc.split()

    def go(i):
        if t[i] == "S":
            return [], i + 1
        if t[i] == "V":
            return [int(t[i + 1])], i + 3
        if t[i] == "M":
            return [int(t[i + 1]), int(t[i + 2])], i + 4
        a, j = go(i + 2)
        b, j = go(j)
        return a + b, j
    return go(0)[0]
BAD_HAZARDS = ("matvec", "vecmat", "matmat", "transpose", "elementwise-overlap")


# ---------------------------------------------------------------------------------------------- (a) index maps
def has_strided_matrix(desc):
    """the descriptor contains a row-major matrix policy with Stride != M and N != M (where the shipped
    getUnderlyingArrayMinimalSize differs from (N-1)*Stride+M)"""
    t = desc.split()
    for i, x in enumerate(t):
        if x == "M" and i + 3 < len(t):
            n, m, s = int(t[i + 1]), int(t[i + 2]), int(t[i + 3])
            if s != m and n != m:
                return True
    return False


def index_maps(ck, harnesses, driver):
    reqs = []
    compat = []
    clamps = []
    for harness in harnesses:
        p = ck.run([harness], timeout=600)
        if p.returncode != 0:
            raise vlib.BuildError("index enumeration harness failed on the current tree", p.stdout[-500:] + p.stderr[-2000:])
        for line in p.stdout.splitlines():
            r, v = line.rsplit(" = ", 1)
            if r.startswith(("compat ", "rcompat ")):
                compat.append((r, v))
            elif r.startswith(("clamp ", "keep ")):
                clamps.append((r, v))
            else:
                reqs.append((r, v))

    def model_request(r):
        kind, rest = r.split(" ", 1)
        return ALIAS.get(kind, kind) + " " + rest
    text = "".join(model_request(r) + "\n" for r, _ in reqs)
    pm = ck.run([driver], input=text, timeout=600)
    model = pm.stdout.splitlines()
    if len(model) != len(reqs):
        raise vlib.BuildError("C17 model driver answered %d of %d requests" % (len(model), len(reqs)), pm.stderr[-2000:])
    # per policy: the implementation's own index map, checked against the property itself
    pol = collections.OrderedDict()
    stats = collections.Counter()
    mism = []
    for (r, v), m in zip(reqs, model):
        kind, rest = r.split(" ", 1)
        stats[kind] += 1
        if m == "bad-op":
            mism.append((r, v, m))
            continue
        if kind in ("idx", "idxa"):
            d, idx = rest.split(" ;")
            e = pol.setdefault(d.strip(), {"idx": {}, "idxa": {}, "model": {}})
            e[kind][idx.strip()] = int(v)
            e["model"][idx.strip()] = int(m)
        elif kind in ("min", "size", "arity", "contig", "wf"):
            e = pol.setdefault(rest.strip(), {"idx": {}, "idxa": {}, "model": {}})
            e[kind] = int(v)
            e["model_" + kind] = int(m)
        if v != m:
            mism.append((r, v, m))
    found = {}      # key -> (what, replay, found)

    explained = set()

    def report(key, what, rep, ok):
        if key not in found:
            found[key] = [what, rep, ok, 0]
        found[key][3] += 1
        if "policy" in rep:
            explained.add(rep["policy"])

    checked = 0
    for d, e in pol.items():
        if "min" not in e:
            continue   # view-only request (strided views, coalesced tables): compared with the model below
        checked += 1
        root = K_MIN if has_strided_matrix(d) else None
        vals = e["idx"]
        top = d.split()[0]
        # P1 in range / P3 exactly (the minimal size is the least bound)
        if vals:
            imax = max(vals, key=lambda k: vals[k])
            if vals[imax] >= e["min"]:
                report(root or "getUnderlyingArrayMinimalSize:%s:not-an-upper-bound" % top,
                       "policy `%s`: getIndex(%s) = %d is not below getUnderlyingArrayMinimalSize() = %d (out of range)" % (d, imax, vals[imax], e["min"]),
                       {"policy": d, "index": imax, "getIndex": vals[imax], "getUnderlyingArrayMinimalSize": e["min"],
                        "model_minimal_size": e["model_min"], "predicate": "in range"}, True)
            elif vals[imax] + 1 != e["min"]:
                report(root or "getUnderlyingArrayMinimalSize:%s:not-tight" % top,
                       "policy `%s`: largest cell index %d but getUnderlyingArrayMinimalSize() = %d (not the minimal size)" % (d, vals[imax], e["min"]),
                       {"policy": d, "index": imax, "getIndex": vals[imax], "getUnderlyingArrayMinimalSize": e["min"],
                        "model_minimal_size": e["model_min"], "predicate": "minimal size attained"}, True)
            # P2 injective
            seen = {}
            for k, x in vals.items():
                if x in seen:
                    report(root or "getIndex:%s:not-injective" % top,
                           "policy `%s`: index tuples (%s) and (%s) share storage cell %d" % (d, seen[x], k, x),
                           {"policy": d, "index_1": seen[x], "index_2": k, "cell": x, "accepted_by_static_asserts": True,
                            "model_wf": e.get("model_wf"), "predicate": "injective"}, True)
                    break
                seen[x] = k
            # P4 both overloads address the same cell
            for k, x in vals.items():
                if e["idxa"].get(k, x) != x:
                    second_scalar = top == "X" and (d.split()[-1] == "S")
                    report(K_ARR if second_scalar else "getIndex(array):%s:differs-from-getIndex" % top,
                           "policy `%s`: getIndex(%s) = %d but getIndex(std::array{%s}) = %d" % (d, k, x, k, e["idxa"][k]),
                           {"policy": d, "index": k, "getIndex_variadic": x, "getIndex_array": e["idxa"][k],
                            "documented_formula_value": e["model"][k], "predicate": "same cell through both overloads"}, True)
                    break
        elif e["min"] != e["model_min"]:
            report(root or "corr:min:%s" % top, "policy `%s` (no index): minimal size %d, model %d" % (d, e["min"], e["model_min"]),
                   {"policy": d, "implementation": e["min"], "model": e["model_min"]}, False)
        # the hypotheses of the theorems hold for every policy the static_asserts accept
        if e.get("model_wf") == 0:
            report(root or "static_assert:%s:accepts-ill-formed-policy" % top,
                   "policy `%s` is accepted by the library but violates Stride >= minimal size of the second policy" % d,
                   {"policy": d, "predicate": "well-formed"}, False)
    # remaining differences with the model (views: the model is the intended cell map, proved to be the matrix cell)
    for (r, v, m) in mism:
        kind = r.split()[0]
        d = r.split(" ", 1)[1].split(" ;")[0].strip()
        if kind in VIEW_KEYS:
            report("view:%s:cell" % VIEW_KEYS[kind], "view request `%s`: the real view addresses cell %s, intended cell %s" % (r, v, m),
                   {"request": r, "implementation": v, "intended": m}, True)
        elif d in explained:
            continue   # a property predicate already fails on this policy (reported above with a failing input)
        elif d in pol and "min" not in pol[d] and kind == "idx":
            report("view:%s:cell" % d.split()[0], "view over policy `%s`: the real view addresses cell %s, intended cell %s" % (r, v, m),
                   {"request": r, "implementation": v, "intended": m}, True)
        else:
            report("corr:%s:%s" % (kind, d.split()[0]), "correspondence broken on `%s`: implementation %s, model %s (property predicates still hold)" % (r, v, m),
                   {"request": r, "implementation": v, "model": m}, False)
    # compatibility of two indexing policies (compile time: static_asserts of View / CoalescedView, isAssignableTo between
    # views; run time: sizes of runtime policies): compatible iff same arity and same extents
    for (r, v) in compat:
        kind, rest = r.split(" ", 1)
        d1, d2 = [x.strip() for x in rest.split("|")]
        stats[kind] += 1
        want = 1 if policy_dims(d1) == policy_dims(d2) else 0
        if int(v) != want:
            fn = "checkIndexingPoliciesCompatiblity" if kind == "compat" else "areIndexingPoliciesCompatibleAtRunTime"
            report(K_COMPAT if kind == "compat" else "areIndexingPoliciesCompatibleAtRunTime:extent-mismatch",
                   "%s(`%s`, `%s`) = %s: extents %s and %s%s" % (fn, d1, d2, v, policy_dims(d1), policy_dims(d2),
                                                              " (a view whose policy has other extents than the mapped object is accepted: "
                                                              "indices of the object fall outside the cells of the policy)" if int(v) else " are rejected"),
                   {"policy_1": d1, "policy_2": d2, "extents_1": policy_dims(d1), "extents_2": policy_dims(d2),
                    "implementation": int(v), "expected": want, "predicate": "compatible iff equal arity and extents"}, True)
    # clamp on concrete integers: min(max(x, lo), hi) component-wise, cells outside the view untouched
    for (r, v) in clamps:
        t = r.split()
        stats[t[0]] += 1
        x = int(t[-1])
        want = sorted((int(t[1]), x, int(t[2])))[1] if t[0] == "clamp" else x
        if int(v) != want:
            report("clamp:value", "clamp(%s): component %d became %s, expected %d" % (", ".join(t[1:-1]), x, v, want),
                   {"request": r, "implementation": int(v), "expected": want,
                    "predicate": "clamp(lo, hi) maps x to min(max(x, lo), hi) and leaves other cells unchanged"}, True)
    for key, (what, rep, ok, n) in found.items():
        rep = dict(rep)
        rep["occurrences_same_key"] = n
        if key == K_MIN:
            rep["real_code_replay"] = ("map<tmatrix<2,3,double>, FixedSizeRowMajorMatrixIndexingPolicy<unsigned short,2,3,4>>(tvector<6,double>&) "
                                       "passes the static_assert N >= getUnderlyingArrayMinimalSize() (6 >= 6) and m(1,2) writes v.data()[6]: "
                                       "AddressSanitizer stack-buffer-overflow (patch: patches/C17-rowmajor-minimal-size.diff)")
        if key == K_ARR:
            rep["real_code_replay"] = ("auto d = map_derivative<0,1,stensor<1u,double>,double>(tmatrix<3,3,double>& m): d(2) is m(2,1) but "
                                       "d(std::array{2}) is m(1,0) (patch: patches/C17-cartesian-getIndex-array.diff)")
        ck.violation(key, what, rep, ok)
    return {"requests": len(reqs) + len(compat) + len(clamps), "by_kind": dict(stats), "policies_checked": checked,
            "model_disagreements": len(mism), "distinct_policies": len(pol),
            "samples": ["%s = %s (model %s)" % (reqs[i][0], reqs[i][1], model[i]) for i in (5, len(reqs) // 3, len(reqs) // 2, len(reqs) - 1)]}


# ---------------------------------------------------------------------------------------------- (b) programs
def generate(ck, n):
    rng = random.Random(ck.seed * 7919 + 17)
    G = c17gen.Gen(rng)
    progs = []
    k = 0
    while len(progs) < n:
        force = c17gen.FORCED[k] if k < len(c17gen.FORCED) else None
        P = G.program("prog_%d" % k, force)
        k += 1
        P.state = c17gen.run_eager(P)
        # a statement with a harmful aliasing class ends the program (later statements would only propagate it)
        for i, hz in enumerate(P.hazards):
            if any(h in BAD_HAZARDS for h in hz) and i + 1 < len(P.stmts):
                P.stmts = P.stmts[:i + 1]
                P.state = c17gen.run_eager(P)
                break
        if sum(P.storages[s][0] for s in P.order) > 80:
            continue
        progs.append(P)
    return progs


def spec_of(P):
    ins = c17gen.input_names(P)
    outs = c17gen.output_cells(P)

    def f(rng):
        env = {}
        for x in ins:
            v = Fraction(rng.randint(-9, 9), rng.choice([1, 1, 2, 3]))
            if v == 0 and x in P.scalars:
                v = Fraction(5, 2)
            env[x] = v
        exp = [Q2(c17gen.eval_q(P.state[c], env)) for c in outs]
        return {k: Q2(v) for k, v in env.items()}, exp
    return f


def hazard_key(P):
    for hz in P.hazards:
        bad = [h for h in hz if h in BAD_HAZARDS]
        if bad:
            return "aliasing:" + bad[0]
    if (getattr(P, "tag", None) or "").startswith("scalar-alias") or "scalar:element" in P.ops:
        return K_SCAL
    if getattr(P, "tag", None):
        return "eager:" + P.tag
    if any(op == "/=" and re.search(r"/= -?\d+;$", cxx) for (cxx, _, op, _) in P.stmts):
        return K_DIV
    kinds = sorted({k.split(":")[1] for k in P.kinds if k.startswith("view:")})
    return "eager:" + ("+".join(kinds) if kinds else "objects")


def run(ck):
    nprog = 48 if ck.quick else 400   # the first len(c17gen.FORCED) = 23 programs are directed, the others random
    per_tu = 12 if ck.quick else 20
    progs = generate(ck, nprog)
    chunks = [progs[i:i + per_tu] for i in range(0, len(progs), per_tu)]
    cv = vlib.REPO + "/src/Exception/ContractViolation.cxx"
    jobs = [("c17idx1", ["C17/indices.cxx", cv], ("-DC17_PART=1",)), ("c17idx2", ["C17/indices.cxx", cv], ("-DC17_PART=2",)),
            ("c17idx3", ["C17/indices.cxx", cv], ("-DC17_PART=3",))]
    for i, ch in enumerate(chunks):
        src = os.path.join(ck.work, "gen_%d.cxx" % i)
        ck.write("gen_%d.cxx" % i, c17gen.cxx_file(ch))
        jobs.append(("c17p%d" % i, [src, cv], ()))
    with ThreadPoolExecutor(max_workers=int(os.environ.get("VERIF_C17_JOBS", "4"))) as ex:
        futs = [(n, ex.submit(ck.cxx, n, s, flags=fl, opt="-O0")) for n, s, fl in jobs]
        bins = {}
        for n, f in futs:
            bins[n] = f.result()
    driver = ck.lean_exe("c17driver", "TfelVerif/C17/Driver.lean")
    # ---- (b) trace, exact evaluation against the eager meaning, obligations
    rng = random.Random(ck.seed)
    by_name = {P.name: P for P in progs}
    refuted = {}
    stats = collections.Counter()
    all_units = {}
    modules = []
    for i, ch in enumerate(chunks):
        dag, units = t1.run_tracer(ck, bins["c17p%d" % i], out="trace_%d.dag" % i)
        for u in units:
            P = by_name[u.name]
            if u.inputs != c17gen.input_names(P) or [o for o, _ in u.outs] != ["%s%d" % c for c in c17gen.output_cells(P)]:
                raise vlib.BuildError("traced unit %s does not have the inputs/outputs of the generated program" % u.name, "")
            all_units[u.name] = u
        specs = {P.name: spec_of(P) for P in ch}
        found, st = t1.search_units(ck, units, specs, rng, bins["c17p%d" % i], trials=3 if ck.quick else 4)
        stats.update(st)
        for f in found:
            refuted[f["unit"]] = f
        # one generated module per chunk: the traced definitions (emit.py) followed by the eager obligations
        tmp = ck.path("genp_%d.lean" % i)
        pe = vlib.sh([sys.executable, os.path.join(vlib.VERIF, "harness", "symtrace", "emit.py"),
                      "--namespace", "TfelVerif.C17.GenP%d" % i, "--out", tmp, dag])
        if pe.returncode != 0:
            raise vlib.BuildError("emit.py failed", pe.stdout + pe.stderr)
        gen = open(tmp).read()
        endline = "end TfelVerif.C17.GenP%d\n" % i
        if not gen.endswith(endline) or "import TfelVerif.Common.Sym\n" not in gen:
            raise vlib.BuildError("unexpected layout of the emitted Lean file", gen[:300])
        txt = ("\n/-! ## eager meaning of the traced programs (checks/C17.py, seed %d, tier %s): one obligation per program -/\n"
               "section Obligations\nopen TfelVerif.C17\n\n" % (ck.seed, ck.tier))
        for P in ch:
            if P.name in refuted:
                txt += "-- %s: refuted by exact evaluation (reported as a violation with its failing input); no obligation emitted\n\n" % P.name
            else:
                txt += "/- %s -/\n" % " ".join(s[0] for s in P.stmts) + c17gen.lean_theorem(P, P.state, "GenP%d" % i)
        txt += "end Obligations\n"
        gen = gen.replace("import TfelVerif.Common.Sym\n", "import TfelVerif.Common.Sym\nimport TfelVerif.C17.Tactic\n", 1)
        gen = gen[:-len(endline)] + txt + endline
        ck.write_gen("TfelVerif/C17/GenP%d.lean" % i, gen)
        modules.append("TfelVerif.C17.GenP%d" % i)
    res = ck.lean(modules + [PROPS_A], modules + [PROPS_A])
    # violations of (b): programs refuted by exact evaluation, with replay on the real double code
    reported = collections.Counter()
    for name, f in refuted.items():
        P = by_name[name]
        key = hazard_key(P)
        reported[key] += 1
        if reported[key] > 1 and (key.startswith("aliasing:") or key == K_DIV):
            continue
        rep = dict(f)
        rep.update({"program": [s[0] for s in P.stmts], "declarations": [P.storages[s][1] for s in P.order] + P.decls,
                    "aliasing_classes": P.hazards,
                    "meaning": "`code_value` is what the real templates compute for storage cell `output` at `inputs_exact` "
                               "(`real_code_double_result` in double precision); `spec_value` is the eager value "
                               "(right-hand side evaluated element-wise from the values before the statement, then assigned)"})
        ck.violation(key, "program `%s`: storage cell %s = %s, eager value %s%s"
                     % (" ".join(s[0] for s in P.stmts), f["output"], f["code_value_exact"], f["spec_value_exact"],
                        " (the lazy right-hand side reads an already overwritten cell)" if key.startswith("aliasing:") else
                        " (`x /= s` multiplies by `1 / s`, computed in the type of `s`: 0 for an integer; fixed in /repo by 92c9bba5d, see patches/C17-divide-by-integer-scalar.diff)" if key == K_DIV else
                        " (a scalar operand living in the destination's storage must be read once, before the assignment: "
                        "ExprBase::ArgumentStorage keeps scalars by value)" if key == K_SCAL else
                        " (no harmful aliasing in this program: the expression templates or a view's cell map are wrong)"), rep, True)
    if not res.ok:
        # a program obligation that no longer checks: look for a failing input of that program (same key as a
        # refuted program: the defect class, not the program number); everything else through lean_violations
        prog_failed = [fl for fl in res.failed if (fl.get("theorem") or "") in by_name]
        other = [fl for fl in res.failed if fl not in prog_failed]
        for fl in prog_failed:
            thm = fl["theorem"]
            P = by_name[thm]
            fnd, _ = t1.search_units(ck, [all_units[thm]], {thm: spec_of(P)}, random.Random(ck.seed + 99),
                                     bins["c17p%d" % (progs.index(P) // per_tu)], trials=200)
            rep = {"broken_obligation": fl, "program": [s[0] for s in P.stmts],
                   "declarations": [P.storages[s][1] for s in P.order] + P.decls, "aliasing_classes": P.hazards}
            if fnd:
                rep.update(fnd[0])
                ck.violation(hazard_key(P), "program `%s`: storage cell %s = %s, eager value %s" % (
                    " ".join(s[0] for s in P.stmts), fnd[0]["output"], fnd[0]["code_value_exact"], fnd[0]["spec_value_exact"]), rep, True)
            else:
                ck.violation("thm:" + hazard_key(P), "theorem %s (program `%s`) no longer checks (%s)" % (
                    thm, " ".join(s[0] for s in P.stmts), fl.get("msg", "")[:120]), rep, False)
        res.failed = other
        ck.lean_violations(res, None)
        res.failed = other + prog_failed
    # ---- (a) index maps
    cov_a = index_maps(ck, [bins["c17idx1"], bins["c17idx2"], bins["c17idx3"]], driver)
    if ck.tier == "thorough" and res.ok:
        for m, log in ck.leanchecker([PROPS_A]):
            ck.violation("leanchecker:" + m, "leanchecker rejects " + m, {"log": log}, False)
    ck.assumptions += [
        "T1: g++ instantiating the TFEL templates with verif::Sym performs the same cell reads/writes and scalar operations as with double; sym.hxx/glue.hxx/emit.py are correct (common sub-expression sharing in the recorder does not merge distinct cells: every cell is a distinct input symbol)",
        "exact field semantics: rounding not modelled (lazy and eager code perform the same operations on the same operands whenever the theorem holds, up to the associativity/commutativity that `ring` abstracts)",
        "(b) is translation validation of the seeded program family of this run, not a proof over all programs; the eager meaning is computed by checks/c17gen.py (matrix products, transpose, deviator written as naive formulas)",
        "(a) M: Model.lean is tied to the C++ by exhaustive enumeration (harness/C17/indices.cxx) of every index tuple of the instantiated policies and views; the theorems are about the model",
        "documentation (docs/web/tfel-math.md, tensors.md) describes lazy evaluation and eval() but states no aliasing restriction: stale reads through non element-wise lazy nodes are reported under keys aliasing:<class>",
    ]
    nref = len(refuted)
    classes = collections.Counter()
    for P in progs:
        for hz in P.hazards:
            for h in hz:
                classes[h] += 1
    kinds = collections.Counter(k for P in progs for k in P.kinds)
    ops = collections.Counter(o for P in progs for o in P.ops)
    obligations = sum(r.obligations for r in ck.lean_results) + nref
    discharged = sum(r.discharged for r in ck.lean_results)
    distinct = len({tuple(s[0] for s in P.stmts) + tuple(P.decls) for P in progs})
    return ck.finish({
        "programs": len(progs), "disagreements_checked": nref,
        "programs_proved_equal_to_eager": len(progs) - nref if res.ok else None,
        "programs_refuted": {k: v for k, v in reported.items()},
        "obligations": obligations, "discharged": discharged,
        "checker_cmd": "lake build TfelVerif.C17.GenP* TfelVerif.C17.Props && #print axioms on every theorem (bin/check C17 --tier %s)" % ck.tier,
        "trusted_base": vlib.BASE_TRUSTED + ck.assumptions,
        "theorems": [t[0] for r in ck.lean_results for t in r.theorems][:60],
        "evaluations": int(stats["points"]) + cov_a["requests"],
        "distinct_nontrivial": distinct + cov_a["distinct_policies"],
        "rule": "programs: seeded random operator trees over tvector/tmatrix/stensor/tensor objects and views, the first %d programs "
                "are the aliasing patterns named in the property; distinct = distinct (declarations, statements) texts; each is "
                "traced on the real templates, evaluated exactly at %d random rational points against the eager meaning, and "
                "(unless refuted) proved equal to it for all inputs by a kernel-checked theorem. index maps: every index tuple of "
                "every instantiated policy/view (sizes <= 6); distinct = policies/views" % (len(c17gen.FORCED), 3 if ck.quick else 4),
        "exhaustive": False, "index_maps": cov_a, "index_maps_exhaustive_over_instantiated_policies": True,
        "aliasing_classes_generated": dict(classes), "operand_kinds": dict(kinds), "operators": dict(ops),
        "exact_evaluation": dict(stats),
        "samples": [{"program": [s[0] for s in P.stmts], "declarations": P.decls, "aliasing": P.hazards,
                     "refuted": P.name in refuted} for P in progs[10:16]],
    }, level="translation_validation")
