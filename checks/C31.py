"""C31 — the C++ tokenizer reproduces the lexical structure of its input (tie: M).

Three parties:
  * the implementation: harness/C31/harness.cxx running the real CxxTokenizer (CxxTokenizer.cxx, Token.cxx,
    CxxTokenizerOptions.cxx … compiled from the current tree, ASan/UBSan, 2 s CPU watchdog per input);
  * the Lean model lean/TfelVerif/C31/Model.lean (through c31driver) about which Props.lean proves the
    round trip / stripComments / totality theorems;
  * `Gen` below: grammar-generated lexeme streams with random layout whose expected token list (values, flags,
    line, offset) is computed from the lexemes alone — the property's own predicate.
implementation != expected on a grammar input, crash, sanitizer report, hang  -> the property fails on a concrete input;
implementation == expected (or input outside the grammar) but model differs   -> correspondence broken (no failing input).
"""
import glob
import os
import random
import struct
import time
from concurrent.futures import ThreadPoolExecutor
from fractions import Fraction

import vlib

PROPS = ["TfelVerif.C31.Props"]
SRC = "src/Utilities/CxxTokenizer.cxx"
REPO_SOURCES = ["CxxTokenizer", "Token", "CxxTokenizerOptions", "StringAlgorithms", "CxxKeywords"]
STD, COMMENT, NUMBER, DOXY, DOXYBACK, STRING, CHAR, PREPROC = range(8)
COMMENT_FLAGS = (COMMENT, DOXY, DOXYBACK)
WS = " \t\x0b\x0c\r"
SEPS = set("?;/!&*|{}[]()%=^,:<>'\"\\\x00.+-`")


def hx(s):
    return s.encode("latin1").hex() if s else "-"


def unhx(h):
    return "" if h == "-" else bytes.fromhex(h).decode("latin1")


# ----------------------------------------------------------------------------- grammar
OPS2 = ["<<", "<=", ">>", ">=", "::", "++", "--", "->", "->*", "+=", "-=", "/=", "*=", "%=", "!=", "==", "&&",
        "..", ".*", "||", "|="]
OPS1 = list("<>:+-/*%!=&.|") + list("?;{}[]()^,`")
JOIN = {"<": "<=", ">": ">=", ":": ":", "+": "+=", "-": "-=>", "/": "=/*", "*": "=", "%": "=", "!": "=", "=": "=",
        "&": "&", ".": ".*", "|": "|="}
PPKEYS = ["define", "undef", "include", "line", "error", "if", "ifdef", "ifndef", "elif", "else", "endif", "pragma",
          "warning"]
IDSTART = "abcdefghijklmnopqrstuvwxyzABCDEFGHIJKLMNOPQRSTUVWXYZ_@$~"
IDCHARS = IDSTART + "0123456789#"


class Lx:
    """a lexeme: rendered text, expected token value and flag, class name"""

    def __init__(self, kind, text, value=None, flag=STD, num=None):
        self.kind, self.text, self.value, self.flag, self.num = kind, text, text if value is None else value, flag, num


def needs_space(a, b):
    """the must-separate relation: lexeme `a` directly followed by lexeme `b` is not a rendering of [a, b]"""
    la, fb = a.text[-1], b.text[0]
    if a.kind == "word":
        return fb not in SEPS or (a.text == "R" and fb == '"')
    if a.kind == "number":
        # a separator other than `.` and `'` may follow directly
        return fb not in SEPS or fb in ".'"
    if a.kind == "op":
        t = a.text
        if t == "->":
            return fb == "*"
        if len(t) == 1 and t in JOIN and fb in JOIN[t]:
            return True
        if t in "+-" and (fb.isdigit() or fb == "."):
            return True      # would be read as a signed number after a separator
        if t == "." and fb.isdigit():
            return True
        return False
    return False


class Gen:
    def __init__(self, rng, extended):
        self.r = rng
        self.extended = extended   # raw strings, multi-line comments

    def word(self):
        r = self.r
        n = r.choice([1, 1, 2, 3, 5, 9])
        w = r.choice(IDSTART) + "".join(r.choice(IDCHARS) for _ in range(n - 1))
        return Lx("word", w)

    def digits(self, n=None, sep=False):
        r = self.r
        n = n or r.choice([1, 1, 2, 3, 6])
        d = "".join(r.choice("0123456789") for _ in range(n))
        if sep and n > 1 and r.random() < 0.5:
            k = r.randrange(1, n)
            d = d[:k] + "'" + d[k:]
        return d

    def number(self):
        r = self.r
        k = r.random()
        sep = r.random() < 0.15
        if k < 0.08:
            t = "0x" + "".join(r.choice("0123456789abcdefABCDEF") for _ in range(r.choice([1, 2, 4, 8])))
            cls = "hex"
        elif k < 0.14:
            t = "0b" + "".join(r.choice("01") for _ in range(r.choice([1, 3, 8])))
            cls = "bin"
        else:
            ip = self.digits(sep=sep)
            t, cls = ip, "int"
            form = r.random()
            if form < 0.35:
                t += "." + (self.digits(sep=sep) if r.random() < 0.8 else "")
                cls = "float"
            elif form < 0.45:
                t = "." + self.digits(sep=sep)
                cls = "float"
            if r.random() < 0.3:
                t += r.choice("eE") + r.choice(["", "+", "-"]) + self.digits(r.choice([1, 2]))
        isfloat = cls not in ("hex", "bin") and ("." in t or "e-" in t or "E-" in t)
        if cls == "int" and isfloat:
            cls = "float"
        if cls == "int" and ("e" in t or "E" in t):
            cls = "int-exp"
        plain = t
        if r.random() < 0.2:
            if isfloat:
                t += r.choice(["f", "F", "l", "L"])
            else:
                t += r.choice(["u", "U", "l", "L", "ul", "uL", "ull", "lu", "ll", "LL", "llu", "Ul"])
            cls += "+suffix"
        if r.random() < 0.06:
            t += "_" + r.choice(["km", "s", "x1", "_a"])
            cls += "+udl"
        if r.random() < 0.12 and not any(c in t for c in "uU"):
            t = r.choice("+-") + t
            cls += "+sign"
        return Lx("number", t, t.replace("'", ""), NUMBER, num=(cls, plain))

    def string(self):
        r = self.r
        body = ""
        for _ in range(r.choice([0, 1, 3, 8])):
            k = r.random()
            if k < 0.15:
                body += "\\" + r.choice('"\\nt0\'ax')
            else:
                body += r.choice("abcXYZ 0123+-*/(){};:,.'#@<>!\t")
        return Lx("string", '"' + body + '"', flag=STRING)

    def char(self):
        r = self.r
        if r.random() < 0.4:
            return Lx("char", "'\\" + r.choice("n\\'t0\"x") + "'", flag=CHAR)
        return Lx("char", "'" + r.choice("abcXYZ 019+-*/(){};:,.\"#@") + "'", flag=CHAR)

    def op(self):
        r = self.r
        return Lx("op", r.choice(OPS2) if r.random() < 0.45 else r.choice(OPS1))

    def rawstring(self):
        r = self.r
        d = "".join(r.choice("abx_") for _ in range(r.choice([0, 0, 1, 3])))
        body = "".join(r.choice('ab "\\)(\'x/*') for _ in range(r.choice([0, 2, 6])))
        if (")" + d + '"') in body + ")" + d:
            body = body.replace(")", "(")
        return Lx("raw", 'R"' + d + "(" + body + ")" + d + '"', body, STRING, num=len(d) + 3)

    def comment_text(self, n):
        r = self.r
        t = "".join(r.choice("abc xyz 012 +-= (){} \t!<@\"'***/") for _ in range(n))
        if n and r.random() < 0.35:
            # a run of stars at the end (`/* note **/`) or inside the text
            k = r.randrange(len(t) + 1) if r.random() < 0.4 else len(t)
            t = t[:k] + "*" * r.choice([1, 1, 2, 3, 4, 5]) + t[k:]
        while "*/" in t:
            t = t.replace("*/", "* /")
        return t

    def ccomment(self):
        """single-line C comment; value = trimmed text, offset = position of the first character of the text"""
        r = self.r
        marker = r.choice(["", "", "!", "!<"])
        ws1 = "".join(r.choice(" \t") for _ in range(r.choice([0, 1, 1, 3])))
        text = self.comment_text(r.choice([0, 1, 4, 12])).strip(WS + " ")
        ws2 = "".join(r.choice(" \t") for _ in range(r.choice([0, 1, 2])))
        if "*/" in text:
            text = text.replace("*/", "")
        if marker == "" and (ws1 + text).startswith("!"):
            text = "a" + text
            ws1 = ""
        if marker == "!" and (ws1 + text + ws2 + "*").startswith("<"):
            ws1 = " "
        if not text:
            ws1, ws2 = ws1 + ws2, ""
        body = marker + ws1 + text + ws2
        # a `*` then `/` straddling text|ws2|*/ cannot occur: ws2 is blank or text is followed by `*/` itself
        lx = Lx("ccomment", "/*" + body + "*/", text, {"": COMMENT, "!": DOXY, "!<": DOXYBACK}[marker])
        lx.skip = 2 + len(marker) + len(ws1)
        return lx

    def cxxcomment(self):
        r = self.r
        marker = r.choice(["", "", "!", "!<"])
        ws1 = "".join(r.choice(" \t") for _ in range(r.choice([0, 1, 1, 3])))
        text = self.comment_text(r.choice([0, 1, 4, 12])).lstrip(WS + " ")
        if marker == "" and (ws1 + text).startswith("!"):
            text, ws1 = "a" + text, ""
        if marker == "!" and (ws1 + text).startswith("<"):
            ws1 = " "
        lx = Lx("cxxcomment", "//" + marker + ws1 + text, text, {"": COMMENT, "!": DOXY, "!<": DOXYBACK}[marker])
        lx.skip = 2 + len(marker) + len(ws1)
        return lx

    def lexeme(self):
        k = self.r.random()
        if k < 0.30:
            return self.word()
        if k < 0.48:
            return self.number()
        if k < 0.58:
            return self.string()
        if k < 0.64:
            return self.char()
        if k < 0.92 or not self.extended:
            return self.op()
        return self.rawstring()

    def blank(self, must):
        r = self.r
        n = r.choice([0, 0, 1, 1, 2, 4]) if not must else r.choice([1, 1, 2, 4])
        return "".join(r.choice("   \t\t\x0b\x0c\r") if r.random() < 0.15 else " " for _ in range(n))

    def stream(self, nlines):
        """returns (text, expected tokens [(flag, line, offset, value)], classes used)"""
        r = self.r
        lines, exp, kinds = [], [], []
        copen = None            # multi-line comment in progress: expected token index
        ln = 0
        while ln < nlines:
            ln += 1
            line = self.blank(False)
            prev = None
            items = []
            if copen is None and r.random() < 0.12:
                # preprocessor line
                key = r.choice(PPKEYS)
                sp = "".join(r.choice(" \t") for _ in range(r.choice([0, 0, 1, 2])))
                exp.append((PREPROC, ln, len(line), "#"))
                exp.append((PREPROC, ln, len(line) + 1 + len(sp), key))
                line += "#" + sp + key
                kinds += ["preproc", "preproc"]
                prev = Lx("word", key)
            n = r.choice([0, 1, 2, 3, 5, 8])
            for _ in range(n):
                k = r.random()
                if k < 0.06:
                    lx = self.ccomment()
                else:
                    lx = self.lexeme()
                must = prev is not None and needs_space(prev, lx)
                if prev is not None and prev.kind == "op" and prev.text in "+-" and lx.kind == "number" \
                        and lx.text[0] in "+-":
                    must = True
                # a sign is only part of the number after a separator or a blank; otherwise it is an operator
                sp = self.blank(must)
                if lx.kind == "number" and lx.text[0] in "+-" and not sp:
                    before = line[-1] if line else " "
                    if before not in SEPS and before not in WS + " ":
                        sp = " "
                    if before == lx.text[0] or (before == "-" and lx.text[0] == ">"):
                        sp = " "
                line += sp
                off = len(line)
                flag = lx.flag
                if lx.kind in ("ccomment", "cxxcomment"):
                    off += lx.skip
                    if not exp:
                        flag = COMMENT
                if lx.kind == "raw":
                    off += lx.num
                exp.append((flag, ln, off, lx.value))
                kinds.append("number:" + lx.num[0] if lx.kind == "number" else
                             ("op:->*" if lx.text == "->*" else lx.kind))
                if lx.kind == "number":
                    items.append((len(exp) - 1, lx))
                line += lx.text
                prev = lx
            # the operator +/- followed by a number after a blank: "a -1" is read as a, -1 — avoided above by
            # needs_space (sign rule); "a - 1" is three tokens
            tail = r.random()
            if tail < 0.12:
                lx = self.cxxcomment()
                must = prev is not None and needs_space(prev, lx)
                line += self.blank(must)
                flag = lx.flag if exp else COMMENT
                exp.append((flag, ln, len(line) + lx.skip, lx.value))
                kinds.append("cxxcomment")
                line += lx.text
            elif tail < 0.20 and self.extended:
                # multi-line C comment spanning 2..3 lines, then more lexemes are not generated on its last line
                must = prev is not None and needs_space(prev, Lx("op", "/"))
                line += self.blank(must)
                ws1 = "".join(r.choice(" \t") for _ in range(r.choice([0, 1, 2])))
                first = self.comment_text(r.choice([0, 3, 8]))
                if (ws1 + first).lstrip(WS + " ").startswith("!"):
                    first = "a" + first
                    ws1 = ""
                off = len(line) + 2 + len(ws1) + (len(first) - len(first.lstrip(WS + " ")))
                value = first.strip(WS + " ")
                line += "/*" + ws1 + first
                lines.append(line)
                extra = r.choice([1, 2])
                for i in range(extra):
                    ln += 1
                    mid = self.comment_text(r.choice([0, 3, 8]))
                    if i == extra - 1:
                        if value:
                            value += "\n"
                        value += mid
                        line = mid + "*/"
                    else:
                        if value:
                            value += "\n"
                        value += mid
                        line = mid
                        lines.append(line)
                exp.append((COMMENT, ln - extra, off, value))
                kinds.append("ccomment-multiline")
            else:
                line += self.blank(False)
            lines.append(line)
        return "\n".join(lines), exp, kinds


def spec_small(s):
    """expected tokens [(flag, line, offset, value)] and classes of an input over {'/', '*', 'a', ' ', '\\n'}:
    words a+, the operators `/` and `*`, `//` comments, `/* */` comments (multi-line: the first line's text is
    trimmed, the following lines are appended as they are, separated by newlines). Written from the lexical
    rules alone, not from the implementation."""
    toks, kinds = [], []
    opened = False
    for n, line in enumerate(s.split("\n"), 1):
        i = 0
        if opened:
            flag, ln, off, val = toks[-1]
            if val:
                val += "\n"
            j = line.find("*/")
            if j < 0:
                toks[-1] = (flag, ln, off, val + line)
                continue
            toks[-1] = (flag, ln, off, val + line[:j])
            opened = False
            i = j + 2
        while True:
            while i < len(line) and line[i] == " ":
                i += 1
            if i >= len(line):
                break
            c = line[i]
            if c == "a":
                j = i
                while j < len(line) and line[j] == "a":
                    j += 1
                toks.append((STD, n, i, line[i:j]))
                kinds.append("word")
                i = j
            elif c == "/" and line[i + 1:i + 2] == "/":
                j = i + 2
                while j < len(line) and line[j] == " ":
                    j += 1
                toks.append((COMMENT, n, j, line[j:]))
                kinds.append("cxxcomment")
                i = len(line)
            elif c == "/" and line[i + 1:i + 2] == "*":
                j = i + 2
                while j < len(line) and line[j] == " ":
                    j += 1
                e = line.find("*/", j)
                if e < 0:
                    toks.append((COMMENT, n, j, line[j:].rstrip(" ")))
                    kinds.append("ccomment-star-multiline")
                    opened = True
                    i = len(line)
                else:
                    toks.append((COMMENT, n, j, line[j:e].rstrip(" ")))
                    kinds.append("ccomment-star")
                    i = e + 2
            else:
                toks.append((STD, n, i, c))
                kinds.append("op")
                i += 1
    return toks, kinds


def star_corpus():
    """directed inputs: C comments with runs of 0..5 stars before the terminator and inside the text, one-line
    and multi-line, plain and doxygen, followed by tokens and lines; (options, input, expected, kinds)"""
    out = []
    for k in range(0, 6):
        st = "*" * k
        small = ["/*" + st + "*/", "/*" + st + "*/ a", "/* a " + st + "*/ a", "/* a" + st + "*/a", "a /*" + st + "*/ a /* a " + st + "*/\na",
                 "/*" + st + " a " + st + "*/ a /* a *" + st + "*/ a", "/* a " + st + "\n" + st + "*/ a", "/*" + st + "\n a " + st + "*/ a\n/* a " + st + "*/",
                 "/* a " + st + "\n a" + st + "\n" + st + " a " + st + "*/ a /*" + st + "*/", "// a " + st + "*/ a\n/*" + st + "*/a", "/*" + st + "/ a */ a", "/*" + st + "/"]
        for t in small:
            e, kd = spec_small(t)
            out.append(("-", t, e, kd))
        for mk, fl in (("!", DOXY), ("!<", DOXYBACK)):
            # doxygen forms; the first token of a tokenizer is a plain comment
            for body, val in ((" " + st, st), (" d " + st, ("d " + st).strip()), (st, st)):
                if body.startswith("<") or (mk == "!" and body.startswith("<")):
                    continue
                t1 = "/*" + mk + body + "*/ x"
                off = 2 + len(mk) + (len(body) - len(body.lstrip(" ")))
                out.append(("-", t1, [(COMMENT, 1, off, val), (STD, 1, len(t1) - 1, "x")], ["ccomment-star", "word"]))
                t2 = "y " + t1 + " /* z " + st + "*/ w"
                out.append(("-", t2, [(STD, 1, 0, "y"), (fl, 1, 2 + off, val), (STD, 1, 2 + len(t1) - 1, "x"),
                                      (COMMENT, 1, 2 + len(t1) + 3 + 1, ("z " + st).strip()),
                                      (STD, 1, len(t2) - 1, "w")],
                            ["word", "ccomment-star", "word", "ccomment-star", "word"]))
    out.append(("-", "/** d **/ x /* y ***/ z", [(COMMENT, 1, 2, "* d *"), (STD, 1, 10, "x"), (COMMENT, 1, 15, "y **"),
                                               (STD, 1, 22, "z")], ["ccomment-star", "word", "ccomment-star", "word"]))
    return out


def parse_tokens(sec):
    out = []
    for t in sec.split(";"):
        if not t:
            continue
        a = t.split(",")
        out.append((int(a[0]), int(a[1]), int(a[2]), unhx(a[3]), unhx(a[4])))
    return out


def core(ans):
    """the part of an answer that model and implementation must share"""
    if ans.startswith("ok"):
        return "|".join(ans.split("|")[:3])
    if ans.startswith("err"):
        return " ".join(ans.split()[:2])
    return ans


def error_class(ans):
    if not ans.startswith("err"):
        return None
    w = unhx(ans.split()[1])
    w = w.split(".\nError at line")[0]
    return w[:60].split("'")[0].strip()


# ----------------------------------------------------------------------------- running the harness
def run_impl(ck, harness, reqs):
    """answers of the implementation, one per request; 'CRASH …' / 'HANG' for the input that killed the harness"""
    out = [None] * len(reqs)
    start = 0
    restarts = 0
    retries = 0
    while start < len(reqs):
        text = "".join("%s %s\n" % (o, hx(s)) for o, s in reqs[start:])
        p = ck.run([harness], input=text, timeout=1500, env={"ASAN_OPTIONS": "detect_leaks=1:symbolize=1"})
        lines = p.stdout.splitlines()
        k = 0
        for ln in lines:
            if start + k >= len(reqs):
                break
            if ln == "HANG":
                break
            out[start + k] = ln
            k += 1
        if start + k >= len(reqs):
            if p.returncode != 0:
                # leak report at exit
                out.append("EXIT rc=%d %s" % (p.returncode, p.stderr[-1500:]))
            break
        # request start+k killed the harness
        if "HANG" in lines[k:k + 1]:
            out[start + k] = "HANG"
        else:
            sanit = "Sanitizer" in p.stderr or "runtime error" in p.stderr
            if not sanit and p.returncode >= 0:
                # ended without a sanitizer report or a signal: the harness could not start (overloaded machine):
                # not a verdict about the request; wait and run it again, give up without a verdict if it persists
                retries += 1
                if retries <= 4:
                    time.sleep(5 * retries)
                    start = start + k
                    continue
                for i in range(start + k, len(reqs)):
                    out[i] = "NOT-RUN"
                ck.notes.append("the harness could not be started (rc=%d): %d inputs not run" %
                                (p.returncode, len(reqs) - start - k))
                break
            out[start + k] = "CRASH rc=%d %s" % (p.returncode, p.stderr[:1800])
        retries = 0
        start = start + k + 1
        restarts += 1
        if restarts > 40:
            for i in range(start, len(reqs)):
                out[i] = "NOT-RUN"
            break
    return out


def shrink(ck, harness, driver, o, s, same_failure, rounds=14, width=48):
    """greedy byte-level reduction of an input keeping `same_failure(impl_answer, model_answer)` true;
    bounded: at most `rounds` batches of at most `width` candidates"""
    cur = s
    step = max(1, len(cur) // 2)
    for _ in range(rounds):
        if len(cur) <= 1:
            break
        cands = []
        i = 0
        while i < len(cur) and len(cands) < width:
            c = cur[:i] + cur[i + step:]
            if c != cur and c not in cands:
                cands.append(c)
            i += step
        if not cands:
            break
        ia = run_impl(ck, harness, [(o, c) for c in cands])
        ma = ck.run([driver], input="".join("%s %s\n" % (o, hx(c)) for c in cands)).stdout.splitlines()
        ok = None
        for c, a, m in zip(cands, ia, ma):
            if same_failure(a or "missing", m):
                ok = c
                break
        if ok is not None:
            cur = ok
            step = min(step, max(1, len(cur) // 2))
        elif step > 1:
            step //= 2
        else:
            break
    return cur


def build_harness(ck):
    objs = []
    jobs = [("h_%s.o" % n, vlib.REPO + "/src/Utilities/%s.cxx" % n) for n in REPO_SOURCES]
    jobs.append(("h_main.o", "C31/harness.cxx"))
    with ThreadPoolExecutor(max_workers=2) as ex:
        futs = [ex.submit(ck.cxx, name, [src], flags=["-c"], sanitize=True) for name, src in jobs]
        for f in futs:
            objs.append(f.result())
    return ck.cxx("c31h", [], libs=objs, sanitize=True)


# ----------------------------------------------------------------------------- number extraction
def expected_double(plain):
    """bits of the correctly rounded binary64 of a plain decimal literal (no suffix), or None out of range"""
    t = plain.replace("'", "")
    m, e = t, 0
    for c in "eE":
        if c in t:
            m, ex = t.split(c)
            e = int(ex)
    if "." in m:
        ip, fp = m.split(".")
    else:
        ip, fp = m, ""
    digs = (ip + fp) or "0"
    v = Fraction(int(digs)) * Fraction(10) ** (e - len(fp))
    if v != 0 and not (Fraction(2) ** -1000 < v < Fraction(2) ** 1000):
        return None
    return "%x" % struct.unpack("<Q", struct.pack("<d", float(v)))[0]


def corpus_files():
    files = []
    for ext in ("mfront", "mtest"):
        files += sorted(glob.glob(os.path.join(vlib.REPO, "**", "*." + ext), recursive=True))
    return [f for f in files if "/_build/" not in f][:400]


MUT_BYTES = ['"', "'", "/", "*", "\\", "#", "R", "(", ")", "\n", " ", ".", "0", "x", "e", "-", "+", "!", "<", ">",
             "\x00", "\xff", "\t", "_", ":", "="]


def mutate(rng, s):
    n = rng.choice([1, 1, 2, 3, 6])
    b = list(s)
    for _ in range(n):
        if not b:
            b = list(rng.choice(MUT_BYTES))
            continue
        i = rng.randrange(len(b))
        k = rng.random()
        if k < 0.3:
            b[i] = rng.choice(MUT_BYTES)
        elif k < 0.55:
            b.insert(i, rng.choice(MUT_BYTES))
        elif k < 0.75:
            del b[i]
        elif k < 0.85:
            b[i] = chr(rng.randrange(256))
        elif k < 0.93:
            j = min(len(b), i + rng.randrange(1, 8))
            b[i:i] = b[i:j]
        else:
            del b[i:i + rng.randrange(1, 30)]
    return "".join(b)


FIXED = [
    # replays of the defects of the unchanged code and regression inputs
    ("-", "0xff"), ("-", "x = 0x1F;"), ("-", "0x9"), ("-", "0b101 + 1"), ("-", "a->*b"), ("-", "/* a */ //!< b"),
    ("-", "x //!< doc"), ("-", "x; /*!< doc */ y"), ("-", "//! d1\n//! d2\nx"), ("-", "'a"), ("-", "089"),
    ("-", "1'000'000"), ("-", "a - 1"), ("-", "a-1"), ("-", "a -1"), ('-', 'R"(\nabc)"'), ("-", 'R"xx(a)x"b)xx" c'),
    ("-", '"a\\"b" c'), ("-", '"a\\\\" c'), ("-", "0"), ("-", "1.5e-3f 1e5f 2ull 3lu 1_km"), ("-", "a &= b ^= c"),
    ("-", "/* a\n b \n c */ d"), ("-", "/*\n a\n*/"), ("-", "#define X 1\n  # include <a.h>"), ("-", "a\n#\n"),
    ("-", "x = .5 + -.5;"), ("-", ""), ("-", "\n"), ("-", "\\"), ("-", "a \\"), ("-", "a \\ b"), ("-", "a # b"),
    ("-", "1..2"), ("-", "1.2.3"), ("-", "1e"), ("-", "1e+"), ("-", "'\\"), ("-", "'\\a"), ("-", "''"), ("-", "'''"),
    ("-", '"abc'), ("-", 'R"abc'), ("-", 'R"('), ("-", "/*"), ("-", "/*/"), ("-", "/**/"), ("-", "/*!*/x/*!<*/"),
    ("-", "//"), ("-", "//!<"), ("-", "a\x00b"), ("-", "\xff\xfe"), ("-", "1_"), ("-", "1_ "), ("-", "0b"), ("-", "0x"),
    ("-", "0xg"), ("-", "0b12"), ("-", "1u -1u"), ("-", "1.0ll"), ("-", "1lul"), ("-", "#"), ("-", "# define"),
    ("-", "#foo"), ("-", "#(x)"), ("-", "a.b..c.*d...e"), ("-", "a<<=b>>=c"), ("-", "-"), ("-", "+"), ("-", "-."),
    ("-", "-.x"), ("-", "--1"), ("-", "+-1"), ("-", "a+++b"), ("-", "x /*!< back */ /*! fwd */ y /* c */ z"),
    ("-", "/*! a */ /*! b */ x"), ("-", "/*! a */ 1"), ("-", "x /*!< a */ /*!< b */"),
    ("k", "/* a */ x // b"), ("k", "/*!< a\n b */ x"), ("m", '"a" "b" \'c\' "d"'), ("mq", "\"a\" 'b' \"c\""),
    ("q", "'abc' 'a\\'b'"), ("hH", "a # comment"), ("hHk", "a # comment"), ("h", "a # b #"), ("b", "a \\ b"),
    ("p", "#define X"), ("s", "\"a' b"), ("n", "12.5e3 -1"), ("c", "/* a */ b"), ("x", "a // b"), ("j", "a<<b->c::d"),
    ("g", "a`b"), ("d", "a.b 1.5"), ("P", "a+b +1"), ("M", "a-b -1 a->b"), ("B", "a b"), ("B", ""),
    ("m", 'R"(ab)" "cd"'), ("-", 'R"(a\nb\n)" c'), ("-", 'R"d(a\n)d" c'), ("-", "a /* b\n c */ -1"),
]


# lexemes of some fixed inputs (replays of the defects of the unchanged code)
FIXED_EXPECTED = {
    ("-", "0xff"): [(NUMBER, 1, 0, "0xff")],
    ("-", "x = 0x1F;"): [(STD, 1, 0, "x"), (STD, 1, 2, "="), (NUMBER, 1, 4, "0x1F"), (STD, 1, 8, ";")],
    ("-", "0b101 + 1"): [(NUMBER, 1, 0, "0b101"), (STD, 1, 6, "+"), (NUMBER, 1, 8, "1")],
    ("-", "a->*b"): [(STD, 1, 0, "a"), (STD, 1, 1, "->*"), (STD, 1, 4, "b")],
    ("-", "/* a */ //!< b"): [(COMMENT, 1, 3, "a"), (DOXYBACK, 1, 13, "b")],
}
FIXED_KINDS = {
    ("-", "0xff"): ["number:hex"], ("-", "x = 0x1F;"): ["word", "op", "number:hex", "op"],
    ("-", "0b101 + 1"): ["number:bin", "op", "number:int"], ("-", "a->*b"): ["word", "op:->*", "word"],
    ("-", "/* a */ //!< b"): ["ccomment", "cxxcomment"],
}


def run(ck):
    rng = random.Random(ck.seed)
    harness = build_harness(ck)
    driver = ck.lean_exe("c31driver", "TfelVerif/C31/Driver.lean")
    res = ck.lean(PROPS, PROPS)
    ck.lean_violations(res)
    if not ck.quick:
        for (mod, log) in ck.leanchecker(PROPS):
            ck.violation("leanchecker:" + mod, "leanchecker rejects %s" % mod, {"log": log}, False)

    # ---------------------------------------------------------------- requests
    reqs = []      # (options, input, expected tokens or None, kinds, origin)
    for o, s in FIXED:
        reqs.append((o, s, FIXED_EXPECTED.get((o, s)), FIXED_KINDS.get((o, s), ()), "fixed"))
    n_streams = 700 if ck.quick else 12000
    for i in range(n_streams):
        g = Gen(rng, extended=(i % 3 == 2))
        text, exp, kinds = g.stream(rng.choice([1, 1, 2, 4, 7]))
        reqs.append(("-", text, exp, kinds, "grammar"))
    files = corpus_files()
    rng.shuffle(files)
    n_mut = 500 if ck.quick else 8000
    used_files = 0
    per_file = max(1, n_mut // max(1, min(len(files), 120 if ck.quick else 400)))
    for f in files:
        if n_mut <= 0:
            break
        try:
            data = open(f, "rb").read().decode("latin1")
        except OSError:
            continue
        used_files += 1
        reqs.append(("-", data[:6000], None, (), "corpus:" + os.path.relpath(f, vlib.REPO)))
        for _ in range(per_file):
            a = rng.randrange(max(1, len(data)))
            chunk = data[a:a + rng.choice([40, 120, 400, 1500])]
            reqs.append(("-", mutate(rng, chunk), None, (), "mutation:" + os.path.relpath(f, vlib.REPO)))
            n_mut -= 1
    optletters = "kmhHbpsncxjgqdPMB"
    n_opt = 300 if ck.quick else 4000
    for i in range(n_opt):
        o = "".join(sorted(set(rng.choice(optletters) for _ in range(rng.choice([1, 1, 2, 4]))))) or "-"
        if rng.random() < 0.5:
            text, _, _ = Gen(rng, True).stream(rng.choice([1, 2, 3]))
            text = mutate(rng, text) if rng.random() < 0.3 else text
        else:
            text = "".join(rng.choice(MUT_BYTES + list("ab1")) for _ in range(rng.choice([1, 3, 6, 12])))
        reqs.append((o, text, None, (), "options"))
    # exhaustive: every string of length <= 3 over a small alphabet of special characters (quick: length <= 2)
    alpha = ["a", "R", "0", "1", "x", "e", ".", "'", '"', "\\", "/", "*", "#", " ", "-", ">", "!", "<", "(", ")", "\n"]
    import itertools
    for n in range(0, 3 if ck.quick else 4):
        for t in itertools.product(alpha, repeat=n):
            reqs.append(("-", "".join(t), None, (), "exhaustive-short"))
    # C comments and star runs: a directed corpus, then EVERY string up to length 7 over {'/','*','a',' ','\n'},
    # each with the tokens expected from the lexical rules alone (spec_small)
    for o, t, e, kd in star_corpus():
        reqs.append((o, t, e, kd, "comment-stars"))
    for n in range(0, 8):
        for t in itertools.product("/*a \n", repeat=n):
            t = "".join(t)
            e, kd = spec_small(t)
            reqs.append(("-", t, e, kd, "exhaustive-comment"))

    pairs = [(o, s) for o, s, _, _, _ in reqs]
    impl = run_impl(ck, harness, pairs)
    extra = impl[len(pairs):]
    impl = impl[:len(pairs)]
    pm = ck.run([driver], input="".join("%s %s\n" % (o, hx(s)) for o, s in pairs), timeout=1500)
    model = pm.stdout.splitlines()
    if pm.returncode != 0 or len(model) != len(pairs):
        ck.violation("corr:driver", "the Lean model driver failed (%d answers for %d requests)" % (len(model), len(pairs)),
                     {"stderr": pm.stderr[-1500:]}, False)
        model += ["missing"] * (len(pairs) - len(model))
    for e in extra:
        ck.violation(SRC + ":leak", "the sanitised harness exited abnormally (leak or late report)", {"stderr": e}, False)

    # ---------------------------------------------------------------- comparison
    reported = set()
    hist_flags = [0] * 8
    hist_err = {}
    hist_kinds = {}
    hist_origin = {}
    disagreements = 0
    grammar_ok = 0
    distinct = set()
    num_hist = {}
    num_checked = 0

    def report(key, what, rep, found):
        if key in reported:
            return
        reported.add(key)
        # keys are matched against known_findings.txt: no white space
        ck.violation("-".join(key.split()), what, rep, found)

    for i, (o, s, exp, kinds, origin) in enumerate(reqs):
        a, m = impl[i] or "missing", model[i]
        if a == "NOT-RUN":
            continue
        hist_origin[origin.split(":")[0]] = hist_origin.get(origin.split(":")[0], 0) + 1
        rep = {"options": o, "input": s, "input_hex": hx(s), "origin": origin, "implementation": a[:3000],
               "model": m[:3000], "replay": "printf '%s %s\\n' | work/C31/c31h   (harness/C31/harness.cxx)" % (o, hx(s))}
        if a.startswith("CRASH") or a == "HANG" or a == "missing":
            disagreements += 1
            kind = "hang" if a == "HANG" else ("sanitizer" if "Sanitizer" in a or "runtime error" in a else "crash")
            site = "stripComments" if "stripComments" in a else ("parse" if "parseString" in a or "splitLine" in a else "?")
            small = s
            if "%s:%s:%s" % (SRC, site, kind) in reported:
                continue
            if len(s) > 40:
                small = shrink(ck, harness, driver, o, s,
                               lambda x, y: (x.startswith("CRASH") or x == "HANG") and ((x == "HANG") == (a == "HANG")))
                rep["input_minimised"] = small
                rep["input_minimised_hex"] = hx(small)
            report("%s:%s:%s" % (SRC, site, kind),
                   "CxxTokenizer %s on input %r (options %s): the property requires 'tokenizes or throws'" %
                   ({"hang": "does not terminate within 2 s CPU", "sanitizer": "reads out of bounds / sanitizer report",
                     "crash": "crashes"}[kind], small[:80], o), rep, True)
            continue
        if a.startswith("ok"):
            secs = a.split("|")
            toks = parse_tokens(secs[1])
            stoks = parse_tokens(secs[2])
            for t in toks:
                hist_flags[t[0]] += 1
            # (b) on the implementation's own answer: stripComments removes exactly the comment tokens
            kept = [t[:4] for t in toks if t[0] not in COMMENT_FLAGS]
            if [t[:4] for t in stoks] != kept:
                disagreements += 1
                report(SRC + ":stripComments:not-exactly-the-comments",
                       "stripComments on %r does not return exactly the non-comment tokens" % s[:80],
                       dict(rep, expected_after_strip=kept, got=[t[:4] for t in stoks]), True)
                continue
        else:
            ec = error_class(a)
            hist_err[ec] = hist_err.get(ec, 0) + 1
            if "e=100" not in a:
                report(SRC + ":parseStream:state-not-cleared", "tokenizer state not cleared after an exception", rep, True)
        if exp is not None:
            for k in kinds:
                hist_kinds[k] = hist_kinds.get(k, 0) + 1
            got = [t[:4] for t in toks] if a.startswith("ok") else None
            if got != exp:
                disagreements += 1
                if core(a) == core(m):
                    report("corr:spec", "model and implementation agree but differ from the generator's expectation "
                           "(generator or theorem statement wrong)", dict(rep, expected_tokens=exp), False)
                    continue
                if got is None:
                    # the implementation throws on a stream of well-formed lexemes
                    key = "%s:rejects:%s" % (SRC, error_class(a))
                    if key in reported:
                        continue
                    small = shrink(ck, harness, driver, o, s,
                                   lambda x, y: x.startswith("err") and y.startswith("ok") and
                                   error_class(x) == error_class(a))
                    sm = ck.run([driver], input="%s %s\n" % (o, hx(small))).stdout.strip()
                    sa = run_impl(ck, harness, [(o, small)])[0]
                    lex = [t[3] for t in parse_tokens(sm.split("|")[1])] if sm.startswith("ok") else None
                    report(key, "CxxTokenizer throws (%s) on %r, which is made of the well-formed lexemes %s" %
                           (error_class(a), small[:80], lex),
                           dict(rep, expected_tokens=exp, input_minimised=small, input_minimised_hex=hx(small),
                                implementation_on_minimised=sa[:1500], model_on_minimised=sm[:1500]), True)
                    continue
                j = 0
                while j < min(len(got), len(exp)) and got[j] == exp[j]:
                    j += 1
                cls = (kinds[j] if j < len(kinds) else "extra-token").split("+")[0]
                rep2 = dict(rep, expected_tokens=exp, first_difference_index=j, lexeme_class=cls,
                            expected=exp[j] if j < len(exp) else None, got=got[j] if j < len(got) else None)
                report("%s:%s" % (SRC, cls),
                       "the tokens of %r are not its lexemes: %s lexeme #%d expected %r, got %r" %
                       (s[:80], cls, j, rep2["expected"], rep2["got"]), rep2, True)
                continue
            grammar_ok += 1
            distinct.add(tuple(sorted(set(kinds))))
            # number extraction
            nums = {}
            for ent in secs[4].split(";") if len(secs) > 4 and secs[4] else []:
                f = ent.split(",")
                nums[int(f[0])] = f[1:]
            for j, k in enumerate(kinds):
                if not k.startswith("number:") or j not in nums:
                    continue
                cls = k[7:]
                dbl, ival, uval = nums[j]
                outcome = "double:" + ("throws" if dbl == "x" else "value")
                num_hist[cls + " " + outcome] = num_hist.get(cls + " " + outcome, 0) + 1
                if cls in ("int", "float"):
                    value = exp[j][3]
                    want = expected_double(value)
                    if want is None:
                        continue
                    num_checked += 1
                    if dbl != want:
                        report(SRC + ":readDouble:" + cls,
                               "readDouble on the number token %r returns bits %s, the literal's value is %s" %
                               (value, dbl, want), dict(rep, token=value, got_bits=dbl, expected_bits=want), True)
                    if cls == "int" and not value.startswith("0") and int(value) < 2 ** 31 and ival != str(int(value)):
                        report(SRC + ":readInt", "readInt on %r returns %s" % (value, ival),
                               dict(rep, token=value, got=ival), True)
        if core(a) != core(m):
            disagreements += 1
            cls = "error-vs-tokens" if a[:2] != m[:2] else ("error-text" if a.startswith("err") else "tokens")
            small = s
            rejects = o == "-" and m.startswith("ok") and a.startswith("err")
            key0 = ("%s:rejects:%s" % (SRC, error_class(a))) if rejects else "corr:%s:%s" % (cls, origin.split(":")[0])
            if key0 in reported:
                continue
            if len(s) > 30:
                small = shrink(ck, harness, driver, o, s, lambda x, y: core(x) != core(y) and x[:2] == a[:2] and y[:2] == m[:2])
            rep2 = dict(rep, input_minimised=small, input_minimised_hex=hx(small))
            sa = run_impl(ck, harness, [(o, small)])[0]
            sm = ck.run([driver], input="%s %s\n" % (o, hx(small))).stdout.strip()
            rep2["implementation_on_minimised"], rep2["model_on_minimised"] = sa[:2000], sm[:2000]
            # the property's own predicate on the minimised input: is it a rendering of lexemes the model tokenizes
            # while the implementation throws / returns other tokens?  Only the model's answer is available as the
            # reference here, so this is a correspondence failure unless the model's answer is a clean token list of
            # a default-options input that the implementation rejects.
            if rejects and sm.startswith("ok") and sa.startswith("err"):
                report(key0,
                       "CxxTokenizer throws (%s) on %r, which is made of well-formed lexemes: %s" %
                       (error_class(sa), small[:80], [t[3] for t in parse_tokens(sm.split("|")[1])][:12]), rep2, True)
            else:
                report("corr:%s:%s" % (cls, origin.split(":")[0]),
                       "correspondence Model.lean vs CxxTokenizer broken (%s) on %r" % (cls, small[:80]), rep2, False)

    ck.assumptions += [
        "M: Model.lean is tied to CxxTokenizer.cxx by differential execution on every run (grammar streams, mutated "
        ".mfront/.mtest corpus, option sets, all short strings over a special-character alphabet, a directed corpus "
        "of C comments with star runs and every string up to length 7 over {/,*,a,blank,newline}): tokens, flags, "
        "line, offset, the state flags and the exact what() text are compared",
        "memory safety / termination of the C++ on arbitrary bytes is NOT implied by the model's totality: it is "
        "supported only by the ASan/UBSan differential runs with a 2 s CPU watchdog per input",
        "`std::isspace/isdigit/isalpha` are those of the C locale; reading `*pe` yields the string's NUL terminator",
        "addSeparator (additional separators), openFile and the `comments` map of stripComments are not modelled",
    ]
    return ck.finish({
        "evaluations": len(reqs), "grammar_streams": sum(1 for r in reqs if r[2] is not None),
        "grammar_streams_matching_expectation": grammar_ok,
        "distinct_nontrivial": len(distinct),
        "rule": "distinct = sets of lexeme classes occurring together in a generated stream whose implementation "
                "tokens equal the expectation computed from the lexemes; non-trivial = every stream has >= 1 line",
        "exhaustive": False, "disagreements": disagreements,
        "origin_histogram": hist_origin, "token_flag_histogram": dict(zip(
            ["Standard", "Comment", "Number", "DoxygenComment", "DoxygenBackwardComment", "String", "Char",
             "Preprocessor"], hist_flags)),
        "lexeme_class_histogram": hist_kinds, "error_class_histogram": hist_err,
        "corpus_files_used": used_files, "number_extraction_histogram": num_hist,
        "number_extractions_checked_exactly": num_checked,
        "samples": ["%s %r -> impl %s" % (reqs[i][0], reqs[i][1][:60], (impl[i] or "")[:120]) for i in (0, 4, 30, len(FIXED) + 3)],
    })
