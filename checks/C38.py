"""C38 — material-property call contracts (status, bounds, errno) hold.  Tie: M at two levels.

 (a) text level: the contract skeleton (a small IR of guarded effect lists) is extracted from the
     C++ emitted by the *current* GenericMaterialPropertyInterfaceBase.cxx /
     CMaterialPropertyInterfaceBase.cxx for seeded random material properties and compared with
     the IR produced by the Lean generator model `emit` / `emitC`;
 (b) run level: the emitted sources are compiled and called on dyadic arguments on/around every
     bound, under the three policies, with caller errno in {0, EDOM, 7}, wrong argument counts and
     bodies that throw / set errno / return non-finite values; (status, bounds_status,
     c_error_number, return value, errno after) is compared with the Lean semantics `exec (emit d)`
     and with the documented contract evaluated independently here.

The emitters are always compiled from VERIF_REPO (default /repo) and linked *in front of* the
prebuilt libTFELMFront (ELF symbol interposition, verified at run time with LD_DEBUG=bindings),
so the code under test is the working tree's, never a stale mfront binary.
"""
import itertools
import os
import random
import re
from concurrent.futures import ThreadPoolExecutor
from fractions import Fraction

import vlib

PROPS = ["TfelVerif.C38.Props"]
GEN_SRC = "mfront/src/GenericMaterialPropertyInterfaceBase.cxx"
C_SRC = "mfront/src/CMaterialPropertyInterfaceBase.cxx"
POLICIES = ["none", "warning", "strict"]
ERRNOS = [0, 33, 7]          # 33 = EDOM
SCALE = 8

# control values of the last input `q`: what the body does
#   q -> (exception, errno set by the body, output override)
CONTROL = {0: ("none", 0, None), 1: ("none", 33, None), 2: ("none", 34, None), 3: ("std", 0, None),
           4: ("other", 0, None), 5: ("none", 0, "inf"), 6: ("none", 0, "nan"), 7: ("none", 0, "-inf"),
           8: ("none", 34, "inf")}


# ---------------------------------------------------------------- descriptions
class Bnd:
    def __init__(self, kind, lo=None, hi=None):
        self.kind, self.lo, self.hi = kind, lo, hi          # lo/hi: ints scaled by 8

    def enc(self):
        return {"L": "L:%d" % (self.lo or 0), "U": "U:%d" % (self.hi or 0)}.get(self.kind) or "B:%d:%d" % (self.lo, self.hi)

    def violated(self, x):
        if x == "nan":
            return False
        lo = x == "-inf" or (x != "inf" and self.kind in "LB" and x < self.lo)
        hi = x == "inf" or (x != "-inf" and self.kind in "UB" and x > self.hi)
        return (self.kind in "LB" and lo) or (self.kind in "UB" and hi)

    def text(self):
        f = lambda v: repr(v / SCALE) if v % SCALE else str(v // SCALE)
        return {"L": "[%s:*[" % f(self.lo or 0), "U": "]*:%s]" % f(self.hi or 0)}.get(self.kind) or "[%s:%s]" % (f(self.lo), f(self.hi))


def enc_opt(b):
    return b.enc() if b else "-"


class Var:
    def __init__(self, name, phys=None, std=None):
        self.name, self.phys, self.std = name, phys, std


class Desc:
    def __init__(self, law, inputs, output, coeffs, c0):
        self.law, self.inputs, self.output, self.coeffs, self.c0 = law, inputs, output, coeffs, c0

    def enc(self):
        vs = self.inputs + [self.output]
        return " ".join([str(len(self.inputs))] + ["%s %s" % (enc_opt(v.phys), enc_opt(v.std)) for v in vs])

    def mfront(self):
        L = ["@DSL MaterialProperty;", "@Law %s;" % self.law, "@Includes{\n#include<stdexcept>\n#include<limits>\n}",
             "@Output real y;", "@Input real %s;" % ", ".join(v.name for v in self.inputs)]
        for v in self.inputs + [self.output]:
            if v.phys:
                L.append("@PhysicalBounds %s in %s;" % (v.name, v.phys.text()))
            if v.std:
                L.append("@Bounds %s in %s;" % (v.name, v.std.text()))
        lin = " + ".join(["%s" % repr(self.c0 / SCALE)] + ["(%d) * %s" % (c, v.name) for c, v in zip(self.coeffs, self.inputs)])
        body = ["y = %s;" % lin,
                "if(q == 1){ errno = 33; }", "if(q == 2){ errno = 34; }",
                "if(q == 3){ throw(std::runtime_error(\"boom\")); }", "if(q == 4){ throw(42); }",
                "if(q == 5){ y = std::numeric_limits<double>::infinity(); }",
                "if(q == 6){ y = std::numeric_limits<double>::quiet_NaN(); }",
                "if(q == 7){ y = -std::numeric_limits<double>::infinity(); }",
                "if(q == 8){ errno = 34; y = std::numeric_limits<double>::infinity(); }"]
        L.append("@Function{\n  " + "\n  ".join(body) + "\n}")
        return "\n".join(L) + "\n"

    def body(self, args):
        """(exception, errno, output) of the body on finite scaled args; output scaled int or 'inf'/'nan'/'-inf'"""
        q = args[-1]
        ctl = CONTROL.get(q // SCALE if (isinstance(q, int) and q % SCALE == 0) else -1, CONTROL[0])
        if any(not isinstance(a, int) for a in args):
            out = non_finite_linear(self.c0, self.coeffs, args)
        else:
            out = self.c0 + sum(c * a for c, a in zip(self.coeffs, args))
        return ctl[0], ctl[1], (ctl[2] if ctl[2] is not None else out)


def non_finite_linear(c0, coeffs, args):
    """c0 + sum c_i*a_i in IEEE arithmetic with inf/nan entries, evaluated left to right as the body does"""
    val = {"inf": float("inf"), "-inf": float("-inf"), "nan": float("nan")}
    acc = c0 / SCALE
    for c, a in zip(coeffs, args):
        x = val[a] if not isinstance(a, int) else a / SCALE
        acc = acc + float(c) * x
    if acc != acc:
        return "nan"
    if acc in (float("inf"), float("-inf")):
        return "inf" if acc > 0 else "-inf"
    return int(round(acc * SCALE))


def rand_bound(rng, kind, within=None):
    lo = rng.randint(-40, 20) * 2
    hi = lo + rng.randint(0, 30) * 2
    if within:                                  # standard bounds contained in the physical ones
        if within.kind in "LB":
            lo = within.lo + rng.choice([0, 0, 2, 8, 16])
        if within.kind in "UB":
            hi = within.hi - rng.choice([0, 0, 2, 8, 16])
        if within.kind == "B" and lo > hi:
            lo = hi = (within.lo + within.hi) // 2
        if within.kind == "L":
            hi = lo + rng.randint(0, 30) * 2
        if within.kind == "U":
            lo = hi - rng.randint(0, 30) * 2
    return Bnd(kind, lo if kind in "LB" else None, hi if kind in "UB" else None)


def rand_var(rng, name, pk=None, sk=None):
    pk = pk if pk is not None else rng.choice(["-", "-", "L", "U", "B"])
    phys = rand_bound(rng, pk) if pk != "-" else None
    if sk is None:
        allowed = {"-": ["-", "L", "U", "B"], "L": ["-", "L", "B"], "U": ["-", "U", "B"], "B": ["-", "B"]}[pk]
        sk = rng.choice(allowed)
    if pk == "U" and sk == "B":
        # front-end quirk: with an upper physical bound only, checkBoundsCompatibility compares the standard lower
        # bound with the *default* physical lower bound numeric_limits<long double>::min() (smallest positive
        # normal, not lowest()): only strictly positive standard lower bounds are accepted
        phys = Bnd("U", None, rng.randint(8, 40) * 2)
        hi = phys.hi - rng.choice([0, 0, 2, 8])
        lo = rng.randint(1, max(1, hi // 2)) * 2 if hi >= 4 else 2
        return Var(name, phys, Bnd("B", min(lo, hi), hi))
    std = rand_bound(rng, sk, phys) if sk != "-" else None
    return Var(name, phys, std)


def make_descs(rng, n):
    D = []
    # systematic coverage of every emitter branch first
    plans = [
        [("-", "L"), ("-", "U"), ("-", "B")], ("-", "U"),
        [("L", "L"), ("U", "U"), ("B", "B")], ("B", "B"),
        [("L", "B"), ("U", "B")], ("L", "L"),
        [("L", "-"), ("U", "-"), ("B", "-")], ("U", "U"),
        [("-", "U")], ("-", "-"),
        [], ("U", "-"),
        # positions, not counts: inputs without (standard|physical) bounds placed before inputs that have them
        [("-", "-"), ("-", "B"), ("L", "-"), ("B", "B")], ("-", "L"),
        [("U", "-"), ("-", "-"), ("-", "L"), ("L", "L")], ("B", "-"),
    ]
    for i in range(n):
        law = "C38MP%d" % i
        if 2 * i + 1 < len(plans):
            ins = [rand_var(rng, "x%d" % (j + 1), pk, sk) for j, (pk, sk) in enumerate(plans[2 * i])]
            out = rand_var(rng, "y", *plans[2 * i + 1])
        else:
            ins = [rand_var(rng, "x%d" % (j + 1)) for j in range(rng.randint(0, 3))]
            out = rand_var(rng, "y")
        q = Var("q") if rng.random() < 0.8 else rand_var(rng, "q", "-", "U")
        if q.std:
            q.std = Bnd("U", None, 9 * SCALE)           # every control value stays inside
        ins.append(q)
        coeffs = [rng.choice([-2, -1, 1, 2]) for _ in ins[:-1]] + [0]
        D.append(Desc(law, ins, out, coeffs, rng.randint(-80, 80)))
    return D


PATTERN = {"n": ("-", "-"), "s": ("-", "S"), "p": ("P", "-"), "b": ("P", "S")}    # none, standard, physical, both


def make_pattern_descs(rng, sizes):
    """every pattern of {none, standard only, physical only, both} over k inputs (k in sizes), random bound
    kinds; text level only (mfront generation + skeleton comparison, no compilation)"""
    D = []
    for k in sizes:
        for pat in itertools.product("nspb", repeat=k):
            ins = []
            for j, c in enumerate(pat):
                pk, sk = PATTERN[c]
                pk = rng.choice(["L", "U", "B"]) if pk == "P" else "-"
                if sk == "S":
                    sk = rng.choice({"-": ["L", "U", "B"], "L": ["L", "B"], "U": ["U", "B"], "B": ["B"]}[pk])
                ins.append(rand_var(rng, "x%d" % (j + 1), pk, sk))
            ins.append(Var("q"))
            out = rand_var(rng, "y")
            coeffs = [rng.choice([-2, -1, 1, 2]) for _ in ins[:-1]] + [0]
            D.append(Desc("C38T%d%s" % (k, "".join(pat)), ins, out, coeffs, rng.randint(-80, 80)))
    return D


# ---------------------------------------------------------------- the documented contract (python)
def spec(d, args, nargs, policy, e0):
    """returns ((status, bounds, cerr, ret, errno_after), path label)"""
    n = len(d.inputs)
    if nargs != n:
        return (-5, 0, 0, "nan", e0), "nargs"
    for r, (v, x) in enumerate(zip(d.inputs, args), 1):
        if v.phys and v.phys.violated(x):
            return (-1, -r, 0, "nan", e0), "in-phys-%s" % v.phys.kind
    w, wk = 0, ""
    for r, (v, x) in enumerate(zip(d.inputs, args), 1):
        if v.std and v.std.violated(x):
            if policy == "strict":
                return (-1, -r, 0, "nan", e0), "in-std-%s-strict" % v.std.kind
            if policy == "warning":
                w, wk = r, "in-std-%s-warning" % v.std.kind
    exc, be, out = d.body(args)
    if exc != "none":
        return (-2, w, 0, "nan", e0), "exception-" + exc
    o = d.output
    if o.phys and o.phys.violated(out):
        return (-1, -(n + 1), 0, "nan", e0), "out-phys-%s" % o.phys.kind
    status = 1 if w else 0
    path = wk or "ok"
    if o.std and o.std.violated(out):
        if policy == "strict":
            return (-1, -(n + 1), 0, "nan", e0), "out-std-%s-strict" % o.std.kind
        if policy == "warning":
            status, w, path = 1, n + 1, "out-std-%s-warning" % o.std.kind
    cerr = 0
    if be != 0:
        status, cerr, path = -3, be, path + "+errno"
    if not isinstance(out, int):
        status, path = -4, path + "+nonfinite"
    return (status, w, cerr, str(out), e0), path


def spec_c(d, args):
    for r, (v, x) in enumerate(zip(d.inputs, args), 1):
        if v.phys and v.phys.violated(x):
            return -r
    for r, (v, x) in enumerate(zip(d.inputs, args), 1):
        if v.std and v.std.violated(x):
            return r
    return 0


# ---------------------------------------------------------------- skeleton extraction from the emitted C++
def scaled(txt):
    f = Fraction(txt) * SCALE
    return str(f.numerator) if f.denominator == 1 else "?%s" % txt


def parse_blocks(lines):
    """lines -> tree: statements (str) and ('if', [(cond|None, children), ...]) / ('try', children, [(what, children)])"""
    pos = 0

    def block():
        nonlocal pos
        out = []
        while pos < len(lines):
            l = lines[pos]
            if l.startswith("}"):
                return out
            m = re.match(r"if\s*\((.*)\)\s*\{$", l)
            if m:
                pos += 1
                arms = [(m.group(1), block())]
                while True:
                    l2 = lines[pos]
                    m2 = re.match(r"\}\s*else if\s*\((.*)\)\s*\{$", l2)
                    if m2:
                        pos += 1
                        arms.append((m2.group(1), block()))
                    elif re.match(r"\}\s*else\s*\{$", l2):
                        pos += 1
                        arms.append((None, block()))
                    else:
                        break
                assert lines[pos] == "}", lines[pos]
                pos += 1
                out.append(("if", arms))
                continue
            if l == "try{":
                pos += 1
                body = block()
                handlers = []
                while re.match(r"\}\s*catch\s*\((.*)\)\s*\{$", lines[pos]):
                    what = re.match(r"\}\s*catch\s*\((.*)\)\s*\{$", lines[pos]).group(1)
                    pos += 1
                    handlers.append((what, block()))
                assert lines[pos] == "}", lines[pos]
                pos += 1
                out.append(("try", body, handlers))
                continue
            out.append(l)
            pos += 1
        return out
    return block()


def eff_of(stmt, outname):
    s = stmt.strip()
    if s.startswith("mfront_report("):
        return "report"
    m = re.match(r"mfront_output_status->status = (-?\d+);$", s)
    if m:
        return "status=%s" % m.group(1)
    m = re.match(r"mfront_output_status->bounds_status = (-?\d+);$", s)
    if m:
        return "bounds=%s" % m.group(1)
    if s == "mfront_output_status->c_error_number = 0;":
        return "cerr=0"
    if s == "mfront_output_status->c_error_number = errno;":
        return "cerr=errno"
    if s == "errno = mfront_errno_old;":
        return "restore"
    if s == "const int mfront_errno_old = errno;":
        return "save"
    if s == "errno = 0;":
        return "clear"
    if re.match(r"return (std::)?nan\(.*\);$", s):
        return "ret-nan"
    if s == "return %s;" % outname:
        return "ret-out"
    return "?" + s


def effs(nodes, outname):
    """effect list of a branch; an inner if/else whose arms have the same effects is inlined"""
    out = []
    for nd in nodes:
        if isinstance(nd, str):
            out.append(eff_of(nd, outname))
        elif nd[0] == "if":
            arms = [effs(ch, outname) for (_, ch) in nd[1]]
            has_else = nd[1][-1][0] is None
            if has_else and all(a == arms[0] for a in arms):
                out += arms[0]
            else:
                out.append("split{%s}" % "|".join(" ".join(a) for a in arms))
        else:
            out.append("?try")
    return out


def parse_cond(cond, names):
    """bound test -> (var, 'L lo' | 'U hi' | 'B lo hi') or None"""
    num = r"(?:\w+\()?(-?[0-9.eE+-]+)\)?"
    m = re.match(r"^\((\w+) < %s\)\|\|\((\w+) > %s\)$" % (num, num), cond)
    if m and m.group(1) == m.group(3) and m.group(1) in names:
        return m.group(1), "B %s %s" % (scaled(m.group(2)), scaled(m.group(4)))
    m = re.match(r"^(\w+) < %s$" % num, cond)
    if m and m.group(1) in names:
        return m.group(1), "L %s" % scaled(m.group(2))
    m = re.match(r"^(\w+) > %s$" % num, cond)
    if m and m.group(1) in names:
        return m.group(1), "U %s" % scaled(m.group(2))
    return None


def skeleton_generic(text, d):
    """canonical skeleton lines of the emitted generic-interface function"""
    names = [v.name for v in d.inputs] + ["y"]
    rank = {n: i + 1 for i, n in enumerate(names)}
    start = text.index("const int mfront_errno_old = errno;")
    end = text.index("} // end of %s" % d.law)
    raw = [l.strip() for l in text[start:end].splitlines()]
    lines = [l for l in raw if l and not l.startswith("//")]
    # the user's function body is bracketed by #line directives; it is replaced by a marker
    li = [i for i, l in enumerate(lines) if l.startswith("#line")]
    if not li:
        return ["?no-body-found"]
    lines = lines[:li[0]] + ["@body"] + lines[li[-1] + 1:]
    lines = [l for l in lines if not l.startswith("#")]
    tree = parse_blocks(lines)
    out = []
    i = 0
    pro = []
    while i < len(tree) and isinstance(tree[i], str):
        pro.append(eff_of(tree[i], "y"))
        i += 1
    out.append("prologue: " + " ".join(pro))
    nd = tree[i]
    m = re.match(r"mfront_nargs\s*!=\s*(\d+)$", nd[1][0][0]) if nd[0] == "if" and len(nd[1]) == 1 else None
    out.append("nargs %s: %s" % (m.group(1) if m else "?" + str(nd[1][0][0]), " ".join(effs(nd[1][0][1], "y"))))
    i += 1
    while i < len(tree) and isinstance(tree[i], str) and re.match(r"(const auto \w+ = \*\(mfront_params(\+\d+u)?\);|auto y = real\{\};)$", tree[i]):
        i += 1
    if i >= len(tree) or tree[i][0] != "try":
        return out + ["?unexpected statement before try: %s" % str(tree[i])[:80]]
    _, body, handlers = tree[i]
    where = "in"
    for nd in body:
        if nd == "@body":
            where = "out"
            continue
        if isinstance(nd, str) or nd[0] != "if" or len(nd[1]) != 1:
            out.append("%s ?%s" % (where, str(nd)[:80]))
            continue
        cond, ch = nd[1][0]
        pc = parse_cond(cond, names)
        if pc is None:
            out.append("%s ?cond %s" % (where, cond))
            continue
        var, kb = pc
        pol = [c for c in ch if not isinstance(c, str) and c[0] == "if" and c[1][0][0] and "mfront_out_of_bounds_policy" in c[1][0][0]]
        if pol and len(ch) == 1:
            arms = pol[0][1]
            fail = warn = None
            extra = []
            for (c, sub) in arms:
                if c and c.replace(" ", "").endswith("_STRICT_POLICY") and "==" in c:
                    fail = effs(sub, "y")
                elif c and c.replace(" ", "").endswith("_WARNING_POLICY") and "==" in c:
                    warn = effs(sub, "y")
                else:
                    extra.append("?arm(%s)" % c)
            out.append("%s std %d %s : fail[%s] warn[%s]%s" % (where, rank[var], kb, " ".join(fail or ["?none"]),
                                                               " ".join(warn or ["?none"]), "".join(extra)))
        else:
            out.append("%s phys %d %s : fail[%s]" % (where, rank[var], kb, " ".join(effs(ch, "y"))))
    hs = {w: effs(ch, "y") for (w, ch) in handlers}
    out.append("catch-std: " + " ".join(hs.get("std::exception& e", ["?missing"])))
    out.append("catch-other: " + " ".join(hs.get("...", ["?missing"])))
    rest = tree[i + 1:]
    # post-treatment: if (errno != 0) {...}  restore  if(!isfinite(y)){...}  return y;
    post = {"errno": ["?missing"], "after": [], "nonfinite": ["?missing"], "epilogue": []}
    stage = 0
    for nd in rest:
        if not isinstance(nd, str) and nd[0] == "if" and len(nd[1]) == 1:
            c = nd[1][0][0].replace(" ", "")
            if c == "errno!=0" and stage == 0:
                post["errno"] = effs(nd[1][0][1], "y")
                stage = 1
                continue
            if c == "!tfel::math::ieee754::isfinite(y)" and stage == 1:
                post["nonfinite"] = effs(nd[1][0][1], "y")
                stage = 2
                continue
        e = effs([nd], "y")
        post["after" if stage == 1 else ("epilogue" if stage == 2 else "errno")] += e if stage else ["?early " + " ".join(e)]
    out.append("errno: " + " ".join(post["errno"]))
    out.append("after-errno: " + " ".join(post["after"]))
    out.append("nonfinite: " + " ".join(post["nonfinite"]))
    out.append("epilogue: " + " ".join(post["epilogue"]))
    return out


def skeleton_c(text, d):
    names = [v.name for v in d.inputs]
    rank = {n: i + 1 for i, n in enumerate(names)}
    m = re.search(r"int %s_checkBounds\(.*?\)\s*\{(.*?)\} /\* end of %s_checkBounds \*/" % (d.law, d.law), text, re.S)
    if not m:
        return ["?no-checkBounds"]
    lines = [l.strip() for l in m.group(1).splitlines()]
    lines = [l for l in lines if l and not l.startswith("/*") and not l.startswith("using ") and
             not l.startswith("[[maybe_unused]]") and not l.startswith("static_cast<void>")]
    tree = parse_blocks(lines)
    out = []
    for nd in tree[:-1]:
        if isinstance(nd, str) or nd[0] != "if" or len(nd[1]) != 1:
            out.append("cb ?%s" % str(nd)[:80])
            continue
        cond, ch = nd[1][0]
        pc = parse_cond(cond, names)
        r = re.match(r"return (-?\d+);$", ch[0]) if len(ch) == 1 and isinstance(ch[0], str) else None
        if pc is None or r is None:
            out.append("cb ?%s -> %s" % (cond, ch))
            continue
        out.append("cb %d %s : return %s" % (rank[pc[0]], pc[1], r.group(1)))
    if not tree or tree[-1] != "return 0;":
        out.append("cb ?last statement is not `return 0;`")
    return out


# ---------------------------------------------------------------- argument vectors
def candidates(v):
    c = set()
    for b in (v.phys, v.std):
        if b:
            for x in (b.lo, b.hi):
                if x is not None:
                    c.update([x - 1, x, x + 1, x - 8, x + 8])
    return sorted(c) or [0, 8, -24]


def inside(v):
    """a value inside every bound of v (the generator keeps standard bounds inside physical ones)"""
    b = v.std or v.phys
    if not b:
        return 8
    if b.kind == "L":
        return b.lo + 8
    if b.kind == "U":
        return b.hi - 8
    return (b.lo + b.hi) // 2


def arg_vectors(rng, d, quick):
    ins = d.inputs[:-1]
    base = [inside(v) for v in ins]
    vecs = []
    for q in CONTROL:                                           # every body behaviour, arguments inside
        vecs.append(base + [q * SCALE])
    for i, v in enumerate(ins):                                 # one argument at a time around its bounds
        for x in candidates(v):
            for q in (0, 1, 3, 5):
                vecs.append(base[:i] + [x] + base[i + 1:] + [q * SCALE])
        for x in ("inf", "-inf", "nan"):
            vecs.append(base[:i] + [x] + base[i + 1:] + [0])
    cands = [candidates(v) for v in ins]
    full = list(itertools.product(*cands)) if ins else [()]
    rng.shuffle(full)
    for t in full[:(60 if quick else 600)]:                     # several arguments out of bounds at once
        vecs.append(list(t) + [rng.choice(list(CONTROL)) * SCALE])
    # output bounds: solve c0 + sum c_i x_i = target around the output's bounds using the first input
    o = d.output
    if ins:
        for x in candidates(o) if (o.phys or o.std) else []:
            rest = d.c0 + sum(c * a for c, a in zip(d.coeffs[1:], base[1:] + [0]))
            num = x - rest
            if num % d.coeffs[0] == 0:
                for q in (0, 2):
                    vecs.append([num // d.coeffs[0]] + base[1:] + [q * SCALE])
    seen, out = set(), []
    for v in vecs:
        k = tuple(v)
        if k not in seen:
            seen.add(k)
            out.append(v)
    return out


def showv(x):
    return str(x)


# ---------------------------------------------------------------- build steps
def build_mfront(ck):
    """mfront driver whose material-property emitters are compiled from the tree under test"""
    R = vlib.REPO
    foreign = not getattr(vlib, "BUILD_MATCHES_REPO", os.path.realpath(vlib.BUILD).startswith(os.path.realpath(R) + os.sep))
    if foreign:
        ck.notes.append("VERIF_REPO=%s has no build tree of its own: the mfront front end (parsing, descriptions) comes from "
                        "%s/libTFELMFront (built from another tree), NOT its mfront binary; "
                        "GenericMaterialPropertyInterfaceBase.cxx, CMaterialPropertyInterfaceBase.cxx, CMaterialPropertyInterface.cxx "
                        "and CodeGeneratorUtilities.cxx are compiled from VERIF_REPO; the generic emitter is interposed in front "
                        "of the library (binding verified with LD_DEBUG), the c interface is registered by our driver as c38c" % (R, vlib.BUILD))
        ck.log("VERIF_REPO differs from the build tree %s: emitters compiled from %s and interposed" % (vlib.BUILD, R))
    else:
        ck.ensure_targets("TFELMFront")
    inc = [R + "/mfront/include", vlib.BUILD + "/mfront/include"]
    srcs = [("driver", os.path.join(vlib.VERIF, "harness/C38/mfront_driver.cxx"))] + \
           [(n, R + "/mfront/src/%s.cxx" % n) for n in
            ("GenericMaterialPropertyInterfaceBase", "CMaterialPropertyInterfaceBase", "CMaterialPropertyInterface",
             "CodeGeneratorUtilities")]
    with ThreadPoolExecutor(max_workers=4) as ex:
        futs = [ex.submit(ck.cxx, "c38_%s.o" % n, [s], flags=("-c", "-DTFELMFront_EXPORTS"),
                          includes=inc, std="gnu++20") for n, s in srcs]
        objs = [f.result() for f in futs]
    libs = ck.libflags("TFELMFront", "MFrontLogStream", "TFELMaterial", "TFELMathParser", "TFELGlossary", "TFELSystem",
                       "TFELUtilities", "TFELException", "TFELConfig", "TFELUnicodeSupport")
    return ck.cxx("c38mfront", objs, flags=("-rdynamic",), libs=libs, std="gnu++20")


def generate(ck, mfront, gendir, files):
    p = ck.run([mfront, "--interface=generic,c38c"] + files, cwd=gendir, timeout=600)
    if p.returncode != 0:
        raise vlib.BuildError("the mfront driver built from the tree fails on the generated .mfront files",
                              (p.stdout + p.stderr)[-3000:])


def check_interposition(ck, mfront, gendir, one_file):
    """the generic emitter that ran is the one compiled from the tree: libTFELMFront's references to
    GenericMaterialPropertyInterfaceBase::writeOutputFiles/writeSrcFile are bound to our executable
    (the c interface needs no such check: its classes, compiled from the tree, are registered by our
    driver under the name c38c, see harness/C38/mfront_driver.cxx)"""
    d = os.path.join(gendir, "ldcheck")
    os.makedirs(d, exist_ok=True)
    import shutil
    shutil.copy(os.path.join(gendir, one_file), d)
    p = ck.run([mfront, "--interface=generic,c38c", one_file], cwd=d, env={"LD_DEBUG": "bindings"}, timeout=600)
    log = p.stderr
    want = ["GenericMaterialPropertyInterfaceBase16writeOutputFiles", "GenericMaterialPropertyInterfaceBase12writeSrcFile"]
    ok = all(re.search(r"binding file \S*libTFELMFront\S* \[0\] to \S*c38mfront \[0\]: normal symbol `\S*%s" % w, log) for w in want)
    if not ok:
        raise vlib.BuildError("symbol interposition failed: libTFELMFront does not bind the material-property emitters "
                              "to the objects compiled from the tree", "")


def has_check_bounds(d):
    """the c interface emits <law>_checkBounds only when an input has bounds or physical bounds"""
    return any(v.phys or v.std for v in d.inputs)


def build_harnesses(ck, descs, gendir):
    R = vlib.REPO
    inc = [os.path.join(gendir, "include"), R + "/mfront/include", ck.work]
    gt = "".join('#include "%s-generic.hxx"\n' % d.law for d in descs)
    gt += "static const Entry table[] = {\n" + "".join('  {"%s", %s},\n' % (d.law, d.law) for d in descs) + "};\n"
    ck.write("c38_generic_table.inc", gt)
    cdescs = [d for d in descs if has_check_bounds(d)]
    ct = "".join('#include "%s.hxx"\n' % d.law for d in cdescs)
    for d in cdescs:
        ct += "static int cb_%s(const double* a){ return %s_checkBounds(%s); }\n" % (
            d.law, d.law, ", ".join("a[%d]" % i for i in range(len(d.inputs))))
    ct += "static const Entry table[] = {\n" + "".join('  {"%s", %du, cb_%s},\n' % (d.law, len(d.inputs), d.law) for d in cdescs) + \
          '  {"", 0u, nullptr}\n};\n'
    ck.write("c38_c_table.inc", ct)
    jobs = [("c38h_generic_main.o", os.path.join(vlib.VERIF, "harness/C38/harness_generic.cxx")),
            ("c38h_c_main.o", os.path.join(vlib.VERIF, "harness/C38/harness_c.cxx"))]
    for d in descs:
        jobs.append(("%s-generic.o" % d.law, os.path.join(gendir, "src", "%s-generic.cxx" % d.law)))
        jobs.append(("%s-c.o" % d.law, os.path.join(gendir, "src", "%s.cxx" % d.law)))
    with ThreadPoolExecutor(max_workers=4) as ex:
        futs = {n: ex.submit(ck.cxx, n, [s], flags=("-c", "-w"), includes=inc) for n, s in jobs}
        objs = {n: f.result() for n, f in futs.items()}
    hg = ck.cxx("c38hg", [objs["c38h_generic_main.o"]] + [objs["%s-generic.o" % d.law] for d in descs], sanitize=False)
    hc = ck.cxx("c38hc", [objs["c38h_c_main.o"]] + [objs["%s-c.o" % d.law] for d in descs], sanitize=False)
    return hg, hc


SITE_G = GEN_SRC + ":writeSrcFile/writeBounds/writePhysicalBounds"
SITE_C = C_SRC + ":writeMaterialPropertyCheckBoundsBody"


def run(ck):
    rng = random.Random(ck.seed)
    mfront = build_mfront(ck)
    ndesc = 8 if ck.quick else 40
    descs = make_descs(rng, ndesc)
    tdescs = make_pattern_descs(random.Random(ck.seed + 7919), (2, 3, 4))
    gendir = ck.path("gen")
    os.makedirs(gendir, exist_ok=True)
    for d in descs + tdescs:
        with open(os.path.join(gendir, d.law + ".mfront"), "w") as f:
            f.write(d.mfront())
    generate(ck, mfront, gendir, [d.law + ".mfront" for d in descs + tdescs])
    check_interposition(ck, mfront, gendir, descs[0].law + ".mfront")
    driver = ck.lean_exe("c38driver", "TfelVerif/C38/Driver.lean")
    res = ck.lean(PROPS, PROPS)
    ck.lean_violations(res)
    if ck.tier == "thorough" and res.ok:
        for m, log in ck.leanchecker(PROPS):
            ck.violation("leanchecker:" + m, "leanchecker rejects " + m, {"log": log}, False)

    # ---- (a) text level
    alld = descs + tdescs
    q = "".join("gen %s\ngenc %s\n" % (d.enc(), d.enc()) for d in alld)
    pm = ck.run([driver], input=q, timeout=600).stdout.splitlines()
    text_diffs = {}            # law -> list of (interface, expected line, emitted line)
    skeleton_lines = 0
    for k, d in enumerate(alld):
        mg = [l.strip() for l in pm[2 * k].split(";")] if 2 * k < len(pm) else ["?driver"]
        mc = [l.strip() for l in pm[2 * k + 1].split(";") if l.strip()] if 2 * k + 1 < len(pm) else ["?driver"]
        try:
            eg = skeleton_generic(open(os.path.join(gendir, "src", "%s-generic.cxx" % d.law)).read(), d)
        except Exception as e:   # unexpected shape of the emitted text
            eg = ["?parser: %r" % e]
        try:
            ec = skeleton_c(open(os.path.join(gendir, "src", "%s.cxx" % d.law)).read(), d)
        except Exception as e:
            ec = ["?parser: %r" % e]
        if not has_check_bounds(d):
            mc = ["?no-checkBounds"]      # no bounded input: the function is not emitted at all
        skeleton_lines += len(eg) + len(ec)
        for itf, ml, el in (("generic", mg, eg), ("c", mc, ec)):
            for j in range(max(len(ml), len(el))):
                a = ml[j] if j < len(ml) else "<nothing>"
                b = el[j] if j < len(el) else "<nothing>"
                if a != b:
                    text_diffs.setdefault(d.law, []).append((itf, a, b))

    # ---- (b) run level: the directed/random laws, plus (at most 3) text-only laws whose skeleton differs, so that a
    # difference seen in the text is turned into a concrete failing call
    promoted = [d for d in tdescs if d.law in text_diffs][:3]
    n_text_only = len(tdescs)
    descs = descs + promoted
    hg, hc = build_harnesses(ck, descs, gendir)
    calls = []        # (desc, args, nargs, policy, e0)
    cbs = []
    for d in descs:
        n = len(d.inputs)
        vecs = arg_vectors(rng, d, ck.quick)
        for a in vecs:
            for pol in POLICIES:
                for e0 in ERRNOS:
                    calls.append((d, a, n, pol, e0))
            if has_check_bounds(d):
                cbs.append((d, a))
        for a in vecs[:4]:
            for na in (n - 1, n + 1, 0 if n > 1 else 5):
                for e0 in ERRNOS:
                    calls.append((d, a, na, rng.choice(POLICIES), e0))
    hin = "".join("call %s %d %d %d %s\n" % (d.law, POLICIES.index(pol), e0, na, " ".join(showv(x) for x in a))
                  for (d, a, na, pol, e0) in calls)
    min_ = ""
    for (d, a, na, pol, e0) in calls:
        exc, be, out = d.body(a)
        min_ += "call %s ; %s %d %d %s %d %s ; %s\n" % (d.enc(), pol, e0, na, exc, be, showv(out), " ".join(showv(x) for x in a))
    pi = ck.run([hg], input=hin, timeout=1200)
    impl = pi.stdout.splitlines()
    model = ck.run([driver], input=min_, timeout=1200).stdout.splitlines()
    cin = "".join("cb %s %s\n" % (d.law, " ".join(showv(x) for x in a)) for (d, a) in cbs)
    cmin = "".join("cb %s ; %s\n" % (d.enc(), " ".join(showv(x) for x in a)) for (d, a) in cbs)
    pc = ck.run([hc], input=cin, timeout=1200)
    cimpl = pc.stdout.splitlines()
    cmodel = ck.run([driver], input=cmin, timeout=1200).stdout.splitlines()
    if pi.returncode != 0 or len(impl) != len(calls) or pc.returncode != 0 or len(cimpl) != len(cbs):
        ck.violation("harness-crash", "a run-time harness aborted", {"stderr": (pi.stderr + pc.stderr)[-2000:]}, False)

    hist = {}
    groups = {}
    viol_by_law = {}
    disagreements = 0
    fields = ["status", "bounds_status", "c_error_number", "return value", "errno after the call"]
    for i, (d, a, na, pol, e0) in enumerate(calls):
        got = impl[i] if i < len(impl) else "missing"
        mod = model[i] if i < len(model) else "missing"
        if got == "missing":
            continue
        exp, path = spec(d, a, na, pol, e0)
        exps = " ".join(str(x) for x in exp)
        hist[path] = hist.get(path, 0) + 1
        if got == exps and mod == exps:
            continue
        disagreements += 1
        g = got.split()
        bad = [fields[j] for j in range(5) if j >= len(g) or g[j] != str(exp[j])]
        rep = {"site": SITE_G, "law": d.law, "mfront_file": d.mfront(), "description": d.enc(),
               "arguments_times_8": [showv(x) for x in a], "nargs": na, "policy": pol, "errno_before": e0,
               "body": dict(zip(("exception", "errno_set", "output_times_8"), [str(x) for x in d.body(a)])),
               "path": path, "implementation": dict(zip(fields, g)), "documented": dict(zip(fields, [str(x) for x in exp])),
               "model": mod, "fields_wrong": bad}
        if bad:
            key = "%s:%s:%s" % (GEN_SRC, path.split("+")[0], "errno" if bad == [fields[4]] else "outcome")
            viol_by_law.setdefault(d.law, rep)
            if key not in groups:
                groups[key] = ("viol", "generated %s(%s), policy %s, errno before %d: %s is %s, documented %s (path %s)" % (
                    d.law, ",".join(showv(x) + "/8" for x in a), pol, e0, ", ".join(bad),
                    ", ".join(g[fields.index(b)] if fields.index(b) < len(g) else "?" for b in bad),
                    ", ".join(str(exp[fields.index(b)]) for b in bad), path), rep)
        else:
            groups.setdefault("corr:%s:%s" % (GEN_SRC, path), ("corr", "Lean model answers '%s' where implementation and documented contract "
                                                                "agree on '%s'" % (mod, got), rep))
    for i, (d, a) in enumerate(cbs):
        got = cimpl[i] if i < len(cimpl) else "missing"
        mod = cmodel[i] if i < len(cmodel) else "missing"
        if got == "missing":
            continue
        exp = str(spec_c(d, a))
        hist["checkBounds:" + ("0" if exp == "0" else ("phys" if exp.startswith("-") else "std"))] = \
            hist.get("checkBounds:" + ("0" if exp == "0" else ("phys" if exp.startswith("-") else "std")), 0) + 1
        if got == exp and mod == exp:
            continue
        disagreements += 1
        rep = {"site": SITE_C, "law": d.law, "mfront_file": d.mfront(), "description": d.enc(),
               "arguments_times_8": [showv(x) for x in a], "implementation": got, "documented": exp, "model": mod}
        if got != exp:
            viol_by_law.setdefault(d.law, rep)
            groups.setdefault("%s:checkBounds:%s" % (C_SRC, "phys" if exp.startswith("-") else ("std" if exp != "0" else "inside")),
                              ("viol", "%s_checkBounds(%s) returns %s, documented %s" % (d.law, ",".join(showv(x) + "/8" for x in a), got, exp), rep))
        else:
            groups.setdefault("corr:%s:checkBounds" % C_SRC, ("corr", "Lean model answers '%s', implementation '%s'" % (mod, got), rep))
    for key, (kind, what, rep) in sorted(groups.items()):
        ck.violation(key, what, rep, kind == "viol")
    # text-level differences: tied to a failing call of the same law when there is one
    text_keys = set()
    flat = [(law, diffs, x) for law, diffs in text_diffs.items() for x in diffs]
    for law, diffs, (itf, a, b) in sorted(flat, key=lambda t: (t[0] not in viol_by_law, t[0])):
        rep = {"law": law, "interface": itf, "model_skeleton_line": a, "emitted_skeleton_line": b,
               "all_differences": [list(x) for x in diffs[:10]],
               "mfront_file": [d for d in alld if d.law == law][0].mfront()}
        wit = viol_by_law.get(law)
        line_kind = " ".join(a.split()[:2]) if not a.startswith("<") else " ".join(b.split()[:2])
        key = "text:%s:%s" % (GEN_SRC if itf == "generic" else C_SRC, re.sub(r"\d+", "N", line_kind))
        if key in text_keys:
            continue            # one report per kind of skeleton line (laws with a failing call first)
        text_keys.add(key)
        if wit:
            rep["failing_call"] = wit
        ck.violation(key, "emitted contract skeleton of %s (%s interface) differs from the generator model: model `%s`, emitted `%s`" % (
            law, itf, a, b), rep, bool(wit))

    ck.assumptions += [
        "M, two levels: the Lean generator model `emit` is compared with the skeleton extracted from the C++ text emitted by the "
        "tree's emitters (parser in checks/C38.py, ~150 lines, rejects shapes it does not know); the Lean semantics `exec` is "
        "compared with the compiled emitted code call by call",
        "the body of the material property is abstracted as (exception, errno set, output value); generated bodies realise every "
        "such behaviour through a control input",
        "bounds and arguments are dyadic numbers k/8 (exact in double and in the text written by mfront); comparisons only",
        "message texts are not part of the contract checked (only that a report is made)",
        "emitters compiled from VERIF_REPO and interposed in front of the prebuilt libTFELMFront (front end: parsing of @Bounds, "
        "descriptions), binding verified with LD_DEBUG=bindings on every run",
    ]
    return ck.finish({
        "evaluations": len(calls) + len(cbs), "distinct_nontrivial": len({(c[0].law, tuple(c[1]), c[2], c[3], c[4]) for c in calls}) + len(cbs),
        "rule": "one evaluation = one call of a compiled emitted function (generic interface: description x argument vector on/around "
                "each bound and jointly out of bounds x 3 policies x errno in {0,33,7} x body behaviour; plus wrong argument counts; "
                "c interface: _checkBounds on the same vectors); distinct = distinct (law, arguments, nargs, policy, errno) tuples",
        "exhaustive": False, "material_properties_generated": len(alld), "material_properties_compiled_and_called": len(descs),
        "text_level_pattern_descriptions": n_text_only, "skeleton_lines_compared": skeleton_lines,
        "text_level_differences": sum(len(v) for v in text_diffs.values()),
        "disagreements": disagreements, "histogram_paths": dict(sorted(hist.items())),
        "descriptions": [d.enc() for d in descs[:12]],
        "samples": ["%s args/8=%s nargs=%d %s errno=%d -> %s" % (c[0].law, c[1], c[2], c[3], c[4], impl[i] if i < len(impl) else "?")
                    for i, c in list(enumerate(calls))[:: max(1, len(calls) // 6)][:6]],
    })
