"""C48 — MTest enforces imposed loadings and reaches every requested time (tie: M with a scripted mock).

Three correspondences between lean/TfelVerif/C48/Model.lean (Float instance, native driver) and the real
code compiled from the tree, bit for bit:
  (i)   LPIEvolution / ConstantEvolution / FunctionEvolution (mtest/src/Evolution.cxx, FunctionEvolution.cxx),
  (ii)  the time loop of GenericSolver::execute driven by a scripted mtest::Study mock (harness/C48/mock.hxx),
  (iii) MTest::checkConvergence with ImposedGradient / ImposedThermodynamicForce constraints,
plus (iv) complete runs of the real MTest (prepare, Newton with Lagrange multipliers, convergence test,
sub-stepping) on a mock behaviour, on which the property's own predicate is evaluated at every requested time,
and (v) complete MTest problems through the public interface of mtest::MTest (modelling hypotheses and the
constraints they imply, tolerances through the setters, constraints built from component names, constraint
options and events, make_evolution, function evolutions, MTest::execute() over the requested times), observed
at the MTest result file (checks/c48full.py, harness/C48/fullrun.hxx).
"""
import json
import math
import os
import random
from fractions import Fraction

import vlib
from checks import c48lib, c48full
from checks.c48lib import hx, uh, pretty

PROPS = ["TfelVerif.C48.Props"]
EPS = 2.220446049250313e-16
SITE_CLAMP = "mtest/src/GenericSolver.cxx:execute:dynamic-clamp:unset-minimal-time-step"
SITE_TEPS = "mtest/src/GenericSolver.cxx:execute:end-tolerance:rounding-of-accumulated-sub-steps"


def tolmag(ti, te):
    """end tolerance relative to the magnitude of the times: what 'the requested time is reached' means
    in double arithmetic (100 ulp of the largest time involved)"""
    return 100 * EPS * max(abs(ti), abs(te), te - ti)


def loop_signature(atts, ti, te, dyn, minTs):
    """which known weakness of the time loop the attempts of the implementation exhibit (None: neither)"""
    tol = tolmag(ti, te)
    if te == ti:
        return SITE_TEPS          # the unfixed tolerance (te - ti) * 100 * eps is zero: the loop cannot end
    for k, (t, dt) in enumerate(atts):
        if dyn and minTs < 0 and dt > te - t:
            return SITE_CLAMP    # a step longer than the remaining time: the clamp `dt = te - t` should have fired
        if k > 0 and abs(te - t) <= tol:
            return SITE_TEPS      # te was reached up to rounding, and another attempt was made
    return None


# ----------------------------------------------------------------------------- generators
def gen_table(rng, nmin=0, nmax=6):
    n = rng.randint(nmin, nmax)
    style = rng.choice(["int", "dyadic", "real"])
    pts = []
    for _ in range(n):
        if style == "int":
            t = float(rng.randint(-3, 4))
        elif style == "dyadic":
            t = rng.randint(-16, 16) / 8.0
        else:
            t = rng.uniform(-10, 10)
        if rng.random() < 0.05:
            t = rng.choice([0.0, -0.0])
        pts.append((t, rng.choice([rng.uniform(-5, 5), float(rng.randint(-3, 3)), rng.uniform(-1e6, 1e6)])))
    return pts


def gen_queries(rng, pts, m=None):
    qs = []
    ts = sorted(p[0] for p in pts)
    for t in ts:
        if rng.random() < 0.7:
            qs.append(t)
    for a, b in zip(ts, ts[1:]):
        if rng.random() < 0.7:
            qs.append(a + (b - a) * rng.random())
    if ts:
        qs += [ts[0] - rng.random() * 3, ts[-1] + rng.random() * 3]
    for _ in range(rng.randint(0, 3)):
        qs.append(rng.uniform(-12, 12))
    if rng.random() < 0.1:
        qs.append(rng.choice([float("nan"), float("inf"), float("-inf"), 0.0, -0.0]))
    rng.shuffle(qs)
    return qs[:m] if m else qs


def pairs(pts):
    return " ".join("%s %s" % (hx(t), hx(v)) for t, v in pts)


def evo_desc(rng, nonempty=True):
    """(text, python evaluator data)"""
    if rng.random() < 0.4:
        v = rng.uniform(-3, 3)
        return "c %s" % hx(v), ("c", v)
    pts = gen_table(rng, 1 if nonempty else 0, 5)
    return "l %d %s" % (len(pts), pairs(pts)), ("l", pts)


def build_table(pts):
    """std::map semantics of the constructor: sorted, first insertion wins"""
    m = []
    for t, v in pts:
        i = 0
        while i < len(m) and m[i][0] < t:
            i += 1
        if i < len(m) and not (t < m[i][0]):
            continue
        m.insert(i, (t, v))
    return m


def exact_interp(m, t):
    """exact piecewise linear interpolation (rationals): the property's definition"""
    if not m:
        return None
    T = Fraction(t)
    if T <= Fraction(m[0][0]):
        return Fraction(m[0][1])
    if T >= Fraction(m[-1][0]):
        return Fraction(m[-1][1])
    for (x0, y0), (x1, y1) in zip(m, m[1:]):
        if Fraction(x0) <= T <= Fraction(x1):
            return Fraction(y0) + (Fraction(y1) - Fraction(y0)) * (T - Fraction(x0)) / (Fraction(x1) - Fraction(x0))
    return None


def float_eval(ev, t):
    """evolution value in double arithmetic, operation order of LPIEvolution::interpolate"""
    if ev[0] == "c":
        return ev[1]
    m = build_table(ev[1])
    if len(m) == 1:
        return m[0][1]
    if not (m[0][0] < t):
        return m[0][1]
    prev = m[0]
    for q in m[1:]:
        if q[0] < t:
            prev = q
            continue
        return (q[1] - prev[1]) / (q[0] - prev[0]) * (t - prev[0]) + prev[1]
    return prev[1]


#: P, Q stand for the names of the two evolutions of the manager
FORMULAS = ["t", "2*t+1", "P*t", "P+Q", "P*Q-t", "Q*Q", "(P+Q)/2", "sin(t)+P", "t*t-Q", "P", "Q+1", "3",
            "exp(-t)*Q", "max(P,Q)", "t/(1+Q*Q)", "Q-t*P", "t+P+Q"]
#: names of the evolutions: before and after "t" in every ordering the evaluator may use for its variables
FE_NAMES = [("a", "b"), ("a", "b"), ("a", "x"), ("u", "z"), ("x", "a"), ("T", "u")]


def gen_lines(rng, n_lpi, n_fe, n_solve, n_cc):
    reqs = []
    for _ in range(n_lpi):
        if rng.random() < 0.1:
            v = rng.uniform(-5, 5)
            qs = gen_queries(rng, [], 3)
            reqs.append({"kind": "cst", "line": "cst %s %d %s" % (hx(v), len(qs), " ".join(map(hx, qs))),
                         "value": v, "qs": qs})
            continue
        pts = gen_table(rng)
        sets = gen_table(rng, 0, 2) if rng.random() < 0.3 else []
        if sets and pts and rng.random() < 0.5:
            sets[0] = (rng.choice(pts)[0], sets[0][1])
        qs = gen_queries(rng, pts + sets)
        reqs.append({"kind": "lpi", "pts": pts, "sets": sets, "qs": qs,
                     "line": "lpi %d %s %d %s %d %s" % (len(pts), pairs(pts), len(sets), pairs(sets), len(qs),
                                                        " ".join(map(hx, qs)))})
    for _ in range(n_fe):
        na, nb = rng.choice(FE_NAMES)
        f = rng.choice(FORMULAS).replace("P", na).replace("Q", nb)
        da, ea = evo_desc(rng)
        db, eb = evo_desc(rng)
        qs = [rng.uniform(-5, 5) for _ in range(rng.randint(1, 4))]
        reqs.append({"kind": "fe", "formula": f, "evs": {na: ea, nb: eb}, "qs": qs,
                     "line": "fe %s 2 %s %s %s %s %d %s" % (f, na, da, nb, db, len(qs), " ".join(map(hx, qs)))})
    for _ in range(n_solve):
        reqs.append(gen_solve(rng))
    for _ in range(n_cc):
        reqs.append(gen_cc(rng))
    return reqs


def gen_solve(rng):
    dyn = rng.random() < 0.6
    mSub = rng.choice([1, 2, 3, 4, 5, 10, 10, 10, -1, 0] if rng.random() < 0.3 else [2, 3, 5, 10])
    iterMax = rng.choice([1, 2, 3, 5, 10])
    pp = rng.choice([0, 0, 1, 2])
    nu = rng.choice([0, 1, 1, 2, 3])
    exact = rng.random() < 0.5   # dyadic times and factors: exact double arithmetic
    if exact:
        ti = float(rng.randint(-4, 8))
        te = ti + rng.choice([1.0, 2.0, 0.5, 3.0, 8.0])
    else:
        ti = rng.uniform(-10, 100)
        te = ti + rng.choice([rng.uniform(0.01, 10), rng.uniform(1e-6, 1e-3), 3600.0 * rng.random()])
    r = rng.random()
    if r < 0.03:
        te = ti
    elif r < 0.06:
        te = ti - rng.random()
    span = abs(te - ti) or 1.0
    minTs = rng.choice([-1.0, -1.0, span / 64, span / 1000, span / 3, 1e-12 * span])
    maxTs = rng.choice([-1.0, -1.0, span / 2, span / 5, span * 2])
    minF = rng.choice([-1.0, -1.0, 0.1, 0.25, 0.5])
    maxF = rng.choice([-1.0, -1.0, 1.2, 2.0, 1.5])
    na = rng.choice([1, 2, 4, 8, 16, 40, 80])
    pfail = rng.choice([0.0, 0.1, 0.3, 0.6])
    atts = []
    for _ in range(na):
        if rng.random() < pfail:
            kind = rng.choice([1, 1, 2, 3, 4])
        else:
            kind = 0
        if exact:
            f = rng.choice([0.5, 0.25, 0.75, 1.0, 1.0, 1.5, 2.0, 0.125])
        else:
            f = rng.choice([rng.uniform(0.05, 1.0), rng.uniform(0.9, 1.1), 1.0, 1.0, rng.uniform(1.0, 3.0),
                            0.4, 0.3, 1 - 5 * EPS, 1 - 10 * EPS, 1 - 20 * EPS])
        x = rng.random()
        if x < 0.01:
            f = 0.0
        elif x < 0.02:
            f = -rng.random()
        elif x < 0.025:
            f = float("nan")
        atts.append((kind, f, rng.randint(1, 3)))
    line = "solve %d %d %d %d %d %s %s %s %s %s %s %d %s" % (
        1 if dyn else 0, mSub, iterMax, pp, nu, hx(minTs), hx(maxTs), hx(minF), hx(maxF), hx(ti), hx(te), na,
        " ".join("%d %s %d" % (k, hx(f), a) for k, f, a in atts))
    return {"kind": "solve", "line": line, "dyn": dyn, "mSub": mSub, "iterMax": iterMax, "ppolicy": pp,
            "unknowns": nu, "minTs": minTs, "maxTs": maxTs, "minF": minF, "maxF": maxF, "ti": ti, "te": te,
            "script": atts}


def gen_cc(rng):
    ndv = rng.randint(1, 6)
    cons = []
    ngrad = 0
    for c in rng.sample(range(ndv), rng.randint(0, ndv)):
        kind = rng.choice(["g", "f"])
        act = 0 if rng.random() < 0.15 else 1
        d, e = evo_desc(rng)
        cons.append((kind, c, act, d, e))
        if kind == "g":
            ngrad += 1
    n = ndv + ngrad
    eeps = rng.choice([1e-12, 1e-8, 1e-3])
    seps = rng.choice([1e-3, 1e-6, 1.0])
    t = rng.uniform(-2, 5)
    dt = rng.choice([rng.uniform(0, 2), 0.0, 0.5])
    sat = rng.random() < 0.7    # mostly states that (nearly) satisfy the loading, so that `true` is exercised
    scale_e = eeps * rng.choice([0.1, 0.5, 0.999, 1.0, 1.001, 2.0, 100.0])
    scale_s = seps * rng.choice([0.1, 0.5, 0.999, 1.0, 1.001, 2.0, 100.0])
    du = [rng.uniform(-1, 1) * (scale_e if sat else 1.0) for _ in range(n)]
    r = [rng.uniform(-1, 1) * (scale_s if sat else 1.0) for _ in range(n)]
    u1 = [rng.uniform(-2, 2) for _ in range(n)]
    s1 = [rng.uniform(-100, 100) for _ in range(ndv)]
    if rng.random() < 0.03:
        du[rng.randrange(n)] = rng.choice([float("nan"), float("inf")])
    if rng.random() < 0.03:
        r[rng.randrange(n)] = rng.choice([float("nan"), float("-inf")])
    for kind, c, act, d, e in cons:
        target = float_eval(e, t + dt)
        if sat or rng.random() < 0.5:
            off = rng.choice([0.0, 0.5, 0.999, 1.0, 1.001, -0.999, -1.001, 3.0]) if not sat else rng.choice(
                [0.0, 0.5, 0.999, -0.999, 0.9, 1.0, 1.001])
            if kind == "g":
                u1[c] = target + off * eeps
            else:
                s1[c] = target + off * seps
    line = "cc %d %s %s %s %s %d %s %s %s %s %d %s" % (
        ndv, hx(eeps), hx(seps), hx(t), hx(dt), n, " ".join(map(hx, du)), " ".join(map(hx, r)),
        " ".join(map(hx, u1)), " ".join(map(hx, s1)), len(cons),
        " ".join("%s %d %d %s" % (k, c, a, d) for k, c, a, d, _ in cons))
    return {"kind": "cc", "line": line, "ndv": ndv, "eeps": eeps, "seps": seps, "t": t, "dt": dt, "du": du, "r": r,
            "u1": u1, "s1": s1, "cons": [(k, c, a, e) for k, c, a, _, e in cons]}


def gen_mt(rng):
    ndv = rng.randint(1, 4)
    # symmetric diagonally dominant stiffness
    D = [[0.0] * ndv for _ in range(ndv)]
    for i in range(ndv):
        for j in range(i):
            D[i][j] = D[j][i] = rng.uniform(-1, 1)
    for i in range(ndv):
        D[i][i] = rng.uniform(3, 10) + sum(abs(x) for x in D[i])
    nl = rng.choice([0.0, 0.0, 0.5, 2.0])
    eeps, seps = 1e-11, 1e-8
    dyn = rng.random() < 0.5
    nt = rng.randint(2, 5)
    times = [0.0]
    for _ in range(nt - 1):
        times.append(times[-1] + rng.choice([1.0, 0.5, 2.0, rng.uniform(0.1, 3)]))
    cons = []
    for c in range(ndv):
        x = rng.random()
        if x < 0.45:
            kind = "g"
        elif x < 0.85:
            kind = "f"
        else:
            continue
        if rng.random() < 0.25:
            v = rng.uniform(-0.5, 0.5)
            d, e = "c %s" % hx(v), ("c", v)
        else:
            pts = [(t, rng.uniform(-0.5, 0.5) * (1 if kind == "g" else 10)) for t in times if rng.random() < 0.8]
            pts = pts or [(0.0, 0.1)]
            d, e = "l %d %s" % (len(pts), pairs(pts)), ("l", pts)
        cons.append((kind, c, d, e))
    # scripted behaviour failures (they trigger the sub-stepping of the real solver)
    ns = rng.choice([0, 0, 4, 12, 30])
    script = []
    for _ in range(ns):
        if rng.random() < 0.25:
            script.append((0, rng.choice([0.4, 0.5, 0.3, 0.25, 0.7])))
        else:
            script.append((1, rng.choice([1.0, 1.0, 1.5, 0.6])))
    pp = rng.choice([0, 0, 1, 2])
    line = "mt %d %s %s %s %s %d %d %d %d none 4 ToNearest %d %s %d %s %d %s" % (
        ndv, hx(nl), " ".join(hx(D[i][j]) for i in range(ndv) for j in range(ndv)), hx(eeps), hx(seps),
        1 if dyn else 0, 10, 50, pp, nt, " ".join(map(hx, times)), len(cons),
        " ".join("%s %d %s" % (k, c, d) for k, c, d, _ in cons), len(script),
        " ".join("%d %s" % (ok, hx(f)) for ok, f in script))
    return {"kind": "mt", "line": line, "ndv": ndv, "times": times, "cons": [(k, c, e) for k, c, _, e in cons],
            "eeps": eeps, "seps": seps, "dyn": dyn, "script": script, "ppolicy": pp, "nl": nl, "D": D}


# ----------------------------------------------------------------------------- property predicates
def lpi_property(req, ans):
    """the implementation's values interpolate the table linearly (up to rounding) and are constant outside"""
    f = ans.split()
    m = build_table(req["pts"])
    for t, v in req["sets"]:
        mm = [p for p in m if not (p[0] < t or t < p[0])]
        if mm:
            m = [(p[0], v) if p is mm[0] else p for p in m]
        else:
            m = build_table(m + [(t, v)])
    if not m:
        return ans.startswith("err"), "empty table must raise"
    if f[0] != "v" or len(f) < 1 + len(req["qs"]):
        return False, "unexpected answer"
    for q, w in zip(req["qs"], f[1:]):
        if math.isnan(q) or math.isinf(q):
            continue
        ex = exact_interp(m, q)
        got = uh(w)
        if math.isnan(got) or math.isinf(got):
            return False, "value %r at t=%r (expected %s)" % (got, q, float(ex))
        scale = max(abs(float(ex)), max(abs(p[1]) for p in m), 1e-300)
        if abs(Fraction(got) - ex) > Fraction(scale) * Fraction(1, 10 ** 6):
            return False, "value %r at t=%r, linear interpolation gives %r" % (got, q, float(ex))
    return True, ""


def solve_final_time(ans):
    """time reached by the implementation: t + dt of the last attempt, when it was accepted"""
    f = ans.split()
    atts = [(uh(f[i + 1]), uh(f[i + 2])) for i in range(len(f)) if f[i] == "a" and i + 2 < len(f)]
    return atts


def solve_property(req, ans):
    """a normal return happens only at the requested time (within the solver's own end tolerance)"""
    if not ans.startswith("end"):
        return True, ""
    if req["mSub"] == 0:
        return True, ""   # mSubSteps = 0 is rejected by the setter: outside the property's domain
    atts = solve_final_time(ans)
    if not atts:
        return False, "normal return without any attempt"
    t = atts[-1][0] + atts[-1][1]
    te, ti = req["te"], req["ti"]
    tol = tolmag(ti, te)
    if math.isnan(t) or abs(t - te) > 2 * tol:
        return False, "normal return at t=%r, requested te=%r (attempts %s)" % (t, te, atts[-4:])
    return True, ""


def cc_property(req, ans):
    if not ans.startswith("1"):
        return True, ""
    for kind, c, act, e in req["cons"]:
        if not act:
            continue
        target = float_eval(e, req["t"] + req["dt"])
        if kind == "g":
            if not abs(req["u1"][c] - target) < req["eeps"]:
                return False, "accepted with imposed gradient %d = %r, evolution %r, eeps %r" % (c, req["u1"][c], target, req["eeps"])
        else:
            if not abs(req["s1"][c] - target) < req["seps"]:
                return False, "accepted with imposed force %d = %r, evolution %r, seps %r" % (c, req["s1"][c], target, req["seps"])
    for i in range(req["ndv"]):
        if math.isnan(req["du"][i]) or math.isnan(req["r"][i]):
            continue   # NaN is outside the property's quantifier: counted as an observation by the caller
        if not abs(req["du"][i]) <= req["eeps"] or not abs(req["r"][i]) <= req["seps"]:
            return False, "accepted with increment/residual %d out of tolerance" % i
    return True, ""


def mt_property(req, ans):
    """at every requested time each imposed component equals its evolution (within eeps / seps).
    returns (holds, why, number of components checked, site key or None)"""
    f = ans.split()
    if not f or f[0] != "end":
        return True, "", 0, None
    n = req["ndv"] + sum(1 for k, _, _ in req["cons"] if k == "g")
    i = 1
    while i < len(f) and f[i] not in ("a", "T"):
        i += 1
    checked = 0
    seen = []
    atts = []
    while i < len(f):
        if f[i] == "a":
            atts.append((uh(f[i + 1]), uh(f[i + 2])))
            i += 3
            continue
        if f[i] != "T":
            i += 1
            continue
        T = uh(f[i + 1])
        u = [uh(w) for w in f[i + 3:i + 3 + n]]
        s = [uh(w) for w in f[i + 4 + n:i + 4 + n + req["ndv"]]]
        ti = req["times"][len(seen)]
        seen.append(T)
        # the time actually reached by the solver for this requested time
        if atts:
            tf = atts[-1][0] + atts[-1][1]
            if abs(tf - T) > 2 * tolmag(ti, T):
                site = loop_signature(atts, ti, T, req["dyn"], -1.0) or "mtest/src/GenericSolver.cxx:execute"
                return False, ("requested time %r: the time loop stopped at t=%r (attempts %s); the output printed for "
                               "%r is the state at %r" % (T, tf, atts[-4:], T, tf)), checked, site
        for kind, c, e in req["cons"]:
            target = float_eval(e, T)
            got = u[c] if kind == "g" else s[c]
            tol = req["eeps"] if kind == "g" else req["seps"]
            checked += 1
            # 4x: the convergence test is made on the Newton iterate, rounding of the evolution included
            if not abs(got - target) < 4 * tol:
                return False, ("at the requested time %r the imposed %s component %d is %r, its evolution gives %r "
                               "(tolerance %r)" % (T, "gradient" if kind == "g" else "force", c, got, target, tol)), \
                    checked, "mtest/src/MTest.cxx:imposed-loading"
        atts = []
        i += 4 + n + req["ndv"]
    if seen != req["times"][1:]:
        return False, "requested times %r, reached %r" % (req["times"][1:], seen), checked, "mtest/src/MTest.cxx:execute:times"
    return True, "", checked, None


def fe_check(req, impl, model):
    """FunctionEvolution(t) = Evaluator(formula)[t, names -> evolution(t)], bindings as in the model"""
    fi = impl.split()
    fm = model.split()
    if fi[0] != "v" or fm[0] != "v":
        return impl.split()[0] == model.split()[0], "status differs"
    # model: v [ a=.. b=.. t=.. ] ...   impl: v <fe> [ names ] <direct> ...
    mb = []
    cur = None
    for w in fm[1:]:
        if w == "[":
            cur = {}
        elif w == "]":
            mb.append(cur)
        elif "=" in w:
            k, v = w.split("=")
            cur[k] = v
    i = 1
    k = 0
    while i < len(fi) and fi[i] not in ("const", "var"):
        fe = fi[i]
        assert fi[i + 1] == "["
        j = i + 2
        b = {}
        while fi[j] != "]":
            kk, vv = fi[j].split("=")
            b[kk] = vv
            j += 1
        direct = fi[j + 1]
        if k >= len(mb):
            return False, "more evaluations than the model"
        for kk, vv in b.items():
            if mb[k].get(kk) != vv:
                return False, "binding %s=%r, model %r" % (kk, uh(vv), uh(mb[k].get(kk, "0" * 16)))
        if fe != direct and not (math.isnan(uh(fe)) and math.isnan(uh(direct))):
            return False, "FunctionEvolution gives %r, the evaluator on the same bindings %r" % (uh(fe), uh(direct))
        i = j + 2
        k += 1
    return k == len(mb), "number of evaluations"


# ----------------------------------------------------------------------------- the check
def run(ck):
    rng = random.Random(ck.seed)
    harness = c48lib.build(ck, "c48h", os.path.join(vlib.VERIF, "harness", "C48", "harness.cxx"),
                           c48lib.MTEST_SOURCES + ["ConstraintBase"])
    driver = ck.lean_exe("c48driver", "TfelVerif/C48/Driver.lean")
    res = c48lib.lean_checked(ck, PROPS)
    ck.lean_violations(res)
    if not ck.quick:
        for m, msg in ck.leanchecker(PROPS):
            ck.violation("leanchecker:" + m, "leanchecker rejects " + m, {"log": msg}, False)

    q = ck.quick
    reqs = []
    cdir = os.path.join(vlib.VERIF, "corpus", "C48")
    if os.path.isdir(cdir):
        for fn in sorted(os.listdir(cdir)):
            for line in open(os.path.join(cdir, fn)):
                line = line.strip()
                if line and not line.startswith("#"):
                    reqs.append(json.loads(line))      # a request with all the fields of a generated one
    reqs += gen_lines(rng, 1500 if q else 40000, 300 if q else 5000, 4000 if q else 150000, 2000 if q else 60000)
    mts = [gen_mt(rng) for _ in range(300 if q else 6000)]
    mxs = [c48full.gen_mx(rng) for _ in range(400 if q else 8000)]
    # directed probe (observation only, mtest/src/ConstraintBase.cxx is outside the anchors): a constraint
    # desactivated by the event E0 at t=1 must stay inactive when the unrelated event E1 occurs at t=2
    ptimes = [0.0, 1.0, 2.0, 3.0]
    probe = "mx Tridimensional 0 1 %s %s %s %s 0 10 60 0 0 0 %d %s 1 g 0 1 1 0 1 E0 c %s 2 E0 1 %s E1 1 %s 0" % (
        hx(0.0), hx(5.0), hx(1e-11), hx(1e-8), len(ptimes), " ".join(map(hx, ptimes)), hx(0.3), hx(1.0), hx(2.0))
    text = "".join(r["line"] + "\n" for r in reqs)
    pi = c48lib.run_harness(ck, harness, text + "".join(r["line"] + "\n" for r in mts) +
                            "".join(r["line"] + "\n" for r in mxs) + probe + "\n")
    pm = ck.run([driver], input=text, timeout=1500)
    if pi.returncode != 0:
        ck.violation("harness-crash", "the implementation harness aborted (sanitizer or crash)",
                     {"stderr": pi.stderr[-3000:]}, False)
    impl = pi.stdout.splitlines()
    model = pm.stdout.splitlines()

    hist = {}
    classes = {}       # violation class -> (found, what, replay)
    disagreements = 0
    distinct = set()
    rounding_points = 0
    nan_accepted = 0

    def report(key, found, what, rep):
        old = classes.get(key)
        if old is None or (found and not old[0]) or (found == old[0] and len(rep.get("request", "")) < len(old[2].get("request", ""))):
            classes[key] = (found, what, rep)

    for i, r in enumerate(reqs):
        a = impl[i] if i < len(impl) else "missing"
        m = model[i] if i < len(model) else "missing"
        kind = r["kind"] if r["kind"] != "corpus" else r["line"].split()[0]
        hist[kind] = hist.get(kind, 0) + 1
        rep = {"request": r["line"], "request_decoded": pretty(r["line"]), "implementation": pretty(a), "model": pretty(m)}
        if kind == "fe":
            ok, why = fe_check(r, a, m) if r["kind"] != "corpus" else (True, "")
            distinct.add(("fe", r.get("formula"), a.split()[-1]))
            if not ok:
                disagreements += 1
                report("mtest/src/FunctionEvolution.cxx:operator()", True,
                       "FunctionEvolution('%s'): %s" % (r.get("formula"), why), rep)
            continue
        if kind == "cc":
            a_cmp = a.split()[0] if a else a
            distinct.add(("cc", a_cmp, len(r.get("cons", [])), r.get("ndv")))
            holds, why = cc_property(r, a) if r["kind"] != "corpus" else (True, "")
            if a_cmp == "1" and r["kind"] != "corpus" and any(math.isnan(x) for x in r["du"][:r["ndv"]] + r["r"][:r["ndv"]]):
                nan_accepted += 1
            if a_cmp != m or not holds:
                disagreements += 1
                if not holds:
                    report("mtest/src/MTest.cxx:checkConvergence", True, "MTest::checkConvergence: " + why, rep)
                else:
                    report("corr:mtest/src/MTest.cxx:checkConvergence", False,
                           "correspondence Model.lean vs MTest::checkConvergence broken (answer %s, model %s)" % (a_cmp, m), rep)
            continue
        if kind in ("lpi", "cst"):
            distinct.add((kind, len(r.get("pts", [])), len(r.get("sets", [])), a.split()[0] if a else ""))
            if a != m and not (a.startswith("err") and m.startswith("err")):
                disagreements += 1
                holds, why = lpi_property(r, a) if r["kind"] == "lpi" else (False, "constant evolution")
                if not holds:
                    report("mtest/src/Evolution.cxx:LPIEvolution::interpolate", True, "LPIEvolution: " + why, rep)
                else:
                    report("corr:mtest/src/Evolution.cxx:LPIEvolution", False,
                           "correspondence Model.lean vs LPIEvolution broken (values still piecewise linear)", rep)
            elif r["kind"] == "lpi" and a.startswith("v"):
                # observation: tabulated points where double rounding makes the value differ from the table
                tb = dict(build_table(r["pts"]))
                for qv, w in zip(r["qs"], a.split()[1:]):
                    if qv in tb and not r["sets"] and uh(w) != tb[qv]:
                        rounding_points += 1
            continue
        if kind == "solve":
            verdict = a.split()[0] if a else "missing"
            distinct.add(("solve", r.get("dyn"), verdict, min(a.count(" a "), 6), r.get("unknowns") == 0, r.get("ppolicy")))
            hist["solve:" + verdict] = hist.get("solve:" + verdict, 0) + 1
            if r["kind"] == "corpus":
                if a != m:
                    disagreements += 1
                    report("corr:corpus", False, "corpus line differs", rep)
                continue
            holds, why = solve_property(r, a)
            if a != m or not holds:
                disagreements += 1
                sig = loop_signature(solve_final_time(a), r["ti"], r["te"], r["dyn"], r["minTs"])
                site = sig or "mtest/src/GenericSolver.cxx:execute:%s" % ("dynamic" if r["dyn"] else "halving")
                rep2 = dict(rep)
                rep2.update({k: r[k] for k in ("dyn", "mSub", "iterMax", "ppolicy", "unknowns", "minTs", "maxTs", "minF", "maxF", "ti", "te", "script")})
                if not holds:
                    report(site, True, "GenericSolver::execute: " + why, rep2)
                else:
                    report(site if sig else "corr:" + site, False,
                           "correspondence Model.lean vs GenericSolver::execute broken (time loop: attempts differ; "
                           "this run still ends at te or throws)", rep2)
            continue
    # (iv) complete MTest runs on the mock behaviour
    mt_checked = 0
    mt_end = 0
    for j, r in enumerate(mts):
        a = impl[len(reqs) + j] if len(reqs) + j < len(impl) else "missing"
        verdict = a.split()[0] if a else "missing"
        hist["mt:" + verdict.split(":")[0] + (":" + verdict.split(":")[1] if ":" in verdict else "")] = \
            hist.get("mt:" + verdict.split(":")[0] + (":" + verdict.split(":")[1] if ":" in verdict else ""), 0) + 1
        holds, why, n, site = mt_property(r, a)
        mt_checked += n
        mt_end += verdict == "end"
        distinct.add(("mt", r["dyn"], verdict, r["ndv"], len(r["cons"]), r["ppolicy"], r["nl"] != 0))
        if verdict.startswith("err") or verdict == "missing" or verdict.startswith("exc:other"):
            report("mt:harness", False, "MTest run on the mock behaviour failed unexpectedly: " + a[:200],
                   {"request": r["line"], "implementation": a[:400]})
        if not holds:
            disagreements += 1
            rep = {"request": r["line"], "request_decoded": pretty(r["line"]), "implementation": pretty(a),
                   "times": r["times"], "constraints": [(k, c, e) for k, c, e in r["cons"]], "behaviour_script": r["script"],
                   "dynamic_time_step_scaling": r["dyn"]}
            report(site, True, "MTest run on the mock behaviour: " + why, rep)
    if mts and mt_end == 0:
        report("mt:no-run-completes", False, "none of the %d complete MTest runs on the mock behaviour completes any more "
               "(verdicts: %s): the Newton iterations no longer reach the imposed loading" % (len(mts), {k: v for k, v in hist.items() if k.startswith("mt:")}),
               {"request": mts[0]["line"]})
    # (v) complete MTest problems through the public interface, observed at the result file
    mx_checked = 0
    mx_end = {}
    mx_all = {}
    mx_events_end = 0
    for j, r in enumerate(mxs):
        k = len(reqs) + len(mts) + j
        a = impl[k] if k < len(impl) else "missing"
        verdict = a.split()[0] if a else "missing"
        cls = r["hyp"] if r["strain"] else "general-behaviour"
        hist["mx:" + verdict] = hist.get("mx:" + verdict, 0) + 1
        mx_all[cls] = mx_all.get(cls, 0) + 1
        distinct.add(("mx", cls, verdict, r["dyn"], r["freq"], bool(r["events"]), r["ppolicy"], r["nl"] != 0))
        if verdict.startswith("err") or verdict == "missing" or verdict.startswith("exc:other") or verdict == "bad-op":
            report("mx:harness", False, "MTest problem through the public interface failed unexpectedly: " + a[:300],
                   {"request": r["line"], "problem": c48full.decoded(r), "implementation": a[:400]})
            continue
        holds, why, n, site = c48full.mx_property(r, a)
        mx_checked += n
        if verdict == "end":
            mx_end[cls] = mx_end.get(cls, 0) + 1
            mx_events_end += bool(r["events"])
        if not holds:
            disagreements += 1
            report(site, True, "MTest problem (public interface, result file): " + why,
                   {"request": r["line"], "problem": c48full.decoded(r), "result_file_rows": c48full.parse_rows(a)})
    k = len(reqs) + len(mts) + len(mxs)
    prows = c48full.parse_rows(impl[k]) if k < len(impl) else []
    unrelated_event_reactivates = (len(prows) == 4 and abs(prows[2][1]) < 1e-9 and abs(prows[3][1] - 0.3) < 1e-9)
    for cls, n in sorted(mx_all.items()):
        if n >= 10 and mx_end.get(cls, 0) == 0:
            report("mx:no-run-completes:" + cls, False, "none of the %d complete MTest problems of class '%s' completes any "
                   "more (verdicts: %s)" % (n, cls, {k: v for k, v in hist.items() if k.startswith("mx:")}),
                   {"request": next(r["line"] for r in mxs if (r["hyp"] if r["strain"] else "general-behaviour") == cls)})
    for key, (found, what, rep) in sorted(classes.items()):
        if key.startswith("corr:") and classes.get(key[5:], (False,))[0]:
            continue      # the same site is already reported with a concrete failing input
        ck.violation(key, what, rep, found)

    ck.assumptions += [
        "M: Model.lean is tied to the C++ by differential execution on seeded inputs (bit-exact on Float); it is not generated from the sources",
        "the mock mtest::Study / mtest::Behaviour of harness/C48/mock*.hxx stand for the behaviour: the theorems on the time loop quantify over every oracle script, the correspondence samples scripts",
        "FunctionEvolution: the formula itself is evaluated by tfel::math::Evaluator (property C13); checked here: FunctionEvolution(t) = Evaluator(formula) on the bindings t, name -> evolution(t) given by the model",
        "theorems are in exact arithmetic (linearly ordered field, eps > 0 abstract): rounding is not modelled; NaN/inf only in the Float correspondence",
        "convergence of the Newton iterations for generated behaviours is numerics: not claimed (partial)",
        "complete problems (mx): the behaviour is the mock of harness/C48/mockbehaviour.hxx reporting the drawn hypothesis and type; for plane stress / axisymmetrical generalised plane stress its stiffness leaves the out-of-plane component uncoupled (what a generated behaviour does itself); events are declared in the activating or desactivating list of every constraint that has options",
    ]
    samples = []
    for i in (0, len(reqs) // 3, len(reqs) // 2, len(reqs) - 1):
        if 0 <= i < len(reqs):
            samples.append("%s -> impl '%s'" % (pretty(reqs[i]["line"])[:200], pretty(impl[i] if i < len(impl) else "?")[:200]))
    if mts:
        samples.append("%s -> impl '%s'" % (pretty(mts[0]["line"])[:200], pretty(impl[len(reqs)] if len(reqs) < len(impl) else "?")[:300]))
    if mxs:
        k = len(reqs) + len(mts)
        samples.append("%s -> impl '%s'" % (pretty(mxs[0]["line"])[:240], pretty(impl[k] if k < len(impl) else "?")[:300]))
    return ck.finish({
        "evaluations": len(reqs) + len(mts) + len(mxs), "distinct_nontrivial": len(distinct),
        "rule": "requests = seeded random evolutions tables/queries, time-loop scripts (both modes, all exception kinds), convergence-test vectors, FunctionEvolution formulas and complete MTest runs on a mock behaviour; distinct = (operation, mode, verdict, attempt-count bucket / table size / constraint count ...) classes actually observed; non-trivial = every class (each reaches a different branch combination)",
        "exhaustive": False, "disagreements": disagreements,
        "traces_validated_against_impl": len(reqs),
        "histogram": hist,
        "mtest_runs_completed": mt_end, "imposed_components_checked_at_requested_times": mt_checked,
        "public_interface_problems": len(mxs), "public_interface_problems_completed_by_class": mx_end,
        "public_interface_problems_with_events_completed": mx_events_end,
        "result_file_components_checked": mx_checked,
        "observation_event_unrelated_to_a_desactivated_constraint_reactivates_it": unrelated_event_reactivates,
        "observation_lpi_tabulated_points_not_reproduced_bitwise_by_double_rounding": rounding_points,
        "observation_nan_increment_or_residual_accepted_by_checkConvergence": nan_accepted,
        "samples": samples,
    })
